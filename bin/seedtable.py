#!/usr/bin/env python3
"""Prints the markdown table of DESIGN.md §8.5 from seeded/*/meta.json."""
import json, os, glob
V = os.path.dirname(os.path.dirname(os.path.abspath(__file__)))
rows = []
for d in sorted(glob.glob(os.path.join(V, "seeded", "*", "meta.json"))):
    m = json.load(open(d)); sid = os.path.basename(os.path.dirname(d))
    cr = m.get("check_result", {})
    first = m.get("first_run", "caught")
    def esc(s): return s.replace("|", "\\|").replace("\n", " ")
    rows.append(f"| {sid} (r{m.get('round',1)}) | {m['property']} | {esc(m['breaks'])[:260]} | {esc(cr.get('caught_by',''))[:200]} | {esc(first)} |")
print("| seed | property | change | caught by (harness / label) | first run |")
print("|---|---|---|---|---|")
print("\n".join(rows))
