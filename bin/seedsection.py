#!/usr/bin/env python3
"""Refreshes the counts, the 'not reported' list and the generated table of DESIGN.md §8.5 from seeded/*/meta.json."""
import subprocess, json, glob, os, re
V = os.path.dirname(os.path.dirname(os.path.abspath(__file__)))
p = os.path.join(V, "DESIGN.md"); s = open(p).read()
tab = subprocess.check_output(["python3", os.path.join(V, "bin", "seedtable.py")]).decode()
files = glob.glob(os.path.join(V, "seeded", "*", "meta.json"))
metas = {os.path.basename(os.path.dirname(f)): json.load(open(f)) for f in files}
n = len(metas); caught = sum(1 for m in metas.values() if m.get("first_run") == "caught")
notv = sorted(k for k, m in metas.items() if m["check_result"].get("exit") != 1)
s = re.sub(r"\d+ distinct changes are stored; \d+ were reported", f"{n} distinct changes are stored; {caught} were reported", s)
s = re.sub(r"Not reported as VIOLATION even now \(kept in the table, and in §8.4 as limits\): [^\n]*\.", "Not reported as VIOLATION even now (kept in the table, and in §8.4 as limits): " + ", ".join(notv) + ".", s)
a = s.index("<!-- SEEDTABLE BEGIN"); a = s.index("\n", a) + 1
e = s.index("<!-- SEEDTABLE END -->")
s = s[:a] + tab + s[e:]
open(p, "w").write(s)
print(n, caught, notv)
