#!/usr/bin/env python3
"""Regenerates MANIFEST.json from the table below (claimed checks) and properties.jsonl (everything else is not_applicable)."""
import json, os
V = os.path.dirname(os.path.dirname(os.path.abspath(__file__)))
props = [json.loads(l) for l in open(os.path.join(V, "properties.jsonl"))]

TECH = "solver-based symbolic execution of the real go/ssa (symgo) with SMT (z3) discharge of every assertion; counterexamples replayed natively"
NOTE = "trusted: go/ssa, the symgo interpreter + environment models (store/codec/math-big as SMT Int), z3; bounds and stubs are listed in checks/<id>.json and repeated in the evidence file"

CLAIMED = {
 "C05": ("DE queue steps (SubmitDEs, DequeueDE, ResetDE, GetAvailableMembers, bounded histories) and assignment / end-block retry / RequestSigning under a fault schedule from an arbitrary DE state: FIFO, each pair handed out at most once and gone afterwards, MaxDESize bound, failed creations leave every queue unchanged; the signer-side GenerateDEs of cylinder (never returns a pair its store reports as registered) and the tunnel end-block rollback", "DESIGN.md §5 C05, §8"),
 "C19": ("yoda handleTransaction / handleRequest / handleRawRequests / handleRawRequest / GetExecutable with RPC, keyring, executor and file cache as arbitrary-result fakes and all goroutine completion orders: exactly one report message per selected request with one raw report per external id (255 on load/sign/exec failure), passes the chain's report validation, no panic", "DESIGN.md §5 C19, §8"),
 "C11": ("signed payload binding: EncodeSigning layout and injectivity in id/time/content/originator hash, CreateSigning ids never repeat, Direct/Tunnel originator layouts and separation, all nine 4-byte tags equal keccak256(name)[:4] and are pairwise distinct, internal content kinds are refused by RequestSignature, every handler prepends its tag and packs the on-chain values (reference schema written in the harness); the tunnel signing request naming its tunnel, destination and sequence", "DESIGN.md §5 C11, §8"),
 "C12": ("relay proof construction: IAVL inner/leaf op parsing for every varint length, multistore proof positions against a reference RFC-6962 tree over the real store key list, encodeTime against the real gogoproto Timestamp marshalling, the message handed to signature recovery and the relayed vote parts against cometbft's real VoteSignBytes (commit-vote selection, ordering, R/S/V, error propagation; public-key recovery stubbed), header parts recombined as the bridge does against the real Header.Hash() (sha256 uninterpreted)", "DESIGN.md §5 C12, §8"),
 "C18": ("group transition: TransitionGroup / ForceTransitionGroup, the tss callbacks (group creation completed/failed/expired, signing completed/failed/timeout), requests during a transition and the bandtss EndBlocker from an arbitrary transition state: the current group changes only in ExecuteGroupTransition at/after ExecTime from WAITING_EXECUTION, otherwise the transition is dropped; members mirror the incoming group; no reachable panic", "DESIGN.md §5 C18, §8"),
 "C13": ("service fees: oracle CollectFee/feeCollector.Collect over a 2-denom bank (accept iff every cumulative fee stays within limit and balance; exact ledgers; debit never above the limit), bandtss createSigningRequest (fee = fee_per_signer x threshold, escrow, free for authority / no group, fee reject before any transfer, incoming-group request rolled back on failure) and payouts in OnSigningCompleted/OnSigningFailed from an arbitrary escrow state; the tunnel and oracle end-block rollbacks of a failed signing creation", "DESIGN.md §5 C13, §8"),
 "C14": ("one AllocateTokens step of x/oracle and x/bandtss and the wrapped bank BurnCoins over symbolic fee pools, powers, percentages, community tax and activity flags: exact conservation per denom, inactive participants get nothing, remainders to proposer / community pool, no negative Sub (no panic); the proportional split with 2 always-active voters of arbitrary power, the oracle BeginBlocker with arbitrary block-id flags, and the application's begin-block order (mint < oracle < bandtss < distribution)", "DESIGN.md §5 C14, §8"),
 "C15": ("oracle Activate / MissReport (exact second+nanosecond arithmetic), the pure feeds CheckMissReport / checkHavePrice kernels with all clocks symbolic, SubmitSignalPrices storing block time, and CalculatePrices deactivating only genuinely missed validators; SetCurrentFeeds stamping every feed-list update with this block's time and height", "DESIGN.md §5 C15, §8"),
 "C16": ("one step of Unstake / Stake / SetLockedPower / DeactivateVault and of the staking hooks (Undelegate, Redelegate, Delegate through AfterDelegationModified / BeforeDelegationRemoved) from an arbitrary restake state: accept iff remaining power >= largest lock of an active vault, exact ledgers, lock index has exactly one entry per lock and orders numerically, deactivated vaults never constrain nor reactivate", "DESIGN.md §5 C16, §8"),
 "C04": ("pkg/tss DKG algebra over the algebraic secp256k1 model: key consistency (group key = sum of a0 commits = image of summed secrets, member keys = image of summed shares), complaint algebra for every dealer/recipient pair of ids 1..3 (DH agreement, decrypt = dealt share, bad share => complaint succeeds, good share => complaint refuted), completeness of the proofs of possession, FindMemberSlot arithmetic for all ids <= 20 and its agreement with the real share placement; keeper-level DKG state machine (SubmitDKGRound1/2, Complain, Confirm, end-block group processing, a full honest / one-cheater run through the message server), MsgComplain.ValidateBasic (one complainant per message) and a structured forged complaint proof (wrong symmetric key)", "DESIGN.md §5 C04, §8"),
 "C08": ("tunnel packet production: pure kernels GenerateNewPrices/calculateDeviationBPS for all prices and thresholds, one ProduceActiveTunnelPackets end-block step and one TriggerTunnel step through the real keeper from an arbitrary tunnel state (packet iff due and route succeeds, sequence +1, fees charged once, any failure/panic leaves store and balances unchanged)", "DESIGN.md §5 C08, §8"),
 "C17": ("one step of DepositToTunnel / WithdrawFromTunnel / ActivateTunnel / DeactivateTunnel through the real tunnel msg server from an arbitrary deposit state (2 tunnels x 2 depositors x 2 denoms) satisfying the module invariant: accept iff specified, exact ledger deltas, total = sum of records, active flag <=> index, state unchanged on rejection; genesis export / import round trip of an arbitrary tunnel state", "DESIGN.md §5 C17, §8"),
 "C02": ("PARTIAL. Totality: the begin/end-block code of x/feeds, x/oracle, x/tunnel and x/bandtss executed from arbitrary bounded module states and every parameter set accepted by validation never returns an error or lets a panic escape; determinism: feeds Vote / signal totals under every map iteration order, a static scan of all consensus packages for map ranges, goroutines, select, clocks and randomness whose reviewed allow-list is part of the check (an unreviewed site makes the check exit 2), and every such source reached on a chain-side path of any harness is reported as a VIOLATION. Outside: the Cosmos SDK / CometBFT / IAVL layers, ante handlers, app hash computation, wasm execution (go-owasm FFI)", "DESIGN.md §5 C02, §8.4"),
 "C20": ("PARTIAL. grogu daemon: one real Signaller.Start iteration against the real feeds keeper and gRPC query server followed by the real MsgSubmitSignalPrices handler (whatever grogu decides to submit is accepted by the chain within the stated clock discrepancy), the calculateAssignedTime / filterAndPrepareSignalPrices kernels with all clocks symbolic (a due signal is selected from max(assigned, ts+cooldown+3) on and before the chain's miss deadline, under the stated polling/latency assumption), the real submitPrice under every key / broadcast / tx-query / monitoring outcome with a step clock, and the in-flight set shared by execute and submitPrice over all sequentialised schedules (no signal in two submissions, marks always released, keys returned once). Outside: the float64 isDeviated kernel, broadcastMsg internals, preemptive interleavings", "DESIGN.md §5 C20, §8"),
 "C10": ("signing life cycle in x/tss: SubmitSignature (accepted iff waiting, assigned, signer's account, not yet signed, honest share under the secp256k1 model), HandleSigningEndBlock / EndBlocker with one and two signings, HandleExpiredSignings, aggregation, InitiateNewSigningRound and HandleFailedSigning from arbitrary bounded states with a specification-side mirror: status only WAITING->SUCCESS|FALLEN, expiry exactly at ExpiredHeight <= height, idle members = assigned without a share, retry = attempt+1 <= MaxSigningAttempt with a fresh DRBG committee and fresh DEs, callbacks exactly once in order, interim data deleted", "DESIGN.md §5 C10, §8"),
 "C01": ("one MsgRequestData step (ValidateBasic + PrepareRequest with an arbitrary prepare phase), one MsgReportData step and one oracle EndBlocker step through the real msg server / keeper / abci code from an arbitrary stored oracle state satisfying the module invariant (inductive step): accepted iff authorised, pending trigger exactly at min_count, every pending request resolved once with a result mirroring the request, results immutable, expiry prefix in id order, failed/panicking signing creation rolled back; the exactness of a report's external ids over MsgReportData.ValidateBasic + CheckValidReport for 3-4 raw requests", "DESIGN.md §5 C01"),
 "C03": ("one full pkg/tss signing round per enumerated committee over an algebraic secp256k1 model with the real group order: honest shares verify, any other s / R / signer key is rejected, the aggregate verifies under the group key; polynomial, nonces, message and hash outputs symbolic", "DESIGN.md §5 C03"),
 "C09": ("bounded symbolic execution of ChooseOne/ChooseSome/ChooseSomeMaxWeight with every DRBG draw symbolic: size, range, distinctness and equality with an independent sampling-without-replacement reference", "DESIGN.md §5 C09"),
 "C06": ("MedianValidatorPriceInfos against an order-free reference written from the README and a relational oracle (non-AVAILABLE entries have no influence), CalculatePricesPowers, the CalculatePrice status rule, and CalculatePrices over the staking fake; all statuses, powers < 2^64, prices and timestamps of up to n entries (n in checks/C06.json)", "DESIGN.md §5 C06"),
 "C07": ("one MsgVote step through the real feeds and restake keepers from an arbitrary standing-vote state (2 voters x 3 signals): vote <= power as mathematical integers, lock, totals = sum of votes, by-power index order", "DESIGN.md §5 C07"),
}
# reasons for the properties not (yet) claimed
NA = {}

checks = []
for pid in sorted(CLAIMED):
    text, ref = CLAIMED[pid]
    checks.append({
        "property_id": pid,
        "quick_cmd": f"bin/check {pid} quick",
        "thorough_cmd": f"bin/check {pid} thorough",
        "evidence_file": f"/verif/evidence/{pid}.json",
        "replay_cmd_template": "cd /repo && VERIF_TAPE={path} go test -tags verif -vet=off -count=1 -v -overlay /verif/build/overlay.json -run '^TestVerifReplay$' ./...",
        "engine": "symgo",
        "level_claimed": {"category": "model_checking", "text": text, "design_ref": ref},
        "level_note": NOTE,
        "technique": TECH,
    })
na = []
for p in props:
    if p["id"] in CLAIMED:
        continue
    na.append({"property_id": p["id"], "reason": NA.get(p["id"], "check not built yet in this session (engine bring-up in progress; see DESIGN.md §4 build order)")})
m = {
 "version": 1,
 "setup_cmd": "bin/setup",
 "hooks": {"guard": "verif",
           "enable": "harness files under /verif/harness are overlaid onto /repo at load time (go/packages Overlay for the engine, `go test -tags verif -overlay` for native replays); nothing guarded is committed to /repo",
           "baseline_off_cmd": "cd /repo && go test -vet=off -count=1 -timeout 25m ./...",
           "source_commits": [], "add_only": True},
 "engines": [{"name": "symgo", "path": "/verif/engine", "serves_properties": sorted(CLAIMED),
              "kind_free_text": "forking symbolic executor over go/ssa (x/tools v0.29.0) with an SMT-LIB2 back end (z3 5.1 primary); harnesses in /verif/harness, bounds in /verif/checks"}],
 "checks": checks,
 "not_applicable": na,
 "notes": "exit 0 = every obligation unsat within the stated bounds; exit 1 = VIOLATION (counterexample replayed against the native build); exit 2 = INCONCLUSIVE (solver unknown, unwinding bound, unmodelled callee, vacuity)",
}
json.dump(m, open(os.path.join(V, "MANIFEST.json"), "w"), indent=1)
print("claimed:", sorted(CLAIMED))
