#!/usr/bin/env python3
"""Regenerates MANIFEST.json from the table below (claimed checks) and properties.jsonl (everything else is not_applicable)."""
import json, os
V = os.path.dirname(os.path.dirname(os.path.abspath(__file__)))
props = [json.loads(l) for l in open(os.path.join(V, "properties.jsonl"))]

TECH = "solver-based symbolic execution of the real go/ssa (symgo) with SMT (z3) discharge of every assertion; counterexamples replayed natively"
NOTE = "trusted: go/ssa, the symgo interpreter + environment models (store/codec/math-big as SMT Int), z3; bounds and stubs are listed in checks/<id>.json and repeated in the evidence file"

CLAIMED = {
 "C01": ("one MsgReportData step and one oracle EndBlocker step through the real msg server / keeper / abci code from an arbitrary stored oracle state satisfying the module invariant (inductive step): accepted iff authorised, pending trigger exactly at min_count, every pending request resolved once with a result mirroring the request, results immutable, expiry prefix in id order, failed/panicking signing creation rolled back", "DESIGN.md §5 C01"),
 "C03": ("one full pkg/tss signing round per enumerated committee over an algebraic secp256k1 model with the real group order: honest shares verify, any other s / R / signer key is rejected, the aggregate verifies under the group key; polynomial, nonces, message and hash outputs symbolic", "DESIGN.md §5 C03"),
 "C09": ("bounded symbolic execution of ChooseOne/ChooseSome/ChooseSomeMaxWeight with every DRBG draw symbolic: size, range, distinctness and equality with an independent sampling-without-replacement reference", "DESIGN.md §5 C09"),
 "C06": ("bounded symbolic execution of MedianValidatorPriceInfos/CalculatePricesPowers from go/ssa against an order-free reference written from the README; all statuses, powers < 2^64, prices and timestamps of up to n entries (n in checks/C06.json)", "DESIGN.md §5 C06"),
 "C07": ("one MsgVote step through the real feeds and restake keepers from an arbitrary standing-vote state (2 voters x 3 signals): vote <= power as mathematical integers, lock, totals = sum of votes, by-power index order", "DESIGN.md §5 C07"),
}
# reasons for the properties not (yet) claimed
NA = {}

checks = []
for pid in sorted(CLAIMED):
    text, ref = CLAIMED[pid]
    checks.append({
        "property_id": pid,
        "quick_cmd": f"bin/check {pid} quick",
        "thorough_cmd": f"bin/check {pid} thorough",
        "evidence_file": f"/verif/evidence/{pid}.json",
        "replay_cmd_template": "cd /repo && VERIF_TAPE={path} go test -tags verif -vet=off -count=1 -v -overlay /verif/build/overlay.json -run '^TestVerifReplay$' ./...",
        "engine": "symgo",
        "level_claimed": {"category": "model_checking", "text": text, "design_ref": ref},
        "level_note": NOTE,
        "technique": TECH,
    })
na = []
for p in props:
    if p["id"] in CLAIMED:
        continue
    na.append({"property_id": p["id"], "reason": NA.get(p["id"], "check not built yet in this session (engine bring-up in progress; see DESIGN.md §4 build order)")})
m = {
 "version": 1,
 "setup_cmd": "bin/setup",
 "hooks": {"guard": "verif",
           "enable": "harness files under /verif/harness are overlaid onto /repo at load time (go/packages Overlay for the engine, `go test -tags verif -overlay` for native replays); nothing guarded is committed to /repo",
           "baseline_off_cmd": "cd /repo && go test -vet=off -count=1 -timeout 25m ./...",
           "source_commits": [], "add_only": True},
 "engines": [{"name": "symgo", "path": "/verif/engine", "serves_properties": sorted(CLAIMED),
              "kind_free_text": "forking symbolic executor over go/ssa (x/tools v0.29.0) with an SMT-LIB2 back end (z3 5.1 primary); harnesses in /verif/harness, bounds in /verif/checks"}],
 "checks": checks,
 "not_applicable": na,
 "notes": "exit 0 = every obligation unsat within the stated bounds; exit 1 = VIOLATION (counterexample replayed against the native build); exit 2 = INCONCLUSIVE (solver unknown, unwinding bound, unmodelled callee, vacuity)",
}
json.dump(m, open(os.path.join(V, "MANIFEST.json"), "w"), indent=1)
print("claimed:", sorted(CLAIMED))
