//go:build verif

package rollingseed

import (
	"testing"

	"github.com/bandprotocol/chain/v3/vsupport"
)

func TestVerifReplay(t *testing.T) { vsupport.Replay(t) }
