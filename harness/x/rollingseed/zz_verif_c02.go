//go:build verif

package rollingseed

import (
	"cosmossdk.io/core/header"
	storetypes "cosmossdk.io/store/types"

	vs "github.com/bandprotocol/chain/v3/vsupport"
	"github.com/bandprotocol/chain/v3/vsupport/venv"
	"github.com/bandprotocol/chain/v3/x/rollingseed/keeper"
	"github.com/bandprotocol/chain/v3/x/rollingseed/types"
)

func init() { vs.RegisterHarness("VerifC02RollingSeedBeginBlock", VerifC02RollingSeedBeginBlock) }

// VerifC02RollingSeedBeginBlock: the rolling-seed begin-blocker from any stored 32-byte seed (the length
// InitGenesis sets and this step preserves) and any block hash (absent or 32 bytes): no error, no panic, the new
// seed is the old one shifted by one byte with the first byte of the block hash appended, so it is a function of
// the committed state and the block only and keeps its length.
func VerifC02RollingSeedBeginBlock() {
	key := storetypes.NewKVStoreKey(types.StoreKey)
	ctx := venv.NewContext(key)
	k := keeper.NewKeeper(key)
	seed := vs.Bytes("rolling_seed", types.RollingSeedSizeInBytes)
	k.SetRollingSeed(ctx, seed)
	hash := vs.Bytes("block_hash", 32*vs.Pick("block_hash_present", 2))
	ctx = ctx.WithHeaderInfo(header.Info{Hash: hash})

	err := BeginBlocker(ctx, k)

	vs.Assert("no-error", err == nil)
	got := k.GetRollingSeed(ctx)
	vs.Assert("length-kept", len(got) == types.RollingSeedSizeInBytes)
	if len(got) != types.RollingSeedSizeInBytes {
		return
	}
	if len(hash) == 0 {
		for i := range got {
			vs.Assert("unchanged-without-hash", got[i] == seed[i])
		}
		vs.Reach("no-hash", true)
		return
	}
	for i := 0; i+1 < len(got); i++ {
		vs.Assert("shifted-by-one", got[i] == seed[i+1])
	}
	vs.Assert("hash-byte-appended", got[len(got)-1] == hash[0])
	vs.Reach("rolled", true)
}
