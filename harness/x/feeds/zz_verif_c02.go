//go:build verif

package feeds

import (
	vs "github.com/bandprotocol/chain/v3/vsupport"
	"github.com/bandprotocol/chain/v3/x/feeds/keeper"
)

func init() { vs.RegisterHarness("VerifC02FeedsEndBlock", VerifC02FeedsEndBlock) }

// VerifC02FeedsEndBlock runs the real feeds EndBlocker (state construction next to the keeper).
func VerifC02FeedsEndBlock() { keeper.VerifC02FeedsEndBlockWith(EndBlocker) }
