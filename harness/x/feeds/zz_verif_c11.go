//go:build verif

package feeds

import (
	"bytes"
	"errors"
	"time"

	vs "github.com/bandprotocol/chain/v3/vsupport"
	"github.com/bandprotocol/chain/v3/x/feeds/keeper"
	"github.com/bandprotocol/chain/v3/x/feeds/types"
	tsstypes "github.com/bandprotocol/chain/v3/x/tss/types"
)

func init() {
	vs.RegisterHarness("VerifC11FeedsHandler", VerifC11FeedsHandler)
}

// VerifC11FeedsHandler: the feeds content handler over an arbitrary price store.
//
// Universe: three signal ids (3 bytes, 32 bytes, 5 bytes); each is either stored with an arbitrary price, status and
// timestamp or absent. The order lists 0..max_ids ids picked from the universe (repeats allowed).
//
//	accepted iff len(ids) <= MaxSignalIDsPerSigning and the encoder is FIXED_POINT_ABI or TICK_ABI;
//	message = tag | abi.encode([(id, stored price or 0 when absent)] in request order, block time).
func VerifC11FeedsHandler() {
	maxIDs := vs.Param("max_ids")
	limit := vs.U64("max_signal_ids_per_signing")
	ctx, k := keeper.VerifC11Setup(limit)
	secs := vs.I64("block_time_unix")
	vs.Assume(secs > -(1<<55) && secs < (1<<55))
	ctx = ctx.WithBlockTime(time.Unix(secs, 0))

	mode := vs.Pick("encoder", 3)
	enc := types.ENCODER_FIXED_POINT_ABI
	switch mode {
	case 1:
		enc = types.ENCODER_TICK_ABI
	case 2:
		enc = types.Encoder(vs.I32("other_encoder"))
		vs.Assume(enc != types.ENCODER_FIXED_POINT_ABI && enc != types.ENCODER_TICK_ABI)
	}

	universe := []string{"BTC", "0123456789abcdef0123456789abcdef", "ETH-X"}
	stored := make([]bool, len(universe))
	price := make([]uint64, len(universe))
	for i, id := range universe {
		stored[i] = vs.Bool("price_stored")
		if !stored[i] {
			continue
		}
		price[i] = vs.U64("stored_price")
		if mode == 1 {
			price[i] = types.VerifC11TickPrices[vs.Pick("tick_price", len(types.VerifC11TickPrices))]
		}
		k.SetPrice(ctx, types.Price{SignalID: id, Status: types.PriceStatus(vs.Int("status", 0, 3)), Price: price[i],
			Timestamp: vs.I64("price_timestamp")})
	}

	n := vs.Pick("n_ids", maxIDs+1)
	ids := make([]string, n)
	ref := make([]types.VerifC11RefPrice, n)
	for j := range ids {
		u := vs.Pick("id_choice", len(universe))
		ids[j] = universe[u]
		ref[j] = types.VerifC11RefPrice{SignalID: types.VerifC11RefID(universe[u]), Price: price[u]}
		if mode == 1 {
			ref[j].Price = types.VerifC11RefTick(price[u])
		}
	}
	order := types.NewFeedSignatureOrder(ids, enc)
	h := NewSignatureOrderHandler(k)
	out, err := h(ctx, order)

	fits := uint64(n) <= limit
	vs.Assert("accepted-iff-count-fits-and-encoder-known", (err == nil) == (fits && mode != 2))
	if err != nil {
		vs.Assert("no-bytes-on-error", len(out) == 0)
		if !fits {
			vs.Assert("too-many-ids-error", errors.Is(err, types.ErrInvalidSignalIDs))
			vs.Reach("too-many-ids", true)
		} else {
			vs.Assert("unknown-encoder-error", errors.Is(err, types.ErrInvalidEncoder))
			vs.Reach("unknown-encoder", true)
		}
		return
	}
	tag := "FixedPointABI"
	if mode == 1 {
		tag = "TickABI"
	}
	vs.Assert("message-is-tag-then-abi-of-stored-prices-and-block-time",
		bytes.Equal(out, types.VerifC11RefFeedsMessage(tag, ref, secs)))
	vs.Assert("feeds-order-is-not-internal", !order.IsInternal())
	vs.Assert("route-is-feeds", order.OrderRoute() == "feeds")
	_, err2 := h(ctx, tsstypes.NewTextSignatureOrder([]byte("x")))
	vs.Assert("foreign-kind-refused", err2 != nil)
	vs.Reach("fixed-point-encoded", mode == 0)
	vs.Reach("tick-encoded", mode == 1)
	vs.Reach("encoded-at-limit", uint64(n) == limit)
}
