//go:build verif

package keeper

import (
	sdk "github.com/cosmos/cosmos-sdk/types"

	"github.com/bandprotocol/chain/v3/vsupport/venv"
	oraclekeeper "github.com/bandprotocol/chain/v3/x/oracle/keeper"
)

// VerifFeedsEnv is the chain side of the grogu harnesses (C20): the real feeds keeper on the store model with the
// REAL oracle keeper behind it (validator status) and the staking fake, exactly the environment of the C15 harnesses.
type VerifFeedsEnv struct {
	Ctx     sdk.Context
	K       Keeper
	Oracle  oraclekeeper.Keeper
	Staking *venv.Staking
}

// VerifNewFeedsEnv builds a fresh chain environment for harnesses living outside this package.
func VerifNewFeedsEnv() VerifFeedsEnv {
	e := c15Setup()
	return VerifFeedsEnv{Ctx: e.ctx, K: e.k, Oracle: e.ok, Staking: e.staking}
}
