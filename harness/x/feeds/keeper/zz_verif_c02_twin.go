//go:build verif

package keeper

import (
	"bytes"

	sdkmath "cosmossdk.io/math"

	vs "github.com/bandprotocol/chain/v3/vsupport"
	"github.com/bandprotocol/chain/v3/vsupport/venv"
	"github.com/bandprotocol/chain/v3/x/feeds/types"
)

func init() { vs.RegisterHarness("VerifC02VoteTwinRun", VerifC02VoteTwinRun) }

func c02Trace() [][]byte {
	n := vs.StoreTraceLen()
	ops := make([][]byte, n)
	for i := 0; i < n; i++ {
		ops[i] = vs.StoreTraceOp(i)
	}
	return ops
}

// VerifC02VoteTwinRun: the same MsgVote is executed twice from the same committed state (two cache contexts of
// one base state), the way two nodes execute one transaction. Under the engine's "all map iteration orders"
// mode every `range` over a Go map forks over all permutations, independently in the two executions. The two
// executions must agree on the outcome and perform the same KVStore operations in the same order with the same
// keys and written bytes: that sequence is what gas consumption (and, for an execution that runs out of gas half
// way, the point of failure) is computed from. The "schedule:" labels are reported without a native replay: a
// native run cannot be steered into a chosen pair of map iteration orders.
func VerifC02VoteTwinRun() {
	e := c07Setup()
	ctx, k := e.ctx, e.k
	nU := vs.Param("n_signals")
	voterA := venv.Addr(1)

	p := types.DefaultParams()
	k.cdcSetParams(ctx, p)

	// pre-state: a standing vote of A over any subset, totals = A's vote + an arbitrary rest
	var sigA []types.Signal
	for i := 0; i < nU; i++ {
		rest := vs.I64("other_voters_power")
		vs.Assume(rest >= 0 && rest < 1<<61)
		old := int64(0)
		if vs.Bool("A_had") {
			old = vs.I64("A_old_power")
			vs.Assume(old > 0 && old < 1<<61)
			sigA = append(sigA, types.NewSignal(c07Universe[i], old))
		}
		if old+rest != 0 {
			k.SetSignalTotalPower(ctx, types.NewSignal(c07Universe[i], old+rest))
		}
	}
	if len(sigA) > 0 {
		k.SetVote(ctx, types.NewVote(voterA.String(), sigA))
	}
	e.staking.Bonded[string(voterA)] = sdkmath.NewIntFromUint64(vs.U64("A_bonded"))

	var msgSignals []types.Signal
	for i := 0; i < nU; i++ {
		if vs.Bool("vote_for") {
			msgSignals = append(msgSignals, types.NewSignal(c07Universe[i], vs.I64("new_power")))
		}
	}
	msg := types.NewMsgVote(voterA.String(), msgSignals)
	vs.Assume(msg.ValidateBasic() == nil)
	srv := NewMsgServerImpl(k)

	ctx1, _ := ctx.CacheContext()
	vs.StoreTraceStart()
	_, err1 := srv.Vote(ctx1, msg)
	ops1 := c02Trace()

	ctx2, _ := ctx.CacheContext()
	vs.StoreTraceStart()
	_, err2 := srv.Vote(ctx2, msg)
	ops2 := c02Trace()

	vs.Assert("schedule:same-outcome", (err1 == nil) == (err2 == nil))
	vs.Assert("schedule:same-number-of-store-operations", len(ops1) == len(ops2))
	for i := range ops1 {
		if i < len(ops2) {
			vs.Assert("schedule:same-store-operation-sequence", bytes.Equal(ops1[i], ops2[i]))
		}
	}
	vs.Reach("accepted", err1 == nil)
	vs.Reach("rejected", err1 != nil)
}
