//go:build verif

package keeper

import (
	"sort"
	"time"

	sdkmath "cosmossdk.io/math"

	sdk "github.com/cosmos/cosmos-sdk/types"
	stakingtypes "github.com/cosmos/cosmos-sdk/x/staking/types"

	vs "github.com/bandprotocol/chain/v3/vsupport"
	"github.com/bandprotocol/chain/v3/vsupport/venv"
	"github.com/bandprotocol/chain/v3/x/feeds/types"
	oracletypes "github.com/bandprotocol/chain/v3/x/oracle/types"
)

func init() {
	vs.RegisterHarness("VerifC02GenesisTotals", VerifC02GenesisTotals)
}

// VerifC02GenesisTotals: CalculateSignalTotalPowersFromVotes (it ranges over a Go map) under EVERY map iteration
// order (tier option map_order=all): the result is always the id-sorted list of per-signal sums.
func VerifC02GenesisTotals() {
	nU := 3
	var votes []types.Vote
	sum := make([]int64, nU)
	voted := make([]bool, nU)
	for v := 0; v < 2; v++ {
		var sigs []types.Signal
		for i := 0; i < nU; i++ {
			if vs.Bool("votes_for") {
				p := vs.I64("power")
				vs.Assume(p > 0 && p < 1<<61)
				sigs = append(sigs, types.NewSignal(c07Universe[i], p))
				sum[i] += p
				voted[i] = true
			}
		}
		votes = append(votes, types.NewVote(venv.Addr(v+1).String(), sigs))
	}
	got := CalculateSignalTotalPowersFromVotes(votes)
	var wantIDs []string
	for i := 0; i < nU; i++ {
		if voted[i] {
			wantIDs = append(wantIDs, c07Universe[i])
		}
	}
	sort.Strings(wantIDs)
	vs.Assert("one-entry-per-voted-signal", len(got) == len(wantIDs))
	for i := range got {
		if i < len(wantIDs) {
			vs.Assert("sorted-by-id", got[i].ID == wantIDs[i])
			for j := 0; j < nU; j++ {
				if c07Universe[j] == got[i].ID {
					vs.Assert("power-is-sum", got[i].Power == sum[j])
				}
			}
		}
	}
	if len(got) >= 2 {
		vs.Reach("several-signals", true)
	}
}

// VerifC02FeedsEndBlockWith: the feeds end-blocker is total — from an arbitrary bounded feeds state and ANY
// parameters accepted by Params.Validate (including a zero price quorum) it returns no error and does not panic.
func VerifC02FeedsEndBlockWith(endBlocker func(sdk.Context, Keeper) error) {
	e := c15Setup()
	k := e.k
	p := types.DefaultParams()
	p.PriceQuorum = []string{"0", "0.30", "1"}[vs.Pick("price_quorum", 3)]
	p.MaxCurrentFeeds = uint64(vs.Pick("max_current_feeds", 2))
	p.CurrentFeedsUpdateInterval = vs.I64("current_feeds_update_interval")
	if err := k.SetParams(e.ctx, p); err != nil {
		vs.Assume(false)
	}
	ctx, _, now, _ := c15Block(e.ctx, "now")

	// one signal total (feed candidate) and the current feed list
	if vs.Bool("signal_exists") {
		pw := vs.I64("total_power")
		vs.Assume(pw > 0)
		k.SetSignalTotalPower(ctx, types.NewSignal(c07Universe[0], pw))
	}
	if vs.Bool("has_current_feed") {
		iv := vs.I64("interval")
		vs.Assume(iv > 0 && iv < 1<<40)
		k.SetCurrentFeeds(ctx, []types.Feed{types.NewFeed(c07Universe[0], vs.I64("feed_power"), iv)})
	}
	// one validator: bonded or not, oracle-active or not, with or without a price for the feed
	tokens := []uint64{1, 1000}[vs.Pick("tokens", 2)] // 1 makes bonded*quorum truncate to zero
	st := stakingtypes.Unbonded
	if vs.Bool("bonded") {
		st = stakingtypes.Bonded
	}
	val := venv.ValAddr(1)
	e.staking.Vals = append(e.staking.Vals, stakingtypes.Validator{OperatorAddress: val.String(), Status: st, Tokens: sdkmath.NewIntFromUint64(tokens)})
	since := vs.I64("since_sec")
	vs.Assume(since >= 0 && since < c15MaxSec)
	e.ok.SetValidatorStatus(ctx, val, oracletypes.NewValidatorStatus(vs.Bool("oracle_active"), time.Unix(since, 0).UTC()))
	if vs.Bool("has_price") {
		pt := vs.I64("price_time")
		vs.Assume(pt >= 0 && pt < 1<<40)
		status := types.SignalPriceStatus(vs.Int("price_status", 0, 3))
		_ = k.SetValidatorPriceList(ctx, val, []types.ValidatorPrice{{
			SignalPriceStatus: status, SignalID: c07Universe[0], Price: vs.U64("price"), Timestamp: pt, BlockHeight: vs.I64("price_height"),
		}})
	}
	_ = now

	err := endBlocker(ctx, k)
	vs.Assert("end-blocker-returns-no-error", err == nil)
	vs.Reach("end-block-done", true)
}
