//go:build verif

package keeper

import (
	"math/big"

	sdkmath "cosmossdk.io/math"
	storetypes "cosmossdk.io/store/types"

	sdk "github.com/cosmos/cosmos-sdk/types"

	vs "github.com/bandprotocol/chain/v3/vsupport"
	"github.com/bandprotocol/chain/v3/vsupport/venv"
	"github.com/bandprotocol/chain/v3/x/feeds/types"
	restakekeeper "github.com/bandprotocol/chain/v3/x/restake/keeper"
	restaketypes "github.com/bandprotocol/chain/v3/x/restake/types"
)

func init() {
	vs.RegisterHarness("VerifC07Vote", VerifC07Vote)
}

var c07Universe = []string{"AAA", "BBB", "CCC"}

type c07Env struct {
	ctx     sdk.Context
	k       Keeper
	rk      restakekeeper.Keeper
	staking *venv.Staking
}

func c07Setup() c07Env {
	feedsKey := storetypes.NewKVStoreKey(types.StoreKey)
	restakeKey := storetypes.NewKVStoreKey(restaketypes.StoreKey)
	ctx := venv.NewContext(feedsKey, restakeKey)
	cdc := venv.Codec()
	staking := venv.NewStaking()
	authority := venv.Addr(9).String()
	rk := restakekeeper.NewKeeper(cdc, restakeKey, venv.Auth{}, venv.NewBank(), staking, authority)
	k := NewKeeper(cdc, feedsKey, nil, staking, rk, venv.Authz{}, authority)
	return c07Env{ctx: ctx, k: k, rk: rk, staking: staking}
}

// bigOf converts an int64 to a mathematical integer.
func bigOf(x int64) *big.Int { return new(big.Int).SetInt64(x) }

// VerifC07Vote: one MsgVote step from an arbitrary standing-vote state of two voters over three signals.
func VerifC07Vote() {
	e := c07Setup()
	ctx, k := e.ctx, e.k
	nU := vs.Param("n_signals") // size of the signal universe (<= 3)
	voterA, voterB := venv.Addr(1), venv.Addr(2)

	p := types.DefaultParams()
	p.MaxCurrentFeeds = vs.U64("max_current_feeds")
	k.cdcSetParams(ctx, p)

	// ---- arbitrary pre-state satisfying the invariant "total[s] = sum of standing votes for s"
	oldA := make([]int64, nU) // 0 = not voted
	oldB := make([]int64, nU)
	var sigA, sigB []types.Signal
	for i := 0; i < nU; i++ {
		if vs.Bool("A_had") {
			oldA[i] = vs.I64("A_old_power")
			vs.Assume(oldA[i] > 0 && oldA[i] < 1<<61)
			sigA = append(sigA, types.NewSignal(c07Universe[i], oldA[i]))
		}
		if vs.Bool("B_has") {
			oldB[i] = vs.I64("B_power")
			vs.Assume(oldB[i] > 0 && oldB[i] < 1<<61)
			sigB = append(sigB, types.NewSignal(c07Universe[i], oldB[i]))
		}
	}
	if len(sigA) > 0 {
		k.SetVote(ctx, types.NewVote(voterA.String(), sigA))
	}
	if len(sigB) > 0 {
		k.SetVote(ctx, types.NewVote(voterB.String(), sigB))
	}
	for i := 0; i < nU; i++ {
		if oldA[i]+oldB[i] != 0 {
			k.SetSignalTotalPower(ctx, types.NewSignal(c07Universe[i], oldA[i]+oldB[i]))
		}
	}
	bonded := vs.U64("A_bonded")
	e.staking.Bonded[string(voterA)] = sdkmath.NewIntFromUint64(bonded)

	// ---- the message: any subset of the universe, any positive int64 powers
	newA := make([]int64, nU)
	var msgSignals []types.Signal
	for i := 0; i < nU; i++ {
		if vs.Bool("vote_for") {
			newA[i] = vs.I64("new_power")
			msgSignals = append(msgSignals, types.NewSignal(c07Universe[i], newA[i]))
		}
	}
	msg := types.NewMsgVote(voterA.String(), msgSignals)
	vs.Assume(msg.ValidateBasic() == nil)

	_, err := NewMsgServerImpl(k).Vote(ctx, msg)

	if err != nil {
		vs.Reach("rejected", true)
		return
	}
	vs.Reach("accepted", true)

	// (a) the vote never exceeds the voter's power, as mathematical integers
	sum := big.NewInt(0)
	for i := 0; i < nU; i++ {
		sum = new(big.Int).Add(sum, bigOf(newA[i]))
	}
	total := new(big.Int).SetUint64(bonded)
	wrapped := sum.Cmp(bigOf(types.SumPower(msgSignals))) != 0
	vs.Known("C07-sumpower-wrap", wrapped)
	vs.Assert("vote-within-total-power", sum.Cmp(total) <= 0)

	// the restake lock equals the vote
	lock, found := e.rk.GetLock(ctx, voterA, types.ModuleName)
	vs.Assert("lock-exists", found)
	vs.Known("C07-sumpower-wrap", wrapped)
	vs.Assert("lock-equals-vote", lock.Power.BigInt().Cmp(sum) == 0)

	// (b) totals follow the votes
	for i := 0; i < nU; i++ {
		st, gerr := k.GetSignalTotalPower(ctx, c07Universe[i])
		want := new(big.Int).Add(bigOf(oldB[i]), bigOf(newA[i]))
		if gerr != nil {
			vs.Assert("total-absent-iff-zero", want.Sign() == 0)
		} else {
			vs.Assert("total-equals-sum-of-votes", bigOf(st.Power).Cmp(want) == 0)
			vs.Assert("total-positive", st.Power > 0)
		}
	}

	// (c) the stored votes
	gotA := k.GetVote(ctx, voterA)
	vs.Assert("vote-stored-len", len(gotA) == len(msgSignals))
	for i := range gotA {
		if i < len(msgSignals) {
			vs.Assert("vote-stored", gotA[i].ID == msgSignals[i].ID && gotA[i].Power == msgSignals[i].Power)
		}
	}
	gotB := k.GetVote(ctx, voterB)
	vs.Assert("other-vote-untouched-len", len(gotB) == len(sigB))
	for i := range gotB {
		if i < len(sigB) {
			vs.Assert("other-vote-untouched", gotB[i].ID == sigB[i].ID && gotB[i].Power == sigB[i].Power)
		}
	}

	// (d) the by-power index lists exactly the non-zero totals, highest first, ties by id
	byPower := k.GetSignalTotalPowersByPower(ctx, 10)
	nonZero := 0
	for i := 0; i < nU; i++ {
		if oldB[i]+newA[i] != 0 {
			nonZero++
		}
	}
	vs.Assert("index-size", len(byPower) == nonZero)
	// the raw index holds exactly one entry per non-zero total (no stale entries left behind, even ones that the
	// getter would skip today)
	rawEntries := 0
	it := k.SignalTotalPowersByPowerStoreIterator(ctx)
	for ; it.Valid(); it.Next() {
		rawEntries++
	}
	it.Close()
	vs.Assert("index-has-no-stale-entries", rawEntries == nonZero)
	for i := range byPower {
		st, gerr := k.GetSignalTotalPower(ctx, byPower[i].ID)
		vs.Assert("index-entry-live", gerr == nil && st.Power == byPower[i].Power)
		if i > 0 {
			prev, cur := byPower[i-1], byPower[i]
			vs.Assert("index-sorted", prev.Power > cur.Power || (prev.Power == cur.Power && prev.ID < cur.ID))
		}
	}
}

// cdcSetParams stores params without validation (MaxCurrentFeeds is arbitrary here).
func (k Keeper) cdcSetParams(ctx sdk.Context, p types.Params) {
	ctx.KVStore(k.storeKey).Set(types.ParamsKey, k.cdc.MustMarshal(&p))
}
