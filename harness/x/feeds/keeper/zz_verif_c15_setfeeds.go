//go:build verif

package keeper

import (
	"time"

	vs "github.com/bandprotocol/chain/v3/vsupport"
	"github.com/bandprotocol/chain/v3/x/feeds/types"
)

func init() { vs.RegisterHarness("VerifC15SetCurrentFeeds", VerifC15SetCurrentFeeds) }

// VerifC15SetCurrentFeeds: every feed-list update restarts the grace period. Whatever list was stored before and
// whatever the new list is (same signals with other intervals included), SetCurrentFeeds stores exactly the new
// feeds and stamps the update with this block's time and height — the instant CheckMissReport counts the grace
// period of every validator from.
func VerifC15SetCurrentFeeds() {
	e := c07Setup()
	k := e.k
	n := vs.Param("n_feeds")
	mk := func(label string) []types.Feed {
		var fs []types.Feed
		for i := 0; i < n; i++ {
			if vs.Bool(label + "_has_feed") {
				fs = append(fs, types.NewFeed(c07Universe[i], vs.I64(label+"_power"), vs.I64(label+"_interval")))
			}
		}
		return fs
	}
	oldT, oldH := vs.I64("previous_update_time"), vs.I64("previous_update_height")
	now, height := vs.I64("now"), vs.I64("height")
	vs.Assume(oldT >= 0 && oldT <= now && now < 1<<40 && oldH >= 0 && oldH <= height && height < 1<<40)
	k.SetCurrentFeeds(e.ctx.WithBlockTime(time.Unix(oldT, 0).UTC()).WithBlockHeight(oldH), mk("old"))

	feeds := mk("new")
	k.SetCurrentFeeds(e.ctx.WithBlockTime(time.Unix(now, 0).UTC()).WithBlockHeight(height), feeds)

	got := k.GetCurrentFeeds(e.ctx)
	vs.Assert("update-time-is-this-block", got.LastUpdateTimestamp == now)
	vs.Assert("update-height-is-this-block", got.LastUpdateBlock == height)
	vs.Assert("stored-feed-count", len(got.Feeds) == len(feeds))
	for i := range got.Feeds {
		if i < len(feeds) {
			same := got.Feeds[i].SignalID == feeds[i].SignalID
			same = vs.And(same, vs.And(got.Feeds[i].Power == feeds[i].Power, got.Feeds[i].Interval == feeds[i].Interval))
			vs.Assert("stored-feeds-are-the-new-feeds", same)
		}
	}
	vs.Reach("updated", true)
}
