//go:build verif

package keeper

import (
	"math/big"

	sdkmath "cosmossdk.io/math"

	vs "github.com/bandprotocol/chain/v3/vsupport"
	"github.com/bandprotocol/chain/v3/x/feeds/types"
)

func init() {
	vs.RegisterHarness("VerifC06CalculatePrice", VerifC06CalculatePrice)
}

// VerifC06CalculatePrice (C06-H2): the status rule of Keeper.CalculatePrice over n entries with arbitrary
// status, power in [0, 2^64), price, timestamp, and an arbitrary quorum in [0, 2^70):
//
//	UNKNOWN_SIGNAL_ID  <=>  2*unsupported > total
//	AVAILABLE          <=>  not unknown and total >= quorum and 2*available >= total
//	NOT_READY          otherwise
//
// price = 0 unless AVAILABLE, and then it is MedianValidatorPriceInfos of the same entries (that function is
// decided against the README reference in VerifC06Median); timestamp = block time; signal id = the feed's.
// An error is returned exactly when the rule says AVAILABLE but no entry is AVAILABLE, which needs total = 0
// and quorum = 0 (finding C06-zero-quorum-empty-vector: the feeds EndBlocker propagates this error).
func VerifC06CalculatePrice() {
	n := vs.Param("n")
	e := c15Setup()
	ctx, nowSec, _, _ := c15Block(e.ctx, "now")
	feed := types.NewFeed("AAA", vs.I64("feed_power"), vs.I64("interval"))

	infos := make([]types.ValidatorPriceInfo, n)
	pw := make([]*big.Int, n)
	for i := 0; i < n; i++ {
		pw[i] = vs.BigU("power", 64)
		infos[i] = types.NewValidatorPriceInfo(types.SignalPriceStatus(vs.Int("status", 0, 3)),
			sdkmath.NewIntFromBigInt(pw[i]), vs.U64("price"), vs.I64("timestamp"))
	}
	quorumB := vs.BigU("quorum", 70)
	in := make([]types.ValidatorPriceInfo, n)
	copy(in, infos)

	got, err := e.k.CalculatePrice(ctx, feed, in, sdkmath.NewIntFromBigInt(quorumB))

	zero := big.NewInt(0)
	total, avail, unsup := big.NewInt(0), big.NewInt(0), big.NewInt(0)
	anyAvail := false
	for i := 0; i < n; i++ {
		isA := infos[i].SignalPriceStatus == types.SIGNAL_PRICE_STATUS_AVAILABLE
		isU := infos[i].SignalPriceStatus == types.SIGNAL_PRICE_STATUS_UNSUPPORTED
		total = new(big.Int).Add(total, pw[i])
		avail = new(big.Int).Add(avail, vs.IteBig(isA, pw[i], zero))
		unsup = new(big.Int).Add(unsup, vs.IteBig(isU, pw[i], zero))
		anyAvail = vs.Or(anyAvail, isA)
	}
	two := big.NewInt(2)
	unknown := new(big.Int).Mul(unsup, two).Cmp(total) > 0
	ready := vs.And(total.Cmp(quorumB) >= 0, new(big.Int).Mul(avail, two).Cmp(total) >= 0)
	available := vs.And(!unknown, ready)

	vs.Assert("error-only-when-available-rule-holds-without-available-entry", (err != nil) == vs.And(available, !anyAvail))
	if err != nil {
		vs.Assert("error-needs-zero-total-and-zero-quorum", vs.And(total.Sign() == 0, quorumB.Sign() == 0))
		vs.Known("C06-zero-quorum-empty-vector", vs.And(available, !anyAvail))
		vs.Assert("no-error", false)
		return
	}
	vs.Assert("unknown-iff-unsupported-majority", (got.Status == types.PRICE_STATUS_UNKNOWN_SIGNAL_ID) == unknown)
	vs.Assert("available-iff-quorum-and-available-half", (got.Status == types.PRICE_STATUS_AVAILABLE) == available)
	vs.Assert("else-not-ready", (got.Status == types.PRICE_STATUS_NOT_READY) == vs.And(!unknown, !ready))
	vs.Assert("timestamp-is-block-time", got.Timestamp == nowSec)
	vs.Assert("signal-id", got.SignalID == "AAA")
	if got.Status == types.PRICE_STATUS_AVAILABLE {
		vs.Reach("available", true)
		ref := make([]types.ValidatorPriceInfo, n)
		copy(ref, infos)
		med, merr := types.MedianValidatorPriceInfos(ref)
		vs.Assert("price-is-median", vs.And(merr == nil, got.Price == med))
	} else {
		vs.Reach("unknown-signal-id", got.Status == types.PRICE_STATUS_UNKNOWN_SIGNAL_ID)
		vs.Reach("not-ready-below-quorum", vs.And(got.Status == types.PRICE_STATUS_NOT_READY, total.Cmp(quorumB) < 0))
		vs.Reach("not-ready-available-minority", vs.And(got.Status == types.PRICE_STATUS_NOT_READY, total.Cmp(quorumB) >= 0))
		vs.Assert("price-zero-unless-available", got.Price == 0)
	}
}
