//go:build verif

package keeper

import (
	sdk "github.com/cosmos/cosmos-sdk/types"

	"github.com/bandprotocol/chain/v3/x/feeds/types"
)

// VerifC11Setup returns a real feeds keeper over a fresh model store with MaxSignalIDsPerSigning set to the given
// (arbitrary) value; used by the handler harness in package feeds.
func VerifC11Setup(maxSignalIDsPerSigning uint64) (sdk.Context, Keeper) {
	e := c07Setup()
	p := types.DefaultParams()
	p.MaxSignalIDsPerSigning = maxSignalIDsPerSigning
	e.k.cdcSetParams(e.ctx, p)
	return e.ctx, e.k
}
