//go:build verif

package keeper

import (
	vs "github.com/bandprotocol/chain/v3/vsupport"
	"github.com/bandprotocol/chain/v3/x/feeds/types"
)

func init() { vs.RegisterHarness("VerifC07CurrentFeeds", VerifC07CurrentFeeds) }

// VerifC07CurrentFeeds: CalculateNewCurrentFeeds from an arbitrary set of signal totals (built with the real
// setter, so the by-power index is the real one): the result is exactly the highest-powered signals, at most
// MaxCurrentFeeds, that reach the power threshold, in descending power (ties by id), each with
// interval = max(MaxInterval / floor(power/threshold), MinInterval).
func VerifC07CurrentFeeds() {
	e := c07Setup()
	ctx, k := e.ctx, e.k
	nU := vs.Param("n_signals")

	p := types.DefaultParams()
	maxFeeds := vs.Pick("max_current_feeds", 5)
	p.MaxCurrentFeeds = uint64(maxFeeds)
	p.PowerStepThreshold = vs.I64("power_step_threshold")
	p.MinInterval = vs.I64("min_interval")
	p.MaxInterval = vs.I64("max_interval")
	vs.Assume(p.Validate() == nil)
	k.cdcSetParams(ctx, p)

	power := make([]int64, nU)
	for i := 0; i < nU; i++ {
		if vs.Bool("signal_exists") {
			power[i] = vs.I64("total_power")
			vs.Assume(power[i] > 0)
			k.SetSignalTotalPower(ctx, types.NewSignal(c07Universe[i], power[i]))
		}
	}

	feeds := k.CalculateNewCurrentFeeds(ctx)

	// rank of every existing signal in (power desc, id asc); ids in c07Universe are ascending
	rank := make([]uint64, nU)
	expected := uint64(0)
	for i := 0; i < nU; i++ {
		if power[i] == 0 {
			continue
		}
		for j := 0; j < nU; j++ {
			if j == i || power[j] == 0 {
				continue
			}
			before := vs.Or(power[j] > power[i], vs.And(power[j] == power[i], j < i))
			rank[i] += vs.IteU64(before, 1, 0)
		}
		in := vs.And(rank[i] < uint64(maxFeeds), power[i] >= p.PowerStepThreshold)
		expected += vs.IteU64(in, 1, 0)
	}
	vs.Assert("feed-count", uint64(len(feeds)) == expected)
	for pos, f := range feeds {
		matched := false
		for i := 0; i < nU; i++ {
			if power[i] == 0 || f.SignalID != c07Universe[i] {
				continue
			}
			matched = true
			vs.Assert("feed-rank-is-position", rank[i] == uint64(pos))
			vs.Assert("feed-power", f.Power == power[i])
			vs.Assert("feed-reaches-threshold", power[i] >= p.PowerStepThreshold)
			steps := power[i] / p.PowerStepThreshold
			want := p.MaxInterval / steps
			if want < p.MinInterval {
				want = p.MinInterval
			}
			vs.Assert("feed-interval", f.Interval == want)
		}
		vs.Assert("feed-is-a-live-signal", matched)
	}
	if len(feeds) > 0 {
		vs.Reach("some-feeds", true)
	}
	if expected < uint64(nU) {
		vs.Reach("some-signal-left-out", true)
	}
}
