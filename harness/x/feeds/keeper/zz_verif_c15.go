//go:build verif

package keeper

import (
	"math/big"
	"time"

	capabilitykeeper "github.com/cosmos/ibc-go/modules/capability/keeper"

	sdkmath "cosmossdk.io/math"
	storetypes "cosmossdk.io/store/types"

	sdk "github.com/cosmos/cosmos-sdk/types"
	stakingtypes "github.com/cosmos/cosmos-sdk/x/staking/types"

	vs "github.com/bandprotocol/chain/v3/vsupport"
	"github.com/bandprotocol/chain/v3/vsupport/venv"
	"github.com/bandprotocol/chain/v3/x/feeds/types"
	oraclekeeper "github.com/bandprotocol/chain/v3/x/oracle/keeper"
	oracletypes "github.com/bandprotocol/chain/v3/x/oracle/types"
)

func init() {
	vs.RegisterHarness("VerifC15CheckMissReport", VerifC15CheckMissReport)
	vs.RegisterHarness("VerifC15SubmitPrices", VerifC15SubmitPrices)
	vs.RegisterHarness("VerifC15CalculatePrices", VerifC15CalculatePrices)
	vs.RegisterHarness("VerifC15CalculatePricesFeeds", VerifC15CalculatePricesFeeds)
}

// c15Clock is the bound of every clock, height and duration of the pure-kernel harness: [0, 2^61), so that
// no sum of two of them wraps an int64.
const c15Clock = int64(1) << 61

// zero time.Time as Unix seconds (January 1, year 1)
const c15ZeroUnix = int64(-62135596800)

func c15NonNeg(label string) int64 {
	x := vs.I64(label)
	vs.Assume(x >= 0)
	vs.Assume(x < c15Clock)
	return x
}

// VerifC15CheckMissReport: the pure kernels CheckMissReport / checkHavePrice with every clock symbolic.
//
//	miss  <=>  every time bound AND every block bound has strictly passed:
//	           now    > lastUpdateTime  + grace
//	           now    > activeSince     + grace
//	           now    > priceTime       + interval        (if the validator has a price for the feed)
//	           height > lastUpdateBlock + grace/3
//	           height > priceHeight     + interval/3      (if the validator has a price for the feed)
//	have  <=>  has a price and priceTime >= now - interval
//
// hence never a miss inside a grace period, with a fresh price, or while blocks are slow; and a price
// that still counts for aggregation is never a miss.
func VerifC15CheckMissReport() {
	feed := types.Feed{SignalID: "AAA", Power: vs.I64("feed_power"), Interval: c15NonNeg("interval")}
	lastUpdateTime := c15NonNeg("last_update_time")
	lastUpdateBlock := c15NonNeg("last_update_block")
	grace := c15NonNeg("grace")
	nowSec := c15NonNeg("now_sec")
	nowNsec := vs.I64("now_nsec")
	vs.Assume(nowNsec >= 0)
	vs.Assume(nowNsec < 1000000000)
	now := time.Unix(nowSec, nowNsec).UTC()
	height := c15NonNeg("height")

	// validator: active since an arbitrary instant, or the zero time (status never written)
	sinceUnix := c15ZeroUnix
	since := time.Time{}
	if !vs.Bool("since_zero") {
		sinceUnix = c15NonNeg("since_sec")
		sinceNsec := vs.I64("since_nsec")
		vs.Assume(sinceNsec >= 0)
		vs.Assume(sinceNsec < 1000000000)
		since = time.Unix(sinceUnix, sinceNsec).UTC()
	}
	valInfo := types.NewValidatorInfo(venv.ValAddr(1), vs.U64("power"), oracletypes.NewValidatorStatus(vs.Bool("is_active"), since))

	// price: absent (zero value, as the map lookup in CalculatePrices yields) or any stored price
	var valPrice types.ValidatorPrice
	status := types.SignalPriceStatus(vs.Int("price_status", 0, 3))
	hasPrice := status != types.SIGNAL_PRICE_STATUS_UNSPECIFIED
	if vs.Bool("price_stored") {
		valPrice = types.ValidatorPrice{
			SignalPriceStatus: status,
			SignalID:          "AAA",
			Price:             vs.U64("price"),
			Timestamp:         c15NonNeg("price_time"),
			BlockHeight:       c15NonNeg("price_height"),
		}
	} else {
		vs.Assume(!hasPrice)
	}

	miss := CheckMissReport(feed, lastUpdateTime, lastUpdateBlock, valPrice, valInfo, now, height, grace)
	have := checkHavePrice(feed, valPrice, now)

	graceBlocks := grace / types.MaxGuaranteeBlockTime
	intervalBlocks := feed.Interval / types.MaxGuaranteeBlockTime
	tUpdate := nowSec > lastUpdateTime+grace
	tSince := nowSec > sinceUnix+grace
	tPrice := vs.Implies(hasPrice, nowSec > valPrice.Timestamp+feed.Interval)
	bUpdate := height > lastUpdateBlock+graceBlocks
	bPrice := vs.Implies(hasPrice, height > valPrice.BlockHeight+intervalBlocks)
	want := vs.And(vs.And(vs.And(tUpdate, tSince), tPrice), vs.And(bUpdate, bPrice))

	vs.Assert("miss-iff-all-bounds-passed", miss == want)
	vs.Assert("no-miss-in-grace-after-activation", vs.Implies(nowSec <= sinceUnix+grace, !miss))
	vs.Assert("no-miss-in-grace-after-feed-update", vs.Implies(nowSec <= lastUpdateTime+grace, !miss))
	vs.Assert("no-miss-with-fresh-price", vs.Implies(vs.And(hasPrice, nowSec <= valPrice.Timestamp+feed.Interval), !miss))
	vs.Assert("no-miss-while-blocks-slow-after-update", vs.Implies(height <= lastUpdateBlock+graceBlocks, !miss))
	vs.Assert("no-miss-while-blocks-slow-after-price", vs.Implies(vs.And(hasPrice, height <= valPrice.BlockHeight+intervalBlocks), !miss))

	vs.Assert("have-iff-price-within-interval", have == vs.And(hasPrice, valPrice.Timestamp >= nowSec-feed.Interval))
	vs.Assert("counted-price-is-never-a-miss", !vs.And(have, miss))

	vs.Reach("miss", miss)
	vs.Reach("miss-without-price", vs.And(miss, !hasPrice))
	vs.Reach("miss-with-stale-price", vs.And(miss, hasPrice))
	vs.Reach("no-miss-time-boundary", vs.And(!miss, vs.And(nowSec == lastUpdateTime+grace, bUpdate)))
	vs.Reach("no-miss-only-blocks-slow", vs.And(!miss, vs.And(vs.And(tUpdate, tSince), tPrice)))
	vs.Reach("stale-but-not-missed", vs.And(vs.And(hasPrice, !have), !miss))
}

// ---------------------------------------------------------------------------------------------------
// keeper-level environment: real feeds keeper + REAL oracle keeper (validator status store) + staking fake

type c15Env struct {
	ctx     sdk.Context
	k       Keeper
	ok      oraclekeeper.Keeper
	staking *venv.Staking
}

func c15Setup() c15Env {
	feedsKey := storetypes.NewKVStoreKey(types.StoreKey)
	oracleKey := storetypes.NewKVStoreKey(oracletypes.StoreKey)
	ctx := venv.NewContext(feedsKey, oracleKey)
	cdc := venv.Codec()
	staking := venv.NewStaking()
	authority := venv.Addr(9).String()
	// only the validator-status part of the oracle keeper is used: all neighbour keepers stay nil
	ok := oraclekeeper.NewKeeper(cdc, oracleKey, "", "fee_collector", nil, nil, nil, nil, nil, nil, nil, nil, nil,
		capabilitykeeper.ScopedKeeper{}, nil, authority)
	k := NewKeeper(cdc, feedsKey, ok, staking, nil, venv.Authz{}, authority)
	return c15Env{ctx: ctx, k: k, ok: ok, staking: staking}
}

// c15MaxSec: block times and activation times are in years 1970..9999, the range the real protobuf timestamp
// encoding (ValidatorStatus.Since) accepts.
const c15MaxSec = int64(253402300800)

// c15Block returns a context at an arbitrary block time (seconds in [0, c15MaxSec), any nanoseconds) and height.
func c15Block(ctx sdk.Context, label string) (sdk.Context, int64, time.Time, int64) {
	sec := vs.I64(label + "_sec")
	nsec := vs.I64(label + "_nsec")
	h := vs.I64(label + "_height")
	vs.Assume(sec >= 0)
	vs.Assume(sec < c15MaxSec)
	vs.Assume(nsec >= 0)
	vs.Assume(nsec < 1000000000)
	vs.Assume(h >= 1)
	vs.Assume(h < 1<<40)
	t := time.Unix(sec, nsec).UTC()
	return ctx.WithBlockTime(t).WithBlockHeight(h), sec, t, h
}

var c15Signals = []string{"AAA", "BBB"}

func c15SamePrice(a, b types.ValidatorPrice) bool {
	return vs.And(vs.And(a.SignalPriceStatus == b.SignalPriceStatus, a.SignalID == b.SignalID),
		vs.And(a.Price == b.Price, vs.And(a.Timestamp == b.Timestamp, a.BlockHeight == b.BlockHeight)))
}

// VerifC15SubmitPrices: one MsgSubmitSignalPrices step (real msg server). Accepted iff the spec conditions
// hold; on acceptance every submitted signal is stored with the BLOCK time and height (never the message
// timestamp), the other entries are carried over; on rejection the stored list is unchanged. The oracle status
// is never modified.
func VerifC15SubmitPrices() {
	e := c15Setup()
	k := e.k
	val := venv.ValAddr(1)
	nF := len(c15Signals)

	p := types.DefaultParams()
	p.AllowableBlockTimeDiscrepancy = vs.I64("discrepancy")
	p.CooldownTime = vs.I64("cooldown")
	vs.Assume(p.CooldownTime < 1<<40)
	if err := k.SetParams(e.ctx, p); err != nil {
		vs.Assume(false)
	}

	// current feeds (set in an earlier block)
	feeds := make([]types.Feed, nF)
	for i := range feeds {
		feeds[i] = types.NewFeed(c15Signals[i], 1, 60)
	}
	k.SetCurrentFeeds(e.ctx, feeds)

	// validator: bonded or not, oracle-active or not
	bonded := vs.Bool("bonded")
	st := stakingtypes.Unbonding
	if bonded {
		st = stakingtypes.Bonded
	}
	e.staking.Vals = append(e.staking.Vals, stakingtypes.Validator{OperatorAddress: val.String(), Status: st, Tokens: sdkmath.NewInt(1)})
	active := vs.Bool("active")
	actSec := vs.I64("active_since_sec")
	vs.Assume(actSec >= 0)
	vs.Assume(actSec < c15MaxSec)
	preStatus := oracletypes.NewValidatorStatus(active, time.Unix(actSec, 0).UTC())
	e.ok.SetValidatorStatus(e.ctx, val, preStatus)

	// previous price list: absent, or one entry per current feed (any status incl. UNSPECIFIED = never submitted)
	hadList := vs.Bool("had_list")
	prev := make([]types.ValidatorPrice, nF)
	if hadList {
		for i := range prev {
			ps := types.SignalPriceStatus(vs.Int("prev_status", 0, 3))
			if ps != types.SIGNAL_PRICE_STATUS_UNSPECIFIED {
				pt := vs.I64("prev_time")
				ph := vs.I64("prev_height")
				vs.Assume(pt >= 0)
				vs.Assume(pt < 1<<40)
				vs.Assume(ph >= 0)
				vs.Assume(ph < 1<<40)
				prev[i] = types.ValidatorPrice{SignalPriceStatus: ps, SignalID: c15Signals[i], Price: vs.U64("prev_price"), Timestamp: pt, BlockHeight: ph}
			}
		}
		_ = k.SetValidatorPriceList(e.ctx, val, prev)
	}

	// the message: any subset of {AAA, BBB} plus optionally an unsupported id
	ctx, nowSec, _, height := c15Block(e.ctx, "now")
	msgTime := vs.I64("msg_timestamp")
	vs.Assume(msgTime > -(1 << 62))
	vs.Assume(msgTime < 1<<62)
	var sps []types.SignalPrice
	inMsg := make([]int, nF) // index into sps, -1 = not submitted
	for i := 0; i < nF; i++ {
		inMsg[i] = -1
		if vs.Bool("submit") {
			inMsg[i] = len(sps)
			sps = append(sps, types.NewSignalPrice(types.SignalPriceStatus(vs.Int("status", 0, 3)), c15Signals[i], vs.U64("price")))
		}
	}
	unknownID := vs.Bool("submit_unknown_id")
	if unknownID {
		sps = append(sps, types.NewSignalPrice(types.SIGNAL_PRICE_STATUS_AVAILABLE, "ZZZ", vs.U64("price_unknown")))
	}
	msg := types.NewMsgSubmitSignalPrices(val.String(), msgTime, sps)
	vs.Assume(msg.ValidateBasic() == nil)

	_, err := NewMsgServerImpl(k).SubmitSignalPrices(ctx, msg)

	// ---- reference
	diff := msgTime - nowSec // no wrap: |msgTime| < 2^62, nowSec < 2^40
	timeOK := vs.And(diff <= p.AllowableBlockTimeDiscrepancy, -diff <= p.AllowableBlockTimeDiscrepancy)
	cooled := true
	for i := 0; i < nF; i++ {
		if inMsg[i] >= 0 {
			hasPrev := prev[i].SignalPriceStatus != types.SIGNAL_PRICE_STATUS_UNSPECIFIED
			cooled = vs.And(cooled, vs.Or(!hasPrev, nowSec >= prev[i].Timestamp+p.CooldownTime))
		}
	}
	want := vs.And(vs.And(len(sps) <= nF, vs.And(bonded, active)), vs.And(timeOK, vs.And(!unknownID, cooled)))
	vs.Assert("accepted-iff-spec", (err == nil) == want)

	gotStatus := e.ok.GetValidatorStatus(ctx, val)
	vs.Assert("oracle-status-untouched", vs.And(gotStatus.IsActive == preStatus.IsActive, gotStatus.Since.Equal(preStatus.Since)))

	list, lerr := k.GetValidatorPriceList(ctx, val)
	if err != nil {
		vs.Reach("rejected", true)
		vs.Reach("rejected-timestamp", vs.And(vs.And(bonded, active), !timeOK))
		vs.Reach("rejected-cooldown", !cooled)
		vs.Reach("rejected-inactive", vs.And(bonded, !active))
		vs.Assert("rejected-list-presence-unchanged", (lerr == nil) == hadList)
		if lerr == nil {
			vs.Assert("rejected-list-len", len(list.ValidatorPrices) == nF)
			for i := range list.ValidatorPrices {
				if i < nF {
					vs.Assert("rejected-list-unchanged", c15SamePrice(list.ValidatorPrices[i], prev[i]))
				}
			}
		}
		return
	}
	vs.Reach("accepted", true)
	vs.Reach("accepted-msg-time-differs-from-block-time", msgTime != nowSec)
	vs.Reach("accepted-at-cooldown-boundary", vs.And(inMsg[0] >= 0, vs.And(prev[0].SignalPriceStatus != 0, nowSec == prev[0].Timestamp+p.CooldownTime)))
	vs.Assert("list-stored", lerr == nil)
	vs.Assert("list-has-one-entry-per-feed", len(list.ValidatorPrices) == nF)
	if len(list.ValidatorPrices) != nF {
		return
	}
	for i := 0; i < nF; i++ {
		got := list.ValidatorPrices[i]
		if inMsg[i] >= 0 {
			sp := sps[inMsg[i]]
			vs.Assert("stored-block-time", got.Timestamp == nowSec)
			vs.Assert("stored-block-height", got.BlockHeight == height)
			vs.Assert("stored-price", vs.And(got.Price == sp.Price, vs.And(got.SignalPriceStatus == sp.Status, got.SignalID == c15Signals[i])))
		} else {
			vs.Assert("not-submitted-carried-over", c15SamePrice(got, prev[i]))
		}
	}
}

var c15Tokens = []uint64{100, 30, 7}

// c15Val is the symbolic description of one validator of the CalculatePrices harness.
type c15Val struct {
	addr     sdk.ValAddress
	bonded   bool
	tokens   *big.Int
	active   bool
	since    time.Time
	sinceSec int64
	hasList  bool
	prices   []types.ValidatorPrice // one per feed when hasList
}

// VerifC15CalculatePrices: one CalculatePrices step (end-block kernel) over nv validators and nf current feeds
// with the REAL oracle keeper behind feeds' OracleKeeper interface.
//
// C15: a validator is deactivated in this block iff it is bonded, oracle-active and for SOME current feed every
// time bound and every block bound has strictly passed (same conjunctive rule as VerifC15CheckMissReport,
// written again here from the statement); then its status is (inactive, block time); every other validator's
// status is untouched. C06-H3: the stored price of every feed equals CalculatePrice applied to the vector built
// only from bonded, oracle-active validators whose price for that feed is specified and not older than the
// interval, with quorum = floor(total bonded tokens * 0.30).
func VerifC15CalculatePrices() { c15CalculatePrices(vs.Param("nv"), vs.Param("nf")) }

// VerifC15CalculatePricesFeeds: the same step with its own shape parameters (used for one validator, two feeds).
func VerifC15CalculatePricesFeeds() { c15CalculatePrices(vs.Param("nv"), vs.Param("nf")) }

func c15CalculatePrices(nv, nf int) {
	e := c15Setup()
	k := e.k

	p := types.DefaultParams() // PriceQuorum "0.30"
	p.GracePeriod = vs.I64("grace")
	vs.Assume(p.GracePeriod < 1<<40)
	if err := k.SetParams(e.ctx, p); err != nil {
		vs.Assume(false)
	}
	grace := p.GracePeriod

	// current feeds, last updated in an arbitrary earlier block
	ctx0, updSec, _, updHeight := c15Block(e.ctx, "update")
	feeds := make([]types.Feed, nf)
	for i := range feeds {
		iv := vs.I64("interval")
		vs.Assume(iv > 0)
		vs.Assume(iv < 1<<40)
		feeds[i] = types.NewFeed(c15Signals[i], vs.I64("feed_power"), iv)
	}
	k.SetCurrentFeeds(ctx0, feeds)

	// an always-bonded validator that never activated its oracle status keeps the bonded total (and so the
	// quorum) positive, as on a live chain; with a zero quorum and an empty vector CalculatePrice errors
	// (see C06, finding C06-zero-quorum-empty-vector).
	e.staking.Vals = append(e.staking.Vals, stakingtypes.Validator{OperatorAddress: venv.ValAddr(9).String(), Status: stakingtypes.Bonded, Tokens: sdkmath.NewInt(10)})
	vals := make([]c15Val, nv)
	totalBonded := big.NewInt(10)
	for i := range vals {
		v := &vals[i]
		v.addr = venv.ValAddr(i + 1)
		v.bonded = vs.Bool("bonded")
		if vs.Param("sym_tokens") == 1 {
			v.tokens = vs.BigU("tokens", 64) // C06-H3: arbitrary stake
		} else {
			v.tokens = new(big.Int).SetUint64(c15Tokens[i])
		}
		st := stakingtypes.Unbonded
		if v.bonded {
			st = stakingtypes.Bonded
			totalBonded = new(big.Int).Add(totalBonded, v.tokens)
		}
		e.staking.Vals = append(e.staking.Vals, stakingtypes.Validator{OperatorAddress: v.addr.String(), Status: st, Tokens: sdkmath.NewIntFromBigInt(v.tokens)})
		v.active = vs.Bool("active")
		v.sinceSec = vs.I64("since_sec")
		sinceNsec := vs.I64("since_nsec")
		vs.Assume(v.sinceSec >= 0)
		vs.Assume(v.sinceSec < c15MaxSec)
		vs.Assume(sinceNsec >= 0)
		vs.Assume(sinceNsec < 1000000000)
		v.since = time.Unix(v.sinceSec, sinceNsec).UTC()
		e.ok.SetValidatorStatus(e.ctx, v.addr, oracletypes.NewValidatorStatus(v.active, v.since))
		v.hasList = vs.Bool("has_list")
		v.prices = make([]types.ValidatorPrice, nf)
		if v.hasList {
			for j := range v.prices {
				pt := vs.I64("price_time")
				ph := vs.I64("price_height")
				vs.Assume(pt >= 0)
				vs.Assume(pt < 1<<40)
				vs.Assume(ph >= 0)
				vs.Assume(ph < 1<<40)
				v.prices[j] = types.ValidatorPrice{
					SignalPriceStatus: types.SignalPriceStatus(vs.Int("price_status", 0, 3)),
					SignalID:          c15Signals[j], Price: vs.U64("price"), Timestamp: pt, BlockHeight: ph,
				}
			}
			_ = k.SetValidatorPriceList(e.ctx, v.addr, v.prices)
		}
	}

	ctx, nowSec, now, height := c15Block(e.ctx, "now")

	err := k.CalculatePrices(ctx)
	vs.Assert("no-error", err == nil)
	if err != nil {
		return
	}

	// ---- C15: who is deactivated
	anyDeact, anyKept := false, false
	for i := range vals {
		v := &vals[i]
		missAny := false
		for j := 0; j < nf; j++ {
			pr := v.prices[j]
			hasPrice := vs.And(v.hasList, pr.SignalPriceStatus != types.SIGNAL_PRICE_STATUS_UNSPECIFIED)
			tAll := vs.And(vs.And(nowSec > updSec+grace, nowSec > v.sinceSec+grace),
				vs.Implies(hasPrice, nowSec > pr.Timestamp+feeds[j].Interval))
			bAll := vs.And(height > updHeight+grace/3, vs.Implies(hasPrice, height > pr.BlockHeight+feeds[j].Interval/3))
			missAny = vs.Or(missAny, vs.And(tAll, bAll))
		}
		deact := vs.And(vs.And(v.bonded, v.active), missAny)
		got := e.ok.GetValidatorStatus(ctx, v.addr)
		vs.Assert("deactivated-iff-genuine-miss", got.IsActive == vs.And(v.active, !deact))
		vs.Assert("status-since", got.Since.Equal(c15IteTime(deact, now, v.since)))
		anyDeact = vs.Or(anyDeact, deact)
		anyKept = vs.Or(anyKept, vs.And(vs.And(v.bonded, v.active), !deact))
	}
	vs.Reach("some-validator-deactivated", anyDeact)
	vs.Reach("some-active-validator-kept", anyKept)

	// ---- C06-H3: stored prices
	quorum := sdkmath.NewIntFromBigInt(new(big.Int).Quo(new(big.Int).Mul(totalBonded, big.NewInt(3)), big.NewInt(10)))
	for j := 0; j < nf; j++ {
		var infos []types.ValidatorPriceInfo
		for i := range vals {
			v := &vals[i]
			pr := v.prices[j]
			if v.bonded && v.active && v.hasList && pr.SignalPriceStatus != types.SIGNAL_PRICE_STATUS_UNSPECIFIED &&
				pr.Timestamp >= nowSec-feeds[j].Interval {
				infos = append(infos, types.NewValidatorPriceInfo(pr.SignalPriceStatus, sdkmath.NewIntFromBigInt(v.tokens), pr.Price, pr.Timestamp))
			}
		}
		want, werr := k.CalculatePrice(ctx, feeds[j], infos, quorum)
		vs.Assert("reference-price-computable", werr == nil)
		got := k.GetPrice(ctx, feeds[j].SignalID)
		vs.Assert("stored-price-is-price-of-filtered-vector", vs.And(vs.And(got.Status == want.Status, got.Price == want.Price),
			vs.And(got.SignalID == want.SignalID, got.Timestamp == nowSec)))
		vs.Reach("price-available", got.Status == types.PRICE_STATUS_AVAILABLE)
		vs.Reach("price-not-ready", got.Status == types.PRICE_STATUS_NOT_READY)
	}
}

func c15IteTime(c bool, a, b time.Time) time.Time {
	if c {
		return a
	}
	return b
}
