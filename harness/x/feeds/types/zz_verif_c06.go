//go:build verif

package types

import (
	"math/big"

	sdkmath "cosmossdk.io/math"

	vs "github.com/bandprotocol/chain/v3/vsupport"
)

func init() {
	vs.RegisterHarness("VerifC06Median", VerifC06Median)
	vs.RegisterHarness("VerifC06Powers", VerifC06Powers)
	vs.RegisterHarness("VerifC06IgnoresNonAvailable", VerifC06IgnoresNonAvailable)
}

// VerifC06Median: MedianValidatorPriceInfos against an order-free reference written from
// x/feeds/README.md ("Price aggregation logic").
//
// Reference (all quantities exact integers, weights scaled by 320):
//   - only AVAILABLE entries count; T = sum of their powers;
//   - entry j precedes entry i  iff  t_j > t_i, or t_j == t_i and p_j > p_i, or both equal and j < i
//     (the documented order, stable); a_i = sum of powers preceding i, b_i = a_i + p_i;
//   - weight_i = sum over sections k of mult_k * | [32 a_i, 32 b_i) ∩ [T s_{k-1}, T s_k) |
//     with s = 0,1,3,7,15,32 and mult = 60,40,20,11,10;
//   - result = the smallest price p_i whose cumulative weight over prices <= p_i, doubled, reaches
//     the total weight.
func VerifC06Median() {
	n := vs.Param("n")
	bits := vs.Param("power_bits")
	infos := make([]ValidatorPriceInfo, n)
	pw := make([]*big.Int, n)
	for i := 0; i < n; i++ {
		pw[i] = vs.BigU("power", bits)
		infos[i] = ValidatorPriceInfo{
			SignalPriceStatus: SignalPriceStatus(vs.Int("status", 0, 3)),
			Power:             sdkmath.NewIntFromBigInt(pw[i]),
			Price:             vs.U64("price"),
			Timestamp:         vs.I64("timestamp"),
		}
	}
	in := make([]ValidatorPriceInfo, n)
	copy(in, infos)

	got, err := MedianValidatorPriceInfos(in)

	// ---- reference
	zero := big.NewInt(0)
	avail := make([]bool, n)
	anyAvail := false
	T := big.NewInt(0)
	for i := 0; i < n; i++ {
		avail[i] = infos[i].SignalPriceStatus == SIGNAL_PRICE_STATUS_AVAILABLE
		anyAvail = vs.Or(anyAvail, avail[i])
		T = new(big.Int).Add(T, vs.IteBig(avail[i], pw[i], zero))
	}
	vs.Assert("error-iff-no-available", (err != nil) == !anyAvail)
	if err != nil {
		vs.Reach("no-available", true)
		return
	}
	secs := []int64{0, 1, 3, 7, 15, 32}
	mult := []int64{60, 40, 20, 11, 10}
	w := make([]*big.Int, n)
	W := big.NewInt(0)
	for i := 0; i < n; i++ {
		a := big.NewInt(0)
		for j := 0; j < n; j++ {
			if j == i {
				continue
			}
			tj, ti := infos[j].Timestamp, infos[i].Timestamp
			pc := pw[j].Cmp(pw[i])
			before := vs.Or(tj > ti, vs.And(tj == ti, vs.Or(pc > 0, vs.And(pc == 0, j < i))))
			a = new(big.Int).Add(a, vs.IteBig(vs.And(before, avail[j]), pw[j], zero))
		}
		lo := new(big.Int).Mul(a, big.NewInt(32))
		hi := new(big.Int).Mul(new(big.Int).Add(a, pw[i]), big.NewInt(32))
		wi := big.NewInt(0)
		for k := 0; k < 5; k++ {
			sl := new(big.Int).Mul(T, big.NewInt(secs[k]))
			sh := new(big.Int).Mul(T, big.NewInt(secs[k+1]))
			l := vs.IteBig(lo.Cmp(sl) > 0, lo, sl)
			h := vs.IteBig(hi.Cmp(sh) < 0, hi, sh)
			d := new(big.Int).Sub(h, l)
			d = vs.IteBig(d.Sign() > 0, d, zero)
			wi = new(big.Int).Add(wi, new(big.Int).Mul(d, big.NewInt(mult[k])))
		}
		w[i] = vs.IteBig(avail[i], wi, zero)
		W = new(big.Int).Add(W, w[i])
	}
	// got must be the price of an available entry that is the weighted median
	isMedian := false
	minP, maxP := uint64(0), uint64(0)
	first := true
	_ = first
	haveMin := false
	for i := 0; i < n; i++ {
		cum := big.NewInt(0)
		for j := 0; j < n; j++ {
			cum = new(big.Int).Add(cum, vs.IteBig(vs.And(avail[j], infos[j].Price <= infos[i].Price), w[j], zero))
		}
		reaches := new(big.Int).Mul(cum, big.NewInt(2)).Cmp(W) >= 0
		// smallest such price: no available strictly smaller price also reaches
		smallerReaches := false
		for k := 0; k < n; k++ {
			cumk := big.NewInt(0)
			for j := 0; j < n; j++ {
				cumk = new(big.Int).Add(cumk, vs.IteBig(vs.And(avail[j], infos[j].Price <= infos[k].Price), w[j], zero))
			}
			rk := new(big.Int).Mul(cumk, big.NewInt(2)).Cmp(W) >= 0
			smallerReaches = vs.Or(smallerReaches, vs.And(vs.And(avail[k], infos[k].Price < infos[i].Price), rk))
		}
		isMedian = vs.Or(isMedian, vs.And(vs.And(avail[i], got == infos[i].Price), vs.And(reaches, !smallerReaches)))
		minP = vs.IteU64(vs.And(avail[i], vs.Or(!haveMin, infos[i].Price < minP)), infos[i].Price, minP)
		maxP = vs.IteU64(vs.And(avail[i], vs.Or(!haveMin, infos[i].Price > maxP)), infos[i].Price, maxP)
		haveMin = vs.Or(haveMin, avail[i])
	}
	vs.Assert("within-available-range", vs.And(minP <= got, got <= maxP))
	vs.Assert("is-weighted-median", isMedian)
	vs.Reach("median-returned", true)
}

// VerifC06Powers: CalculatePricesPowers sums exactly by status.
func VerifC06Powers() {
	n := vs.Param("n")
	infos := make([]ValidatorPriceInfo, n)
	pw := make([]*big.Int, n)
	for i := 0; i < n; i++ {
		pw[i] = vs.BigU("power", 64)
		infos[i] = ValidatorPriceInfo{
			SignalPriceStatus: SignalPriceStatus(vs.Int("status", 0, 3)),
			Power:             sdkmath.NewIntFromBigInt(pw[i]),
			Price:             vs.U64("price"),
			Timestamp:         vs.I64("timestamp"),
		}
	}
	total, av, unav, unsup := CalculatePricesPowers(infos)
	zero := big.NewInt(0)
	rt, ra, ru, rs := big.NewInt(0), big.NewInt(0), big.NewInt(0), big.NewInt(0)
	for i := 0; i < n; i++ {
		rt = new(big.Int).Add(rt, pw[i])
		ra = new(big.Int).Add(ra, vs.IteBig(infos[i].SignalPriceStatus == SIGNAL_PRICE_STATUS_AVAILABLE, pw[i], zero))
		ru = new(big.Int).Add(ru, vs.IteBig(infos[i].SignalPriceStatus == SIGNAL_PRICE_STATUS_UNAVAILABLE, pw[i], zero))
		rs = new(big.Int).Add(rs, vs.IteBig(infos[i].SignalPriceStatus == SIGNAL_PRICE_STATUS_UNSUPPORTED, pw[i], zero))
	}
	vs.Assert("total", total.BigInt().Cmp(rt) == 0)
	vs.Assert("available", av.BigInt().Cmp(ra) == 0)
	vs.Assert("unavailable", unav.BigInt().Cmp(ru) == 0)
	vs.Assert("unsupported", unsup.BigInt().Cmp(rs) == 0)
	vs.Reach("done", true)
}

// VerifC06IgnoresNonAvailable: entries that are not AVAILABLE have no influence on the published median:
// the real function gives the same result on the full vector and on the vector restricted to its AVAILABLE
// entries (same order). Relational oracle, no reference model needed.
func VerifC06IgnoresNonAvailable() {
	n := vs.Param("n")
	bits := vs.Param("power_bits")
	var all, onlyAvail []ValidatorPriceInfo
	for i := 0; i < n; i++ {
		info := ValidatorPriceInfo{
			SignalPriceStatus: SignalPriceStatus(vs.Int("status", 0, 3)),
			Power:             sdkmath.NewIntFromBigInt(vs.BigU("power", bits)),
			Price:             vs.U64("price"),
			Timestamp:         vs.I64("timestamp"),
		}
		all = append(all, info)
		if info.SignalPriceStatus == SIGNAL_PRICE_STATUS_AVAILABLE {
			onlyAvail = append(onlyAvail, info)
		}
	}
	vs.Assume(len(onlyAvail) < n) // at least one non-available entry, otherwise nothing to compare
	got1, err1 := MedianValidatorPriceInfos(all)
	got2, err2 := MedianValidatorPriceInfos(onlyAvail)
	vs.Assert("same-error", (err1 == nil) == (err2 == nil))
	if err1 == nil && err2 == nil {
		vs.Assert("non-available-entries-ignored", got1 == got2)
		vs.Reach("compared", true)
	}
}
