//go:build verif

package types

import (
	"bytes"
	"errors"

	"github.com/ethereum/go-ethereum/accounts/abi"

	"github.com/bandprotocol/chain/v3/pkg/tickmath"
	tsslib "github.com/bandprotocol/chain/v3/pkg/tss"
	vs "github.com/bandprotocol/chain/v3/vsupport"
	tsstypes "github.com/bandprotocol/chain/v3/x/tss/types"
)

func init() {
	vs.RegisterHarness("VerifC11FeedsEncodeTSS", VerifC11FeedsEncodeTSS)
}


// ---- reference side: the ABI schema destination contracts decode, written down independently of the code under
// test:  abi.encode((bytes32 SignalID, uint64 Price)[] Prices, int64 Timestamp)

// VerifC11RefPrice is the reference relay price (own struct type; go-ethereum matches struct fields by name).
type VerifC11RefPrice struct {
	SignalID [32]byte
	Price    uint64
}

func VerifC11RefPricesType() abi.Type {
	t, err := abi.NewType("tuple[]", "struct Prices[]", []abi.ArgumentMarshaling{
		{Name: "SignalID", Type: "bytes32"},
		{Name: "Price", Type: "uint64"},
	})
	if err != nil {
		panic(err)
	}
	return t
}

func verifC11RefFeedsArgs() abi.Arguments {
	i64, err := abi.NewType("int64", "", nil)
	if err != nil {
		panic(err)
	}
	return abi.Arguments{{Type: VerifC11RefPricesType(), Name: "Prices"}, {Type: i64, Name: "Timestamp"}}
}

// VerifC11RefID is the documented signal id encoding: the id's bytes right-aligned in 32 bytes.
func VerifC11RefID(id string) [32]byte {
	var b [32]byte
	if len(id) > 32 {
		return b // not encodable; the encoder must refuse such an id
	}
	for i := 0; i < len(id); i++ {
		b[32-len(id)+i] = id[i]
	}
	return b
}

// VerifC11RefFeedsMessage = tag | abi.encode(prices, timestamp).
func VerifC11RefFeedsMessage(tagName string, ref []VerifC11RefPrice, timestamp int64) []byte {
	bz, err := verifC11RefFeedsArgs().Pack(ref, timestamp)
	vs.Assert("reference-pack-ok", err == nil)
	return append(append([]byte{}, tsslib.Hash([]byte(tagName))[:4]...), bz...)
}

// VerifC11TickPrices are the concrete prices used where a tick conversion runs (the conversion itself is the
// subject of the pkg/tickmath harnesses; symbolic prices make PriceToTick fork 2^18 ways).
var VerifC11TickPrices = []uint64{0, 1, 999_999_999, 1_000_000_000, 1_000_100_000, 123_456_789_012_345, 1<<64 - 1}

// VerifC11RefTick is the documented tick-mode value: 0 stays 0 (no price), anything else PriceToTick.
func VerifC11RefTick(price uint64) uint64 {
	if price == 0 {
		return 0
	}
	t, err := tickmath.PriceToTick(price)
	vs.Assert("reference-tick-ok", err == nil)
	// on these concrete prices the tick is the largest one whose price does not exceed the price (real tickToPriceX96)
	vs.Assert("reference-tick-is-largest-not-exceeding-price", err != nil || tickmath.VerifC11TickIsExact(price, t))
	return t
}

// c11SignalID picks a signal id shape: empty, 3 bytes, 32 bytes (all arbitrary bytes) or 33 bytes (too long).
func c11SignalID(allowLong bool) string {
	lens := []int{0, 3, 32, 33}
	n := len(lens)
	if !allowLong {
		n--
	}
	return string(vs.Bytes("signal_id", lens[vs.Pick("signal_id_shape", n)]))
}

// VerifC11FeedsEncodeTSS: the pure encoder on 0..n arbitrary prices.
//
//	FIXED_POINT_ABI: tag("FixedPointABI") | abi.encode([(id right-aligned, price)], timestamp)
//	TICK_ABI:        tag("TickABI")       | abi.encode([(id right-aligned, price == 0 ? 0 : tick(price))], timestamp)
//	any other encoder value: ErrInvalidEncoder; an id longer than 32 bytes: ErrInvalidSignal; nothing else fails.
func VerifC11FeedsEncodeTSS() {
	tsstypes.VerifC11CheckTags([]tsstypes.VerifC11OwnTag{
		{Name: "FixedPointABI", Const: EncoderFixedPointABIPrefix},
		{Name: "TickABI", Const: EncoderTickABIPrefix},
	})
	n := vs.Pick("n_prices", vs.Param("max_prices")+1)
	mode := vs.Pick("encoder", 3) // 0 fixed point, 1 tick, 2 anything else
	enc := ENCODER_FIXED_POINT_ABI
	switch mode {
	case 1:
		enc = ENCODER_TICK_ABI
	case 2:
		enc = Encoder(vs.I32("other_encoder"))
		vs.Assume(enc != ENCODER_FIXED_POINT_ABI && enc != ENCODER_TICK_ABI)
	}
	ts := vs.I64("timestamp")
	prices := make([]Price, n)
	ref := make([]VerifC11RefPrice, n)
	anyLong := false
	for i := range prices {
		id := c11SignalID(true)
		anyLong = anyLong || len(id) > 32
		p := vs.U64("price")
		if mode == 1 {
			p = VerifC11TickPrices[vs.Pick("tick_price", len(VerifC11TickPrices))]
		}
		prices[i] = Price{SignalID: id, Status: PriceStatus(vs.Int("status", 0, 3)), Price: p, Timestamp: vs.I64("price_timestamp")}
		ref[i] = VerifC11RefPrice{SignalID: VerifC11RefID(id), Price: p}
		if mode == 1 && !anyLong {
			ref[i].Price = VerifC11RefTick(p)
		}
	}
	out, err := EncodeTSS(prices, ts, enc)
	vs.Assert("accepted-iff-known-encoder-and-ids-fit", (err == nil) == (mode != 2 && !anyLong))
	if err != nil {
		vs.Assert("no-bytes-on-error", len(out) == 0)
		if mode == 2 {
			vs.Assert("unknown-encoder-error", errors.Is(err, ErrInvalidEncoder))
			vs.Reach("unknown-encoder", true)
		} else {
			vs.Assert("long-id-error", errors.Is(err, ErrInvalidSignal))
			vs.Reach("id-too-long", true)
		}
		return
	}
	tag := "FixedPointABI"
	if mode == 1 {
		tag = "TickABI"
	}
	want := VerifC11RefFeedsMessage(tag, ref, ts)
	vs.Assert("message-is-tag-then-abi-of-prices-and-timestamp", bytes.Equal(out, want))
	vs.Assert("message-length", len(out) == 4+96+64*n)
	vs.Reach("fixed-point-encoded", mode == 0)
	vs.Reach("tick-encoded", mode == 1)
	vs.Reach("empty-list-encoded", n == 0)
}
