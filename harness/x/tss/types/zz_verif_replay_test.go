//go:build verif

package types

import (
	"testing"

	"github.com/bandprotocol/chain/v3/vsupport"
)

func TestVerifReplay(t *testing.T) { vsupport.Replay(t) }
