//go:build verif

package types

import (
	"bytes"

	"github.com/bandprotocol/chain/v3/pkg/tss"
	vs "github.com/bandprotocol/chain/v3/vsupport"
)

func init() {
	vs.RegisterHarness("VerifC04SlotArithmetic", VerifC04SlotArithmetic)
	vs.RegisterHarness("VerifC04SlotPlacement", VerifC04SlotPlacement)
}

// VerifC04SlotArithmetic: FindMemberSlot(from,to) is the position of `to` in the list 1..n without `from`,
// for all 1 <= from != to <= 20 (both symbolic).
func VerifC04SlotArithmetic() {
	from := uint64(vs.Int("from", 1, 20))
	to := uint64(vs.Int("to", 1, 20))
	vs.Assume(from != to)
	slot := FindMemberSlot(tss.MemberID(from), tss.MemberID(to))
	pos := uint64(0)
	for id := uint64(1); id <= 20; id++ {
		pos += vs.IteU64(vs.And(id < to, id != from), 1, 0)
	}
	vs.Assert("slot-is-position-without-from", uint64(slot) == pos)
	vs.Reach("slot", true)
}

type c04Nonce struct{}

func (c04Nonce) RandBytes16() ([]byte, error) { return vs.Bytes("nonce16", 16), nil }

// VerifC04SlotPlacement: the share that dealer `from` encrypts for `to` with the real
// ComputeEncryptedSecretShares sits exactly at FindMemberSlot(from,to): decrypting that entry with the pair's
// Diffie-Hellman key gives f_from(to), which passes the commitment check for member `to`.
func VerifC04SlotPlacement() {
	vs.AssumeHashScalars()
	n := vs.Param("n")
	from := tss.MemberID(1 + vs.Pick("from", n))
	t := 2
	var coeffs tss.Scalars
	var commits tss.Points
	for k := 0; k < t; k++ {
		a := tss.Scalar(vs.ScalarBytes("coefficient"))
		coeffs = append(coeffs, a)
		commits = append(commits, a.Point())
	}
	otPriv := make(tss.Scalars, n)
	otPub := make(tss.Points, n)
	for i := 0; i < n; i++ {
		otPriv[i] = tss.Scalar(vs.ScalarBytes("one_time_key"))
		otPub[i] = otPriv[i].Point()
	}
	encs, err := tss.ComputeEncryptedSecretShares(from, otPriv[from-1], otPub, coeffs, c04Nonce{})
	vs.Assert("encrypt-ok", err == nil)
	vs.Assert("one-share-per-other-member", len(encs) == n-1)
	for to := tss.MemberID(1); to <= tss.MemberID(n); to++ {
		if to == from {
			continue
		}
		slot := FindMemberSlot(from, to)
		vs.Assert("slot-in-range", int(slot) < len(encs))
		keySym, err := tss.ComputeSecretSym(otPriv[to-1], otPub[from-1])
		vs.Assert("sym-ok", err == nil)
		share, err := tss.DecryptSecretShare(encs[slot], keySym)
		vs.Assert("decrypt-ok", err == nil)
		want, err := tss.ComputeSecretShare(coeffs, to)
		vs.Assert("share-ok", err == nil)
		vs.Assert("slot-holds-share-for-recipient", bytes.Equal(share, want))
		vs.Assert("share-passes-recipient-check", tss.VerifySecretShare(to, share, commits) == nil)
	}
	vs.Reach("placement-checked", true)
}
