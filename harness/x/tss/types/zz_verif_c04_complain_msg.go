//go:build verif

package types

import (
	sdk "github.com/cosmos/cosmos-sdk/types"

	"github.com/bandprotocol/chain/v3/pkg/tss"
	vs "github.com/bandprotocol/chain/v3/vsupport"
)

func init() {
	vs.RegisterHarness("VerifC04ComplainMsgOneComplainant", VerifC04ComplainMsgOneComplainant)
}

// VerifC04ComplainMsgOneComplainant: MsgComplain.ValidateBasic (the only place that ties every complaint of a
// message to one complainant — the handler authenticates Complaints[0].Complainant only, the verdicts blame each
// complaint's own complainant) accepts a message of well-formed complaints exactly when the group id is non-zero
// and every complaint names the same complainant, for 1..3 complaints with arbitrary member ids.
func VerifC04ComplainMsgOneComplainant() {
	n := 1 + vs.Pick("n_complaints", vs.Param("max_complaints"))
	gid := vs.U64("group_id")
	cs := make([]Complaint, n)
	same, wellFormed := true, true
	// one valid key-sym point and one valid complaint signature (their content is irrelevant here)
	a := tss.Scalar(vs.ScalarBytes("some_scalar"))
	sig, serr := tss.NewComplaintSignatureFromComponents(a.Point(), a.Point(), a)
	vs.Assume(serr == nil)
	for i := range cs {
		cs[i] = Complaint{
			Complainant: tss.MemberID(vs.U64("complainant")), Respondent: tss.MemberID(vs.U64("respondent")),
			KeySym: a.Point(), Signature: sig,
		}
		ok := vs.And(cs[i].Complainant != 0, vs.And(cs[i].Respondent != 0, cs[i].Complainant != cs[i].Respondent))
		wellFormed = vs.And(wellFormed, ok)
		same = vs.And(same, cs[i].Complainant == cs[0].Complainant)
	}
	// a valid account address (rendered with the prefix configured at run time)
	c04ComplainSender := sdk.AccAddress([]byte{1, 1, 1, 1, 1, 1, 1, 1, 1, 1, 1, 1, 1, 1, 1, 1, 1, 1, 1, 1}).String()
	msg := MsgComplain{GroupID: tss.GroupID(gid), Complaints: cs, Sender: c04ComplainSender}
	err := msg.ValidateBasic()
	vs.Assert("accepted-iff-one-complainant-and-well-formed", (err == nil) == vs.And(gid != 0, vs.And(same, wellFormed)))
	vs.Reach("accepted", err == nil)
	vs.Reach("rejected", err != nil)
}
