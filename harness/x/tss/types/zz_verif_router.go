//go:build verif

package types

// VerifCallbackRouter returns a router with one registered owner module. It fills the route table directly:
// AddRoute validates the module name with a regular expression (sdk.IsAlphaNumeric), which the symbolic engine
// does not execute; route registration is app wiring, not part of the signing life cycle under check.
func VerifCallbackRouter(module string, cb TSSCallback) *CallbackRouter {
	r := NewCallbackRouter()
	r.routes[module] = cb
	return r
}
