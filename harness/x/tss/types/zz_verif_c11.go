//go:build verif

package types

import (
	"bytes"
	"time"

	sdk "github.com/cosmos/cosmos-sdk/types"

	"github.com/bandprotocol/chain/v3/pkg/tss"
	vs "github.com/bandprotocol/chain/v3/vsupport"
)

func init() {
	vs.RegisterHarness("VerifC11EncodeSigning", VerifC11EncodeSigning)
	vs.RegisterHarness("VerifC11DirectOriginator", VerifC11DirectOriginator)
	vs.RegisterHarness("VerifC11TunnelOriginator", VerifC11TunnelOriginator)
	vs.RegisterHarness("VerifC11OriginatorKinds", VerifC11OriginatorKinds)
}

// c11BE64 is the reference big-endian encoding (written out, not the sdk helper).
func c11BE64(x uint64) []byte {
	return []byte{byte(x >> 56), byte(x >> 48), byte(x >> 40), byte(x >> 32), byte(x >> 24), byte(x >> 16), byte(x >> 8), byte(x)}
}

// c11Str is an arbitrary string of a length in 0..max (length concrete per path, bytes arbitrary: includes
// NUL, '/', ',', 0xff ... whatever delimiter one may think of).
func c11Str(label string, max int) string {
	n := vs.Pick(label+"_len", max+1)
	return string(vs.Bytes(label, n))
}

// VerifC11EncodeSigning: the signed message is keccak(originator)(32) | BE64(block time) | BE64(signing id) |
// content, for two arbitrary requests; equal messages imply equal id, time, content and originator hash
// (so different ids never share a message, and neither do different contents under the same id).
func VerifC11EncodeSigning() {
	maxC := vs.Param("max_content")
	maxO := vs.Param("max_originator")
	type req struct {
		secs    int64
		id      uint64
		orig    []byte
		content []byte
		msg     []byte
	}
	var r [2]req
	for i := range r {
		r[i].secs = vs.I64("block_time_unix")
		// time.Unix normalises; any second count representable in a time.Time (year < 2^31) is far inside this
		vs.Assume(r[i].secs > -(1<<55) && r[i].secs < (1<<55))
		r[i].id = vs.U64("signing_id")
		r[i].orig = vs.Bytes("originator", vs.Pick("originator_len", maxO+1))
		r[i].content = vs.Bytes("content", vs.Pick("content_len", maxC+1))
		ctx := sdk.Context{}.WithBlockTime(time.Unix(r[i].secs, int64(vs.Int("block_time_nanos", 0, 999_999_999))))
		r[i].msg = EncodeSigning(ctx, r[i].id, r[i].orig, r[i].content)

		m := r[i].msg
		vs.Assert("length-is-48-plus-content", len(m) == 48+len(r[i].content))
		if len(m) != 48+len(r[i].content) {
			return
		}
		vs.Assert("bytes-0-32-originator-hash", bytes.Equal(m[0:32], tss.Hash(r[i].orig)))
		vs.Assert("bytes-32-40-block-time-be", bytes.Equal(m[32:40], c11BE64(uint64(r[i].secs))))
		vs.Assert("bytes-40-48-signing-id-be", bytes.Equal(m[40:48], c11BE64(r[i].id)))
		vs.Assert("tail-is-content", bytes.Equal(m[48:], r[i].content))
	}
	same := bytes.Equal(r[0].msg, r[1].msg)
	vs.Assert("equal-messages-equal-ids", vs.Implies(same, r[0].id == r[1].id))
	vs.Assert("equal-messages-equal-time", vs.Implies(same, r[0].secs == r[1].secs))
	vs.Assert("equal-messages-equal-content", vs.Implies(same, bytes.Equal(r[0].content, r[1].content)))
	vs.Assert("equal-messages-equal-originator-hash", vs.Implies(same, bytes.Equal(tss.Hash(r[0].orig), tss.Hash(r[1].orig))))
	vs.Reach("same-message", same)
	vs.Reach("different-ids", r[0].id != r[1].id)
}

// Originator encodings. Fields are arbitrary strings of length 0..max_field (length concrete per path, bytes
// arbitrary); the keccak of a field is an uninterpreted function of its bytes, so injectivity is "up to keccak":
// equal encodings imply equal field hashes and equal tunnel ids.

func c11H(s string) []byte { return tss.Hash([]byte(s)) }

func c11Direct(maxF int) (DirectOriginator, []byte) {
	d := NewDirectOriginator(c11Str("d_source_chain", maxF), c11Str("d_requester", maxF), c11Str("d_memo", maxF))
	e, err := d.Encode()
	vs.Assert("direct-encode-ok", err == nil)
	vs.Assert("direct-length-100", len(e) == 100)
	if len(e) == 100 {
		vs.Assert("direct-tag", bytes.Equal(e[0:4], []byte{0xb3, 0x9f, 0xa5, 0xd2}))
		vs.Assert("direct-source-hash", bytes.Equal(e[4:36], c11H(d.SourceChainID)))
		vs.Assert("direct-requester-hash", bytes.Equal(e[36:68], c11H(d.Requester)))
		vs.Assert("direct-memo-hash", bytes.Equal(e[68:100], c11H(d.Memo)))
	}
	return d, e
}

func c11Tunnel(maxF int) (TunnelOriginator, []byte) {
	t := NewTunnelOriginator(c11Str("t_source_chain", maxF), vs.U64("t_tunnel_id"),
		c11Str("t_dest_chain", maxF), c11Str("t_dest_contract", maxF))
	e, err := t.Encode()
	vs.Assert("tunnel-encode-ok", err == nil)
	vs.Assert("tunnel-length-108", len(e) == 108)
	if len(e) == 108 {
		vs.Assert("tunnel-tag", bytes.Equal(e[0:4], []byte{0x72, 0xeb, 0xe8, 0x3d}))
		vs.Assert("tunnel-source-hash", bytes.Equal(e[4:36], c11H(t.SourceChainID)))
		vs.Assert("tunnel-id-be", bytes.Equal(e[36:44], c11BE64(t.TunnelID)))
		vs.Assert("tunnel-dest-chain-hash", bytes.Equal(e[44:76], c11H(t.DestinationChainID)))
		vs.Assert("tunnel-dest-contract-hash", bytes.Equal(e[76:108], c11H(t.DestinationContractAddress)))
	}
	return t, e
}

// VerifC11DirectOriginator: layout tag | H(source) | H(requester) | H(memo) (100 bytes) and injectivity for two
// arbitrary direct originators.
func VerifC11DirectOriginator() {
	maxF := vs.Param("max_field")
	d0, e0 := c11Direct(maxF)
	d1, e1 := c11Direct(maxF)
	same := bytes.Equal(e0, e1)
	vs.Assert("direct-injective-source", vs.Implies(same, bytes.Equal(c11H(d0.SourceChainID), c11H(d1.SourceChainID))))
	vs.Assert("direct-injective-requester", vs.Implies(same, bytes.Equal(c11H(d0.Requester), c11H(d1.Requester))))
	vs.Assert("direct-injective-memo", vs.Implies(same, bytes.Equal(c11H(d0.Memo), c11H(d1.Memo))))
	// moving a byte from the end of one field to the start of the next changes both hashes' arguments
	vs.Reach("same-direct", same)
	vs.Reach("different-direct", !same)
}

// VerifC11TunnelOriginator: layout tag | H(source) | BE64(tunnel id) | H(dest chain) | H(dest contract) (108 bytes)
// and injectivity for two arbitrary tunnel originators.
func VerifC11TunnelOriginator() {
	maxF := vs.Param("max_field")
	t0, e0 := c11Tunnel(maxF)
	t1, e1 := c11Tunnel(maxF)
	same := bytes.Equal(e0, e1)
	vs.Assert("tunnel-injective-source", vs.Implies(same, bytes.Equal(c11H(t0.SourceChainID), c11H(t1.SourceChainID))))
	vs.Assert("tunnel-injective-id", vs.Implies(same, t0.TunnelID == t1.TunnelID))
	vs.Assert("tunnel-injective-dest-chain", vs.Implies(same, bytes.Equal(c11H(t0.DestinationChainID), c11H(t1.DestinationChainID))))
	vs.Assert("tunnel-injective-dest-contract", vs.Implies(same,
		bytes.Equal(c11H(t0.DestinationContractAddress), c11H(t1.DestinationContractAddress))))
	vs.Reach("same-tunnel", same)
	vs.Reach("different-tunnel-ids", t0.TunnelID != t1.TunnelID)
}

// VerifC11OriginatorKinds: a direct and a tunnel originator never encode to the same bytes, nor do their hashes'
// pre-images share a tag (the first four bytes differ).
func VerifC11OriginatorKinds() {
	VerifC11CheckTags([]VerifC11OwnTag{
		{"DirectOriginator", DirectOriginatorPrefix},
		{"TunnelOriginator", TunnelOriginatorPrefix},
	})
	maxF := vs.Param("max_field")
	_, de := c11Direct(maxF)
	_, te := c11Tunnel(maxF)
	vs.Assert("direct-never-equals-tunnel", !bytes.Equal(de, te))
	if len(de) >= 4 && len(te) >= 4 {
		vs.Assert("kind-tags-differ", !bytes.Equal(de[:4], te[:4]))
	}
	vs.Reach("both-encoded", true)
}

// ---------- 4-byte tags (H3) ----------

// VerifC11TagNames are the documented names of every 4-byte kind tag that can start an originator or a content
// message; a tag is keccak256(name)[:4] (docs: x/tss/README.md, x/bandtss/README.md, x/feeds/README.md).
var VerifC11TagNames = []string{
	"DirectOriginator", "TunnelOriginator", // originators (x/tss/types)
	"Text",                     // x/tss
	"Transition",               // x/bandtss
	"FixedPointABI", "TickABI", // x/feeds/types (also used by x/tunnel)
	"Proto", "FullABI", "PartialABI", // x/oracle
}

// VerifC11OwnTag pairs a documented name with the constant the code uses for it.
type VerifC11OwnTag struct {
	Name  string
	Const string
}

// VerifC11CheckTags asserts that each constant of the calling package is keccak256(name)[:4] of its documented
// name (keccak evaluated on concrete input), and that the tags of all documented names are pairwise distinct
// (so, together with the per-package harnesses, all nine constants are pairwise distinct). Names inside one
// family (originators / content kinds) must differ; distinctness across families is asserted as well.
func VerifC11CheckTags(own []VerifC11OwnTag) {
	for _, o := range own {
		known := false
		for _, n := range VerifC11TagNames {
			if n == o.Name {
				known = true
			}
		}
		vs.Assert("tag-name-is-documented", known)
		want := tss.Hash([]byte(o.Name))[:4]
		vs.Assert("tag-is-4-bytes", len(o.Const) == 4)
		vs.Assert("tag-is-keccak-prefix-of-name", bytes.Equal([]byte(o.Const), want))
	}
	for i, a := range VerifC11TagNames {
		for j, b := range VerifC11TagNames {
			if i < j {
				vs.Assert("documented-tags-pairwise-distinct", !bytes.Equal(tss.Hash([]byte(a))[:4], tss.Hash([]byte(b))[:4]))
			}
		}
	}
	vs.Reach("tags-checked", true)
}

