//go:build verif

package keeper

import (
	storetypes "cosmossdk.io/store/types"

	sdk "github.com/cosmos/cosmos-sdk/types"

	"github.com/bandprotocol/chain/v3/pkg/tss"
	vs "github.com/bandprotocol/chain/v3/vsupport"
	"github.com/bandprotocol/chain/v3/vsupport/venv"
	"github.com/bandprotocol/chain/v3/x/tss/types"
)

func init() { vs.RegisterHarness("VerifC04KeeperComplaint", VerifC04KeeperComplaint) }

type c04kSeed struct{}

func (c04kSeed) GetRollingSeed(ctx sdk.Context) []byte { return make([]byte, 32) }

type c04kNonce struct{}

func (c04kNonce) RandBytes16() ([]byte, error) { return vs.Bytes("nonce16", 16), nil }

// VerifC04KeeperComplaint: the chain-side complaint verdict (Keeper.VerifyComplaint, which looks up the stored
// round-1/round-2 data and picks the encrypted share of the complainant out of the respondent's list) for EVERY
// ordered (complainant, respondent) pair of an n-member group: a complaint with an honest proof against a
// correctly dealt share is refused (only the complainant can be blamed), and against any other share
// (dealt + delta) it is upheld.
func VerifC04KeeperComplaint() {
	vs.AssumeHashScalars()
	tss.VerifUseTapeRandomness()
	n := vs.Param("n")
	t := 2
	key := storetypes.NewKVStoreKey(types.StoreKey)
	ctx := venv.NewContext(key)
	k := NewKeeper(venv.Codec(), key, venv.Authz{}, c04kSeed{}, types.NewContentRouter(), types.NewCallbackRouter(), venv.Addr(9).String())
	gid := tss.GroupID(1)

	complainant := tss.MemberID(1 + vs.Pick("complainant", n))
	respondent := tss.MemberID(1 + vs.Pick("respondent", n))
	vs.Assume(complainant != respondent)

	// round-1 material of every member (only the respondent's polynomial matters)
	otPriv := make(tss.Scalars, n)
	otPub := make(tss.Points, n)
	var coeffs tss.Scalars
	var commits tss.Points
	for k2 := 0; k2 < t; k2++ {
		a := tss.Scalar(vs.ScalarBytes("coefficient"))
		coeffs = append(coeffs, a)
		commits = append(commits, a.Point())
	}
	for i := 0; i < n; i++ {
		otPriv[i] = tss.Scalar(vs.ScalarBytes("one_time_key"))
		otPub[i] = otPriv[i].Point()
		r1 := types.Round1Info{MemberID: tss.MemberID(i + 1), OneTimePubKey: otPub[i]}
		if tss.MemberID(i+1) == respondent {
			r1.CoefficientCommits = commits
		}
		k.AddRound1Info(ctx, gid, r1)
	}

	// the respondent's round-2 submission: honest shares for everybody, except (optionally) the complainant's
	corrupt := vs.Bool("respondent_corrupts_share")
	encs, err := tss.ComputeEncryptedSecretShares(respondent, otPriv[respondent-1], otPub, coeffs, c04kNonce{})
	vs.Assert("encrypt-ok", err == nil)
	if corrupt {
		slot := 0
		for id := tss.MemberID(1); id < complainant; id++ {
			if id != respondent {
				slot++
			}
		}
		good, err := tss.ComputeSecretShare(coeffs, complainant)
		vs.Assert("share-ok", err == nil)
		keySym, err := tss.ComputeSecretSym(otPriv[respondent-1], otPub[complainant-1])
		vs.Assert("sym-ok", err == nil)
		bad, err := tss.Encrypt(tss.SumScalars(good, tss.Scalar(vs.ScalarBytes("delta_share"))), keySym, c04kNonce{})
		vs.Assert("encrypt-bad-ok", err == nil)
		encs[slot] = bad
	}
	k.AddRound2Info(ctx, gid, types.Round2Info{MemberID: respondent, EncryptedSecretShares: encs})

	// honest complaint proof by the complainant
	sig, keySym, err := tss.SignComplaint(otPub[complainant-1], otPub[respondent-1], otPriv[complainant-1])
	vs.Assert("sign-complaint-ok", err == nil)
	verr := k.VerifyComplaint(ctx, gid, types.Complaint{Complainant: complainant, Respondent: respondent, KeySym: keySym, Signature: sig})
	if corrupt {
		vs.Assert("complaint-against-bad-share-upheld", verr == nil)
		vs.Reach("cheater-caught", true)
	} else {
		vs.Assert("complaint-against-good-share-refused", verr != nil)
		vs.Reach("honest-dealer-not-blamed", true)
	}
}
