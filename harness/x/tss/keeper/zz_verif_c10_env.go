//go:build verif

package keeper

import (
	"bytes"
	"time"

	storetypes "cosmossdk.io/store/types"

	sdk "github.com/cosmos/cosmos-sdk/types"

	"github.com/bandprotocol/chain/v3/pkg/bandrng"
	"github.com/bandprotocol/chain/v3/pkg/tss"
	vs "github.com/bandprotocol/chain/v3/vsupport"
	"github.com/bandprotocol/chain/v3/vsupport/venv"
	"github.com/bandprotocol/chain/v3/x/tss/types"
)

// Shared environment of the C10 harnesses (x/tss signing life cycle).
//
// Identifier policy: group id, signing ids, attempt numbers, member ids/addresses, DE queue positions and the
// shape of every list are concrete; heights, SigningPeriod, MaxSigningAttempt, member activity flags, the
// owner's penalty decisions, key material, nonces, messages, DRBG draws and all hash outputs are symbolic.
//
// Pre-state invariant established by construction (DESIGN Appendix B, S1-S8), E = SigningExpirations,
// Q = PendingProcessSignings:
//
//	S1 every (s,att) in E has a Signing and a SigningAttempt record, att <= CurrentAttempt(s), E is sorted by
//	   ExpiredHeight (non-decreasing), no duplicate pairs; height <= ExpiredHeight <= height + SigningPeriod
//	   (an entry is appended with height+SigningPeriod and removed at the end of the block it expires in)
//	S2 WAITING  =>  (s,CurrentAttempt) in E, the group exists
//	S3 interim data (attempt record, partial signatures, count) exists only for pairs in E; the entries of a
//	   signing are the consecutive attempts ending at CurrentAttempt
//	S4 count(s,att) = number of stored partial signatures <= |assigned|, stored only for assigned members;
//	   every entry that is not the current attempt of a WAITING signing has a full count (it was left behind by
//	   an aggregation: success, or failure followed by a retry / FALLEN)
//	S5 Q is duplicate-free, s in Q  =>  WAITING and count(s,cur) = |assigned|
//	S6 WAITING and s not in Q  =>  count(s,cur) < |assigned|
//	S7 1 <= CurrentAttempt <= MaxSigningAttempt; |assigned| = threshold(group) >= 1; assigned members are
//	   distinct members of the group in ascending id order
//	S8 SUCCESS  =>  Signature != nil

const (
	c10Group = tss.GroupID(1)
	c10Owner = "bandtss"
)

var c10Dummy65 = func() []byte {
	b := make([]byte, 65)
	for i := range b {
		b[i] = byte(0x30 + i)
	}
	return b
}()

// c10Tagged: n opaque bytes that identify where they were stored.
func c10Tagged(n int, kind, tag byte) []byte {
	b := make([]byte, n)
	for i := range b {
		b[i] = kind
	}
	b[0], b[n-1] = 2, tag
	return b
}

type c10Env struct {
	ctx sdk.Context
	k   *Keeper
	cb  *venv.TSSCallbacks
}

type c10Member struct {
	id     tss.MemberID
	addr   sdk.AccAddress
	priv   tss.Scalar
	pub    tss.Point
	active bool // symbolic
	penal  bool // symbolic: the owner module deactivates this member when it is reported idle
	head   uint64
	des    []types.DE // queue content, head first
	rec    types.Member
}

// c10Att is one (signing, attempt) pair of the expiration list with its interim data.
type c10Att struct {
	sig       *c10Sig
	att       uint64
	expired   uint64 // symbolic
	assigned  []int  // member indexes, ascending
	privNonce tss.Scalars
	rec       types.SigningAttempt
	has       []bool // partial signature stored
	nsig      int
}

type c10Sig struct {
	id      tss.SigningID
	status  types.SigningStatus
	cur     uint64
	msg     []byte
	atts    []*c10Att // entries of this signing in E, ascending attempt (last = cur when present)
	pending bool
	corrupt bool // pending only: one stored share is not the honest one (aggregation must fail)
	rec     types.Signing
}

type c10State struct {
	n, t     int
	height   uint64
	period   uint64
	maxAtt   uint64
	routed   bool // the group's owner has a registered callback object
	groupKey tss.Point
	members  []*c10Member
	sigs     []*c10Sig
	exp      []*c10Att
	pending  []tss.SigningID
	draws    []uint64
}

type c10Opts struct {
	n           int  // members in the group
	tmax        int  // threshold picked in 1..tmax
	signings    int  // signings in the pre-state
	entries     int  // max entries of the expiration list
	maxDE       int  // DE queue length of each member picked in 0..maxDE
	prior       bool // CurrentAttempt may exceed the number of listed attempts by one
	second      int  // status shapes of the second signing: 1 = WAITING only, 3 = all
	draws       int  // DRBG draws available
	needHonest  bool // store honest shares for pending signings (needed when aggregation runs)
	routedOnly  bool // the owner always has callbacks registered
	varyDE      int  // number of members whose DE queue length is enumerated
	emptyStored bool // enumerate "empty list record stored" vs "no record"
}

func c10Setup() *c10Env {
	key := storetypes.NewKVStoreKey(types.StoreKey)
	ctx := venv.NewContext(key)
	cdc := venv.Codec()
	cb := &venv.TSSCallbacks{}
	router := types.VerifCallbackRouter(c10Owner, cb)
	k := NewKeeper(cdc, key, venv.Authz{}, venv.RollingSeed{}, types.NewContentRouter(), router, venv.Addr(9).String())
	return &c10Env{ctx: ctx, k: k, cb: cb}
}

func c10Scalar(label string) tss.Scalar { return tss.Scalar(vs.ScalarBytes(label)) }

func c10IDScalar(id tss.MemberID) tss.Scalar {
	b := make([]byte, 32)
	copy(b[24:], sdk.Uint64ToBigEndian(uint64(id)))
	return tss.Scalar(b)
}

func c10Addr(i int) sdk.AccAddress { return venv.Addr(1 + i) }

// c10Subsets lists the ascending index subsets of size t of 0..n-1.
func c10Subsets(n, t int) [][]int {
	var out [][]int
	var rec func(start int, cur []int)
	rec = func(start int, cur []int) {
		if len(cur) == t {
			out = append(out, append([]int{}, cur...))
			return
		}
		for i := start; i < n; i++ {
			rec(i+1, append(cur, i))
		}
	}
	rec(0, nil)
	return out
}

// c10Build stores an arbitrary bounded signing state with the real setters and returns its mirror.
func c10Build(e *c10Env, o c10Opts) *c10State {
	vs.AssumeHashScalars()
	k := e.k
	st := &c10State{n: o.n}

	st.height = vs.U64("height")
	vs.Assume(st.height >= 1 && st.height < 1<<40)
	e.ctx = e.ctx.WithBlockHeight(int64(st.height)).WithBlockTime(time.Unix(1700000000, 0)).WithChainID("bandchain")
	ctx := e.ctx

	st.period = vs.U64("signing_period")
	vs.Assume(st.period >= 1 && st.period < 1<<32)
	st.maxAtt = vs.U64("max_signing_attempt")
	p := types.DefaultParams()
	p.SigningPeriod, p.MaxSigningAttempt = st.period, st.maxAtt
	vs.Assume(k.SetParams(ctx, p) == nil)

	// group: sharing polynomial of degree t-1, member keys on it
	st.t = 1 + vs.Pick("threshold", o.tmax)
	st.routed = o.routedOnly || vs.Pick("owner_has_callbacks", 2) == 1
	coeffs := make(tss.Scalars, st.t)
	for i := range coeffs {
		coeffs[i] = c10Scalar("coefficient")
	}
	st.groupKey = coeffs[0].Point()
	owner := c10Owner
	if !st.routed {
		owner = "nobody"
	}
	k.SetGroup(ctx, types.NewGroup(c10Group, uint64(st.n), uint64(st.t), st.groupKey, types.GROUP_STATUS_ACTIVE, 1, owner))
	k.SetGroupCount(ctx, 1)
	k.SetLastExpiredGroupID(ctx, 1)
	for i := 0; i < st.n; i++ {
		m := &c10Member{id: tss.MemberID(i + 1), addr: c10Addr(i)}
		m.priv = tss.SolveScalarPolynomial(coeffs, c10IDScalar(m.id))
		vs.Assume(m.priv.Validate() == nil) // a zero key share has negligible probability
		m.pub = m.priv.Point()
		m.active = vs.Bool("member_active")
		m.penal = vs.Bool("owner_penalises")
		m.rec = types.NewMember(m.id, c10Group, m.addr, m.pub, false, m.active)
		k.SetMember(ctx, m.rec)
		m.head = uint64(2 * i)
		nde := o.maxDE // members beyond the first varyDE ones always have a full queue
		if i < o.varyDE {
			nde = vs.Pick("de_count", o.maxDE+1)
		}
		for j := 0; j < nde; j++ {
			de := types.NewDE(c10Scalar("de_d").Point(), c10Scalar("de_e").Point())
			m.des = append(m.des, de)
			k.SetDE(ctx, m.addr, m.head+uint64(j), de)
		}
		if nde > 0 || i > 0 {
			k.SetDEQueue(ctx, m.addr, types.NewDEQueue(m.head, m.head+uint64(nde)))
		} else {
			m.head = 0 // member 1 without DEs: no queue record at all
		}
		st.members = append(st.members, m)
	}
	subsets := c10Subsets(st.n, st.t)

	// signings: status, number of listed attempts, current attempt
	for s := 0; s < o.signings; s++ {
		sg := &c10Sig{id: tss.SigningID(s + 1), msg: vs.Bytes("message", 4)}
		nst := 3
		if s > 0 {
			nst = o.second
		}
		sg.status = []types.SigningStatus{types.SIGNING_STATUS_WAITING, types.SIGNING_STATUS_SUCCESS,
			types.SIGNING_STATUS_FALLEN}[vs.Pick("status", nst)]
		st.sigs = append(st.sigs, sg)
	}
	// listed attempts per signing (bounded by the total), then the merge order of E
	left := o.entries
	counts := make([]int, len(st.sigs))
	for s, sg := range st.sigs {
		lo := 0
		if sg.status == types.SIGNING_STATUS_WAITING {
			lo = 1 // S2
		}
		hi := 2
		if hi > left-(len(st.sigs)-1-s) { // leave one slot for each later signing (it may be WAITING)
			hi = left - (len(st.sigs) - 1 - s)
		}
		vs.Assume(hi >= lo)
		counts[s] = lo + vs.Pick("listed_attempts", hi-lo+1)
		left -= counts[s]
		prior := uint64(0)
		if o.prior && s == 0 && vs.Pick("has_prior_attempt", 2) == 1 {
			prior = 1
		}
		sg.cur = uint64(counts[s]) + prior
		if counts[s] == 0 {
			sg.cur = 1 + prior
		}
		vs.Assume(sg.cur <= st.maxAtt) // S7
	}
	taken := make([]int, len(st.sigs))
	var lastExp uint64
	for {
		var cand []int
		for s := range st.sigs {
			if taken[s] < counts[s] {
				cand = append(cand, s)
			}
		}
		if len(cand) == 0 {
			break
		}
		s := cand[0]
		if len(cand) > 1 {
			s = cand[vs.Pick("next_entry_of", len(cand))]
		}
		sg := st.sigs[s]
		a := &c10Att{sig: sg, att: sg.cur - uint64(counts[s]-1-taken[s])}
		taken[s]++
		a.expired = vs.U64("expired_height")
		vs.Assume(a.expired >= st.height && a.expired <= st.height+st.period && a.expired >= lastExp) // S1
		lastExp = a.expired
		a.assigned = subsets[0]
		if len(subsets) > 1 {
			a.assigned = subsets[vs.Pick("committee", len(subsets))]
		}
		sg.atts = append(sg.atts, a)
		st.exp = append(st.exp, a)
	}

	// interim data of every listed attempt
	for _, a := range st.exp {
		sg := a.sig
		current := a.att == sg.cur && sg.status == types.SIGNING_STATUS_WAITING
		var ams []types.AssignedMember
		for _, mi := range a.assigned {
			m := st.members[mi]
			kn := c10Scalar("own_nonce")
			a.privNonce = append(a.privNonce, kn)
			// the consumed DE and the binding factor of a stored attempt are never parsed again: opaque tagged bytes
			tag := byte(16*int(sg.id) + 4*int(a.att) + mi)
			de := types.NewDE(c10Tagged(33, 0xD0, tag), c10Tagged(33, 0xE0, tag))
			ams = append(ams, types.NewAssignedMember(m.rec, de, c10Tagged(32, 0xB0, tag), kn.Point()))
			has := true
			if current {
				has = false
				if vs.Pick("has_partial_signature", 2) == 1 { // fork: it decides which store keys exist
					has = true
				}
			}
			a.has = append(a.has, has)
			if has {
				a.nsig++
			}
		}
		a.rec = types.NewSigningAttempt(sg.id, a.att, a.expired, ams)
		k.SetSigningAttempt(ctx, a.rec)
		if current && a.nsig == len(a.assigned) {
			sg.pending = true // S5/S6
		}
	}

	// signing records, partial signatures
	for _, sg := range st.sigs {
		var nonce tss.Point
		var sig tss.Signature
		if sg.status == types.SIGNING_STATUS_SUCCESS {
			sig = c10Dummy65 // S8
		}
		if n := len(sg.atts); n > 0 && sg.atts[n-1].att == sg.cur {
			a := sg.atts[n-1]
			var err error
			nonce, err = tss.ComputeGroupPublicNonce(types.AssignedMembers(a.rec.AssignedMembers).PubNonces()...)
			vs.Assume(err == nil) // the own nonces do not cancel (negligible probability)
		} else {
			nonce = c10Tagged(33, 0xA0, byte(sg.id)) // group nonce of an attempt that is gone: never parsed again
		}
		sg.rec = types.NewSigning(sg.id, sg.cur, c10Group, st.groupKey, sg.msg, nonce, sig, sg.status,
			1, time.Unix(1600000000, 0))
		k.SetSigning(ctx, sg.rec)

		if sg.pending && o.needHonest {
			sg.corrupt = vs.Pick("stored_share_corrupt", 2) == 1
		}
		for _, a := range sg.atts {
			for j, mi := range a.assigned {
				if !a.has[j] {
					continue
				}
				m := st.members[mi]
				share := tss.Signature(c10Dummy65)
				if sg.pending && a.att == sg.cur && o.needHonest {
					share = c10HonestShare(st, sg, a, j)
					if sg.corrupt && j == 0 {
						bad, err := tss.NewSignatureFromComponents(share.R(), tss.SumScalars(share.S(), c10Scalar("delta_s")))
						vs.Assume(err == nil)
						share = bad
					}
				}
				k.AddPartialSignature(ctx, sg.id, a.att, m.id, share)
			}
		}
	}
	k.SetSigningCount(ctx, uint64(len(st.sigs)))

	// work lists
	var ses []types.SigningExpiration
	for _, a := range st.exp {
		ses = append(ses, types.NewSigningExpiration(a.sig.id, a.att))
	}
	if len(ses) > 0 || (o.emptyStored && vs.Pick("empty_list_stored", 2) == 1) {
		k.SetSigningExpirations(ctx, types.NewSigningExpirations(ses))
	}
	for _, sg := range st.sigs {
		if sg.pending {
			st.pending = append(st.pending, sg.id)
		}
	}
	if len(st.pending) == 2 && vs.Pick("pending_reversed", 2) == 1 {
		st.pending[0], st.pending[1] = st.pending[1], st.pending[0]
	}
	if len(st.pending) > 0 {
		k.SetPendingProcessSignings(ctx, types.NewPendingProcessSignings(st.pending))
	}

	// DRBG output and the owner's penalty
	st.draws = make([]uint64, o.draws)
	for i := range st.draws {
		st.draws[i] = vs.U64("draw")
	}
	bandrng.VerifSetStream(st.draws)
	e.cb.OnTimeout = func(ctx sdk.Context, sid tss.SigningID, idle []sdk.AccAddress) {
		for _, addr := range idle {
			for _, m := range st.members {
				if bytes.Equal(m.addr, addr) && m.penal {
					if err := k.DeactivateMember(ctx, c10Group, addr); err != nil {
						panic(err)
					}
				}
			}
		}
	}
	return st
}

// c10HonestShare: the share of the j-th assigned member of attempt a, made with the real pkg/tss signer
// (pkg/tss is decided by C03; here it is the reference that says what an honest member submits).
func c10HonestShare(st *c10State, sg *c10Sig, a *c10Att, j int) tss.Signature {
	ids := types.AssignedMembers(a.rec.AssignedMembers).MemberIDs()
	m := st.members[a.assigned[j]]
	lambda, err := tss.ComputeLagrangeCoefficient(m.id, ids)
	vs.Assume(err == nil)
	nonce, err := tss.ComputeGroupPublicNonce(types.AssignedMembers(a.rec.AssignedMembers).PubNonces()...)
	vs.Assume(err == nil)
	share, err := tss.SignSigning(nonce, st.groupKey, sg.msg, lambda, a.privNonce[j], m.priv)
	vs.Assume(err == nil)
	return share
}

func (st *c10State) sig(id tss.SigningID) *c10Sig {
	for _, sg := range st.sigs {
		if sg.id == id {
			return sg
		}
	}
	return nil
}

func (sg *c10Sig) curAtt() *c10Att {
	if n := len(sg.atts); n > 0 && sg.atts[n-1].att == sg.cur {
		return sg.atts[n-1]
	}
	return nil
}

func (a *c10Att) addrs(st *c10State, onlyMissing bool) []sdk.AccAddress {
	var out []sdk.AccAddress
	for j, mi := range a.assigned {
		if onlyMissing && a.has[j] {
			continue
		}
		out = append(out, st.members[mi].addr)
	}
	return out
}

func c10SameAddrs(a, b []sdk.AccAddress) bool {
	if len(a) != len(b) {
		return false
	}
	for i := range a {
		if !bytes.Equal(a[i], b[i]) {
			return false
		}
	}
	return true
}
