//go:build verif

package keeper

import (
	"bytes"

	sdk "github.com/cosmos/cosmos-sdk/types"

	"github.com/bandprotocol/chain/v3/pkg/tss"
	vs "github.com/bandprotocol/chain/v3/vsupport"
	"github.com/bandprotocol/chain/v3/x/tss/types"
)

// c04Round3Action is what a protocol-following member does in round 3 (the logic of
// cylinder/workers/group.getOwnPrivKey / getSecretShare, with the same pkg/tss calls, on the data the chain
// stored): decrypt every share dealt to it, check it against the dealer's commitments, complain about every
// bad one (real SignComplaint), otherwise confirm with the sum of the shares (real SignOwnPubKey over the key the
// chain registered for it).
func c04Round3Action(e *c04Env, me tss.MemberID, d c04Dealer) (complaints []types.Complaint, confirmSig tss.Signature) {
	var shares tss.Scalars
	for from := tss.MemberID(1); int(from) <= e.n; from++ {
		if from == me {
			own, err := tss.ComputeSecretShare(d.coeffs, me)
			vs.Assert("run-own-share-ok", err == nil)
			shares = append(shares, own)
			continue
		}
		r1Me, err := e.k.GetRound1Info(e.ctx, 1, me)
		vs.Assert("run-round1-info-stored", err == nil)
		r1From, err := e.k.GetRound1Info(e.ctx, 1, from)
		vs.Assert("run-round1-info-stored", err == nil)
		r2From, err := e.k.GetRound2Info(e.ctx, 1, from)
		vs.Assert("run-round2-info-stored", err == nil)
		enc := r2From.EncryptedSecretShares[c04Slot(from, me)]
		keySym, err := tss.ComputeSecretSym(d.otPriv, r1From.OneTimePubKey)
		vs.Assert("run-sym-ok", err == nil)
		share, err := tss.DecryptSecretShare(enc, keySym)
		vs.Assert("run-decrypt-ok", err == nil)
		if tss.VerifySecretShare(me, share, r1From.CoefficientCommits) != nil {
			sig, ks, err := tss.SignComplaint(r1Me.OneTimePubKey, r1From.OneTimePubKey, d.otPriv)
			vs.Assert("run-sign-complaint-ok", err == nil)
			complaints = append(complaints, types.NewComplaint(me, from, ks, sig))
			continue
		}
		shares = append(shares, share)
	}
	if len(complaints) > 0 {
		return complaints, nil
	}
	priv, err := tss.ComputeOwnPrivateKey(shares...)
	vs.Assert("run-own-key-ok", err == nil)
	mem := e.k.MustGetMember(e.ctx, 1, me)
	vs.Assert("run-registered-key-is-image-of-own-key", bytes.Equal(mem.PubKey, priv.Point()))
	sig, err := tss.SignOwnPubKey(me, e.dkgCtx[1], mem.PubKey, priv)
	vs.Assert("run-sign-own-key-ok", err == nil)
	return nil, sig
}

// VerifC04RunBody: a complete group creation through the real msg server and the real EndBlocker, every member
// following the protocol except (optionally) one dealer that corrupts the share of one recipient. Submission
// order (the same rotation of the member list in every round) is chosen by forking; polynomials, one-time keys, nonces are symbolic.
//
//	nobody deviates  => every message accepted, ACTIVE, group key = image of the sum of the constant terms, every
//	                    member key = image of the sum of its shares, nobody malicious, completed-callback once;
//	one bad share    => the recipient's complaint is upheld, FALLEN, exactly the cheater is malicious,
//	                    failed-callback once. A protocol-following member is never marked.
//
// This run also checks that each round's pre-state invariant assumed by the step harnesses is what the real
// code establishes (group advances exactly at the end-block after the last submission).
func VerifC04RunBody(endBlock func(ctx sdk.Context, k *Keeper) error) {
	vs.AssumeHashScalars()
	tss.VerifUseTapeRandomness()
	n := vs.Param("n")
	t := vs.Param("t")
	e := c04Setup(n, t)
	dealers := make([]c04Dealer, n)
	for m := range dealers {
		dealers[m] = c04NewDealer(t)
	}
	for j := 0; j < t; j++ { // every partial sum of commitments (any subset of dealers) is a finite point
		for mask := 1; mask < 1<<n; mask++ {
			in := make([]bool, n)
			for i := 0; i < n; i++ {
				in[i] = mask&(1<<i) != 0
			}
			vs.Assume(c04SumCoeff(dealers, in, j).Validate() == nil)
		}
	}
	for m := 1; m <= n; m++ { // every member's key share is non-zero (its public key is a finite point)
		vs.Assume(c04OwnPub(dealers, tss.MemberID(m)).Validate() == nil)
	}
	cheater := tss.MemberID(vs.Pick("cheater", n+1)) // 0: nobody
	victim := cheater%tss.MemberID(n) + 1
	status := func() types.GroupStatus { return e.k.MustGetGroup(e.ctx, 1).Status }
	first := vs.Pick("first_submitter", n) // the same rotation in every round
	order := func(label string) []int {
		var o []int
		for i := 0; i < n; i++ {
			o = append(o, (first+i)%n)
		}
		return o
	}

	// ---- round 1
	for i, m := range order("first_in_round1") {
		id := tss.MemberID(m + 1)
		d := dealers[m]
		otSig, err := tss.SignOneTime(id, e.dkgCtx[1], d.otPub, d.otPriv)
		vs.Assert("run-sign-one-time-ok", err == nil)
		a0Sig, err := tss.SignA0(id, e.dkgCtx[1], d.commits[0], d.coeffs[0])
		vs.Assert("run-sign-a0-ok", err == nil)
		_, err = e.ms.SubmitDKGRound1(e.ctx, types.NewMsgSubmitDKGRound1(1, types.NewRound1Info(id, d.commits, d.otPub, a0Sig, otSig), c04Addr(m).String()))
		vs.Assert("run-round1-accepted", err == nil)
		vs.Assert("run-queued-iff-round-complete", (len(e.k.GetPendingProcessGroups(e.ctx)) == 1) == (i == n-1))
		if i < n-1 {
			vs.Assert("run-end-block-ok", endBlock(e.ctx, e.k) == nil)
			vs.Assert("run-round1-waits-for-everybody", status() == types.GROUP_STATUS_ROUND_1)
		}
	}
	vs.Assert("run-end-block-ok", endBlock(e.ctx, e.k) == nil)
	vs.Assert("run-round2-entered", status() == types.GROUP_STATUS_ROUND_2)
	groupKey := c04SumCoeff(dealers, c04All(n), 0).Point()
	vs.Assert("run-group-key-is-image-of-sum-of-constant-terms", bytes.Equal(e.k.MustGetGroup(e.ctx, 1).PubKey, groupKey))

	// ---- round 2
	var otPubs tss.Points
	for m := 1; m <= n; m++ {
		r1, err := e.k.GetRound1Info(e.ctx, 1, tss.MemberID(m))
		vs.Assert("run-round1-info-stored", err == nil)
		otPubs = append(otPubs, r1.OneTimePubKey)
	}
	for i, m := range order("first_in_round2") {
		id := tss.MemberID(m + 1)
		encs, err := tss.ComputeEncryptedSecretShares(id, dealers[m].otPriv, otPubs, dealers[m].coeffs, c04kNonce{})
		vs.Assert("run-encrypt-ok", err == nil && len(encs) == n-1)
		if id == cheater {
			encs[c04Slot(cheater, victim)] = c04DealtShare(dealers, cheater, victim, true)
		}
		_, err = e.ms.SubmitDKGRound2(e.ctx, types.NewMsgSubmitDKGRound2(1, types.NewRound2Info(id, encs), c04Addr(m).String()))
		vs.Assert("run-round2-accepted", err == nil)
		vs.Assert("run-queued-iff-round-complete", (len(e.k.GetPendingProcessGroups(e.ctx)) == 1) == (i == n-1))
		if i < n-1 {
			vs.Assert("run-end-block-ok", endBlock(e.ctx, e.k) == nil)
			vs.Assert("run-round2-waits-for-everybody", status() == types.GROUP_STATUS_ROUND_2)
		}
	}
	vs.Assert("run-end-block-ok", endBlock(e.ctx, e.k) == nil)
	vs.Assert("run-round3-entered", status() == types.GROUP_STATUS_ROUND_3)

	// ---- round 3
	for i, m := range order("first_in_round3") {
		id := tss.MemberID(m + 1)
		complaints, sig := c04Round3Action(e, id, dealers[m])
		vs.Assert("run-complains-iff-dealt-a-bad-share", (len(complaints) > 0) == (cheater != 0 && id == victim))
		var err error
		if len(complaints) > 0 {
			vs.Assert("run-complaint-names-the-cheater", len(complaints) == 1 && complaints[0].Respondent == cheater)
			_, err = e.ms.Complain(e.ctx, types.NewMsgComplain(1, complaints, c04Addr(m).String()))
		} else {
			_, err = e.ms.Confirm(e.ctx, types.NewMsgConfirm(1, id, sig, c04Addr(m).String()))
		}
		vs.Assert("run-round3-accepted", err == nil)
		vs.Assert("run-queued-iff-round-complete", (len(e.k.GetPendingProcessGroups(e.ctx)) == 1) == (i == n-1))
		if i < n-1 {
			vs.Assert("run-end-block-ok", endBlock(e.ctx, e.k) == nil)
			vs.Assert("run-round3-waits-for-everybody", status() == types.GROUP_STATUS_ROUND_3)
		}
	}
	vs.Assert("run-end-block-ok", endBlock(e.ctx, e.k) == nil)

	// ---- outcome
	for m := 1; m <= n; m++ {
		mem := e.k.MustGetMember(e.ctx, 1, tss.MemberID(m))
		vs.Assert("run-exactly-the-cheater-is-malicious", mem.IsMalicious == (tss.MemberID(m) == cheater))
		vs.Assert("run-member-key-is-image-of-its-shares", bytes.Equal(mem.PubKey, c04OwnPub(dealers, tss.MemberID(m))))
	}
	vs.Assert("run-group-key-final", bytes.Equal(e.k.MustGetGroup(e.ctx, 1).PubKey, groupKey))
	vs.Assert("run-queue-empty", len(e.k.GetPendingProcessGroups(e.ctx)) == 0)
	vs.Assert("run-bystander-still-in-round1", e.k.MustGetGroup(e.ctx, 2).Status == types.GROUP_STATUS_ROUND_1)
	if cheater == 0 {
		vs.Assert("run-honest-group-active", status() == types.GROUP_STATUS_ACTIVE)
		vs.Assert("run-completed-callback-once", c04SameIDs(e.cb.Completed, []tss.GroupID{1}) && len(e.cb.Failed) == 0 && len(e.cb.Expired) == 0)
		vs.Reach("run-active", true)
	} else {
		vs.Assert("run-cheated-group-fallen", status() == types.GROUP_STATUS_FALLEN)
		vs.Assert("run-failed-callback-once", c04SameIDs(e.cb.Failed, []tss.GroupID{1}) && len(e.cb.Completed) == 0 && len(e.cb.Expired) == 0)
		vs.Reach("run-fallen", true)
	}
}
