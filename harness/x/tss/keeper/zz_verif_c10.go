//go:build verif

package keeper

import (
	"bytes"
	"sort"

	"github.com/decred/dcrd/dcrec/secp256k1/v4"

	storetypes "cosmossdk.io/store/types"

	sdk "github.com/cosmos/cosmos-sdk/types"

	"github.com/bandprotocol/chain/v3/pkg/tss"
	vs "github.com/bandprotocol/chain/v3/vsupport"
	"github.com/bandprotocol/chain/v3/vsupport/venv"
	"github.com/bandprotocol/chain/v3/x/tss/types"
)

// C10 — every signing terminates. Step harnesses over an arbitrary bounded signing state (zz_verif_c10_env.go).
//
// Method: the harness keeps a specification-side mirror of the state, applies the *specified* effect of the
// step to the mirror (plain Go over the mirror, written from the property text) and then compares the complete
// real state and the recorded owner callbacks with the mirror (c10Check), which also re-establishes S1-S8.

func init() {
	vs.RegisterHarness("VerifC10SubmitSignature", VerifC10SubmitSignature)
	vs.RegisterHarness("VerifC10EndBlockOne", VerifC10EndBlockOne)
	vs.RegisterHarness("VerifC10EndBlockTwo", VerifC10EndBlockTwo)
	vs.RegisterHarness("VerifC10HandleExpiredSignings", VerifC10HandleExpiredSignings)
	vs.RegisterHarness("VerifC10Aggregate", VerifC10Aggregate)
	vs.RegisterHarness("VerifC10NewRound", VerifC10NewRound)
	vs.RegisterHarness("VerifC10FailedSigning", VerifC10FailedSigning)
}

func c10OptsFromParams() c10Opts {
	return c10Opts{
		n: vs.Param("n"), tmax: vs.Param("tmax"), signings: vs.Param("signings"), entries: vs.Param("entries"),
		maxDE: vs.Param("max_de"), prior: vs.Param("prior") != 0, second: vs.Param("second"), draws: vs.Param("draws"),
		routedOnly: vs.Param("routed_only") != 0, emptyStored: vs.Param("empty_stored") != 0, varyDE: vs.Param("vary_de"),
	}
}

// ---------- specification of the steps on the mirror ----------

type c10Spec struct {
	st    *c10State
	calls []venv.TSSCbCall
	pos   int // DRBG draws consumed
}

func (sp *c10Spec) call(kind string, sid tss.SigningID, members []sdk.AccAddress) {
	if sp.st.routed {
		sp.calls = append(sp.calls, venv.TSSCbCall{Kind: kind, Signing: sid, Members: members})
	}
}

// aggregate: a pending signing whose stored shares are the honest ones becomes SUCCESS and the owner is told
// who signed; otherwise it has to be retried.
func (sp *c10Spec) aggregate(sg *c10Sig) (retry bool) {
	if sg.corrupt {
		return true
	}
	sg.status = types.SIGNING_STATUS_SUCCESS
	sp.call("completed", sg.id, sg.curAtt().addrs(sp.st, false))
	return false
}

// expire: the entries whose ExpiredHeight has been reached are removed with their interim data; one that is
// still missing shares is a time-out: the owner is told exactly who did not sign (and may deactivate them).
func (sp *c10Spec) expire() (timedOut []*c10Sig) {
	st := sp.st
	np := 0
	for _, a := range st.exp {
		if a.expired > st.height {
			break
		}
		np++
		if a.nsig != len(a.assigned) {
			idle := a.addrs(st, true)
			sp.call("timeout", a.sig.id, idle)
			if st.routed {
				for j, mi := range a.assigned {
					if !a.has[j] && st.members[mi].penal {
						st.members[mi].active = false
					}
				}
			}
			timedOut = append(timedOut, a.sig)
		}
		a.sig.atts = a.sig.atts[1:] // entries of a signing are listed in attempt order
	}
	for _, a := range st.exp[np:] {
		vs.Assert("expired-only-when-due", a.expired > st.height)
	}
	st.exp = st.exp[np:]
	return timedOut
}

func (sp *c10Spec) fail(sg *c10Sig) {
	sg.status = types.SIGNING_STATUS_FALLEN
	sp.call("failed", sg.id, nil)
}

func c10Concrete(r uint64, bound int) int {
	for c := 0; c < bound; c++ {
		if r == uint64(c) {
			return c
		}
	}
	vs.Assume(false)
	return 0
}

// retry: the next attempt is started iff the attempt budget allows it and the group still has `threshold`
// available members (active, with a DE); the committee is drawn without replacement from the available members
// with the DRBG, each selected member's oldest DE is consumed and the FROST nonces are derived from it; the new
// attempt expires SigningPeriod blocks later. Otherwise the signing is FALLEN.
func (sp *c10Spec) retry(sg *c10Sig) (started bool) {
	st := sp.st
	if sg.cur+1 > st.maxAtt {
		sp.fail(sg)
		return false
	}
	var avail []int
	for i, m := range st.members {
		if m.active && len(m.des) > 0 {
			avail = append(avail, i)
		}
	}
	if st.t > len(avail) {
		sp.fail(sg)
		return false
	}
	na := len(avail)
	idx := make([]int, na)
	for i := range idx {
		idx[i] = i
	}
	var sel []int
	for i := 0; i < st.t; i++ {
		vs.Assume(sp.pos < len(st.draws))
		c := c10Concrete(st.draws[sp.pos]%uint64(na-i), na-i)
		sp.pos++
		sel = append(sel, avail[idx[c]])
		idx[c] = idx[na-i-1]
	}
	sort.Ints(sel)

	// FROST nonces of the new committee from the consumed DEs (pkg/tss is the reference, decided by C03)
	var ids []tss.MemberID
	var pubDs, pubEs tss.Points
	for _, mi := range sel {
		m := st.members[mi]
		ids = append(ids, m.id)
		pubDs = append(pubDs, m.des[0].PubD)
		pubEs = append(pubEs, m.des[0].PubE)
	}
	commitment, err := tss.ComputeCommitment(ids, pubDs, pubEs)
	vs.Assume(err == nil)
	var ams []types.AssignedMember
	var pubNonces tss.Points
	for _, mi := range sel {
		m := st.members[mi]
		bf, err := tss.ComputeOwnBindingFactor(m.id, sg.msg, commitment)
		vs.Assume(err == nil)
		pn, err := tss.ComputeOwnPubNonce(m.des[0].PubD, m.des[0].PubE, bf)
		vs.Assume(err == nil) // D + rho*E is not the point at infinity (negligible probability)
		ams = append(ams, types.NewAssignedMember(m.rec, m.des[0], bf, pn))
		pubNonces = append(pubNonces, pn)
	}
	gpn, err := tss.ComputeGroupPublicNonce(pubNonces...)
	vs.Assume(err == nil) // the own nonces do not cancel (negligible probability)

	for _, mi := range sel {
		m := st.members[mi]
		m.des = m.des[1:]
		m.head++
	}
	sg.cur++
	sg.status = types.SIGNING_STATUS_WAITING
	sg.rec.GroupPubNonce = gpn
	a := &c10Att{sig: sg, att: sg.cur, expired: st.height + st.period, assigned: sel, has: make([]bool, len(sel))}
	a.rec = types.NewSigningAttempt(sg.id, a.att, a.expired, ams)
	sg.atts = append(sg.atts, a)
	st.exp = append(st.exp, a)
	return true
}

// endBlock: aggregation of the pending signings, then expiry, then one retry per failed aggregation and per
// time-out (in that order).
func (sp *c10Spec) endBlock() {
	st := sp.st
	var retry []*c10Sig
	for _, sid := range st.pending {
		sg := st.sig(sid)
		if sp.aggregate(sg) {
			retry = append(retry, sg)
		}
		sg.pending = false
	}
	st.pending = nil
	retry = append(retry, sp.expire()...)
	for _, sg := range retry {
		sp.retry(sg)
	}
}

// ---------- comparison of the real state with the mirror ----------

func c10CountKeys(e *c10Env, prefix []byte) int {
	it := storetypes.KVStorePrefixIterator(e.ctx.KVStore(e.k.storeKey), prefix)
	defer it.Close()
	n := 0
	for ; it.Valid(); it.Next() {
		n++
	}
	return n
}

func c10Check(e *c10Env, st *c10State, calls []venv.TSSCbCall) { c10CheckX(e, st, calls, false) }

// c10CheckX with midScan: the state between the expiry scan and the retries, in which a timed-out WAITING signing
// has no listed attempt (S2 is re-established by the retry or by FALLEN).
func c10CheckX(e *c10Env, st *c10State, calls []venv.TSSCbCall, midScan bool) {
	ctx, k := e.ctx, e.k

	// owner callbacks: exactly the specified ones, in order, with the specified members
	vs.Assert("callbacks-exactly-once", len(e.cb.Calls) == len(calls))
	for i := range calls {
		if i >= len(e.cb.Calls) {
			break
		}
		got := e.cb.Calls[i]
		vs.Assert("callback-kind-and-signing", got.Kind == calls[i].Kind && got.Signing == calls[i].Signing)
		vs.Assert("callback-members", c10SameAddrs(got.Members, calls[i].Members))
	}

	// signings
	vs.Assert("signing-count", k.GetSigningCount(ctx) == uint64(len(st.sigs)))
	for _, sg := range st.sigs {
		got, err := k.GetSigning(ctx, sg.id)
		vs.Assert("signing-exists", err == nil)
		if err != nil {
			continue
		}
		vs.Assert("signing-status", got.Status == sg.status)
		vs.Assert("signing-attempt", got.CurrentAttempt == sg.cur)
		vs.Assert("attempt-within-budget", got.CurrentAttempt >= 1 && got.CurrentAttempt <= st.maxAtt) // S7
		vs.Assert("signing-static-fields", got.ID == sg.id && got.GroupID == c10Group && bytes.Equal(got.Message, sg.msg) &&
			bytes.Equal(got.GroupPubKey, st.groupKey) && got.CreatedHeight == 1)
		vs.Assert("signing-group-nonce", bytes.Equal(got.GroupPubNonce, sg.rec.GroupPubNonce))
		vs.Assert("signature-iff-success", (len(got.Signature) > 0) == (sg.status == types.SIGNING_STATUS_SUCCESS)) // S8
		if sg.status == types.SIGNING_STATUS_WAITING && !midScan {
			vs.Assert("waiting-has-listed-current-attempt", sg.curAtt() != nil) // S2
		}
		full := sg.curAtt() != nil && sg.curAtt().nsig == len(sg.curAtt().assigned)
		if !(midScan && sg.curAtt() == nil) {
			vs.Assert("pending-iff-waiting-and-complete", sg.pending == (sg.status == types.SIGNING_STATUS_WAITING && full)) // S5,S6
		}
	}

	// expiration list and interim data
	ses := k.GetSigningExpirations(ctx)
	vs.Assert("expiration-list-length", len(ses) == len(st.exp))
	nSigs, nCounts := 0, 0
	var last uint64
	for i, a := range st.exp {
		if i < len(ses) {
			vs.Assert("expiration-entry", ses[i].SigningID == a.sig.id && ses[i].SigningAttempt == a.att)
		}
		sa, err := k.GetSigningAttempt(ctx, a.sig.id, a.att)
		vs.Assert("listed-attempt-has-record", err == nil) // S1
		if err != nil {
			continue
		}
		vs.Assert("attempt-expiry-height", sa.ExpiredHeight == a.expired)
		vs.Assert("expiry-sorted-and-in-window", vs.And(a.expired >= last, a.expired <= st.height+st.period)) // S1
		last = a.expired
		vs.Assert("attempt-keys", sa.SigningID == a.sig.id && sa.Attempt == a.att && a.att <= a.sig.cur)
		vs.Assert("committee-size-is-threshold", len(sa.AssignedMembers) == st.t && len(a.assigned) == st.t) // S7
		for j := range sa.AssignedMembers {
			if j >= len(a.rec.AssignedMembers) {
				break
			}
			g, w := sa.AssignedMembers[j], a.rec.AssignedMembers[j]
			m := st.members[a.assigned[j]]
			vs.Assert("assigned-member-identity", g.MemberID == m.id && g.Address == m.addr.String() && bytes.Equal(g.PubKey, m.pub))
			vs.Assert("assigned-member-ascending", j == 0 || a.assigned[j-1] < a.assigned[j])
			vs.Assert("assigned-member-de", bytes.Equal(g.PubD, w.PubD) && bytes.Equal(g.PubE, w.PubE))
			vs.Assert("assigned-member-nonce", bytes.Equal(g.BindingFactor, w.BindingFactor) && bytes.Equal(g.PubNonce, w.PubNonce))
		}
		vs.Assert("partial-signature-count", k.GetPartialSignatureCount(ctx, a.sig.id, a.att) == uint64(a.nsig)) // S4
		if a.nsig > 0 {
			nCounts++
		}
		for mi, m := range st.members {
			want := false
			for j, x := range a.assigned {
				if x == mi && a.has[j] {
					want = true
				}
			}
			vs.Assert("partial-signature-presence", k.HasPartialSignature(ctx, a.sig.id, a.att, m.id) == want)
			if want {
				nSigs++
			}
		}
		cur := a.att == a.sig.cur && a.sig.status == types.SIGNING_STATUS_WAITING
		vs.Assert("only-current-waiting-attempt-incomplete", cur || a.nsig == len(a.assigned)) // S4
	}
	// S3: nothing else is left behind
	vs.Assert("no-stray-attempt-records", c10CountKeys(e, types.SigningAttemptStoreKeyPrefix) == len(st.exp))
	vs.Assert("no-stray-partial-signatures", c10CountKeys(e, types.PartialSignatureStoreKeyPrefix) == nSigs)
	vs.Assert("no-stray-signature-counts", c10CountKeys(e, types.PartialSignatureCountStoreKeyPrefix) == nCounts)
	vs.Assert("no-stray-signings", c10CountKeys(e, types.SigningStoreKeyPrefix) == len(st.sigs))

	// pending list
	q := k.GetPendingProcessSignings(ctx)
	vs.Assert("pending-list-length", len(q) == len(st.pending))
	for i := range st.pending {
		if i < len(q) {
			vs.Assert("pending-list-entry", q[i] == st.pending[i])
		}
	}

	// members and DE queues
	for _, m := range st.members {
		got, err := k.GetMember(ctx, c10Group, m.id)
		vs.Assert("member-exists", err == nil)
		vs.Assert("member-activity", got.IsActive == m.active)
		vs.Assert("member-static-fields", got.Address == m.addr.String() && bytes.Equal(got.PubKey, m.pub) && !got.IsMalicious)
		dq := k.GetDEQueue(ctx, m.addr)
		vs.Assert("de-queue-bounds", dq.Head == m.head && dq.Tail == m.head+uint64(len(m.des)))
		for j, de := range m.des {
			g, err := k.GetDE(ctx, m.addr, m.head+uint64(j))
			vs.Assert("queued-de-kept", err == nil && bytes.Equal(g.PubD, de.PubD) && bytes.Equal(g.PubE, de.PubE))
		}
	}
	nDE := 0
	for _, m := range st.members {
		nDE += len(m.des)
	}
	vs.Assert("no-stray-des", c10CountKeys(e, types.DEStoreKeyPrefix) == nDE)
	g, err := k.GetGroup(ctx, c10Group)
	vs.Assert("group-untouched", err == nil && g.Status == types.GROUP_STATUS_ACTIVE && g.Threshold == uint64(st.t) && g.Size_ == uint64(st.n))
	p := k.GetParams(ctx)
	vs.Assert("params-untouched", p.SigningPeriod == st.period && p.MaxSigningAttempt == st.maxAtt)
}

// ---------- harnesses ----------

// VerifC10SubmitSignature: MsgSubmitSignature is accepted iff the signing is WAITING, the member is assigned in
// the current attempt, the signer is that member's account, it has not signed yet and the share is the honest one
// (real verification over the secp256k1 model); an accepted share is stored and counted once and the signing is
// queued for aggregation exactly when the count reaches the committee size; nothing else changes, a rejected
// message changes nothing.
func VerifC10SubmitSignature() {
	e := c10Setup()
	o := c10OptsFromParams()
	o.routedOnly = true
	st := c10Build(e, o)
	ms := NewMsgServerImpl(e.k)

	sid := tss.SigningID(1 + vs.Pick("req_signing", len(st.sigs)+1)) // one past the end: unknown signing
	mid := tss.MemberID(1 + vs.Pick("req_member", st.n+1))           // one past the end: not a member
	otherSigner := vs.Pick("req_signer_is_someone_else", 2) == 1
	kind := 0 // 0 honest, 1 wrong s, 2 wrong R, 3 the reflected share (-R, -k + c*lambda*x)

	sg := st.sig(sid)
	var a *c10Att
	j := -1
	if sg != nil {
		a = sg.curAtt()
	}
	if a != nil {
		for x, mi := range a.assigned {
			if st.members[mi].id == mid {
				j = x
			}
		}
	}
	signer := venv.Addr(8)
	if !otherSigner && int(mid) <= st.n {
		signer = st.members[mid-1].addr
	}
	share := tss.Signature(c10Dummy65)
	if j >= 0 {
		kind = vs.Pick("req_share", 4)
		share = c10HonestShare(st, sg, a, j)
		delta := c10Scalar("delta")
		var err error
		switch kind {
		case 1:
			share, err = tss.NewSignatureFromComponents(share.R(), tss.SumScalars(share.S(), delta))
			vs.Assume(err == nil)
		case 2:
			r, rerr := tss.SumPoints(share.R(), delta.Point())
			vs.Assume(rerr == nil && r.Validate() == nil)
			share, err = tss.NewSignatureFromComponents(r, share.S())
			vs.Assume(err == nil)
		case 3:
			// the share for the negated nonce point: R' = (-k)G has the x coordinate of the assigned nonce and the
			// other parity, s' = s - 2k answers it. Computed from the real values, so that a counterexample does
			// not depend on the solver's choice of hash outputs.
			negK := c10NegScalar(a.privNonce[j])
			share, err = tss.NewSignatureFromComponents(negK.Point(), tss.SumScalars(share.S(), negK, negK))
			vs.Assume(err == nil)
		}
	}

	_, err := ms.SubmitSignature(e.ctx, &types.MsgSubmitSignature{SigningID: sid, MemberID: mid, Signature: share, Signer: signer.String()})

	accept := sg != nil && sg.status == types.SIGNING_STATUS_WAITING && j >= 0 && !otherSigner && !a.has[j] && kind == 0
	vs.Assert("accepted-iff-specified", (err == nil) == accept)
	if accept {
		a.has[j] = true
		a.nsig++
		got, gerr := e.k.GetPartialSignature(e.ctx, sid, a.att, mid)
		vs.Assert("stored-share-is-submitted-share", gerr == nil && bytes.Equal(got, share))
		if a.nsig == len(a.assigned) {
			sg.pending = true
			st.pending = append(st.pending, sid)
			vs.Reach("accepted-last-share-queued", true)
		} else {
			vs.Reach("accepted-more-shares-needed", true)
		}
	} else {
		switch {
		case sg == nil:
			vs.Reach("rejected-unknown-signing", true)
		case sg.status != types.SIGNING_STATUS_WAITING:
			vs.Reach("rejected-finished-signing", true)
		case j < 0:
			vs.Reach("rejected-not-assigned", true)
		case otherSigner:
			vs.Reach("rejected-wrong-signer", true)
		case a.has[j]:
			vs.Reach("rejected-already-signed", true)
		case kind == 1:
			vs.Reach("rejected-wrong-s", true)
		case kind == 2:
			vs.Reach("rejected-wrong-r", true)
		case kind == 3:
			vs.Reach("rejected-reflected-share", true)
		}
	}
	c10Check(e, st, nil)
}

// c10EndBlockWith runs an end-block step (HandleSigningEndBlock or the module's EndBlocker) from an arbitrary
// state and compares the outcome with the specification.
func c10EndBlockWith(step func(ctx sdk.Context, k *Keeper)) {
	e := c10Setup()
	o := c10OptsFromParams()
	o.needHonest = true
	st := c10Build(e, o)
	pre := make([]types.SigningStatus, len(st.sigs))
	preAtt := make([]uint64, len(st.sigs))
	for i, sg := range st.sigs {
		pre[i], preAtt[i] = sg.status, sg.cur
	}
	nPending := len(st.pending)
	var dueNow []bool
	for _, a := range st.exp {
		dueNow = append(dueNow, a.expired <= st.height)
	}

	step(e.ctx, e.k)

	sp := &c10Spec{st: st}
	sp.endBlock()
	c10Check(e, st, sp.calls)

	// the property's clauses, stated directly on the outcome
	vs.Assert("pending-list-empty-after-block", len(e.k.GetPendingProcessSignings(e.ctx)) == 0)
	for _, a := range st.exp {
		vs.Assert("no-due-entry-left", a.expired > st.height) // S2 between blocks
	}
	for i, sg := range st.sigs {
		if pre[i] != types.SIGNING_STATUS_WAITING {
			vs.Assert("finished-signing-stays-finished", sg.status == pre[i] && sg.cur == preAtt[i])
			continue
		}
		vs.Assert("attempt-only-grows-by-one", sg.cur == preAtt[i] || sg.cur == preAtt[i]+1)
		if sg.cur != preAtt[i] {
			vs.Assert("retry-is-waiting-with-fresh-deadline", sg.status == types.SIGNING_STATUS_WAITING &&
				sg.curAtt() != nil && sg.curAtt().expired == st.height+st.period && sg.curAtt().nsig == 0)
		}
		nDone := e.cb.Count("completed", sg.id) + e.cb.Count("failed", sg.id)
		if st.routed {
			vs.Assert("owner-notified-once-per-outcome", (sg.status != types.SIGNING_STATUS_WAITING) == (nDone == 1) && nDone <= 1)
			vs.Assert("at-most-one-timeout-per-signing-per-block", e.cb.Count("timeout", sg.id) <= 1)
		}
		switch {
		case sg.status == types.SIGNING_STATUS_SUCCESS:
			vs.Reach("success", true)
		case sg.status == types.SIGNING_STATUS_FALLEN && preAtt[i]+1 > st.maxAtt:
			vs.Reach("fallen-attempts-used-up", true)
		case sg.status == types.SIGNING_STATUS_FALLEN:
			vs.Reach("fallen-no-committee", true)
		case sg.cur != preAtt[i] && e.cb.Count("timeout", sg.id) == 1:
			vs.Reach("timeout-retried", true)
		case sg.cur != preAtt[i]:
			vs.Reach("aggregation-failure-retried", true)
		default:
			vs.Reach("still-waiting", true)
		}
	}
	if nPending > 0 && len(dueNow) > 0 && dueNow[0] {
		vs.Reach("aggregation-and-expiry-same-block", true)
	}
	if len(dueNow) > 1 && dueNow[0] && !dueNow[len(dueNow)-1] {
		vs.Reach("partial-expiry", true)
	}
}

// VerifC10EndBlockOne: HandleSigningEndBlock from an arbitrary state.
func VerifC10EndBlockOne() {
	c10EndBlockWith(func(ctx sdk.Context, k *Keeper) { k.HandleSigningEndBlock(ctx) })
}

// VerifC10EndBlockTwo: the same step with its own bounds (two signings sharing the expiration list).
func VerifC10EndBlockTwo() { VerifC10EndBlockOne() }

// VerifC10EndBlockWith is the entry used by the x/tss (abci) harness.
func VerifC10EndBlockWith(step func(ctx sdk.Context, k *Keeper)) { c10EndBlockWith(step) }

// VerifC10HandleExpiredSignings: the expiry scan alone.
func VerifC10HandleExpiredSignings() {
	e := c10Setup()
	o := c10OptsFromParams()
	st := c10Build(e, o)

	got := e.k.HandleExpiredSignings(e.ctx)

	sp := &c10Spec{st: st}
	timedOut := sp.expire()
	vs.Assert("retry-list-is-the-timeouts", len(got) == len(timedOut))
	for i := range timedOut {
		if i < len(got) {
			vs.Assert("retry-list-entry", got[i] == timedOut[i].id)
		}
	}
	// the scan does not change statuses; a timed-out signing is left for the caller to retry, so S2 is
	// re-established only by the retry (checked in VerifC10EndBlockOne): compare everything but S2 here
	for _, sg := range timedOut {
		vs.Assert("timed-out-signing-was-waiting", sg.status == types.SIGNING_STATUS_WAITING)
	}
	c10CheckX(e, st, sp.calls, true)
	if len(timedOut) > 0 {
		vs.Reach("timeout", true)
	}
	if len(timedOut) == 2 {
		vs.Reach("two-timeouts", true)
	}
	if len(got) == 0 && len(e.k.GetSigningExpirations(e.ctx)) < len(st.exp)+1 {
		vs.Reach("nothing-timed-out", true)
	}
}

// VerifC10Aggregate: AggregatePartialSignatures on a pending signing.
func VerifC10Aggregate() {
	e := c10Setup()
	o := c10OptsFromParams()
	o.needHonest = true
	st := c10Build(e, o)
	vs.Assume(len(st.pending) > 0)
	sg := st.sig(st.pending[vs.Pick("which_pending", len(st.pending))])

	err := e.k.AggregatePartialSignatures(e.ctx, sg.id)

	sp := &c10Spec{st: st}
	retry := sp.aggregate(sg)
	vs.Assert("aggregation-fails-iff-a-share-is-not-honest", (err != nil) == retry)
	if !retry {
		got := e.k.MustGetSigning(e.ctx, sg.id)
		vs.Assert("published-signature-verifies", tss.VerifyGroupSigningSignature(st.groupKey, sg.msg, got.Signature) == nil)
		vs.Assert("published-signature-uses-group-nonce", bytes.Equal(got.Signature.R(), sg.rec.GroupPubNonce))
		vs.Reach("aggregated", true)
		// the list entry is consumed by the caller; the mirror keeps the signing listed as pending until then
		sg.pending = false
		for i, id := range st.pending {
			if id == sg.id {
				st.pending = append(st.pending[:i:i], st.pending[i+1:]...)
			}
		}
		pp := types.NewPendingProcessSignings(st.pending)
		e.k.SetPendingProcessSignings(e.ctx, pp)
	} else {
		vs.Reach("aggregation-failed", true)
	}
	c10Check(e, st, sp.calls)
}

// VerifC10NewRound: InitiateNewSigningRound for a WAITING signing whose current attempt is complete but could not
// be aggregated (the caller has already emptied the pending list), and for an unknown id.
func VerifC10NewRound() {
	e := c10Setup()
	o := c10OptsFromParams()
	st := c10Build(e, o)
	sid := tss.SigningID(1 + vs.Pick("req_signing", len(st.sigs)+1))
	sg := st.sig(sid)
	if sg != nil {
		vs.Assume(len(st.pending) == 1 && st.pending[0] == sid)
		e.k.SetPendingProcessSignings(e.ctx, types.PendingProcessSignings{})
		st.pending = nil
		sg.pending = false
	}

	err := e.k.InitiateNewSigningRound(e.ctx, sid)

	if sg == nil {
		vs.Assert("unknown-signing-rejected", err != nil)
		vs.Reach("unknown-signing", true)
		c10Check(e, st, nil)
		return
	}
	sp := &c10Spec{st: st}
	started := sp.retry(sg)
	vs.Assert("round-started-iff-budget-and-committee", (err == nil) == started)
	if !started {
		// the caller turns the error into FALLEN; the function itself leaves the state as it was
		sg.status = types.SIGNING_STATUS_WAITING
		sg.pending = true // only to satisfy the mirror's S5 clause: the list was emptied by the caller
		st.pending = []tss.SigningID{sid}
		e.k.SetPendingProcessSignings(e.ctx, types.NewPendingProcessSignings(st.pending))
		c10Check(e, st, nil)
		if sg.cur+1 > st.maxAtt {
			vs.Reach("round-refused-budget", true)
		} else {
			vs.Reach("round-refused-no-committee", true)
		}
		return
	}
	vs.Reach("round-started", true)
	c10Check(e, st, nil)
}

// VerifC10FailedSigning: HandleFailedSigning marks the signing FALLEN and tells the owner once.
func VerifC10FailedSigning() {
	e := c10Setup()
	o := c10OptsFromParams()
	st := c10Build(e, o)
	sg := st.sigs[vs.Pick("req_signing", len(st.sigs))]
	// called for a WAITING signing whose attempt is over: complete (failed aggregation) or already unlisted
	vs.Assume(sg.status == types.SIGNING_STATUS_WAITING)
	a := sg.curAtt()
	vs.Assume(a.nsig == len(a.assigned))
	e.k.SetPendingProcessSignings(e.ctx, types.PendingProcessSignings{})
	for _, x := range st.sigs {
		x.pending = false
	}
	st.pending = nil
	// other complete WAITING signings would be pending: keep the mirror's S5 clause meaningful
	for _, x := range st.sigs {
		if x != sg && x.status == types.SIGNING_STATUS_WAITING {
			vs.Assume(x.curAtt().nsig < len(x.curAtt().assigned))
		}
	}

	e.k.HandleFailedSigning(e.ctx, sg.id, "reason")

	sp := &c10Spec{st: st}
	sp.fail(sg)
	c10Check(e, st, sp.calls)
	vs.Reach("fallen", true)
}

// c10NegScalar returns -a mod n.
func c10NegScalar(a tss.Scalar) tss.Scalar {
	var x secp256k1.ModNScalar
	x.SetByteSlice(a)
	x.Negate()
	return tss.NewScalarFromModNScalar(&x)
}
