//go:build verif

package keeper

import (
	"bytes"
	"context"
	"time"

	storetypes "cosmossdk.io/store/types"

	sdk "github.com/cosmos/cosmos-sdk/types"
	"github.com/cosmos/cosmos-sdk/x/authz"

	"github.com/bandprotocol/chain/v3/pkg/tss"
	vs "github.com/bandprotocol/chain/v3/vsupport"
	"github.com/bandprotocol/chain/v3/vsupport/venv"
	"github.com/bandprotocol/chain/v3/x/tss/types"
)

// Shared environment of the C05 harnesses (x/tss DE queues).
//
// Identifier policy: account addresses, group / member / signing ids are concrete and pairwise distinct;
// queue indices (Head), MaxDESize, the nonce pairs, activity flags, attempt numbers, heights and the
// DRBG output are symbolic. The number of queued pairs per address (window length) is a concrete shape
// chosen by forking.

const c05Owner = "bandtss" // ModuleOwner of the group; a recording callback is registered for it

// c05Authz: authz is never consulted by the steps under test.
type c05Authz struct{}

func (c05Authz) GetAuthorization(ctx context.Context, grantee, granter sdk.AccAddress, msgType string) (authz.Authorization, *time.Time) {
	return nil, nil
}

func (c05Authz) SaveGrant(ctx context.Context, grantee, granter sdk.AccAddress, a authz.Authorization, exp *time.Time) error {
	return nil
}

// c05Seed is the rolling seed keeper: a fixed 32-byte seed (the DRBG output itself is arbitrary, see
// bandrng.VerifSetStream).
type c05Seed struct{}

func (c05Seed) GetRollingSeed(ctx sdk.Context) []byte {
	s := make([]byte, 32)
	for i := range s {
		s[i] = byte(i + 1)
	}
	return s
}

// c05Callback records the callbacks of the owning module.
type c05Callback struct {
	Failed    []tss.SigningID
	Timeout   []tss.SigningID
	Completed []tss.SigningID
}

func (c *c05Callback) OnGroupCreationCompleted(ctx sdk.Context, groupID tss.GroupID) {}
func (c *c05Callback) OnGroupCreationFailed(ctx sdk.Context, groupID tss.GroupID)    {}
func (c *c05Callback) OnGroupCreationExpired(ctx sdk.Context, groupID tss.GroupID)   {}
func (c *c05Callback) OnSigningFailed(ctx sdk.Context, signingID tss.SigningID) {
	c.Failed = append(c.Failed, signingID)
}

func (c *c05Callback) OnSigningCompleted(ctx sdk.Context, signingID tss.SigningID, assigned []sdk.AccAddress) {
	c.Completed = append(c.Completed, signingID)
}

func (c *c05Callback) OnSigningTimeout(ctx sdk.Context, signingID tss.SigningID, idle []sdk.AccAddress) {
	c.Timeout = append(c.Timeout, signingID)
}

type c05Env struct {
	ctx sdk.Context
	k   *Keeper
	cb  *c05Callback
	// prefix of the assertion labels of c05CheckQueues: paths that exist only in the symbolic model
	// (hash coincidences, see c05HashFault) report under their own labels
	prefix string
}

// c05TextHandler is the x/tss content handler for TextSignatureOrder (x/tss/tss_handler.go cannot be
// imported from the keeper package: import cycle); same behaviour for the only content type used here.
func c05TextHandler(k *Keeper) types.Handler {
	return func(ctx sdk.Context, content types.Content) ([]byte, error) {
		c, ok := content.(*types.TextSignatureOrder)
		if !ok {
			return nil, types.ErrInvalidMessage
		}
		if uint64(len(c.Message)) > k.GetParams(ctx).MaxMessageLength {
			return nil, types.ErrInvalidMessage
		}
		return append([]byte("\xb1\xf7\x60\x16"), c.Message...), nil
	}
}

func c05Setup() *c05Env {
	key := storetypes.NewKVStoreKey(types.StoreKey)
	e := &c05Env{cb: &c05Callback{}}
	e.ctx = venv.NewContext(key)
	contentRouter := types.NewContentRouter()
	cbRouter := types.NewCallbackRouter()
	cbRouter.AddRoute(c05Owner, e.cb)
	e.k = NewKeeper(venv.Codec(), key, c05Authz{}, c05Seed{}, contentRouter, cbRouter, venv.Addr(9).String())
	contentRouter.AddRoute(types.RouterKey, c05TextHandler(e.k))
	return e
}

func c05Addr(a int) sdk.AccAddress { return venv.Addr(1 + a) }

// ---------- nonce pairs ----------

// c05PointDE: a well-formed pair (what MsgSubmitDEs.ValidateBasic admits): images of two arbitrary
// non-zero scalars.
func c05PointDE() types.DE {
	return types.NewDE(tss.Scalar(vs.ScalarBytes("priv_d")).Point(), tss.Scalar(vs.ScalarBytes("priv_e")).Point())
}

// c05BytesDE: arbitrary 33-byte strings (the keeper setters and EnqueueDEs do not validate).
func c05BytesDE() types.DE {
	return types.NewDE(tss.Point(vs.Bytes("pub_d", 33)), tss.Point(vs.Bytes("pub_e", 33)))
}

// c05BadPoint is a 33-byte string with an invalid format byte: it fails point parsing.
func c05BadPoint() tss.Point {
	b := make([]byte, 33)
	b[0] = 5
	b[32] = 1
	return tss.Point(b)
}

// c05SameDE is a branch-free comparison of two pairs.
func c05SameDE(a, b types.DE) bool {
	return vs.And(bytes.Equal(a.PubD, b.PubD), bytes.Equal(a.PubE, b.PubE))
}

// ---------- mirror of the DE state ----------

// c05Queue is the specification-side copy of one address' queue: the window [head, head+len(des)).
type c05Queue struct {
	head uint64
	des  []types.DE
	// injected store corruption (fault schedule only; never part of an invariant state):
	// hole   - the entry at Head is missing although Head < Tail;
	// faulty - the entry at Head is missing or holds a malformed pair, so it can never be assigned.
	hole   bool
	faulty bool
}

type c05State struct {
	maxDE uint64
	q     []c05Queue // per address index
}

// c05IndexBound: Head/Tail count the pairs enqueued since the last reset; they cannot approach 2^64.
const c05IndexBound = uint64(1) << 62

// c05BuildQueues stores an arbitrary DE state for nAddr addresses with the real setters and returns its
// mirror. Invariant established by construction (Appendix B, TSS DE):
//
//	Head <= Tail, and a DE entry exists exactly for the indices in [Head, Tail).
//
// The window length of address a is a concrete shape in 0..win[a]; Head is an arbitrary index below the
// counter bound. An empty queue is stored either as no record at all or as a record (h,h).
// "Tail-Head <= MaxDESize" is NOT assumed: MaxDESize is a governance parameter that may be lowered below
// the current length of a queue; the steps must behave for such states too.
func c05BuildQueues(e *c05Env, nAddr int, win []int, mk func() types.DE) *c05State {
	return c05BuildQueuesOpt(e, nAddr, make([]int, nAddr), win, mk, true)
}

// c05BuildQueuesOpt: withNoRecord selects whether "empty queue without a record" is enumerated as a
// shape of its own (it reads exactly like the record (0,0)).
// The window length of address a ranges over lo[a]..win[a].
func c05BuildQueuesOpt(e *c05Env, nAddr int, lo, win []int, mk func() types.DE, withNoRecord bool) *c05State {
	ctx, k := e.ctx, e.k
	st := &c05State{}

	p := types.DefaultParams()
	st.maxDE = vs.U64("max_de_size")
	vs.Assume(st.maxDE >= 1) // Params.Validate
	vs.Assume(st.maxDE < c05IndexBound)
	p.MaxDESize = st.maxDE
	vs.Assume(k.SetParams(ctx, p) == nil)

	for a := 0; a < nAddr; a++ {
		n := lo[a] + vs.Pick("queue_len", win[a]-lo[a]+1)
		q := c05Queue{}
		if n == 0 && win[a] > 0 && withNoRecord && vs.Bool("no_queue_record") {
			st.q = append(st.q, q)
			continue
		}
		q.head = vs.U64("head")
		vs.Assume(q.head < c05IndexBound)
		for i := 0; i < n; i++ {
			de := mk()
			q.des = append(q.des, de)
			k.SetDE(ctx, c05Addr(a), q.head+uint64(i), de)
		}
		k.SetDEQueue(ctx, c05Addr(a), types.NewDEQueue(q.head, q.head+uint64(n)))
		st.q = append(st.q, q)
	}
	return st
}

// c05CountDEs counts the stored DE entries whose key starts with prefix.
func c05CountDEs(e *c05Env, prefix []byte) int {
	it := storetypes.KVStorePrefixIterator(e.ctx.KVStore(e.k.storeKey), prefix)
	defer it.Close()
	n := 0
	for ; it.Valid(); it.Next() {
		n++
	}
	return n
}

// c05CheckQueues asserts that the real store contains exactly the mirror: queue indices, every entry of
// the window in order, and no entry anywhere else (per address and in the whole DE table). This is also
// the invariant of the post-state (inductive step).
func c05CheckQueues(e *c05Env, st *c05State) {
	ctx, k := e.ctx, e.k
	L := func(name string) string { return e.prefix + name }
	total := 0
	for a := range st.q {
		q := st.q[a]
		got := k.GetDEQueue(ctx, c05Addr(a))
		n := uint64(len(q.des))
		// (an address without a queue record reads as (0,0): its mirror has head 0)
		vs.Assert(L("queue-head"), got.Head == q.head)
		vs.Assert(L("queue-tail"), got.Tail == q.head+n)
		vs.Assert(L("has-de-iff-nonempty"), k.HasDE(ctx, c05Addr(a)) == (n > 0))
		stored := len(q.des)
		for i := range q.des {
			de, err := k.GetDE(ctx, c05Addr(a), q.head+uint64(i))
			if i == 0 && q.hole {
				vs.Assert(L("injected-hole-kept"), err != nil)
				stored--
				continue
			}
			vs.Assert(L("window-entry-exists"), err == nil)
			if err == nil {
				vs.Assert(L("window-entry-value"), c05SameDE(de, q.des[i]))
			}
		}
		vs.Assert(L("no-entry-outside-window"), c05CountDEs(e, types.DEsStoreKey(c05Addr(a))) == stored)
		total += stored
	}
	vs.Assert(L("no-foreign-de-entries"), c05CountDEs(e, types.DEStoreKeyPrefix) == total)
	vs.Assert(L("max-de-size-unchanged"), k.GetParams(ctx).MaxDESize == st.maxDE)
}

// c05Wins returns the per-address window bounds: the target address gets `window`, the others `other`.
func c05Wins(nAddr, target, window, other int) []int {
	w := make([]int, nAddr)
	for a := range w {
		w[a] = other
		if a == target {
			w[a] = window
		}
	}
	return w
}
