//go:build verif

package keeper

import (
	"bytes"

	"github.com/bandprotocol/chain/v3/pkg/tss"
	vs "github.com/bandprotocol/chain/v3/vsupport"
	"github.com/bandprotocol/chain/v3/x/tss/types"
)

func init() { vs.RegisterHarness("VerifC04Round2Step", VerifC04Round2Step) }

// VerifC04Round2Step: one MsgSubmitDKGRound2 through the real msg server from an arbitrary bounded round-2
// state of an n-member group with threshold t (round 1 complete: all infos stored, accumulated commitments =
// sums of symbolic polynomials; any subset of members has already submitted round 2 and has its key registered).
//
//	accepted  <=>  group exists ∧ status = ROUND_2 ∧ member id in 1..n ∧ sender is that member's address
//	               ∧ not submitted before ∧ exactly n-1 encrypted shares
//
// accepted: info stored, count+1, the member's public key becomes the evaluation of the accumulated commitments
// at its id = image of the sum of the shares dealt to it (real UpdateMemberPubKey / ComputeOwnPublicKey), queued
// exactly once iff it was the last member; rejected: nothing changes. Bystander group untouched.
func VerifC04Round2Step() {
	vs.AssumeHashScalars()
	n := vs.Param("n")
	t := vs.Param("t")
	e := c04Setup(n, t)
	gid := tss.GroupID(1)

	// ---- addressing of the message and pre-state (full product for the existing group in ROUND_2, a
	// representative family otherwise; see VerifC04Round1Step)
	inRound2 := vs.Bool("group_in_round_2")
	msgGroup := gid
	if inRound2 && vs.Bool("unknown_group") {
		msgGroup = 3
	}
	full := inRound2 && msgGroup == gid
	status := types.GROUP_STATUS_ROUND_2
	if !inRound2 {
		status = types.GroupStatus(vs.Int("other_status", 0, 6))
		vs.Assume(status != types.GROUP_STATUS_ROUND_2)
	}
	dealers := make([]c04Dealer, n)
	for m := range dealers {
		dealers[m] = c04NewDealer(t)
	}
	c04EnterRound2(e, gid, dealers, status)
	submitted := make([]bool, n)
	shares := make([]tss.EncSecretShares, n)
	nSub := 0
	for m := 0; m < n; m++ {
		if full || m == 0 {
			submitted[m] = vs.Bool("already_submitted")
		}
		if submitted[m] {
			nSub++
			shares[m] = c04ArbitraryShares(n - 1)
		}
	}
	c04StoreRound2(e, gid, dealers, submitted, shares)
	pending := []tss.GroupID{2}
	if nSub == n && inRound2 {
		pending = append(pending, gid)
	}
	e.k.SetPendingProcessGroups(e.ctx, types.NewPendingProcessGroups(pending))

	mid := tss.MemberID(vs.Pick("msg_member_id", n+2))
	isMember := mid >= 1 && int(mid) <= n
	senderIdx := 0
	if full {
		senderIdx = vs.Pick("sender", n+1)
	} else if isMember {
		senderIdx = int(mid) - 1
	}
	gateOK := msgGroup == gid && inRound2 && isMember && senderIdx == int(mid)-1 && !submitted[int(mid)-1]
	nShares := n - 1
	if gateOK {
		nShares = n - 2 + vs.Pick("number_of_shares", 3) // n-2, n-1, n
	}
	info := types.NewRound2Info(mid, c04ArbitraryShares(nShares))
	msg := types.NewMsgSubmitDKGRound2(msgGroup, info, c04Addr(senderIdx).String())
	var wantPub tss.Point
	if isMember {
		wantPub = c04OwnPub(dealers, mid)
		vs.Assume(wantPub.Validate() == nil) // the member's key is a finite point
	}

	pre := c04Snap(e, gid, n)
	pre2 := c04Snap(e, 2, 2)

	// ---- step
	_, err := e.ms.SubmitDKGRound2(e.ctx, msg)

	// ---- oracle
	want := gateOK && nShares == n-1
	vs.Assert("accepted-iff-spec", (err == nil) == want)
	c04AssertUnchanged(e, "bystander", 2, pre2)
	post := c04Snap(e, gid, n)
	if err != nil {
		c04AssertUnchanged(e, "rejected", gid, pre)
		vs.Assert("rejected-queue-unchanged", c04SameIDs(post.pending, pre.pending))
		switch {
		case msgGroup != gid:
			vs.Reach("rejected-unknown-group", true)
		case !inRound2:
			vs.Reach("rejected-wrong-status", true)
		case !isMember:
			vs.Reach("rejected-non-member", true)
		case senderIdx != int(mid)-1:
			vs.Reach("rejected-wrong-sender", true)
		case submitted[mid-1]:
			vs.Reach("rejected-duplicate", true)
		case nShares < n-1:
			vs.Reach("rejected-too-few-shares", true)
		case nShares > n-1:
			vs.Reach("rejected-too-many-shares", true)
		}
		return
	}
	if !want {
		return
	}
	after := append([]bool{}, submitted...)
	after[mid-1] = true
	vs.Assert("accepted-count-plus-one", post.r2Count == pre.r2Count+1)
	vs.Assert("accepted-count-is-number-of-infos", post.r2Count == uint64(nSub+1))
	for i := 0; i < n; i++ {
		vs.Assert("accepted-info-flags", post.hasR2[i] == after[i])
		if i != int(mid)-1 {
			vs.Assert("accepted-other-member-keys-untouched", bytes.Equal(post.pubKeys[i], pre.pubKeys[i]))
		}
	}
	got, gerr := e.k.GetRound2Info(e.ctx, gid, mid)
	vs.Assert("accepted-info-stored", gerr == nil)
	if gerr == nil {
		ok := got.MemberID == mid && len(got.EncryptedSecretShares) == nShares
		for i := 0; ok && i < nShares; i++ {
			ok = vs.And(ok, bytes.Equal(got.EncryptedSecretShares[i], info.EncryptedSecretShares[i]))
		}
		vs.Assert("accepted-info-is-message", ok)
	}
	vs.Assert("accepted-member-key-is-image-of-its-shares", bytes.Equal(post.pubKeys[mid-1], wantPub))
	wantPending := append([]tss.GroupID{}, pre.pending...)
	if nSub+1 == n {
		wantPending = append(wantPending, gid)
		vs.Reach("accepted-last-member-queued", true)
	} else {
		vs.Reach("accepted-more-to-come", true)
	}
	vs.Assert("accepted-queued-iff-last", c04SameIDs(post.pending, wantPending))
	vs.Assert("accepted-group-record-unchanged", vs.And(post.group.Status == types.GROUP_STATUS_ROUND_2, bytes.Equal(post.group.PubKey, pre.group.PubKey)))
	vs.Assert("accepted-round1-data-untouched", vs.And(post.r1Count == pre.r1Count, vs.And(c04SamePoints(post.acc, pre.acc), c04SameFlags(post.hasR1, pre.hasR1))))
	vs.Assert("accepted-nobody-blamed", vs.And(c04SameFlags(post.malicious, pre.malicious), post.ccCount == pre.ccCount))
}
