//go:build verif

package keeper

import (
	"bytes"

	sdk "github.com/cosmos/cosmos-sdk/types"

	"github.com/bandprotocol/chain/v3/pkg/tss"
	vs "github.com/bandprotocol/chain/v3/vsupport"
	"github.com/bandprotocol/chain/v3/x/tss/types"
)

// Phases of group 1 in the pre-state of the end-block harness.
const (
	c04ebRound1Open     = iota // ROUND_1, not everybody has submitted (not queued)
	c04ebRound1Complete        // ROUND_1, everybody has submitted (queued)
	c04ebRound2Open
	c04ebRound2Complete
	c04ebRound3Open
	c04ebRound3Complete
	c04ebFinished      // ACTIVE or FALLEN, interim data still stored (kept until the creation period is over)
	c04ebAlreadyExpired // handled by an earlier expiry pass: ACTIVE / FALLEN / EXPIRED, no interim data
	c04ebPhases
)

const c04HeightBound = uint64(1) << 62

// c04HasInterimData: anything of the DKG scratch data of the group is still stored.
func c04HasInterimData(e *c04Env, gid tss.GroupID, n int) bool {
	s := c04Snap(e, gid, n)
	_, err := e.k.GetDKGContext(e.ctx, gid)
	any := err == nil || len(s.acc) != 0 || s.r1Count != 0 || s.r2Count != 0 || s.ccCount != 0
	for i := 0; i < n; i++ {
		any = any || s.hasR1[i] || s.hasR2[i] || s.hasConf[i] || s.hasCompl[i]
	}
	return any || len(e.k.GetRound1Infos(e.ctx, gid)) != 0 || len(e.k.GetRound2Infos(e.ctx, gid)) != 0 ||
		len(e.k.GetConfirms(e.ctx, gid)) != 0 || len(e.k.GetAllComplainsWithStatus(e.ctx, gid)) != 0
}

// VerifC04EndBlockBody: one run of the REAL x/tss EndBlocker (passed in by the harness of package x/tss) on an
// arbitrary bounded DKG state: group 1 in any phase of its creation (each round open or complete, finished, or
// already swept by an earlier expiry pass) and a bystander group 2 in an open round 1; block height, creation
// heights (non-decreasing in the group id) and the creation period are symbolic.
//
//   - a group advances only if it was queued, i.e. every member has submitted the current round:
//     ROUND_1 -> ROUND_2 with group key = accumulated commitment 0, ROUND_2 -> ROUND_3,
//     ROUND_3 -> ACTIVE iff no member is marked malicious (then every member has confirmed), else FALLEN;
//     the owner's completed / failed callback fires exactly once; the queue is emptied;
//   - then, in id order and only up to the first group still inside its creation period: a group that is neither
//     ACTIVE nor FALLEN becomes EXPIRED (expired callback exactly once), and ALL interim DKG data of a group whose
//     period is over is deleted; a group inside its period keeps status and data;
//   - blame flags and member keys are never changed by the end-blocker.
func VerifC04EndBlockBody(endBlock func(ctx sdk.Context, k *Keeper) error) {
	vs.AssumeHashScalars()
	n := vs.Param("n")
	t := vs.Param("t")
	e := c04Setup(n, t)
	phase := vs.Pick("phase", c04ebPhases)

	dealers := make([]c04Dealer, n)
	for m := range dealers {
		dealers[m] = c04NewDealer(t)
	}
	shares := make([]tss.EncSecretShares, n)
	for m := range shares {
		shares[m] = c04ArbitraryShares(n - 1)
	}
	firstK := func(k int) []bool {
		r := make([]bool, n)
		for i := 0; i < k; i++ {
			r[i] = true
		}
		return r
	}
	malicious := make([]bool, n)
	anyMal := false
	progress := make([]int, n)
	anyComplained := false
	queued := false
	switch phase {
	case c04ebRound1Open:
		c04StoreRound1(e, 1, dealers, firstK(vs.Pick("submitted_round1", n)))
	case c04ebRound1Complete:
		c04StoreRound1(e, 1, dealers, c04All(n))
		queued = true
	case c04ebRound2Open:
		c04EnterRound2(e, 1, dealers, types.GROUP_STATUS_ROUND_2)
		c04StoreRound2(e, 1, dealers, firstK(vs.Pick("submitted_round2", n)), shares)
	case c04ebRound2Complete:
		c04EnterRound2(e, 1, dealers, types.GROUP_STATUS_ROUND_2)
		c04StoreRound2(e, 1, dealers, c04All(n), shares)
		queued = true
	case c04ebRound3Open, c04ebRound3Complete, c04ebFinished:
		status := types.GROUP_STATUS_ROUND_3
		if phase == c04ebFinished {
			status = types.GROUP_STATUS_ACTIVE
			if vs.Bool("fallen") {
				status = types.GROUP_STATUS_FALLEN
			}
		}
		c04EnterRound3(e, 1, dealers, shares, status)
		done := n
		if phase == c04ebRound3Open {
			done = vs.Pick("done_round3", n)
		}
		for m := 0; m < n; m++ {
			malicious[m] = vs.Bool("malicious")
			anyMal = vs.Or(anyMal, malicious[m])
			if m < done {
				progress[m] = c04r3Confirmed
				if vs.Bool("complained") {
					progress[m] = c04r3Complained
					anyComplained = true
				}
			}
		}
		// invariant: every processed complaint has marked somebody
		if anyComplained {
			vs.Assume(anyMal)
		}
		if phase == c04ebFinished {
			vs.Assume(anyMal == (status == types.GROUP_STATUS_FALLEN))
		}
		c04StoreRound3(e, 1, progress, malicious)
		queued = phase == c04ebRound3Complete
	case c04ebAlreadyExpired:
		status := types.GroupStatus(vs.Int("final_status", int(types.GROUP_STATUS_ACTIVE), int(types.GROUP_STATUS_EXPIRED)))
		vs.Assume(status == types.GROUP_STATUS_ACTIVE || status == types.GROUP_STATUS_FALLEN || status == types.GROUP_STATUS_EXPIRED)
		var pub tss.Point
		if status != types.GROUP_STATUS_EXPIRED {
			pub = dealers[0].commits[0]
		}
		c04SetStatus(e, 1, status, pub)
		e.k.DeleteAllDKGInterimData(e.ctx, 1)
		e.k.SetLastExpiredGroupID(e.ctx, 1)
	}
	// bystander: open round 1 with one submission
	other := []c04Dealer{c04NewDealer(2), c04NewDealer(2)}
	e.t = 2
	c04StoreRound1(e, 2, other, []bool{true, false})
	e.t = t
	var pending []tss.GroupID
	if queued {
		pending = append(pending, 1)
	}
	e.k.SetPendingProcessGroups(e.ctx, types.NewPendingProcessGroups(pending))

	// heights
	created1, created2 := vs.U64("created_height_1"), vs.U64("created_height_2")
	period := vs.U64("creation_period")
	height := vs.U64("block_height")
	vs.Assume(created1 <= created2 && created2 <= height && height < c04HeightBound)
	vs.Assume(period >= 1 && period < c04HeightBound)
	p := e.k.GetParams(e.ctx)
	p.CreationPeriod = period
	vs.Assume(e.k.SetParams(e.ctx, p) == nil)
	for g, c := range []uint64{created1, created2} {
		grp := e.k.MustGetGroup(e.ctx, tss.GroupID(g+1))
		grp.CreatedHeight = c
		e.k.SetGroup(e.ctx, grp)
	}
	if phase == c04ebAlreadyExpired {
		vs.Assume(created1+period <= height) // it was swept because its period was over
	}
	e.ctx = e.ctx.WithBlockHeight(int64(height))

	pre := c04Snap(e, 1, n)
	pre2 := c04Snap(e, 2, 2)
	acc0 := e.k.GetAccumulatedCommit(e.ctx, 1, 0)

	// ---- step
	err := endBlock(e.ctx, e.k)
	vs.Assert("end-block-no-error", err == nil)

	// ---- oracle
	post := c04Snap(e, 1, n)
	post2 := c04Snap(e, 2, 2)
	over1 := created1+period <= height
	over2 := vs.And(over1, created2+period <= height)

	// (1) processing of the queue
	want := pre.group.Status
	wantPub := pre.group.PubKey
	var wantCompleted, wantFailed, wantExpired []tss.GroupID
	switch phase {
	case c04ebRound1Complete:
		want, wantPub = types.GROUP_STATUS_ROUND_2, acc0
	case c04ebRound2Complete:
		want = types.GROUP_STATUS_ROUND_3
	case c04ebRound3Complete:
		if anyMal {
			want = types.GROUP_STATUS_FALLEN
			wantFailed = append(wantFailed, 1)
			vs.Reach("fallen", true)
		} else {
			want = types.GROUP_STATUS_ACTIVE
			wantCompleted = append(wantCompleted, 1)
			vs.Assert("active-only-if-everybody-confirmed", !anyComplained)
			vs.Reach("active", true)
		}
	}
	// (2) expiry sweep
	swept1 := over1 && phase != c04ebAlreadyExpired
	if swept1 {
		if want != types.GROUP_STATUS_ACTIVE && want != types.GROUP_STATUS_FALLEN {
			want = types.GROUP_STATUS_EXPIRED
			wantExpired = append(wantExpired, 1)
			vs.Reach("expired", true)
		} else {
			vs.Reach("finished-group-swept", true)
		}
	}
	if over2 {
		wantExpired = append(wantExpired, 2)
	}
	vs.Assert("status-as-specified", post.group.Status == want)
	vs.Assert("group-key-is-accumulated-commit-0", bytes.Equal(post.group.PubKey, wantPub))
	vs.Assert("group-shape-unchanged", post.group.Size_ == uint64(n) && post.group.Threshold == uint64(t) && post.group.CreatedHeight == created1)
	vs.Assert("callbacks-exactly-once", c04SameIDs(e.cb.Completed, wantCompleted) && c04SameIDs(e.cb.Failed, wantFailed) && c04SameIDs(e.cb.Expired, wantExpired))
	vs.Assert("queue-emptied", len(post.pending) == 0)
	vs.Assert("nobody-blamed-by-end-block", vs.And(c04SameFlags(post.malicious, pre.malicious), c04SamePoints(post.pubKeys, pre.pubKeys)))
	if swept1 || phase == c04ebAlreadyExpired {
		vs.Assert("interim-data-deleted", !c04HasInterimData(e, 1, n))
	} else {
		_, cerr := e.k.GetDKGContext(e.ctx, 1)
		vs.Assert("interim-data-kept-inside-period", cerr == nil && post.r1Count == pre.r1Count && post.r2Count == pre.r2Count && post.ccCount == pre.ccCount &&
			c04SameFlags(post.hasR1, pre.hasR1) && c04SameFlags(post.hasR2, pre.hasR2) && c04SameFlags(post.hasConf, pre.hasConf) &&
			c04SameFlags(post.hasCompl, pre.hasCompl) && c04SamePoints(post.acc, pre.acc))
		switch phase {
		case c04ebRound1Open, c04ebRound2Open, c04ebRound3Open:
			vs.Assert("open-round-does-not-advance", post.group.Status == pre.group.Status)
			vs.Reach("open-round-waits", true)
		case c04ebRound1Complete:
			vs.Reach("round1-to-round2", true)
		case c04ebRound2Complete:
			vs.Reach("round2-to-round3", true)
		}
	}
	// bystander and the sweep pointer
	wantLast := tss.GroupID(0)
	if over1 {
		wantLast = 1
	}
	if over2 {
		wantLast = 2
		vs.Assert("bystander-expired", post2.group.Status == types.GROUP_STATUS_EXPIRED && !c04HasInterimData(e, 2, 2))
		vs.Reach("both-expired", true)
	} else {
		_, cerr := e.k.GetDKGContext(e.ctx, 2)
		vs.Assert("bystander-untouched", cerr == nil && post2.group.Status == types.GROUP_STATUS_ROUND_1 && post2.r1Count == pre2.r1Count &&
			c04SameFlags(post2.hasR1, pre2.hasR1) && c04SamePoints(post2.acc, pre2.acc))
	}
	vs.Assert("sweep-pointer", e.k.GetLastExpiredGroupID(e.ctx) == wantLast)
}
