//go:build verif

package keeper

import (
	"bytes"

	"github.com/bandprotocol/chain/v3/pkg/tss"
	vs "github.com/bandprotocol/chain/v3/vsupport"
	"github.com/bandprotocol/chain/v3/x/tss/types"
)

func init() { vs.RegisterHarness("VerifC04Round1Step", VerifC04Round1Step) }

// Variants of the round-1 message built for a sender that passes every gate.
const (
	c04r1Honest         = iota // t commitments, honest proofs (real SignOneTime / SignA0)
	c04r1TooFew                // t-1 commitments
	c04r1TooMany               // t+1 commitments (a polynomial of degree t)
	c04r1OneTimeOtherID        // one-time proof made for another member id
	c04r1A0OtherID             // A0 proof made for another member id
	c04r1OneTimeOtherCtx       // one-time proof made for the DKG context of group 2
	c04r1A0OtherCtx            // A0 proof made for the DKG context of group 2
	c04r1OneTimeWrongKey       // one-time proof signed with a key that is not the one-time private key
	c04r1A0WrongKey            // A0 proof signed with a key that is not the constant term
	c04r1ProofsSwapped         // the (valid) one-time proof in the A0 slot and vice versa, same key for both
	c04r1Variants
)

// VerifC04Round1Step: one MsgSubmitDKGRound1 through the real msg server from an arbitrary bounded DKG state
// of an n-member group with threshold t.
//
// Pre-state: group status (ROUND_1 or any other), any subset of members has already submitted (their infos, the
// count and the accumulated commitments satisfy the round-1 invariant), the pending queue holds the bystander
// group or not. Message: any member id in 0..n+1 (0 and n+1 are not members), any sender among the n member
// addresses and an outsider, an existing or unknown group id.
//
//	accepted  <=>  group exists ∧ status = ROUND_1 ∧ member id in 1..n ∧ sender is that member's address
//	               ∧ not submitted before ∧ exactly t commitments ∧ both proofs of possession valid for
//	               (member id, DKG context of the group, presented key)
//
// accepted: info stored, count+1, accumulated commitments = point-wise sums (exactly t of them), queued for
// processing iff it was the last member (exactly once); rejected: nothing changes. The bystander group is
// untouched either way.
func VerifC04Round1Step() {
	vs.AssumeHashScalars()
	vs.AssumeHashCollisionFree()
	tss.VerifUseTapeRandomness()
	n := vs.Param("n")
	t := vs.Param("t")
	e := c04Setup(n, t)
	gid := tss.GroupID(1)

	// ---- addressing of the message and pre-state
	// The full product (status x who has submitted x member id x sender) is enumerated for the existing group in
	// ROUND_1; for an unknown group id or another status a representative family is enough (any member id, the
	// matching sender, member 1 submitted or not).
	inRound1 := vs.Bool("group_in_round_1")
	msgGroup := gid
	if inRound1 && vs.Bool("unknown_group") {
		msgGroup = 3
	}
	full := inRound1 && msgGroup == gid
	status := types.GROUP_STATUS_ROUND_1
	if !inRound1 {
		status = types.GroupStatus(vs.Int("other_status", 0, 6))
		vs.Assume(status != types.GROUP_STATUS_ROUND_1)
	}
	c04SetStatus(e, gid, status, nil)

	dealers := make([]c04Dealer, n)
	submitted := make([]bool, n)
	nSub := 0
	for m := 0; m < n; m++ {
		dealers[m] = c04NewDealer(t)
		if full || m == 0 {
			submitted[m] = vs.Bool("already_submitted")
		}
		if submitted[m] {
			nSub++
		}
	}
	c04StoreRound1(e, gid, dealers, submitted)
	// bystander group: member 1 has submitted; it is queued for nothing, but something else may be queued
	other := []c04Dealer{c04NewDealer(2), c04NewDealer(2)}
	saveT := e.t
	e.t = 2
	c04StoreRound1(e, 2, other, []bool{true, false})
	e.t = saveT
	pending := []tss.GroupID{2}
	if nSub == n && inRound1 {
		pending = append(pending, gid) // invariant: complete round => queued
	}
	e.k.SetPendingProcessGroups(e.ctx, types.NewPendingProcessGroups(pending))

	mid := tss.MemberID(vs.Pick("msg_member_id", n+2))
	isMember := mid >= 1 && int(mid) <= n
	senderIdx := 0
	if full {
		senderIdx = vs.Pick("sender", n+1)
	} else if isMember {
		senderIdx = int(mid) - 1
	}
	gateOK := msgGroup == gid && inRound1 && isMember && senderIdx == int(mid)-1 && !submitted[int(mid)-1]

	variant := c04r1Honest
	if gateOK {
		variant = vs.Pick("message_variant", c04r1Variants)
	}
	// the sender's own material: the dealer of its member id (a fresh one for a non-member id)
	nCoeff := t
	switch variant {
	case c04r1TooFew:
		nCoeff = t - 1
	case c04r1TooMany:
		nCoeff = t + 1
	}
	me := c04NewDealer(nCoeff)
	if variant == c04r1ProofsSwapped {
		// one key in both roles: only the domain tag of the challenge tells the two proofs apart
		me.otPriv, me.otPub = me.coeffs[0], me.commits[0]
	}
	if isMember {
		dealers[mid-1] = me
	}
	otherID := mid%tss.MemberID(n) + 1 // another member id of the group
	signID, signCtx := [2]tss.MemberID{mid, mid}, [2][]byte{e.dkgCtx[1], e.dkgCtx[1]}
	otKey := me.otPriv
	var a0Key tss.Scalar
	if nCoeff > 0 {
		a0Key = me.coeffs[0]
	} else {
		a0Key = tss.Scalar(vs.ScalarBytes("a0_key"))
	}
	a0Pub := a0Key.Point()
	switch variant {
	case c04r1OneTimeOtherID:
		signID[0] = otherID
	case c04r1A0OtherID:
		signID[1] = otherID
	case c04r1OneTimeOtherCtx:
		signCtx[0] = e.dkgCtx[2]
	case c04r1A0OtherCtx:
		signCtx[1] = e.dkgCtx[2]
	case c04r1OneTimeWrongKey:
		otKey = tss.SumScalars(otKey, tss.Scalar(vs.ScalarBytes("delta_key")))
		vs.Assume(otKey.Validate() == nil)
	case c04r1A0WrongKey:
		a0Key = tss.SumScalars(a0Key, tss.Scalar(vs.ScalarBytes("delta_key")))
		vs.Assume(a0Key.Validate() == nil)
	}
	otSig, err := tss.SignOneTime(signID[0], signCtx[0], me.otPub, otKey)
	vs.Assert("sign-one-time-ok", err == nil)
	a0Sig, err := tss.SignA0(signID[1], signCtx[1], a0Pub, a0Key)
	vs.Assert("sign-a0-ok", err == nil)
	if variant == c04r1ProofsSwapped {
		otSig, a0Sig = a0Sig, otSig
	}
	info := types.NewRound1Info(mid, me.commits, me.otPub, a0Sig, otSig)
	msg := types.NewMsgSubmitDKGRound1(msgGroup, info, c04Addr(senderIdx).String())
	// the new accumulated sums are finite points
	after := append([]bool{}, submitted...)
	if isMember {
		after[mid-1] = true
	}
	if gateOK {
		for j := 0; j < nCoeff && j < t+1; j++ {
			vs.Assume(c04SumCoeff(dealers, after, j).Validate() == nil)
		}
	}

	pre := c04Snap(e, gid, n)
	pre2 := c04Snap(e, 2, 2)

	// ---- step
	_, err = e.ms.SubmitDKGRound1(e.ctx, msg)

	// ---- oracle
	want := gateOK && variant == c04r1Honest
	if variant == c04r1Honest {
		vs.Assert("accepted-iff-spec", (err == nil) == want)
	} else {
		// (own label: deciding these needs the collision-freeness assumption; a counterexample here is never
		// mixed up with one for a well-formed message)
		vs.Assert("malformed-message-rejected", err != nil)
	}
	c04AssertUnchanged(e, "bystander", 2, pre2)
	post := c04Snap(e, gid, n)
	if err != nil {
		c04AssertUnchanged(e, "rejected", gid, pre)
		vs.Assert("rejected-queue-unchanged", c04SameIDs(post.pending, pre.pending))
		switch {
		case msgGroup != gid:
			vs.Reach("rejected-unknown-group", true)
		case !inRound1:
			vs.Reach("rejected-wrong-status", true)
		case !isMember:
			vs.Reach("rejected-non-member", true)
		case senderIdx != int(mid)-1:
			vs.Reach("rejected-wrong-sender", true)
		case submitted[mid-1]:
			vs.Reach("rejected-duplicate", true)
		case variant == c04r1TooFew:
			vs.Reach("rejected-too-few-commitments", true)
		case variant == c04r1TooMany:
			vs.Reach("rejected-too-many-commitments", true)
		case variant == c04r1OneTimeOtherID || variant == c04r1A0OtherID:
			vs.Reach("rejected-proof-for-other-member", true)
		case variant == c04r1OneTimeOtherCtx || variant == c04r1A0OtherCtx:
			vs.Reach("rejected-proof-for-other-context", true)
		case variant == c04r1OneTimeWrongKey || variant == c04r1A0WrongKey:
			vs.Reach("rejected-proof-with-wrong-key", true)
		case variant == c04r1ProofsSwapped:
			vs.Reach("rejected-swapped-proofs", true)
		}
		return
	}
	if !want {
		return // already reported by accepted-iff-spec
	}
	m := int(mid) - 1
	vs.Assert("accepted-count-plus-one", post.r1Count == pre.r1Count+1)
	vs.Assert("accepted-count-is-number-of-infos", post.r1Count == uint64(nSub+1))
	for i := 0; i < n; i++ {
		vs.Assert("accepted-info-flags", post.hasR1[i] == after[i])
	}
	got, gerr := e.k.GetRound1Info(e.ctx, gid, mid)
	vs.Assert("accepted-info-stored", gerr == nil)
	if gerr == nil {
		vs.Assert("accepted-info-is-message", vs.And(got.MemberID == mid,
			vs.And(bytes.Equal(got.OneTimePubKey, me.otPub), c04SamePoints(got.CoefficientCommits, me.commits))))
	}
	// accumulated commitments: exactly t, the point-wise sums over everybody who has submitted
	vs.Assert("accepted-exactly-t-accumulated-commits", len(post.acc) == t)
	for j := 0; j < t && j < len(post.acc); j++ {
		vs.Assert("accepted-accumulated-commit-is-sum", bytes.Equal(post.acc[j], c04SumCoeff(dealers, after, j).Point()))
	}
	// queued for processing iff this was the last member, exactly once, behind what was queued before
	wantPending := append([]tss.GroupID{}, pre.pending...)
	if nSub+1 == n {
		wantPending = append(wantPending, gid)
		vs.Reach("accepted-last-member-queued", true)
	} else {
		vs.Reach("accepted-more-to-come", true)
	}
	vs.Assert("accepted-queued-iff-last", c04SameIDs(post.pending, wantPending))
	vs.Assert("accepted-group-record-unchanged", vs.And(post.group.Status == types.GROUP_STATUS_ROUND_1, len(post.group.PubKey) == 0))
	vs.Assert("accepted-other-rounds-untouched", vs.And(post.r2Count == pre.r2Count, post.ccCount == pre.ccCount))
	vs.Assert("accepted-members-untouched", vs.And(c04SameFlags(post.malicious, pre.malicious), c04SamePoints(post.pubKeys, pre.pubKeys)))
	_ = m
}
