//go:build verif

package keeper

import (
	"errors"
	"time"

	"github.com/bandprotocol/chain/v3/pkg/bandrng"
	"github.com/bandprotocol/chain/v3/pkg/tss"
	vs "github.com/bandprotocol/chain/v3/vsupport"
	"github.com/bandprotocol/chain/v3/x/tss/types"
)

// C05 — assignment and fault schedule.
//
// VerifC05Assign       InitiateNewSigningRound on an arbitrary DE / group state: every assigned member's
//                      (PubD,PubE) is the former head of its queue and is gone afterwards.
// VerifC05EndBlockRetry  HandleSigningEndBlock retrying 1..2 timed-out signings in one block, with an
//                      injected fault (malformed pair / missing entry at the head of some member's queue,
//                      attempt limit, too few available members): a creation that fails after k members
//                      were dequeued leaves every queue and entry unchanged; a pair consumed by the first
//                      retry is never handed to the second.
// VerifC05RequestSigning  RequestSigning directly (msg-server entry) and inside ctx.CacheContext() exactly
//                      as bandtss.createSigningRequest / oracle.safeCreateSigning / tunnel do.

func init() {
	vs.RegisterHarness("VerifC05Assign", VerifC05Assign)
	vs.RegisterHarness("VerifC05EndBlockRetry", VerifC05EndBlockRetry)
	vs.RegisterHarness("VerifC05EndBlockTwoRetries", VerifC05EndBlockTwoRetries)
	vs.RegisterHarness("VerifC05RequestSigning", VerifC05RequestSigning)
}

const c05AttemptBound = uint64(1) << 62

// c05AssignQueues builds the DE state of the assignment harnesses: well-formed pairs; the first `vary`
// addresses have 0..window queued pairs, the others exactly `window`. With finite_points=1 the paths on
// which a computed nonce is the point at infinity are assumed away (see vs.AssumeFinitePoints); otherwise
// they are explored and reported under the "hash-coincidence/" labels (c05HashFault).
func c05AssignQueues(e *c05Env, nAddr int) *c05State {
	if vs.Param("finite_points") == 1 {
		vs.AssumeFinitePoints()
	}
	window, vary := vs.Param("window"), vs.Param("vary")
	lo, hi := make([]int, nAddr), make([]int, nAddr)
	for a := range hi {
		hi[a] = window
		if a >= vary {
			lo[a] = window
		}
	}
	return c05BuildQueuesOpt(e, nAddr, lo, hi, c05PointDE, false)
}

// c05Sign is the signing-side pre-state shared by the assignment harnesses.
type c05Sign struct {
	nAddr      int
	t          int    // group threshold = committee size (concrete shape)
	active     []bool // member activity flags (symbolic)
	maxAttempt uint64
	period     uint64
	height     int64
	draws      []uint64 // DRBG output, t values per creation
	pos        int      // draws consumed by the specification so far
}

// c05BuildSign stores group 1 (one member per address), the signing parameters, the block height and
// fixes the DRBG stream for `creations` committee selections.
func c05BuildSign(e *c05Env, nAddr, maxT, creations int) *c05Sign {
	sg := &c05Sign{nAddr: nAddr}
	sg.t = 1 + vs.Pick("threshold", maxT)
	sg.active = c05Group(e, nAddr, uint64(sg.t), vs.Param("symbolic_active"))

	p := e.k.GetParams(e.ctx)
	sg.maxAttempt = vs.U64("max_signing_attempt")
	sg.period = vs.U64("signing_period")
	vs.Assume(sg.period >= 1 && sg.period < 1<<40)
	p.MaxSigningAttempt = sg.maxAttempt
	p.SigningPeriod = sg.period
	vs.Assume(e.k.SetParams(e.ctx, p) == nil)

	sg.height = vs.I64("block_height")
	vs.Assume(sg.height >= 1 && sg.height < 1<<40)
	e.ctx = e.ctx.WithBlockHeight(sg.height).WithBlockTime(time.Unix(1_700_000_000, 0).UTC())

	for i := 0; i < creations*sg.t; i++ {
		sg.draws = append(sg.draws, vs.U64("drbg_output"))
	}
	bandrng.VerifSetStream(sg.draws)
	return sg
}

// c05StoreSigning stores a WAITING signing of group 1 whose CurrentAttempt is `attempt`.
func c05StoreSigning(e *c05Env, id tss.SigningID, attempt uint64, msg []byte) {
	e.k.SetSigning(e.ctx, types.NewSigning(id, attempt, 1, c05BadPoint(), msg, nil, nil,
		types.SIGNING_STATUS_WAITING, 1, time.Unix(1_600_000_000, 0).UTC()))
}

// available: the specification of GetAvailableMembers on the mirror (address indices, member-id order).
func (sg *c05Sign) available(st *c05State) []int {
	var av []int
	for a := 0; a < sg.nAddr; a++ {
		if len(st.q[a].des) > 0 && sg.active[a] {
			av = append(av, a)
		}
	}
	return av
}

// refSelect is the specification of GetRandomMembers: t draws without replacement from the available
// members (swap-with-last removal), returned as a membership vector.
func (sg *c05Sign) refSelect(av []int) []bool {
	n := len(av)
	idx := make([]int, n)
	for i := range idx {
		idx[i] = i
	}
	sel := make([]bool, sg.nAddr)
	for i := 0; i < sg.t; i++ {
		r := int(sg.draws[sg.pos] % uint64(n-i))
		sg.pos++
		sel[av[idx[r]]] = true
		idx[r] = idx[n-i-1]
	}
	return sel
}

// ---------- fault schedule ----------

const (
	c05NoFault  = 0
	c05BadPubE  = 1 // the pair at the head of one member's queue has a malformed E (fails in ComputeOwnPubNonce, after ALL selected members were dequeued)
	c05Hole     = 2 // the entry at the head of one member's queue is missing (DequeueDE fails after the members with smaller ids were dequeued)
	c05BadPubD  = 3
	c05NumFault = 4
)

type c05Fault struct {
	kind int
	addr int
}

// c05Inject corrupts the head of one member's queue in the store and in the mirror.
func c05Inject(e *c05Env, st *c05State, kinds int) c05Fault {
	f := c05Fault{kind: vs.Pick("fault", kinds)}
	if f.kind == c05NoFault {
		return f
	}
	f.addr = vs.Pick("fault_member", len(st.q))
	q := &st.q[f.addr]
	vs.Assume(len(q.des) > 0)
	switch f.kind {
	case c05BadPubE:
		q.faulty = true
		q.des[0] = types.NewDE(q.des[0].PubD, c05BadPoint())
		e.k.SetDE(e.ctx, c05Addr(f.addr), q.head, q.des[0])
	case c05BadPubD:
		q.faulty = true
		q.des[0] = types.NewDE(c05BadPoint(), q.des[0].PubE)
		e.k.SetDE(e.ctx, c05Addr(f.addr), q.head, q.des[0])
	case c05Hole:
		q.hole, q.faulty = true, true
		e.k.DeleteDE(e.ctx, c05Addr(f.addr), q.head)
	}
	return f
}

// c05Expect is the specification of one signing creation (InitiateNewSigningRound) on the mirror state:
// whether it must succeed and, if so, which members are assigned.
func (sg *c05Sign) expect(st *c05State, f c05Fault, attempt uint64) (attemptOK, enough bool, sel []bool, faultHit bool) {
	attemptOK = attempt+1 <= sg.maxAttempt
	if !attemptOK {
		return attemptOK, false, nil, false
	}
	av := sg.available(st)
	enough = sg.t <= len(av)
	if !enough {
		return attemptOK, enough, nil, false
	}
	sel = sg.refSelect(av)
	// the fault bites iff the corrupted head is still at the head of a selected member's queue
	if f.kind != c05NoFault && sel[f.addr] {
		faultHit = st.q[f.addr].faulty
	}
	return attemptOK, enough, sel, faultHit
}

// c05Consume checks the stored attempt against the specification and moves the assigned pairs out of the
// mirror: exactly the selected members, in member-id order, each with the pair at the head of its queue.
func c05Consume(e *c05Env, st *c05State, sg *c05Sign, sel []bool, id tss.SigningID, attempt uint64) {
	L := func(name string) string { return e.prefix + name }
	sa, err := e.k.GetSigningAttempt(e.ctx, id, attempt)
	vs.Assert(L("attempt-stored"), err == nil)
	if err != nil {
		return
	}
	vs.Assert(L("attempt-expiry"), sa.ExpiredHeight == uint64(sg.height)+sg.period)
	vs.Assert(L("committee-size-is-threshold"), len(sa.AssignedMembers) == sg.t)
	var want []int
	for a := range sel {
		if sel[a] {
			want = append(want, a)
		}
	}
	if len(sa.AssignedMembers) != len(want) {
		return
	}
	for i, a := range want {
		am := sa.AssignedMembers[i]
		vs.Assert(L("assigned-member-is-the-selected-one"), am.MemberID == tss.MemberID(a+1) && am.Address == c05Addr(a).String())
		q := &st.q[a]
		vs.Assert(L("assigned-member-active-with-queued-de"), sg.active[a] && len(q.des) > 0 && !q.faulty)
		if len(q.des) == 0 {
			continue
		}
		vs.Assert(L("assigned-pair-is-former-head"), c05SameDE(types.NewDE(am.PubD, am.PubE), q.des[0]))
		q.head++
		q.des = q.des[1:]
	}
}

// c05HashFault switches the labels of everything asserted afterwards: the creation failed although the
// specification (which follows the real hash-free logic) expects success. In the model this happens when
// the uninterpreted binding-factor hash makes D + rho*E (or the committee's sum) the point at infinity;
// with the real keccak this has negligible probability and such a path cannot be replayed natively. The
// rollback obligations are still discharged on these paths, under their own labels.
func c05HashFault(e *c05Env) {
	e.prefix = "hash-coincidence/"
	vs.Reach("creation-fails-by-hash-coincidence-model-only", true)
}

// VerifC05Assign: one InitiateNewSigningRound on the base context.
func VerifC05Assign() {
	vs.AssumeHashScalars()
	e := c05Setup()
	nAddr := vs.Param("addrs")
	st := c05AssignQueues(e, nAddr)
	sg := c05BuildSign(e, nAddr, vs.Param("max_threshold"), 1)
	attempt := vs.U64("current_attempt")
	vs.Assume(attempt < c05AttemptBound)
	c05StoreSigning(e, 1, attempt, vs.Bytes("message", 4))

	err := e.k.InitiateNewSigningRound(e.ctx, 1)

	attemptOK, enough, sel, _ := sg.expect(st, c05Fault{}, attempt)
	if err != nil && attemptOK && enough {
		// nothing is promised at keeper level (the caller rolls back); only the class is checked
		vs.Assert("late-failure-class", errors.Is(err, types.ErrCreateSigningFailed))
		c05HashFault(e)
		return
	}
	vs.Assert("accept-iff-attempts-left-and-enough-available", (err == nil) == (attemptOK && enough))
	if err != nil {
		if !attemptOK {
			vs.Assert("class-max-attempt", errors.Is(err, types.ErrMaxSigningAttemptExceeded))
			vs.Reach("rejected-attempt-limit", true)
			vs.Reach("rejected-attempt-limit-boundary", attempt == sg.maxAttempt)
		} else {
			vs.Assert("class-insufficient-signers", errors.Is(err, types.ErrInsufficientSigners))
			vs.Reach("rejected-too-few-available", true)
		}
		// rejected before any dequeue: nothing changed
		c05CheckQueues(e, st)
		s, gerr := e.k.GetSigning(e.ctx, 1)
		vs.Assert("signing-unchanged-on-reject", gerr == nil && s.CurrentAttempt == attempt)
		_, aerr := e.k.GetSigningAttempt(e.ctx, 1, attempt+1)
		vs.Assert("no-attempt-on-reject", aerr != nil)
		return
	}
	if !(attemptOK && enough) {
		return
	}
	availBefore := len(sg.available(st))
	c05Consume(e, st, sg, sel, 1, attempt+1)
	c05CheckQueues(e, st)
	s, gerr := e.k.GetSigning(e.ctx, 1)
	vs.Assert("signing-advanced", gerr == nil && s.CurrentAttempt == attempt+1 && s.Status == types.SIGNING_STATUS_WAITING)
	vs.Reach("assigned", true)
	vs.Reach("assigned-last-attempt", attempt+1 == sg.maxAttempt)
	vs.Reach("assigned-all-available", sg.t == availBefore)
	vs.Reach("assigned-two", sg.t == 2)
}

// VerifC05EndBlockRetry: the end-block retry of one timed-out signing under the fault schedule.
func VerifC05EndBlockRetry() { c05EndBlock(1) }

// VerifC05EndBlockTwoRetries: two timed-out signings of the same group retried in one block: the pairs
// consumed by the first retry are never handed to the second; a failing retry (either one) leaves no trace.
func VerifC05EndBlockTwoRetries() { c05EndBlock(2) }

func c05EndBlock(nS int) {
	vs.AssumeHashScalars()
	e := c05Setup()
	nAddr := vs.Param("addrs")
	st := c05AssignQueues(e, nAddr)
	sg := c05BuildSign(e, nAddr, vs.Param("max_threshold"), nS)
	f := c05Inject(e, st, vs.Param("faults"))

	// nS waiting signings whose current attempt timed out (assigned to member 1, no partial signature)
	attempts := make([]uint64, nS)
	var exps []types.SigningExpiration
	for s := 0; s < nS; s++ {
		id := tss.SigningID(s + 1)
		// attempt numbers 1..200 (MaxSigningAttempt itself stays arbitrary). The bound keeps the low byte
		// below 0xff: DeleteInterimSigningData iterates over a key prefix that ends with the attempt number
		// and storetypes.PrefixEndBytes forks once per trailing 0xff byte.
		attempts[s] = vs.U64("current_attempt")
		vs.Assume(attempts[s] >= 1)
		vs.Assume(attempts[s] <= 200)
		c05StoreSigning(e, id, attempts[s], vs.Bytes("message", 4))
		expired := vs.U64("expired_height")
		vs.Assume(expired <= uint64(sg.height))
		old := types.AssignedMember{MemberID: 1, Address: c05Addr(0).String(), PubKey: c05BadPoint(), PubD: c05BadPoint(), PubE: c05BadPoint()}
		e.k.SetSigningAttempt(e.ctx, types.NewSigningAttempt(id, attempts[s], expired, []types.AssignedMember{old}))
		exps = append(exps, types.NewSigningExpiration(id, attempts[s]))
	}
	e.k.SetSigningExpirations(e.ctx, types.NewSigningExpirations(exps))
	e.k.SetSigningCount(e.ctx, uint64(nS))

	e.k.HandleSigningEndBlock(e.ctx)

	failed, created, rolledBack := 0, 0, 0
	for s := 0; s < nS; s++ {
		id := tss.SigningID(s + 1)
		attemptOK, enough, sel, faultHit := sg.expect(st, f, attempts[s])
		want := attemptOK && enough && !faultHit
		signing, gerr := e.k.GetSigning(e.ctx, id)
		vs.Assert("signing-kept", gerr == nil)
		fallen := signing.Status == types.SIGNING_STATUS_FALLEN
		if fallen && want {
			c05HashFault(e)
			want = false
		}
		L := func(name string) string { return e.prefix + name }
		vs.Assert(L("retry-succeeds-iff-spec"), fallen == !want)
		if fallen {
			failed++
			if attemptOK && enough {
				rolledBack++ // failed after dequeuing
			}
			// the dropped cache context: no trace of the failed creation
			vs.Assert(L("failed-signing-attempt-number-kept"), signing.CurrentAttempt == attempts[s])
			_, aerr := e.k.GetSigningAttempt(e.ctx, id, attempts[s]+1)
			vs.Assert(L("failed-signing-has-no-new-attempt"), aerr != nil)
			continue
		}
		if !want {
			continue
		}
		created++
		vs.Assert(L("retried-signing-advanced"), signing.CurrentAttempt == attempts[s]+1 && signing.Status == types.SIGNING_STATUS_WAITING)
		c05Consume(e, st, sg, sel, id, attempts[s]+1)
	}
	// every queue and entry: consumed exactly by the successful creations, untouched by the failed ones
	c05CheckQueues(e, st)
	L := func(name string) string { return e.prefix + name }
	vs.Assert(L("failure-callbacks"), len(e.cb.Failed) == failed)
	vs.Assert(L("timeout-callbacks"), len(e.cb.Timeout) == nS)
	vs.Assert(L("expirations-drained"), len(e.k.GetSigningExpirations(e.ctx)) == created)

	if e.prefix == "" {
		vs.Reach("retry-created", created >= 1)
		vs.Reach("retry-failed-before-dequeue", failed > rolledBack)
		vs.Reach("retry-failed-after-all-dequeued-bad-pair", rolledBack >= 1 && (f.kind == c05BadPubE || f.kind == c05BadPubD))
		vs.Reach("retry-failed-midway-missing-entry", rolledBack >= 1 && f.kind == c05Hole && sg.t == 2 && f.addr > 0)
		vs.Reach("fault-present-but-member-not-selected", f.kind != c05NoFault && created >= 1 && failed == 0)
		if nS >= 2 {
			vs.Reach("two-retries-created", created == 2)
			vs.Reach("first-fails-second-created", created == 1 && failed == 1 && len(e.cb.Failed) == 1 && e.cb.Failed[0] == 1)
			vs.Reach("first-created-second-fails", created == 1 && failed == 1 && len(e.cb.Failed) == 1 && e.cb.Failed[0] == 2)
		}
	}
}

// VerifC05RequestSigning: RequestSigning (content -> CreateSigning -> InitiateNewSigningRound)
//   - mode 0: on the transaction context, as MsgRequestSignature / bandtss current-group requests do;
//     a failure is reported to the caller (the SDK rolls the transaction back);
//   - mode 1: inside ctx.CacheContext(), written only on success, as bandtss.createSigningRequest (incoming
//     group), oracle.safeCreateSigning and tunnel.ProduceActiveTunnelPacket do: a failure leaves no trace.
func VerifC05RequestSigning() {
	vs.AssumeHashScalars()
	e := c05Setup()
	nAddr := vs.Param("addrs")
	st := c05AssignQueues(e, nAddr)
	sg := c05BuildSign(e, nAddr, vs.Param("max_threshold"), 1)
	f := c05Inject(e, st, vs.Param("faults"))
	count := vs.U64("signing_count")
	vs.Assume(count < c05AttemptBound)
	e.k.SetSigningCount(e.ctx, count)
	cached := vs.Pick("cache_context", 2) == 1

	content := types.NewTextSignatureOrder(vs.Bytes("message", 4))
	originator := types.NewDirectOriginator("bandchain", c05Addr(0).String(), "memo")

	var id tss.SigningID
	var err error
	if cached {
		cacheCtx, writeFn := e.ctx.CacheContext()
		id, err = e.k.RequestSigning(cacheCtx, 1, &originator, content)
		if err == nil {
			writeFn()
		}
	} else {
		id, err = e.k.RequestSigning(e.ctx, 1, &originator, content)
	}

	attemptOK, enough, sel, faultHit := sg.expect(st, f, 0)
	want := attemptOK && enough && !faultHit
	if err != nil && want {
		c05HashFault(e)
		want = false
	}
	L := func(name string) string { return e.prefix + name }
	vs.Assert(L("request-succeeds-iff-spec"), (err == nil) == want)
	if err != nil {
		vs.Reach("request-rejected", e.prefix == "")
		if !cached {
			// the error reaches the caller; the transaction is rolled back by the SDK (assumption)
			return
		}
		vs.Reach("cached-request-failed-after-dequeue", e.prefix == "" && faultHit)
		vs.Assert(L("dropped-cache-signing-count"), e.k.GetSigningCount(e.ctx) == count)
		_, gerr := e.k.GetSigning(e.ctx, tss.SigningID(count+1))
		vs.Assert(L("dropped-cache-no-signing"), gerr != nil)
		c05CheckQueues(e, st)
		return
	}
	if !want {
		return
	}
	vs.Assert(L("new-signing-id"), uint64(id) == count+1 && e.k.GetSigningCount(e.ctx) == count+1)
	c05Consume(e, st, sg, sel, id, 1)
	c05CheckQueues(e, st)
	vs.Reach("request-created", true)
	vs.Reach("cached-request-created", cached)
}
