//go:build verif

package keeper

import (
	"bytes"

	"github.com/bandprotocol/chain/v3/pkg/tss"
	vs "github.com/bandprotocol/chain/v3/vsupport"
	"github.com/bandprotocol/chain/v3/x/tss/types"
)

func init() {
	vs.RegisterHarness("VerifC04ComplainStep", VerifC04ComplainStep)
	vs.RegisterHarness("VerifC04ConfirmStep", VerifC04ConfirmStep)
}

// c04Round3Pre builds the common round-3 pre-state and the gate part of the message.
type c04Round3 struct {
	e         *c04Env
	n         int
	dealers   []c04Dealer
	inRound3  bool
	state     []int
	malicious []bool
	nDone     int
	msgGroup  tss.GroupID
	mid       tss.MemberID
	senderIdx int
	isMember  bool
	gateOK    bool
}

// c04Round3Gates chooses group status, the round-3 progress of every member (nothing yet / confirmed /
// complained), arbitrary blame flags, and the addressing of the message (group id, member id 0..n+1, sender).
func c04Round3Gates(n, t int) *c04Round3 {
	r := &c04Round3{n: n}
	r.e = c04Setup(n, t)
	r.inRound3 = vs.Bool("group_in_round_3")
	r.msgGroup = 1
	if r.inRound3 && vs.Bool("unknown_group") {
		r.msgGroup = 3
	}
	// full product for the existing group in ROUND_3, a representative family otherwise (any member id with the
	// matching sender; member 1 has done nothing / confirmed / complained)
	full := r.inRound3 && r.msgGroup == 1
	r.dealers = make([]c04Dealer, n)
	for m := range r.dealers {
		r.dealers[m] = c04NewDealer(t)
	}
	r.state = make([]int, n)
	r.malicious = make([]bool, n)
	for m := 0; m < n; m++ {
		if full || m == 0 {
			r.state[m] = vs.Pick("round3_progress", 3)
		}
		if r.state[m] != c04r3None {
			r.nDone++
		}
		r.malicious[m] = vs.Bool("already_malicious")
	}
	r.mid = tss.MemberID(vs.Pick("msg_member_id", n+2))
	r.isMember = r.mid >= 1 && int(r.mid) <= n
	if full {
		r.senderIdx = vs.Pick("sender", n+1)
	} else if r.isMember {
		r.senderIdx = int(r.mid) - 1
	}
	r.gateOK = r.msgGroup == 1 && r.inRound3 && r.isMember && r.senderIdx == int(r.mid)-1 && r.state[int(r.mid)-1] == c04r3None
	return r
}

// c04Round3Store writes the pre-state (after the caller fixed the round-2 shares).
func (r *c04Round3) store(shares []tss.EncSecretShares) {
	status := types.GROUP_STATUS_ROUND_3
	if !r.inRound3 {
		status = types.GroupStatus(vs.Int("other_status", 0, 6))
		vs.Assume(status != types.GROUP_STATUS_ROUND_3)
	}
	c04EnterRound3(r.e, 1, r.dealers, shares, status)
	c04StoreRound3(r.e, 1, r.state, r.malicious)
	pending := []tss.GroupID{2}
	if r.nDone == r.n && r.inRound3 {
		pending = append(pending, 1)
	}
	r.e.k.SetPendingProcessGroups(r.e.ctx, types.NewPendingProcessGroups(pending))
}

func (r *c04Round3) reachRejected() {
	switch {
	case r.msgGroup != 1:
		vs.Reach("rejected-unknown-group", true)
	case !r.inRound3:
		vs.Reach("rejected-wrong-status", true)
	case !r.isMember:
		vs.Reach("rejected-non-member", true)
	case r.senderIdx != int(r.mid)-1:
		vs.Reach("rejected-wrong-sender", true)
	case r.state[r.mid-1] == c04r3Confirmed:
		vs.Reach("rejected-already-confirmed", true)
	case r.state[r.mid-1] == c04r3Complained:
		vs.Reach("rejected-already-complained", true)
	}
}

// c04ComplaintSpec is one complaint of the message together with what the specification says about it.
type c04ComplaintSpec struct {
	respondent tss.MemberID
	corrupt    bool // the respondent dealt a bad share to the complainant
	badProof   bool // the complaint proof was made with a key that is not the complainant's one-time key
}

// VerifC04ComplainStep: one MsgComplain (one complaint; one or two against different respondents in the thorough tier) through the real msg server
// from an arbitrary bounded round-3 state.
//
//	accepted  <=>  group exists ∧ status = ROUND_3 ∧ complainant id in 1..n ∧ sender is its address
//	               ∧ it has neither confirmed nor complained
//
// For each complaint of an accepted message: it is upheld  <=>  the respondent is a member ∧ the proof is valid ∧
// the share the respondent dealt to the complainant is not the one its commitments fix; an upheld complaint marks
// exactly the respondent, a refused one exactly the complainant; nobody else's flag changes (a dealer of a correct
// share is never blamed; a complainant with a true, well-proved complaint is never blamed). The complaints are
// stored with their verdicts, the confirm/complain count grows by one, the group is queued exactly once iff
// everybody has now confirmed or complained. Rejected: nothing changes.
func VerifC04ComplainStep() {
	vs.AssumeHashScalars()
	tss.VerifUseTapeRandomness()
	n := vs.Param("n")
	t := vs.Param("t")
	maxComplaints := vs.Param("max_complaints")
	r := c04Round3Gates(n, t)
	e := r.e

	// the complaints
	complainant := r.mid
	nCompl := 1
	if r.gateOK && maxComplaints > 1 {
		nCompl = 1 + vs.Pick("extra_complaints", maxComplaints)
	}
	var specs []c04ComplaintSpec
	for i := 0; i < nCompl; i++ {
		var s c04ComplaintSpec
		if r.gateOK {
			// any id 1..n+1 other than the complainant (n+1 is not a member)
			s.respondent = tss.MemberID(1 + vs.Pick("respondent", n+1))
			vs.Assume(s.respondent != complainant)
			for _, o := range specs { // one complaint per respondent
				vs.Assume(s.respondent != o.respondent)
			}
			s.corrupt = vs.Bool("respondent_dealt_bad_share")
			if i == 0 { // (the proof variants are ranged over in the first complaint only)
				s.badProof = vs.Bool("proof_with_wrong_key")
			}
		} else {
			s.respondent = complainant%tss.MemberID(n) + 1
			if !r.isMember {
				s.respondent = 1
			}
		}
		specs = append(specs, s)
	}
	// round-2 data: the slots complained about hold real encryptions, the rest is arbitrary
	shares := make([]tss.EncSecretShares, n)
	for m := range shares {
		shares[m] = c04ArbitraryShares(n - 1)
	}
	if r.isMember {
		for _, s := range specs {
			if int(s.respondent) <= n {
				shares[s.respondent-1][c04Slot(s.respondent, complainant)] = c04DealtShare(r.dealers, s.respondent, complainant, s.corrupt)
			}
		}
	}
	r.store(shares)

	var complaints []types.Complaint
	for _, s := range specs {
		// proof by the complainant (a non-member "complainant" / respondent uses a fresh key pair)
		mine, theirs := c04NewDealer(0), c04NewDealer(0)
		if r.isMember {
			mine = r.dealers[complainant-1]
		}
		if int(s.respondent) <= n {
			theirs = r.dealers[s.respondent-1]
		}
		key := mine.otPriv
		if s.badProof {
			key = tss.SumScalars(key, tss.Scalar(vs.ScalarBytes("delta_key")))
			vs.Assume(key.Validate() == nil)
		}
		sig, keySym, err := tss.SignComplaint(mine.otPub, theirs.otPub, key)
		vs.Assert("sign-complaint-ok", err == nil)
		complaints = append(complaints, types.NewComplaint(complainant, s.respondent, keySym, sig))
	}
	msg := types.NewMsgComplain(r.msgGroup, complaints, c04Addr(r.senderIdx).String())

	pre := c04Snap(e, 1, n)
	pre2 := c04Snap(e, 2, 2)

	_, err := e.ms.Complain(e.ctx, msg)

	vs.Assert("accepted-iff-spec", (err == nil) == r.gateOK)
	c04AssertUnchanged(e, "bystander", 2, pre2)
	post := c04Snap(e, 1, n)
	if err != nil {
		c04AssertUnchanged(e, "rejected", 1, pre)
		vs.Assert("rejected-queue-unchanged", c04SameIDs(post.pending, pre.pending))
		r.reachRejected()
		return
	}
	if !r.gateOK {
		return
	}
	// verdicts and blame
	wantMal := append([]bool{}, r.malicious...)
	var wantStatus []types.ComplaintStatus
	for _, s := range specs {
		upheld := int(s.respondent) <= n && s.corrupt && !s.badProof
		if upheld {
			wantMal[s.respondent-1] = true
			wantStatus = append(wantStatus, types.COMPLAINT_STATUS_SUCCESS)
			vs.Reach("cheater-caught", true)
		} else {
			wantMal[complainant-1] = true
			wantStatus = append(wantStatus, types.COMPLAINT_STATUS_FAILED)
			switch {
			case int(s.respondent) > n:
				vs.Reach("complaint-against-non-member-refused", true)
			case s.badProof:
				vs.Reach("complaint-with-bad-proof-refused", true)
			default:
				vs.Reach("false-complaint-refused", true)
			}
		}
	}
	for i := 0; i < n; i++ {
		vs.Assert("blame-exactly-as-specified", post.malicious[i] == wantMal[i])
	}
	vs.Assert("member-keys-untouched", c04SamePoints(post.pubKeys, pre.pubKeys))
	got, gerr := e.k.GetComplaintsWithStatus(e.ctx, 1, complainant)
	vs.Assert("complaints-stored", gerr == nil && got.MemberID == complainant && len(got.ComplaintsWithStatus) == len(specs))
	if gerr == nil && len(got.ComplaintsWithStatus) == len(specs) {
		for i, s := range specs {
			cs := got.ComplaintsWithStatus[i]
			vs.Assert("stored-verdict", vs.And(cs.ComplaintStatus == wantStatus[i],
				vs.And(cs.Complaint.Complainant == complainant, cs.Complaint.Respondent == s.respondent)))
		}
	}
	vs.Assert("count-plus-one", post.ccCount == pre.ccCount+1 && post.ccCount == uint64(r.nDone+1))
	for i := 0; i < n; i++ {
		vs.Assert("complained-flag-set-only-for-sender", post.hasCompl[i] == (pre.hasCompl[i] || i == int(complainant)-1))
	}
	vs.Assert("confirms-untouched", c04SameFlags(post.hasConf, pre.hasConf))
	wantPending := append([]tss.GroupID{}, pre.pending...)
	if r.nDone+1 == n {
		wantPending = append(wantPending, 1)
		vs.Reach("accepted-last-member-queued", true)
	} else {
		vs.Reach("accepted-more-to-come", true)
	}
	vs.Assert("queued-iff-last", c04SameIDs(post.pending, wantPending))
	vs.Assert("group-record-unchanged", vs.And(post.group.Status == types.GROUP_STATUS_ROUND_3, bytes.Equal(post.group.PubKey, pre.group.PubKey)))
	vs.Assert("earlier-rounds-untouched", vs.And(vs.And(post.r1Count == pre.r1Count, post.r2Count == pre.r2Count), c04SamePoints(post.acc, pre.acc)))
}

// Variants of the own-public-key proof of a Confirm message that passes every gate.
const (
	c04cfHonest   = iota // real SignOwnPubKey with the sum of the shares dealt to the member
	c04cfOtherID         // proof made for another member id
	c04cfOtherCtx        // proof made for the DKG context of group 2
	c04cfWrongKey        // proof made with a key that is not the member's private key
	c04cfVariants
)

// VerifC04ConfirmStep: one MsgConfirm through the real msg server from an arbitrary bounded round-3 state.
//
//	accepted  <=>  group exists ∧ status = ROUND_3 ∧ member id in 1..n ∧ sender is its address ∧ it has neither
//	               confirmed nor complained ∧ the proof of possession verifies for (member id, DKG context of the
//	               group, the member's registered public key)
//
// where the registered key was derived from the accumulated commitments by the real UpdateMemberPubKey and the
// honest proof is made with the sum of the shares dealt to the member. Accepted: confirm stored, count+1, queued
// exactly once iff everybody has now confirmed or complained, nobody blamed. Rejected: nothing changes.
func VerifC04ConfirmStep() {
	vs.AssumeHashScalars()
	vs.AssumeHashCollisionFree()
	tss.VerifUseTapeRandomness()
	n := vs.Param("n")
	t := vs.Param("t")
	r := c04Round3Gates(n, t)
	e := r.e
	shares := make([]tss.EncSecretShares, n)
	for m := range shares {
		shares[m] = c04ArbitraryShares(n - 1)
	}
	r.store(shares)

	variant := c04cfHonest
	if r.gateOK {
		variant = vs.Pick("proof_variant", c04cfVariants)
	}
	signer := r.mid
	if !r.isMember {
		signer = 1
	}
	priv := c04OwnPriv(r.dealers, signer)
	pub := c04OwnPub(r.dealers, signer)
	signID, signCtx := r.mid, e.dkgCtx[1]
	switch variant {
	case c04cfOtherID:
		signID = r.mid%tss.MemberID(n) + 1
	case c04cfOtherCtx:
		signCtx = e.dkgCtx[2]
	case c04cfWrongKey:
		priv = tss.SumScalars(priv, tss.Scalar(vs.ScalarBytes("delta_key")))
		vs.Assume(priv.Validate() == nil)
	}
	sig, err := tss.SignOwnPubKey(signID, signCtx, pub, priv)
	vs.Assert("sign-own-key-ok", err == nil)
	msg := types.NewMsgConfirm(r.msgGroup, r.mid, sig, c04Addr(r.senderIdx).String())

	pre := c04Snap(e, 1, n)
	pre2 := c04Snap(e, 2, 2)

	_, err = e.ms.Confirm(e.ctx, msg)

	want := r.gateOK && variant == c04cfHonest
	if variant == c04cfHonest {
		vs.Assert("accepted-iff-spec", (err == nil) == want)
	} else {
		vs.Assert("bad-proof-rejected", err != nil)
	}
	c04AssertUnchanged(e, "bystander", 2, pre2)
	post := c04Snap(e, 1, n)
	if err != nil {
		c04AssertUnchanged(e, "rejected", 1, pre)
		vs.Assert("rejected-queue-unchanged", c04SameIDs(post.pending, pre.pending))
		if r.gateOK {
			switch variant {
			case c04cfOtherID:
				vs.Reach("rejected-proof-for-other-member", true)
			case c04cfOtherCtx:
				vs.Reach("rejected-proof-for-other-context", true)
			case c04cfWrongKey:
				vs.Reach("rejected-proof-with-wrong-key", true)
			}
		} else {
			r.reachRejected()
		}
		return
	}
	if !want {
		return
	}
	got, gerr := e.k.GetConfirm(e.ctx, 1, r.mid)
	vs.Assert("confirm-stored", gerr == nil && got.MemberID == r.mid && bytes.Equal(got.OwnPubKeySig, sig))
	vs.Assert("count-plus-one", post.ccCount == pre.ccCount+1 && post.ccCount == uint64(r.nDone+1))
	for i := 0; i < n; i++ {
		vs.Assert("confirmed-flag-set-only-for-sender", post.hasConf[i] == (pre.hasConf[i] || i == int(r.mid)-1))
	}
	vs.Assert("complaints-untouched", c04SameFlags(post.hasCompl, pre.hasCompl))
	vs.Assert("nobody-blamed", c04SameFlags(post.malicious, pre.malicious))
	vs.Assert("member-keys-untouched", c04SamePoints(post.pubKeys, pre.pubKeys))
	wantPending := append([]tss.GroupID{}, pre.pending...)
	if r.nDone+1 == n {
		wantPending = append(wantPending, 1)
		vs.Reach("accepted-last-member-queued", true)
	} else {
		vs.Reach("accepted-more-to-come", true)
	}
	vs.Assert("queued-iff-last", c04SameIDs(post.pending, wantPending))
	vs.Assert("group-record-unchanged", vs.And(post.group.Status == types.GROUP_STATUS_ROUND_3, bytes.Equal(post.group.PubKey, pre.group.PubKey)))
	vs.Assert("earlier-rounds-untouched", vs.And(vs.And(post.r1Count == pre.r1Count, post.r2Count == pre.r2Count), c04SamePoints(post.acc, pre.acc)))
}
