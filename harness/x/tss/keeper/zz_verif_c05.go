//go:build verif

package keeper

import (
	"errors"

	"github.com/bandprotocol/chain/v3/pkg/tss"
	vs "github.com/bandprotocol/chain/v3/vsupport"
	"github.com/bandprotocol/chain/v3/x/tss/types"
)

// C05 — a signing nonce pair (DE) is used at most once: DE queue steps.
//
// Every harness: arbitrary DE state of up to 3 addresses satisfying the Appendix-B invariant
// (c05BuildQueues), ONE step of the real code, then the complete DE table is compared with the
// specification's post-state (c05CheckQueues): queue indices, every window entry in order, and no entry
// outside any window — which re-establishes the invariant (inductive step).

func init() {
	vs.RegisterHarness("VerifC05SubmitDEs", VerifC05SubmitDEs)
	vs.RegisterHarness("VerifC05DequeueDE", VerifC05DequeueDE)
	vs.RegisterHarness("VerifC05ResetDE", VerifC05ResetDE)
	vs.RegisterHarness("VerifC05Available", VerifC05Available)
	vs.RegisterHarness("VerifC05History", VerifC05History)
}

// c05QueueShape reads the shape parameters shared by the queue-step harnesses and picks the address the
// step acts on.
func c05QueueShape() (nAddr, target int, wins []int) {
	nAddr = vs.Param("addrs")
	target = vs.Pick("target", vs.Param("targets"))
	return nAddr, target, c05Wins(nAddr, target, vs.Param("window"), vs.Param("other_window"))
}

// VerifC05SubmitDEs: MsgSubmitDEs through the real msg server.
// Accepted iff queued + submitted <= MaxDESize; on accept the pairs are appended at Tail in the submitted
// order and nothing else changes; on reject nothing changes.
func VerifC05SubmitDEs() {
	vs.AssumeHashScalars()
	e := c05Setup()
	nAddr, target, wins := c05QueueShape()
	st := c05BuildQueues(e, nAddr, wins, c05BytesDE)

	n := vs.Pick("submitted", vs.Param("submit")+1)
	var des []types.DE
	for i := 0; i < n; i++ {
		des = append(des, c05PointDE())
	}
	msg := types.NewMsgSubmitDEs(des, c05Addr(target).String())
	vs.Assert("well-formed-pairs-pass-validate-basic", msg.ValidateBasic() == nil)

	_, err := NewMsgServerImpl(e.k).SubmitDEs(e.ctx, msg)

	q := &st.q[target]
	queued := uint64(len(q.des))
	accept := queued+uint64(n) <= st.maxDE
	vs.Assert("accept-iff-within-max-de-size", (err == nil) == accept)
	if err != nil {
		vs.Assert("reject-class-is-limit-exceeded", errors.Is(err, types.ErrDELimitExceeded))
		vs.Reach("rejected-over-limit", true)
		vs.Reach("rejected-one-over-limit", queued+uint64(n) == st.maxDE+1)
		vs.Reach("rejected-queue-already-over-lowered-limit", queued > st.maxDE)
		c05CheckQueues(e, st) // nothing changed
		return
	}
	vs.Reach("accepted", n > 0)
	vs.Reach("accepted-exactly-full", n > 0 && queued+uint64(n) == st.maxDE)
	vs.Reach("accepted-into-nonempty-queue", n > 0 && queued > 0)
	vs.Reach("accepted-empty-submission", n == 0)

	q.des = append(q.des, des...)
	c05CheckQueues(e, st)
	vs.Assert("queue-never-grows-beyond-max", uint64(len(q.des)) <= st.maxDE)
}

// VerifC05DequeueDE: DequeueDE returns the entry at Head, deletes it, advances Head by one; error iff the
// queue is empty, and then nothing changes.
func VerifC05DequeueDE() {
	e := c05Setup()
	nAddr, target, wins := c05QueueShape()
	st := c05BuildQueues(e, nAddr, wins, c05BytesDE)

	de, err := e.k.DequeueDE(e.ctx, c05Addr(target))

	q := &st.q[target]
	vs.Assert("error-iff-empty", (err != nil) == (len(q.des) == 0))
	if err != nil {
		vs.Assert("error-class-is-not-found", errors.Is(err, types.ErrDENotFound))
		vs.Reach("empty-queue-rejected", true)
		c05CheckQueues(e, st)
		return
	}
	if len(q.des) == 0 {
		return
	}
	vs.Assert("returns-head-entry", c05SameDE(de, q.des[0]))
	vs.Reach("dequeued", true)
	vs.Reach("dequeued-last", len(q.des) == 1)
	oldHead := q.head
	q.head++
	q.des = q.des[1:]
	c05CheckQueues(e, st)
	_, gerr := e.k.GetDE(e.ctx, c05Addr(target), oldHead)
	vs.Assert("consumed-entry-is-gone", gerr != nil)
}

// VerifC05ResetDE: MsgResetDE empties the window (all entries deleted, indices (0,0)); other addresses
// untouched; never fails on an invariant state.
func VerifC05ResetDE() {
	e := c05Setup()
	nAddr, target, wins := c05QueueShape()
	st := c05BuildQueues(e, nAddr, wins, c05BytesDE)

	msg := types.NewMsgResetDE(c05Addr(target).String())
	vs.Assume(msg.ValidateBasic() == nil)
	_, err := NewMsgServerImpl(e.k).ResetDE(e.ctx, msg)

	vs.Assert("reset-never-fails", err == nil)
	vs.Reach("reset-nonempty", len(st.q[target].des) > 0)
	vs.Reach("reset-empty", len(st.q[target].des) == 0)
	st.q[target] = c05Queue{}
	c05CheckQueues(e, st)
}

// c05Group stores group 1 with one member per address (member id = address index + 1); the activity flags
// of the last nSym members are symbolic, the others are active. Returns the flags.
func c05Group(e *c05Env, nAddr int, threshold uint64, nSym int) []bool {
	active := make([]bool, nAddr)
	e.k.SetGroup(e.ctx, types.NewGroup(1, uint64(nAddr), threshold, c05BadPoint(), types.GROUP_STATUS_ACTIVE, 1, c05Owner))
	e.k.SetGroupCount(e.ctx, 1)
	for a := 0; a < nAddr; a++ {
		active[a] = true
		if a >= nAddr-nSym {
			active[a] = vs.Bool("is_active")
		}
		e.k.SetMember(e.ctx, types.Member{
			ID:          tss.MemberID(a + 1),
			GroupID:     1,
			Address:     c05Addr(a).String(),
			PubKey:      c05BadPoint(), // never parsed by the steps under test
			IsMalicious: false,
			IsActive:    active[a],
		})
	}
	return active
}

// VerifC05Available: GetAvailableMembers returns exactly the members that are active AND have a queued
// pair, in member-id order (in particular never a member with an empty queue or an inactive one).
func VerifC05Available() {
	e := c05Setup()
	nAddr := vs.Param("addrs")
	wins := c05Wins(nAddr, -1, 0, vs.Param("window"))
	st := c05BuildQueues(e, nAddr, wins, c05BytesDE)
	active := c05Group(e, nAddr, 1, nAddr)

	got := e.k.GetAvailableMembers(e.ctx, 1)

	var want []int
	for a := 0; a < nAddr; a++ {
		if len(st.q[a].des) > 0 && active[a] {
			want = append(want, a)
		}
	}
	vs.Assert("available-count", len(got) == len(want))
	if len(got) == len(want) {
		for i, a := range want {
			vs.Assert("available-member", got[i].ID == tss.MemberID(a+1) && got[i].Address == c05Addr(a).String() && got[i].IsActive)
		}
	}
	for _, m := range got {
		a := int(m.ID) - 1
		vs.Assert("never-inactive", active[a])
		vs.Assert("never-without-queued-de", len(st.q[a].des) > 0)
	}
	vs.Reach("some-available", len(got) > 0)
	vs.Reach("excluded-inactive-with-de", nAddr > 0 && len(st.q[0].des) > 0 && !active[0])
	vs.Reach("excluded-active-without-de", nAddr > 0 && len(st.q[0].des) == 0 && active[0])
	c05CheckQueues(e, st) // a query: nothing changes
}

// VerifC05History: a bounded history of submissions (one pair each), dequeues and resets on one address,
// starting from an arbitrary invariant state. Every pair handed out by DequeueDE is the oldest pair not yet
// handed out or reset (specification-side ledger of every registered pair and its fate: a pair leaves the
// ledger's live list exactly once, so a pair that is handed out twice, or after a reset, or out of order
// shows up as a value mismatch against the ledger for suitable pair values).
func VerifC05History() {
	vs.AssumeHashScalars()
	e := c05Setup()
	steps := vs.Param("steps")
	st := c05BuildQueues(e, 1, []int{vs.Param("window")}, c05BytesDE)
	addr := c05Addr(0)
	q := &st.q[0]

	// ledger: every pair ever registered, with its fate
	type rec struct {
		de       types.DE
		consumed bool // handed out by DequeueDE
		dropped  bool // removed by ResetDE
	}
	var ledger []*rec
	live := []*rec{} // ledger entries currently queued, oldest first
	for i := range q.des {
		r := &rec{de: q.des[i]}
		ledger = append(ledger, r)
		live = append(live, r)
	}
	handedOut, resets, afterReset := 0, 0, 0
	for s := 0; s < steps; s++ {
		switch vs.Pick("op", 3) {
		case 0: // submit one pair
			de := c05PointDE()
			err := e.k.EnqueueDEs(e.ctx, addr, []types.DE{de})
			vs.Assert("accept-iff-within-max-de-size", (err == nil) == (uint64(len(q.des))+1 <= st.maxDE))
			if err == nil {
				r := &rec{de: de}
				ledger = append(ledger, r)
				live = append(live, r)
				q.des = append(q.des, de)
			}
		case 1: // dequeue
			de, err := e.k.DequeueDE(e.ctx, addr)
			vs.Assert("error-iff-empty", (err != nil) == (len(live) == 0))
			if err == nil && len(live) > 0 {
				r := live[0]
				vs.Assert("oldest-unused-pair-is-handed-out", c05SameDE(de, r.de))
				r.consumed = true
				live = live[1:]
				q.head++
				q.des = q.des[1:]
				handedOut++
				if resets > 0 {
					afterReset++
				}
			}
		case 2: // reset
			vs.Assert("reset-never-fails", e.k.ResetDE(e.ctx, addr) == nil)
			for _, r := range live {
				r.dropped = true
			}
			live = live[:0]
			q.head, q.des = 0, nil
			resets++
		}
		c05CheckQueues(e, st)
	}
	vs.Reach("two-pairs-handed-out", handedOut >= 2)
	vs.Reach("handed-out-after-reset", afterReset >= 1)
	_ = ledger
}
