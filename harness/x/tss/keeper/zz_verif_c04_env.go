//go:build verif

package keeper

import (
	"bytes"

	storetypes "cosmossdk.io/store/types"

	sdk "github.com/cosmos/cosmos-sdk/types"

	"github.com/bandprotocol/chain/v3/pkg/tss"
	vs "github.com/bandprotocol/chain/v3/vsupport"
	"github.com/bandprotocol/chain/v3/vsupport/venv"
	"github.com/bandprotocol/chain/v3/x/tss/types"
)

// Shared environment of the C04 keeper-level DKG state-machine harnesses (zz_verif_c04_round*.go,
// zz_verif_c04_endblock.go).
//
// Identifier policy: group ids, member ids and account addresses are concrete and pairwise distinct; the DKG
// context is the concrete digest the real CreateGroup derives; polynomial coefficients, one-time keys, nonces,
// group status (where it is not the gate under test), heights and the creation period are symbolic. Which
// members have already submitted / confirmed / complained is a concrete shape chosen by forking.
//
// Group 1 is the group under test. Group 2 is a bystander (another DKG in progress) whose data must never
// be touched by a step on group 1.

const c04Owner = "bandtss"

// c04Callback records the callbacks into the owning module.
type c04Callback struct {
	Completed []tss.GroupID
	Failed    []tss.GroupID
	Expired   []tss.GroupID
}

func (c *c04Callback) OnGroupCreationCompleted(ctx sdk.Context, groupID tss.GroupID) {
	c.Completed = append(c.Completed, groupID)
}

func (c *c04Callback) OnGroupCreationFailed(ctx sdk.Context, groupID tss.GroupID) {
	c.Failed = append(c.Failed, groupID)
}

func (c *c04Callback) OnGroupCreationExpired(ctx sdk.Context, groupID tss.GroupID) {
	c.Expired = append(c.Expired, groupID)
}
func (c *c04Callback) OnSigningFailed(ctx sdk.Context, signingID tss.SigningID) {}
func (c *c04Callback) OnSigningCompleted(ctx sdk.Context, signingID tss.SigningID, assigned []sdk.AccAddress) {
}
func (c *c04Callback) OnSigningTimeout(ctx sdk.Context, signingID tss.SigningID, idle []sdk.AccAddress) {}

type c04Env struct {
	ctx sdk.Context
	k   *Keeper
	ms  types.MsgServer
	cb  *c04Callback
	n   int
	t   int
	// dkgCtx[g] is the stored DKG context of group g (index 1, 2)
	dkgCtx [3][]byte
}

// VerifC04Env is the exported view used by the end-block harness in package x/tss.
type VerifC04Env = c04Env

func (e *c04Env) Ctx() sdk.Context        { return e.ctx }
func (e *c04Env) SetCtx(ctx sdk.Context)  { e.ctx = ctx }
func (e *c04Env) Keeper() *Keeper         { return e.k }
func (e *c04Env) Callbacks() *c04Callback { return e.cb }

func c04Addr(i int) sdk.AccAddress { return venv.Addr(1 + i) }

// c04Setup: real keeper + msg server, default params, and two groups created with the REAL CreateGroup
// (members 1..n at addresses c04Addr(0..n-1), threshold t, status ROUND_1, DKG context stored):
// group 1 (under test) and group 2 (bystander, 2 members, threshold 2).
func c04Setup(n, t int) *c04Env {
	key := storetypes.NewKVStoreKey(types.StoreKey)
	e := &c04Env{cb: &c04Callback{}, n: n, t: t}
	e.ctx = venv.NewContext(key)
	cbRouter := types.NewCallbackRouter()
	cbRouter.AddRoute(c04Owner, e.cb)
	e.k = NewKeeper(venv.Codec(), key, venv.Authz{}, c04kSeed{}, types.NewContentRouter(), cbRouter, venv.Addr(9).String())
	e.ms = NewMsgServerImpl(e.k)
	vs.Assume(e.k.SetParams(e.ctx, types.DefaultParams()) == nil)

	var members []sdk.AccAddress
	for i := 0; i < n; i++ {
		members = append(members, c04Addr(i))
	}
	gid, err := e.k.CreateGroup(e.ctx, members, uint64(t), c04Owner)
	vs.Assert("env-group-1-created", err == nil && gid == 1)
	gid, err = e.k.CreateGroup(e.ctx, []sdk.AccAddress{c04Addr(0), c04Addr(n)}, 2, c04Owner)
	vs.Assert("env-group-2-created", err == nil && gid == 2)
	for g := tss.GroupID(1); g <= 2; g++ {
		c, err := e.k.GetDKGContext(e.ctx, g)
		vs.Assert("env-dkg-context-stored", err == nil && len(c) == 32)
		e.dkgCtx[g] = c
	}
	vs.Assert("env-dkg-contexts-differ", !bytes.Equal(e.dkgCtx[1], e.dkgCtx[2]))
	return e
}

// c04Dealer: the round-1 secret material of one member.
type c04Dealer struct {
	coeffs  tss.Scalars
	commits tss.Points
	otPriv  tss.Scalar
	otPub   tss.Point
}

func c04NewDealer(nCoeff int) c04Dealer {
	var d c04Dealer
	for j := 0; j < nCoeff; j++ {
		a := tss.Scalar(vs.ScalarBytes("coefficient"))
		d.coeffs = append(d.coeffs, a)
		d.commits = append(d.commits, a.Point())
	}
	d.otPriv = tss.Scalar(vs.ScalarBytes("one_time_key"))
	d.otPub = d.otPriv.Point()
	return d
}

// c04SumCoeff returns sum_{m in set} dealers[m].coeffs[j] (nil for the empty set).
func c04SumCoeff(dealers []c04Dealer, in []bool, j int) tss.Scalar {
	var xs tss.Scalars
	for m := range dealers {
		if in[m] && j < len(dealers[m].coeffs) {
			xs = append(xs, dealers[m].coeffs[j])
		}
	}
	if len(xs) == 0 {
		return nil
	}
	return tss.SumScalars(xs...)
}

// c04SetStatus overwrites the status (and public key) of group gid with the real setter.
func c04SetStatus(e *c04Env, gid tss.GroupID, status types.GroupStatus, pub tss.Point) {
	g := e.k.MustGetGroup(e.ctx, gid)
	g.Status = status
	g.PubKey = pub
	e.k.SetGroup(e.ctx, g)
}

// c04StoreRound1 stores the round-1 submissions of the members in `in` (real AddRound1Info: info + count) and
// the accumulated commitments they add up to (invariant: acc[j] = sum of the submitted j-th commitments, stored
// for exactly the indices 0..t-1 once anybody has submitted). The accumulated sums are assumed to be finite
// points (a vanishing sum has negligible probability and cannot be serialised).
func c04StoreRound1(e *c04Env, gid tss.GroupID, dealers []c04Dealer, in []bool) {
	any := false
	for m := range dealers {
		if !in[m] {
			continue
		}
		any = true
		e.k.AddRound1Info(e.ctx, gid, types.Round1Info{
			MemberID:           tss.MemberID(m + 1),
			CoefficientCommits: dealers[m].commits,
			OneTimePubKey:      dealers[m].otPub,
		})
	}
	if !any {
		return
	}
	for j := 0; j < e.t; j++ {
		s := c04SumCoeff(dealers, in, j)
		vs.Assume(s.Validate() == nil)
		e.k.SetAccumulatedCommit(e.ctx, gid, uint64(j), s.Point())
	}
}

// c04Snapshot is the observable DKG state of a group (what a rejected message must leave untouched).
type c04Snapshot struct {
	group     types.Group
	r1Count   uint64
	r2Count   uint64
	ccCount   uint64
	hasR1     []bool
	hasR2     []bool
	hasConf   []bool
	hasCompl  []bool
	malicious []bool
	pubKeys   []tss.Point
	acc       tss.Points
	pending   []tss.GroupID
}

func c04Snap(e *c04Env, gid tss.GroupID, n int) c04Snapshot {
	s := c04Snapshot{}
	s.group = e.k.MustGetGroup(e.ctx, gid)
	s.r1Count = e.k.GetRound1InfoCount(e.ctx, gid)
	s.r2Count = e.k.GetRound2InfoCount(e.ctx, gid)
	s.ccCount = e.k.GetConfirmComplainCount(e.ctx, gid)
	for m := 1; m <= n; m++ {
		id := tss.MemberID(m)
		s.hasR1 = append(s.hasR1, e.k.HasRound1Info(e.ctx, gid, id))
		s.hasR2 = append(s.hasR2, e.k.HasRound2Info(e.ctx, gid, id))
		s.hasConf = append(s.hasConf, e.k.HasConfirm(e.ctx, gid, id))
		s.hasCompl = append(s.hasCompl, e.k.HasComplaintsWithStatus(e.ctx, gid, id))
		mem := e.k.MustGetMember(e.ctx, gid, id)
		s.malicious = append(s.malicious, mem.IsMalicious)
		s.pubKeys = append(s.pubKeys, mem.PubKey)
	}
	s.acc = e.k.GetAllAccumulatedCommits(e.ctx, gid)
	s.pending = e.k.GetPendingProcessGroups(e.ctx)
	return s
}

func c04SameIDs(a, b []tss.GroupID) bool {
	if len(a) != len(b) {
		return false
	}
	for i := range a {
		if a[i] != b[i] {
			return false
		}
	}
	return true
}

func c04SameFlags(a, b []bool) bool {
	if len(a) != len(b) {
		return false
	}
	r := true
	for i := range a {
		r = vs.And(r, a[i] == b[i])
	}
	return r
}

func c04SamePoints(a, b tss.Points) bool {
	if len(a) != len(b) {
		return false
	}
	r := true
	for i := range a {
		r = vs.And(r, bytes.Equal(a[i], b[i]))
	}
	return r
}

// c04AssertUnchanged: the DKG state of the group is exactly the snapshot (prefix labels the group).
func c04AssertUnchanged(e *c04Env, prefix string, gid tss.GroupID, pre c04Snapshot) {
	post := c04Snap(e, gid, len(pre.hasR1))
	vs.Assert(prefix+"-group-record-unchanged", vs.And(post.group.Status == pre.group.Status,
		vs.And(bytes.Equal(post.group.PubKey, pre.group.PubKey), post.group.CreatedHeight == pre.group.CreatedHeight)))
	vs.Assert(prefix+"-counts-unchanged", vs.And(post.r1Count == pre.r1Count, vs.And(post.r2Count == pre.r2Count, post.ccCount == pre.ccCount)))
	vs.Assert(prefix+"-submissions-unchanged", vs.And(vs.And(c04SameFlags(post.hasR1, pre.hasR1), c04SameFlags(post.hasR2, pre.hasR2)),
		vs.And(c04SameFlags(post.hasConf, pre.hasConf), c04SameFlags(post.hasCompl, pre.hasCompl))))
	vs.Assert(prefix+"-members-unchanged", vs.And(c04SameFlags(post.malicious, pre.malicious), c04SamePoints(post.pubKeys, pre.pubKeys)))
	vs.Assert(prefix+"-accumulated-commits-unchanged", c04SamePoints(post.acc, pre.acc))
}

// c04All returns a flag vector with every member set.
func c04All(n int) []bool {
	r := make([]bool, n)
	for i := range r {
		r[i] = true
	}
	return r
}

// c04OwnPub: the public key member id must end up with: the image of the sum of the shares dealt to it,
// (sum_m f_m(id))·G, computed from the secret polynomials (independent of the accumulated commitments).
func c04OwnPub(dealers []c04Dealer, id tss.MemberID) tss.Point {
	var shares tss.Scalars
	for m := range dealers {
		sh, err := tss.ComputeSecretShare(dealers[m].coeffs, id)
		vs.Assert("env-share-ok", err == nil)
		shares = append(shares, sh)
	}
	return tss.SumScalars(shares...).Point()
}

// c04OwnPriv: the matching private key (sum of the shares dealt to member id).
func c04OwnPriv(dealers []c04Dealer, id tss.MemberID) tss.Scalar {
	var shares tss.Scalars
	for m := range dealers {
		sh, err := tss.ComputeSecretShare(dealers[m].coeffs, id)
		vs.Assert("env-share-ok", err == nil)
		shares = append(shares, sh)
	}
	return tss.SumScalars(shares...)
}

// c04EnterRound2 puts group gid into the state the real end-blocker leaves after a complete round 1: every
// member's round-1 info stored, accumulated commitments = sums, status ROUND_2 (or `status`), group public key
// = accumulated commitment 0.
func c04EnterRound2(e *c04Env, gid tss.GroupID, dealers []c04Dealer, status types.GroupStatus) {
	c04StoreRound1(e, gid, dealers, c04All(len(dealers)))
	c04SetStatus(e, gid, status, e.k.GetAccumulatedCommit(e.ctx, gid, 0))
}

// c04ArbitraryShares: n-1 encrypted shares with arbitrary content (the chain never looks inside in round 2).
func c04ArbitraryShares(k int) tss.EncSecretShares {
	var out tss.EncSecretShares
	for i := 0; i < k; i++ {
		out = append(out, tss.EncSecretShare(vs.Bytes("encrypted_share", 48)))
	}
	return out
}

// c04StoreRound2 stores the round-2 submission `shares[m]` of every member in `in` (real AddRound2Info) and the
// member public key the real SubmitDKGRound2 derives at that moment (invariant: a member that has submitted
// round 2 has its own public key registered; the others have none yet).
func c04StoreRound2(e *c04Env, gid tss.GroupID, dealers []c04Dealer, in []bool, shares []tss.EncSecretShares) {
	for m := range dealers {
		if !in[m] {
			continue
		}
		id := tss.MemberID(m + 1)
		e.k.AddRound2Info(e.ctx, gid, types.Round2Info{MemberID: id, EncryptedSecretShares: shares[m]})
		mem := e.k.MustGetMember(e.ctx, gid, id)
		mem.PubKey = c04OwnPub(dealers, id)
		vs.Assume(mem.PubKey.Validate() == nil)
		e.k.SetMember(e.ctx, mem)
	}
}

// ---------- round 3 ----------

const (
	c04r3None = iota
	c04r3Confirmed
	c04r3Complained
)

// c04Slot: position of recipient `to` in dealer `from`'s list of n-1 encrypted shares (ids in ascending order
// without the dealer), counted independently of types.FindMemberSlot.
func c04Slot(from, to tss.MemberID) int {
	slot := 0
	for id := tss.MemberID(1); id < to; id++ {
		if id != from {
			slot++
		}
	}
	return slot
}

// c04DealtShare: what dealer `from` puts into recipient `to`'s slot: the encryption (real Encrypt under the real
// Diffie-Hellman key) of f_from(to), or of f_from(to)+delta (delta != 0) when corrupt.
func c04DealtShare(dealers []c04Dealer, from, to tss.MemberID, corrupt bool) tss.EncSecretShare {
	share, err := tss.ComputeSecretShare(dealers[from-1].coeffs, to)
	vs.Assert("env-share-ok", err == nil)
	if corrupt {
		share = tss.SumScalars(share, tss.Scalar(vs.ScalarBytes("delta_share")))
	}
	keySym, err := tss.ComputeSecretSym(dealers[from-1].otPriv, dealers[to-1].otPub)
	vs.Assert("env-sym-ok", err == nil)
	enc, err := tss.Encrypt(share, keySym, c04kNonce{})
	vs.Assert("env-encrypt-ok", err == nil)
	return enc
}

// c04EnterRound3 puts group gid into the state the real code leaves after complete rounds 1 and 2: all round-1
// infos, accumulated commitments, group key, every member's round-2 info `shares[m]` and every member's public
// key derived by the REAL UpdateMemberPubKey from the accumulated commitments; status ROUND_3 (or `status`).
func c04EnterRound3(e *c04Env, gid tss.GroupID, dealers []c04Dealer, shares []tss.EncSecretShares, status types.GroupStatus) {
	c04StoreRound1(e, gid, dealers, c04All(len(dealers)))
	c04SetStatus(e, gid, status, e.k.GetAccumulatedCommit(e.ctx, gid, 0))
	for m := range dealers {
		id := tss.MemberID(m + 1)
		e.k.AddRound2Info(e.ctx, gid, types.Round2Info{MemberID: id, EncryptedSecretShares: shares[m]})
		vs.Assume(c04OwnPub(dealers, id).Validate() == nil)
		err := e.k.UpdateMemberPubKey(e.ctx, gid, id)
		vs.Assert("env-member-key-derived", err == nil)
		mem := e.k.MustGetMember(e.ctx, gid, id)
		vs.Assert("env-member-key-is-image-of-its-shares", bytes.Equal(mem.PubKey, c04OwnPub(dealers, id)))
	}
}

// c04StoreRound3 stores earlier round-3 submissions (real AddConfirm / AddComplaintsWithStatus: record + count)
// and arbitrary blame flags.
func c04StoreRound3(e *c04Env, gid tss.GroupID, state []int, malicious []bool) {
	for m := range state {
		id := tss.MemberID(m + 1)
		switch state[m] {
		case c04r3Confirmed:
			e.k.AddConfirm(e.ctx, gid, types.NewConfirm(id, nil))
		case c04r3Complained:
			e.k.AddComplaintsWithStatus(e.ctx, gid, types.ComplaintsWithStatus{MemberID: id, ComplaintsWithStatus: []types.ComplaintWithStatus{
				{Complaint: types.Complaint{Complainant: id, Respondent: id%tss.MemberID(len(state)) + 1}, ComplaintStatus: types.COMPLAINT_STATUS_FAILED},
			}})
		}
		mem := e.k.MustGetMember(e.ctx, gid, id)
		mem.IsMalicious = malicious[m] // symbolic flag, no fork
		e.k.SetMember(e.ctx, mem)
	}
}
