//go:build verif

package keeper

import (
	"github.com/bandprotocol/chain/v3/pkg/bandrng"
	"github.com/bandprotocol/chain/v3/pkg/tss"
	vs "github.com/bandprotocol/chain/v3/vsupport"
)

func init() { vs.RegisterHarness("VerifC09RandomMembers", VerifC09RandomMembers) }

// VerifC09RandomMembers: GetRandomMembers on a group of n members (activity flags and queued-DE presence
// symbolic, threshold 1..n) with every DRBG draw symbolic: error iff fewer available members than the
// threshold; otherwise exactly `threshold` pairwise distinct members, each active with a queued DE, sorted by id.
func VerifC09RandomMembers() {
	e := c05Setup()
	n := vs.Param("n")
	threshold := 1 + vs.Pick("threshold", n)
	wins := make([]int, n)
	for a := range wins {
		wins[a] = vs.Pick("queued_des", 2)
	}
	st := c05BuildQueues(e, n, wins, c05BytesDE)
	active := c05Group(e, n, uint64(threshold), n)
	nAvail := 0
	for a := 0; a < n; a++ {
		if active[a] && len(st.q[a].des) > 0 {
			nAvail++
		}
	}
	draws := make([]uint64, threshold)
	for i := range draws {
		draws[i] = vs.U64("draw")
	}
	bandrng.VerifSetStream(draws)

	got, err := e.k.GetRandomMembers(e.ctx, 1, []byte("nonce"))

	vs.Assert("error-iff-too-few-available", (err != nil) == (nAvail < threshold))
	if err != nil {
		vs.Reach("insufficient", true)
		return
	}
	vs.Assert("exactly-threshold-members", len(got) == threshold)
	for i, m := range got {
		a := int(m.ID) - 1
		vs.Assert("member-id-in-group", m.ID >= 1 && m.ID <= tss.MemberID(n))
		if a >= 0 && a < n {
			vs.Assert("only-available-members", active[a] && len(st.q[a].des) > 0)
		}
		if i > 0 {
			vs.Assert("distinct-and-sorted", got[i-1].ID < m.ID)
		}
	}
	if threshold >= 3 {
		vs.Reach("committee-of-three-or-more", true)
	}
	c05CheckQueues(e, st) // selection alone consumes nothing
}
