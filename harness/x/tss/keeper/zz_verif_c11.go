//go:build verif

package keeper

import (
	"bytes"
	"context"
	"time"

	storetypes "cosmossdk.io/store/types"

	sdk "github.com/cosmos/cosmos-sdk/types"
	"github.com/cosmos/cosmos-sdk/x/authz"

	"github.com/bandprotocol/chain/v3/pkg/tss"
	vs "github.com/bandprotocol/chain/v3/vsupport"
	"github.com/bandprotocol/chain/v3/vsupport/venv"
	"github.com/bandprotocol/chain/v3/x/tss/types"
)

func init() {
	vs.RegisterHarness("VerifC11CreateSigning", VerifC11CreateSigning)
}

// ---- environment (x/tss keeper with no neighbours involved in CreateSigning)

type c11Authz struct{}

func (c11Authz) GetAuthorization(ctx context.Context, grantee, granter sdk.AccAddress, msgType string) (authz.Authorization, *time.Time) {
	return nil, nil
}

func (c11Authz) SaveGrant(ctx context.Context, grantee, granter sdk.AccAddress, a authz.Authorization, exp *time.Time) error {
	return nil
}

type c11Seed struct{}

func (c11Seed) GetRollingSeed(ctx sdk.Context) []byte { return make([]byte, 32) }

// VerifC11NewKeeper builds a real x/tss keeper over a fresh model store (also used by the x/tss handler harness).
func VerifC11NewKeeper() (sdk.Context, *Keeper, *types.ContentRouter) {
	key := storetypes.NewKVStoreKey(types.StoreKey)
	ctx := venv.NewContext(key)
	router := types.NewContentRouter()
	k := NewKeeper(venv.Codec(), key, c11Authz{}, c11Seed{}, router, types.NewCallbackRouter(), venv.Addr(9).String())
	return ctx, k, router
}

func c11BE64(x uint64) []byte {
	return []byte{byte(x >> 56), byte(x >> 48), byte(x >> 40), byte(x >> 32), byte(x >> 24), byte(x >> 16), byte(x >> 8), byte(x)}
}

func c11Bytes(label string, max int) []byte {
	return vs.Bytes(label, vs.Pick(label+"_len", max+1))
}

// c11WantMessage is the documented signing message: keccak(originator) | BE64(unix block time) | BE64(id) | content.
func c11WantMessage(secs int64, id uint64, originator, content []byte) []byte {
	var w []byte
	w = append(w, tss.Hash(originator)...)
	w = append(w, c11BE64(uint64(secs))...)
	w = append(w, c11BE64(id)...)
	w = append(w, content...)
	return w
}

// VerifC11CreateSigning: two consecutive CreateSigning calls from an arbitrary state (signing count, one
// arbitrary already stored signing with id <= count, group missing / active / in any other status).
//
//   - accepted iff the group exists and is ACTIVE; on rejection nothing changes;
//   - the new id is count+1, never the id of a stored signing; the stored Message is exactly the documented
//     layout built from THIS request's originator, content, the block time and the new id;
//   - the older signing is untouched; the second call gets count+2 and a different message.
//
// Invariant (assumed before, asserted after): every stored signing has 1 <= id <= SigningCount.
func VerifC11CreateSigning() {
	ctx, k, _ := VerifC11NewKeeper()
	maxB := vs.Param("max_bytes")

	secs := vs.I64("block_time_unix")
	// a block time is a protobuf Timestamp (year 1..9999); the real codec refuses to store anything else
	vs.Assume(secs >= -62135596800 && secs <= 253402300799)
	height := vs.I64("block_height")
	vs.Assume(height >= 0)
	ctx = ctx.WithBlockTime(time.Unix(secs, 0)).WithBlockHeight(height)

	count := vs.U64("signing_count")
	vs.Assume(count < 1<<63) // ids are handed out one by one; the counter cannot approach 2^64
	k.SetSigningCount(ctx, count)

	const gid = tss.GroupID(3)
	pub := tss.Point(vs.Bytes("group_pub_key", 33))
	groupShape := vs.Pick("group_shape", 3) // 0: no such group, 1: active, 2: any other status
	status := types.GROUP_STATUS_ACTIVE
	if groupShape == 2 {
		status = types.GroupStatus(vs.Int("group_status", 0, 5))
		vs.Assume(status != types.GROUP_STATUS_ACTIVE)
	}
	if groupShape != 0 {
		k.SetGroup(ctx, types.NewGroup(gid, 3, 2, pub, status, 1, "bandtss"))
	}

	hasOld := vs.Bool("has_older_signing")
	oldID := uint64(0)
	oldMsg := c11Bytes("older_message", maxB)
	if hasOld {
		oldID = vs.U64("older_signing_id")
		vs.Assume(oldID >= 1 && oldID <= count)
		k.SetSigning(ctx, types.NewSigning(tss.SigningID(oldID), 1, gid, pub, oldMsg, nil, nil,
			types.SIGNING_STATUS_SUCCESS, 1, time.Unix(1, 0)))
	}
	checkOld := func() {
		if !hasOld {
			return
		}
		s, err := k.GetSigning(ctx, tss.SigningID(oldID))
		vs.Assert("older-signing-still-there", err == nil)
		vs.Assert("older-signing-message-unchanged", bytes.Equal(s.Message, oldMsg))
		vs.Assert("older-signing-status-unchanged", s.Status == types.SIGNING_STATUS_SUCCESS)
		vs.Assert("older-signing-id-unchanged", uint64(s.ID) == oldID)
	}

	orig1, content1 := c11Bytes("originator", maxB), c11Bytes("content", maxB)
	id1, err := k.CreateSigning(ctx, gid, orig1, content1)

	vs.Assert("accepted-iff-group-active", (err == nil) == (groupShape == 1))
	if err != nil {
		vs.Assert("rejected-id-zero", id1 == 0)
		vs.Assert("rejected-count-unchanged", k.GetSigningCount(ctx) == count)
		_, e2 := k.GetSigning(ctx, tss.SigningID(count+1))
		vs.Assert("rejected-nothing-stored", e2 != nil)
		checkOld()
		vs.Reach("rejected", true)
		return
	}
	vs.Assert("new-id-is-count-plus-one", uint64(id1) == count+1)
	vs.Assert("count-advanced", k.GetSigningCount(ctx) == count+1)
	s1, e1 := k.GetSigning(ctx, id1)
	vs.Assert("signing-stored", e1 == nil)
	want1 := c11WantMessage(secs, count+1, orig1, content1)
	vs.Assert("message-is-documented-layout", bytes.Equal(s1.Message, want1))
	vs.Assert("stored-id", s1.ID == id1)
	vs.Assert("stored-group", s1.GroupID == gid && bytes.Equal(s1.GroupPubKey, pub))
	vs.Assert("stored-status-waiting", s1.Status == types.SIGNING_STATUS_WAITING)
	vs.Assert("stored-attempt-zero", s1.CurrentAttempt == 0)
	vs.Assert("stored-height", s1.CreatedHeight == uint64(height))
	vs.Assert("stored-time", s1.CreatedTimestamp.Unix() == secs)
	vs.Assert("no-signature-yet", len(s1.Signature) == 0 && len(s1.GroupPubNonce) == 0)
	checkOld()

	// second request in the same block
	orig2, content2 := c11Bytes("originator2", maxB), c11Bytes("content2", maxB)
	id2, err := k.CreateSigning(ctx, gid, orig2, content2)
	vs.Assert("second-accepted", err == nil)
	vs.Assert("second-id-is-count-plus-two", uint64(id2) == count+2)
	vs.Assert("ids-differ", id1 != id2)
	vs.Assert("count-advanced-twice", k.GetSigningCount(ctx) == count+2)
	s2, e2 := k.GetSigning(ctx, id2)
	vs.Assert("second-stored", e2 == nil)
	vs.Assert("second-message-is-documented-layout", bytes.Equal(s2.Message, c11WantMessage(secs, count+2, orig2, content2)))
	vs.Assert("messages-differ", !bytes.Equal(s1.Message, s2.Message))
	s1b, e1b := k.GetSigning(ctx, id1)
	vs.Assert("first-still-there", e1b == nil)
	vs.Assert("first-message-unchanged", bytes.Equal(s1b.Message, want1))
	checkOld()
	vs.Reach("two-created", true)
	vs.Reach("two-created-same-request-bytes", vs.And(bytes.Equal(orig1, orig2), bytes.Equal(content1, content2)))
	vs.Reach("older-signing-at-count", vs.And(hasOld, oldID == count))
}
