//go:build verif

package tss

import (
	vs "github.com/bandprotocol/chain/v3/vsupport"
	"github.com/bandprotocol/chain/v3/x/tss/keeper"
)

func init() { vs.RegisterHarness("VerifC04EndBlock", VerifC04EndBlock) }

// VerifC04EndBlock: the real x/tss EndBlocker on an arbitrary bounded DKG state (pre-state, oracle and
// documentation: keeper.VerifC04EndBlockBody in harness/x/tss/keeper/zz_verif_c04_endblock.go).
func VerifC04EndBlock() { keeper.VerifC04EndBlockBody(EndBlocker) }

func init() { vs.RegisterHarness("VerifC04Run", VerifC04Run) }

// VerifC04Run: a complete group creation (real msg server + real EndBlocker), honest or with one cheating dealer
// (keeper.VerifC04RunBody in harness/x/tss/keeper/zz_verif_c04_run.go).
func VerifC04Run() { keeper.VerifC04RunBody(EndBlocker) }
