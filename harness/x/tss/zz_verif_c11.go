//go:build verif

package tss

import (
	"bytes"
	"errors"

	tsslib "github.com/bandprotocol/chain/v3/pkg/tss"
	vs "github.com/bandprotocol/chain/v3/vsupport"
	"github.com/bandprotocol/chain/v3/x/tss/keeper"
	"github.com/bandprotocol/chain/v3/x/tss/types"
)

func init() {
	vs.RegisterHarness("VerifC11TextHandler", VerifC11TextHandler)
}


// VerifC11TextHandler: the x/tss content handler on a TextSignatureOrder with an arbitrary message and an
// arbitrary MaxMessageLength parameter, called directly and through the real ContentRouter.
//
//	accepted iff len(message) <= MaxMessageLength;  output = keccak("Text")[:4] | message;
//	routed output = keccak(route)[:4] | keccak("Text")[:4] | message.
func VerifC11TextHandler() {
	types.VerifC11CheckTags([]types.VerifC11OwnTag{{Name: "Text", Const: TextMsgPrefix}})
	ctx, k, router := keeper.VerifC11NewKeeper()
	maxB := vs.Param("max_bytes")
	p := types.DefaultParams()
	p.MaxMessageLength = vs.U64("max_message_length")
	vs.Assume(p.MaxMessageLength >= 1) // Params.Validate
	vs.Assume(k.SetParams(ctx, p) == nil)

	msg := vs.Bytes("message", vs.Pick("message_len", maxB+1))
	h := NewSignatureOrderHandler(*k)
	router.AddRoute(types.RouterKey, h)
	order := types.NewTextSignatureOrder(msg)

	out, err := h(ctx, order)
	fits := uint64(len(msg)) <= p.MaxMessageLength
	vs.Assert("accepted-iff-message-fits", (err == nil) == fits)
	routed, rerr := router.GetRoute(order.OrderRoute())(ctx, order)
	vs.Assert("routed-accepted-iff-message-fits", (rerr == nil) == fits)
	if err != nil {
		vs.Assert("rejected-is-invalid-message", errors.Is(err, types.ErrInvalidMessage))
		vs.Assert("rejected-no-bytes", len(out) == 0 && len(routed) == 0)
		vs.Reach("too-long", true)
		return
	}
	tag := tsslib.Hash([]byte("Text"))[:4]
	want := append(append([]byte{}, tag...), msg...)
	vs.Assert("output-is-tag-then-message", bytes.Equal(out, want))
	sel := tsslib.Hash([]byte(order.OrderRoute()))[:4]
	vs.Assert("routed-output-is-selector-tag-message", bytes.Equal(routed, append(append([]byte{}, sel...), want...)))
	vs.Assert("route-is-tss", order.OrderRoute() == "tss")
	vs.Assert("text-is-not-internal", !order.IsInternal())
	vs.Reach("encoded", true)
	vs.Reach("encoded-at-limit", uint64(len(msg)) == p.MaxMessageLength)
}
