//go:build verif

package tss

import (
	sdk "github.com/cosmos/cosmos-sdk/types"

	vs "github.com/bandprotocol/chain/v3/vsupport"
	"github.com/bandprotocol/chain/v3/x/tss/keeper"
)

func init() { vs.RegisterHarness("VerifC10EndBlocker", VerifC10EndBlocker) }

// VerifC10EndBlocker: the module's EndBlocker (no pending or expiring groups) from an arbitrary signing state:
// same specification as keeper.VerifC10EndBlockOne.
func VerifC10EndBlocker() {
	keeper.VerifC10EndBlockWith(func(ctx sdk.Context, k *keeper.Keeper) {
		vs.Assert("end-blocker-no-error", EndBlocker(ctx, k) == nil)
	})
}
