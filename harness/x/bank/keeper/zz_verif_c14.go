//go:build verif

package keeper

import (
	"context"
	"math/big"

	"cosmossdk.io/log"
	sdkmath "cosmossdk.io/math"

	sdk "github.com/cosmos/cosmos-sdk/types"
	sdkerrors "github.com/cosmos/cosmos-sdk/types/errors"
	authtypes "github.com/cosmos/cosmos-sdk/x/auth/types"
	bankkeeper "github.com/cosmos/cosmos-sdk/x/bank/keeper"

	vs "github.com/bandprotocol/chain/v3/vsupport"
	"github.com/bandprotocol/chain/v3/vsupport/venv"
)

func init() {
	vs.RegisterHarness("VerifC14BurnCoins", VerifC14BurnCoins)
}

var c14Denoms = []string{"uband", "uusd"}

var c14One18 = new(big.Int).Exp(big.NewInt(10), big.NewInt(18), nil)

func c14Int(c sdk.Coins, denom string) *big.Int { return c.AmountOf(denom).BigInt() }

// c14Bank is the wrapped SDK bank keeper as ledgers: balances (venv.Bank) and total supply. BurnCoins
// mirrors the SDK's BaseKeeper.BurnCoins (permission check, debit, supply decrease). Any other method
// of the embedded nil interface is unreachable from the code under test.
type c14Bank struct {
	bankkeeper.Keeper
	L      *venv.Bank
	Supply sdk.Coins
	Auth   venv.AuthM
	Burns  int
}

func (b *c14Bank) BurnCoins(ctx context.Context, moduleName string, amounts sdk.Coins) error {
	acc := b.Auth.GetModuleAccount(ctx, moduleName)
	if acc == nil {
		panic("module account does not exist")
	}
	if !acc.HasPermission(authtypes.Burner) {
		panic("module account does not have permissions to burn tokens")
	}
	rest, neg := b.L.Get(acc.GetAddress()).SafeSub(amounts...)
	if neg {
		return sdkerrors.ErrInsufficientFunds
	}
	b.L.Set(acc.GetAddress(), rest)
	b.Supply = b.Supply.Sub(amounts...)
	b.Burns++
	return nil
}

// VerifC14BurnCoins: one BurnCoins call on the wrapped bank keeper from an arbitrary module balance.
func VerifC14BurnCoins() {
	nDenoms := vs.Param("denoms")
	const mod = "oracle" // any module other than distribution

	ledger := venv.NewBank()
	auth := venv.AuthM{Perms: map[string][]string{}, Missing: map[string]bool{}}
	inner := &c14Bank{L: ledger, Auth: auth}
	distr := venv.NewDistr(ledger, sdkmath.LegacyZeroDec())
	ctx := sdk.Context{}.WithContext(context.Background())

	w := NewWrappedBankKeeperBurnToCommunityPool(inner, auth, log.NewNopLogger())

	// 0: redirect (distr keeper set, burner module other than distribution)
	// 1: the distribution module itself burns   2: distr keeper never set
	// 3: module lacks the burner permission      4: module account does not exist
	scenario := vs.Pick("scenario", 5)
	if scenario != 2 {
		w.SetDistrKeeper(distr)
	}
	burner := mod
	if scenario == 1 {
		burner = venv.DistrModule
	}
	if scenario != 3 {
		auth.Perms[burner] = []string{authtypes.Burner}
	}
	if scenario == 4 {
		auth.Missing[burner] = true
	}

	// ---- ledgers before
	burnerAddr := venv.ModuleAddr(burner)
	distrAddr := venv.ModuleAddr(venv.DistrModule)
	var balC, amtC, supC []sdk.Coin
	bal := make([]*big.Int, nDenoms)
	amt := make([]*big.Int, nDenoms)
	other := make([]*big.Int, nDenoms) // coins held elsewhere (rest of the supply)
	for d := 0; d < nDenoms; d++ {
		bal[d] = vs.BigU("module_balance", 128)
		amt[d] = vs.BigU("burn_amount", 128)
		other[d] = vs.BigU("other_supply", 128)
		balC = append(balC, sdk.NewCoin(c14Denoms[d], sdkmath.NewIntFromBigInt(bal[d])))
		amtC = append(amtC, sdk.NewCoin(c14Denoms[d], sdkmath.NewIntFromBigInt(amt[d])))
		supC = append(supC, sdk.NewCoin(c14Denoms[d], sdkmath.NewIntFromBigInt(new(big.Int).Add(bal[d], other[d]))))
	}
	bal0 := sdk.NewCoins(balC...)
	amount := sdk.NewCoins(amtC...)
	supply0 := sdk.NewCoins(supC...)
	ledger.Set(burnerAddr, bal0)
	inner.Supply = supply0
	pool0 := distr.Pool

	enough := true
	for d := 0; d < nDenoms; d++ {
		enough = vs.And(enough, amt[d].Cmp(bal[d]) <= 0)
	}

	// ---- the step
	if scenario >= 3 {
		vs.ExpectPanic(true)
	}
	err := w.BurnCoins(ctx, burner, amount)
	if scenario >= 3 {
		vs.ExpectPanic(false)
		vs.Assert("unauthorised-burn-panics", false)
		return
	}

	// ---- oracles
	vs.Assert("succeeds-iff-funded", (err == nil) == enough)
	bal1 := ledger.Get(burnerAddr)
	distrBal1 := ledger.Get(distrAddr)
	if err != nil {
		vs.Reach("insufficient-funds", true)
		for d := 0; d < nDenoms; d++ {
			dn := c14Denoms[d]
			vs.Assert("rejected-balance-unchanged", c14Int(bal1, dn).Cmp(bal[d]) == 0)
			vs.Assert("rejected-supply-unchanged", c14Int(inner.Supply, dn).Cmp(c14Int(supply0, dn)) == 0)
			vs.Assert("rejected-pool-unchanged", distr.Pool.AmountOf(dn).BigInt().Cmp(pool0.AmountOf(dn).BigInt()) == 0)
		}
		return
	}
	switch scenario {
	case 0:
		vs.Reach("redirected", true)
		vs.Assert("redirect-no-real-burn", inner.Burns == 0)
		for d := 0; d < nDenoms; d++ {
			dn := c14Denoms[d]
			vs.Assert("redirect-supply-unchanged", c14Int(inner.Supply, dn).Cmp(c14Int(supply0, dn)) == 0)
			vs.Assert("redirect-module-debited", c14Int(bal1, dn).Cmp(new(big.Int).Sub(bal[d], amt[d])) == 0)
			vs.Assert("redirect-distribution-credited", c14Int(distrBal1, dn).Cmp(amt[d]) == 0)
			vs.Assert("redirect-community-pool-credited",
				distr.Pool.AmountOf(dn).BigInt().Cmp(new(big.Int).Mul(amt[d], c14One18)) == 0)
		}
	default:
		vs.Reach("really-burned", true)
		vs.Reach("distribution-burns-itself", scenario == 1)
		vs.Reach("distr-keeper-unset", scenario == 2)
		vs.Assert("burn-once", inner.Burns == 1 && distr.Funds == 0)
		for d := 0; d < nDenoms; d++ {
			dn := c14Denoms[d]
			vs.Assert("burn-supply-decreases", c14Int(inner.Supply, dn).Cmp(other[d].Add(other[d], new(big.Int).Sub(bal[d], amt[d]))) == 0)
			vs.Assert("burn-module-debited", c14Int(bal1, dn).Cmp(new(big.Int).Sub(bal[d], amt[d])) == 0)
			vs.Assert("burn-pool-unchanged", distr.Pool.AmountOf(dn).BigInt().Sign() == 0)
		}
	}
}
