//go:build verif

package keeper

import (
	"bytes"
	"time"

	storetypes "cosmossdk.io/store/types"

	sdk "github.com/cosmos/cosmos-sdk/types"

	"github.com/bandprotocol/chain/v3/pkg/tss"
	vs "github.com/bandprotocol/chain/v3/vsupport"
	"github.com/bandprotocol/chain/v3/vsupport/venv"
	"github.com/bandprotocol/chain/v3/x/bandtss/types"
	tsstypes "github.com/bandprotocol/chain/v3/x/tss/types"
)

// Shared environment of the group-transition harnesses (C18).
//
// Identifier policy: group ids, signing ids, member addresses and public keys are concrete and pairwise
// distinct (they are only compared for equality); times, flags, statuses, thresholds are symbolic.
//
// Universe: tss groups 1..3 exist (c18G1 = the current group if there is one, c18G2 = the incoming group of
// the transition if there is one, c18G3 = an unrelated group), c18G4 does not exist yet (the next id that
// CreateGroup hands out). tss signings 1..c18TssCount exist: c18SidTr is the hand-over signing of the
// transition, c18SidMapped belongs to an ordinary bandtss signing request, c18SidOther is unrelated.

const (
	c18G1 = tss.GroupID(1)
	c18G2 = tss.GroupID(2)
	c18G3 = tss.GroupID(3)
	c18G4 = tss.GroupID(4)

	c18TssCount  = 5
	c18SidTr     = tss.SigningID(1)
	c18SidMapped = tss.SigningID(2)
	c18SidInc    = tss.SigningID(3) // incoming-group twin of c18SidMapped (when present)
	c18SidOther  = tss.SigningID(4)

	c18BandtssSigning = types.SigningID(1)
)

// transition kinds of the pre-state
const (
	c18TrNone = iota
	c18TrCreating
	c18TrWaitingSign
	c18TrWaitingExec      // reached through the protocol (signed hand-over, or no current group)
	c18TrWaitingExecForce // reached through MsgForceTransitionGroup
	c18TrKinds
)

// c18T is an instant: unix seconds + nanoseconds.
type c18T struct{ sec, ns int64 }

func (t c18T) time() time.Time { return time.Unix(t.sec, t.ns).UTC() }

// before: t < u (specification side, branch-free).
func (t c18T) before(u c18T) bool {
	return vs.Or(t.sec < u.sec, vs.And(t.sec == u.sec, t.ns < u.ns))
}
func (t c18T) eq(u c18T) bool { return vs.And(t.sec == u.sec, t.ns == u.ns) }

// add adds a concrete duration (specification side).
func (t c18T) add(d time.Duration) c18T {
	s := t.sec + int64(d/time.Second)
	n := t.ns + int64(d%time.Second)
	carry := n >= 1000000000
	return c18T{sec: vs.IteI64(carry, s+1, s), ns: vs.IteI64(carry, n-1000000000, n)}
}

func c18TimeIs(got time.Time, want c18T) bool {
	return vs.And(got.Unix() == want.sec, int64(got.Nanosecond()) == want.ns)
}

func c18Time(label string) c18T {
	s := vs.I64(label + "_sec")
	n := vs.I64(label + "_nsec")
	vs.Assume(s >= 1)
	vs.Assume(s < 1<<32)
	vs.Assume(n >= 0)
	vs.Assume(n < 1000000000)
	return c18T{s, n}
}

func c18PK(g tss.GroupID) tss.Point {
	b := make([]byte, 33)
	b[0] = 0x02
	for i := 1; i < 33; i++ {
		b[i] = byte(0x10*int(g) + i)
	}
	return tss.Point(b)
}

// c18Addrs: the member addresses of a group (concrete; G1 and G2 overlap in accounts 2 and 3).
func c18Addrs(g tss.GroupID, n int) []sdk.AccAddress {
	var idx []int
	switch g {
	case c18G1:
		idx = []int{1, 2, 3}
	case c18G2:
		idx = []int{2, 3, 4}
	default:
		idx = []int{1, 5, 6}
	}
	out := make([]sdk.AccAddress, 0, n)
	for i := 0; i < n; i++ {
		out = append(out, venv.Addr(idx[i]))
	}
	return out
}

type c18Mem struct {
	addr   sdk.AccAddress
	group  tss.GroupID
	active bool
	since  c18T
}

type c18Tr struct {
	status   types.TransitionStatus
	exec     c18T
	signing  tss.SigningID
	cur, inc tss.GroupID
	curPK    tss.Point
	incPK    tss.Point
	force    bool
}

// c18State is the specification-side copy of the complete observable bandtss transition state.
type c18State struct {
	now      c18T
	cur      tss.GroupID
	curSince c18T
	hasTr    bool
	tr       c18Tr
	mem      []c18Mem
	mapped   map[tss.SigningID]types.SigningID // SigningIDMapping entries
	tssCount uint64                            // tss signings that exist (fake's store)
	nGroup   [5]int                            // member count of tss group g
}

type c18Env struct {
	ctx       sdk.Context
	k         Keeper
	bank      *venv.Bank
	tss       *venv.TSSGroups
	authority sdk.AccAddress
	module    sdk.AccAddress
}

func c18Setup() *c18Env {
	key := storetypes.NewKVStoreKey(types.StoreKey)
	tssKey := storetypes.NewKVStoreKey(tsstypes.StoreKey)
	ctx := venv.NewContext(key, tssKey)
	bank := venv.NewBank()
	tk := venv.NewTSSGroups(tssKey)
	authority := venv.Addr(9)
	k := NewKeeper(venv.Codec(), key, venv.ModuleAuth{}, bank, nil, tk, authority.String(), "fee_collector")
	return &c18Env{ctx: ctx, k: k, bank: bank, tss: tk, authority: authority, module: venv.ModuleAddr(types.ModuleName)}
}

// c18Opts restricts the pre-state shapes a harness enumerates.
type c18Opts struct {
	kinds     []int // transition kinds to enumerate (nil = all)
	g2Active  bool  // call-site precondition of OnGroupCreationCompleted for G2: tss has just set it ACTIVE
	g3Active  bool
	trSignOK  bool // call-site precondition of OnSigningCompleted: the hand-over signing is SUCCESS
	withMapped bool // an ordinary bandtss signing (tss signing c18SidMapped [+ c18SidInc]) exists
	mappedFee  sdk.Coins // FeePerSigner of that ordinary signing
	mappedInc  bool      // it also has an incoming-group twin signing c18SidInc
	thrConcrete bool     // thresholds = group size (concrete) instead of symbolic in 1..size
	// sizes(kind): enumerate the member counts of groups 1 and 2 for this transition kind (else 1 member each)
	sizes func(kind int) bool
	// defSize: the member count of groups 1 and 2 when sizes are not enumerated (0 = 1)
	defSize int
}

func c18Status(label string) tsstypes.GroupStatus {
	s := vs.I32(label)
	vs.Assume(s >= int32(tsstypes.GROUP_STATUS_ROUND_1))
	vs.Assume(s <= int32(tsstypes.GROUP_STATUS_FALLEN))
	return tsstypes.GroupStatus(s)
}

func c18Threshold(label string, n int, concrete bool) uint64 {
	if concrete {
		return uint64(n)
	}
	t := vs.U64(label)
	vs.Assume(t >= 1)
	vs.Assume(t <= uint64(n))
	return t
}

// c18SetParams stores the module parameters. The transition window comes from a small concrete table (the
// window check adds the durations to a symbolic block time; nanosecond, sub-second carry, day-sized and
// inverted windows are present); Params.Validate (positive durations) holds for every entry. nPairs = how
// many table rows the harness enumerates.
func c18SetParams(e *c18Env, fee sdk.Coins, nPairs int) (minD, maxD time.Duration) {
	table := [][2]time.Duration{
		{1500 * time.Millisecond, 2500 * time.Millisecond},
		{1, time.Second},
		{24 * time.Hour, 7 * 24 * time.Hour},
		{time.Second, time.Second},
		{1500 * time.Millisecond, time.Second}, // inverted: nothing is acceptable
	}
	row := 0
	if nPairs > 1 {
		row = vs.Pick("transition_window", nPairs)
	}
	minD, maxD = table[row][0], table[row][1]
	p := types.NewParams(types.DefaultRewardPercentage, types.DefaultInactivePenaltyDuration, minD, maxD, fee)
	if err := e.k.SetParams(e.ctx, p); err != nil {
		panic(err)
	}
	return
}

// c18Build stores an arbitrary bounded state satisfying the module invariant (B1-B5, see c18Check) with the
// real setters and returns its specification-side copy.
func c18Build(e *c18Env, o c18Opts) *c18State {
	k := e.k
	m := &c18State{mapped: map[tss.SigningID]types.SigningID{}, tssCount: c18TssCount}
	maxN := vs.Param("max_members")

	m.now = c18Time("now")
	e.ctx = e.ctx.WithBlockTime(m.now.time()).WithBlockHeight(100)
	ctx := e.ctx

	// ---- shapes
	hasCur := vs.Bool("has_current_group")
	kind := c18TrNone
	if o.kinds == nil {
		kind = vs.Pick("transition_kind", c18TrKinds)
	} else {
		kind = o.kinds[vs.Pick("transition_kind", len(o.kinds))]
	}
	if kind == c18TrWaitingSign {
		vs.Assume(hasCur) // B2: the hand-over message is signed by the current group
	}
	n1, n2 := 1, 1
	if o.defSize > 0 {
		n1, n2 = o.defSize, o.defSize
	}
	if o.sizes == nil || o.sizes(kind) {
		n1 = 1 + vs.Pick("g1_members", maxN)
		n2 = 1 + vs.Pick("g2_members", maxN)
	}
	m.nGroup[1], m.nGroup[2], m.nGroup[3] = n1, n2, 1

	// ---- tss groups
	st1, st2, st3 := c18Status("g1_status"), c18Status("g2_status"), c18Status("g3_status")
	if hasCur {
		vs.Assume(st1 == tsstypes.GROUP_STATUS_ACTIVE) // B4
	}
	switch kind {
	case c18TrCreating:
		if !o.g2Active {
			// between blocks the incoming group is still in DKG; inside the tss end-blocker it may already be
			// ACTIVE / FALLEN / EXPIRED: every status is allowed here
		}
	case c18TrWaitingSign, c18TrWaitingExec, c18TrWaitingExecForce:
		vs.Assume(st2 == tsstypes.GROUP_STATUS_ACTIVE) // B2
	}
	if o.g2Active {
		vs.Assume(st2 == tsstypes.GROUP_STATUS_ACTIVE)
	}
	if o.g3Active {
		vs.Assume(st3 == tsstypes.GROUP_STATUS_ACTIVE)
	}
	e.tss.PutGroup(tsstypes.Group{ID: c18G1, Threshold: c18Threshold("g1_threshold", n1, o.thrConcrete), PubKey: c18PK(c18G1),
		Status: st1, CreatedHeight: 10, ModuleOwner: types.ModuleName}, c18Addrs(c18G1, n1))
	e.tss.PutGroup(tsstypes.Group{ID: c18G2, Threshold: c18Threshold("g2_threshold", n2, o.thrConcrete), PubKey: c18PK(c18G2),
		Status: st2, CreatedHeight: 20, ModuleOwner: types.ModuleName}, c18Addrs(c18G2, n2))
	e.tss.PutGroup(tsstypes.Group{ID: c18G3, Threshold: 1, PubKey: c18PK(c18G3),
		Status: st3, CreatedHeight: 30, ModuleOwner: types.ModuleName}, c18Addrs(c18G3, 1))
	e.tss.SetSigningCount(ctx, c18TssCount)

	// ---- current group and its members
	if hasCur {
		m.cur = c18G1
		m.curSince = c18Time("current_active_time")
		k.SetCurrentGroup(ctx, types.NewCurrentGroup(c18G1, m.curSince.time()))
		for _, a := range c18Addrs(c18G1, n1) {
			m.mem = append(m.mem, c18Mem{a, c18G1, vs.Bool("member_active"), c18Time("member_since")})
		}
	}

	// ---- transition
	if kind != c18TrNone {
		m.hasTr = true
		tr := c18Tr{exec: c18Time("exec_time"), cur: m.cur, inc: c18G2}
		if hasCur {
			tr.curPK = c18PK(c18G1)
		}
		switch kind {
		case c18TrCreating:
			tr.status = types.TRANSITION_STATUS_CREATING_GROUP
		case c18TrWaitingSign:
			tr.status = types.TRANSITION_STATUS_WAITING_SIGN
			tr.signing = c18SidTr
			tr.incPK = c18PK(c18G2)
		case c18TrWaitingExec:
			tr.status = types.TRANSITION_STATUS_WAITING_EXECUTION
			if hasCur {
				tr.signing = c18SidTr
			}
			tr.incPK = c18PK(c18G2)
		case c18TrWaitingExecForce:
			tr.status = types.TRANSITION_STATUS_WAITING_EXECUTION
			tr.incPK = c18PK(c18G2)
			tr.force = true
		}
		m.tr = tr
		k.SetGroupTransition(ctx, types.NewGroupTransition(tr.signing, tr.cur, tr.inc, tr.curPK, tr.incPK,
			tr.status, tr.exec.time(), tr.force))
		if tr.status == types.TRANSITION_STATUS_WAITING_EXECUTION {
			for _, a := range c18Addrs(c18G2, n2) {
				m.mem = append(m.mem, c18Mem{a, c18G2, vs.Bool("member_active"), c18Time("member_since")})
			}
		}
		if tr.signing != 0 {
			s := tsstypes.Signing{ID: c18SidTr, CurrentAttempt: 1, GroupID: c18G1, GroupPubKey: c18PK(c18G1),
				Status: tsstypes.SIGNING_STATUS_WAITING}
			if kind == c18TrWaitingExec || o.trSignOK {
				s.Status = tsstypes.SIGNING_STATUS_SUCCESS
				s.Signature = tss.Signature(make([]byte, 65))
			}
			e.tss.Signings[c18SidTr] = s
		}
	}
	for _, x := range m.mem {
		k.SetMember(ctx, types.NewMember(x.addr, x.group, x.active, x.since.time()))
	}

	// ---- an ordinary signing request in flight (B5: mapped ids belong to a stored bandtss signing)
	if o.withMapped {
		incSid := tss.SigningID(0)
		if o.mappedInc {
			incSid = c18SidInc
		}
		bs := types.NewSigning(c18BandtssSigning, o.mappedFee, venv.Addr(7), c18SidMapped, incSid)
		k.SetSigning(ctx, bs)
		k.SetSigningCount(ctx, uint64(c18BandtssSigning))
		k.SetSigningIDMapping(ctx, c18SidMapped, c18BandtssSigning)
		m.mapped[c18SidMapped] = c18BandtssSigning
		if o.mappedInc {
			k.SetSigningIDMapping(ctx, c18SidInc, c18BandtssSigning)
			m.mapped[c18SidInc] = c18BandtssSigning
		}
	}
	return m
}

// c18Check: the complete observable transition state equals the specification's post-state m, and the
// module invariant holds on it (inductive step):
//
//	B1 at most one transition (single store key) with CurrentGroupID = the current group, IncomingGroupID
//	   an existing tss group different from it; IsForceTransition only in WAITING_EXECUTION
//	B2 WAITING_SIGN => SigningID != 0 and a current group exists; WAITING_EXECUTION => incoming group ACTIVE
//	B3 bandtss Member(a,g) exists <=> a is a tss member of g and (g = current group or g = incoming group of
//	   a WAITING_EXECUTION transition); no other member records
//	B4 current group != 0 => its tss group is ACTIVE
//	B5 the hand-over signing of the transition is not in the SigningIDMapping
func c18Check(e *c18Env, m *c18State) {
	ctx, k := e.ctx, e.k

	cg := k.GetCurrentGroup(ctx)
	vs.Assert("current-group-id", cg.GroupID == m.cur)
	if m.cur != 0 {
		vs.Assert("current-group-active-time", c18TimeIs(cg.ActiveTime, m.curSince))
		g, err := e.tss.GetGroup(ctx, m.cur)
		vs.Assert("inv-current-group-exists", err == nil)
		vs.Assert("inv-current-group-active", g.Status == tsstypes.GROUP_STATUS_ACTIVE)
	}

	tr, found := k.GetGroupTransition(ctx)
	vs.Assert("transition-presence", found == m.hasTr)
	waitingExec := false
	if found && m.hasTr {
		w := m.tr
		vs.Assert("transition-status", tr.Status == w.status)
		vs.Assert("transition-exec-time", c18TimeIs(tr.ExecTime, w.exec))
		vs.Assert("transition-signing-id", tr.SigningID == w.signing)
		vs.Assert("transition-current-group", tr.CurrentGroupID == w.cur)
		vs.Assert("transition-incoming-group", tr.IncomingGroupID == w.inc)
		vs.Assert("transition-current-pubkey", bytes.Equal(tr.CurrentGroupPubKey, w.curPK))
		vs.Assert("transition-incoming-pubkey", bytes.Equal(tr.IncomingGroupPubKey, w.incPK))
		vs.Assert("transition-force-flag", tr.IsForceTransition == w.force)

		vs.Assert("inv-transition-of-current-group", tr.CurrentGroupID == cg.GroupID)
		vs.Assert("inv-incoming-differs", tr.IncomingGroupID != 0 && tr.IncomingGroupID != cg.GroupID)
		ig, err := e.tss.GetGroup(ctx, tr.IncomingGroupID)
		vs.Assert("inv-incoming-group-exists", err == nil)
		switch tr.Status {
		case types.TRANSITION_STATUS_CREATING_GROUP:
			vs.Assert("inv-creating-not-forced", !tr.IsForceTransition)
		case types.TRANSITION_STATUS_WAITING_SIGN:
			vs.Assert("inv-waiting-sign-has-signing", tr.SigningID != 0 && tr.CurrentGroupID != 0 && !tr.IsForceTransition)
			vs.Assert("inv-waiting-sign-incoming-active", ig.Status == tsstypes.GROUP_STATUS_ACTIVE)
		case types.TRANSITION_STATUS_WAITING_EXECUTION:
			waitingExec = true
			vs.Assert("inv-waiting-exec-incoming-active", ig.Status == tsstypes.GROUP_STATUS_ACTIVE)
		default:
			vs.Assert("inv-transition-status-known", false)
		}
		if tr.SigningID != 0 {
			vs.Assert("inv-handover-signing-not-mapped", k.GetSigningIDMapping(ctx, tr.SigningID) == 0)
		}
	}

	// members: exactly the specification's records ...
	stored := k.GetMembers(ctx)
	vs.Assert("member-count", len(stored) == len(m.mem))
	for _, w := range m.mem {
		got, err := k.GetMember(ctx, w.addr, w.group)
		vs.Assert("member-exists", err == nil)
		if err == nil {
			vs.Assert("member-address", got.Address == w.addr.String())
			vs.Assert("member-group", got.GroupID == w.group)
			vs.Assert("member-active-flag", got.IsActive == w.active)
			vs.Assert("member-since", c18TimeIs(got.Since, w.since))
		}
	}
	// ... and B3 directly on the store against the tss member tables
	want := 0
	for g := tss.GroupID(1); uint64(g) <= e.tss.GroupCount; g++ {
		should := g == cg.GroupID || (waitingExec && g == tr.IncomingGroupID)
		for _, tm := range e.tss.Members[g] {
			has := k.HasMember(ctx, sdk.MustAccAddressFromBech32(tm.Address), g)
			vs.Assert("inv-members-mirror-groups", has == should)
			if should {
				want++
			}
		}
	}
	vs.Assert("inv-no-stray-members", len(stored) == want)

	// signing id mapping
	for _, sid := range []tss.SigningID{c18SidTr, c18SidMapped, c18SidInc, c18SidOther, c18TssCount + 1, c18TssCount + 2} {
		vs.Assert("signing-id-mapping", k.GetSigningIDMapping(ctx, sid) == m.mapped[sid])
	}
	vs.Assert("tss-signing-count", e.tss.SigningCount(ctx) == m.tssCount)
}

func c18Member(addr sdk.AccAddress, g tss.GroupID, now c18T) c18Mem {
	return c18Mem{addr: addr, group: g, active: true, since: now}
}
