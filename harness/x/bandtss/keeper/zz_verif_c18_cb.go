//go:build verif

package keeper

import (
	"bytes"
	"errors"
	"math/big"

	sdkmath "cosmossdk.io/math"

	sdk "github.com/cosmos/cosmos-sdk/types"
	sdkerrors "github.com/cosmos/cosmos-sdk/types/errors"

	"github.com/bandprotocol/chain/v3/pkg/tss"
	vs "github.com/bandprotocol/chain/v3/vsupport"
	"github.com/bandprotocol/chain/v3/vsupport/venv"
	"github.com/bandprotocol/chain/v3/x/bandtss/types"
	tsstypes "github.com/bandprotocol/chain/v3/x/tss/types"
)

// C18, second part: the tss callbacks (x/bandtss/keeper/tss_callback.go) and signing requests made while a
// transition is in progress (keeper_signing.go createSigningRequest). The callbacks are invoked by the x/tss
// end-blocker; the call-site facts they rely on (x/tss/keeper/keeper_group_endblock.go,
// keeper_signing_endblock.go) are assumed as preconditions and listed in checks/C18.json.

func init() {
	vs.RegisterHarness("VerifC18GroupCreationCompleted", VerifC18GroupCreationCompleted)
	vs.RegisterHarness("VerifC18GroupCreationFailed", VerifC18GroupCreationFailed)
	vs.RegisterHarness("VerifC18SigningFailed", VerifC18SigningFailed)
	vs.RegisterHarness("VerifC18SigningCompleted", VerifC18SigningCompleted)
	vs.RegisterHarness("VerifC18RequestDuringTransition", VerifC18RequestDuringTransition)
	vs.RegisterHarness("VerifC18SigningTimeout", VerifC18SigningTimeout)
}

// VerifC18GroupCreationCompleted: x/tss reports that group gid finished key generation (it has just set the
// group ACTIVE with its public key).
func VerifC18GroupCreationCompleted() {
	e := c18Setup()
	c18SetParams(e, sdk.NewCoins(), 1)
	gid := []tss.GroupID{c18G2, c18G3}[vs.Pick("callback_group", 2)]
	m := c18Build(e, c18Opts{g2Active: gid == c18G2, g3Active: gid == c18G3})
	mine := m.hasTr && m.tr.inc == gid && m.tr.status == types.TRANSITION_STATUS_CREATING_GROUP
	if mine && m.cur != 0 {
		e.tss.FailSigning[m.cur] = vs.Bool("handover_signing_fails")
	}

	NewTSSCallback(e.k).OnGroupCreationCompleted(e.ctx, gid)

	vs.Assert("tss-creates-no-group", len(e.tss.Created) == 0)
	if !mine {
		// another group, no transition, or a transition that is past CREATING_GROUP: nothing happens
		vs.Reach("ignored-other-group", m.hasTr && m.tr.inc != gid)
		vs.Reach("ignored-no-transition", !m.hasTr)
		vs.Reach("ignored-wrong-status", m.hasTr && m.tr.inc == gid)
		vs.Assert("ignored-requests-no-signing", len(e.tss.SigningCalls) == 0)
		c18Check(e, m)
		return
	}
	if m.tr.exec.before(m.now) {
		// key generation finished after the deadline: the transition is left for the end-blocker to drop
		vs.Reach("ignored-after-exec-time", true)
		vs.Assert("ignored-requests-no-signing", len(e.tss.SigningCalls) == 0)
		c18Check(e, m)
		return
	}
	vs.Reach("in-time-exactly-at-exec-time", m.tr.exec.eq(m.now))
	m.tr.incPK = c18PK(gid)
	if m.cur == 0 {
		// no current group that could sign the hand-over: straight to WAITING_EXECUTION, members mirrored
		vs.Reach("first-group-waiting-execution", true)
		vs.Assert("first-group-requests-no-signing", len(e.tss.SigningCalls) == 0)
		m.tr.status = types.TRANSITION_STATUS_WAITING_EXECUTION
		for _, a := range c18Addrs(gid, m.nGroup[gid]) {
			m.mem = append(m.mem, c18Member(a, gid, m.now))
		}
		c18Check(e, m)
		return
	}
	// the current group is asked to sign (new public key, exec time)
	vs.Assert("one-handover-signing-request", len(e.tss.SigningCalls) == 1)
	call := e.tss.SigningCalls[0]
	vs.Assert("handover-signed-by-current-group", call.GroupID == m.cur)
	order, isOrder := call.Content.(*types.GroupTransitionSignatureOrder)
	vs.Assert("handover-content-type", isOrder)
	if isOrder {
		vs.Assert("handover-content-pubkey", bytes.Equal(order.PubKey, c18PK(gid)))
		vs.Assert("handover-content-time", c18TimeIs(order.TransitionTime, m.tr.exec))
	}
	if e.tss.FailSigning[m.cur] {
		// the signing cannot be created: the transition is dropped, the tss writes of the failed attempt are
		// discarded with the cache context
		vs.Reach("dropped-signing-request-failed", true)
		m.hasTr = false
		c18Check(e, m)
		return
	}
	vs.Reach("waiting-sign", true)
	m.tr.status = types.TRANSITION_STATUS_WAITING_SIGN
	m.tr.signing = tss.SigningID(c18TssCount + 1)
	m.tssCount = c18TssCount + 1
	vs.Assert("handover-signing-id-returned", call.SigningID == m.tr.signing)
	vs.Assert("handover-signing-committed", e.tss.SigningGroup(e.ctx, m.tr.signing) == m.cur)
	c18Check(e, m)
}

// VerifC18GroupCreationFailed: x/tss reports that key generation of group gid failed or expired.
func VerifC18GroupCreationFailed() {
	e := c18Setup()
	c18SetParams(e, sdk.NewCoins(), 1)
	gid := []tss.GroupID{c18G2, c18G3}[vs.Pick("callback_group", 2)]
	expired := vs.Bool("expired")
	m := c18Build(e, c18Opts{sizes: func(int) bool { return false }})

	if expired {
		NewTSSCallback(e.k).OnGroupCreationExpired(e.ctx, gid)
	} else {
		NewTSSCallback(e.k).OnGroupCreationFailed(e.ctx, gid)
	}

	vs.Assert("requests-no-signing", len(e.tss.SigningCalls) == 0)
	mine := m.hasTr && m.tr.inc == gid && m.tr.status == types.TRANSITION_STATUS_CREATING_GROUP
	if mine {
		vs.Reach("dropped-failed", !expired)
		vs.Reach("dropped-expired", expired)
		m.hasTr = false
	} else {
		vs.Reach("ignored-other-group", m.hasTr && m.tr.inc != gid)
		vs.Reach("ignored-wrong-status", m.hasTr && m.tr.inc == gid)
		vs.Reach("ignored-no-transition", !m.hasTr)
	}
	c18Check(e, m)
}

func c18PickSid() tss.SigningID {
	return []tss.SigningID{c18SidTr, c18SidMapped, c18SidInc, c18SidOther}[vs.Pick("callback_signing", 4)]
}

// VerifC18SigningFailed: x/tss reports that signing sid failed for good.
func VerifC18SigningFailed() {
	e := c18Setup()
	c18SetParams(e, sdk.NewCoins(), 1)
	sid := c18PickSid()
	m := c18Build(e, c18Opts{withMapped: true, mappedInc: vs.Bool("mapped_has_incoming_twin"),
		sizes: func(int) bool { return false }})

	NewTSSCallback(e.k).OnSigningFailed(e.ctx, sid)

	vs.Assert("requests-no-signing", len(e.tss.SigningCalls) == 0)
	if m.mapped[sid] != 0 {
		// an ordinary request: only its mapping goes away
		vs.Reach("mapping-deleted", true)
		delete(m.mapped, sid)
		c18Check(e, m)
		return
	}
	if m.hasTr && m.tr.signing == sid && m.tr.status == types.TRANSITION_STATUS_WAITING_SIGN {
		// the current group did not sign the hand-over: the transition is dropped
		vs.Reach("dropped-handover-not-signed", true)
		m.hasTr = false
		c18Check(e, m)
		return
	}
	vs.Reach("ignored-unrelated-signing", sid == c18SidOther)
	vs.Reach("ignored-handover-signing-of-later-status", m.hasTr && m.tr.signing == sid)
	c18Check(e, m)
}

// VerifC18SigningCompleted: x/tss reports that signing sid succeeded (it has stored the signature first).
func VerifC18SigningCompleted() {
	e := c18Setup()
	c18SetParams(e, sdk.NewCoins(), 1)
	sid := c18PickSid()
	twin := vs.Bool("mapped_has_incoming_twin")
	// the fee of the ordinary request: when the completed signing is its incoming-group twin the fee is an
	// arbitrary positive amount (nothing may be paid for it); the payout for the current-group signing is C13
	fee := sdk.NewCoins()
	if sid == c18SidInc && twin {
		a := vs.BigU("fee_per_signer", 64)
		vs.Assume(a.Sign() > 0)
		fee = sdk.Coins{sdk.Coin{Denom: "uband", Amount: sdkmath.NewIntFromBigInt(a)}}
	}
	m := c18Build(e, c18Opts{withMapped: true, mappedInc: twin, mappedFee: fee, trSignOK: true})
	escrow := vs.BigU("module_balance", 64)
	vs.Assume(escrow.Sign() > 0)
	e.bank.Set(e.module, sdk.Coins{sdk.Coin{Denom: "uband", Amount: sdkmath.NewIntFromBigInt(escrow)}})
	assigned := []sdk.AccAddress{venv.Addr(2)}

	NewTSSCallback(e.k).OnSigningCompleted(e.ctx, sid, assigned)

	vs.Assert("requests-no-signing", len(e.tss.SigningCalls) == 0)
	vs.Assert("nothing-paid", e.bank.Sends == 0)
	vs.Assert("module-balance-unchanged", e.bank.Get(e.module).AmountOf("uband").BigInt().Cmp(escrow) == 0)
	if m.mapped[sid] != 0 {
		vs.Reach("mapping-deleted", true)
		vs.Reach("incoming-twin-unpaid", sid == c18SidInc)
		delete(m.mapped, sid)
		c18Check(e, m)
		return
	}
	if m.hasTr && m.tr.signing == sid && m.tr.status == types.TRANSITION_STATUS_WAITING_SIGN {
		// the current group signed the hand-over: members of the incoming group are mirrored, WAITING_EXECUTION
		vs.Reach("handover-signed-waiting-execution", true)
		m.tr.status = types.TRANSITION_STATUS_WAITING_EXECUTION
		for _, a := range c18Addrs(m.tr.inc, m.nGroup[m.tr.inc]) {
			m.mem = append(m.mem, c18Member(a, m.tr.inc, m.now))
		}
		c18Check(e, m)
		return
	}
	vs.Reach("ignored-unrelated-signing", sid == c18SidOther)
	vs.Reach("ignored-duplicate-handover-completion", m.hasTr && m.tr.signing == sid)
	c18Check(e, m)
}

// VerifC18RequestDuringTransition: a signing request (keeper entry point behind MsgRequestSignature) in every
// transition state. Only a WAITING_EXECUTION transition adds a best-effort, unpaid signing by the incoming
// group; its failure never fails the request and leaves no trace.
func VerifC18RequestDuringTransition() {
	e := c18Setup()
	byAuthority := vs.Bool("sender_is_authority")
	fee := sdk.NewCoins()
	feeAmt := big.NewInt(0)
	if !byAuthority {
		feeAmt = vs.BigU("fee_per_signer", 64)
		vs.Assume(feeAmt.Sign() > 0)
		fee = sdk.Coins{sdk.Coin{Denom: "uband", Amount: sdkmath.NewIntFromBigInt(feeAmt)}}
	}
	c18SetParams(e, fee, 1)
	m := c18Build(e, c18Opts{thrConcrete: true,
		sizes: func(kind int) bool { return !byAuthority && (kind == c18TrNone || kind == c18TrWaitingExec) }})
	ctx := e.ctx

	sender := venv.Addr(7)
	if byAuthority {
		sender = e.authority
	}
	bal := vs.BigU("sender_balance", 96)
	lim := vs.BigU("fee_limit", 96)
	vs.Assume(bal.Sign() > 0)
	vs.Assume(lim.Sign() > 0)
	e.bank.Set(sender, sdk.Coins{sdk.Coin{Denom: "uband", Amount: sdkmath.NewIntFromBigInt(bal)}})
	limit := sdk.Coins{sdk.Coin{Denom: "uband", Amount: sdkmath.NewIntFromBigInt(lim)}}

	inc := tss.GroupID(0)
	if m.hasTr && m.tr.status == types.TRANSITION_STATUS_WAITING_EXECUTION {
		inc = m.tr.inc
	}
	failCur, failInc := false, false
	if m.cur != 0 {
		failCur = vs.Bool("current_signing_fails")
		e.tss.FailSigning[m.cur] = failCur
	}
	if inc != 0 && !failCur {
		failInc = vs.Bool("incoming_signing_fails")
		e.tss.FailSigning[inc] = failInc
	}

	id, err := e.k.CreateDirectSigningRequest(ctx, tsstypes.NewTextSignatureOrder([]byte("c18")), "memo", sender, limit)

	vs.Assert("tss-creates-no-group", len(e.tss.Created) == 0)
	calls := e.tss.SigningCalls
	if m.cur == 0 && inc == 0 {
		vs.Reach("rejected-no-group", true)
		vs.Assert("no-group-error", errors.Is(err, types.ErrNoActiveGroup))
		vs.Assert("no-group-requests-no-signing", len(calls) == 0)
		c18Check(e, m)
		return
	}
	// fee = fee per signer x threshold of the CURRENT group only
	total := big.NewInt(0)
	if m.cur != 0 && !byAuthority {
		total = new(big.Int).Mul(feeAmt, big.NewInt(int64(m.nGroup[m.cur])))
		if total.Cmp(lim) > 0 {
			vs.Reach("rejected-fee-above-limit", true)
			vs.Assert("fee-limit-error", errors.Is(err, types.ErrFeeExceedsLimit))
			vs.Assert("fee-limit-requests-no-signing", len(calls) == 0)
			c18Check(e, m)
			return
		}
		if total.Cmp(bal) > 0 {
			vs.Reach("rejected-insufficient-funds", true)
			vs.Assert("funds-error", errors.Is(err, sdkerrors.ErrInsufficientFunds))
			vs.Assert("funds-requests-no-signing", len(calls) == 0)
			c18Check(e, m)
			return
		}
	}
	if failCur {
		// the current group's signing is mandatory; the incoming group is not even asked
		vs.Reach("rejected-current-signing-failed", true)
		vs.Assert("current-failure-fails-request", errors.Is(err, tsstypes.ErrInsufficientSigners))
		vs.Assert("current-failure-skips-incoming", len(calls) == 1 && calls[0].GroupID == m.cur)
		return // partial writes (fee escrow, tss signing) are rolled back with the transaction
	}
	next := tss.SigningID(c18TssCount + 1)
	curSid, incSid := tss.SigningID(0), tss.SigningID(0)
	nCalls := 0
	if m.cur != 0 {
		curSid = next
		next++
		vs.Assert("current-group-asked-first", len(calls) > nCalls && calls[nCalls].GroupID == m.cur)
		nCalls++
	}
	if inc != 0 {
		vs.Assert("incoming-group-asked", len(calls) > nCalls && calls[nCalls].GroupID == inc)
		nCalls++
		if !failInc {
			incSid = next
			next++
		}
	}
	vs.Assert("no-other-signing-requested", len(calls) == nCalls)
	if curSid == 0 && incSid == 0 {
		vs.Reach("rejected-only-incoming-and-it-failed", true)
		vs.Assert("no-signing-created-error", errors.Is(err, types.ErrNoActiveGroup))
		c18Check(e, m) // the failed attempt left nothing behind
		return
	}
	// ---- accepted; in particular a failing incoming-group signing cannot fail the request
	vs.Assert("accepted", err == nil)
	vs.Reach("accepted", true)
	vs.Reach("accepted-no-transition", !m.hasTr)
	vs.Reach("accepted-transition-not-ready-no-incoming-signing", m.hasTr && inc == 0)
	vs.Reach("accepted-both-groups", curSid != 0 && incSid != 0)
	vs.Reach("accepted-incoming-failed", curSid != 0 && inc != 0 && failInc)
	vs.Reach("accepted-incoming-only", curSid == 0 && incSid != 0)
	vs.Assert("bandtss-signing-id", id == c18BandtssSigning)
	bs, gerr := e.k.GetSigning(ctx, id)
	vs.Assert("bandtss-signing-stored", gerr == nil)
	vs.Assert("bandtss-signing-current-id", bs.CurrentGroupSigningID == curSid)
	vs.Assert("bandtss-signing-incoming-id", bs.IncomingGroupSigningID == incSid)
	vs.Assert("bandtss-signing-requester", bs.Requester == sender.String())
	paid := m.cur != 0 && !byAuthority
	if paid {
		vs.Assert("fee-per-signer-recorded", bs.FeePerSigner.AmountOf("uband").BigInt().Cmp(feeAmt) == 0)
	} else {
		vs.Assert("free-request-records-no-fee", bs.FeePerSigner.IsZero())
	}
	// escrow: exactly fee x current-group threshold, nothing for the incoming group
	vs.Assert("sender-charged-current-group-only",
		e.bank.Get(sender).AmountOf("uband").BigInt().Cmp(new(big.Int).Sub(bal, total)) == 0)
	vs.Assert("module-escrow", e.bank.Get(e.module).AmountOf("uband").BigInt().Cmp(total) == 0)
	// tss side: committed signings only
	if curSid != 0 {
		vs.Assert("current-signing-committed", e.tss.SigningGroup(ctx, curSid) == m.cur)
		m.mapped[curSid] = id
	}
	if incSid != 0 {
		vs.Assert("incoming-signing-committed", e.tss.SigningGroup(ctx, incSid) == inc)
		m.mapped[incSid] = id
	} else {
		vs.Assert("failed-incoming-signing-leaves-no-trace", e.tss.SigningGroup(ctx, next) == 0)
	}
	m.tssCount = uint64(next - 1)
	c18Check(e, m)
}

// VerifC18SigningTimeout: x/tss reports that a signing attempt of signing sid expired with idle members
// (member deactivation while a transition is in progress). Only IsActive/Since of existing, active member
// records of the signing's group change; membership, transition and current group stay; no panic.
func VerifC18SigningTimeout() {
	e := c18Setup()
	c18SetParams(e, sdk.NewCoins(), 1)
	sid := c18PickSid()
	m := c18Build(e, c18Opts{withMapped: true, mappedInc: true})
	// the groups of the signings (call-site fact: the signing exists): hand-over and ordinary current-group
	// signing by group 1, incoming twin by group 2, the unrelated one by group 3 (never mirrored in bandtss)
	g := map[tss.SigningID]tss.GroupID{c18SidTr: c18G1, c18SidMapped: c18G1, c18SidInc: c18G2, c18SidOther: c18G3}[sid]
	if _, ok := e.tss.Signings[sid]; !ok {
		e.tss.Signings[sid] = tsstypes.Signing{ID: sid, CurrentAttempt: 1, GroupID: g, Status: tsstypes.SIGNING_STATUS_WAITING}
	}
	// idle members: assigned members of that tss group (x/tss assigns only group members)
	all := c18Addrs(g, m.nGroup[g])
	idle := all[:1+vs.Pick("idle_members", len(all))]

	NewTSSCallback(e.k).OnSigningTimeout(e.ctx, sid, idle)

	vs.Assert("requests-no-signing", len(e.tss.SigningCalls) == 0)
	deactivated := 0
	for i := range m.mem {
		x := &m.mem[i]
		if x.group != g {
			continue
		}
		for _, a := range idle {
			if a.Equals(x.addr) && x.active {
				x.active = false
				x.since = m.now
				deactivated++
			}
		}
	}
	vs.Assert("tss-deactivations", len(e.tss.Deactivated) == deactivated)
	vs.Reach("deactivated-current-group-member", deactivated > 0 && g == m.cur)
	vs.Reach("deactivated-incoming-group-member", deactivated > 0 && g == c18G2 && g != m.cur)
	vs.Reach("nothing-to-deactivate", deactivated == 0)
	c18Check(e, m)
}
