//go:build verif

package keeper

import (
	"context"
	"errors"
	"time"

	"cosmossdk.io/math"
	storetypes "cosmossdk.io/store/types"

	sdk "github.com/cosmos/cosmos-sdk/types"

	"github.com/bandprotocol/chain/v3/pkg/tss"
	vs "github.com/bandprotocol/chain/v3/vsupport"
	"github.com/bandprotocol/chain/v3/vsupport/venv"
	"github.com/bandprotocol/chain/v3/x/bandtss/types"
	feedstypes "github.com/bandprotocol/chain/v3/x/feeds/types"
	oracletypes "github.com/bandprotocol/chain/v3/x/oracle/types"
	tsstypes "github.com/bandprotocol/chain/v3/x/tss/types"
	tunneltypes "github.com/bandprotocol/chain/v3/x/tunnel/types"
)

func init() {
	vs.RegisterHarness("VerifC11RequestSignatureGate", VerifC11RequestSignatureGate)
}

// ---- neighbours

type c11Distr struct{}

func (c11Distr) GetCommunityTax(ctx context.Context) (math.LegacyDec, error) {
	return math.LegacyZeroDec(), nil
}
func (c11Distr) FundCommunityPool(ctx context.Context, amount sdk.Coins, sender sdk.AccAddress) error {
	return nil
}

type c11Req struct {
	group      tss.GroupID
	originator tsstypes.Originator
	content    tsstypes.Content
}

// c11TSS records the signing requests handed to x/tss.
type c11TSS struct {
	threshold uint64
	reqs      []c11Req
}

func (t *c11TSS) RequestSigning(ctx sdk.Context, groupID tss.GroupID, originator tsstypes.Originator, content tsstypes.Content) (tss.SigningID, error) {
	t.reqs = append(t.reqs, c11Req{groupID, originator, content})
	return tss.SigningID(100 + len(t.reqs)), nil
}

func (t *c11TSS) GetGroup(ctx sdk.Context, groupID tss.GroupID) (tsstypes.Group, error) {
	return tsstypes.NewGroup(groupID, 5, t.threshold, nil, tsstypes.GROUP_STATUS_ACTIVE, 1, types.ModuleName), nil
}

func (t *c11TSS) CreateGroup(ctx sdk.Context, members []sdk.AccAddress, threshold uint64, moduleOwner string) (tss.GroupID, error) {
	panic("verif: unexpected CreateGroup")
}
func (t *c11TSS) MustGetMembers(ctx sdk.Context, groupID tss.GroupID) []tsstypes.Member {
	panic("verif: unexpected MustGetMembers")
}
func (t *c11TSS) GetMemberByAddress(ctx sdk.Context, groupID tss.GroupID, address string) (tsstypes.Member, error) {
	panic("verif: unexpected GetMemberByAddress")
}
func (t *c11TSS) ActivateMember(ctx sdk.Context, groupID tss.GroupID, address sdk.AccAddress) error {
	panic("verif: unexpected ActivateMember")
}
func (t *c11TSS) DeactivateMember(ctx sdk.Context, groupID tss.GroupID, address sdk.AccAddress) error {
	panic("verif: unexpected DeactivateMember")
}
func (t *c11TSS) GetDEQueue(ctx sdk.Context, address sdk.AccAddress) tsstypes.DEQueue {
	panic("verif: unexpected GetDEQueue")
}
func (t *c11TSS) MustGetGroup(ctx sdk.Context, groupID tss.GroupID) tsstypes.Group {
	panic("verif: unexpected MustGetGroup")
}
func (t *c11TSS) GetSigning(ctx sdk.Context, signingID tss.SigningID) (tsstypes.Signing, error) {
	panic("verif: unexpected GetSigning")
}
func (t *c11TSS) MustGetSigning(ctx sdk.Context, signingID tss.SigningID) tsstypes.Signing {
	panic("verif: unexpected MustGetSigning")
}
func (t *c11TSS) GetSigningResult(ctx sdk.Context, signingID tss.SigningID) (*tsstypes.SigningResult, error) {
	panic("verif: unexpected GetSigningResult")
}

// c11Kinds: the content kinds of the chain and whether the specification lets USERS request them through
// MsgRequestSignature. Tunnel packets and group transitions are produced only by their modules.
var c11Kinds = []struct {
	goType      string
	userAllowed bool
}{
	{"github.com/bandprotocol/chain/v3/x/bandtss/types.GroupTransitionSignatureOrder", false},
	{"github.com/bandprotocol/chain/v3/x/feeds/types.FeedsSignatureOrder", true},
	{"github.com/bandprotocol/chain/v3/x/oracle/types.OracleResultSignatureOrder", true},
	{"github.com/bandprotocol/chain/v3/x/tss/types.TextSignatureOrder", true},
	{"github.com/bandprotocol/chain/v3/x/tunnel/types.TunnelSignatureOrder", false},
}

func c11MakeContent(kind int) tsstypes.Content {
	switch kind {
	case 0:
		return types.NewGroupTransitionSignatureOrder(vs.Bytes("new_pub_key", 33), time.Unix(vs.I64("transition_time")%(1<<40), 0))
	case 1:
		return feedstypes.NewFeedSignatureOrder([]string{"BTC"}, feedstypes.Encoder(vs.Int("feeds_encoder", 0, 2)))
	case 2:
		return oracletypes.NewOracleResultSignatureOrder(oracletypes.RequestID(vs.U64("request_id")), oracletypes.Encoder(vs.Int("oracle_encoder", 0, 3)))
	case 3:
		return tsstypes.NewTextSignatureOrder(vs.Bytes("text", 2))
	}
	return tunneltypes.NewTunnelSignatureOrder(vs.U64("sequence"),
		[]feedstypes.Price{{SignalID: "BTC", Status: feedstypes.PRICE_STATUS_AVAILABLE, Price: vs.U64("packet_price"), Timestamp: vs.I64("price_ts")}},
		vs.I64("created_at"), feedstypes.Encoder(vs.Int("tunnel_encoder", 0, 2)))
}

// VerifC11RequestSignatureGate: MsgRequestSignature for every content kind of the chain.
//
//   - the kind list above is exactly the set of types implementing tsstypes.Content in the loaded program
//     (all packages under ./x are loaded; engine query);
//   - a kind the specification reserves for modules is refused with ErrContentNotAllowed before anything happens
//     (no x/tss request, no bandtss signing record, no fee), whoever the sender is; the same holds for every kind
//     that reports IsInternal();
//   - a user kind reaches x/tss exactly once, for the current group, with THIS content object and a
//     DirectOriginator made of the chain id, the sender and the memo of the message.
func VerifC11RequestSignatureGate() {
	if vs.Symbolic() {
		impl := vs.Implementors("github.com/bandprotocol/chain/v3/x/tss/types", "Content")
		same := len(impl) == len(c11Kinds)
		for i := range impl {
			if i < len(c11Kinds) {
				same = same && impl[i] == c11Kinds[i].goType
			}
		}
		vs.Assert("content-kind-list-is-complete", same)
	}

	key := storetypes.NewKVStoreKey(types.StoreKey)
	ctx := venv.NewContext(key).WithChainID("bandchain").WithBlockTime(time.Unix(1_700_000_000, 0))
	bank := venv.NewBank()
	tk := &c11TSS{threshold: uint64(vs.Int("threshold", 1, 5))}
	authority := venv.Addr(9)
	k := NewKeeper(venv.Codec(), key, venv.Auth{}, bank, c11Distr{}, tk, authority.String(), "fee_collector")
	p := types.DefaultParams()
	p.FeePerSigner = sdk.NewCoins()
	vs.Assume(k.SetParams(ctx, p) == nil)
	k.SetCurrentGroup(ctx, types.NewCurrentGroup(7, time.Unix(1, 0)))
	count := vs.U64("bandtss_signing_count")
	vs.Assume(count < 1<<63)
	k.SetSigningCount(ctx, count)

	sender := venv.Addr(1)
	if vs.Bool("sender_is_authority") {
		sender = authority
	}
	memo := string(vs.Bytes("memo", vs.Pick("memo_len", 3)))
	kind := vs.Pick("content_kind", len(c11Kinds))
	content := c11MakeContent(kind)

	msg, err := types.NewMsgRequestSignature(content, sdk.NewCoins(sdk.NewInt64Coin("uband", 1000)), sender.String())
	vs.Assert("message-built", err == nil)
	msg.Memo = memo
	_, err = NewMsgServerImpl(k).RequestSignature(ctx, msg)

	allowed := c11Kinds[kind].userAllowed
	vs.Assert("is-internal-matches-specification", content.IsInternal() == !allowed)
	if !allowed || content.IsInternal() {
		vs.Assert("module-kind-refused", errors.Is(err, types.ErrContentNotAllowed))
		vs.Assert("refused-nothing-requested", len(tk.reqs) == 0)
		vs.Assert("refused-no-record", k.GetSigningCount(ctx) == count)
		vs.Assert("refused-no-transfer", bank.Sends == 0)
		vs.Reach("module-kind-refused", true)
		return
	}
	vs.Assert("user-kind-accepted", err == nil)
	vs.Assert("one-tss-request", len(tk.reqs) == 1)
	if len(tk.reqs) != 1 {
		return
	}
	r := tk.reqs[0]
	vs.Assert("request-for-current-group", r.group == 7)
	vs.Assert("request-carries-this-content", r.content == content)
	o, ok := r.originator.(*tsstypes.DirectOriginator)
	vs.Assert("originator-is-direct", ok)
	if ok {
		vs.Assert("originator-chain-id", o.SourceChainID == "bandchain")
		vs.Assert("originator-requester-is-sender", o.Requester == sender.String())
		vs.Assert("originator-memo", o.Memo == memo)
	}
	vs.Assert("record-added", k.GetSigningCount(ctx) == count+1)
	vs.Reach("user-kind-accepted", true)
}
