//go:build verif

package keeper

import (
	"math/big"
	"time"

	sdkmath "cosmossdk.io/math"
	storetypes "cosmossdk.io/store/types"

	sdk "github.com/cosmos/cosmos-sdk/types"
	authtypes "github.com/cosmos/cosmos-sdk/x/auth/types"

	"github.com/bandprotocol/chain/v3/pkg/tss"
	vs "github.com/bandprotocol/chain/v3/vsupport"
	"github.com/bandprotocol/chain/v3/vsupport/venv"
	"github.com/bandprotocol/chain/v3/x/bandtss/types"
	tsstypes "github.com/bandprotocol/chain/v3/x/tss/types"
)

func init() {
	vs.RegisterHarness("VerifC14BandtssAllocate", VerifC14BandtssAllocate)
	vs.RegisterHarness("VerifC14BandtssRewardPercentageRange", VerifC14BandtssRewardPercentageRange)
}

var c14Denoms = []string{"uband", "uusd"}

var c14One18 = new(big.Int).Exp(big.NewInt(10), big.NewInt(18), nil)

func c14Dec(dc sdk.DecCoins, denom string) *big.Int { return dc.AmountOf(denom).BigInt() }
func c14Int(c sdk.Coins, denom string) *big.Int     { return c.AmountOf(denom).BigInt() }

// c14TSS is the part of the tss keeper that AllocateTokens reads: the member list of a group and the
// DE queue of an address. Every other method of the (nil) embedded interface is unreachable here.
type c14TSS struct {
	types.TSSKeeper
	gid     tss.GroupID
	members []tsstypes.Member
	de      map[string]tsstypes.DEQueue
}

func (t *c14TSS) MustGetMembers(ctx sdk.Context, groupID tss.GroupID) []tsstypes.Member {
	if groupID != t.gid {
		panic("unknown group")
	}
	return t.members
}

func (t *c14TSS) GetDEQueue(ctx sdk.Context, address sdk.AccAddress) tsstypes.DEQueue {
	return t.de[string(address)]
}

// VerifC14BandtssAllocate: one bandtss begin-block allocation from an arbitrary fee pool, member
// list (activity flags, DE queues), reward percentage and community tax.
func VerifC14BandtssAllocate() {
	nMembers := vs.Param("members")
	nDenoms := vs.Param("denoms")

	key := storetypes.NewKVStoreKey(types.StoreKey)
	ctx := venv.NewContext(key)
	cdc := venv.Codec()
	auth := venv.AuthM{}
	bank := venv.NewBank()

	taxUnits := vs.BigU("community_tax", 60)
	vs.Assume(taxUnits.Cmp(c14One18) <= 0)
	distr := venv.NewDistr(bank, sdkmath.LegacyNewDecFromBigIntWithPrec(taxUnits, sdkmath.LegacyPrecision))

	gid := tss.GroupID(7)
	tk := &c14TSS{gid: gid, de: map[string]tsstypes.DEQueue{}}
	k := NewKeeper(cdc, key, auth, bank, distr, tk, venv.Addr(9).String(), authtypes.FeeCollectorName)

	p := types.DefaultParams()
	pct := vs.U64("reward_percentage")
	p.RewardPercentage = pct
	vs.Assume(pct <= 100)
	vs.Assume(k.SetParams(ctx, p) == nil)

	hasGroup := vs.Bool("has_current_group")
	if hasGroup {
		k.SetCurrentGroup(ctx, types.NewCurrentGroup(gid, time.Unix(100, 0)))
	}

	// ---- members
	active := make([]bool, nMembers)
	head := make([]uint64, nMembers)
	tail := make([]uint64, nMembers)
	bal0 := make([]sdk.Coins, nMembers)
	for i := 0; i < nMembers; i++ {
		active[i] = vs.Bool("member_active")
		head[i] = vs.U64("de_head")
		tail[i] = vs.U64("de_tail")
		addr := venv.Addr(i + 1)
		tk.members = append(tk.members, tsstypes.Member{
			ID: tss.MemberID(i + 1), GroupID: gid, Address: addr.String(), IsActive: active[i],
		})
		tk.de[string(addr)] = tsstypes.DEQueue{Head: head[i], Tail: tail[i]}
		bal0[i] = sdk.Coins{}
		if i == 0 {
			// an arbitrary standing balance of the first member in the first denom
			b := vs.BigU("member_balance0", 128)
			vs.Assume(b.Sign() > 0)
			bal0[i] = sdk.NewCoins(sdk.NewCoin(c14Denoms[0], sdkmath.NewIntFromBigInt(b)))
			bank.Set(addr, bal0[i])
		}
	}

	// ---- ledgers before
	feeAddr := venv.ModuleAddr(authtypes.FeeCollectorName)
	distrAddr := venv.ModuleAddr(venv.DistrModule)
	var feeCoins []sdk.Coin
	for d := 0; d < nDenoms; d++ {
		feeCoins = append(feeCoins, sdk.NewCoin(c14Denoms[d], sdkmath.NewIntFromBigInt(vs.BigU("fee_pool", 128))))
	}
	fee0 := sdk.NewCoins(feeCoins...)
	bank.Set(feeAddr, fee0)

	// ---- the step
	err := k.AllocateTokens(ctx)
	vs.Assert("no-error", err == nil)
	if err != nil {
		return
	}

	// ---- oracles
	nValid := 0
	valid := make([]bool, nMembers)
	for i := 0; i < nMembers; i++ {
		if hasGroup && active[i] && tail[i] > head[i] {
			valid[i] = true
			nValid++
		}
	}
	fee1 := bank.Get(feeAddr)
	distrBal1 := bank.Get(distrAddr)

	if nValid == 0 {
		vs.Reach("nobody-eligible", true)
		vs.Assert("idle-no-transfer", bank.Sends == 0 && distr.Funds == 0)
		for d := 0; d < nDenoms; d++ {
			dn := c14Denoms[d]
			vs.Assert("idle-fee-collector-unchanged", c14Int(fee1, dn).Cmp(c14Int(fee0, dn)) == 0)
			vs.Assert("idle-pool-unchanged", c14Dec(distr.Pool, dn).Sign() == 0)
		}
		return
	}
	vs.Reach("allocated", true)
	vs.Reach("some-member-ineligible", nValid < nMembers)
	vs.Reach("all-members-eligible", nValid == nMembers)
	vs.Assert("no-validator-ledger-touched", distr.Allocs == 0)

	pctB := new(big.Int).SetUint64(pct)
	nB := big.NewInt(int64(nValid))
	// 1/n truncated to 18 decimals, as LegacyNewDec(1).QuoTruncate(n)
	fracN := new(big.Int).Quo(c14One18, nB)
	keep := new(big.Int).Sub(c14One18, taxUnits) // 1 - tax
	for d := 0; d < nDenoms; d++ {
		dn := c14Denoms[d]
		f0, f1 := c14Int(fee0, dn), c14Int(fee1, dn)
		moved := new(big.Int).Sub(f0, f1)
		share := new(big.Int).Quo(new(big.Int).Mul(f0, pctB), big.NewInt(100))
		vs.Assert("fee-collector-pays-truncated-share", moved.Cmp(share) == 0)

		// reference: trunc(trunc(trunc(share*(1-tax)) * trunc(1/n))) whole coins per eligible member
		afterTax := new(big.Int).Quo(new(big.Int).Mul(new(big.Int).Mul(moved, c14One18), keep), c14One18)
		perDec := new(big.Int).Quo(new(big.Int).Mul(afterTax, fracN), c14One18)
		per := new(big.Int).Quo(perDec, c14One18)

		paid := big.NewInt(0)
		for i := 0; i < nMembers; i++ {
			b1 := bank.Get(venv.Addr(i + 1))
			delta := new(big.Int).Sub(c14Int(b1, dn), c14Int(bal0[i], dn))
			paid = new(big.Int).Add(paid, delta)
			if valid[i] {
				vs.Assert("eligible-member-gets-equal-share", delta.Cmp(per) == 0)
			} else {
				vs.Assert("ineligible-member-gets-nothing", delta.Sign() == 0)
			}
		}
		// what is not paid to members stays in the distribution account and is credited to the pool
		rest := new(big.Int).Sub(moved, paid)
		vs.Assert("rest-non-negative", rest.Sign() >= 0)
		vs.Assert("bank-conserved", c14Int(distrBal1, dn).Cmp(rest) == 0)
		vs.Assert("community-pool-gets-rest", c14Dec(distr.Pool, dn).Cmp(new(big.Int).Mul(rest, c14One18)) == 0)
		// the community pool gets at least its tax share of the reward
		taxCoins := new(big.Int).Quo(new(big.Int).Mul(moved, taxUnits), c14One18)
		vs.Assert("community-pool-at-least-tax", rest.Cmp(taxCoins) >= 0)
	}
	vs.Assert("only-known-accounts-touched", len(bank.Bal) <= 2+nMembers)
}

// VerifC14BandtssRewardPercentageRange: whatever SetParams accepts as reward percentage must not make the
// begin-block allocation fail.
func VerifC14BandtssRewardPercentageRange() {
	key := storetypes.NewKVStoreKey(types.StoreKey)
	ctx := venv.NewContext(key)
	bank := venv.NewBank()
	distr := venv.NewDistr(bank, sdkmath.LegacyNewDecWithPrec(2, 2))
	gid := tss.GroupID(7)
	addr := venv.Addr(1)
	tk := &c14TSS{gid: gid, de: map[string]tsstypes.DEQueue{string(addr): {Head: 0, Tail: 1}}}
	tk.members = []tsstypes.Member{{ID: 1, GroupID: gid, Address: addr.String(), IsActive: true}}
	k := NewKeeper(venv.Codec(), key, venv.AuthM{}, bank, distr, tk, venv.Addr(9).String(), authtypes.FeeCollectorName)

	p := types.DefaultParams()
	pct := vs.U64("reward_percentage")
	p.RewardPercentage = pct
	vs.Assume(pct <= 1000)                // keeps the decimal arithmetic small; Validate has no bound at all
	vs.Assume(k.SetParams(ctx, p) == nil) // accepted by Params.Validate
	k.SetCurrentGroup(ctx, types.NewCurrentGroup(gid, time.Unix(100, 0)))
	bank.Set(venv.ModuleAddr(authtypes.FeeCollectorName), sdk.NewCoins(sdk.NewInt64Coin(c14Denoms[0], 1000)))

	err := k.AllocateTokens(ctx)
	vs.Reach("in-range", pct <= 100)
	vs.Known("C14-reward-percentage-unbounded", pct > 100)
	vs.Assert("accepted-percentage-never-halts-begin-block", err == nil)
}
