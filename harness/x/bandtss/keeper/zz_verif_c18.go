//go:build verif

package keeper

import (
	"errors"

	sdk "github.com/cosmos/cosmos-sdk/types"
	govtypes "github.com/cosmos/cosmos-sdk/x/gov/types"

	"github.com/bandprotocol/chain/v3/pkg/tss"
	vs "github.com/bandprotocol/chain/v3/vsupport"
	"github.com/bandprotocol/chain/v3/vsupport/venv"
	"github.com/bandprotocol/chain/v3/x/bandtss/types"
	tsstypes "github.com/bandprotocol/chain/v3/x/tss/types"
)

// C18 - the signing group changes only through a completed, scheduled transition.
//
// Every harness: arbitrary bounded pre-state satisfying the module invariant (c18Build), ONE step of the real
// code (message, tss callback, end-blocker, signing request), then the complete observable transition state
// (current group, transition record, member records, signing-id mapping, tss signing counter) is compared
// with the specification's post-state and the invariant is asserted again (c18Check). In particular every
// step except the end-blocker asserts that the current group did not change. An escaping panic is a violation.

func init() {
	vs.RegisterHarness("VerifC18TransitionGroup", VerifC18TransitionGroup)
	vs.RegisterHarness("VerifC18ForceTransitionGroup", VerifC18ForceTransitionGroup)
}

// VerifC18TransitionGroup: MsgTransitionGroup through the real msg server.
func VerifC18TransitionGroup() {
	e := c18Setup()
	isAuth := vs.Bool("sender_is_authority")
	e.tss.FailCreate = vs.Bool("create_group_fails")
	// shapes that cannot matter for an early rejection are not enumerated
	rich := isAuth && !e.tss.FailCreate
	nPairs, nm := 1, 1
	if rich {
		nPairs = vs.Param("windows")
	}
	minD, maxD := c18SetParams(e, sdk.NewCoins(), nPairs)
	enum := vs.Param("enum_sizes") != 0
	m := c18Build(e, c18Opts{sizes: func(kind int) bool { return enum && rich && kind == c18TrNone },
		defSize: vs.Param("max_members")})

	sender := venv.Addr(8)
	if isAuth {
		sender = e.authority
	}
	if rich && !m.hasTr {
		nm = 1 + vs.Pick("msg_members", vs.Param("max_members"))
	}
	addrs := []sdk.AccAddress{venv.Addr(3), venv.Addr(4), venv.Addr(7)}[:nm] // overlaps groups 1 and 2
	var members []string
	for _, a := range addrs {
		members = append(members, a.String())
	}
	threshold := vs.U64("msg_threshold")
	exec := c18Time("msg_exec_time")
	msg := &types.MsgTransitionGroup{Members: members, Threshold: threshold, ExecTime: exec.time(), Authority: sender.String()}
	vs.Assume(msg.ValidateBasic() == nil)

	_, err := NewMsgServerImpl(e.k).TransitionGroup(e.ctx, msg)

	// ---- specification
	inWindow := vs.And(!exec.before(m.now.add(minD)), !m.now.add(maxD).before(exec))
	accept := vs.And(isAuth && !m.hasTr && !e.tss.FailCreate, inWindow)
	vs.Assert("accept-iff-spec", (err == nil) == accept)

	if err != nil {
		switch {
		case errors.Is(err, govtypes.ErrInvalidSigner):
			vs.Assert("invalid-signer-means-not-authority", !isAuth)
			vs.Reach("rejected-not-authority", true)
		case errors.Is(err, types.ErrInvalidExecTime):
			vs.Assert("invalid-exec-time-means-outside-window", !inWindow)
			vs.Reach("rejected-too-early", exec.before(m.now.add(minD)))
			vs.Reach("rejected-too-late", m.now.add(maxD).before(exec))
		case errors.Is(err, types.ErrTransitionInProgress):
			vs.Assert("in-progress-means-transition-exists", m.hasTr)
			vs.Reach("rejected-transition-in-progress", true)
		case errors.Is(err, tsstypes.ErrGroupCreationFailed):
			vs.Assert("creation-error-means-tss-refused", e.tss.FailCreate)
			vs.Reach("rejected-group-creation-failed", true)
		default:
			vs.Assert("unexpected-error-class", false)
		}
		vs.Assert("rejected-creates-no-group", len(e.tss.Created) == 0)
		c18Check(e, m) // nothing changed
		return
	}
	vs.Reach("accepted", true)
	vs.Reach("accepted-at-min-exec-time", exec.eq(m.now.add(minD)))
	vs.Reach("accepted-at-max-exec-time", exec.eq(m.now.add(maxD)))
	vs.Reach("accepted-without-current-group", m.cur == 0)

	// the new tss group
	vs.Assert("one-group-created", len(e.tss.Created) == 1 && e.tss.Created[0] == c18G4)
	g, gerr := e.tss.GetGroup(e.ctx, c18G4)
	vs.Assert("created-group-exists", gerr == nil)
	vs.Assert("created-group-threshold", g.Threshold == threshold)
	vs.Assert("created-group-size", g.Size_ == uint64(nm))
	vs.Assert("created-group-owner", g.ModuleOwner == types.ModuleName)
	vs.Assert("created-group-in-dkg", g.Status == tsstypes.GROUP_STATUS_ROUND_1)
	tm := e.tss.Members[c18G4]
	vs.Assert("created-group-member-count", len(tm) == nm)
	for i := range tm {
		vs.Assert("created-group-member", tm[i].Address == members[i])
	}

	// the transition: CREATING_GROUP for the new group, not forced, current group untouched, no members added
	m.hasTr = true
	m.tr = c18Tr{status: types.TRANSITION_STATUS_CREATING_GROUP, exec: exec, cur: m.cur, inc: c18G4}
	if m.cur != 0 {
		m.tr.curPK = c18PK(m.cur)
	}
	c18Check(e, m)
}

// VerifC18ForceTransitionGroup: MsgForceTransitionGroup through the real msg server.
func VerifC18ForceTransitionGroup() {
	e := c18Setup()
	isAuth := vs.Bool("sender_is_authority")
	nPairs := 1
	if isAuth {
		nPairs = vs.Param("windows")
	}
	minD, maxD := c18SetParams(e, sdk.NewCoins(), nPairs)
	enum := vs.Param("enum_sizes") != 0
	m := c18Build(e, c18Opts{sizes: func(kind int) bool { return enum && isAuth && kind == c18TrNone },
		defSize: vs.Param("max_members")})

	sender := venv.Addr(8)
	if isAuth {
		sender = e.authority
	}
	inc := c18G2
	if isAuth && !m.hasTr {
		inc = tss.GroupID(1 + vs.Pick("msg_incoming_group", 4)) // group 4 does not exist
	}
	exec := c18Time("msg_exec_time")
	msg := &types.MsgForceTransitionGroup{IncomingGroupID: inc, ExecTime: exec.time(), Authority: sender.String()}
	vs.Assume(msg.ValidateBasic() == nil)

	_, err := NewMsgServerImpl(e.k).ForceTransitionGroup(e.ctx, msg)

	// ---- specification
	inWindow := vs.And(!exec.before(m.now.add(minD)), !m.now.add(maxD).before(exec))
	ig, exists := e.tss.Groups[inc]
	active := exists && ig.Status == tsstypes.GROUP_STATUS_ACTIVE
	accept := vs.And(vs.And(isAuth && !m.hasTr && inc != m.cur && exists, active), inWindow)
	vs.Assert("accept-iff-spec", (err == nil) == accept)

	if err != nil {
		switch {
		case errors.Is(err, govtypes.ErrInvalidSigner):
			vs.Assert("invalid-signer-means-not-authority", !isAuth)
			vs.Reach("rejected-not-authority", true)
		case errors.Is(err, types.ErrInvalidExecTime):
			vs.Assert("invalid-exec-time-means-outside-window", !inWindow)
			vs.Reach("rejected-outside-window", true)
		case errors.Is(err, types.ErrTransitionInProgress):
			vs.Assert("in-progress-means-transition-exists", m.hasTr)
			vs.Reach("rejected-transition-in-progress", true)
		case errors.Is(err, types.ErrInvalidGroupID):
			vs.Assert("invalid-group-means-same-as-current", inc == m.cur)
			vs.Reach("rejected-same-as-current", true)
		case errors.Is(err, tsstypes.ErrGroupNotFound):
			vs.Assert("not-found-means-missing-group", !exists)
			vs.Reach("rejected-no-such-group", true)
		case errors.Is(err, types.ErrInvalidIncomingGroup):
			vs.Assert("invalid-incoming-means-not-active", !active)
			vs.Reach("rejected-group-not-active", true)
		default:
			vs.Assert("unexpected-error-class", false)
		}
		c18Check(e, m) // nothing changed
		return
	}
	vs.Reach("accepted", true)
	vs.Reach("accepted-without-current-group", m.cur == 0)
	vs.Reach("accepted-former-group-1", inc == c18G1)

	m.hasTr = true
	m.tr = c18Tr{status: types.TRANSITION_STATUS_WAITING_EXECUTION, exec: exec, cur: m.cur, inc: inc,
		incPK: c18PK(inc), force: true}
	if m.cur != 0 {
		m.tr.curPK = c18PK(m.cur)
	}
	for _, a := range c18Addrs(inc, m.nGroup[inc]) {
		m.mem = append(m.mem, c18Member(a, inc, m.now))
	}
	c18Check(e, m)
}

// VerifC18EndBlockWith: the real bandtss EndBlocker (passed in by package x/bandtss) from an arbitrary state.
// The current group changes only here, only for a WAITING_EXECUTION transition whose time has come.
func VerifC18EndBlockWith(endBlocker func(sdk.Context, Keeper) error) {
	e := c18Setup()
	c18SetParams(e, sdk.NewCoins(), 1)
	m := c18Build(e, c18Opts{})

	err := endBlocker(e.ctx, e.k)
	vs.Assert("end-blocker-never-fails", err == nil)

	if !m.hasTr {
		vs.Reach("no-transition", true)
		c18Check(e, m)
		return
	}
	due := !m.now.before(m.tr.exec) // exec <= now
	if !due {
		vs.Reach("not-due", true)
		vs.Reach("not-due-waiting-execution", m.tr.status == types.TRANSITION_STATUS_WAITING_EXECUTION)
		c18Check(e, m)
		return
	}
	vs.Reach("due-exactly-at-exec-time", m.now.eq(m.tr.exec))
	m.hasTr = false
	if m.tr.status != types.TRANSITION_STATUS_WAITING_EXECUTION {
		// dropped: the current group stays, nothing else changes
		vs.Reach("dropped-creating-group", m.tr.status == types.TRANSITION_STATUS_CREATING_GROUP)
		vs.Reach("dropped-waiting-sign", m.tr.status == types.TRANSITION_STATUS_WAITING_SIGN)
		c18Check(e, m)
		return
	}
	vs.Reach("executed", true)
	vs.Reach("executed-forced", m.tr.force)
	vs.Reach("executed-first-group", m.cur == 0)
	vs.Reach("executed-replacing-group", m.cur != 0)
	var kept []c18Mem
	for _, x := range m.mem {
		if x.group == m.tr.inc {
			kept = append(kept, x)
		}
	}
	m.mem = kept
	m.cur = m.tr.inc
	m.curSince = m.tr.exec
	c18Check(e, m)
	// stated once more without the model: exactly the incoming group's members remain
	vs.Assert("members-are-the-new-group", len(e.k.GetMembers(e.ctx)) == m.nGroup[m.cur])
	for _, tm := range e.tss.Members[m.cur] {
		vs.Assert("new-group-member-present", e.k.HasMember(e.ctx, sdk.MustAccAddressFromBech32(tm.Address), m.cur))
	}
}
