//go:build verif

package keeper

import (
	"errors"
	"math/big"
	"time"

	sdkmath "cosmossdk.io/math"
	storetypes "cosmossdk.io/store/types"

	sdk "github.com/cosmos/cosmos-sdk/types"

	"github.com/bandprotocol/chain/v3/pkg/tss"
	vs "github.com/bandprotocol/chain/v3/vsupport"
	"github.com/bandprotocol/chain/v3/vsupport/venv"
	"github.com/bandprotocol/chain/v3/x/bandtss/types"
	tsstypes "github.com/bandprotocol/chain/v3/x/tss/types"
)

func init() {
	vs.RegisterHarness("VerifC13CreateSigning", VerifC13CreateSigning)
	vs.RegisterHarness("VerifC13Payout", VerifC13Payout)
}

var c13Denoms = [2]string{"uband", "utest"}

const c13AmtBits = 96

// c13Coins builds a valid sdk.Coins value (sorted, positive amounts) with a concrete shape (bit 0: uband,
// bit 1: utest) and symbolic amounts; the second result is the amount per denom (0 when absent).
func c13Coins(label string, shape int) (sdk.Coins, [2]*big.Int) {
	var amt [2]*big.Int
	coins := sdk.Coins{}
	for d := 0; d < 2; d++ {
		amt[d] = big.NewInt(0)
		if shape&(1<<d) != 0 {
			a := vs.BigU(label, c13AmtBits)
			vs.Assume(a.Sign() > 0)
			amt[d] = a
			coins = append(coins, sdk.Coin{Denom: c13Denoms[d], Amount: sdkmath.NewIntFromBigInt(a)})
		}
	}
	return coins, amt
}

func c13Le(a, b *big.Int) bool { return a.Cmp(b) <= 0 }
func c13Eq(a, b *big.Int) bool { return a.Cmp(b) == 0 }

func c13Amt(c sdk.Coins, d int) *big.Int { return c.AmountOf(c13Denoms[d]).BigInt() }

type c13Env struct {
	ctx       sdk.Context
	k         Keeper
	bank      *venv.Bank
	tss       *venv.TSS
	authority sdk.AccAddress
	module    sdk.AccAddress
}

func c13Setup() c13Env {
	key := storetypes.NewKVStoreKey(types.StoreKey)
	tssKey := storetypes.NewKVStoreKey(tsstypes.StoreKey)
	ctx := venv.NewContext(key, tssKey)
	bank := venv.NewBank()
	tk := venv.NewTSS(tssKey)
	authority := venv.Addr(9)
	k := NewKeeper(venv.Codec(), key, venv.Auth{}, bank, nil, tk, authority.String(), "fee_collector")
	return c13Env{ctx: ctx, k: k, bank: bank, tss: tk, authority: authority, module: venv.ModuleAddr(types.ModuleName)}
}

const (
	c13CurGroup = tss.GroupID(1)
	c13IncGroup = tss.GroupID(2)
	c13TssCount = 4 // tss signings that already exist
)

// VerifC13CreateSigning: one signing request through the keeper entry points used by MsgRequestSignature,
// the oracle module and tunnels (CreateDirectSigningRequest / CreateTunnelSigningRequest).
func VerifC13CreateSigning() {
	e := c13Setup()
	ctx, k := e.ctx, e.k
	user, other := venv.Addr(1), venv.Addr(2)

	// ---- group state: current group or none; transition none / waiting execution / another status
	hasCur := vs.Bool("has_current_group")
	incKind := vs.Pick("incoming", 3) // 0 no transition, 1 WAITING_EXECUTION, 2 transition in another status
	threshold := vs.U64("threshold")
	vs.Assume(threshold >= 1 && threshold < 1<<32)
	size := vs.U64("group_size")
	vs.Assume(size >= threshold && size < 1<<32)
	if hasCur {
		k.SetCurrentGroup(ctx, types.NewCurrentGroup(c13CurGroup, time.Unix(100, 0)))
		e.tss.Groups[c13CurGroup] = tsstypes.Group{ID: c13CurGroup, Size_: size, Threshold: threshold, Status: tsstypes.GROUP_STATUS_ACTIVE,
			CreatedHeight: vs.U64("group_created_height")}
	}
	incThreshold := vs.U64("incoming_threshold")
	e.tss.Groups[c13IncGroup] = tsstypes.Group{ID: c13IncGroup, Size_: incThreshold, Threshold: incThreshold, Status: tsstypes.GROUP_STATUS_ACTIVE}
	curID := tss.GroupID(0)
	if hasCur {
		curID = c13CurGroup
	}
	switch incKind {
	case 1:
		k.SetGroupTransition(ctx, types.GroupTransition{CurrentGroupID: curID, IncomingGroupID: c13IncGroup,
			Status: types.TRANSITION_STATUS_WAITING_EXECUTION, ExecTime: time.Unix(1000, 0)})
	case 2:
		st := types.TRANSITION_STATUS_CREATING_GROUP
		if vs.Bool("waiting_sign") {
			st = types.TRANSITION_STATUS_WAITING_SIGN
		}
		k.SetGroupTransition(ctx, types.GroupTransition{CurrentGroupID: curID, IncomingGroupID: c13IncGroup,
			Status: st, ExecTime: time.Unix(1000, 0)})
	}
	incoming := incKind == 1
	curFails, incFails := false, false
	if hasCur {
		curFails = vs.Bool("current_signing_fails")
	}
	if incoming {
		incFails = vs.Bool("incoming_signing_fails")
	}
	e.tss.FailSigning[c13CurGroup] = curFails
	e.tss.FailSigning[c13IncGroup] = incFails
	e.tss.SetSigningCount(ctx, c13TssCount)

	// ---- the requester: an ordinary account or the module authority (governance)
	byAuthority := vs.Bool("sender_is_authority")
	sender := user
	if byAuthority {
		sender = e.authority
	}
	paid := hasCur && !byAuthority

	// ---- fee parameter, limit, balances. Shapes are enumerated only where the fee is charged.
	feeShape, limitShape := 3, 1
	if paid {
		feeShape = vs.Pick("fee_shape", 4)
		limitShape = vs.Pick("limit_shape", 4)
	}
	feeCoins, fee := c13Coins("fee_per_signer", feeShape)
	p := types.DefaultParams()
	p.FeePerSigner = feeCoins
	if err := k.SetParams(ctx, p); err != nil {
		vs.Assume(false)
	}
	limitCoins, limit := c13Coins("fee_limit", limitShape)
	senderCoins, preSender := c13Coins("sender_balance", 3)
	moduleCoins, preModule := c13Coins("module_balance", 1)
	otherCoins, preOther := c13Coins("other_balance", 2)
	e.bank.Set(sender, senderCoins)
	e.bank.Set(e.module, moduleCoins)
	e.bank.Set(other, otherCoins)

	prevCount := vs.U64("bandtss_signing_count")
	vs.Assume(prevCount < 1<<62)
	k.SetSigningCount(ctx, prevCount)

	// ---- reference
	thr := big.NewInt(int64(threshold)) // the same integer the code multiplies by (threshold < 2^32)
	var total [2]*big.Int
	feeOK, balOK := true, true
	for d := 0; d < 2; d++ {
		total[d] = new(big.Int).Mul(fee[d], thr)
		feeOK = vs.And(feeOK, c13Le(total[d], limit[d]))
		balOK = vs.And(balOK, c13Le(total[d], preSender[d]))
	}
	noGroup := !hasCur && !incoming
	wantOK := !noGroup && !curFails && (hasCur || !incFails)
	if paid {
		wantOK = vs.And(wantOK, vs.And(feeOK, balOK))
	}

	// ---- the step
	content := tsstypes.NewTextSignatureOrder([]byte("msg"))
	var id types.SigningID
	var err error
	if vs.Bool("via_tunnel") {
		id, err = k.CreateTunnelSigningRequest(ctx, 1, "chain", "0xcontract", content, sender, limitCoins)
	} else {
		id, err = k.CreateDirectSigningRequest(ctx, content, "memo", sender, limitCoins)
	}

	postSender, postModule, postOther := e.bank.Get(sender), e.bank.Get(e.module), e.bank.Get(other)

	// whatever the outcome: the sender never loses more than min(limit, fee*threshold), others are untouched
	for d := 0; d < 2; d++ {
		debit := new(big.Int).Sub(preSender[d], c13Amt(postSender, d))
		vs.Assert("debit-within-limit", c13Le(debit, limit[d]))
		vs.Assert("debit-zero-or-exact", vs.Or(debit.Sign() == 0, vs.And(paid, c13Eq(debit, total[d]))))
		vs.Assert("escrow-equals-debit", c13Eq(new(big.Int).Sub(c13Amt(postModule, d), preModule[d]), debit))
		vs.Assert("bystander-untouched", c13Eq(c13Amt(postOther, d), preOther[d]))
	}

	if err != nil {
		vs.Reach("rejected", true)
		vs.Assert("reject-only-if-spec", !wantOK)
		vs.Assert("no-id-on-error", id == 0)
		if noGroup {
			vs.Assert("no-group-error", errors.Is(err, types.ErrNoActiveGroup))
		}
		// fee above the limit or unaffordable: rejected before any transfer and before any tss request
		if paid && !(feeOK && balOK) {
			vs.Reach("rejected-fee", true)
			if !feeOK {
				vs.Assert("limit-error", errors.Is(err, types.ErrFeeExceedsLimit))
			}
			for d := 0; d < 2; d++ {
				vs.Assert("no-transfer-on-fee-reject", c13Eq(c13Amt(postSender, d), preSender[d]))
			}
			vs.Assert("no-tss-request-on-fee-reject", len(e.tss.Calls) == 0 && e.tss.SigningCount(ctx) == c13TssCount)
			vs.Assert("no-record-on-fee-reject", k.GetSigningCount(ctx) == prevCount)
		}
		return
	}
	vs.Reach("accepted", true)
	vs.Assert("accept-only-if-spec", wantOK)

	// exact fee: fee_per_signer * threshold from the sender into escrow when charged, nothing otherwise
	for d := 0; d < 2; d++ {
		want := big.NewInt(0)
		if paid {
			want = total[d]
		}
		vs.Assert("fee-exact", c13Eq(new(big.Int).Sub(preSender[d], c13Amt(postSender, d)), want))
	}
	if paid {
		vs.Reach("accepted-paid", true)
	} else {
		vs.Reach("accepted-free", true)
	}

	// tss requests: current group first (outer context), incoming group in a cache context written only on success
	wantCur, wantInc := tss.SigningID(0), tss.SigningID(0)
	next := uint64(c13TssCount)
	nCalls := 0
	if hasCur {
		next++
		wantCur = tss.SigningID(next)
		nCalls++
	}
	if incoming {
		nCalls++
		if !incFails {
			next++
			wantInc = tss.SigningID(next)
		} else {
			vs.Reach("incoming-dropped", true)
			vs.Assert("incoming-failure-rolled-back", e.tss.Marker(ctx, tss.SigningID(next+1)) == 0)
		}
	}
	vs.Assert("tss-calls", len(e.tss.Calls) == nCalls)
	vs.Assert("tss-state", e.tss.SigningCount(ctx) == next)
	if wantInc != 0 {
		vs.Assert("incoming-written", e.tss.Marker(ctx, wantInc) == uint64(c13IncGroup))
	}

	// the escrow record
	vs.Assert("id-is-next", uint64(id) == prevCount+1 && k.GetSigningCount(ctx) == prevCount+1)
	rec, gerr := k.GetSigning(ctx, id)
	vs.Assert("record-stored", gerr == nil)
	vs.Assert("record-ids", rec.ID == id && rec.CurrentGroupSigningID == wantCur && rec.IncomingGroupSigningID == wantInc)
	vs.Assert("record-requester", rec.Requester == sender.String())
	for d := 0; d < 2; d++ {
		want := big.NewInt(0)
		if paid {
			want = fee[d]
		}
		vs.Assert("record-fee-per-signer", c13Eq(c13Amt(rec.FeePerSigner, d), want))
	}
	if wantCur != 0 {
		vs.Assert("mapping-current", k.GetSigningIDMapping(ctx, wantCur) == id)
	}
	if wantInc != 0 {
		vs.Assert("mapping-incoming", k.GetSigningIDMapping(ctx, wantInc) == id)
	}
}

// VerifC13Payout: one tss callback (OnSigningCompleted / OnSigningFailed), delivered twice, from an arbitrary
// escrow state: record b1 (current-group signing 11 and/or incoming-group signing 12, fee_per_signer of any
// shape incl. free) and a second outstanding record b2 (current-group signing 21).
//
// Invariant (Appendix B, B5): every mapping t -> b points to an existing record with t one of its two ids, and
// the module balance covers fee_per_signer * threshold of every still-mapped current-group signing.
func VerifC13Payout() {
	e := c13Setup()
	ctx, k := e.ctx, e.k
	const (
		c1, n1, c2, unknown = tss.SigningID(11), tss.SigningID(12), tss.SigningID(21), tss.SigningID(99)
	)
	requester := venv.Addr(1)

	// ---- record b1
	idsKind := vs.Pick("b1_ids", 3) // 0: current only, 1: incoming only, 2: both
	hasC1, hasN1 := idsKind != 1, idsKind != 0
	feeShape := 3
	if ns := vs.Param("fee_shapes"); ns > 1 {
		feeShape = 3 - vs.Pick("b1_fee_shape", ns)
	}
	fee1Coins, fee1 := c13Coins("b1_fee_per_signer", feeShape)
	b1 := types.Signing{ID: 1, FeePerSigner: fee1Coins, Requester: requester.String()}
	mappedC1, mappedN1 := false, false
	if hasC1 {
		b1.CurrentGroupSigningID = c1
		mappedC1 = vs.Bool("c1_pending")
	}
	if hasN1 {
		b1.IncomingGroupSigningID = n1
		mappedN1 = vs.Bool("n1_pending")
	}
	k.SetSigning(ctx, b1)
	if mappedC1 {
		k.SetSigningIDMapping(ctx, c1, 1)
	}
	if mappedN1 {
		k.SetSigningIDMapping(ctx, n1, 1)
	}
	nMembers := 1 + vs.Pick("assigned_members", vs.Param("max_members")) // = threshold of the signing's group
	thr1 := big.NewInt(int64(nMembers))

	// ---- record b2: another paid request that may still be pending
	fee2Coins, fee2 := c13Coins("b2_fee_per_signer", 3)
	b2 := types.Signing{ID: 2, FeePerSigner: fee2Coins, Requester: requester.String(), CurrentGroupSigningID: c2}
	k.SetSigning(ctx, b2)
	mappedC2 := vs.Bool("c2_pending")
	if mappedC2 {
		k.SetSigningIDMapping(ctx, c2, 2)
	}
	k.SetSigningCount(ctx, 2)
	thr2u := vs.U64("b2_threshold")
	vs.Assume(thr2u >= 1 && thr2u < 1<<32)
	thr2 := new(big.Int).SetUint64(thr2u)

	// ---- ledger: escrow covers the outstanding obligations
	moduleCoins, preModule := c13Coins("module_balance", 3)
	e.bank.Set(e.module, moduleCoins)
	zero := big.NewInt(0)
	var owed1, owed2 [2]*big.Int
	for d := 0; d < 2; d++ {
		owed1[d], owed2[d] = zero, zero
		if mappedC1 {
			owed1[d] = new(big.Int).Mul(fee1[d], thr1)
		}
		if mappedC2 {
			owed2[d] = new(big.Int).Mul(fee2[d], thr2)
		}
		vs.Assume(c13Le(new(big.Int).Add(owed1[d], owed2[d]), preModule[d]))
	}
	members := make([]sdk.AccAddress, nMembers)
	preMember := make([][2]*big.Int, nMembers)
	for i := range members {
		members[i] = venv.Addr(3 + i)
		shape := 0
		if i == 0 {
			shape = 1
		}
		coins, amt := c13Coins("member_balance", shape)
		preMember[i] = amt
		e.bank.Set(members[i], coins)
	}
	reqCoins, preReq := c13Coins("requester_balance", 1)
	e.bank.Set(requester, reqCoins)

	// ---- the event
	var t tss.SigningID
	switch vs.Pick("target", 3) {
	case 0:
		t = c1
		vs.Assume(hasC1)
	case 1:
		t = n1
		vs.Assume(hasN1)
	default:
		t = unknown
	}
	completed := vs.Bool("completed")
	cb := NewTSSCallback(k)
	deliver := func() {
		if completed {
			cb.OnSigningCompleted(ctx, t, members)
		} else {
			cb.OnSigningFailed(ctx, t)
		}
	}
	deliver()

	pays := completed && t == c1 && mappedC1 && feeShape != 0
	check := func() {
		for d := 0; d < 2; d++ {
			wantModule := preModule[d]
			if pays {
				wantModule = new(big.Int).Sub(preModule[d], new(big.Int).Mul(fee1[d], thr1))
			}
			vs.Assert("escrow-exact", c13Eq(c13Amt(e.bank.Get(e.module), d), wantModule))
			for i := range members {
				want := preMember[i][d]
				if pays {
					want = new(big.Int).Add(want, fee1[d])
				}
				vs.Assert("member-paid-exactly-fee-per-signer", c13Eq(c13Amt(e.bank.Get(members[i]), d), want))
			}
			vs.Assert("requester-untouched", c13Eq(c13Amt(e.bank.Get(requester), d), preReq[d]))
			// the invariant again: escrow still covers what remains pending
			remaining := zero
			if mappedC1 && t != c1 {
				remaining = owed1[d]
			}
			vs.Assert("escrow-covers-pending", c13Le(new(big.Int).Add(remaining, owed2[d]), c13Amt(e.bank.Get(e.module), d)))
		}
		vs.Assert("mapping-deleted", k.GetSigningIDMapping(ctx, t) == 0)
		if t != c1 {
			vs.Assert("mapping-c1-kept", (k.GetSigningIDMapping(ctx, c1) == 1) == mappedC1)
		}
		if t != n1 {
			vs.Assert("mapping-n1-kept", (k.GetSigningIDMapping(ctx, n1) == 1) == mappedN1)
		}
		vs.Assert("mapping-c2-kept", (k.GetSigningIDMapping(ctx, c2) == 2) == mappedC2)
		r1, err1 := k.GetSigning(ctx, 1)
		vs.Assert("record-kept", err1 == nil && r1.CurrentGroupSigningID == b1.CurrentGroupSigningID &&
			r1.IncomingGroupSigningID == b1.IncomingGroupSigningID && r1.Requester == b1.Requester)
		for d := 0; d < 2; d++ {
			vs.Assert("record-fee-kept", c13Eq(c13Amt(r1.FeePerSigner, d), fee1[d]))
		}
		vs.Assert("count-kept", k.GetSigningCount(ctx) == 2)
	}
	check()
	if pays {
		vs.Reach("paid", true)
	} else if completed && t == n1 && mappedN1 {
		vs.Reach("incoming-completed-unpaid", true)
	} else if !completed && t == c1 && mappedC1 {
		vs.Reach("failed-unpaid", true)
	} else if completed && t == c1 && mappedC1 {
		vs.Reach("free-unpaid", true)
	}

	// a second delivery of the same event (retry / duplicate) changes nothing
	deliver()
	check()
}
