//go:build verif

package bandtss

import (
	"bytes"
	"time"

	sdk "github.com/cosmos/cosmos-sdk/types"

	tsslib "github.com/bandprotocol/chain/v3/pkg/tss"
	vs "github.com/bandprotocol/chain/v3/vsupport"
	"github.com/bandprotocol/chain/v3/x/bandtss/types"
	tsstypes "github.com/bandprotocol/chain/v3/x/tss/types"
)

func init() {
	vs.RegisterHarness("VerifC11TransitionHandler", VerifC11TransitionHandler)
}


// VerifC11TransitionHandler: output = keccak("Transition")[:4] | new group public key | BE64(unix transition time),
// for an arbitrary key (0..max_bytes+33 bytes; 33 is the real size) and time; a foreign content kind is refused.
func VerifC11TransitionHandler() {
	tsstypes.VerifC11CheckTags([]tsstypes.VerifC11OwnTag{{Name: "Transition", Const: GroupTransitionMsgPrefix}})
	maxB := vs.Param("max_bytes")
	shape := vs.Pick("pub_key_shape", maxB+2)
	n := shape
	if shape == maxB+1 {
		n = 33
	}
	pub := vs.Bytes("new_group_pub_key", n)
	secs := vs.I64("transition_time_unix")
	vs.Assume(secs > -(1<<55) && secs < (1<<55))
	order := types.NewGroupTransitionSignatureOrder(pub, time.Unix(secs, int64(vs.Int("transition_time_nanos", 0, 999_999_999))))

	h := NewSignatureOrderHandler()
	out, err := h(sdk.Context{}, order)
	vs.Assert("accepted", err == nil)
	u := uint64(secs)
	want := append([]byte{}, tsslib.Hash([]byte("Transition"))[:4]...)
	want = append(want, pub...)
	want = append(want, byte(u>>56), byte(u>>48), byte(u>>40), byte(u>>32), byte(u>>24), byte(u>>16), byte(u>>8), byte(u))
	vs.Assert("output-is-tag-key-time", bytes.Equal(out, want))
	vs.Assert("transition-is-internal", order.IsInternal())
	vs.Assert("route-is-bandtss", order.OrderRoute() == "bandtss")

	_, err2 := h(sdk.Context{}, tsstypes.NewTextSignatureOrder([]byte("x")))
	vs.Assert("foreign-kind-refused", err2 != nil)
	vs.Reach("encoded", true)
	vs.Reach("encoded-33-byte-key", n == 33)
}
