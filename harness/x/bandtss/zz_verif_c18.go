//go:build verif

package bandtss

import (
	vs "github.com/bandprotocol/chain/v3/vsupport"
	"github.com/bandprotocol/chain/v3/x/bandtss/keeper"
)

func init() { vs.RegisterHarness("VerifC18EndBlock", VerifC18EndBlock) }

// VerifC18EndBlock runs the real bandtss EndBlocker from an arbitrary state (state construction and
// assertions live next to the keeper, see keeper/zz_verif_c18.go).
func VerifC18EndBlock() { keeper.VerifC18EndBlockWith(EndBlocker) }
