//go:build verif

package oracle

import (
	"bytes"
	"errors"

	"github.com/ethereum/go-ethereum/accounts/abi"

	tsslib "github.com/bandprotocol/chain/v3/pkg/tss"
	vs "github.com/bandprotocol/chain/v3/vsupport"
	"github.com/bandprotocol/chain/v3/x/oracle/keeper"
	"github.com/bandprotocol/chain/v3/x/oracle/types"
	tsstypes "github.com/bandprotocol/chain/v3/x/tss/types"
)

func init() {
	vs.RegisterHarness("VerifC11OracleHandler", VerifC11OracleHandler)
}

func c11OracleTags() {
	tsstypes.VerifC11CheckTags([]tsstypes.VerifC11OwnTag{
		{Name: "Proto", Const: EncoderProtoPrefix},
		{Name: "FullABI", Const: EncoderFullABIPrefix},
		{Name: "PartialABI", Const: EncoderPartialABIPrefix},
	})
}

// c11RefResult: the oracle result as destination contracts see it (own struct type, fields matched by name).
type c11RefResult struct {
	ClientID       string
	OracleScriptID uint64
	Calldata       []byte
	AskCount       uint64
	MinCount       uint64
	RequestID      uint64
	AnsCount       uint64
	RequestTime    int64
	ResolveTime    int64
	ResolveStatus  int32
	Result         []byte
}

func c11RefArgs(full bool) abi.Arguments {
	comps := []abi.ArgumentMarshaling{
		{Name: "ClientID", Type: "string"},
		{Name: "OracleScriptID", Type: "uint64"},
		{Name: "Calldata", Type: "bytes"},
		{Name: "AskCount", Type: "uint64"},
		{Name: "MinCount", Type: "uint64"},
		{Name: "RequestID", Type: "uint64"},
		{Name: "AnsCount", Type: "uint64"},
		{Name: "RequestTime", Type: "int64"},
		{Name: "ResolveTime", Type: "int64"},
		{Name: "ResolveStatus", Type: "int32"},
		{Name: "Result", Type: "bytes"},
	}
	if !full {
		comps = []abi.ArgumentMarshaling{
			{Name: "Calldata", Type: "bytes"},
			{Name: "OracleScriptID", Type: "uint64"},
			{Name: "RequestID", Type: "uint64"},
			{Name: "MinCount", Type: "uint64"},
			{Name: "ResolveTime", Type: "int64"},
			{Name: "ResolveStatus", Type: "int32"},
			{Name: "Result", Type: "bytes"},
		}
	}
	t, err := abi.NewType("tuple", "result", comps)
	if err != nil {
		panic(err)
	}
	return abi.Arguments{{Type: t, Name: "result"}}
}

func c11Pad32(n int) int { return (n + 31) / 32 * 32 }

// VerifC11OracleHandler: the oracle content handler over an arbitrary stored result.
//
// Two request ids; the result of the first is stored (all eleven fields arbitrary; the three byte strings have a
// concrete length 0..max_bytes and one 33-byte shape), a second result with different arbitrary values is stored
// under the other id; the order asks for either id or for an id without a result.
//
//	no stored result: ErrResultNotFound;  encoder not PROTO/FULL_ABI/PARTIAL_ABI: refused;
//	FULL_ABI:    tag("FullABI")    | abi.encode(all eleven fields of THE REQUESTED id's stored result)
//	PARTIAL_ABI: tag("PartialABI") | abi.encode(calldata, oracle script id, request id, min count, resolve time,
//	                                            resolve status, result)
//
// (the PROTO encoder is outside: see checks/C11.json)
func VerifC11OracleHandler() {
	c11OracleTags()
	maxB := vs.Param("max_bytes")
	ctx, k := keeper.VerifC11Setup()
	blen := func(label string) int {
		s := vs.Pick(label, maxB+2)
		if s == maxB+1 {
			return 33
		}
		return s
	}
	mk := func() c11RefResult {
		return c11RefResult{
			ClientID:       string(vs.Bytes("client_id", blen("client_id_len"))),
			OracleScriptID: vs.U64("oracle_script_id"),
			Calldata:       vs.Bytes("calldata", blen("calldata_len")),
			AskCount:       vs.U64("ask_count"),
			MinCount:       vs.U64("min_count"),
			RequestID:      vs.U64("request_id_field"),
			AnsCount:       vs.U64("ans_count"),
			RequestTime:    vs.I64("request_time"),
			ResolveTime:    vs.I64("resolve_time"),
			ResolveStatus:  vs.I32("resolve_status"),
			Result:         vs.Bytes("result", blen("result_len")),
		}
	}
	store := func(id types.RequestID, r c11RefResult) {
		k.SetResult(ctx, id, types.NewResult(r.ClientID, types.OracleScriptID(r.OracleScriptID), r.Calldata, r.AskCount,
			r.MinCount, types.RequestID(r.RequestID), r.AnsCount, r.RequestTime, r.ResolveTime,
			types.ResolveStatus(r.ResolveStatus), r.Result))
	}
	const idA, idB, idNone = types.RequestID(5), types.RequestID(6), types.RequestID(7)
	ra := mk()
	store(idA, ra)
	rb := c11RefResult{ClientID: "other", OracleScriptID: vs.U64("other_script"), Calldata: vs.Bytes("other_calldata", 1),
		MinCount: vs.U64("other_min"), RequestID: vs.U64("other_rid"), ResolveTime: vs.I64("other_resolve"),
		ResolveStatus: vs.I32("other_status"), Result: vs.Bytes("other_result", 2)}
	store(idB, rb)

	which := vs.Pick("requested", 3)
	rid := []types.RequestID{idA, idB, idNone}[which]
	want := ra
	if which == 1 {
		want = rb
	}
	mode := vs.Pick("encoder", 3) // 0 full, 1 partial, 2 anything that is not one of the three encoders
	enc := types.ENCODER_FULL_ABI
	switch mode {
	case 1:
		enc = types.ENCODER_PARTIAL_ABI
	case 2:
		enc = types.Encoder(vs.I32("other_encoder"))
		vs.Assume(enc != types.ENCODER_FULL_ABI && enc != types.ENCODER_PARTIAL_ABI && enc != types.ENCODER_PROTO)
	}
	order := types.NewOracleResultSignatureOrder(rid, enc)
	h := NewSignatureOrderHandler(k)
	out, err := h(ctx, order)

	vs.Assert("accepted-iff-result-stored-and-encoder-known", (err == nil) == (which != 2 && mode != 2))
	if err != nil {
		vs.Assert("no-bytes-on-error", len(out) == 0)
		if which == 2 {
			vs.Assert("missing-result-error", errors.Is(err, types.ErrResultNotFound))
			vs.Reach("no-result", true)
		} else {
			vs.Reach("unknown-encoder", true)
		}
		return
	}
	tag := "FullABI"
	if mode == 1 {
		tag = "PartialABI"
	}
	bz, rerr := c11RefArgs(mode == 0).Pack(&want)
	vs.Assert("reference-pack-ok", rerr == nil)
	vs.Assert("message-is-tag-then-abi-of-stored-result", bytes.Equal(out, append(append([]byte{}, tsslib.Hash([]byte(tag))[:4]...), bz...)))
	dyn := 32 + c11Pad32(len(want.Calldata)) + 32 + c11Pad32(len(want.Result))
	if mode == 0 {
		vs.Assert("message-length", len(out) == 4+32+11*32+dyn+32+c11Pad32(len(want.ClientID)))
	} else {
		vs.Assert("message-length", len(out) == 4+32+7*32+dyn)
	}
	vs.Assert("oracle-order-is-not-internal", !order.IsInternal())
	vs.Assert("route-is-oracle", order.OrderRoute() == "oracle")
	_, err2 := h(ctx, tsstypes.NewTextSignatureOrder([]byte("x")))
	vs.Assert("foreign-kind-refused", err2 != nil)
	vs.Reach("full-abi-encoded", mode == 0)
	vs.Reach("partial-abi-encoded", mode == 1)
	vs.Reach("second-result-encoded", which == 1)
}
