//go:build verif

package oracle

import (
	abci "github.com/cometbft/cometbft/abci/types"

	sdk "github.com/cosmos/cosmos-sdk/types"

	vs "github.com/bandprotocol/chain/v3/vsupport"
	"github.com/bandprotocol/chain/v3/x/oracle/keeper"
)

func init() { vs.RegisterHarness("VerifC01EndBlock", VerifC01EndBlock) }

// VerifC01EndBlock runs the real oracle EndBlocker from an arbitrary state (state construction and
// assertions live next to the keeper, see keeper/zz_verif_c01.go).
func VerifC01EndBlock() { keeper.VerifC01EndBlockWith(EndBlocker) }

func init() { vs.RegisterHarness("VerifC14OracleBeginBlock", VerifC14OracleBeginBlock) }

// VerifC14OracleBeginBlock: the oracle allocation step driven through the module's real BeginBlocker with the
// last-commit votes in the context.
func VerifC14OracleBeginBlock() {
	keeper.VerifC14OracleBeginBlockWith(func(ctx sdk.Context, k keeper.Keeper, votes []abci.VoteInfo) error {
		return BeginBlocker(ctx.WithVoteInfos(votes), k)
	})
}
