//go:build verif

package oracle

import (
	vs "github.com/bandprotocol/chain/v3/vsupport"
	"github.com/bandprotocol/chain/v3/x/oracle/keeper"
)

func init() { vs.RegisterHarness("VerifC01EndBlock", VerifC01EndBlock) }

// VerifC01EndBlock runs the real oracle EndBlocker from an arbitrary state (state construction and
// assertions live next to the keeper, see keeper/zz_verif_c01.go).
func VerifC01EndBlock() { keeper.VerifC01EndBlockWith(EndBlocker) }
