//go:build verif

package keeper

import (
	"time"

	storetypes "cosmossdk.io/store/types"

	sdk "github.com/cosmos/cosmos-sdk/types"

	vs "github.com/bandprotocol/chain/v3/vsupport"
	"github.com/bandprotocol/chain/v3/vsupport/venv"
	"github.com/bandprotocol/chain/v3/x/oracle/types"
)

func init() {
	vs.RegisterHarness("VerifC15Activate", VerifC15Activate)
	vs.RegisterHarness("VerifC15MissReport", VerifC15MissReport)
	vs.RegisterHarness("VerifC15Penalty", VerifC15Penalty)
}

// c15MaxSec bounds every clock of the oracle harnesses: seconds in [0, 253402300800) = years 1970..9999, the
// range the real protobuf timestamp encoding of ValidatorStatus.Since accepts (later block times cannot be
// stored by the real code at all), with nanosecond resolution.
const c15MaxSec = int64(253402300800)

const c15Giga = int64(1000000000)

// c15Inst is an instant given by symbolic seconds and nanoseconds together with the time.Time built from it.
type c15Inst struct {
	t         time.Time
	sec, nsec int64
	zero      bool // the zero time.Time (year 1), before every other instant
}

// c15Time returns an arbitrary UTC instant.
func c15Time(label string) c15Inst {
	sec := vs.I64(label + "_sec")
	nsec := vs.I64(label + "_nsec")
	vs.Assume(sec >= 0)
	vs.Assume(sec < c15MaxSec)
	vs.Assume(nsec >= 0)
	vs.Assume(nsec < c15Giga)
	return c15Inst{t: time.Unix(sec, nsec).UTC(), sec: sec, nsec: nsec}
}

// c15Before: a < b (exact, lexicographic on seconds and nanoseconds; branch-free).
func c15Before(a, b c15Inst) bool {
	lt := vs.Or(a.sec < b.sec, vs.And(a.sec == b.sec, a.nsec < b.nsec))
	return vs.Or(vs.And(a.zero, !b.zero), vs.And(vs.And(!a.zero, !b.zero), lt))
}

// c15AddSecNs adds two (seconds, nanoseconds) pairs with carry; both nanosecond parts are in [0, 1e9).
func c15AddSecNs(s1, n1, s2, n2 int64) (sec, nsec int64) {
	n := n1 + n2
	carry := n >= c15Giga
	return s1 + s2 + vs.IteI64(carry, 1, 0), vs.IteI64(carry, n-c15Giga, n)
}

// c15PenaltyEnd returns a + penalty (a not the zero time) as seconds and nanoseconds. penalty is in
// nanoseconds; it is split into whole seconds and a sub-second rest and added with carry. Clocks are
// < 2^38 s and the penalty is < 2^64 ns < 2^35 s, so nothing wraps.
func c15PenaltyEnd(a c15Inst, penalty uint64) (sec, nsec int64) {
	return c15AddSecNs(a.sec, a.nsec, int64(penalty/1000000000), int64(penalty%1000000000))
}

// c15PenaltyServed: a + penalty <= b as exact integers. For penalty >= 2^63 the same inequality is written
// as a + 2^64 ns <= b + (2^64 - penalty) ns (2^64 ns = 18446744073 s + 709551616 ns).
func c15PenaltyServed(a c15Inst, penalty uint64, b c15Inst) bool {
	if int64(penalty) >= 0 {
		es, en := c15PenaltyEnd(a, penalty)
		return vs.Or(es < b.sec, vs.And(es == b.sec, en <= b.nsec))
	}
	m := -penalty
	ls, ln := c15AddSecNs(a.sec, a.nsec, 18446744073, 709551616)
	rs, rn := c15AddSecNs(b.sec, b.nsec, int64(m/1000000000), int64(m%1000000000))
	return vs.Or(ls < rs, vs.And(ls == rs, ln <= rn))
}

type c15Env struct {
	ctx sdk.Context
	k   Keeper
}

// c15Setup builds an oracle keeper over the model store. Only the store key and the codec are used
// by Activate/MissReport/Get/SetValidatorStatus/Get/SetParams; the neighbour keepers stay nil
// (NewKeeper itself opens the on-disk file cache and is therefore not called).
func c15Setup() c15Env {
	key := storetypes.NewKVStoreKey(types.StoreKey)
	ctx := venv.NewContext(key)
	return c15Env{ctx: ctx, k: Keeper{storeKey: key, cdc: venv.Codec(), authority: venv.Addr(9).String()}}
}

// c15Status is the symbolic description of one validator's stored status.
type c15Status struct {
	active bool
	since  c15Inst
}

// c15PreStatus writes an arbitrary status for validator val: absent, or any (IsActive, Since) with
// Since either the zero time or an arbitrary instant.
func c15PreStatus(e c15Env, val sdk.ValAddress, label string) c15Status {
	st := c15Status{since: c15Inst{zero: true}}
	if !vs.Bool(label + "_stored") {
		return st
	}
	st.active = vs.Bool(label + "_active")
	if !vs.Bool(label + "_since_zero") {
		st.since = c15Time(label + "_since")
	}
	e.k.SetValidatorStatus(e.ctx, val, types.NewValidatorStatus(st.active, st.since.t))
	return st
}

func c15SameStatus(got types.ValidatorStatus, active bool, since time.Time) bool {
	return vs.And(got.IsActive == active, got.Since.Equal(since))
}

// c15Penalty stores oracle params with an arbitrary InactivePenaltyDuration through the real
// SetParams (which validates) and returns the stored value.
func c15Penalty(e c15Env) uint64 {
	p := types.DefaultParams()
	p.InactivePenaltyDuration = vs.U64("penalty_ns")
	if err := e.k.SetParams(e.ctx, p); err != nil {
		vs.Assume(false)
	}
	return p.InactivePenaltyDuration
}

// VerifC15Activate: one MsgActivate step (real msg server) from an arbitrary status of the validator
// and of a bystander. Accepted iff inactive and (never changed or Since+penalty <= now), as exact
// integers; accepted => (active, now); rejected => unchanged; bystander never touched.
func VerifC15Activate() {
	e := c15Setup()
	v, other := venv.ValAddr(1), venv.ValAddr(2)
	penalty := c15Penalty(e)
	pre := c15PreStatus(e, v, "v")
	preO := c15PreStatus(e, other, "o")
	now := c15Time("now")
	ctx := e.ctx.WithBlockTime(now.t)

	_, err := NewMsgServerImpl(e.k).Activate(ctx, types.NewMsgActivate(v))

	served := c15PenaltyServed(pre.since, penalty, now)
	allowed := vs.And(!pre.active, vs.Or(pre.since.zero, served))

	// InactivePenaltyDuration >= 2^63 ns is accepted by Params.Validate but read as a negative
	// time.Duration, so the penalty never applies.
	vs.Known("C15-penalty-duration-sign", penalty >= 1<<63)
	vs.Assert("accepted-iff-inactive-and-penalty-elapsed", (err == nil) == allowed)

	got := e.k.GetValidatorStatus(ctx, v)
	if err == nil {
		vs.Reach("activated", true)
		vs.Reach("activated-first-time", pre.since.zero)
		if int64(penalty) > 0 && !pre.since.zero {
			es, en := c15PenaltyEnd(pre.since, penalty)
			vs.Reach("activated-at-exact-penalty-end", vs.And(es == now.sec, en == now.nsec))
		}
		vs.Assert("active-since-now", c15SameStatus(got, true, now.t))
	} else {
		vs.Reach("rejected-already-active", pre.active)
		vs.Reach("rejected-too-soon", !pre.active)
		vs.Assert("rejected-leaves-status", c15SameStatus(got, pre.active, pre.since.t))
		if pre.active {
			vs.Assert("error-already-active", err == types.ErrValidatorAlreadyActive)
		} else {
			vs.Assert("error-too-soon", err == types.ErrTooSoonToActivate)
		}
	}
	gotO := e.k.GetValidatorStatus(ctx, other)
	vs.Assert("bystander-untouched", c15SameStatus(gotO, preO.active, preO.since.t))
}

// VerifC15MissReport: one MissReport step. Deactivates iff active and Since < requestTime (exact);
// then (inactive, now); otherwise unchanged; bystander never touched.
func VerifC15MissReport() {
	e := c15Setup()
	v, other := venv.ValAddr(1), venv.ValAddr(2)
	pre := c15PreStatus(e, v, "v")
	preO := c15PreStatus(e, other, "o")
	now := c15Time("now")
	req := c15Time("request")
	ctx := e.ctx.WithBlockTime(now.t)

	e.k.MissReport(ctx, v, req.t)

	deact := vs.And(pre.active, c15Before(pre.since, req))
	got := e.k.GetValidatorStatus(ctx, v)
	vs.Assert("deactivated-iff-active-before-request", got.IsActive == vs.And(pre.active, !deact))
	if pre.active && !got.IsActive {
		vs.Reach("deactivated", true)
		vs.Assert("inactive-since-now", c15SameStatus(got, false, now.t))
	} else {
		vs.Reach("kept-active-since-not-before-request", pre.active)
		vs.Reach("kept-active-since-equals-request",
			vs.And(pre.active, vs.And(pre.since.sec == req.sec, pre.since.nsec == req.nsec)))
		vs.Reach("noop-inactive", !pre.active)
		vs.Assert("noop-leaves-status", c15SameStatus(got, pre.active, pre.since.t))
	}
	gotO := e.k.GetValidatorStatus(ctx, other)
	vs.Assert("bystander-untouched", c15SameStatus(gotO, preO.active, preO.since.t))
}

// VerifC15Penalty: MissReport in block t1, then MsgActivate in a later block t2 >= t1. If the first
// step deactivated the validator, re-activation succeeds iff t2 - t1 >= penalty.
func VerifC15Penalty() {
	e := c15Setup()
	v := venv.ValAddr(1)
	penalty := c15Penalty(e)
	vs.Assume(penalty < 1<<63) // see C15-penalty-duration-sign in VerifC15Activate
	pre := c15PreStatus(e, v, "v")
	t1 := c15Time("t1")
	t2 := c15Time("t2")
	req := c15Time("request")
	vs.Assume(!c15Before(t2, t1))

	ctx1 := e.ctx.WithBlockTime(t1.t)
	e.k.MissReport(ctx1, v, req.t)
	mid := e.k.GetValidatorStatus(ctx1, v)
	vs.Assume(pre.active && !mid.IsActive) // the miss deactivated it

	ctx2 := e.ctx.WithBlockTime(t2.t)
	_, err := NewMsgServerImpl(e.k).Activate(ctx2, types.NewMsgActivate(v))

	vs.Assert("reactivation-iff-penalty-served", (err == nil) == c15PenaltyServed(t1, penalty, t2))
	got := e.k.GetValidatorStatus(ctx2, v)
	if err == nil {
		vs.Reach("reactivated", true)
		vs.Assert("active-since-t2", c15SameStatus(got, true, t2.t))
	} else {
		vs.Reach("still-penalised", true)
		vs.Assert("still-inactive-since-t1", c15SameStatus(got, false, t1.t))
	}
}
