//go:build verif

package keeper

import sdk "github.com/cosmos/cosmos-sdk/types"

// VerifC11Setup returns a real oracle keeper over a fresh model store (used by the handler harness in package oracle).
func VerifC11Setup() (sdk.Context, Keeper) {
	e := verifSetup()
	return e.ctx, e.k
}
