//go:build verif

package keeper

import (
	"time"

	sdk "github.com/cosmos/cosmos-sdk/types"

	vs "github.com/bandprotocol/chain/v3/vsupport"
	"github.com/bandprotocol/chain/v3/vsupport/venv"
	"github.com/bandprotocol/chain/v3/x/oracle/types"
)

func init() {
	vs.RegisterHarness("VerifC01ReportData", VerifC01ReportData)
}

const c01MaxVals = 3

// c01Req is the harness-side record of one open request and what is stored for it.
type c01Req struct {
	id        types.RequestID
	req       types.Request
	ask       int
	nRaw      int
	reported  [c01MaxVals]bool
	inTime    [c01MaxVals]bool
	nReports  int
	hasResult bool
	result    types.Result
	pending   bool
}

type c01State struct {
	lastExpired uint64
	count       uint64
	reqs        []c01Req
	pending     []types.RequestID
	height      int64
	now         int64
	expBlocks   uint64
	maxData     uint64
}

// c01Build stores an arbitrary oracle state with nReq open requests that satisfies the module invariant
// (DESIGN Appendix B, O1–O8), using only the real setters.
func c01Build(e verifEnv, nReq, maxAsk, maxRaw int) (sdk.Context, c01State) {
	k := e.k
	var st c01State
	st.height = vs.I64("height")
	st.now = vs.I64("now")
	vs.Assume(st.height >= 1 && st.height < 1<<40)
	vs.Assume(st.now >= 0 && st.now < 1<<40)
	ctx := e.ctx.WithBlockHeight(st.height).WithBlockTime(time.Unix(st.now, 0).UTC())

	p := types.DefaultParams()
	st.expBlocks = vs.U64("expiration_block_count")
	vs.Assume(st.expBlocks >= 1 && st.expBlocks < 1<<40)
	p.ExpirationBlockCount = st.expBlocks
	st.maxData = vs.U64("max_report_data_size")
	vs.Assume(st.maxData < 1<<40)
	p.MaxReportDataSize = st.maxData
	ctx.KVStore(k.storeKey).Set(types.ParamsKeyPrefix, k.cdc.MustMarshal(&p))

	code := []byte("code")
	fname := k.fileCache.AddFile(code)
	k.SetOracleScript(ctx, 1, types.NewOracleScript(venv.Addr(8), "s", "d", fname, "", ""))

	st.lastExpired = vs.U64("last_expired")
	vs.Assume(st.lastExpired < 1<<40)
	st.count = st.lastExpired + uint64(nReq)
	k.SetRequestLastExpired(ctx, types.RequestID(st.lastExpired))
	k.SetRequestCount(ctx, st.count)

	prevHeight := int64(0)
	for j := 0; j < nReq; j++ {
		var r c01Req
		r.id = types.RequestID(st.lastExpired + uint64(j) + 1)
		r.ask = 1 + vs.Pick("ask_count", maxAsk)
		r.nRaw = 1 + vs.Pick("raw_count", maxRaw)
		vals := make([]sdk.ValAddress, r.ask)
		for i := range vals {
			vals[i] = venv.ValAddr(i + 1)
		}
		raws := make([]types.RawRequest, r.nRaw)
		for i := range raws {
			raws[i] = types.NewRawRequest(types.ExternalID(vs.U64("external_id")), types.DataSourceID(vs.U64("data_source_id")), vs.Bytes("raw_calldata", 1))
			for q := 0; q < i; q++ {
				vs.Assume(raws[q].ExternalID != raws[i].ExternalID)
			}
		}
		minCount := vs.U64("min_count")
		vs.Assume(minCount >= 1 && minCount <= uint64(r.ask))
		reqHeight := vs.I64("request_height")
		vs.Assume(reqHeight >= prevHeight && reqHeight <= st.height)
		prevHeight = reqHeight
		reqTime := vs.I64("request_time")
		vs.Assume(reqTime >= 0 && reqTime <= st.now)
		encoder := types.Encoder(vs.Int("tss_encoder", 0, 3))
		r.req = types.NewRequest(
			1, vs.Bytes("calldata", 2), vals, minCount, reqHeight, time.Unix(reqTime, 0).UTC(), "client",
			raws, nil, vs.U64("execute_gas"), encoder, venv.Addr(5).String(), sdk.NewCoins(),
		)
		k.SetRequest(ctx, r.id, r.req)

		r.hasResult = vs.Bool("has_result")
		inTimeCount := uint64(0)
		for i := 0; i < r.ask; i++ {
			r.reported[i] = vs.Bool("reported")
			if !r.reported[i] {
				continue
			}
			r.nReports++
			r.inTime[i] = true
			if r.hasResult {
				r.inTime[i] = vs.Bool("in_before_resolve") // stays symbolic: no fork
			}
			inTimeCount += vs.IteU64(r.inTime[i], 1, 0)
			rr := make([]types.RawReport, r.nRaw)
			for q := range rr {
				rr[q] = types.NewRawReport(raws[q].ExternalID, vs.U32("exit_code"), vs.Bytes("report_data", 1))
			}
			k.SetReport(ctx, r.id, types.NewReport(vals[i], r.inTime[i], rr))
		}
		if r.hasResult {
			// resolved earlier (SUCCESS/FAILURE) from the in-time reports, which were >= MinCount
			vs.Assume(inTimeCount >= minCount)
			status := types.ResolveStatus(vs.Int("resolve_status", 1, 2))
			resolveTime := vs.I64("resolve_time")
			vs.Assume(resolveTime >= reqTime && resolveTime <= st.now)
			r.result = types.NewResult("client", 1, r.req.Calldata, uint64(r.ask), minCount, r.id, inTimeCount,
				reqTime, resolveTime, status, vs.Bytes("result", 1))
			k.SetResult(ctx, r.id, r.result)
		} else {
			r.pending = vs.Bool("pending")
			// O6/O7: pending iff enough reports have arrived
			vs.Assume(r.pending == (uint64(r.nReports) >= minCount))
			if r.pending {
				st.pending = append(st.pending, r.id)
			}
		}
		st.reqs = append(st.reqs, r)
	}
	k.SetPendingResolveList(ctx, st.pending)
	return ctx, st
}

func c01SamePending(a []types.RequestID, b []types.RequestID) bool {
	if len(a) != len(b) {
		return false
	}
	ok := true
	for i := range a {
		ok = vs.And(ok, a[i] == b[i])
	}
	return ok
}

func c01SameResult(a, b types.Result) bool {
	ok := a.ClientID == b.ClientID && len(a.Calldata) == len(b.Calldata) && len(a.Result) == len(b.Result)
	if !ok {
		return false
	}
	ok = vs.And(ok, a.OracleScriptID == b.OracleScriptID)
	ok = vs.And(ok, a.AskCount == b.AskCount)
	ok = vs.And(ok, a.MinCount == b.MinCount)
	ok = vs.And(ok, a.RequestID == b.RequestID)
	ok = vs.And(ok, a.AnsCount == b.AnsCount)
	ok = vs.And(ok, a.RequestTime == b.RequestTime)
	ok = vs.And(ok, a.ResolveTime == b.ResolveTime)
	ok = vs.And(ok, a.ResolveStatus == b.ResolveStatus)
	for i := range a.Calldata {
		ok = vs.And(ok, a.Calldata[i] == b.Calldata[i])
	}
	for i := range a.Result {
		ok = vs.And(ok, a.Result[i] == b.Result[i])
	}
	return ok
}

// VerifC01ReportData: one MsgReportData from any validator for any request id against an arbitrary state.
func VerifC01ReportData() {
	e := verifSetup()
	nReq := vs.Param("n_req")
	ctx, st := c01Build(e, nReq, vs.Param("max_ask"), vs.Param("max_raw"))
	k := e.k

	// ---- the message
	valIdx := vs.Pick("msg_validator", c01MaxVals+1) // index c01MaxVals = a validator nobody requested
	val := venv.ValAddr(valIdx + 1)
	rid := types.RequestID(vs.U64("msg_request_id"))
	nRep := 1 + vs.Pick("msg_raw_count", 2)
	raw := make([]types.RawReport, nRep)
	for i := range raw {
		raw[i] = types.NewRawReport(types.ExternalID(vs.U64("msg_external_id")), vs.U32("msg_exit_code"), vs.Bytes("msg_data", 2*vs.Pick("msg_data_len", 2)))
	}
	msg := types.NewMsgReportData(rid, raw, val)
	vs.Assume(msg.ValidateBasic() == nil)

	_, err := NewMsgServerImpl(k).ReportData(ctx, msg)

	// ---- specification
	target := -1
	for j := range st.reqs {
		if rid == st.reqs[j].id {
			target = j
		}
	}
	sizeOK := true
	for i := range raw {
		sizeOK = vs.And(sizeOK, uint64(len(raw[i].Data)) <= st.maxData)
	}
	specOK := false
	if target >= 0 {
		r := st.reqs[target]
		if valIdx < r.ask && !r.reported[valIdx] && nRep == r.nRaw {
			specOK = sizeOK
			for i := range raw {
				found := false
				for q := 0; q < r.nRaw; q++ {
					found = vs.Or(found, raw[i].ExternalID == r.req.RawRequests[q].ExternalID)
				}
				specOK = vs.And(specOK, found)
			}
		}
	}
	vs.Assert("accepted-iff-authorised", (err == nil) == specOK)

	// ---- effects
	gotPending := k.GetPendingResolveList(ctx)
	for j, r := range st.reqs {
		wantReports := r.nReports
		if err == nil && j == target {
			wantReports++
		}
		vs.Assert("report-count", k.GetReportCount(ctx, r.id) == uint64(wantReports))
		for i := 0; i < c01MaxVals+1; i++ {
			want := i < r.ask && r.reported[i]
			if err == nil && j == target && i == valIdx {
				want = true
			}
			vs.Assert("has-report", k.HasReport(ctx, r.id, venv.ValAddr(i+1)) == want)
		}
		// results are never touched by a report
		vs.Assert("result-presence-unchanged", k.HasResult(ctx, r.id) == r.hasResult)
		if r.hasResult {
			got, gerr := k.GetResult(ctx, r.id)
			vs.Assert("result-immutable", gerr == nil && c01SameResult(got, r.result))
		}
		_, rerr := k.GetRequest(ctx, r.id)
		vs.Assert("request-kept", rerr == nil)
	}
	vs.Assert("cursor-unchanged", uint64(k.GetRequestLastExpired(ctx)) == st.lastExpired && k.GetRequestCount(ctx) == st.count)

	if err != nil {
		vs.Assert("rejected-pending-unchanged", c01SamePending(gotPending, st.pending))
		vs.Reach("rejected", true)
		return
	}
	r := st.reqs[target]
	// the stored report
	reps := k.GetReports(ctx, r.id)
	foundNew := false
	for _, rep := range reps {
		if rep.Validator == val.String() {
			foundNew = true
			vs.Assert("report-in-time-flag", rep.InBeforeResolve == !r.hasResult)
			vs.Assert("report-size", len(rep.RawReports) == nRep)
		}
	}
	vs.Assert("report-stored", foundNew)
	// pending list: appended exactly when the count becomes MinCount and no result exists
	becomes := !r.hasResult && uint64(r.nReports+1) == r.req.MinCount
	if becomes {
		want := append(append([]types.RequestID{}, st.pending...), r.id)
		vs.Assert("pending-appended-once", c01SamePending(gotPending, want))
		vs.Reach("accepted-triggers-resolve", true)
	} else {
		vs.Assert("pending-unchanged", c01SamePending(gotPending, st.pending))
		if r.hasResult {
			vs.Reach("accepted-late-report", true)
		} else if uint64(r.nReports+1) > r.req.MinCount {
			vs.Reach("accepted-beyond-min-count", true)
		} else {
			vs.Reach("accepted-below-min-count", true)
		}
	}
	// invariant O6/O7 for the target afterwards
	inPending := false
	for _, id := range gotPending {
		inPending = vs.Or(inPending, id == r.id)
	}
	if !r.hasResult {
		vs.Assert("inv-pending-iff-enough", inPending == (uint64(r.nReports+1) >= r.req.MinCount))
	} else {
		vs.Assert("inv-resolved-not-pending", !inPending)
	}
}

// VerifC01EndBlock: oracle end-blocker from an arbitrary state: every pending request gets exactly one
// result mirroring the request; existing results are immutable; expiry in id order; no panic escapes.
func VerifC01EndBlockWith(verifEndBlocker func(sdk.Context, Keeper) error) {
	e := verifSetup()
	nReq := vs.Param("n_req")
	ctx, st := c01Build(e, nReq, vs.Param("max_ask"), vs.Param("max_raw"))
	k := e.k

	// owasm behaviour for each pending request, bandtss behaviour
	nPending := len(st.pending)
	for i := 0; i < nPending; i++ {
		pl := verifExecPlan{Err: vs.Bool("owasm_err"), SetData: vs.Bool("owasm_sets_data"), GasUsed: vs.U64("owasm_gas")}
		if pl.SetData {
			pl.Data = vs.Bytes("owasm_retdata", vs.Pick("owasm_retdata_len", 2))
		}
		verifExecPlans = append(verifExecPlans, pl)
	}
	e.bandtss.Mode = vs.Pick("bandtss_mode", 3)
	e.bandtss.NextID = vs.U64("bandtss_signing_id")

	err := verifEndBlocker(ctx, k)
	vs.Assert("endblock-no-error", err == nil)

	vs.Assert("pending-cleared", len(k.GetPendingResolveList(ctx)) == 0)
	vs.Assert("owasm-once-per-pending", verifExecCalls == nPending)

	// expected expiry prefix: requests in id order while RequestHeight + exp <= height
	nExpired := 0
	for j := range st.reqs {
		if j == nExpired && st.reqs[j].req.RequestHeight+int64(st.expBlocks) <= st.height {
			nExpired++
		}
	}
	vs.Assert("cursor-advanced", uint64(k.GetRequestLastExpired(ctx)) == st.lastExpired+uint64(nExpired))
	vs.Assert("count-unchanged", k.GetRequestCount(ctx) == st.count)

	planIdx := 0
	signCalls := 0
	for j, r := range st.reqs {
		expired := j < nExpired
		got, gerr := k.GetResult(ctx, r.id)
		switch {
		case r.hasResult:
			// immutability, also across expiry
			vs.Assert("result-immutable", gerr == nil && c01SameResult(got, r.result))
		case r.pending:
			pl := verifExecPlans[planIdx]
			planIdx++
			vs.Assert("resolved-result-exists", gerr == nil)
			if gerr == nil {
				wantStatus := types.RESOLVE_STATUS_SUCCESS
				if pl.Err || !pl.SetData {
					wantStatus = types.RESOLVE_STATUS_FAILURE
				}
				vs.Assert("resolved-status", got.ResolveStatus == wantStatus)
				mirror := got.ClientID == r.req.ClientID && len(got.Calldata) == len(r.req.Calldata)
				vs.Assert("resolved-mirrors-shape", mirror)
				ok := got.OracleScriptID == r.req.OracleScriptID
				ok = vs.And(ok, got.AskCount == uint64(r.ask))
				ok = vs.And(ok, got.MinCount == r.req.MinCount)
				ok = vs.And(ok, got.RequestID == r.id)
				ok = vs.And(ok, got.AnsCount == uint64(r.nReports))
				ok = vs.And(ok, got.RequestTime == r.req.RequestTime)
				ok = vs.And(ok, got.ResolveTime == st.now)
				for i := range got.Calldata {
					if i < len(r.req.Calldata) {
						ok = vs.And(ok, got.Calldata[i] == r.req.Calldata[i])
					}
				}
				vs.Assert("resolved-mirrors-request", ok)
				if wantStatus == types.RESOLVE_STATUS_SUCCESS {
					same := len(got.Result) == len(pl.Data)
					vs.Assert("resolved-result-len", same)
					for i := range got.Result {
						if i < len(pl.Data) {
							vs.Assert("resolved-result-bytes", got.Result[i] == pl.Data[i])
						}
					}
					if r.req.TSSEncoder != types.ENCODER_UNSPECIFIED {
						signCalls++
						sr, serr := k.GetSigningResult(ctx, r.id)
						vs.Assert("signing-result-recorded", serr == nil)
						if e.bandtss.Mode == 0 {
							vs.Assert("signing-id-recorded", uint64(sr.SigningID) == e.bandtss.NextID && sr.ErrorCode == 0)
						} else {
							vs.Assert("signing-failure-recorded", sr.SigningID == 0 && sr.ErrorCode != 0)
						}
					}
					vs.Reach("resolved-success", true)
				} else {
					vs.Assert("failure-empty-result", len(got.Result) == 0)
					vs.Reach("resolved-failure", true)
				}
			}
		case expired:
			vs.Assert("expired-result-exists", gerr == nil)
			if gerr == nil {
				vs.Assert("expired-status", got.ResolveStatus == types.RESOLVE_STATUS_EXPIRED)
				ok := got.RequestID == r.id
				ok = vs.And(ok, got.AnsCount == uint64(r.nReports))
				ok = vs.And(ok, got.MinCount == r.req.MinCount)
				ok = vs.And(ok, got.RequestTime == r.req.RequestTime)
				ok = vs.And(ok, got.ResolveTime == st.now)
				vs.Assert("expired-mirrors-request", ok)
				vs.Reach("expired", true)
			}
		default:
			vs.Assert("open-request-has-no-result", gerr != nil)
			vs.Reach("stays-open", true)
		}
		// request and reports are deleted exactly for the expired prefix
		_, rerr := k.GetRequest(ctx, r.id)
		vs.Assert("request-deleted-iff-expired", (rerr != nil) == expired)
		if expired {
			vs.Assert("reports-deleted", k.GetReportCount(ctx, r.id) == 0)
		} else {
			vs.Assert("reports-kept", k.GetReportCount(ctx, r.id) == uint64(r.nReports))
		}
	}
	vs.Assert("signing-requested-once-per-success", e.bandtss.Calls == signCalls)
	// a failed or panicking signing creation leaves nothing behind (cache context dropped)
	marker := ctx.KVStore(e.key).Has(verifMarkerKey)
	vs.Assert("failed-signing-rolled-back", marker == (e.bandtss.Mode == 0 && signCalls > 0))
}
