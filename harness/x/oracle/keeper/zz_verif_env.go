//go:build verif

package keeper

import (
	"errors"

	capabilitykeeper "github.com/cosmos/ibc-go/modules/capability/keeper"

	storetypes "cosmossdk.io/store/types"

	sdk "github.com/cosmos/cosmos-sdk/types"

	owasm "github.com/bandprotocol/go-owasm/api"

	"github.com/bandprotocol/chain/v3/vsupport/venv"
	bandtsstypes "github.com/bandprotocol/chain/v3/x/bandtss/types"
	"github.com/bandprotocol/chain/v3/x/oracle/types"
	tsstypes "github.com/bandprotocol/chain/v3/x/tss/types"
)

// ---- owasm VM behaviour chosen by the harness (the engine redirects (*owasm.Vm).Execute/Prepare here;
// the native replay build is patched to call these, see owasm*.npatch)

type verifExecPlan struct {
	Err     bool
	SetData bool
	Data    []byte
	GasUsed uint64
}

var verifExecPlans []verifExecPlan // consumed in call order
var verifExecCalls int

func verifOwasmExecute(vm owasm.Vm, code []byte, gasLimit uint64, env owasm.EnvInterface) (owasm.RunOutput, error) {
	if verifExecCalls >= len(verifExecPlans) {
		panic("verif: unexpected owasm Execute call")
	}
	p := verifExecPlans[verifExecCalls]
	verifExecCalls++
	if p.SetData {
		if err := env.SetReturnData(p.Data); err != nil {
			return owasm.RunOutput{}, err
		}
	}
	if p.Err {
		return owasm.RunOutput{}, errors.New("owasm: runtime error")
	}
	return owasm.RunOutput{GasUsed: p.GasUsed}, nil
}

// prepare-phase behaviour: the script asks for external data in the planned order, then fails or not
type verifPrepAsk struct {
	Eid, Did int64
	Data     []byte
}

type verifPrepPlan struct {
	Asks    []verifPrepAsk
	Err     bool
	GasUsed uint64
}

var verifPrepPlanV *verifPrepPlan
var verifPrepCalls int
var verifPrepGasLimit uint64

func verifOwasmPrepare(vm owasm.Vm, code []byte, gasLimit uint64, env owasm.EnvInterface) (owasm.RunOutput, error) {
	if verifPrepPlanV == nil {
		panic("verif: owasm Prepare is not planned in this harness")
	}
	verifPrepCalls++
	verifPrepGasLimit = gasLimit
	for _, a := range verifPrepPlanV.Asks {
		if err := env.AskExternalData(a.Eid, a.Did, a.Data); err != nil {
			return owasm.RunOutput{}, err
		}
	}
	if verifPrepPlanV.Err {
		return owasm.RunOutput{}, errors.New("owasm: runtime error")
	}
	return owasm.RunOutput{GasUsed: verifPrepPlanV.GasUsed}, nil
}

// ---- bandtss neighbour: ok / error / panic, after writing a marker into the (cache) context

type verifBandtss struct {
	key    storetypes.StoreKey
	Mode   int // 0 ok, 1 error, 2 panic
	Calls  int
	NextID uint64
	Seen   []tsstypes.Content
}

var verifMarkerKey = []byte{0xEE, 0x01}

func (b *verifBandtss) CreateDirectSigningRequest(
	ctx sdk.Context, content tsstypes.Content, memo string, sender sdk.AccAddress, feeLimit sdk.Coins,
) (bandtsstypes.SigningID, error) {
	b.Calls++
	b.Seen = append(b.Seen, content)
	ctx.KVStore(b.key).Set(verifMarkerKey, []byte{1})
	switch b.Mode {
	case 1:
		return 0, bandtsstypes.ErrFeeExceedsLimit
	case 2:
		panic("verif: bandtss panics")
	}
	return bandtsstypes.SigningID(b.NextID), nil
}

// rolling seed neighbour: a fixed 32-byte seed (its value is irrelevant: the DRBG output is arbitrary)
type verifRollingSeed struct{}

func (verifRollingSeed) GetRollingSeed(ctx sdk.Context) []byte {
	b := make([]byte, 32)
	for i := range b {
		b[i] = byte(i + 1)
	}
	return b
}

type verifEnv struct {
	ctx     sdk.Context
	k       Keeper
	key     storetypes.StoreKey
	bandtss *verifBandtss
	staking *venv.Staking
}

func verifSetup() verifEnv {
	key := storetypes.NewKVStoreKey(types.StoreKey)
	ctx := venv.NewContext(key)
	bt := &verifBandtss{key: key}
	staking := venv.NewStaking()
	k := NewKeeper(
		venv.Codec(), key, venv.TempDir(), "fee_collector",
		venv.Auth{}, venv.NewBank(), staking, nil, venv.Authz{},
		nil, nil, verifRollingSeed{}, bt, capabilitykeeper.ScopedKeeper{}, venv.OwasmVM(), venv.Addr(9).String(),
	)
	verifExecPlans, verifExecCalls = nil, 0
	verifPrepPlanV, verifPrepCalls, verifPrepGasLimit = nil, 0, 0
	return verifEnv{ctx: ctx, k: k, key: key, bandtss: bt, staking: staking}
}
