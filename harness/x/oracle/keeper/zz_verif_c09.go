//go:build verif

package keeper

import (
	"time"

	sdkmath "cosmossdk.io/math"

	sdk "github.com/cosmos/cosmos-sdk/types"
	stakingtypes "github.com/cosmos/cosmos-sdk/x/staking/types"

	"github.com/bandprotocol/chain/v3/pkg/bandrng"
	vs "github.com/bandprotocol/chain/v3/vsupport"
	"github.com/bandprotocol/chain/v3/vsupport/venv"
	"github.com/bandprotocol/chain/v3/x/oracle/types"
)

func init() { vs.RegisterHarness("VerifC09RandomValidators", VerifC09RandomValidators) }

// VerifC09RandomValidators: GetRandomValidators over an arbitrary validator set (bonded flag, oracle activity flag
// and tokens symbolic) with every DRBG draw symbolic: error iff fewer eligible validators than asked; otherwise
// exactly `size` pairwise distinct validators, each bonded and oracle-active.
func VerifC09RandomValidators() {
	e := verifSetup()
	k := e.k
	ctx := e.ctx.WithBlockHeight(10).WithBlockTime(time.Unix(1000, 0).UTC()).WithChainID("bandchain")
	n := vs.Param("n")
	p := types.DefaultParams()
	tries := vs.Param("tries")
	p.SamplingTryCount = uint64(tries)
	ctx.KVStore(k.storeKey).Set(types.ParamsKeyPrefix, k.cdc.MustMarshal(&p))

	eligible := make([]bool, n)
	nEligible := 0
	sum := uint64(0)
	for i := 0; i < n; i++ {
		bonded := vs.Bool("bonded")
		active := vs.Bool("oracle_active")
		tokens := vs.U64("tokens")
		vs.Assume(tokens >= 1)
		vs.Assume(sum+tokens >= sum)
		sum += tokens
		st := stakingtypes.Unbonded
		if bonded {
			st = stakingtypes.Bonded
		}
		e.staking.Vals = append(e.staking.Vals, stakingtypes.Validator{
			OperatorAddress: venv.ValAddr(i + 1).String(), Status: st, Tokens: sdkmath.NewIntFromUint64(tokens),
		})
		if active {
			k.SetValidatorStatus(ctx, venv.ValAddr(i+1), types.NewValidatorStatus(true, time.Unix(5, 0).UTC()))
		}
		eligible[i] = bonded && active
		if eligible[i] {
			nEligible++
		}
	}
	size := vs.Pick("ask_count", n+1)
	id := vs.U64("request_id")
	draws := make([]uint64, size*tries)
	for i := range draws {
		draws[i] = vs.U64("draw")
	}
	bandrng.VerifSetStream(draws)

	vals, err := k.GetRandomValidators(ctx, size, id)

	vs.Assert("error-iff-too-few-eligible", (err != nil) == (nEligible < size))
	if err != nil {
		vs.Reach("insufficient", true)
		return
	}
	vs.Assert("exactly-ask-count", len(vals) == size)
	for i, v := range vals {
		isEligible := false
		for j := 0; j < n; j++ {
			if sdk.ValAddress(v).Equals(venv.ValAddr(j + 1)) {
				isEligible = eligible[j]
			}
		}
		vs.Assert("only-bonded-and-active", isEligible)
		for q := 0; q < i; q++ {
			vs.Assert("distinct", !sdk.ValAddress(v).Equals(vals[q]))
		}
	}
	if size > 0 {
		vs.Reach("selected", true)
	}
}
