//go:build verif

package keeper

import (
	"time"

	sdkmath "cosmossdk.io/math"

	sdk "github.com/cosmos/cosmos-sdk/types"
	stakingtypes "github.com/cosmos/cosmos-sdk/x/staking/types"

	"github.com/bandprotocol/chain/v3/pkg/bandrng"
	vs "github.com/bandprotocol/chain/v3/vsupport"
	"github.com/bandprotocol/chain/v3/vsupport/venv"
	"github.com/bandprotocol/chain/v3/x/oracle/types"
)

func init() {
	vs.RegisterHarness("VerifC01RequestData", VerifC01RequestData)
	vs.RegisterHarness("VerifC01RequestDataPrepare", VerifC01RequestDataPrepare)
}

// VerifC01RequestData varies the validator set, the ask count, the script id and the calldata with a
// one-ask prepare phase; VerifC01RequestDataPrepare fixes one eligible validator and varies the prepare phase.
func VerifC01RequestData()        { verifC01RequestData(false) }
func VerifC01RequestDataPrepare() { verifC01RequestData(true) }

// VerifC01RequestData: one MsgRequestData (ValidateBasic, then the message server → PrepareRequest) against an
// arbitrary validator set, parameter set and prepare-phase behaviour of the oracle script. The request is
// accepted exactly when the documented conditions hold, and an accepted request is stored under the next id
// with the message's fields, the block's height/time, exactly ask_count distinct eligible validators and the raw
// requests the script asked for, in order.
func verifC01RequestData(varyPrepare bool) {
	e := verifSetup()
	k := e.k
	height := vs.I64("height")
	now := vs.I64("now")
	vs.Assume(height >= 1 && height < 1<<40 && now >= 0 && now < 1<<40)
	ctx := e.ctx.WithBlockHeight(height).WithBlockTime(time.Unix(now, 0).UTC()).WithChainID("bandchain")

	n := vs.Param("n")
	p := types.DefaultParams()
	p.SamplingTryCount = 1
	p.MaxAskCount = vs.U64("max_ask_count")
	p.MaxCalldataSize = vs.U64("max_calldata_size")
	p.MaxReportDataSize = vs.U64("max_report_data_size")
	p.MaxRawRequestCount = vs.U64("max_raw_request_count")
	vs.Assume(p.MaxAskCount < 1<<20 && p.MaxCalldataSize < 1<<20)
	vs.Assume(p.MaxReportDataSize < 1<<20 && p.MaxRawRequestCount < 1<<20)
	ctx.KVStore(k.storeKey).Set(types.ParamsKeyPrefix, k.cdc.MustMarshal(&p))

	count := vs.U64("request_count")
	vs.Assume(count < 1<<40)
	k.SetRequestCount(ctx, count)

	fname := k.fileCache.AddFile([]byte("code"))
	k.SetOracleScript(ctx, 1, types.NewOracleScript(venv.Addr(8), "s", "d", fname, "", ""))
	k.SetDataSource(ctx, 1, types.NewDataSource(venv.Addr(8), "n", "d", "f", sdk.NewCoins(), venv.Addr(2)))

	eligible := make([]bool, n)
	nEligible := 0
	sum := uint64(0)
	for i := 0; i < n; i++ {
		bonded, active := true, true
		if !varyPrepare {
			bonded, active = vs.Bool("bonded"), vs.Bool("oracle_active")
		}
		tokens := vs.U64("tokens")
		vs.Assume(tokens >= 1)
		vs.Assume(sum+tokens >= sum)
		sum += tokens
		st := stakingtypes.Unbonded
		if bonded {
			st = stakingtypes.Bonded
		}
		e.staking.Vals = append(e.staking.Vals, stakingtypes.Validator{
			OperatorAddress: venv.ValAddr(i + 1).String(), Status: st, Tokens: sdkmath.NewIntFromUint64(tokens),
		})
		k.SetValidatorStatus(ctx, venv.ValAddr(i+1), types.NewValidatorStatus(active, time.Unix(5, 0).UTC()))
		eligible[i] = vs.And(bonded, active)
		nEligible += int(vs.IteU64(eligible[i], 1, 0))
	}

	// the message
	ask, scriptID, calldataLen := n, 1, 1
	if !varyPrepare {
		ask = vs.Pick("ask_count", n+2)
		scriptID = 1 + vs.Pick("oracle_script_id", 2) // 2 does not exist
		calldataLen = vs.Pick("calldata_len", 2)
	}
	minCount := vs.U64("min_count")
	calldata := vs.Bytes("calldata", calldataLen)
	prepareGas := vs.U64("prepare_gas")
	executeGas := vs.U64("execute_gas")
	// bound: the two gas amounts do not wrap when added (a wrapping sum passes ValidateBasic's "sum <= maximum"
	// test, and the request is then stopped by gas metering, which this harness does not model)
	vs.Assume(prepareGas < 1<<63 && executeGas < 1<<63)
	encoder := types.Encoder(vs.I64("tss_encoder"))
	msg := types.NewMsgRequestData(types.OracleScriptID(scriptID), calldata, uint64(ask), minCount, "client",
		sdk.NewCoins(), prepareGas, executeGas, venv.Addr(5), encoder)

	// prepare-phase behaviour of the script
	nAsk := 1
	plan := &verifPrepPlan{Err: vs.Bool("prepare_err"), GasUsed: vs.U64("prepare_gas_used")}
	badDS, longAt := nAsk, nAsk
	if varyPrepare {
		nAsk = vs.Pick("n_external_data", vs.Param("max_raw")+1)
		badDS = vs.Pick("unknown_data_source_at", nAsk+1) // index of the ask naming a data source that does not exist (nAsk: none)
		longAt = vs.Pick("long_calldata_at", nAsk+1)      // index of the ask with 1 byte of calldata (others 0; the maximum may be 0)
	}
	for i := 0; i < nAsk; i++ {
		did, l := int64(1), 0
		if i == badDS {
			did = 2
		}
		if i == longAt {
			l = 1
		}
		plan.Asks = append(plan.Asks, verifPrepAsk{Eid: vs.I64("external_id"), Did: did, Data: vs.Bytes("raw_calldata", l)})
	}
	verifPrepPlanV = plan

	draws := make([]uint64, ask)
	for i := range draws {
		draws[i] = vs.U64("draw")
	}
	bandrng.VerifSetStream(draws)

	// ---- specification
	okBasic := vs.And(minCount >= 1, uint64(ask) >= minCount)
	okBasic = vs.And(okBasic, vs.And(prepareGas >= 1, executeGas >= 1))
	okBasic = vs.And(okBasic, vs.And(prepareGas <= types.MaximumOwasmGas, executeGas <= types.MaximumOwasmGas-prepareGas))
	okBasic = vs.And(okBasic, vs.And(encoder >= 0, encoder <= 3))
	span := vs.IteU64(p.MaxReportDataSize > p.MaxCalldataSize, p.MaxReportDataSize, p.MaxCalldataSize)
	okReq := vs.And(uint64(len(calldata)) <= span, uint64(ask) <= p.MaxAskCount)
	okReq = vs.And(okReq, vs.And(nEligible >= ask, scriptID == 1))
	okPrep := vs.And(!plan.Err, nAsk >= 1)
	for i, a := range plan.Asks {
		okPrep = vs.And(okPrep, vs.And(uint64(len(a.Data)) <= p.MaxCalldataSize, uint64(i) < p.MaxRawRequestCount))
		okPrep = vs.And(okPrep, a.Did == 1)
		for q := 0; q < i; q++ {
			okPrep = vs.And(okPrep, plan.Asks[q].Eid != a.Eid)
		}
	}

	errBasic := msg.ValidateBasic()
	vs.Assert("validate-basic-iff", (errBasic == nil) == okBasic)
	if errBasic != nil {
		vs.Reach("rejected-stateless", true)
		return
	}
	_, err := NewMsgServerImpl(k).RequestData(ctx, msg)
	vs.Assert("accepted-iff", (err == nil) == vs.And(okReq, okPrep))
	if err != nil {
		vs.Reach("rejected", true)
		return
	}
	vs.Reach("accepted", true)
	vs.Assert("prepare-ran-once", verifPrepCalls == 1)
	vs.Assert("prepare-gas-limit", verifPrepGasLimit == prepareGas*gasConversionFactor)
	vs.Assert("count-incremented", k.GetRequestCount(ctx) == count+1)
	got, gerr := k.GetRequest(ctx, types.RequestID(count+1))
	vs.Assert("stored-under-next-id", gerr == nil)
	if gerr != nil {
		return
	}
	ok := got.OracleScriptID == 1 && got.ClientID == "client" && len(got.Calldata) == len(calldata)
	ok = ok && got.Requester == venv.Addr(5).String() && got.IBCChannel == nil
	vs.Assert("request-mirrors-message-shape", ok)
	m := got.MinCount == minCount
	m = vs.And(m, got.RequestHeight == height)
	m = vs.And(m, got.RequestTime == now)
	m = vs.And(m, got.ExecuteGas == executeGas)
	m = vs.And(m, got.TSSEncoder == encoder)
	for i := range got.Calldata {
		if i < len(calldata) {
			m = vs.And(m, got.Calldata[i] == calldata[i])
		}
	}
	vs.Assert("request-mirrors-message", m)

	vs.Assert("exactly-ask-count-validators", len(got.RequestedValidators) == ask)
	chosen := make([]sdk.ValAddress, 0, ask)
	for _, s := range got.RequestedValidators {
		v, verr := sdk.ValAddressFromBech32(s)
		vs.Assert("validator-address-valid", verr == nil)
		if verr != nil {
			return
		}
		isEligible := false
		for j := 0; j < n; j++ {
			isEligible = vs.Or(isEligible, vs.And(v.Equals(venv.ValAddr(j+1)), eligible[j]))
		}
		vs.Assert("only-bonded-and-active", isEligible)
		for _, o := range chosen {
			vs.Assert("validators-distinct", !v.Equals(o))
		}
		chosen = append(chosen, v)
	}

	vs.Assert("raw-requests-count", len(got.RawRequests) == nAsk)
	for i, rr := range got.RawRequests {
		if i >= nAsk {
			break
		}
		a := plan.Asks[i]
		r := rr.ExternalID == types.ExternalID(a.Eid) && rr.DataSourceID == types.DataSourceID(a.Did) && len(rr.Calldata) == len(a.Data)
		vs.Assert("raw-request-mirrors-ask", r)
		for q := range rr.Calldata {
			if q < len(a.Data) {
				vs.Assert("raw-request-calldata", rr.Calldata[q] == a.Data[q])
			}
		}
	}
	// nothing else: no result, no report, not pending
	vs.Assert("fresh-request-has-no-result", !k.HasResult(ctx, types.RequestID(count+1)))
	vs.Assert("fresh-request-not-pending", len(k.GetPendingResolveList(ctx)) == 0)
}
