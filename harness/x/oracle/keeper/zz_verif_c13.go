//go:build verif

package keeper

import (
	"math/big"

	capabilitykeeper "github.com/cosmos/ibc-go/modules/capability/keeper"

	sdkmath "cosmossdk.io/math"
	storetypes "cosmossdk.io/store/types"

	sdk "github.com/cosmos/cosmos-sdk/types"

	vs "github.com/bandprotocol/chain/v3/vsupport"
	"github.com/bandprotocol/chain/v3/vsupport/venv"
	"github.com/bandprotocol/chain/v3/x/oracle/types"
)

func init() {
	vs.RegisterHarness("VerifC13CollectFee", VerifC13CollectFee)
}

var c13Denoms = [2]string{"uband", "utest"}

const c13AmtBits = 96

// c13Coins builds a valid sdk.Coins value (sorted, positive amounts) whose shape is concrete
// (bit 0: uband present, bit 1: utest present) and whose amounts are symbolic. The second result
// holds the amount per denom as a mathematical integer (0 when absent).
func c13Coins(label string, shape int) (sdk.Coins, [2]*big.Int) {
	var amt [2]*big.Int
	coins := sdk.Coins{}
	for d := 0; d < 2; d++ {
		amt[d] = big.NewInt(0)
		if shape&(1<<d) != 0 {
			a := vs.BigU(label, c13AmtBits)
			vs.Assume(a.Sign() > 0)
			amt[d] = a
			coins = append(coins, sdk.Coin{Denom: c13Denoms[d], Amount: sdkmath.NewIntFromBigInt(a)})
		}
	}
	return coins, amt
}

func c13Le(a, b *big.Int) bool { return a.Cmp(b) <= 0 }

// VerifC13CollectFee: one CollectFee call (the fee step of PrepareRequest) over an arbitrary fee table.
//
// Accounts: payer = Addr(1); treasuries Addr(2), Addr(3) (data source 2 may share the treasury of data
// source 1 or, with param "payer_treasury", be the payer itself). Data source ids 1..2 exist, 3 does not.
func VerifC13CollectFee() {
	key := storetypes.NewKVStoreKey(types.StoreKey)
	ctx := venv.NewContext(key)
	bank := venv.NewBank()
	k := NewKeeper(venv.Codec(), key, "", "fee_collector", nil, bank, nil, nil, nil, nil, nil, nil, nil,
		capabilitykeeper.ScopedKeeper{}, nil, venv.Addr(9).String())

	payer := venv.Addr(1)
	accts := []sdk.AccAddress{payer, venv.Addr(2), venv.Addr(3)}
	const nDS = 2

	// ---- the raw requests produced by the prepare phase: concrete ids, any order, repeats allowed
	maxRaw := vs.Param("max_raw")
	nRaw := vs.Pick("n_raw", maxRaw+1)
	ids := make([]int, nRaw)
	used := [nDS + 2]bool{}
	var raws []types.RawRequest
	for i := 0; i < nRaw; i++ {
		ids[i] = 1 + vs.Pick("ds_id", nDS+1) // nDS+1 = unknown data source
		used[ids[i]] = true
		raws = append(raws, types.NewRawRequest(types.ExternalID(i+1), types.DataSourceID(ids[i]), []byte("c")))
	}

	// ---- fee table (only the referenced data sources matter; the others get an arbitrary concrete entry)
	var fee [nDS + 1][2]*big.Int
	var treasury [nDS + 1]int // index into accts
	for id := 1; id <= nDS; id++ {
		shape := 1
		if used[id] {
			shape = vs.Pick("ds_fee_shape", 4)
		}
		coins, amt := c13Coins("ds_fee", shape)
		fee[id] = amt
		treasury[id] = id // Addr(2), Addr(3)
		if id == 2 && used[1] && used[2] {
			nT := 2
			if vs.Param("payer_treasury") != 0 {
				nT = 3
			}
			switch vs.Pick("ds2_treasury", nT) {
			case 1:
				treasury[id] = 1 // shared with data source 1
			case 2:
				treasury[id] = 0 // the payer itself
			}
		}
		ds := types.NewDataSource(venv.Addr(8), "n", "d", "f", coins, accts[treasury[id]])
		vs.Assume(ds.Fee.IsValid())
		k.SetDataSource(ctx, types.DataSourceID(id), ds)
	}

	// ---- request: ask count and fee limit
	askCount := vs.U64("ask_count")
	vs.Assume(askCount < 1<<32)
	limitCoins, limit := c13Coins("fee_limit", vs.Pick("limit_shape", 4))
	vs.Assume(limitCoins.IsValid())

	// ---- ledger: arbitrary balances. The payer's balance has a concrete shape (a coin is absent or
	// positive); treasury Addr(2) already holds uband, treasury Addr(3) is a fresh account.
	var pre [3][2]*big.Int
	for a := range accts {
		shape := 0
		switch a {
		case 0:
			shape = 3
			if nb := vs.Param("bal_shapes"); nb > 1 {
				shape = 3 - vs.Pick("bal_shape", nb)
			}
		case 1:
			shape = 1
		}
		coins, amt := c13Coins("balance", shape)
		pre[a] = amt
		bank.Set(accts[a], coins)
	}

	// ---- reference: sequential ledger over mathematical integers, branch-free
	ac := big.NewInt(int64(askCount)) // the same integer the code multiplies by (ask_count < 2^32)
	exp := pre
	var cum [2]*big.Int
	cum[0], cum[1] = big.NewInt(0), big.NewInt(0)
	okSpec := true
	known := true
	for i := 0; i < nRaw && known; i++ {
		if ids[i] > nDS {
			known = false
			break
		}
		t := treasury[ids[i]]
		for d := 0; d < 2; d++ {
			f := new(big.Int).Mul(fee[ids[i]][d], ac)
			cum[d] = new(big.Int).Add(cum[d], f)
			okSpec = vs.And(okSpec, c13Le(cum[d], limit[d]))
			okSpec = vs.And(okSpec, c13Le(f, exp[0][d]))
			exp[0][d] = new(big.Int).Sub(exp[0][d], f)
			exp[t][d] = new(big.Int).Add(exp[t][d], f)
		}
	}

	total, err := k.CollectFee(ctx, payer, limitCoins, askCount, raws)

	// the payer is never debited beyond the limit, whatever the outcome (limit is checked before each transfer)
	for d := 0; d < 2; d++ {
		now := bank.Get(payer).AmountOf(c13Denoms[d]).BigInt()
		debit := new(big.Int).Sub(pre[0][d], now)
		vs.Assert("debit-within-limit", c13Le(debit, limit[d]))
	}

	if err != nil {
		vs.Reach("rejected", true)
		vs.Assert("reject-only-if-short-or-unknown", !(known && okSpec))
		return
	}
	vs.Reach("accepted", true)
	vs.Assert("accept-only-if-affordable", known && okSpec)

	vs.Assert("total-valid", total.IsValid())
	for d := 0; d < 2; d++ {
		vs.Assert("total-exact", total.AmountOf(c13Denoms[d]).BigInt().Cmp(cum[d]) == 0)
		vs.Assert("total-within-limit", c13Le(cum[d], limit[d]))
		for a := range accts {
			got := bank.Get(accts[a]).AmountOf(c13Denoms[d]).BigInt()
			vs.Assert("ledger-exact", got.Cmp(exp[a][d]) == 0)
		}
	}
	// PrepareRequest stores FeeLimit.Sub(total): must not panic and is the exact remainder
	rest := limitCoins.Sub(total...)
	for d := 0; d < 2; d++ {
		want := new(big.Int).Sub(limit[d], cum[d])
		vs.Assert("remaining-limit-exact", rest.AmountOf(c13Denoms[d]).BigInt().Cmp(want) == 0)
	}
	if nRaw > 0 && cum[0].Sign()+cum[1].Sign() > 0 {
		vs.Reach("paid", true)
	}
}
