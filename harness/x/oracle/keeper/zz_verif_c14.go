//go:build verif

package keeper

import (
	"math/big"
	"time"

	abci "github.com/cometbft/cometbft/abci/types"
	cmtproto "github.com/cometbft/cometbft/proto/tendermint/types"

	sdkmath "cosmossdk.io/math"
	storetypes "cosmossdk.io/store/types"

	sdk "github.com/cosmos/cosmos-sdk/types"
	authtypes "github.com/cosmos/cosmos-sdk/x/auth/types"
	stakingtypes "github.com/cosmos/cosmos-sdk/x/staking/types"

	vs "github.com/bandprotocol/chain/v3/vsupport"
	"github.com/bandprotocol/chain/v3/vsupport/venv"
	"github.com/bandprotocol/chain/v3/x/oracle/types"
)

func init() {
	vs.RegisterHarness("VerifC14OracleAllocate", VerifC14OracleAllocate)
	vs.RegisterHarness("VerifC14OracleShares", VerifC14OracleShares)
	vs.RegisterHarness("VerifC14OracleRewardPercentageRange", VerifC14OracleRewardPercentageRange)
}

var c14Denoms = []string{"uband", "uusd"}

func c14Big(x int64) *big.Int { return new(big.Int).SetInt64(x) }

var c14One18 = new(big.Int).Exp(big.NewInt(10), big.NewInt(18), nil)

// c14Frac: power/total truncated to 18 decimals (in 10^-18 units), as the SDK decimal type defines it.
func c14Frac(power, total int64) *big.Int {
	return sdkmath.LegacyNewDec(power).QuoTruncate(sdkmath.LegacyNewDec(total)).BigInt()
}

// c14Dec: amount of denom in 10^-18 units.
func c14Dec(dc sdk.DecCoins, denom string) *big.Int { return dc.AmountOf(denom).BigInt() }

// c14Int: integer amount of denom.
func c14Int(c sdk.Coins, denom string) *big.Int { return c.AmountOf(denom).BigInt() }

// VerifC14OracleAllocate: one oracle begin-block allocation from an arbitrary fee pool, vote set,
// activity flags, reward percentage and community tax.
func VerifC14OracleAllocate() { verifC14OracleAllocate(false, nil) }

// VerifC14OracleBeginBlockWith: the same step driven through the module's BeginBlocker (passed in by the x/oracle
// package: keeper cannot import it). The votes of the last commit carry an arbitrary block-id flag (commit / nil /
// absent): like the distribution module, the allocation counts every validator of the last commit.
func VerifC14OracleBeginBlockWith(step func(sdk.Context, Keeper, []abci.VoteInfo) error) {
	verifC14OracleAllocate(false, step)
}

// VerifC14OracleShares: the same step and oracles with every validator registered and oracle-active, so that the
// bound on the number of voters can be larger: decides the proportional split and its rounding.
func VerifC14OracleShares() { verifC14OracleAllocate(true, nil) }

func verifC14OracleAllocate(allActive bool, step func(sdk.Context, Keeper, []abci.VoteInfo) error) {
	nVotes := vs.Param("votes")
	nDenoms := vs.Param("denoms")
	withPre := vs.Param("prestate") != 0
	nVals := nVotes + 1 // validator nVotes never votes (it may propose)

	key := storetypes.NewKVStoreKey(types.StoreKey)
	ctx := venv.NewContext(key)
	cdc := venv.Codec()
	auth := venv.AuthM{}
	bank := venv.NewBank()
	staking := venv.NewStakingC()

	taxUnits := vs.BigU("community_tax", 60)
	vs.Assume(taxUnits.Cmp(c14One18) <= 0)
	tax := sdkmath.LegacyNewDecFromBigIntWithPrec(taxUnits, sdkmath.LegacyPrecision)
	distr := venv.NewDistr(bank, tax)

	k := Keeper{
		storeKey:         key,
		cdc:              cdc,
		feeCollectorName: authtypes.FeeCollectorName,
		authKeeper:       auth,
		bankKeeper:       bank,
		stakingKeeper:    staking,
		distrKeeper:      distr,
	}

	p := types.DefaultParams()
	pct := vs.U64("oracle_reward_percentage")
	p.OracleRewardPercentage = pct
	vs.Assume(pct <= 100)
	vs.Assume(k.SetParams(ctx, p) == nil)

	// ---- validators, activity, votes
	registered := make([]bool, nVals)
	active := make([]bool, nVals)
	power := make([]int64, nVals)
	var votes []abci.VoteInfo
	sumPower := big.NewInt(0)
	for i := 0; i < nVals; i++ {
		registered[i] = true
		if i == 0 && !allActive {
			registered[i] = vs.Bool("registered")
		}
		if registered[i] {
			staking.AddValidator(venv.ConsAddr(i), stakingtypes.Validator{OperatorAddress: venv.ValAddr(i).String()})
		}
		active[i] = true
		if !allActive {
			active[i] = vs.Bool("oracle_active")
		}
		if active[i] {
			k.SetValidatorStatus(ctx, venv.ValAddr(i), types.NewValidatorStatus(true, time.Unix(100, 0)))
		} else if i%2 == 1 {
			k.SetValidatorStatus(ctx, venv.ValAddr(i), types.NewValidatorStatus(false, time.Unix(50, 0)))
		}
		if i < nVotes {
			power[i] = vs.I64("power")
			vs.Assume(power[i] >= 0)
			sumPower = new(big.Int).Add(sumPower, c14Big(power[i]))
			vi := abci.VoteInfo{Validator: abci.Validator{Address: venv.ConsAddr(i), Power: power[i]}}
			if step != nil {
				vi.BlockIdFlag = cmtproto.BlockIDFlag(vs.Int("block_id_flag", 1, 3))
			}
			votes = append(votes, vi)
		}
	}
	// CometBFT keeps the total voting power <= MaxInt64/8
	vs.Assume(sumPower.Cmp(c14Big(1<<60-1)) <= 0)

	proposer := vs.Pick("proposer", nVals)
	vs.Assume(registered[proposer]) // the block proposer is a validator known to staking
	ctx = ctx.WithBlockHeader(cmtproto.Header{ProposerAddress: venv.ConsAddr(proposer)})

	// ---- ledgers before
	feeAddr := venv.ModuleAddr(authtypes.FeeCollectorName)
	distrAddr := venv.ModuleAddr(venv.DistrModule)
	var feeCoins []sdk.Coin
	for d := 0; d < nDenoms; d++ {
		feeCoins = append(feeCoins, sdk.NewCoin(c14Denoms[d], sdkmath.NewIntFromBigInt(vs.BigU("fee_pool", 128))))
	}
	fee0 := sdk.NewCoins(feeCoins...)
	bank.Set(feeAddr, fee0)
	distrBal0 := sdk.Coins{}
	pool0 := sdk.DecCoins{}
	out0 := make([]sdk.DecCoins, nVals)
	for i := range out0 {
		out0[i] = sdk.DecCoins{}
	}
	if withPre {
		// arbitrary standing amounts in the first denom: distribution balance, community pool,
		// outstanding rewards of the proposer
		b := vs.BigU("distr_balance0", 128)
		pl := vs.BigU("community_pool0", 160)
		o := vs.BigU("outstanding0", 160)
		vs.Assume(b.Sign() > 0 && pl.Sign() > 0 && o.Sign() > 0)
		distrBal0 = sdk.NewCoins(sdk.NewCoin(c14Denoms[0], sdkmath.NewIntFromBigInt(b)))
		pool0 = sdk.DecCoins{sdk.NewDecCoinFromDec(c14Denoms[0], sdkmath.LegacyNewDecFromBigIntWithPrec(pl, 18))}
		out0[proposer] = sdk.DecCoins{sdk.NewDecCoinFromDec(c14Denoms[0], sdkmath.LegacyNewDecFromBigIntWithPrec(o, 18))}
		bank.Set(distrAddr, distrBal0)
		distr.Pool = pool0
		distr.Outstanding[venv.ValAddr(proposer).String()] = out0[proposer]
	}

	// total power of the rewarded set (an int64 sum; it cannot wrap under the voting-power bound)
	var totalPower int64
	for i := 0; i < nVotes; i++ {
		if registered[i] && active[i] {
			totalPower += power[i]
		}
	}
	// lemma (proved here, then available to the solver during the step): the truncated power
	// fractions of the rewarded validators add up to at most 1
	if totalPower != 0 {
		fracSum := big.NewInt(0)
		for i := 0; i < nVotes; i++ {
			if registered[i] && active[i] {
				fracSum = new(big.Int).Add(fracSum, c14Frac(power[i], totalPower))
			}
		}
		vs.Assert("lemma-fractions-sum-at-most-one", fracSum.Cmp(c14One18) <= 0)
	}

	// ---- the step
	var err error
	if step != nil {
		err = step(ctx, k, votes)
	} else {
		err = k.AllocateTokens(ctx, votes)
	}

	// ---- oracles
	_ = c14Big
	vs.Assert("no-error", err == nil)
	if err != nil {
		vs.Reach("error", true)
		return
	}
	vs.Assert("only-two-bank-accounts-touched", len(bank.Bal) <= 2)
	fee1 := bank.Get(feeAddr)
	distrBal1 := bank.Get(distrAddr)

	if totalPower == 0 {
		vs.Reach("nobody-active", true)
		vs.Assert("idle-no-allocation", distr.Allocs == 0 && distr.Funds == 0 && bank.Sends == 0)
		for d := 0; d < nDenoms; d++ {
			dn := c14Denoms[d]
			vs.Assert("idle-fee-collector-unchanged", c14Int(fee1, dn).Cmp(c14Int(fee0, dn)) == 0)
			vs.Assert("idle-pool-unchanged", c14Dec(distr.Pool, dn).Cmp(c14Dec(pool0, dn)) == 0)
		}
		return
	}
	vs.Reach("allocated", true)
	vs.Reach("proposer-inactive", !active[proposer])
	vs.Reach("proposer-not-voting", proposer == nVotes)

	pctB := new(big.Int).SetUint64(pct)
	for d := 0; d < nDenoms; d++ {
		dn := c14Denoms[d]
		f0, f1 := c14Int(fee0, dn), c14Int(fee1, dn)
		b0, b1 := c14Int(distrBal0, dn), c14Int(distrBal1, dn)
		moved := new(big.Int).Sub(f0, f1)

		// the fee collector pays exactly the truncated share, the distribution account receives it
		share := new(big.Int).Div(new(big.Int).Mul(f0, pctB), big.NewInt(100))
		vs.Assert("fee-collector-pays-truncated-share", moved.Cmp(share) == 0)
		vs.Assert("bank-conserved", new(big.Int).Sub(b1, b0).Cmp(moved) == 0)

		// community pool receives exactly trunc(share * tax) whole coins
		poolDelta := new(big.Int).Sub(c14Dec(distr.Pool, dn), c14Dec(pool0, dn))
		taxCoins := new(big.Int).Div(new(big.Int).Mul(moved, taxUnits), c14One18)
		vs.Assert("community-pool-gets-truncated-tax", poolDelta.Cmp(new(big.Int).Mul(taxCoins, c14One18)) == 0)

		// the distribution ledgers account for every coin that arrived: nothing minted, nothing lost
		ledger := new(big.Int).Set(poolDelta)
		rewardPot := new(big.Int).Sub(new(big.Int).Mul(moved, c14One18), poolDelta) // in 10^-18 units
		sumShares := big.NewInt(0)
		for i := 0; i < nVals; i++ {
			op := venv.ValAddr(i).String()
			delta := new(big.Int).Sub(c14Dec(distr.OutstandingOf(op), dn), c14Dec(out0[i], dn))
			ledger = new(big.Int).Add(ledger, delta)
			vs.Assert("reward-non-negative", delta.Sign() >= 0)

			rewarded := i < nVotes && registered[i] && active[i]
			want := big.NewInt(0)
			if rewarded {
				// reference: trunc(pot * trunc(power/total)) in 18-decimal fixed point
				frac := c14Frac(power[i], totalPower)
				want = new(big.Int).Div(new(big.Int).Mul(rewardPot, frac), c14One18)
				sumShares = new(big.Int).Add(sumShares, want)
			}
			if i != proposer {
				if rewarded {
					vs.Assert("active-validator-gets-power-share", delta.Cmp(want) == 0)
				} else {
					vs.Assert("inactive-validator-gets-nothing", delta.Sign() == 0)
				}
			}
		}
		vs.Assert("distribution-ledgers-match-coins", ledger.Cmp(new(big.Int).Mul(moved, c14One18)) == 0)

		// the proposer receives its own share (if rewarded) plus exactly the rounding remainder
		pop := venv.ValAddr(proposer).String()
		pdelta := new(big.Int).Sub(c14Dec(distr.OutstandingOf(pop), dn), c14Dec(out0[proposer], dn))
		pown := big.NewInt(0)
		if proposer < nVotes && registered[proposer] && active[proposer] {
			frac := c14Frac(power[proposer], totalPower)
			pown = new(big.Int).Div(new(big.Int).Mul(rewardPot, frac), c14One18)
		}
		remainder := new(big.Int).Sub(rewardPot, sumShares)
		vs.Assert("remainder-non-negative", remainder.Sign() >= 0)
		vs.Assert("proposer-gets-remainder", pdelta.Cmp(new(big.Int).Add(pown, remainder)) == 0)
	}
}

// VerifC14OracleRewardPercentageRange: the module's own parameter validation is the only guard on the
// reward percentage. Whatever SetParams accepts must not make the begin-block allocation fail (an error
// or a panic in a begin-blocker stops the chain).
func VerifC14OracleRewardPercentageRange() {
	key := storetypes.NewKVStoreKey(types.StoreKey)
	ctx := venv.NewContext(key)
	bank := venv.NewBank()
	staking := venv.NewStakingC()
	distr := venv.NewDistr(bank, sdkmath.LegacyNewDecWithPrec(2, 2))
	k := Keeper{
		storeKey:         key,
		cdc:              venv.Codec(),
		feeCollectorName: authtypes.FeeCollectorName,
		authKeeper:       venv.AuthM{},
		bankKeeper:       bank,
		stakingKeeper:    staking,
		distrKeeper:      distr,
	}
	p := types.DefaultParams()
	pct := vs.U64("oracle_reward_percentage")
	p.OracleRewardPercentage = pct
	vs.Assume(pct <= 1000)                // keeps the decimal arithmetic small; Validate has no bound at all
	vs.Assume(k.SetParams(ctx, p) == nil) // accepted by Params.Validate

	staking.AddValidator(venv.ConsAddr(0), stakingtypes.Validator{OperatorAddress: venv.ValAddr(0).String()})
	k.SetValidatorStatus(ctx, venv.ValAddr(0), types.NewValidatorStatus(true, time.Unix(100, 0)))
	ctx = ctx.WithBlockHeader(cmtproto.Header{ProposerAddress: venv.ConsAddr(0)})
	bank.Set(venv.ModuleAddr(authtypes.FeeCollectorName), sdk.NewCoins(sdk.NewInt64Coin(c14Denoms[0], 1000)))
	votes := []abci.VoteInfo{{Validator: abci.Validator{Address: venv.ConsAddr(0), Power: 10}}}

	err := k.AllocateTokens(ctx, votes)
	vs.Reach("in-range", pct <= 100)
	vs.Known("C14-reward-percentage-unbounded", pct > 100)
	vs.Assert("accepted-percentage-never-halts-begin-block", err == nil)
}
