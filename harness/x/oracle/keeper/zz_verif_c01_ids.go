//go:build verif

package keeper

import (
	"time"

	sdk "github.com/cosmos/cosmos-sdk/types"

	vs "github.com/bandprotocol/chain/v3/vsupport"
	"github.com/bandprotocol/chain/v3/vsupport/venv"
	"github.com/bandprotocol/chain/v3/x/oracle/types"
)

func init() { vs.RegisterHarness("VerifC01ReportExternalIDs", VerifC01ReportExternalIDs) }

// VerifC01ReportExternalIDs: the two-stage check of a report's external ids (MsgReportData.ValidateBasic, then
// Keeper.CheckValidReport, which relies on the former for uniqueness) for a request with n raw requests of
// pairwise distinct ids and a report of m raw reports with arbitrary ids from a chosen, not yet reporting
// validator: the report passes both stages exactly when it carries exactly the requested ids, each once
// (in any order).
func VerifC01ReportExternalIDs() {
	e := verifSetup()
	k := e.k
	ctx := e.ctx.WithBlockHeight(10).WithBlockTime(time.Unix(100, 0).UTC())
	n := vs.Param("n_raw")
	m := 1 + vs.Pick("n_reports", n+1) // 1..n+1 raw reports

	raws := make([]types.RawRequest, n)
	for i := range raws {
		raws[i] = types.NewRawRequest(types.ExternalID(vs.U64("requested_external_id")), 1, []byte("c"))
		for q := 0; q < i; q++ {
			vs.Assume(raws[q].ExternalID != raws[i].ExternalID)
		}
	}
	val := venv.ValAddr(1)
	req := types.NewRequest(1, []byte("cd"), []sdk.ValAddress{val}, 1, 5, time.Unix(50, 0).UTC(), "client", raws, nil, 1000,
		types.ENCODER_UNSPECIFIED, venv.Addr(5).String(), sdk.NewCoins())
	k.SetRequest(ctx, 1, req)

	reps := make([]types.RawReport, m)
	for i := range reps {
		reps[i] = types.NewRawReport(types.ExternalID(vs.U64("reported_external_id")), 0, []byte("d"))
	}
	msg := types.NewMsgReportData(1, reps, val)

	// specification: same count, every reported id requested, no id twice
	exact := m == n
	for i := range reps {
		in := false
		for q := range raws {
			in = vs.Or(in, reps[i].ExternalID == raws[q].ExternalID)
		}
		exact = vs.And(exact, in)
		for q := 0; q < i; q++ {
			exact = vs.And(exact, reps[q].ExternalID != reps[i].ExternalID)
		}
	}

	okBasic := msg.ValidateBasic() == nil
	okKeeper := false
	if okBasic {
		okKeeper = k.CheckValidReport(ctx, 1, val, reps) == nil
	}
	vs.Assert("accepted-iff-exactly-the-requested-ids", (okBasic && okKeeper) == exact)
	vs.Reach("accepted", okBasic && okKeeper)
	vs.Reach("rejected-stateless", !okBasic)
	vs.Reach("rejected-by-keeper", okBasic && !okKeeper)
}
