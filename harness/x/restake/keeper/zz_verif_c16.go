//go:build verif

package keeper

import (
	stderrors "errors"
	"math/big"

	sdkmath "cosmossdk.io/math"
	storetypes "cosmossdk.io/store/types"

	sdk "github.com/cosmos/cosmos-sdk/types"
	stakingtypes "github.com/cosmos/cosmos-sdk/x/staking/types"

	vs "github.com/bandprotocol/chain/v3/vsupport"
	"github.com/bandprotocol/chain/v3/vsupport/venv"
	"github.com/bandprotocol/chain/v3/x/restake/types"
)

func init() {
	vs.RegisterHarness("VerifC16Unstake", VerifC16Unstake)
	vs.RegisterHarness("VerifC16Stake", VerifC16Stake)
	vs.RegisterHarness("VerifC16SetLockedPower", VerifC16SetLockedPower)
	vs.RegisterHarness("VerifC16DeactivateVault", VerifC16DeactivateVault)
	vs.RegisterHarness("VerifC16StakingOps", VerifC16StakingOps)
	vs.RegisterHarness("VerifC16LockIndex", VerifC16LockIndex)
	vs.RegisterHarness("VerifC16IndexOrderConcrete", VerifC16IndexOrderConcrete)
}

// ---------------------------------------------------------------------------------------------------------------
// environment and arbitrary pre-state
// ---------------------------------------------------------------------------------------------------------------

var (
	c16Vaults = []string{"feeds", "tunnel", "tss"}
	c16Denoms = []string{"uband", "ustk"} // sorted
)

const (
	c16A = 0 // the acting account
	c16B = 1 // a bystander
)

type c16Env struct {
	ctx  sdk.Context
	key  storetypes.StoreKey
	k    Keeper
	bank *venv.Bank
	st   *venv.DelStaking
}

func c16Setup() *c16Env {
	key := storetypes.NewKVStoreKey(types.StoreKey)
	ctx := venv.NewContext(key)
	bank := venv.NewBank()
	st := venv.NewDelStaking()
	k := NewKeeper(venv.Codec(), key, venv.Auth{}, bank, st, venv.Addr(9).String())
	st.Hooks = k.Hooks()
	// two validators, exchange rate 1 (Tokens == DelegatorShares), one bonded and one not
	tokens := sdkmath.NewIntFromBigInt(new(big.Int).Lsh(big.NewInt(1), 80))
	st.AddValidator(venv.ValAddr(5), tokens, stakingtypes.Bonded)
	st.AddValidator(venv.ValAddr(6), tokens, stakingtypes.Unbonding)
	return &c16Env{ctx: ctx, key: key, k: k, bank: bank, st: st}
}

func c16Addr(a int) sdk.AccAddress { return venv.Addr(1 + a) }
func c16Val(v int) sdk.ValAddress  { return venv.ValAddr(5 + v) }

// c16Shape selects which structure of the pre-state is explored (everything else is symbolic).
type c16Shape struct {
	nV            int  // number of vault keys in play
	vaultNoLock   bool // also explore "vault exists but the actor has no lock in it"
	twoDelegs     bool // actor may hold delegations to both validators (else: at most validator 0)
	freeBalances  bool // accounts hold free (unstaked) balances
	allowedShapes int  // 1: both denoms allowed; 2: + only denom 0; 3: + none
}

// c16State is the recorded pre-state (symbolic leaves, concrete shape).
type c16State struct {
	nV        int
	vExists   [3]bool // concrete
	vActive   [3]bool // symbolic
	lockHas   [2][3]bool
	lockPow   [2][3]uint64
	stakeHas  [2][2]bool
	stakeAmt  [2][2]uint64
	delHas    [2][2]bool
	delShares [2][2]uint64
	allowed   [2]bool
	bal       [2][2]uint64
}

func c16U(x uint64) sdkmath.Int { return sdkmath.NewIntFromUint64(x) }
func c16Big(x uint64) *big.Int  { return new(big.Int).SetUint64(x) }

// c16Coins builds a valid sdk.Coins from per-denom presence flags (concrete) and amounts.
func c16Coins(has [2]bool, amt [2]sdkmath.Int) sdk.Coins {
	cs := sdk.Coins{}
	for d := 0; d < 2; d++ {
		if has[d] {
			cs = append(cs, sdk.Coin{Denom: c16Denoms[d], Amount: amt[d]})
		}
	}
	return cs
}

func (e *c16Env) setParamsRaw(p types.Params) {
	e.ctx.KVStore(e.key).Set(types.ParamsKey, e.k.cdc.MustMarshal(&p))
}

// c16Build writes an arbitrary state satisfying the module invariant (R1 index = locks via the real SetLock,
// R2 lock => vault exists, R3 module balance = sum of stakes, stake records without zero coins).
func c16Build(e *c16Env, sh c16Shape) *c16State {
	s := &c16State{nV: sh.nV}
	ctx, k := e.ctx, e.k

	// allowed denoms
	switch vs.Pick("allowed_shape", sh.allowedShapes) {
	case 0:
		s.allowed = [2]bool{true, true}
	case 1:
		s.allowed = [2]bool{true, false}
	default:
		s.allowed = [2]bool{false, false}
	}
	var denoms []string
	for d := 0; d < 2; d++ {
		if s.allowed[d] {
			denoms = append(denoms, c16Denoms[d])
		}
	}
	e.setParamsRaw(types.Params{AllowedDenoms: denoms})

	// vaults and the actor's locks
	for v := 0; v < sh.nV; v++ {
		mode := 0 // 0 absent, 1 exists without actor lock, 2 exists with actor lock
		if sh.vaultNoLock {
			mode = vs.Pick("vault_mode", 3)
		} else if vs.Bool("vault_locked") {
			mode = 2
		}
		if mode == 0 {
			continue
		}
		s.vExists[v] = true
		s.vActive[v] = vs.Bool("vault_active")
		k.SetVault(ctx, types.NewVault(c16Vaults[v], s.vActive[v]))
		if mode == 2 {
			s.lockHas[c16A][v] = true
			s.lockPow[c16A][v] = vs.U64("A_lock_power")
			k.SetLock(ctx, types.NewLock(c16Addr(c16A).String(), c16Vaults[v], c16U(s.lockPow[c16A][v])))
		}
	}
	// the bystander locks into vault 0 when it exists (arbitrary power)
	if s.vExists[0] {
		s.lockHas[c16B][0] = true
		s.lockPow[c16B][0] = vs.U64("B_lock_power")
		k.SetLock(ctx, types.NewLock(c16Addr(c16B).String(), c16Vaults[0], c16U(s.lockPow[c16B][0])))
	}

	// stakes: actor any subset of the two denoms, bystander denom 0
	for d := 0; d < 2; d++ {
		if vs.Bool("A_stake_has") {
			s.stakeHas[c16A][d] = true
			s.stakeAmt[c16A][d] = vs.U64("A_stake_amt")
			vs.Assume(s.stakeAmt[c16A][d] > 0)
		}
	}
	s.stakeHas[c16B][0] = true
	s.stakeAmt[c16B][0] = vs.U64("B_stake_amt")
	vs.Assume(s.stakeAmt[c16B][0] > 0)
	var modHas [2]bool
	var modAmt [2]sdkmath.Int
	for a := 0; a < 2; a++ {
		var amt [2]sdkmath.Int
		any := false
		for d := 0; d < 2; d++ {
			amt[d] = c16U(s.stakeAmt[a][d])
			if s.stakeHas[a][d] {
				any = true
				if modHas[d] {
					modAmt[d] = modAmt[d].Add(amt[d])
				} else {
					modHas[d], modAmt[d] = true, amt[d]
				}
			}
		}
		if any {
			k.SetStake(ctx, types.NewStake(c16Addr(a).String(), c16Coins(s.stakeHas[a], amt)))
		}
	}
	e.bank.Set(venv.ModuleAddr(types.ModuleName), c16Coins(modHas, modAmt))

	// free balances
	if sh.freeBalances {
		for a := 0; a < 2; a++ {
			var has [2]bool
			var amt [2]sdkmath.Int
			for d := 0; d < 2; d++ {
				s.bal[a][d] = vs.U64("free_balance")
				vs.Assume(s.bal[a][d] > 0)
				has[d], amt[d] = true, c16U(s.bal[a][d])
			}
			e.bank.Set(c16Addr(a), c16Coins(has, amt))
		}
	}

	// delegations (integer shares at rate 1)
	for v := 0; v < 2; v++ {
		if v == 1 && !sh.twoDelegs {
			break
		}
		if vs.Bool("A_deleg_has") {
			s.delHas[c16A][v] = true
			s.delShares[c16A][v] = vs.U64("A_deleg_shares")
			vs.Assume(s.delShares[c16A][v] > 0)
			e.st.SetDelegationRaw(c16Addr(c16A), c16Val(v), sdkmath.LegacyNewDecFromInt(c16U(s.delShares[c16A][v])))
		}
	}
	s.delHas[c16B][0] = true
	s.delShares[c16B][0] = vs.U64("B_deleg_shares")
	vs.Assume(s.delShares[c16B][0] > 0)
	e.st.SetDelegationRaw(c16Addr(c16B), c16Val(0), sdkmath.LegacyNewDecFromInt(c16U(s.delShares[c16B][0])))
	return s
}

// ---------------------------------------------------------------------------------------------------------------
// reference quantities (branch-free, mathematical integers)
// ---------------------------------------------------------------------------------------------------------------

// stakedPower: sum of the staked amounts in allowed denoms.
func (s *c16State) stakedPower(a int) *big.Int {
	p := big.NewInt(0)
	for d := 0; d < 2; d++ {
		if s.stakeHas[a][d] && s.allowed[d] {
			p = new(big.Int).Add(p, c16Big(s.stakeAmt[a][d]))
		}
	}
	return p
}

// bonded: sum of the delegated tokens (rate 1).
func (s *c16State) bonded(a int) *big.Int {
	p := big.NewInt(0)
	for v := 0; v < 2; v++ {
		if s.delHas[a][v] {
			p = new(big.Int).Add(p, c16Big(s.delShares[a][v]))
		}
	}
	return p
}

func (s *c16State) totalPower(a int) *big.Int {
	return new(big.Int).Add(s.stakedPower(a), s.bonded(a))
}

// maxActiveLock: the largest lock of a among active vaults (0 when none).
func (s *c16State) maxActiveLock(a int) uint64 {
	m := uint64(0)
	for v := 0; v < s.nV; v++ {
		if s.lockHas[a][v] {
			m = vs.IteU64(vs.And(s.vActive[v], s.lockPow[a][v] > m), s.lockPow[a][v], m)
		}
	}
	return m
}

func c16Geq(x *big.Int, y uint64) bool { return x.Cmp(c16Big(y)) >= 0 }

// ---------------------------------------------------------------------------------------------------------------
// observation of the post-state
// ---------------------------------------------------------------------------------------------------------------

// assertLocksAndIndex: the Lock records of account a are exactly want (power per vault), and the by-power index
// holds exactly one entry (a, BE(power), key) per lock, no stale entries (R1).
func (e *c16Env) assertLocksAndIndex(tag string, a int, has [3]bool, pow [3]uint64, nV int) {
	ctx, k := e.ctx, e.k
	addr := c16Addr(a)
	n := 0
	for v := 0; v < nV; v++ {
		lock, found := k.GetLock(ctx, addr, c16Vaults[v])
		vs.Assert(tag+"/lock-presence", found == has[v])
		if found && has[v] {
			n++
			vs.Assert(tag+"/lock-power", lock.Power.Equal(c16U(pow[v])))
			vs.Assert(tag+"/lock-fields", lock.Key == c16Vaults[v] && lock.StakerAddress == addr.String())
			// the index entry for exactly this power exists and names the vault
			bz := ctx.KVStore(e.key).Get(types.LockByPowerIndexKey(lock))
			vs.Assert(tag+"/index-entry", string(bz) == c16Vaults[v])
		}
	}
	// no other index entries for this address
	it := storetypes.KVStorePrefixIterator(ctx.KVStore(e.key), types.LocksByPowerIndexKey(addr))
	cnt := 0
	for ; it.Valid(); it.Next() {
		cnt++
	}
	it.Close()
	vs.Assert(tag+"/index-size", cnt == n)
	vs.Assert(tag+"/locks-by-address", len(k.GetLocksByAddress(ctx, addr)) == n)
}

// assertVaults: vault records are as given.
func (e *c16Env) assertVaults(tag string, exists [3]bool, active [3]bool, nV int) {
	for v := 0; v < nV; v++ {
		vault, found := e.k.GetVault(e.ctx, c16Vaults[v])
		vs.Assert(tag+"/vault-presence", found == exists[v])
		if found && exists[v] {
			vs.Assert(tag+"/vault-active", vault.IsActive == active[v])
			vs.Assert(tag+"/vault-key", vault.Key == c16Vaults[v])
		}
	}
}

// assertStake: the Stake record of a holds exactly the given amounts (absent record when all are zero).
func (e *c16Env) assertStake(tag string, a int, amt [2]*big.Int) {
	stake := e.k.GetStake(e.ctx, c16Addr(a))
	for d := 0; d < 2; d++ {
		vs.Assert(tag+"/stake-amount", stake.Coins.AmountOf(c16Denoms[d]).BigInt().Cmp(amt[d]) == 0)
	}
	for _, c := range stake.Coins {
		vs.Assert(tag+"/stake-no-zero-coins", c.Amount.IsPositive())
	}
	raw := e.ctx.KVStore(e.key).Get(types.StakeStoreKey(c16Addr(a)))
	vs.Assert(tag+"/stake-record-iff-nonzero", (raw != nil) == vs.Or(amt[0].Sign() != 0, amt[1].Sign() != 0))
}

func (e *c16Env) assertBalance(tag string, addr sdk.AccAddress, amt [2]*big.Int) {
	bal := e.bank.Get(addr)
	for d := 0; d < 2; d++ {
		vs.Assert(tag, bal.AmountOf(c16Denoms[d]).BigInt().Cmp(amt[d]) == 0)
	}
}

func (s *c16State) stakeBig(a int) [2]*big.Int {
	return [2]*big.Int{c16Big(s.stakeAmt[a][0]), c16Big(s.stakeAmt[a][1])}
}

func (s *c16State) balBig(a int) [2]*big.Int {
	return [2]*big.Int{c16Big(s.bal[a][0]), c16Big(s.bal[a][1])}
}

func c16Add2(x, y [2]*big.Int) [2]*big.Int {
	return [2]*big.Int{new(big.Int).Add(x[0], y[0]), new(big.Int).Add(x[1], y[1])}
}

func c16Sub2(x, y [2]*big.Int) [2]*big.Int {
	return [2]*big.Int{new(big.Int).Sub(x[0], y[0]), new(big.Int).Sub(x[1], y[1])}
}

// assertUnchanged: the whole restake store and the ledger equal the recorded pre-state.
func (e *c16Env) assertUnchanged(tag string, s *c16State) {
	for a := 0; a < 2; a++ {
		e.assertLocksAndIndex(tag, a, s.lockHas[a], s.lockPow[a], s.nV)
		e.assertStake(tag, a, s.stakeBig(a))
		e.assertBalance(tag+"/balance", c16Addr(a), s.balBig(a))
	}
	e.assertVaults(tag, s.vExists, s.vActive, s.nV)
	e.assertBalance(tag+"/module-balance", venv.ModuleAddr(types.ModuleName), c16Add2(s.stakeBig(c16A), s.stakeBig(c16B)))
}

// ---------------------------------------------------------------------------------------------------------------
// H1: MsgUnstake
// ---------------------------------------------------------------------------------------------------------------

// VerifC16Unstake: one MsgUnstake of the actor from an arbitrary state. The message is executed like a transaction
// (cache context, written only on success).
func VerifC16Unstake() {
	e := c16Setup()
	s := c16Build(e, c16Shape{nV: vs.Param("vaults"), twoDelegs: false, freeBalances: true, allowedShapes: vs.Param("allowed_shapes")})

	// the message: any non-empty subset of the denoms, any positive amounts
	var mHas [2]bool
	var mAmt [2]uint64
	for d := 0; d < 2; d++ {
		if vs.Bool("unstake_has") {
			mHas[d] = true
			mAmt[d] = vs.U64("unstake_amt")
		}
	}
	msg := types.NewMsgUnstake(c16Addr(c16A), c16Coins(mHas, [2]sdkmath.Int{c16U(mAmt[0]), c16U(mAmt[1])}))
	vs.Assume(msg.ValidateBasic() == nil)

	root := e.ctx
	cctx, write := root.CacheContext()
	_, err := NewMsgServerImpl(e.k).Unstake(cctx, msg)
	if err == nil {
		write()
	}

	// ---- specification
	enough := vs.And(mAmt[0] <= s.stakeAmt[c16A][0], mAmt[1] <= s.stakeAmt[c16A][1]) // absent = 0 on both sides
	unstakedPower := big.NewInt(0)
	for d := 0; d < 2; d++ {
		if mHas[d] && s.allowed[d] {
			unstakedPower = new(big.Int).Add(unstakedPower, c16Big(mAmt[d]))
		}
	}
	remaining := new(big.Int).Sub(s.totalPower(c16A), unstakedPower)
	maxLock := s.maxActiveLock(c16A)
	covered := c16Geq(remaining, maxLock)
	vs.Assert("unstake/accepted-iff-enough-stake-and-locks-covered", (err == nil) == vs.And(enough, covered))

	mBig := [2]*big.Int{c16Big(mAmt[0]), c16Big(mAmt[1])}
	if err != nil {
		vs.Reach("rejected", true)
		vs.Reach("rejected-power-locked", enough)
		vs.Reach("rejected-one-below-lock", vs.And(enough, new(big.Int).Add(remaining, big.NewInt(1)).Cmp(c16Big(maxLock)) == 0))
		vs.Reach("rejected-stake-not-enough", !enough)
		e.assertUnchanged("unstake-rejected", s)
		return
	}
	vs.Reach("accepted", true)
	vs.Reach("accepted-exactly-at-lock", vs.And(remaining.Cmp(c16Big(maxLock)) == 0, maxLock > 0))
	vs.Reach("accepted-inactive-vault-larger", s.lockHas[c16A][0] && vs.And(!s.vActive[0], !c16Geq(remaining, s.lockPow[c16A][0])))
	vs.Reach("accepted-lock-above-2^63", maxLock >= 1<<63)

	// exact effects
	e.assertStake("unstake", c16A, c16Sub2(s.stakeBig(c16A), mBig))
	e.assertStake("unstake/bystander", c16B, s.stakeBig(c16B))
	e.assertBalance("unstake/paid-to-staker", c16Addr(c16A), c16Add2(s.balBig(c16A), mBig))
	e.assertBalance("unstake/bystander-balance", c16Addr(c16B), s.balBig(c16B))
	e.assertBalance("unstake/module-holds-sum-of-stakes", venv.ModuleAddr(types.ModuleName),
		c16Sub2(c16Add2(s.stakeBig(c16A), s.stakeBig(c16B)), mBig))
	for a := 0; a < 2; a++ {
		e.assertLocksAndIndex("unstake", a, s.lockHas[a], s.lockPow[a], s.nV)
	}
	e.assertVaults("unstake", s.vExists, s.vActive, s.nV)
	// the property: the remaining total power, read back through the real keeper, covers every active lock
	total, terr := e.k.GetTotalPower(e.ctx, c16Addr(c16A))
	vs.Assert("unstake/total-power-readable", terr == nil)
	vs.Assert("unstake/total-power-value", total.BigInt().Cmp(remaining) == 0)
	for v := 0; v < s.nV; v++ {
		if s.lockHas[c16A][v] {
			vs.Assert("unstake/active-lock-covered", vs.Or(!s.vActive[v], c16Geq(total.BigInt(), s.lockPow[c16A][v])))
		}
	}
}

// ---------------------------------------------------------------------------------------------------------------
// H2: MsgStake
// ---------------------------------------------------------------------------------------------------------------

// VerifC16Stake: one MsgStake of the actor (no cache context: a rejected Stake must not have written anything).
func VerifC16Stake() {
	e := c16Setup()
	s := c16Build(e, c16Shape{nV: vs.Param("vaults"), freeBalances: true, allowedShapes: 3})

	var mHas [2]bool
	var mAmt [2]uint64
	for d := 0; d < 2; d++ {
		if vs.Bool("stake_has") {
			mHas[d] = true
			mAmt[d] = vs.U64("stake_amt")
		}
	}
	msg := types.NewMsgStake(c16Addr(c16A), c16Coins(mHas, [2]sdkmath.Int{c16U(mAmt[0]), c16U(mAmt[1])}))
	vs.Assume(msg.ValidateBasic() == nil)

	_, err := NewMsgServerImpl(e.k).Stake(e.ctx, msg)

	denomsAllowed := (!mHas[0] || s.allowed[0]) && (!mHas[1] || s.allowed[1]) // concrete
	funded := vs.And(mAmt[0] <= s.bal[c16A][0], mAmt[1] <= s.bal[c16A][1])
	vs.Assert("stake/accepted-iff-allowed-denoms-and-funded", (err == nil) == vs.And(denomsAllowed, funded))

	mBig := [2]*big.Int{c16Big(mAmt[0]), c16Big(mAmt[1])}
	if err != nil {
		vs.Reach("rejected-denom", !denomsAllowed)
		vs.Reach("rejected-funds", denomsAllowed)
		e.assertUnchanged("stake-rejected", s)
		return
	}
	vs.Reach("accepted", true)
	vs.Reach("accepted-whole-balance", vs.And(mHas[0], mAmt[0] == s.bal[c16A][0]))
	e.assertStake("stake", c16A, c16Add2(s.stakeBig(c16A), mBig))
	e.assertStake("stake/bystander", c16B, s.stakeBig(c16B))
	e.assertBalance("stake/taken-from-staker", c16Addr(c16A), c16Sub2(s.balBig(c16A), mBig))
	e.assertBalance("stake/bystander-balance", c16Addr(c16B), s.balBig(c16B))
	e.assertBalance("stake/module-holds-sum-of-stakes", venv.ModuleAddr(types.ModuleName),
		c16Add2(c16Add2(s.stakeBig(c16A), s.stakeBig(c16B)), mBig))
	for a := 0; a < 2; a++ {
		e.assertLocksAndIndex("stake", a, s.lockHas[a], s.lockPow[a], s.nV)
	}
	e.assertVaults("stake", s.vExists, s.vActive, s.nV)
	// staked power grows by exactly the staked amount (all staked denoms are allowed)
	total, terr := e.k.GetTotalPower(e.ctx, c16Addr(c16A))
	vs.Assert("stake/total-power", terr == nil &&
		total.BigInt().Cmp(new(big.Int).Add(s.totalPower(c16A), new(big.Int).Add(mBig[0], mBig[1]))) == 0)
}

// ---------------------------------------------------------------------------------------------------------------
// H3: SetLockedPower (the entry point of the vault-owning modules)
// ---------------------------------------------------------------------------------------------------------------

func VerifC16SetLockedPower() {
	e := c16Setup()
	s := c16Build(e, c16Shape{nV: vs.Param("vaults"), vaultNoLock: true, twoDelegs: true, allowedShapes: vs.Param("allowed_shapes")})

	t := vs.Pick("target_vault", s.nV)
	liquid := vs.Bool("liquid_staker_address")
	addr := c16Addr(c16A)
	if liquid {
		addr = make(sdk.AccAddress, 32)
		copy(addr, c16Addr(c16A))
	}
	// any integer in (-2^66, 2^66)
	pAbs := vs.BigU("power", 66)
	power := sdkmath.NewIntFromBigInt(pAbs)
	negative := vs.Bool("negative_power")
	if negative {
		power = power.Neg()
	}

	err := e.k.SetLockedPower(e.ctx, addr, c16Vaults[t], power)

	inRange := vs.And(power.BigInt().Sign() >= 0, power.BigInt().Cmp(c16Big(^uint64(0))) <= 0)
	backed := power.BigInt().Cmp(s.totalPower(c16A)) <= 0
	vaultOK := vs.Or(!s.vExists[t], s.vActive[t])
	spec := vs.And(vs.And(!liquid, inRange), vs.And(backed, vaultOK))
	vs.Assert("setlock/accepted-iff-not-liquid-uint64-backed-active", (err == nil) == spec)

	if err != nil {
		vs.Reach("rejected", true)
		vs.Reach("rejected-liquid", liquid)
		vs.Reach("rejected-not-uint64", vs.And(!liquid, !inRange))
		vs.Reach("rejected-one-above-total-power", vs.And(vs.And(!liquid, inRange),
			power.BigInt().Cmp(new(big.Int).Add(s.totalPower(c16A), big.NewInt(1))) == 0))
		vs.Reach("rejected-inactive-vault", vs.And(vs.And(!liquid, inRange), vs.And(backed, !vaultOK)))
		e.assertUnchanged("setlock-rejected", s)
		return
	}
	vs.Reach("accepted", true)
	vs.Reach("accepted-equal-total-power", power.BigInt().Cmp(s.totalPower(c16A)) == 0)
	vs.Reach("accepted-creates-vault", !s.vExists[t])
	vs.Reach("accepted-overwrites-lock", s.lockHas[c16A][t])
	vs.Reach("accepted-power-above-2^63", power.BigInt().Cmp(c16Big(1<<63)) >= 0)
	vs.Reach("accepted-zero-power", power.BigInt().Sign() == 0)

	wantHas, wantPow := s.lockHas[c16A], s.lockPow[c16A]
	wantHas[t], wantPow[t] = true, power.Uint64()
	e.assertLocksAndIndex("setlock", c16A, wantHas, wantPow, s.nV)
	e.assertLocksAndIndex("setlock/bystander", c16B, s.lockHas[c16B], s.lockPow[c16B], s.nV)
	wantExists, wantActive := s.vExists, s.vActive
	if !wantExists[t] {
		wantExists[t], wantActive[t] = true, true
	}
	e.assertVaults("setlock", wantExists, wantActive, s.nV)
	for a := 0; a < 2; a++ {
		e.assertStake("setlock", a, s.stakeBig(a))
	}
	e.assertBalance("setlock/module-balance", venv.ModuleAddr(types.ModuleName), c16Add2(s.stakeBig(c16A), s.stakeBig(c16B)))
	// the new lock is covered by the current total power and is what GetLockedPower reports
	got, gerr := e.k.GetLockedPower(e.ctx, addr, c16Vaults[t])
	vs.Assert("setlock/get-locked-power", gerr == nil && got.Equal(power))
	total, _ := e.k.GetTotalPower(e.ctx, addr)
	vs.Assert("setlock/lock-covered-by-total-power", total.GTE(power))
}

// ---------------------------------------------------------------------------------------------------------------
// H4: DeactivateVault, then the lock check
// ---------------------------------------------------------------------------------------------------------------

func VerifC16DeactivateVault() {
	e := c16Setup()
	s := c16Build(e, c16Shape{nV: vs.Param("vaults"), vaultNoLock: true, allowedShapes: 1})
	t := vs.Pick("target_vault", s.nV)

	err := e.k.DeactivateVault(e.ctx, c16Vaults[t])

	vs.Assert("deactivate/accepted-iff-exists-and-active", (err == nil) == (s.vExists[t] && vs.And(s.vActive[t], true)))
	if err != nil {
		vs.Reach("rejected-missing", !s.vExists[t])
		vs.Reach("rejected-already-inactive", s.vExists[t])
		e.assertUnchanged("deactivate-rejected", s)
		return
	}
	vs.Reach("accepted", true)
	after := *s
	after.vActive[t] = false
	e.assertUnchanged("deactivate", &after) // only the flag of the target changed; locks of the vault stay recorded

	// a second attempt and a lock attempt are both refused: nothing reactivates the vault
	vs.Assert("deactivate/twice-refused", e.k.DeactivateVault(e.ctx, c16Vaults[t]) != nil)
	vs.Assert("deactivate/lock-into-inactive-refused", e.k.SetLockedPower(e.ctx, c16Addr(c16A), c16Vaults[t], sdkmath.ZeroInt()) != nil)
	e.assertVaults("deactivate/still-inactive", after.vExists, after.vActive, s.nV)

	// the deactivated vault no longer constrains: isValidPower(T) <=> T >= largest lock among the remaining active vaults
	T := vs.BigU("candidate_total_power", 66)
	ok := e.k.isValidPower(e.ctx, c16Addr(c16A), sdkmath.NewIntFromBigInt(T))
	vs.Assert("deactivate/is-valid-power", ok == c16Geq(T, after.maxActiveLock(c16A)))
	vs.Reach("freed-by-deactivation", s.lockHas[c16A][t] && vs.And(ok, !c16Geq(T, s.lockPow[c16A][t])))
}

// ---------------------------------------------------------------------------------------------------------------
// H5: undelegate / redelegate / delegate through the staking hook sequence
// ---------------------------------------------------------------------------------------------------------------

func VerifC16StakingOps() {
	e := c16Setup()
	s := c16Build(e, c16Shape{nV: vs.Param("vaults"), twoDelegs: true, allowedShapes: vs.Param("allowed_shapes")})

	op := vs.Pick("op", 3) // 0 undelegate, 1 redelegate, 2 delegate
	v := vs.Pick("validator", 2)
	amt := vs.U64("amount")
	vs.Assume(amt > 0)
	del := c16Addr(c16A)
	shares := sdkmath.LegacyNewDecFromInt(c16U(amt))

	snap := e.st.Snapshot()
	cctx, write := e.ctx.CacheContext()
	var err error
	switch op {
	case 0:
		_, err = e.st.Undelegate(cctx, del, c16Val(v), shares)
	case 1:
		err = e.st.BeginRedelegation(cctx, del, c16Val(v), c16Val(1-v), shares)
	default:
		_, err = e.st.Delegate(cctx, del, c16U(amt), c16Val(v))
	}
	if err == nil {
		write()
	} else {
		e.st.Restore(snap) // transaction rollback of the staking store
	}

	// ---- specification
	pre := s.totalPower(c16A)
	maxLock := s.maxActiveLock(c16A)
	structural := true
	var lowest, post *big.Int // lowest total power seen by a hook, total power after the operation
	switch op {
	case 0:
		structural = s.delHas[c16A][v] && vs.And(amt <= s.delShares[c16A][v], true)
		lowest = new(big.Int).Sub(pre, c16Big(amt))
		post = lowest
	case 1:
		structural = s.delHas[c16A][v] && vs.And(amt <= s.delShares[c16A][v], true)
		lowest = new(big.Int).Sub(pre, c16Big(amt)) // the source is unbonded (hook) before the destination is credited
		post = pre
	default:
		lowest = new(big.Int).Add(pre, c16Big(amt))
		post = lowest
	}
	covered := c16Geq(lowest, maxLock)
	vs.Assert("staking/accepted-iff-well-formed-and-locks-covered", (err == nil) == vs.And(structural, covered))

	// the restake module's own state never changes in a hook
	for a := 0; a < 2; a++ {
		e.assertLocksAndIndex("staking", a, s.lockHas[a], s.lockPow[a], s.nV)
		e.assertStake("staking", a, s.stakeBig(a))
	}
	e.assertVaults("staking", s.vExists, s.vActive, s.nV)
	e.assertBalance("staking/module-balance", venv.ModuleAddr(types.ModuleName), c16Add2(s.stakeBig(c16A), s.stakeBig(c16B)))

	total, terr := e.k.GetTotalPower(e.ctx, del)
	vs.Assert("staking/total-power-readable", terr == nil)
	if err != nil {
		vs.Reach("rejected", true)
		vs.Reach("rejected-locked", structural)
		vs.Reach("rejected-one-below-lock", vs.And(structural, new(big.Int).Add(lowest, big.NewInt(1)).Cmp(c16Big(maxLock)) == 0))
		vs.Reach("rejected-full-removal", op == 0 && vs.And(structural, amt == s.delShares[c16A][v]))
		vs.Reach("rejected-redelegation-although-total-unchanged", op == 1 && vs.And(structural, true))
		vs.Reach("rejected-delegate", op == 2)
		vs.Assert("staking/rejection-is-the-lock-error", vs.Implies(structural, errorsIs(err, types.ErrUnableToUndelegate)))
		vs.Assert("staking/rejected-total-power-unchanged", total.BigInt().Cmp(pre) == 0)
		return
	}
	vs.Reach("accepted", true)
	vs.Reach("accepted-exactly-at-lock", vs.And(lowest.Cmp(c16Big(maxLock)) == 0, maxLock > 0))
	vs.Reach("accepted-full-removal", op == 0 && vs.And(amt == s.delShares[c16A][v], true))
	vs.Reach("accepted-full-removal-other-delegation-covers", op == 0 && s.delHas[c16A][1-v] && vs.And(amt == s.delShares[c16A][v], maxLock > 0))
	vs.Reach("accepted-redelegation", op == 1)
	vs.Reach("accepted-delegate", op == 2)
	vs.Reach("accepted-inactive-vault-larger", s.lockHas[c16A][0] && vs.And(!s.vActive[0], !c16Geq(post, s.lockPow[c16A][0])))
	vs.Assert("staking/total-power-after", total.BigInt().Cmp(post) == 0)
	for k := 0; k < s.nV; k++ {
		if s.lockHas[c16A][k] {
			vs.Assert("staking/active-lock-covered", vs.Or(!s.vActive[k], c16Geq(total.BigInt(), s.lockPow[c16A][k])))
		}
	}
	// bystander's delegation untouched
	bt, _ := e.k.GetTotalPower(e.ctx, c16Addr(c16B))
	vs.Assert("staking/bystander-power", bt.BigInt().Cmp(s.totalPower(c16B)) == 0)
}

// ---------------------------------------------------------------------------------------------------------------
// H6: SetLock / DeleteLock index maintenance and the isValidPower kernel
// ---------------------------------------------------------------------------------------------------------------

func VerifC16LockIndex() {
	e := c16Setup()
	s := c16Build(e, c16Shape{nV: vs.Param("vaults"), vaultNoLock: true, allowedShapes: 1})
	t := vs.Pick("target_vault", s.nV)
	after := *s
	if !after.vExists[t] { // R2: a lock is only ever written for an existing vault
		after.vExists[t] = true
		after.vActive[t] = vs.Bool("new_vault_active")
		e.k.SetVault(e.ctx, types.NewVault(c16Vaults[t], after.vActive[t]))
	}
	switch vs.Pick("op", 3) {
	case 0:
		p := vs.U64("new_power")
		e.k.SetLock(e.ctx, types.NewLock(c16Addr(c16A).String(), c16Vaults[t], c16U(p)))
		after.lockHas[c16A][t], after.lockPow[c16A][t] = true, p
		vs.Reach("set-overwrites", s.lockHas[c16A][t])
		vs.Reach("set-same-power", s.lockHas[c16A][t] && vs.And(p == s.lockPow[c16A][t], true))
		vs.Reach("set-power-above-2^63", p >= 1<<63)
	case 1:
		e.k.DeleteLock(e.ctx, c16Addr(c16A), c16Vaults[t])
		after.lockHas[c16A][t], after.lockPow[c16A][t] = false, 0
		vs.Reach("delete-existing", s.lockHas[c16A][t])
		vs.Reach("delete-missing", !s.lockHas[c16A][t])
	default:
		// two writes in a row: the first index entry must not survive
		p1, p2 := vs.U64("new_power_1"), vs.U64("new_power_2")
		e.k.SetLock(e.ctx, types.NewLock(c16Addr(c16A).String(), c16Vaults[t], c16U(p1)))
		e.k.SetLock(e.ctx, types.NewLock(c16Addr(c16A).String(), c16Vaults[t], c16U(p2)))
		after.lockHas[c16A][t], after.lockPow[c16A][t] = true, p2
		vs.Reach("set-twice-lower", p2 < p1)
	}
	e.assertUnchanged("lockindex", &after)

	// the kernel: for ANY candidate total power
	T := vs.BigU("candidate_total_power", 66)
	ok := e.k.isValidPower(e.ctx, c16Addr(c16A), sdkmath.NewIntFromBigInt(T))
	m := after.maxActiveLock(c16A)
	vs.Assert("lockindex/is-valid-power-iff-covers-largest-active-lock", ok == c16Geq(T, m))
	vs.Reach("valid-at-boundary", vs.And(ok, vs.And(T.Cmp(c16Big(m)) == 0, m > 0)))
	vs.Reach("invalid-one-below", vs.And(!ok, new(big.Int).Add(T, big.NewInt(1)).Cmp(c16Big(m)) == 0))
	vs.Reach("valid-above-2^64", vs.And(ok, T.Cmp(new(big.Int).Lsh(big.NewInt(1), 64)) >= 0))
	vs.Reach("largest-lock-inactive-skipped", after.lockHas[c16A][0] && after.lockHas[c16A][1] &&
		vs.And(vs.And(!after.vActive[0], after.vActive[1]), vs.And(after.lockPow[c16A][0] > after.lockPow[c16A][1], vs.And(ok, !c16Geq(T, after.lockPow[c16A][0])))))
	// the bystander's locks never constrain the actor and vice versa
	okB := e.k.isValidPower(e.ctx, c16Addr(c16B), sdkmath.NewIntFromBigInt(T))
	vs.Assert("lockindex/bystander-is-valid-power", okB == c16Geq(T, after.maxActiveLock(c16B)))
}

// c16Boundary: powers around the byte and sign boundaries of the 8-byte big-endian index key.
var c16Boundary = []uint64{0, 1, 255, 256, 1<<32 + 1, 1<<63 - 1, 1 << 63, 1<<64 - 1}

// VerifC16IndexOrderConcrete: two locks with CONCRETE boundary powers written through the real SetLockedPower-free
// path (SetLock), symbolic active flags, ANY candidate total power: the index order must be the numeric order.
func VerifC16IndexOrderConcrete() {
	e := c16Setup()
	var has [3]bool
	var pow [3]uint64
	var active [3]bool
	for v := 0; v < 2; v++ {
		has[v] = true
		pow[v] = c16Boundary[vs.Pick("boundary_power", len(c16Boundary))]
		active[v] = vs.Bool("vault_active")
		e.k.SetVault(e.ctx, types.NewVault(c16Vaults[v], active[v]))
		e.k.SetLock(e.ctx, types.NewLock(c16Addr(c16A).String(), c16Vaults[v], c16U(pow[v])))
	}
	e.assertLocksAndIndex("order", c16A, has, pow, 2)
	s := &c16State{nV: 2, vActive: active}
	s.lockHas[c16A], s.lockPow[c16A] = has, pow
	T := vs.BigU("candidate_total_power", 66)
	ok := e.k.isValidPower(e.ctx, c16Addr(c16A), sdkmath.NewIntFromBigInt(T))
	vs.Assert("order/is-valid-power-iff-covers-largest-active-lock", ok == c16Geq(T, s.maxActiveLock(c16A)))
	vs.Reach("valid", ok)
	vs.Reach("invalid", !ok)
}

func errorsIs(err, target error) bool { return stderrors.Is(err, target) }
