//go:build verif

package keeper

import (
	"errors"
	"math/big"

	sdk "github.com/cosmos/cosmos-sdk/types"
	sdkerrors "github.com/cosmos/cosmos-sdk/types/errors"

	vs "github.com/bandprotocol/chain/v3/vsupport"
	"github.com/bandprotocol/chain/v3/x/tunnel/types"
)

// C17 — tunnel deposits fully backed, owner-withdrawable, and gate activation.
//
// Every harness: arbitrary pre-state of two tunnels / two depositors / two denoms satisfying T1-T4
// (tunBuild), ONE message through the real msg server, then
//   - accept  <=> the specification's acceptance condition (exact),
//   - every returned error class implies its specified cause,
//   - the complete observable state (both tunnels, all deposit records, active index, all bank
//     balances, params) equals the specification's post-state: exact deltas on accept, bit-for-bit
//     unchanged on reject (tunCheck), which also re-establishes T1-T4 (inductive step).

func init() {
	vs.RegisterHarness("VerifC17Deposit", VerifC17Deposit)
	vs.RegisterHarness("VerifC17Withdraw", VerifC17Withdraw)
	vs.RegisterHarness("VerifC17Activate", VerifC17Activate)
	vs.RegisterHarness("VerifC17Deactivate", VerifC17Deactivate)
}

// c17MsgCoins picks the shape of a message amount. Shapes: [d0], [d1], [d0,d1], [bad], [d0,bad].
// Returns the coins, the per-universe-denom amounts and whether a denom outside the universe is present.
func c17MsgCoins(nShapes int) (sdk.Coins, []*big.Int, bool) {
	sel := vs.Pick("amount_shape", nShapes)
	has := [][]bool{{true, false}, {false, true}, {true, true}, {false, false}, {true, false}}[sel]
	amt := tunNondetCoins("amount", has)
	cs := tunCoins(has, amt)
	bad := sel >= 3
	if bad {
		x := vs.BigU("amount_bad_denom", tunBit)
		vs.Assume(x.Sign() > 0)
		cs = append(cs, sdk.NewCoin(tunBadDenom, sdkIntOf(x)))
	}
	return cs, amt, bad
}

func c17Shape() tunShape {
	full := vs.Param("full") // 0: reduced shapes, 1: all coin shapes for both depositors of tunnel 1, 2: all shapes everywhere
	return tunShape{fullSecond: full >= 2, fullOther: full >= 1, minShapes: vs.Param("min_shapes")}
}

// VerifC17Deposit: MsgDepositToTunnel by account 0.
func VerifC17Deposit() {
	e := tunSetup()
	target := vs.Pick("target_tunnel", tunNT+1) // index tunNT = a tunnel that does not exist
	sh := c17Shape()
	sh.focus = target
	m := tunBuild(e, sh)

	coins, amt, bad := c17MsgCoins(vs.Param("amount_shapes"))
	msg := types.NewMsgDepositToTunnel(uint64(target+1), coins, tunAcc(0).String())
	vs.Assume(msg.ValidateBasic() == nil)

	_, err := NewMsgServerImpl(e.k).DepositToTunnel(e.ctx, msg)

	// specification
	exists := target < tunNT
	denomsOK := !bad
	for d := range tunDenoms {
		if amt[d].Sign() != 0 && !m.minHas[d] { // shape-level, concrete
			denomsOK = false
		}
	}
	funds := allGTE(m.bal[0], amt)
	accept := vs.And(exists && denomsOK, funds)
	vs.Assert("accept-iff-spec", (err == nil) == accept)

	if err != nil {
		if errors.Is(err, types.ErrTunnelNotFound) {
			vs.Assert("not-found-means-missing", !exists)
			vs.Reach("rejected-no-tunnel", true)
		} else if errors.Is(err, types.ErrInvalidDepositDenom) {
			vs.Assert("invalid-denom-means-not-in-min-deposit", !denomsOK)
			vs.Reach("rejected-denom", true)
		} else if errors.Is(err, sdkerrors.ErrInsufficientFunds) {
			vs.Assert("insufficient-means-short", !funds)
			vs.Reach("rejected-funds", true)
		} else {
			vs.Assert("unexpected-error-class", false)
		}
		tunCheck(e, m) // nothing changed
		return
	}
	vs.Reach("accepted", true)
	vs.Reach("accepted-first-deposit", !amtsNonZero(m.dep[target][0]))
	vs.Reach("accepted-top-up", amtsNonZero(m.dep[target][0]))
	vs.Reach("accepted-exact-balance", m.bal[0][0].Cmp(amt[0]) == 0)

	m.dep[target][0] = amtsAdd(m.dep[target][0], amt)
	m.bal[0] = amtsSub(m.bal[0], amt)
	m.module = amtsAdd(m.module, amt)
	tunCheck(e, m)
}

// VerifC17Withdraw: MsgWithdrawFromTunnel by account 0.
func VerifC17Withdraw() {
	e := tunSetup()
	target := vs.Pick("target_tunnel", tunNT+1)
	sh := c17Shape()
	sh.focus = target
	m := tunBuild(e, sh)

	coins, amt, bad := c17MsgCoins(vs.Param("amount_shapes"))
	msg := types.NewMsgWithdrawFromTunnel(uint64(target+1), coins, tunAcc(0).String())
	vs.Assume(msg.ValidateBasic() == nil)

	_, err := NewMsgServerImpl(e.k).WithdrawFromTunnel(e.ctx, msg)

	exists := target < tunNT
	if !exists {
		vs.Assert("accept-iff-spec", err != nil)
		vs.Assert("not-found-class", errors.Is(err, types.ErrTunnelNotFound))
		vs.Reach("rejected-no-tunnel", true)
		tunCheck(e, m)
		return
	}
	own := m.dep[target][0]
	hasRecord := amtsNonZero(own)
	covered := vs.And(allGTE(own, amt), !bad)
	accept := vs.And(hasRecord, covered)
	// under T4 the module account always holds the deposits, so the bank can never be the reason to refuse
	vs.Assert("accept-iff-spec", (err == nil) == accept)

	if err != nil {
		if errors.Is(err, types.ErrDepositNotFound) {
			vs.Assert("deposit-not-found-means-no-record", !hasRecord)
			vs.Reach("rejected-no-deposit", true)
		} else if errors.Is(err, types.ErrInsufficientDeposit) {
			vs.Assert("insufficient-deposit-means-more-than-own", !covered)
			vs.Reach("rejected-more-than-own", true)
		} else {
			vs.Assert("unexpected-error-class", false)
		}
		tunCheck(e, m)
		return
	}
	vs.Reach("accepted", true)

	m.dep[target][0] = amtsSub(own, amt)
	m.bal[0] = amtsAdd(m.bal[0], amt)
	m.module = amtsSub(m.module, amt)
	stillCovered := allGTE(m.total(target), m.min)
	wasActive := m.active[target]
	m.active[target] = vs.And(wasActive, stillCovered)
	vs.Reach("accepted-record-deleted", !amtsNonZero(m.dep[target][0]))
	vs.Reach("accepted-record-kept", amtsNonZero(m.dep[target][0]))
	vs.Reach("accepted-deactivated", vs.And(wasActive, !stillCovered))
	vs.Reach("accepted-stays-active", vs.And(wasActive, stillCovered))
	vs.Reach("accepted-total-equals-min", vs.And(wasActive, m.total(target)[0].Cmp(m.min[0]) == 0))
	tunCheck(e, m)
}

// VerifC17Activate: MsgActivate signed by account 0.
func VerifC17Activate() {
	e := tunSetup()
	target := vs.Pick("target_tunnel", tunNT+1)
	sh := c17Shape()
	sh.creatorPick, sh.activeAll = true, true
	m := tunBuild(e, sh)

	msg := types.NewMsgActivate(uint64(target+1), tunAcc(0).String())
	vs.Assume(msg.ValidateBasic() == nil)
	_, err := NewMsgServerImpl(e.k).Activate(e.ctx, msg)

	exists := target < tunNT
	if !exists {
		vs.Assert("accept-iff-spec", err != nil)
		vs.Assert("not-found-class", errors.Is(err, types.ErrTunnelNotFound))
		vs.Reach("rejected-no-tunnel", true)
		tunCheck(e, m)
		return
	}
	isCreator := m.creator[target] == 0
	inactive := !m.active[target]
	enough := allGTE(m.total(target), m.min)
	vs.Assert("accept-iff-spec", (err == nil) == vs.And(isCreator && inactive, enough))
	if err != nil {
		if errors.Is(err, types.ErrInvalidTunnelCreator) {
			vs.Assert("creator-error-means-not-creator", !isCreator)
			vs.Reach("rejected-not-creator", true)
		} else if errors.Is(err, types.ErrAlreadyActive) {
			vs.Assert("already-active-means-active", !inactive)
			vs.Reach("rejected-already-active", true)
		} else if errors.Is(err, types.ErrInsufficientDeposit) {
			vs.Assert("insufficient-means-below-min", !enough)
			vs.Reach("rejected-below-min", true)
		} else {
			vs.Assert("unexpected-error-class", false)
		}
		tunCheck(e, m)
		return
	}
	vs.Reach("accepted", true)
	vs.Reach("accepted-total-equals-min", m.total(target)[0].Cmp(m.min[0]) == 0)
	m.active[target] = true
	tunCheck(e, m)
}

// VerifC17Deactivate: MsgDeactivate signed by account 0.
func VerifC17Deactivate() {
	e := tunSetup()
	target := vs.Pick("target_tunnel", tunNT+1)
	sh := c17Shape()
	sh.creatorPick, sh.activeAll = true, true
	m := tunBuild(e, sh)

	msg := types.NewMsgDeactivate(uint64(target+1), tunAcc(0).String())
	vs.Assume(msg.ValidateBasic() == nil)
	_, err := NewMsgServerImpl(e.k).Deactivate(e.ctx, msg)

	exists := target < tunNT
	if !exists {
		vs.Assert("accept-iff-spec", err != nil)
		vs.Assert("not-found-class", errors.Is(err, types.ErrTunnelNotFound))
		vs.Reach("rejected-no-tunnel", true)
		tunCheck(e, m)
		return
	}
	isCreator := m.creator[target] == 0
	active := m.active[target]
	vs.Assert("accept-iff-spec", (err == nil) == (isCreator && active))
	if err != nil {
		if errors.Is(err, types.ErrInvalidTunnelCreator) {
			vs.Assert("creator-error-means-not-creator", !isCreator)
			vs.Reach("rejected-not-creator", true)
		} else if errors.Is(err, types.ErrAlreadyInactive) {
			vs.Assert("already-inactive-means-inactive", !active)
			vs.Reach("rejected-already-inactive", true)
		} else {
			vs.Assert("unexpected-error-class", false)
		}
		tunCheck(e, m)
		return
	}
	vs.Reach("accepted", true)
	m.active[target] = false
	tunCheck(e, m)
}
