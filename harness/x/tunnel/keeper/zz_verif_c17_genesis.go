//go:build verif

package keeper

import (
	"context"
	"math/big"

	sdkmath "cosmossdk.io/math"

	sdk "github.com/cosmos/cosmos-sdk/types"

	vs "github.com/bandprotocol/chain/v3/vsupport"
	"github.com/bandprotocol/chain/v3/vsupport/venv"
)

// c17GenAuth: plain accounts from the in-memory table, module accounts at the table address ModuleAddr(name)
// (the address the bank fake credits; the default fake derives module addresses by hashing like the real auth).
type c17GenAuth struct{ *venv.AccAuth }

func (c17GenAuth) GetModuleAccount(ctx context.Context, name string) sdk.ModuleAccountI {
	return venv.ModuleAuth{}.GetModuleAccount(ctx, name)
}
func (c17GenAuth) GetModuleAddress(name string) sdk.AccAddress { return venv.ModuleAddr(name) }

func init() { vs.RegisterHarness("VerifC17GenesisRoundTrip", VerifC17GenesisRoundTrip) }

// VerifC17GenesisRoundTrip: an arbitrary tunnel state satisfying the module invariant is exported with the real
// ExportGenesis and imported into a fresh keeper with the real InitGenesis (the path a chain upgrade or a genesis
// restart takes). The imported state must be the same state: every tunnel with its flag, the active index exactly
// the flagged tunnels, every deposit record, totals = sum of records, all held by the module account.
func VerifC17GenesisRoundTrip() {
	e1 := tunSetup()
	sh := c17Shape()
	sh.activeAll = true
	m := tunBuild(e1, sh)
	gs := ExportGenesis(e1.ctx, e1.k)

	e2 := tunSetupAuth(c17GenAuth{venv.NewAccAuth()})
	// the new chain's bank: the module account holds exactly the deposits (no accumulated fees in this export)
	m2 := *m
	m2.module = zeroAmts()
	for d := range tunDenoms {
		sum := big.NewInt(0)
		for i := 0; i < tunNT; i++ {
			sum = new(big.Int).Add(sum, m.total(i)[d])
		}
		m2.module[d] = sum
		e2.bank.SetAmount(tunModule(), tunDenoms[d], sdkmath.NewIntFromBigInt(sum))
		for j := 0; j < tunNA; j++ {
			e2.bank.SetAmount(tunAcc(j), tunDenoms[d], sdkmath.NewIntFromBigInt(m.bal[j][d]))
		}
	}

	InitGenesis(e2.ctx, e2.k, gs)

	tunCheck(e2, &m2)
	vs.Reach("imported", true)
	anyActive := false
	for _, a := range m.active {
		anyActive = anyActive || a
	}
	vs.Reach("imported-with-an-active-tunnel", anyActive)
}
