//go:build verif

package keeper

import (
	"errors"
	"math/big"
	"time"

	storetypes "cosmossdk.io/store/types"

	sdk "github.com/cosmos/cosmos-sdk/types"

	vs "github.com/bandprotocol/chain/v3/vsupport"
	"github.com/bandprotocol/chain/v3/vsupport/venv"
	bandtsstypes "github.com/bandprotocol/chain/v3/x/bandtss/types"
	feedstypes "github.com/bandprotocol/chain/v3/x/feeds/types"
	"github.com/bandprotocol/chain/v3/x/tunnel/types"
)

// C08 — step harnesses: end-block packet production (H2/H3) and MsgTriggerTunnel (H4) for one TSS tunnel.
//
// The bank fake keeps its ledger in the context's multistore (venv.StoreBank), so the cache context used by
// ProduceActiveTunnelPacket rolls fee transfers back exactly like module state.

func init() {
	vs.RegisterHarness("VerifC08EndBlock", VerifC08EndBlock)
	vs.RegisterHarness("VerifC08Trigger", VerifC08Trigger)
}

const c08TunnelID = uint64(1)

type c08Env struct {
	ctx   sdk.Context
	k     Keeper
	bank  *venv.StoreBank
	feeds *tunFeeds
	tss   *tunBandtss
}

// c08State is the specification-side copy of the pre-state.
type c08State struct {
	n            int
	now          int64
	active       bool
	creator      int
	seq          uint64
	interval     uint64
	lastInterval int64
	soft, hard   []*big.Int
	oldHas       []bool
	oldP         []*big.Int
	oldEntry     []feedstypes.Price
	inFeeds      []bool
	newP         []*big.Int
	feedEntry    []feedstypes.Price // entry GenerateNewPrices would carry
	baseHas      []bool
	base         []*big.Int
	routeHas     []bool
	route        []*big.Int
	payer        []*big.Int // fee payer balances
	mod          []*big.Int // tunnel module account
	tssMod       []*big.Int // bandtss module account
	fees         []*big.Int // TotalFees.TotalBasePacketFee
	feesHas      []bool
	outcome      int // 0 signing ok, 1 signing error, 2 signing panic, 3 fee quote error
}

var c08FeePayer = venv.Addr(5)

func c08Setup() *c08Env {
	key := storetypes.NewKVStoreKey(types.StoreKey)
	bkey := storetypes.NewKVStoreKey("bank")
	ctx := venv.NewContext(key, bkey)
	cdc := venv.Codec()
	e := &c08Env{bank: venv.NewStoreBank(bkey, cdc, tunDenoms...), feeds: &tunFeeds{}}
	e.tss = &tunBandtss{bank: e.bank}
	e.k = NewKeeper(cdc, key, venv.NewAccAuth(), e.bank, e.feeds, e.tss, venv.Channels{}, &venv.ICS4{}, venv.Ports{},
		venv.Scoped{}, venv.Addr(9).String())
	e.ctx = ctx
	return e
}

func c08FeeShape(label string, n int) []bool {
	return [][]bool{{false, false}, {true, false}, {true, true}, {false, true}}[vs.Pick(label, n)]
}

// c08Build stores an arbitrary pre-state of one TSS tunnel with n signals and returns its mirror.
// Signals with index >= Param("full_shapes") always have a latest-price entry and a current feed price (their
// prices are still arbitrary, including 0); the others enumerate presence/absence of both.
func c08Build(e *c08Env, n int, pickCreator bool) *c08State {
	k := e.k
	st := &c08State{n: n}

	st.now = vs.I64("now")
	vs.Assume(st.now >= 0 && st.now < 1<<62)
	e.ctx = e.ctx.WithBlockTime(time.Unix(st.now, 0))
	ctx := e.ctx

	// params
	p := types.DefaultParams()
	st.baseHas = c08FeeShape("base_fee_shape", vs.Param("fee_shapes"))
	st.base = tunNondetCoins("base_fee", st.baseHas)
	p.BasePacketFee = tunCoins(st.baseHas, st.base)
	vs.Assume(k.SetParams(ctx, p) == nil)

	// tunnel
	st.active = vs.Bool("is_active")
	if pickCreator {
		st.creator = vs.Pick("creator", tunNA)
	}
	st.seq = vs.U64("sequence")
	vs.Assume(st.seq < 1<<62)
	st.interval = vs.U64("interval")
	vs.Assume(st.interval < 1<<62)
	st.lastInterval = vs.I64("last_interval")
	vs.Assume(st.lastInterval >= 0 && st.lastInterval < 1<<62)

	sds := make([]types.SignalDeviation, 0, n)
	var latest []feedstypes.Price
	for i := 0; i < n; i++ {
		id := c08Signals[i]
		su, sb := c08U64("soft_bps")
		hu, hb := c08U64("hard_bps")
		st.soft, st.hard = append(st.soft, sb), append(st.hard, hb)
		sds = append(sds, types.NewSignalDeviation(id, su, hu))

		has := i >= vs.Param("full_shapes") || vs.Bool("has_latest")
		op, oe := big.NewInt(0), feedstypes.Price{}
		if has {
			u, b := c08U64("latest_price")
			op = b
			oe = feedstypes.NewPrice(feedstypes.PriceStatus(vs.Int("latest_status", 0, 3)), id, u, vs.I64("latest_ts"))
			latest = append(latest, oe)
		}
		st.oldHas, st.oldP, st.oldEntry = append(st.oldHas, has), append(st.oldP, op), append(st.oldEntry, oe)

		inf := i >= vs.Param("full_shapes") || vs.Bool("in_feeds")
		np := big.NewInt(0)
		fe := feedstypes.NewPrice(feedstypes.PRICE_STATUS_NOT_IN_CURRENT_FEEDS, id, 0, st.now)
		if inf {
			u, b := c08U64("feed_price")
			np = b
			fe = feedstypes.NewPrice(feedstypes.PriceStatus(vs.Int("feed_status", 0, 3)), id, u, vs.I64("feed_ts"))
			e.feeds.Prices = append(e.feeds.Prices, fe)
		}
		st.inFeeds, st.newP, st.feedEntry = append(st.inFeeds, inf), append(st.newP, np), append(st.feedEntry, fe)
	}

	route := types.NewTSSRoute("chain-1", "0xcontract", feedstypes.ENCODER_FIXED_POINT_ABI)
	t, err := types.NewTunnel(c08TunnelID, st.seq, &route, c08FeePayer.String(), sds, st.interval, sdk.NewCoins(),
		st.active, 0, tunAcc(st.creator).String())
	vs.Assume(err == nil)
	k.SetTunnel(ctx, t)
	k.SetTunnelCount(ctx, 1)
	k.SetLatestPrices(ctx, types.NewLatestPrices(c08TunnelID, latest, st.lastInterval))
	if st.active {
		k.SetActiveTunnelID(ctx, c08TunnelID)
	}

	// accumulated fees
	st.feesHas = c08FeeShape("total_fees_shape", 2)
	st.fees = tunNondetCoins("total_fees", st.feesHas)
	k.SetTotalFees(ctx, types.TotalFees{TotalBasePacketFee: tunCoins(st.feesHas, st.fees)})

	// signing route
	st.routeHas = c08FeeShape("route_fee_shape", vs.Param("fee_shapes"))
	st.route = tunNondetCoins("route_fee", st.routeHas)
	e.tss.Fee = tunCoins(st.routeHas, st.route)
	e.tss.NextID = vs.U64("next_signing_id")
	vs.Assume(e.tss.NextID < 1<<62)
	st.outcome = vs.Pick("signing_outcome", 4)
	switch st.outcome {
	case 1:
		e.tss.SignErr = bandtsstypes.ErrNoActiveGroup
	case 2:
		e.tss.Panic = true
	case 3:
		e.tss.FeeErr = bandtsstypes.ErrNoActiveGroup
	}

	// bank
	for d := range tunDenoms {
		st.payer = append(st.payer, vs.BigU("fee_payer_balance", tunBit))
		st.mod = append(st.mod, vs.BigU("module_balance", tunBit))
		st.tssMod = append(st.tssMod, vs.BigU("bandtss_balance", tunBit))
		e.bank.SetAmount(ctx, c08FeePayer, tunDenoms[d], sdkIntOf(st.payer[d]))
		e.bank.SetAmount(ctx, tunModule(), tunDenoms[d], sdkIntOf(st.mod[d]))
		e.bank.SetAmount(ctx, venv.ModuleAddr(bandtsstypes.ModuleName), tunDenoms[d], sdkIntOf(st.tssMod[d]))
	}
	return st
}

// c08Select is the selection rule (same specification as VerifC08GenerateNewPrices).
func c08Select(st *c08State, sendAll bool) (sel []bool, trigger bool, count uint64) {
	for i := 0; i < st.n; i++ {
		dev := c08RefDeviation(st.oldP[i], st.newP[i])
		hardHit := dev.Cmp(st.hard[i]) >= 0
		softHit := dev.Cmp(st.soft[i]) >= 0
		s := vs.Or(sendAll, vs.Or(hardHit, softHit))
		sel = append(sel, s)
		trigger = vs.Or(trigger, vs.Or(sendAll, hardHit))
		count += vs.IteU64(s, 1, 0)
	}
	return
}

func c08PriceIs(got, want feedstypes.Price) bool {
	return vs.And(got.SignalID == want.SignalID, vs.And(got.Price == want.Price,
		vs.And(got.Status == want.Status, got.Timestamp == want.Timestamp)))
}

func c08SignalIndex(id string) int {
	for i := range c08Signals {
		if c08Signals[i] == id {
			return i
		}
	}
	return -1
}

// c08CheckUnchanged: tunnel, latest prices, fees, balances are exactly the pre-state, no packet at seq+1.
// activeAfter is the expected active flag (the only thing a failed attempt may change).
func c08CheckUnchanged(e *c08Env, st *c08State, activeAfter bool) {
	ctx, k := e.ctx, e.k
	t, err := k.GetTunnel(ctx, c08TunnelID)
	vs.Assert("tunnel-exists", err == nil)
	vs.Assert("sequence-unchanged", t.Sequence == st.seq)
	vs.Assert("active-flag", t.IsActive == activeAfter)
	c08CheckIndex(e, activeAfter)
	_, perr := k.GetPacket(ctx, c08TunnelID, st.seq+1)
	vs.Assert("no-packet-stored", perr != nil)
	_, perr0 := k.GetPacket(ctx, c08TunnelID, st.seq)
	vs.Assert("no-packet-overwritten", perr0 != nil)

	lp, lerr := k.GetLatestPrices(ctx, c08TunnelID)
	vs.Assert("latest-prices-exist", lerr == nil)
	vs.Assert("last-interval-unchanged", lp.LastInterval == st.lastInterval)
	pos := 0
	for i := 0; i < st.n; i++ {
		if st.oldHas[i] {
			if pos < len(lp.Prices) {
				vs.Assert("latest-price-unchanged", c08PriceIs(lp.Prices[pos], st.oldEntry[i]))
			}
			pos++
		}
	}
	vs.Assert("latest-prices-len-unchanged", len(lp.Prices) == pos)

	vs.Assert("total-fees-unchanged", tunCoinsAre(k.GetTotalFees(ctx).TotalBasePacketFee, st.fees))
	c08CheckBank(e, st.payer, st.mod, st.tssMod, "-unchanged")
	vs.Assert("no-signing-created", e.tss.Calls == 0 || st.outcome == 1 || st.outcome == 2)
}

func c08CheckIndex(e *c08Env, active bool) {
	ids := e.k.GetActiveTunnelIDs(e.ctx)
	if active {
		vs.Assert("active-index", len(ids) == 1 && ids[0] == c08TunnelID)
	} else {
		vs.Assert("active-index", len(ids) == 0)
	}
}

func c08CheckBank(e *c08Env, payer, mod, tssMod []*big.Int, suffix string) {
	for d := range tunDenoms {
		vs.Assert("fee-payer-balance"+suffix, e.bank.Amount(e.ctx, c08FeePayer, tunDenoms[d]).BigInt().Cmp(payer[d]) == 0)
		vs.Assert("module-balance"+suffix, e.bank.Amount(e.ctx, tunModule(), tunDenoms[d]).BigInt().Cmp(mod[d]) == 0)
		vs.Assert("bandtss-balance"+suffix,
			e.bank.Amount(e.ctx, venv.ModuleAddr(bandtsstypes.ModuleName), tunDenoms[d]).BigInt().Cmp(tssMod[d]) == 0)
	}
}

// c08CheckProduced: exactly one packet with the next sequence number was produced and paid for.
// sel/count: the specified content; lastIntervalAfter: the specified LastInterval.
func c08CheckProduced(e *c08Env, st *c08State, sel []bool, count uint64, lastIntervalAfter int64) {
	ctx, k := e.ctx, e.k
	t, err := k.GetTunnel(ctx, c08TunnelID)
	vs.Assert("tunnel-exists", err == nil)
	vs.Assert("sequence-incremented-by-one", t.Sequence == st.seq+1)
	vs.Assert("active-flag", t.IsActive == st.active)
	c08CheckIndex(e, st.active)

	pk, perr := k.GetPacket(ctx, c08TunnelID, st.seq+1)
	vs.Assert("packet-stored-under-next-sequence", perr == nil)
	if perr != nil {
		return
	}
	vs.Assert("packet-header", vs.And(pk.TunnelID == c08TunnelID, vs.And(pk.Sequence == st.seq+1, pk.CreatedAt == st.now)))
	vs.Assert("packet-base-fee", tunCoinsAre(pk.BaseFee, st.base))
	vs.Assert("packet-route-fee", tunCoinsAre(pk.RouteFee, st.route))
	rc, rerr := pk.GetReceiptValue()
	vs.Assert("packet-receipt-present", rerr == nil)
	if tr, ok := rc.(*types.TSSPacketReceipt); ok {
		vs.Assert("packet-receipt-signing-id", uint64(tr.SigningID) == e.tss.NextID)
	} else {
		vs.Assert("packet-receipt-is-tss", false)
	}
	vs.Assert("exactly-one-signing-request", e.tss.Calls == 1)
	// the signing request (from which the signed originator and content are built) names this tunnel, its
	// destination and this packet's sequence number
	vs.Assert("signing-request-names-this-tunnel", e.tss.LastTunnelID == c08TunnelID)
	vs.Assert("signing-request-names-the-route-destination", e.tss.LastChainID == "chain-1" && e.tss.LastContract == "0xcontract")
	if o, ok := e.tss.LastContent.(*types.TunnelSignatureOrder); ok {
		vs.Assert("signed-content-carries-the-packet-sequence", o.Sequence == st.seq+1)
	} else {
		vs.Assert("signed-content-is-a-tunnel-order", false)
	}

	// content: exactly the selected signals, tunnel order, current feed entries
	vs.Assert("packet-carries-exactly-the-selected-count", uint64(len(pk.Prices)) == count)
	prev := -1
	for x := range pk.Prices {
		idx := c08SignalIndex(pk.Prices[x].SignalID)
		vs.Assert("packet-entry-is-a-tunnel-signal", idx > prev)
		if idx < 0 {
			continue
		}
		prev = idx
		vs.Assert("packet-entry-selected", sel[idx])
		vs.Assert("packet-entry-is-current-feed-price", c08PriceIs(pk.Prices[x], st.feedEntry[idx]))
	}

	// latest prices: selected signals replaced in place / appended in tunnel order, others untouched
	lp, lerr := k.GetLatestPrices(ctx, c08TunnelID)
	vs.Assert("latest-prices-exist", lerr == nil)
	vs.Assert("last-interval", lp.LastInterval == lastIntervalAfter)
	nOld := 0
	for i := 0; i < st.n; i++ {
		if st.oldHas[i] {
			nOld++
		}
	}
	seen := make([]bool, st.n)
	pos, prevNew := 0, -1
	for x := range lp.Prices {
		idx := c08SignalIndex(lp.Prices[x].SignalID)
		vs.Assert("latest-entry-is-a-tunnel-signal", idx >= 0)
		if idx < 0 {
			continue
		}
		vs.Assert("latest-entry-unique", !seen[idx])
		seen[idx] = true
		if x < nOld {
			// the old entries keep their slots
			for pos < st.n && !st.oldHas[pos] {
				pos++
			}
			vs.Assert("latest-old-slot-kept", idx == pos)
			pos++
			vs.Assert("latest-entry-value", vs.Or(
				vs.And(sel[idx], c08PriceIs(lp.Prices[x], st.feedEntry[idx])),
				vs.And(!sel[idx], c08PriceIs(lp.Prices[x], st.oldEntry[idx]))))
		} else {
			vs.Assert("latest-appended-in-tunnel-order", idx > prevNew && !st.oldHas[idx])
			prevNew = idx
			vs.Assert("latest-appended-selected", sel[idx])
			vs.Assert("latest-entry-value", c08PriceIs(lp.Prices[x], st.feedEntry[idx]))
		}
	}
	for i := 0; i < st.n; i++ {
		vs.Assert("latest-has-entry-iff-old-or-sent", seen[i] == vs.Or(st.oldHas[i], sel[i]))
	}

	// fees: base to the tunnel module (and accounted in TotalFees), route fee to bandtss, both from the fee payer, once
	vs.Assert("total-fees-plus-base", tunCoinsAre(k.GetTotalFees(ctx).TotalBasePacketFee, amtsAdd(st.fees, st.base)))
	c08CheckBank(e, amtsSub(amtsSub(st.payer, st.base), st.route), amtsAdd(st.mod, st.base), amtsAdd(st.tssMod, st.route), "")
}

// VerifC08EndBlock: one ProduceActiveTunnelPackets (the tunnel end-blocker) over an arbitrary tunnel state.
func VerifC08EndBlock() {
	e := c08Setup()
	st := c08Build(e, vs.Param("n"), false)

	err := e.k.ProduceActiveTunnelPackets(e.ctx)
	vs.Assert("end-blocker-never-fails", err == nil)

	if !st.active {
		vs.Reach("inactive-untouched", true)
		c08CheckUnchanged(e, st, false)
		vs.Assert("inactive-no-signing", e.tss.Calls == 0)
		return
	}
	if st.outcome == 3 {
		// the route fee cannot be determined: nothing happens (the tunnel stays active)
		vs.Reach("fee-quote-error", true)
		c08CheckUnchanged(e, st, true)
		return
	}
	total := amtsAdd(st.base, st.route)
	enough := allGTE(st.payer, total)
	sendAll := new(big.Int).SetInt64(st.now).Cmp(new(big.Int).Add(new(big.Int).SetUint64(st.interval), new(big.Int).SetInt64(st.lastInterval))) >= 0
	sel, trigger, count := c08Select(st, sendAll)

	t, _ := e.k.GetTunnel(e.ctx, c08TunnelID)
	if !t.IsActive {
		vs.Assert("deactivated-only-if-short-of-funds", !enough)
		vs.Reach("deactivated-insufficient-funds", true)
		c08CheckUnchanged(e, st, false)
		vs.Assert("deactivated-no-signing", e.tss.Calls == 0)
		return
	}
	vs.Assert("short-of-funds-deactivates", enough)

	if t.Sequence == st.seq {
		// nothing produced: either not due, or the route failed and the attempt was rolled back
		vs.Assert("no-packet-only-if-not-due-or-route-failed", vs.Or(!trigger, st.outcome != 0))
		vs.Reach("not-due", vs.And(!trigger, st.outcome == 0))
		vs.Reach("route-error-rolled-back", vs.And(trigger, st.outcome == 1))
		vs.Reach("route-panic-rolled-back", vs.And(trigger, st.outcome == 2))
		c08CheckUnchanged(e, st, true)
		vs.Assert("not-due-no-signing", vs.Or(trigger, e.tss.Calls == 0))
		return
	}
	vs.Assert("packet-only-if-due-and-route-ok", vs.And(trigger, st.outcome == 0))
	lastAfter := vs.IteI64(sendAll, st.now, st.lastInterval)
	vs.Reach("produced", true)
	vs.Reach("produced-interval", sendAll)
	vs.Reach("produced-deviation", !sendAll)
	vs.Reach("produced-exact-funds", vs.And(st.payer[0].Cmp(total[0]) == 0, total[0].Sign() > 0))
	c08CheckProduced(e, st, sel, count, lastAfter)
}

// VerifC08Trigger: MsgTriggerTunnel signed by account 0.
func VerifC08Trigger() {
	e := c08Setup()
	st := c08Build(e, vs.Param("n"), true)

	msg := types.NewMsgTriggerTunnel(c08TunnelID+uint64(vs.Pick("target_offset", 2)), tunAcc(0).String())
	vs.Assume(msg.ValidateBasic() == nil)
	_, err := NewMsgServerImpl(e.k).TriggerTunnel(e.ctx, msg)

	if msg.TunnelID != c08TunnelID {
		vs.Assert("accept-iff-spec", err != nil)
		vs.Assert("not-found-class", errors.Is(err, types.ErrTunnelNotFound))
		vs.Reach("rejected-no-tunnel", true)
		c08CheckUnchanged(e, st, st.active)
		return
	}
	total := amtsAdd(st.base, st.route)
	enough := allGTE(st.payer, total)
	isCreator := st.creator == 0
	accept := vs.And(isCreator && st.active && st.outcome == 0, enough)
	vs.Assert("accept-iff-spec", (err == nil) == accept)
	if err != nil {
		if errors.Is(err, types.ErrInvalidTunnelCreator) {
			vs.Assert("creator-error-means-not-creator", !isCreator)
			vs.Reach("rejected-not-creator", true)
		} else if errors.Is(err, types.ErrInactiveTunnel) {
			vs.Assert("inactive-error-means-inactive", !st.active)
			vs.Reach("rejected-inactive", true)
		} else if errors.Is(err, types.ErrInsufficientFund) {
			vs.Assert("insufficient-fund-means-short", !enough)
			vs.Reach("rejected-insufficient-fund", true)
		} else {
			vs.Assert("route-error-means-route-failed", st.outcome != 0)
			vs.Reach("rejected-route-failure", true)
			vs.Reach("rejected-route-panic", errors.Is(err, types.ErrSendPacketPanic))
		}
		// A rejected message is rolled back by the SDK; what the keeper itself guarantees is checked for the
		// rejections that happen before any write.
		if st.outcome == 0 || st.outcome == 3 || !isCreator || !st.active {
			c08CheckUnchanged(e, st, st.active)
		}
		return
	}
	vs.Reach("accepted", true)
	// a manual trigger sends every signal and restarts the interval
	sel := make([]bool, st.n)
	for i := range sel {
		sel[i] = true
	}
	c08CheckProduced(e, st, sel, uint64(st.n), st.now)
}
