//go:build verif

package keeper

import (
	"context"
	"math/big"

	sdkmath "cosmossdk.io/math"
	storetypes "cosmossdk.io/store/types"

	sdk "github.com/cosmos/cosmos-sdk/types"

	vs "github.com/bandprotocol/chain/v3/vsupport"
	"github.com/bandprotocol/chain/v3/vsupport/venv"
	bandtsstypes "github.com/bandprotocol/chain/v3/x/bandtss/types"
	feedstypes "github.com/bandprotocol/chain/v3/x/feeds/types"
	tsstypes "github.com/bandprotocol/chain/v3/x/tss/types"
	"github.com/bandprotocol/chain/v3/x/tunnel/types"
)

// Shared environment of the x/tunnel harnesses (C17, C08).
//
// Identifier policy: denoms, account addresses and tunnel ids are concrete and pairwise distinct;
// amounts, balances, flags and parameters are symbolic.

var tunDenoms = []string{"uaaa", "ubbb"} // sorted; the denom universe of the bank fake
const tunBadDenom = "uccc"               // a valid denom that is never part of MinDeposit

const (
	tunNT  = 2 // tunnels in the pre-state (ids 1..tunNT)
	tunNA  = 2 // depositor accounts venv.Addr(1..tunNA)
	tunBit = 64
)

type tunEnv struct {
	ctx   sdk.Context
	k     Keeper
	bank  *venv.LedgerBank
	auth  *venv.AccAuth
	feeds *tunFeeds
	tss   *tunBandtss
	ics4  *venv.ICS4
}

// tunFeeds is the feeds keeper seen by x/tunnel: a fixed list of current prices.
type tunFeeds struct{ Prices []feedstypes.Price }

func (f *tunFeeds) GetAllPrices(ctx sdk.Context) []feedstypes.Price { return f.Prices }

// GetPrices reproduces x/feeds keeper GetPrices: one entry per requested id, in request order,
// NOT_IN_CURRENT_FEEDS with price 0 and the block time for ids without a price.
func (f *tunFeeds) GetPrices(ctx sdk.Context, signalIDs []string) []feedstypes.Price {
	out := make([]feedstypes.Price, 0, len(signalIDs))
	for _, id := range signalIDs {
		found := false
		for _, p := range f.Prices {
			if p.SignalID == id {
				out = append(out, p)
				found = true
				break
			}
		}
		if !found {
			out = append(out, feedstypes.NewPrice(feedstypes.PRICE_STATUS_NOT_IN_CURRENT_FEEDS, id, 0, ctx.BlockTime().Unix()))
		}
	}
	return out
}

// tunBandtss is the bandtss keeper seen by x/tunnel (used by the C08 harnesses): the signing fee is a
// harness-chosen value, a signing request either fails (error or panic) without effects or charges the
// fee from the sender to the bandtss module account and returns the next signing id.
type tunSender interface {
	SendCoinsFromAccountToModule(ctx context.Context, from sdk.AccAddress, mod string, amt sdk.Coins) error
}

type tunBandtss struct {
	bank    tunSender
	Fee     sdk.Coins
	FeeErr  error
	SignErr error
	Panic   bool
	NextID  uint64
	Calls   int
	// arguments of the last signing request (what the signed originator is built from)
	LastTunnelID uint64
	LastChainID  string
	LastContract string
	LastContent  tsstypes.Content
}

func (b *tunBandtss) GetSigningFee(ctx sdk.Context) (sdk.Coins, error) {
	if b.FeeErr != nil {
		return nil, b.FeeErr
	}
	return b.Fee, nil
}

func (b *tunBandtss) CreateTunnelSigningRequest(ctx sdk.Context, tunnelID uint64, destinationChainID string,
	destinationContractAddr string, content tsstypes.Content, sender sdk.AccAddress, feeLimit sdk.Coins,
) (bandtsstypes.SigningID, error) {
	b.Calls++
	b.LastTunnelID, b.LastChainID, b.LastContract, b.LastContent = tunnelID, destinationChainID, destinationContractAddr, content
	if b.Panic {
		panic("tss: injected failure")
	}
	if b.SignErr != nil {
		return 0, b.SignErr
	}
	for _, fc := range b.Fee {
		if fc.Amount.GT(feeLimit.AmountOf(fc.Denom)) {
			return 0, bandtsstypes.ErrFeeExceedsLimit
		}
	}
	if err := b.bank.SendCoinsFromAccountToModule(ctx, sender, bandtsstypes.ModuleName, b.Fee); err != nil {
		return 0, err
	}
	b.NextID++
	return bandtsstypes.SigningID(b.NextID), nil
}

func sdkIntOf(x *big.Int) sdkmath.Int { return sdkmath.NewIntFromBigInt(x) }

func tunAcc(j int) sdk.AccAddress { return venv.Addr(1 + j) }

func tunModule() sdk.AccAddress { return venv.ModuleAddr(types.ModuleName) }

func tunSetup() *tunEnv { return tunSetupAuth(nil) }

// tunSetupAuth: auth != nil replaces the account keeper handed to the tunnel keeper (the genesis harness needs
// module accounts that carry the table address the bank fake uses).
func tunSetupAuth(auth types.AccountKeeper) *tunEnv {
	key := storetypes.NewKVStoreKey(types.StoreKey)
	ctx := venv.NewContext(key)
	cdc := venv.Codec()
	e := &tunEnv{
		bank:  venv.NewLedgerBank(tunDenoms...),
		auth:  venv.NewAccAuth(),
		feeds: &tunFeeds{},
		ics4:  &venv.ICS4{},
	}
	e.tss = &tunBandtss{bank: e.bank}
	if auth == nil {
		auth = e.auth
	}
	e.k = NewKeeper(cdc, key, auth, e.bank, e.feeds, e.tss, venv.Channels{}, e.ics4, venv.Ports{}, venv.Scoped{},
		venv.Addr(9).String())
	e.ctx = ctx
	return e
}

// ---------- coins helpers (oracle side) ----------

func zeroAmts() []*big.Int {
	r := make([]*big.Int, len(tunDenoms))
	for d := range r {
		r[d] = big.NewInt(0)
	}
	return r
}

// tunCoins builds a normal-form sdk.Coins over the denom universe: has[d] selects the shape,
// amt[d] is the (assumed positive) amount.
func tunCoins(has []bool, amt []*big.Int) sdk.Coins {
	cs := sdk.Coins{}
	for d := range tunDenoms {
		if has[d] {
			cs = append(cs, sdk.Coin{Denom: tunDenoms[d], Amount: sdkmath.NewIntFromBigInt(amt[d])})
		}
	}
	return cs
}

// tunNondetCoins returns a symbolic positive amount for each selected denom (0 for the others).
func tunNondetCoins(label string, has []bool) []*big.Int {
	amt := zeroAmts()
	for d := range tunDenoms {
		if has[d] {
			amt[d] = vs.BigU(label, tunBit)
			vs.Assume(amt[d].Sign() > 0)
		}
	}
	return amt
}

// tunCoinsAre: cs is in normal form (known denoms, strictly increasing, positive amounts) and its
// per-denom amounts are exactly want. Branch-free in the amounts.
func tunCoinsAre(cs sdk.Coins, want []*big.Int) bool {
	ok := true
	for i := range cs {
		known := false
		for _, d := range tunDenoms {
			if cs[i].Denom == d {
				known = true
			}
		}
		if !known {
			return false
		}
		if i > 0 && !(cs[i-1].Denom < cs[i].Denom) {
			return false
		}
		ok = vs.And(ok, cs[i].Amount.BigInt().Sign() > 0)
	}
	for d := range tunDenoms {
		ok = vs.And(ok, cs.AmountOf(tunDenoms[d]).BigInt().Cmp(want[d]) == 0)
	}
	return ok
}

// allGTE is the specification of Coins.IsAllGTE on per-denom amounts: a covers every denom of b.
func allGTE(a, b []*big.Int) bool {
	ok := true
	for d := range tunDenoms {
		ok = vs.And(ok, a[d].Cmp(b[d]) >= 0)
	}
	return ok
}

func amtsAdd(a, b []*big.Int) []*big.Int {
	r := make([]*big.Int, len(a))
	for d := range a {
		r[d] = new(big.Int).Add(a[d], b[d])
	}
	return r
}

func amtsSub(a, b []*big.Int) []*big.Int {
	r := make([]*big.Int, len(a))
	for d := range a {
		r[d] = new(big.Int).Sub(a[d], b[d])
	}
	return r
}

func amtsNonZero(a []*big.Int) bool {
	nz := false
	for d := range a {
		nz = vs.Or(nz, a[d].Sign() != 0)
	}
	return nz
}

// ---------- mirror state ----------

// tunMirror is the specification-side copy of the observable state: what the stores and the bank
// must contain. Steps transform it with plain arithmetic; tunCheck compares it with the real state.
type tunMirror struct {
	creator []int          // account index of each tunnel's creator
	active  []bool         // IsActive flag (and membership in the active index)
	dep     [][][]*big.Int // [tunnel][account][denom], 0 = no coin
	bal     [][]*big.Int   // [account][denom] bank balances
	module  []*big.Int     // [denom] balance of the tunnel module account
	min     []*big.Int     // [denom] MinDeposit (0 = denom not in MinDeposit)
	minHas  []bool
	seq     []uint64
	ivl     []uint64
	created []int64
}

func (m *tunMirror) total(i int) []*big.Int {
	t := zeroAmts()
	for j := 0; j < tunNA; j++ {
		t = amtsAdd(t, m.dep[i][j])
	}
	return t
}

// tunShape says which symbolic shapes the pre-state builder enumerates.
type tunShape struct {
	fullSecond  bool // all deposit shapes for every tunnel (else tunnel 2 only has account 0 / denom 0 optional)
	fullOther   bool // account 1 of tunnel 1: all 4 coin shapes (else none / both denoms)
	minShapes   int  // number of MinDeposit shapes: [d0], [d0,d1], [], [d1]
	creatorPick bool // creator of each tunnel symbolic choice among the accounts (else tunnel i created by account i)
	activeAll   bool // IsActive of every tunnel symbolic (else only of tunnel `focus`)
	focus       int  // tunnel index whose active flag is symbolic when !activeAll (others: inactive)
}

// tunBuild stores an arbitrary pre-state of tunNT tunnels with the real setters and returns its mirror.
// Invariant established by construction (Appendix B, T1-T4):
//
//	T1 tunnels 1..count exist; T2 IsActive <=> id in the active index;
//	T3 TotalDeposit = sum of the deposit records, records non-zero and in normal form;
//	T4 module balance = sum of totals + an arbitrary surplus (accumulated fees etc.).
func tunBuild(e *tunEnv, sh tunShape) *tunMirror {
	ctx, k := e.ctx, e.k
	m := &tunMirror{}

	// params: MinDeposit shape and amounts
	minSel := vs.Pick("min_deposit_shape", sh.minShapes)
	m.minHas = [][]bool{{true, false}, {true, true}, {false, false}, {false, true}}[minSel]
	m.min = tunNondetCoins("min_deposit", m.minHas)
	p := types.DefaultParams()
	p.MinDeposit = tunCoins(m.minHas, m.min)
	vs.Assume(k.SetParams(ctx, p) == nil)

	for i := 0; i < tunNT; i++ {
		id := uint64(i + 1)
		cr := i % tunNA
		if sh.creatorPick {
			cr = vs.Pick("creator", tunNA)
		}
		act := false
		if sh.activeAll || i == sh.focus {
			act = vs.Bool("is_active")
		}
		deps := make([][]*big.Int, tunNA)
		hasAny := make([]bool, len(tunDenoms))
		for j := 0; j < tunNA; j++ {
			has := make([]bool, len(tunDenoms))
			switch {
			case i == 0 && j == 0, sh.fullSecond, i == 0 && sh.fullOther:
				for d := range has {
					has[d] = vs.Bool("has_deposit")
				}
			case i == 0:
				both := vs.Bool("other_has_deposit")
				for d := range has {
					has[d] = both
				}
			case j == 0:
				has[0] = vs.Bool("second_has_deposit")
			}
			deps[j] = tunNondetCoins("deposit", has)
			some := false
			for d := range has {
				some = some || has[d]
				hasAny[d] = hasAny[d] || has[d]
			}
			if some {
				k.SetDeposit(ctx, types.NewDeposit(id, tunAcc(j).String(), tunCoins(has, deps[j])))
			}
		}
		m.dep = append(m.dep, deps)
		m.creator = append(m.creator, cr)
		m.active = append(m.active, act)
		m.seq = append(m.seq, vs.U64("sequence"))
		m.ivl = append(m.ivl, vs.U64("interval"))
		m.created = append(m.created, vs.I64("created_at"))

		route := types.NewTSSRoute("chain-1", "0xcontract", feedstypes.ENCODER_FIXED_POINT_ABI)
		t, err := types.NewTunnel(id, m.seq[i], &route, venv.Addr(5+i).String(), []types.SignalDeviation{},
			m.ivl[i], tunCoins(hasAny, m.total(i)), act, m.created[i], tunAcc(cr).String())
		vs.Assume(err == nil)
		k.SetTunnel(ctx, t)
		k.SetLatestPrices(ctx, types.NewLatestPrices(id, []feedstypes.Price{}, 0))
		if act {
			k.SetActiveTunnelID(ctx, id)
		}
	}
	k.SetTunnelCount(ctx, tunNT)

	// bank: accounts arbitrary, module account = sum of totals + surplus
	m.module = zeroAmts()
	for d := range tunDenoms {
		surplus := vs.BigU("module_surplus", tunBit)
		sum := new(big.Int).Set(surplus)
		for i := 0; i < tunNT; i++ {
			sum = new(big.Int).Add(sum, m.total(i)[d])
		}
		m.module[d] = sum
		e.bank.SetAmount(tunModule(), tunDenoms[d], sdkmath.NewIntFromBigInt(sum))
	}
	for j := 0; j < tunNA; j++ {
		b := zeroAmts()
		for d := range tunDenoms {
			b[d] = vs.BigU("balance", tunBit)
			e.bank.SetAmount(tunAcc(j), tunDenoms[d], sdkmath.NewIntFromBigInt(b[d]))
		}
		m.bal = append(m.bal, b)
	}
	return m
}

// tunCheck asserts that the real stores and the bank contain exactly the mirror (which also
// re-establishes T1-T4 for the post-state since the mirror satisfies them by construction:
// its totals are computed as the sum of its deposit records).
func tunCheck(e *tunEnv, m *tunMirror) {
	ctx, k := e.ctx, e.k
	vs.Assert("tunnel-count-unchanged", k.GetTunnelCount(ctx) == tunNT)
	vs.Assert("tunnel-set-unchanged", len(k.GetTunnels(ctx)) == tunNT)

	nRecords := 0
	for i := 0; i < tunNT; i++ {
		id := uint64(i + 1)
		t, err := k.GetTunnel(ctx, id)
		vs.Assert("tunnel-exists", err == nil)
		if err != nil {
			continue
		}
		vs.Assert("total-deposit-equals-sum-of-records", tunCoinsAre(t.TotalDeposit, m.total(i)))
		vs.Assert("is-active-flag", t.IsActive == m.active[i])
		vs.Assert("tunnel-static-fields", t.ID == id && t.Creator == tunAcc(m.creator[i]).String() &&
			t.FeePayer == venv.Addr(5+i).String() && len(t.SignalDeviations) == 0)
		vs.Assert("tunnel-counters", vs.And(t.Sequence == m.seq[i], vs.And(t.Interval == m.ivl[i], t.CreatedAt == m.created[i])))
		r, rerr := t.GetRouteValue()
		_, isTSS := r.(*types.TSSRoute)
		vs.Assert("tunnel-route-kept", rerr == nil && isTSS)

		recs := k.GetDeposits(ctx, id)
		found := 0
		for j := 0; j < tunNA; j++ {
			dp, ok := k.GetDeposit(ctx, id, tunAcc(j))
			vs.Assert("deposit-record-iff-nonzero", ok == amtsNonZero(m.dep[i][j]))
			if ok {
				found++
				vs.Assert("deposit-record-amount", tunCoinsAre(dp.Amount, m.dep[i][j]))
				vs.Assert("deposit-record-key", dp.TunnelID == id && dp.Depositor == tunAcc(j).String())
			}
		}
		vs.Assert("no-foreign-deposit-records", len(recs) == found)
		nRecords += found
	}
	vs.Assert("no-stray-deposit-records", len(k.GetAllDeposits(ctx)) == nRecords)

	// active index <=> flag
	ids := k.GetActiveTunnelIDs(ctx)
	for i := 0; i < tunNT; i++ {
		in := false
		for _, x := range ids {
			if x == uint64(i+1) {
				in = true
			}
		}
		vs.Assert("active-index-iff-flag", in == m.active[i])
	}
	vs.Assert("active-index-no-strays", len(ids) <= tunNT)
	for x := range ids {
		vs.Assert("active-index-ids-valid", ids[x] >= 1 && ids[x] <= tunNT && (x == 0 || ids[x-1] < ids[x]))
	}

	// bank
	for d := range tunDenoms {
		sumTotals := big.NewInt(0)
		for i := 0; i < tunNT; i++ {
			sumTotals = new(big.Int).Add(sumTotals, m.total(i)[d])
		}
		mod := e.bank.Amount(tunModule(), tunDenoms[d]).BigInt()
		vs.Assert("module-balance", mod.Cmp(m.module[d]) == 0)
		vs.Assert("deposits-fully-backed", mod.Cmp(sumTotals) >= 0)
		for j := 0; j < tunNA; j++ {
			vs.Assert("account-balance", e.bank.Amount(tunAcc(j), tunDenoms[d]).BigInt().Cmp(m.bal[j][d]) == 0)
		}
	}
	vs.Assert("no-bad-denom-minted", e.bank.Amount(tunModule(), tunBadDenom).IsZero())

	// params untouched
	vs.Assert("params-unchanged", tunCoinsAre(k.GetParams(ctx).MinDeposit, m.min))
}
