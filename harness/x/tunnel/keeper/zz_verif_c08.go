//go:build verif

package keeper

import (
	"math"
	"math/big"

	sdkmath "cosmossdk.io/math"

	vs "github.com/bandprotocol/chain/v3/vsupport"
	feedstypes "github.com/bandprotocol/chain/v3/x/feeds/types"
	"github.com/bandprotocol/chain/v3/x/tunnel/types"
)

// C08 — tunnel packets. Pure kernels (H1): calculateDeviationBPS and GenerateNewPrices.

func init() {
	vs.RegisterHarness("VerifC08DeviationBPS", VerifC08DeviationBPS)
	vs.RegisterHarness("VerifC08GenerateNewPrices", VerifC08GenerateNewPrices)
}

// c08U64 is an arbitrary uint64 that the solver sees as a mathematical integer in [0,2^64) (the engine
// keeps bv2int(int2bv(x)) as x mod 2^64), which keeps the price arithmetic in the Int theory. The
// oracle side works on the *big.Int and never applies machine-integer operators to the uint64.
func c08U64(label string) (uint64, *big.Int) {
	b := vs.BigU(label, 64)
	return b.Uint64(), b
}

var c08Signals = []string{"CS:AAA-USD", "CS:BBB-USD", "CS:CCC-USD"}

// VerifC08DeviationBPS: calculateDeviationBPS(old,new) for arbitrary uint64 prices is
//
//	0                        if new = old
//	MaxInt64                 if old = 0 != new
//	floor(|new-old|*10^4/old) otherwise, characterised without division:  r*old <= |new-old|*10^4 < (r+1)*old.
func VerifC08DeviationBPS() {
	oldP, newP := vs.BigU("old_price", 64), vs.BigU("new_price", 64)

	r := calculateDeviationBPS(sdkmath.NewIntFromBigInt(oldP), sdkmath.NewIntFromBigInt(newP)).BigInt()

	if newP.Cmp(oldP) == 0 {
		vs.Assert("equal-prices-zero-deviation", r.Sign() == 0)
		vs.Reach("equal", true)
		return
	}
	if oldP.Sign() == 0 {
		vs.Assert("zero-old-price-max-deviation", r.Cmp(big.NewInt(math.MaxInt64)) == 0)
		vs.Reach("old-zero", true)
		return
	}
	diff := new(big.Int).Sub(newP, oldP)
	diff.Abs(diff)
	x := new(big.Int).Mul(diff, big.NewInt(10000))
	lo := new(big.Int).Mul(r, oldP)
	hi := new(big.Int).Add(lo, oldP)
	vs.Assert("deviation-non-negative", r.Sign() >= 0)
	vs.Assert("deviation-floor-lower", lo.Cmp(x) <= 0)
	vs.Assert("deviation-floor-upper", x.Cmp(hi) < 0)
	vs.Reach("price-up", newP.Cmp(oldP) > 0)
	vs.Reach("price-down", newP.Cmp(oldP) < 0)
	vs.Reach("below-one-bps", r.Sign() == 0)
}

// c08RefDeviation is the specification of the deviation in basis points (math/big reference).
func c08RefDeviation(oldP, newP *big.Int) *big.Int {
	diff := new(big.Int).Sub(newP, oldP)
	diff.Abs(diff)
	q := new(big.Int).Mul(diff, big.NewInt(10000))
	// guarded division: the divisor is replaced by 1 when old = 0 (that case is overridden below)
	oldZero := oldP.Sign() == 0
	den := vs.IteBig(oldZero, big.NewInt(1), oldP)
	q.Quo(q, den)
	q = vs.IteBig(oldZero, big.NewInt(math.MaxInt64), q)
	return vs.IteBig(newP.Cmp(oldP) == 0, big.NewInt(0), q)
}

// VerifC08GenerateNewPrices: the trigger/selection rule of a packet.
//
//	trigger   <=> (sendAll and there is a signal) or some signal's deviation >= its hard threshold
//	selected_i <=> sendAll or deviation_i >= hard_i or deviation_i >= soft_i
//	result = [] if not trigger, else the selected signals in tunnel order, each carrying the current feeds
//	price entry, or (NOT_IN_CURRENT_FEEDS, id, 0, timestamp) when the feeds module has no price for it;
//	the old price of a signal without a latest-price entry is 0.
func VerifC08GenerateNewPrices() {
	n := vs.Param("n")
	ts := vs.I64("timestamp")
	sendAll := vs.Bool("send_all")

	sds := make([]types.SignalDeviation, 0, n)
	latest := map[string]feedstypes.Price{}
	feeds := map[string]feedstypes.Price{}
	oldP := make([]*big.Int, n) // 0 when the signal has no latest-price entry
	newP := make([]*big.Int, n) // 0 when the feeds module has no price
	soft := make([]*big.Int, n)
	hard := make([]*big.Int, n)
	inFeeds := make([]bool, n)
	feedEntry := make([]feedstypes.Price, n)
	for i := 0; i < n; i++ {
		id := c08Signals[i]
		su, sb := c08U64("soft_bps")
		hu, hb := c08U64("hard_bps")
		soft[i], hard[i] = sb, hb
		sds = append(sds, types.NewSignalDeviation(id, su, hu))
		oldP[i], newP[i] = big.NewInt(0), big.NewInt(0)
		if i >= vs.Param("full_shapes") || vs.Bool("has_latest") {
			u, b := c08U64("latest_price")
			oldP[i] = b
			latest[id] = feedstypes.NewPrice(feedstypes.PriceStatus(vs.Int("latest_status", 0, 3)), id, u, vs.I64("latest_ts"))
		}
		if i >= vs.Param("full_shapes") || vs.Bool("in_feeds") {
			inFeeds[i] = true
			u, b := c08U64("feed_price")
			newP[i] = b
			feedEntry[i] = feedstypes.NewPrice(feedstypes.PriceStatus(vs.Int("feed_status", 0, 3)), id, u, vs.I64("feed_ts"))
			feeds[id] = feedEntry[i]
		} else {
			feedEntry[i] = feedstypes.NewPrice(feedstypes.PRICE_STATUS_NOT_IN_CURRENT_FEEDS, id, 0, ts)
		}
	}

	res := GenerateNewPrices(sds, latest, feeds, ts, sendAll)

	// specification
	trigger := false
	count := uint64(0)
	sel := make([]bool, n)
	hardHit := make([]bool, n)
	for i := 0; i < n; i++ {
		dev := c08RefDeviation(oldP[i], newP[i])
		hardHit[i] = dev.Cmp(hard[i]) >= 0
		softHit := dev.Cmp(soft[i]) >= 0
		sel[i] = vs.Or(sendAll, vs.Or(hardHit[i], softHit))
		trigger = vs.Or(trigger, vs.Or(sendAll, hardHit[i]))
		count += vs.IteU64(sel[i], 1, 0)
	}

	vs.Assert("non-empty-iff-triggered", (len(res) > 0) == trigger)
	vs.Assert("carries-exactly-the-selected-count", vs.Implies(trigger, uint64(len(res)) == count))
	prev := -1
	for k := range res {
		idx := -1
		for i := 0; i < n; i++ {
			if res[k].SignalID == c08Signals[i] {
				idx = i
			}
		}
		vs.Assert("entry-is-a-tunnel-signal", idx >= 0)
		if idx < 0 {
			continue
		}
		vs.Assert("tunnel-order-no-duplicates", idx > prev)
		prev = idx
		vs.Assert("entry-selected", sel[idx])
		e := feedEntry[idx]
		vs.Assert("entry-is-current-feed-price", vs.And(res[k].Price == e.Price,
			vs.And(res[k].Status == e.Status, res[k].Timestamp == e.Timestamp)))
	}

	vs.Reach("nothing-sent", len(res) == 0)
	vs.Reach("interval-send-all", vs.And(sendAll, len(res) == n))
	vs.Reach("triggered-by-hard-deviation", vs.And(!sendAll, len(res) > 0))
	if n >= 2 {
		vs.Reach("soft-rides-along", vs.And(!sendAll, vs.And(vs.And(hardHit[0], !hardHit[1]), sel[1])))
		vs.Reach("partial-packet", vs.And(len(res) > 0, len(res) < n))
	}
	if len(res) > 0 && !inFeeds[0] && res[0].SignalID == c08Signals[0] {
		vs.Reach("missing-feed-sent", true)
	}
	vs.Reach("first-price-from-zero", vs.And(!sendAll, vs.And(oldP[0].Sign() == 0, hardHit[0])))
}
