//go:build verif

package tunnel

import (
	"bytes"
	"errors"

	"github.com/ethereum/go-ethereum/accounts/abi"

	sdk "github.com/cosmos/cosmos-sdk/types"

	tsslib "github.com/bandprotocol/chain/v3/pkg/tss"
	vs "github.com/bandprotocol/chain/v3/vsupport"
	feedstypes "github.com/bandprotocol/chain/v3/x/feeds/types"
	tsstypes "github.com/bandprotocol/chain/v3/x/tss/types"
	"github.com/bandprotocol/chain/v3/x/tunnel/keeper"
	"github.com/bandprotocol/chain/v3/x/tunnel/types"
)

func init() {
	vs.RegisterHarness("VerifC11TunnelHandler", VerifC11TunnelHandler)
}

// c11RefPacket: the packet schema destination contracts decode, written down independently:
// abi.encode((uint64 Sequence, (bytes32 SignalID, uint64 Price)[] RelayPrices, int64 CreatedAt) packet)
type c11RefPacket struct {
	Sequence    uint64
	RelayPrices []feedstypes.VerifC11RefPrice
	CreatedAt   int64
}

func c11RefPacketArgs() abi.Arguments {
	t, err := abi.NewType("tuple", "result", []abi.ArgumentMarshaling{
		{Name: "Sequence", Type: "uint64"},
		{Name: "RelayPrices", Type: "tuple[]", InternalType: "struct Prices[]", Components: []abi.ArgumentMarshaling{
			{Name: "SignalID", Type: "bytes32"},
			{Name: "Price", Type: "uint64"},
		}},
		{Name: "CreatedAt", Type: "int64"},
	})
	if err != nil {
		panic(err)
	}
	return abi.Arguments{{Type: t, Name: "packet"}}
}

// VerifC11TunnelHandler: the tunnel content handler (and types.EncodeTSS behind it) on an arbitrary packet order.
//
//	FIXED_POINT_ABI: tag("FixedPointABI") | abi.encode((sequence, [(id, price)], createdAt))
//	TICK_ABI:        tag("TickABI")       | abi.encode((sequence, [(id, price == 0 ? 0 : tick(price))], createdAt))
//	other encoder: ErrInvalidEncoder;  id longer than 32 bytes: ErrInvalidSignal;  nothing else fails.
func VerifC11TunnelHandler() {
	n := vs.Pick("n_prices", vs.Param("max_prices")+1)
	mode := vs.Pick("encoder", 3)
	enc := feedstypes.ENCODER_FIXED_POINT_ABI
	switch mode {
	case 1:
		enc = feedstypes.ENCODER_TICK_ABI
	case 2:
		enc = feedstypes.Encoder(vs.I32("other_encoder"))
		vs.Assume(enc != feedstypes.ENCODER_FIXED_POINT_ABI && enc != feedstypes.ENCODER_TICK_ABI)
	}
	seq := vs.U64("sequence")
	createdAt := vs.I64("created_at")
	prices := make([]feedstypes.Price, n)
	ref := make([]feedstypes.VerifC11RefPrice, n)
	anyLong := false
	lens := []int{0, 3, 32, 33}
	for i := range prices {
		id := string(vs.Bytes("signal_id", lens[vs.Pick("signal_id_shape", len(lens))]))
		anyLong = anyLong || len(id) > 32
		p := vs.U64("price")
		if mode == 1 {
			p = feedstypes.VerifC11TickPrices[vs.Pick("tick_price", len(feedstypes.VerifC11TickPrices))]
		}
		prices[i] = feedstypes.Price{SignalID: id, Status: feedstypes.PriceStatus(vs.Int("status", 0, 3)), Price: p,
			Timestamp: vs.I64("price_timestamp")}
		ref[i] = feedstypes.VerifC11RefPrice{SignalID: feedstypes.VerifC11RefID(id), Price: p}
		if mode == 1 && !anyLong {
			ref[i].Price = feedstypes.VerifC11RefTick(p)
		}
	}
	order := types.NewTunnelSignatureOrder(seq, prices, createdAt, enc)
	h := NewSignatureOrderHandler(keeper.Keeper{})
	out, err := h(sdk.Context{}, order)

	vs.Assert("accepted-iff-known-encoder-and-ids-fit", (err == nil) == (mode != 2 && !anyLong))
	if err != nil {
		vs.Assert("no-bytes-on-error", len(out) == 0)
		if mode == 2 {
			vs.Assert("unknown-encoder-error", errors.Is(err, types.ErrInvalidEncoder))
			vs.Reach("unknown-encoder", true)
		} else {
			vs.Assert("long-id-error", errors.Is(err, feedstypes.ErrInvalidSignal))
			vs.Reach("id-too-long", true)
		}
		return
	}
	tag := "FixedPointABI"
	if mode == 1 {
		tag = "TickABI"
	}
	bz, rerr := c11RefPacketArgs().Pack(&c11RefPacket{Sequence: seq, RelayPrices: ref, CreatedAt: createdAt})
	vs.Assert("reference-pack-ok", rerr == nil)
	want := append(append([]byte{}, tsslib.Hash([]byte(tag))[:4]...), bz...)
	vs.Assert("message-is-tag-then-abi-of-packet", bytes.Equal(out, want))
	vs.Assert("message-length", len(out) == 4+160+64*n)
	vs.Assert("tunnel-order-is-internal", order.IsInternal())
	vs.Assert("route-is-tunnel", order.OrderRoute() == "tunnel")
	_, err2 := h(sdk.Context{}, tsstypes.NewTextSignatureOrder([]byte("x")))
	vs.Assert("foreign-kind-refused", err2 != nil)
	vs.Reach("fixed-point-encoded", mode == 0)
	vs.Reach("tick-encoded", mode == 1)
	vs.Reach("empty-packet-encoded", n == 0)
}
