//go:build verif

package band

import (
	"testing"

	"github.com/bandprotocol/chain/v3/vsupport"
)

func TestVerifReplay(t *testing.T) { vsupport.Replay(t) }
