//go:build verif

package band

import "github.com/cosmos/cosmos-sdk/codec"

// VerifCodecOnlyApp returns a BandApp of which only the codec is set: the yoda daemon uses its BandApp
// for AppCodec() alone on the request-handling paths (C19).
func VerifCodecOnlyApp(cdc codec.Codec) *BandApp {
	return &BandApp{appCodec: cdc}
}
