//go:build verif

package band

import (
	authtypes "github.com/cosmos/cosmos-sdk/x/auth/types"
	distrtypes "github.com/cosmos/cosmos-sdk/x/distribution/types"
	minttypes "github.com/cosmos/cosmos-sdk/x/mint/types"

	vs "github.com/bandprotocol/chain/v3/vsupport"
	bandtsstypes "github.com/bandprotocol/chain/v3/x/bandtss/types"
	oracletypes "github.com/bandprotocol/chain/v3/x/oracle/types"
)

func init() { vs.RegisterHarness("VerifC14BeginBlockOrder", VerifC14BeginBlockOrder) }

// VerifC14BeginBlockOrder: the application's begin-block order realises the allocation sequence of the property:
// the block's inflation is minted into the fee pool first, the oracle share is taken from the whole pool, the
// signing-member share from what remains, and the distribution module allocates the rest; every module is
// listed once (the module manager runs them in exactly this order).
func VerifC14BeginBlockOrder() {
	order := orderBeginBlockers()
	idx := func(name string) int {
		n, at := 0, -1
		for i, m := range order {
			if m == name {
				n++
				at = i
			}
		}
		vs.Assert("module-listed-exactly-once", n == 1)
		return at
	}
	mint, oracle, bandtss, distr := idx(minttypes.ModuleName), idx(oracletypes.ModuleName), idx(bandtsstypes.ModuleName), idx(distrtypes.ModuleName)
	vs.Assert("mint-before-oracle-allocation", mint < oracle)
	vs.Assert("oracle-share-before-signing-member-share", oracle < bandtss)
	vs.Assert("signing-member-share-before-distribution", bandtss < distr)
	_ = authtypes.ModuleName
	vs.Reach("order-read", true)
}
