//go:build verif

package proof

import (
	"bytes"
	"encoding/binary"
	"time"

	"github.com/cometbft/cometbft/crypto/tmhash"
	cmttypes "github.com/cometbft/cometbft/types"

	vs "github.com/bandprotocol/chain/v3/vsupport"
)

func init() {
	vs.RegisterHarness("VerifC12HeaderParts", VerifC12HeaderParts)
}

// ---- the bridge side (BlockHeaderMerkleParts.getBlockHeader + Utils of the Band bridge contract), written from
// the contract, not from the Go code under test ----

func c12BridgeLeaf(b []byte) []byte { // Utils.merkleLeafHash: sha256(0x00 | b)
	return tmhash.Sum(append([]byte{0}, b...))
}

func c12BridgeUvarint(x uint64) []byte { // Utils.encodeVarintUnsigned
	return binary.AppendUvarint(nil, x)
}

func c12BridgeEncodeTime(second uint64, nano uint32) []byte { // Utils.encodeTime
	out := append([]byte{8}, c12BridgeUvarint(second)...)
	if nano > 0 {
		out = append(out, 16)
		out = append(out, c12BridgeUvarint(uint64(nano))...)
	}
	return out
}

// c12BridgeBlockHash recombines the relayed header parts with the app hash proven by the multistore proof:
//
//	                         ________________[root]________________
//	                ______[3A]______                       ____[3B]____
//	           __[2A]__          [2B]=LastBlockIdAndOther  [2C]      [2D]=EvidenceAndProposerHash
//	[1A]=VersionAndChainId [1B]                       [1E]=NextVal..  [1F]
//	                 height  time                               appHash  [B]=LastResultsHash
func c12BridgeBlockHash(p BlockHeaderMerklePartsEthereum, appHash []byte) []byte {
	heightLeaf := c12BridgeLeaf(append([]byte{8}, c12BridgeUvarint(p.Height)...))
	timeLeaf := c12BridgeLeaf(c12BridgeEncodeTime(p.TimeSecond, p.TimeNanoSecond))
	appLeaf := c12BridgeLeaf(append([]byte{10, 32}, appHash...))
	l := c12Inner(c12Inner(p.VersionAndChainIdHash[:], c12Inner(heightLeaf, timeLeaf)), p.LastBlockIdAndOther[:])
	r := c12Inner(c12Inner(p.NextValidatorHashAndConsensusHash[:], c12Inner(appLeaf, p.LastResultsHash[:])),
		p.EvidenceAndProposerHash[:])
	return c12Inner(l, r)
}

var c12HeaderChainIDs = []string{"bandchain", "band-laozi-testnet6", "b", ""}

// c12UvarintClass constrains v to the values whose unsigned varint has between lo and hi bytes (1..10).
func c12UvarintClass(v uint64, lo, hi int) {
	if lo > 1 {
		vs.Assume(v >= 1<<(7*uint(lo-1)))
	}
	if hi < 10 {
		vs.Assume(v < 1<<(7*uint(hi)))
	}
}

// VerifC12HeaderParts: for a symbolic block header, recombining the parts returned by GetBlockHeaderMerkleParts
// (in the Ethereum format handed to the bridge) exactly as the bridge contract does, together with the header's
// app hash, gives the REAL (*cmttypes.Header).Hash() — the block hash validators sign. sha256 is uninterpreted
// (the equality holds for any hash function); merkle.HashFromByteSlices, both cdcEncode copies, the gogoproto
// wrapper / Version / BlockID / Timestamp marshallers run from source.
//
// Shapes: `empty_field_shape` chooses which of the nine optional byte fields are empty (none / all / exactly one;
// with all_subsets=1 every subset). With no empty field the numeric fields range over every varint length class
// allowed by the tier; in the other shapes they stay symbolic inside one length class.
func VerifC12HeaderParts() {
	const nOpt = 9
	mask := 0
	if vs.Param("all_subsets") == 1 {
		mask = vs.Pick("empty_fields_mask", 1<<nOpt)
	} else {
		switch m := vs.Pick("empty_field_shape", nOpt+2); {
		case m == 0:
			mask = 0
		case m == 1:
			mask = 1<<nOpt - 1
		default:
			mask = 1 << uint(m-2)
		}
	}
	free := mask == 0
	emptyAsNil := mask != 0 && vs.Bool("empty_fields_are_nil") // nil slice vs empty non-nil slice (typed-nil test)
	field := func(k int, label string, n int) []byte {
		if mask&(1<<uint(k)) != 0 {
			if emptyAsNil {
				return nil
			}
			return []byte{}
		}
		return vs.Bytes(label, n)
	}

	h := &cmttypes.Header{}
	h.Version.Block = vs.U64("version_block")
	h.Version.App = vs.U64("version_app")
	h.Height = vs.I64("height")
	secs := vs.I64("time_seconds")
	nanos := vs.Int("time_nanos", 0, 999_999_999)
	total := vs.U32("last_block_parts_total")
	vs.Assume(h.Height > 0)
	vs.Assume(secs != 0) // the bridge always writes the seconds field; protobuf omits a zero
	vs.Assume(secs >= -62135596800 && secs <= 253402300799)
	if free {
		h.ChainID = c12HeaderChainIDs[0]
		c12UvarintClass(uint64(h.Height), 1, vs.Param("max_height_len"))
		if vs.Param("negative_seconds") == 0 {
			vs.Assume(secs > 0)
			c12UvarintClass(uint64(secs), 1, vs.Param("max_seconds_len"))
		}
		c12UvarintClass(h.Version.Block, 1, vs.Param("max_version_len"))
		c12UvarintClass(h.Version.App, 1, vs.Param("max_version_len"))
		c12UvarintClass(uint64(total), 1, vs.Param("max_total_len"))
	} else {
		h.ChainID = c12HeaderChainIDs[vs.Pick("chain_id", len(c12HeaderChainIDs))]
		c12UvarintClass(uint64(h.Height), 4, 4)
		vs.Assume(secs > 0)
		c12UvarintClass(uint64(secs), 5, 5)
		c12UvarintClass(uint64(nanos), 4, 4)
		vs.Assume(h.Version.Block >= 1 && h.Version.Block < 128)
		vs.Assume(h.Version.App >= 1 && h.Version.App < 128)
		vs.Assume(total >= 1 && total < 128)
	}
	h.Time = time.Unix(secs, int64(nanos)).UTC()
	h.LastBlockID = cmttypes.BlockID{
		Hash:          field(0, "last_block_hash", 32),
		PartSetHeader: cmttypes.PartSetHeader{Total: total, Hash: field(1, "last_block_parts_hash", 32)},
	}
	h.LastCommitHash = field(2, "last_commit_hash", 32)
	h.DataHash = field(3, "data_hash", 32)
	h.ValidatorsHash = vs.Bytes("validators_hash", 32) // Header.Hash() is nil without it (invalid header)
	h.NextValidatorsHash = field(4, "next_validators_hash", 32)
	h.ConsensusHash = field(5, "consensus_hash", 32)
	h.AppHash = vs.Bytes("app_hash", 32) // the bridge takes it from the multistore proof: always 32 bytes
	h.LastResultsHash = field(6, "last_results_hash", 32)
	h.EvidenceHash = field(7, "evidence_hash", 32)
	h.ProposerAddress = field(8, "proposer_address", 20)

	want := h.Hash()
	parts := GetBlockHeaderMerkleParts(h)
	got := c12BridgeBlockHash(parts.encodeToEthFormat(), h.AppHash)

	vs.Assert("header-hash-defined", len(want) == 32)
	vs.Assert("bridge-recombination-gives-block-hash", bytes.Equal(got, want))
	vs.Assert("height-carried", parts.Height == uint64(h.Height))
	vs.Assert("time-carried", parts.TimeSecond == uint64(secs) && parts.TimeNanoSecond == uint32(nanos))
	vs.Reach("header-recombined", true)
	vs.Reach("all-fields-present", mask == 0)
	vs.Reach("optional-fields-empty", mask == 1<<nOpt-1)
	vs.Reach("nine-byte-height", free && h.Height >= 1<<56)
	vs.Reach("zero-nanos", nanos == 0)
	vs.Reach("zero-version-app", h.Version.App == 0)
}
