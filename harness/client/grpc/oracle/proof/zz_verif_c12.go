//go:build verif

package proof

import (
	"bytes"
	"encoding/binary"

	ics23 "github.com/cosmos/ics23/go"

	vs "github.com/bandprotocol/chain/v3/vsupport"
)

func init() {
	vs.RegisterHarness("VerifC12MerklePaths", VerifC12MerklePaths)
	vs.RegisterHarness("VerifC12LeafPrefix", VerifC12LeafPrefix)
}

// c12Varint returns an arbitrary int64 whose signed-varint encoding has exactly `length` bytes (1..10), together
// with that encoding produced by the real encoding/binary.PutVarint. zig-zag: u = (v << 1) ^ (v >> 63); the
// encoding has n bytes iff 2^(7(n-1)) <= u < 2^(7n) (n = 1 also covers u = 0).
func c12Varint(label string, length int, nonNegative bool) (int64, []byte) {
	v := vs.I64(label)
	u := uint64(v<<1) ^ uint64(v>>63)
	if length > 1 {
		vs.Assume(u >= 1<<(7*uint(length-1)))
	}
	if length < 10 {
		vs.Assume(u < 1<<(7*uint(length)))
	}
	if nonNegative {
		vs.Assume(v >= 0)
	}
	buf := make([]byte, binary.MaxVarintLen64)
	n := binary.PutVarint(buf, v)
	vs.Assert("varint-length-class", n == length)
	return v, buf[:n]
}

// c12InnerOp builds the ics23 inner op iavl emits for one inner node (iavl proof_ics23.go convertInnerOps):
//
//	prefix = varint(height) | varint(size) | varint(version)
//	sibling on the left  (data on the right):  prefix |= 0x20 | sibling | 0x20 ; suffix = empty
//	sibling on the right (data on the left):   prefix |= 0x20                  ; suffix = 0x20 | sibling
func c12InnerOp(height, size, version, sibling []byte, dataOnRight bool) *ics23.InnerOp {
	var p []byte
	p = append(p, height...)
	p = append(p, size...)
	p = append(p, version...)
	op := &ics23.InnerOp{Hash: ics23.HashOp_SHA256}
	if dataOnRight {
		p = append(p, 0x20)
		p = append(p, sibling...)
		p = append(p, 0x20)
	} else {
		p = append(p, 0x20)
		op.Suffix = append([]byte{0x20}, sibling...)
	}
	op.Prefix = p
	return op
}

// VerifC12MerklePaths: GetMerklePaths recovers (height, size, version, sibling, side) of every inner-node step
// of an IAVL existence proof, for varints of every encoded length (height 1..2 bytes as iavl heights are int8,
// size and version 1..9 bytes = all non-negative int64, plus the 10-byte class for negative values which the
// parser must still carry through unchanged as uint64), both sides, 1..steps steps.
func VerifC12MerklePaths() {
	steps := 1 + vs.Pick("steps", vs.Param("max_steps"))
	maxLen := vs.Param("max_varint_len")
	type want struct {
		h, s, v int64
		sib     []byte
		right   bool
	}
	var ws []want
	ep := &ics23.ExistenceProof{Key: []byte{0xff, 1}, Value: []byte{7}}
	for i := 0; i < steps; i++ {
		ml := maxLen
		if i > 0 {
			ml = vs.Param("later_max_varint_len") // every length is covered on the first step
		}
		h, hb := c12Varint("subtree_height", 1+vs.Pick("height_len", 2), true)
		s, sb := c12Varint("subtree_size", 1+vs.Pick("size_len", ml), false)
		v, vb := c12Varint("subtree_version", 1+vs.Pick("version_len", ml), false)
		sib := vs.Bytes("sibling_hash", 32)
		right := vs.Bool("data_on_right")
		ws = append(ws, want{h, s, v, sib, right})
		ep.Path = append(ep.Path, c12InnerOp(hb, sb, vb, sib, right))
	}
	got := GetMerklePaths(ep)
	vs.Assert("one-path-element-per-step", len(got) == steps)
	if len(got) != steps {
		return
	}
	for i, w := range ws {
		vs.Assert("height-recovered", got[i].SubtreeHeight == uint32(w.h))
		vs.Assert("size-recovered", got[i].SubtreeSize == uint64(w.s))
		vs.Assert("version-recovered", got[i].SubtreeVersion == uint64(w.v))
		vs.Assert("side-recovered", got[i].IsDataOnRight == w.right)
		vs.Assert("sibling-recovered", bytes.Equal(got[i].SiblingHash, w.sib))
		e := got[i].encodeToEthFormat()
		vs.Assert("eth-height", vs.Implies(w.h < 256, int64(e.SubtreeHeight) == w.h))
		vs.Assert("eth-size", vs.Implies(w.s >= 0, e.SubtreeSize.IsInt64() && e.SubtreeSize.Int64() == w.s))
		vs.Assert("eth-version", vs.Implies(w.v >= 0, e.SubtreeVersion.IsInt64() && e.SubtreeVersion.Int64() == w.v))
		vs.Assert("eth-sibling", bytes.Equal(e.SiblingHash[:], w.sib))
		vs.Assert("eth-side", e.IsDataOnRight == w.right)
	}
	vs.Reach("paths-recovered", true)
	vs.Reach("data-on-right", ws[0].right)
	vs.Reach("data-on-left", !ws[0].right)
	vs.Reach("nine-byte-version", ws[0].v >= 1<<55)
}

// VerifC12LeafPrefix: the leaf prefix iavl emits is varint(0) | varint(1) | varint(version) (height 0, size 1);
// decodeIAVLLeafPrefix returns the version for every encoded length of the version (and, more generally, for
// arbitrary first two varints of 1..2 bytes).
func VerifC12LeafPrefix() {
	maxLen := vs.Param("max_varint_len")
	var p []byte
	if vs.Bool("iavl_leaf") {
		p = append(p, 0, 2) // varint(0), varint(1)
	} else {
		_, a := c12Varint("first", 1+vs.Pick("first_len", 2), false)
		_, b := c12Varint("second", 1+vs.Pick("second_len", 2), false)
		p = append(append(p, a...), b...)
	}
	v, vb := c12Varint("version", 1+vs.Pick("version_len", maxLen), false)
	p = append(p, vb...)
	vs.Assert("version-recovered", decodeIAVLLeafPrefix(p) == uint64(v))
	vs.Reach("leaf-decoded", true)
	vs.Reach("nine-byte-version", v >= 1<<55)
}
