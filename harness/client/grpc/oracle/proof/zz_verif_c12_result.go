//go:build verif

package proof

import (
	"bytes"

	vs "github.com/bandprotocol/chain/v3/vsupport"
	oracletypes "github.com/bandprotocol/chain/v3/x/oracle/types"
)

func init() { vs.RegisterHarness("VerifC12TransformResult", VerifC12TransformResult) }

// VerifC12TransformResult: the value leaf handed to the bridge (transformResult, the struct that is ABI-packed into
// the relayed proof) carries every field of the stored oracle result unchanged, for arbitrary field values: the
// bridge re-encodes this struct to recompute the leaf hash.
func VerifC12TransformResult() {
	r := oracletypes.Result{
		ClientID:       "client",
		OracleScriptID: oracletypes.OracleScriptID(vs.U64("oracle_script_id")),
		Calldata:       vs.Bytes("calldata", 3),
		AskCount:       vs.U64("ask_count"),
		MinCount:       vs.U64("min_count"),
		RequestID:      oracletypes.RequestID(vs.U64("request_id")),
		AnsCount:       vs.U64("ans_count"),
		RequestTime:    vs.I64("request_time"),
		ResolveTime:    vs.I64("resolve_time"),
		ResolveStatus:  oracletypes.ResolveStatus(vs.Int("resolve_status", 0, 3)),
		Result:         vs.Bytes("result", 3),
	}
	e := transformResult(r)
	vs.Assert("client-id", e.ClientID == r.ClientID)
	vs.Assert("oracle-script-id", e.OracleScriptID == uint64(r.OracleScriptID))
	vs.Assert("calldata", bytes.Equal(e.Params, r.Calldata))
	vs.Assert("ask-count", e.AskCount == r.AskCount)
	vs.Assert("min-count", e.MinCount == r.MinCount)
	vs.Assert("request-id", e.RequestID == uint64(r.RequestID))
	vs.Assert("ans-count", e.AnsCount == r.AnsCount)
	vs.Assert("request-time", e.RequestTime == uint64(r.RequestTime))
	vs.Assert("resolve-time", e.ResolveTime == uint64(r.ResolveTime))
	vs.Assert("resolve-status", e.ResolveStatus == uint8(r.ResolveStatus))
	vs.Assert("result", bytes.Equal(e.Result, r.Result))
	vs.Reach("transformed", true)
}
