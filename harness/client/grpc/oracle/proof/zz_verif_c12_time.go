//go:build verif

package proof

import (
	"bytes"
	"time"

	gogotypes "github.com/cosmos/gogoproto/types"

	vs "github.com/bandprotocol/chain/v3/vsupport"
)

func init() {
	vs.RegisterHarness("VerifC12EncodeTime", VerifC12EncodeTime)
}

// VerifC12EncodeTime: encodeTime(t) is byte for byte the protobuf encoding of google.protobuf.Timestamp{seconds,
// nanos} produced by the real generated marshaller (the encoding CometBFT puts into the canonical vote), for every
// vote time a time.Time can hold in protobuf range (year 1..9999) and every nanosecond value; the result always
// fits the single length byte the vote assembly uses.
func VerifC12EncodeTime() {
	secs := vs.I64("vote_time_seconds")
	vs.Assume(secs >= -62135596800 && secs <= 253402300799)
	nanos := vs.Int("vote_time_nanos", 0, 999_999_999)
	t := time.Unix(secs, int64(nanos)).UTC()
	got := encodeTime(t)
	ref, err := (&gogotypes.Timestamp{Seconds: secs, Nanos: int32(nanos)}).Marshal()
	vs.Assert("reference-marshal-ok", err == nil)
	vs.Assert("encode-time-is-protobuf-timestamp", bytes.Equal(got, ref))
	vs.Assert("fits-single-length-byte", len(got) <= 17) // 1+10 (negative seconds) + 1+5
	vs.Reach("encoded", true)
	vs.Reach("negative-seconds", secs < 0)
	vs.Reach("zero-seconds", secs == 0)
	vs.Reach("zero-nanos", nanos == 0)
}
