//go:build verif

package proof

import (
	"bytes"
	"sort"

	"github.com/cometbft/cometbft/crypto/tmhash"

	ics23 "github.com/cosmos/ics23/go"

	vs "github.com/bandprotocol/chain/v3/vsupport"
)

func init() {
	vs.RegisterHarness("VerifC12MultiStoreProof", VerifC12MultiStoreProof)
}

// c12StoreNames returns the names of the KV stores mounted by the application: the constant arguments of the
// storetypes.NewKVStoreKeys call in the real (*AppKeepers).GenerateKeys, read from the loaded program by the engine
// and pinned byte by byte on the tape so that the native replay rebuilds the same list.
func c12StoreNames() []string {
	var static []string
	if vs.Symbolic() {
		static = vs.StaticCallStrings("(*github.com/bandprotocol/chain/v3/app/keepers.AppKeepers).GenerateKeys",
			"cosmossdk.io/store/types.NewKVStoreKeys")
	}
	n := vs.Int("n_stores", 0, 64)
	if vs.Symbolic() {
		vs.Assume(n == len(static))
		n = len(static)
	}
	names := make([]string, n)
	for i := 0; i < n; i++ {
		l := vs.Int("store_name_len", 0, 32)
		if vs.Symbolic() {
			vs.Assume(l == len(static[i]))
			l = len(static[i])
		}
		b := make([]byte, l)
		for j := 0; j < l; j++ {
			b[j] = vs.U8("store_name_byte")
			if vs.Symbolic() {
				vs.Assume(b[j] == static[i][j])
				b[j] = static[i][j]
			}
		}
		names[i] = string(b)
	}
	return names
}

func c12Leaf(name string, commitHash []byte) []byte {
	// cometbft/SDK simple-map leaf: sha256(0x00 | len(key) | key | len(sha256(value)) | sha256(value))
	var p []byte
	p = append(p, 0x00, byte(len(name)))
	p = append(p, name...)
	p = append(p, 0x20)
	p = append(p, tmhash.Sum(commitHash)...)
	return tmhash.Sum(p)
}

func c12Inner(l, r []byte) []byte {
	var p []byte
	p = append(p, 0x01)
	p = append(p, l...)
	p = append(p, r...)
	return tmhash.Sum(p)
}

func c12Split(n int) int { // largest power of two strictly less than n (RFC 6962)
	k := 1
	for k*2 < n {
		k *= 2
	}
	return k
}

// c12Tree returns the root of the RFC-6962 tree over leaves and the ics23 inner ops (leaf to root) for leaf idx, as
// the SDK's rootmulti store produces them: sibling on the left -> Prefix = 0x01 | sibling; on the right ->
// Prefix = 0x01, Suffix = sibling.
func c12Tree(leaves [][]byte, idx int) ([]byte, []*ics23.InnerOp) {
	if len(leaves) == 1 {
		return leaves[0], nil
	}
	k := c12Split(len(leaves))
	if idx >= 0 && idx < k {
		l, path := c12Tree(leaves[:k], idx)
		r, _ := c12Tree(leaves[k:], -1)
		return c12Inner(l, r), append(path, &ics23.InnerOp{Hash: ics23.HashOp_SHA256, Prefix: []byte{0x01}, Suffix: r})
	}
	if idx >= k {
		l, _ := c12Tree(leaves[:k], -1)
		r, path := c12Tree(leaves[k:], idx-k)
		return c12Inner(l, r), append(path, &ics23.InnerOp{Hash: ics23.HashOp_SHA256, Prefix: append([]byte{0x01}, l...)})
	}
	l, _ := c12Tree(leaves[:k], -1)
	r, _ := c12Tree(leaves[k:], -1)
	return c12Inner(l, r), nil
}

// VerifC12MultiStoreProof: for the application's real store-key set and ARBITRARY store commit hashes, the six
// hashes GetMultiStoreProof extracts from the multistore existence proof of "oracle" fold, exactly as the bridge
// contract folds them, to the app hash (the root of the simple Merkle tree over all stores, sorted by name).
// sha256 is an uninterpreted function, so the equality holds for every hash function. Adding, removing or renaming
// a store moves the oracle leaf or changes the shape of the tree and makes the positional extraction wrong.
func VerifC12MultiStoreProof() {
	names := c12StoreNames()
	sort.Strings(names)
	idx := -1
	for i, n := range names {
		if n == "oracle" {
			idx = i
		}
	}
	vs.Assert("oracle-store-mounted", idx >= 0)
	if idx < 0 {
		return
	}
	commit := make([][]byte, len(names))
	leaves := make([][]byte, len(names))
	for i, n := range names {
		commit[i] = vs.Bytes("store_commit_hash", 32)
		leaves[i] = c12Leaf(n, commit[i])
	}
	appHash, path := c12Tree(leaves, idx)
	ep := &ics23.ExistenceProof{
		Key:   []byte("oracle"),
		Value: commit[idx],
		Leaf: &ics23.LeafOp{Hash: ics23.HashOp_SHA256, PrehashValue: ics23.HashOp_SHA256, Length: ics23.LengthOp_VAR_PROTO,
			Prefix: []byte{0}},
		Path: path,
	}

	m := GetMultiStoreProof(ep)

	// the bridge (MultiStore.getAppHash):
	h := c12Leaf("oracle", m.OracleIAVLStateHash)
	h = c12Inner(m.MintStoreMerkleHash, h)
	h = c12Inner(h, m.ParamsToRestakeStoresMerkleHash)
	h = c12Inner(h, m.RollingseedToTransferStoresMerkleHash)
	h = c12Inner(h, m.TssToUpgradeStoresMerkleHash)
	h = c12Inner(m.AuthToIcahostStoresMerkleHash, h)
	vs.Assert("bridge-fold-gives-app-hash", bytes.Equal(h, appHash))
	vs.Assert("proof-has-five-levels", len(path) == 5)
	vs.Assert("oracle-iavl-root-passed", bytes.Equal(m.OracleIAVLStateHash, commit[idx]))
	e := m.encodeToEthFormat()
	vs.Assert("eth-format-keeps-hashes", bytes.Equal(e.OracleIAVLStateHash[:], commit[idx]) &&
		bytes.Equal(e.MintStoreMerkleHash[:], m.MintStoreMerkleHash) &&
		bytes.Equal(e.AuthToIcahostStoresMerkleHash[:], m.AuthToIcahostStoresMerkleHash))
	vs.Reach("app-hash-recomputed", true)
}
