//go:build verif

package proof

import (
	"bytes"
	"errors"
	"time"

	gogotypes "github.com/cosmos/gogoproto/types"

	cmttypes "github.com/cometbft/cometbft/types"

	vs "github.com/bandprotocol/chain/v3/vsupport"
)

func init() {
	vs.RegisterHarness("VerifC12VoteSignBytes", VerifC12VoteSignBytes)
	vs.RegisterHarness("VerifC12VoteSelection", VerifC12VoteSelection)
}

// ---- seam: recoverETHAddress (go-ethereum SigToPub through cgo + address derivation) ----
//
// The engine redirects every call of recoverETHAddress to verifRecoverETHAddress (engine/sym/models_c12.go); the
// native replay build gets the same redirection from recover.npatch. The hook records what the code under test
// asks to be recovered and answers with what the harness planned (address, v, error).

type c12Recovery struct{ msg, sig, signer []byte }

type c12PlannedRecovery struct {
	addr []byte
	v    uint8
	err  error
}

var (
	c12Recoveries []c12Recovery
	c12Plan       []c12PlannedRecovery
)

var verifRecoverHook func(msg, sig, signer []byte) ([]byte, uint8, error)

func verifRecoverETHAddress(msg, sig, signer []byte) ([]byte, uint8, error) {
	k := len(c12Recoveries)
	c12Recoveries = append(c12Recoveries, c12Recovery{
		msg:    append([]byte(nil), msg...),
		sig:    append([]byte(nil), sig...),
		signer: append([]byte(nil), signer...),
	})
	if k >= len(c12Plan) {
		return nil, 0, errors.New("verif: more recoveries than committed votes")
	}
	p := c12Plan[k]
	return p.addr, p.v, p.err
}

// ---- inputs ----

var c12VoteChainIDs = []string{"laozi-mainnet", "bandchain", "band-laozi-testnet6"}

type c12VoteCfg struct {
	nSigs         int  // number of commit signatures (concrete)
	freeFirstTime bool // first vote: every encodable timestamp; otherwise one length class (zero fields still possible on the first)
	freeRound     bool // round 0 (field omitted) as well as > 0
	freeTotal     bool // part-set total of every varint length up to max_total_len (incl. 0)
	pickChain     bool
	planError     bool
}

// c12VoteTime returns an arbitrary vote time (seconds, nanos). free: every instant of year 1..9999 (incl. zero
// seconds / zero nanos / negative seconds). Otherwise seconds in the 5-byte varint class (2^28..2^35: years
// 1978..3058) and nanos in the 4-byte class, each optionally zero when allowZero.
func c12VoteTime(free, allowZero bool) (time.Time, int64, int) {
	secs := vs.I64("vote_time_seconds")
	nanos := vs.Int("vote_time_nanos", 0, 999_999_999)
	if free {
		vs.Assume(secs >= -62135596800 && secs <= 253402300799)
	} else {
		if !(allowZero && vs.Bool("vote_time_zero_seconds")) {
			c12UvarintClass(uint64(secs), 5, 5)
		} else {
			vs.Assume(secs == 0)
		}
		if !(allowZero && vs.Bool("vote_time_zero_nanos")) {
			c12UvarintClass(uint64(nanos), 4, 4)
		} else {
			vs.Assume(nanos == 0)
		}
	}
	return time.Unix(secs, int64(nanos)).UTC(), secs, nanos
}

// c12RunVotes builds a symbolic signed header, runs GetSignaturesAndPrefix with the recovery seam and checks the
// result against cometbft's own sign bytes.
func c12RunVotes(cfg c12VoteCfg) {
	chainID := c12VoteChainIDs[0]
	if cfg.pickChain {
		chainID = c12VoteChainIDs[vs.Pick("chain_id", len(c12VoteChainIDs))]
	}
	height := vs.I64("height")
	vs.Assume(height > 0)
	round := vs.I32("round")
	if cfg.freeRound {
		vs.Assume(round >= 0)
	} else {
		vs.Assume(round > 0)
	}
	total := vs.U32("parts_total")
	if cfg.freeTotal {
		c12UvarintClass(uint64(total), 1, vs.Param("max_total_len"))
	} else {
		vs.Assume(total >= 1 && total < 128)
	}
	commit := &cmttypes.Commit{
		Height: height,
		Round:  round,
		BlockID: cmttypes.BlockID{
			Hash:          vs.Bytes("block_hash", 32),
			PartSetHeader: cmttypes.PartSetHeader{Total: total, Hash: vs.Bytes("parts_hash", 32)},
		},
	}
	n := cfg.nSigs
	errAt := -1
	if cfg.planError {
		errAt = vs.Pick("recovery_fails_at", n+1) - 1 // -1: never
	}
	planned := errors.New("verif: planned recovery failure")
	var firstSecs int64
	firstNanos := -1
	var commits []int // indices of the votes for the block, in commit order
	c12Plan = nil
	c12Recoveries = nil
	for j := 0; j < n; j++ {
		flag := cmttypes.BlockIDFlag(vs.Int("block_id_flag", 1, 3))
		var cs cmttypes.CommitSig
		cs.BlockIDFlag = flag
		if flag != cmttypes.BlockIDFlagAbsent {
			var secs int64
			var nanos int
			cs.Timestamp, secs, nanos = c12VoteTime(cfg.freeFirstTime && j == 0, j == 0)
			if j == 0 {
				firstSecs, firstNanos = secs, nanos
			}
			cs.Signature = vs.Bytes("signature", 64)
			cs.ValidatorAddress = vs.Bytes("validator_address", 20)
		}
		commit.Signatures = append(commit.Signatures, cs)
		if flag == cmttypes.BlockIDFlagCommit {
			k := len(commits)
			commits = append(commits, j)
			// recovered Ethereum address: first byte arbitrary (decides the order), the rest distinct per vote
			addr := make([]byte, 20)
			addr[0] = vs.U8("recovered_address_first_byte")
			for i := 1; i < 20; i++ {
				addr[i] = byte(0xa0 + j)
			}
			p := c12PlannedRecovery{addr: addr, v: vs.U8("recovered_v")}
			if k == errAt {
				p = c12PlannedRecovery{err: planned}
			}
			c12Plan = append(c12Plan, p)
		}
	}
	info := &cmttypes.SignedHeader{Header: &cmttypes.Header{ChainID: chainID, Height: height}, Commit: commit}
	verifRecoverHook = verifRecoverETHAddress

	sigs, common, err := GetSignaturesAndPrefix(info)

	failing := errAt >= 0 && errAt < len(commits)
	switch {
	case failing:
		vs.Assert("recovery-error-propagates", err == planned && sigs == nil)
		vs.Assert("stops-at-failed-recovery", len(c12Recoveries) == errAt+1)
		vs.Reach("recovery-error", true)
	case len(commits) == 0:
		vs.Assert("no-valid-precommit-is-an-error", err != nil && err != planned && sigs == nil)
		vs.Assert("nothing-recovered-without-commit-votes", len(c12Recoveries) == 0)
		vs.Reach("no-valid-precommit", true)
	default:
		vs.Assert("accepted-iff-some-commit-vote", err == nil)
		vs.Assert("one-signature-per-commit-vote", len(sigs) == len(commits) && len(c12Recoveries) == len(commits))
	}
	nRec := len(c12Recoveries)
	if nRec > len(commits) {
		nRec = len(commits) // already reported above
	}
	// what was handed to signature recovery: the REAL sign bytes of that validator's precommit
	tooLong := false
	for k := 0; k < nRec; k++ {
		j := commits[k]
		want := commit.VoteSignBytes(chainID, int32(j)) // cometbft: CanonicalizeVote + protoio.MarshalDelimited
		if len(want) > 128 {
			// 2-byte length prefix: outside the fixed vote format (the property is stated for chain ids short enough)
			tooLong = true
			continue
		}
		rec := c12Recoveries[k]
		vs.Assert("recovered-message-is-vote-sign-bytes", bytes.Equal(rec.msg, want))
		vs.Assert("recovered-with-vote-signature", bytes.Equal(rec.sig, commit.Signatures[j].Signature))
		vs.Assert("recovered-against-validator-address", bytes.Equal(rec.signer, commit.Signatures[j].ValidatorAddress))
	}
	vs.Reach("message-longer-than-127-bytes-skipped", tooLong)
	if failing || len(commits) == 0 || err != nil || len(sigs) != len(commits) {
		return
	}
	// expected order: by recovered address (independent insertion sort)
	order := make([]int, len(commits)) // positions in `commits`
	for i := range order {
		order[i] = i
	}
	for i := 1; i < len(order); i++ {
		for m := i; m > 0 && bytes.Compare(c12Plan[order[m]].addr, c12Plan[order[m-1]].addr) < 0; m-- {
			order[m], order[m-1] = order[m-1], order[m]
		}
	}
	for i, k := range order {
		j := commits[k]
		cs := commit.Signatures[j]
		s := sigs[i]
		vs.Assert("sorted-by-recovered-address-r", bytes.Equal(s.R, cs.Signature[:32]))
		vs.Assert("s-is-second-half", bytes.Equal(s.S, cs.Signature[32:]))
		vs.Assert("v-carried", s.V == uint32(c12Plan[k].v))
		ts, terr := gogotypes.StdTimeMarshal(cs.Timestamp)
		vs.Assert("encoded-timestamp-is-protobuf-timestamp", terr == nil && bytes.Equal(s.EncodedTimestamp, ts))
		e := s.encodeToEthFormat()
		vs.Assert("eth-format-keeps-signature", bytes.Equal(e.R[:], cs.Signature[:32]) && bytes.Equal(e.S[:], cs.Signature[32:]) &&
			e.V == c12Plan[k].v && bytes.Equal(e.EncodedTimestamp, ts))
		// the bridge (TMSignature.checkTimeAndRecoverSigner): the relayed parts recombine to the signed message
		var re []byte
		re = append(re, common.SignedDataPrefix...)
		re = append(re, commit.BlockID.Hash...)
		re = append(re, common.SignedDataSuffix...)
		re = append(re, 42, uint8(len(s.EncodedTimestamp)))
		re = append(re, s.EncodedTimestamp...)
		re = append(re, 50, uint8(len(chainID)))
		re = append(re, chainID...)
		re = append([]byte{uint8(len(re))}, re...)
		if len(re) <= 128 {
			vs.Assert("relayed-parts-recombine-to-vote-sign-bytes", bytes.Equal(re, commit.VoteSignBytes(chainID, int32(j))))
			vs.Assert("relayed-parts-recombine-to-recovered-message", bytes.Equal(re, c12Recoveries[k].msg))
		}
	}
	vs.Reach("signatures-returned", true)
	vs.Reach("round-zero", round == 0)
	vs.Reach("zero-seconds", firstSecs == 0 && firstNanos > 0)
	vs.Reach("zero-nanos", firstSecs != 0 && firstNanos == 0)
	vs.Reach("zero-time-fields", firstSecs == 0 && firstNanos == 0)
	vs.Reach("negative-seconds-five-byte-nanos", firstSecs < 0 && firstNanos >= 1<<28)
	vs.Reach("six-byte-seconds-one-byte-nanos", firstSecs >= 1<<35 && firstNanos > 0 && firstNanos < 128)
	vs.Reach("two-byte-parts-total", total >= 128)
	vs.Reach("three-commit-votes", len(commits) == 3)
	vs.Reach("vote-skipped", len(commits) < n)
	vs.Reach("order-differs-from-commit-order", len(order) > 1 && order[0] != 0)
}

// VerifC12VoteSignBytes: one commit vote; height > 0, round >= 0 (incl. 0: field omitted), block hash and part-set
// hash 32 symbolic bytes, part-set total of every varint length of the tier, EVERY vote timestamp of year 1..9999
// (zero seconds, zero nanos, negative seconds), three chain ids of different lengths: the bytes handed to
// signature recovery, and the recombination of the relayed parts, are exactly cometbft's VoteSignBytes.
func VerifC12VoteSignBytes() {
	c12RunVotes(c12VoteCfg{nSigs: 1, freeFirstTime: true, freeRound: true, freeTotal: true, pickChain: true})
}

// VerifC12VoteSelection: 1..3 commit signatures with symbolic BlockIDFlag (commit / nil / absent), symbolic
// timestamps (first one with zero fields; every encodable instant when free_first_time=1), arbitrary order of the recovered addresses, a recovery failure planned
// at any call: only commit votes are recovered and returned, sorted by recovered address, R/S/V/timestamp carried,
// errors propagate, "no valid precommit" iff there is none.
func VerifC12VoteSelection() {
	n := 1 + vs.Pick("signatures", vs.Param("max_signatures"))
	c12RunVotes(c12VoteCfg{nSigs: n, planError: true, freeFirstTime: vs.Param("free_first_time") == 1})
}
