//go:build verif

package tss

import vs "github.com/bandprotocol/chain/v3/vsupport"

// Randomness seams. In the symbolic build crypto/rand.Read and tss.RandomScalar are engine models producing
// fresh symbolic values (labels "rand" / "rand_scalar"); the native replay build is patched (rand*.npatch) to
// call these hooks, which read the same labels from the tape.
var verifRandScalarHook func() (Scalar, error)
var verifRandBytesHook func(int) ([]byte, error)

func VerifUseTapeRandomness() {
	vs.AllowRandom()
	if !vs.Symbolic() {
		verifRandScalarHook = func() (Scalar, error) { return Scalar(vs.ScalarBytes("rand_scalar")), nil }
		verifRandBytesHook = func(n int) ([]byte, error) { return vs.Bytes("rand", n), nil }
	}
}

// verifNonce16 is an INonce16Generator with a symbolic / taped nonce.
type verifNonce16 struct{}

func (verifNonce16) RandBytes16() ([]byte, error) { return vs.Bytes("nonce16", 16), nil }
