//go:build verif

package tss

import (
	"bytes"

	vs "github.com/bandprotocol/chain/v3/vsupport"
)

func init() {
	vs.RegisterHarness("VerifC04Keys", VerifC04Keys)
	vs.RegisterHarness("VerifC04Complaint", VerifC04Complaint)
	vs.RegisterHarness("VerifC04Round1Proofs", VerifC04Round1Proofs)
}

// c04Dealer: a member's round-1 material with a symbolic sharing polynomial of degree t-1.
type c04Dealer struct {
	coeffs  Scalars
	commits Points
	otPriv  Scalar
	otPub   Point
}

func c04NewDealer(t int) c04Dealer {
	var d c04Dealer
	for k := 0; k < t; k++ {
		a := c03Scalar("coefficient")
		d.coeffs = append(d.coeffs, a)
		d.commits = append(d.commits, a.Point())
	}
	d.otPriv = c03Scalar("one_time_key")
	d.otPub = d.otPriv.Point()
	return d
}

// VerifC04Keys: the key material derived from the published round-1 commitments is mutually consistent:
// group key = sum of constant-term commitments = (sum of constant terms)·G, and every member's public key
// computed from the accumulated commitments is the image of the sum of the shares dealt to it.
func VerifC04Keys() {
	n := vs.Param("n")
	t := vs.Param("t")
	vs.AssumeHashScalars()
	dealers := make([]c04Dealer, n)
	for m := range dealers {
		dealers[m] = c04NewDealer(t)
	}
	// accumulated commits per degree, as x/tss AddCoefficientCommits does (SumPoints)
	acc := make(Points, t)
	for k := 0; k < t; k++ {
		// the k-th coefficients do not cancel (an accumulated commitment at infinity cannot be serialised and is
		// rejected by the chain when it is parsed; for honest dealers this has negligible probability)
		var ck Scalars
		for m := range dealers {
			ck = append(ck, dealers[m].coeffs[k])
			vs.Assume(SumScalars(ck...).Validate() == nil)
		}
		acc[k] = dealers[0].commits[k]
		for m := 1; m < n; m++ {
			s, err := SumPoints(acc[k], dealers[m].commits[k])
			vs.Assert("sum-commits-ok", err == nil)
			acc[k] = s
		}
	}
	var a0 Points
	var secrets Scalars
	for m := range dealers {
		a0 = append(a0, dealers[m].commits[0])
		secrets = append(secrets, dealers[m].coeffs[0])
	}
	groupKey, err := ComputeGroupPublicKey(a0...)
	vs.Assert("group-key-ok", err == nil)
	vs.Assert("group-key-is-accumulated-a0", bytes.Equal(groupKey, acc[0]))
	vs.Assert("group-key-is-image-of-secret", bytes.Equal(groupKey, SumScalars(secrets...).Point()))

	for i := 1; i <= n; i++ {
		mid := MemberID(i)
		var shares Scalars
		for m := range dealers {
			sh, err := ComputeSecretShare(dealers[m].coeffs, mid)
			vs.Assert("share-ok", err == nil)
			// each share passes the recipient's commitment check
			vs.Assert("share-verifies", VerifySecretShare(mid, sh, dealers[m].commits) == nil)
			shares = append(shares, sh)
		}
		ownPriv, err := ComputeOwnPrivateKey(shares...)
		vs.Assert("own-priv-ok", err == nil)
		ownPub, err := ComputeOwnPublicKey(acc, mid)
		vs.Assert("own-pub-ok", err == nil)
		vs.Assert("member-key-consistent", bytes.Equal(ownPriv.Point(), ownPub))
	}
	vs.Reach("keys-derived", true)
}

// VerifC04Complaint: dealer I encrypts recipient J's share under their Diffie-Hellman key.
//   - both sides derive the same symmetric key; the recipient decrypts exactly the dealt share;
//   - a complaint against a correct share (with the right key and an honest proof) is refuted
//     (VerifyComplaint != nil), so only the complainant is blamed;
//   - any other share (dealt + delta, delta != 0) makes the honest complaint succeed (VerifyComplaint == nil).
func VerifC04Complaint() {
	t := vs.Param("t")
	vs.AssumeHashScalars()
	VerifUseTapeRandomness()
	idI := MemberID(1 + vs.Pick("dealer", 3))
	idJ := MemberID(1 + vs.Pick("recipient", 3))
	vs.Assume(idI != idJ)
	dealer := c04NewDealer(t)
	recipient := c04NewDealer(t)

	keyIJ, err := ComputeSecretSym(dealer.otPriv, recipient.otPub)
	vs.Assert("sym-ok", err == nil)
	keyJI, err := ComputeSecretSym(recipient.otPriv, dealer.otPub)
	vs.Assert("sym-ok-2", err == nil)
	vs.Assert("symmetric-key-agrees", bytes.Equal(keyIJ, keyJI))

	share, err := ComputeSecretShare(dealer.coeffs, idJ)
	vs.Assert("share-ok", err == nil)
	corrupt := vs.Bool("dealer_corrupts_share")
	dealt := share
	if corrupt {
		dealt = SumScalars(share, c03Scalar("delta_share"))
	}
	enc, err := Encrypt(dealt, keyIJ, verifNonce16{})
	vs.Assert("encrypt-ok", err == nil)

	got, err := DecryptSecretShare(enc, keyJI)
	vs.Assert("decrypt-ok", err == nil)
	vs.Assert("decrypt-recovers-dealt-share", bytes.Equal(got, dealt))
	shareOK := VerifySecretShare(idJ, got, dealer.commits) == nil
	vs.Assert("share-check-iff-honest", shareOK == !corrupt)

	// the recipient complains (honest proof for the true symmetric key)
	sig, keySym, err := SignComplaint(recipient.otPub, dealer.otPub, recipient.otPriv)
	vs.Assert("sign-complaint-ok", err == nil)
	vs.Assert("complaint-key-is-sym-key", bytes.Equal(keySym, keyJI))
	verr := VerifyComplaint(recipient.otPub, dealer.otPub, keySym, sig, enc, idJ, dealer.commits)
	if corrupt {
		vs.Assert("bad-share-complaint-succeeds", verr == nil)
		vs.Reach("cheater-caught", true)
	} else {
		vs.Assert("complaint-against-good-share-refuted", verr != nil)
		vs.Reach("false-complaint-refuted", true)
	}

	// (a complaint naming another symmetric key must fail its DLEQ proof: that is a random-oracle soundness
	// argument — with keccak uninterpreted the solver may choose the challenge — and is outside this check.)
}

// VerifC04Round1Proofs: completeness of the round-1 / round-3 proofs of possession and their binding to the
// member id: an honest proof verifies for its own member id.
func VerifC04Round1Proofs() {
	vs.AssumeHashScalars()
	VerifUseTapeRandomness()
	mid := MemberID(1 + vs.Pick("member", 3))
	ctx := vs.Bytes("dkg_context", 4)
	priv := c03Scalar("key")
	pub := priv.Point()

	sigA0, err := SignA0(mid, ctx, pub, priv)
	vs.Assert("sign-a0-ok", err == nil)
	vs.Assert("a0-proof-verifies", VerifyA0Signature(mid, ctx, sigA0, pub) == nil)
	sigOT, err := SignOneTime(mid, ctx, pub, priv)
	vs.Assert("sign-onetime-ok", err == nil)
	vs.Assert("onetime-proof-verifies", VerifyOneTimeSignature(mid, ctx, sigOT, pub) == nil)
	sigOwn, err := SignOwnPubKey(mid, ctx, pub, priv)
	vs.Assert("sign-own-ok", err == nil)
	vs.Assert("own-key-proof-verifies", VerifyOwnPubKeySignature(mid, ctx, sigOwn, pub) == nil)
	vs.Reach("proofs-verified", true)
}

func init() { vs.RegisterHarness("VerifC04ForgedComplaintProof", VerifC04ForgedComplaintProof) }

// VerifC04ForgedComplaintProof: a complaint proof must bind the presented symmetric key to the two one-time keys.
// The forgery keeps the first equation true (A1 = kG, z = k + c*x_i with the complainant's real one-time key) and
// presents a wrong symmetric key keySym' = keySym + delta*G (delta != 0) with c computed over it: only the second
// equation z*PubJ = A2 + c*keySym' can reject it. Built from the real values, so a counterexample does not depend on
// the solver's choice of hash outputs. (A complaint verified against a wrong symmetric key decrypts garbage and
// blames an honest dealer.)
func VerifC04ForgedComplaintProof() {
	vs.AssumeHashScalars()
	xi, xj, k := c03Scalar("one_time_priv_i"), c03Scalar("one_time_priv_j"), c03Scalar("proof_nonce")
	pubI, pubJ := xi.Point(), xj.Point()
	keySym, err := ComputeSecretSym(xi, pubJ)
	vs.Assert("key-sym-ok", err == nil)
	delta := c03Scalar("delta_key_sym")
	wrongKey, err := SumPoints(keySym, delta.Point())
	vs.Assume(err == nil && wrongKey.Validate() == nil)

	a1 := k.Point()
	a2, err := ComputeSecretSym(k, pubJ)
	vs.Assert("nonce-sym-ok", err == nil)
	c, err := HashRound3Complain(a1, a2, pubI, pubJ, wrongKey)
	vs.Assume(err == nil)
	sig, err := Sign(xi, c, k, nil)
	vs.Assume(err == nil)
	forged, err := NewComplaintSignatureFromComponents(sig.R(), a2, sig.S())
	vs.Assume(err == nil)

	vs.Assert("proof-for-a-wrong-symmetric-key-rejected", VerifyComplaintSignature(pubI, pubJ, wrongKey, forged) != nil)

	// control: the same construction over the real symmetric key is an honest proof and is accepted
	c2, err := HashRound3Complain(a1, a2, pubI, pubJ, keySym)
	vs.Assume(err == nil)
	sig2, err := Sign(xi, c2, k, nil)
	vs.Assume(err == nil)
	honest, err := NewComplaintSignatureFromComponents(sig2.R(), a2, sig2.S())
	vs.Assume(err == nil)
	vs.Assert("honest-proof-accepted", VerifyComplaintSignature(pubI, pubJ, keySym, honest) == nil)
	vs.Reach("forgery-built", true)
}
