//go:build verif

package tss

import (
	"github.com/decred/dcrd/dcrec/secp256k1/v4"

	vs "github.com/bandprotocol/chain/v3/vsupport"
)

func init() { vs.RegisterHarness("VerifC03Interpolation", VerifC03Interpolation) }

func c03Range(lo, hi int) []MemberID {
	var r []MemberID
	for i := lo; i <= hi; i++ {
		r = append(r, MemberID(i))
	}
	return r
}

// large committees (each a separate case); ids above 20 take the generic Lagrange path, the others the table
var c03BigCommittees = [][]MemberID{
	c03Range(1, 20),  // the full precomputed-table committee
	c03Range(1, 21),  // smallest full committee on the generic path
	c03Range(15, 30), // large ids: products of ids far beyond 2^63
	{1, 3, 5, 7, 9, 11, 13, 15, 17, 19},
	{2, 4, 6, 8, 10, 12, 14, 16, 18, 20},
	{1, 2, 3, 5, 8, 13, 21, 34},
	c03Range(11, 20),
	c03Range(1, 10),
	{1, 20},
	c03Range(20, 40),
}

// VerifC03Interpolation: for a committee C and ANY sharing polynomial f of degree |C|-1 (all coefficients
// symbolic), the real Lagrange coefficients recombine the real shares to the secret:
//   sum_{i in C} lambda_i(C) * f(i) = f(0)  (mod n).
// This is what makes the aggregate of the partial signatures verify under the group key; it fails as soon as one
// coefficient of one member of the committee is wrong.
func VerifC03Interpolation() {
	ids := c03BigCommittees[vs.Case()]
	t := len(ids)
	coeffs := make(Scalars, t)
	for i := range coeffs {
		coeffs[i] = c03Scalar("coefficient")
	}
	var acc secp256k1.ModNScalar
	for _, id := range ids {
		lambda, err := ComputeLagrangeCoefficient(id, ids)
		vs.Assert("lagrange-ok", err == nil)
		share, err := ComputeSecretShare(coeffs, id)
		vs.Assert("share-ok", err == nil)
		var l, s secp256k1.ModNScalar
		l.SetByteSlice(lambda)
		s.SetByteSlice(share)
		acc.Add(l.Mul(&s))
	}
	var secret secp256k1.ModNScalar
	secret.SetByteSlice(coeffs[0])
	vs.Assert("shares-recombine-to-secret", acc.Equals(&secret))
	vs.Reach("recombined", true)
}
