//go:build verif

package tss

import (
	"bytes"

	"github.com/decred/dcrd/dcrec/secp256k1/v4"
	"github.com/ethereum/go-ethereum/crypto"

	sdk "github.com/cosmos/cosmos-sdk/types"

	vs "github.com/bandprotocol/chain/v3/vsupport"
)

func init() {
	vs.RegisterHarness("VerifC03Round", VerifC03Round)
}

// committees explored as separate cases (concrete member ids; ids above 20 leave the precomputed table)
var c03Committees = [][]MemberID{
	// quick tier: cases 0..3 (table path for 2 and 3 members, generic path with an id above 20)
	{1, 2}, {1, 2, 3}, {2, 5, 19}, {3, 21},
	// thorough tier adds
	{1}, {2, 3}, {1, 3}, {7, 20, 40}, {4, 9, 16}, {20, 21}, {1, 2, 3, 4},
}

func c03Scalar(label string) Scalar { return Scalar(vs.ScalarBytes(label)) }

func c03Neg(a Scalar) Scalar {
	x := a.modNScalar()
	x.Negate()
	return NewScalarFromModNScalar(x)
}

func c03NegTwice(a Scalar) Scalar { return c03Neg(SumScalars(a, a)) }

func c03MemberScalar(id MemberID) Scalar {
	b := make([]byte, 32)
	copy(b[24:], sdk.Uint64ToBigEndian(uint64(id)))
	return Scalar(b)
}

// VerifC03Round: one complete signing round of pkg/tss for a committee, with the sharing polynomial, the
// nonces, the message and all hash outputs symbolic.
func VerifC03Round() {
	vs.AssumeHashScalars()
	ids := c03Committees[vs.Case()]
	t := len(ids)

	// sharing polynomial of degree t-1 (threshold t): f(0) is the group secret
	coeffs := make(Scalars, t)
	for i := range coeffs {
		coeffs[i] = c03Scalar("coefficient")
	}
	groupKey := coeffs[0].Point()
	priv := make(Scalars, t)
	pub := make(Points, t)
	for i, id := range ids {
		priv[i] = SolveScalarPolynomial(coeffs, c03MemberScalar(id))
		vs.Assume(priv[i].Validate() == nil) // a zero key share has negligible probability
		pub[i] = priv[i].Point()
	}
	msg := vs.Bytes("message", 4)

	// nonces
	privD, privE := make(Scalars, t), make(Scalars, t)
	pubD, pubE := make(Points, t), make(Points, t)
	for i := range ids {
		privD[i], privE[i] = c03Scalar("d"), c03Scalar("e")
		pubD[i], pubE[i] = privD[i].Point(), privE[i].Point()
	}
	commitment, err := ComputeCommitment(ids, pubD, pubE)
	vs.Assert("commitment-ok", err == nil)

	ownPubNonce := make(Points, t)
	ownPrivNonce := make(Scalars, t)
	for i, id := range ids {
		rho, err := ComputeOwnBindingFactor(id, msg, commitment)
		vs.Assume(err == nil) // hash output is a valid scalar (fails with probability ~2^-128)
		ownPubNonce[i], err = ComputeOwnPubNonce(pubD[i], pubE[i], rho)
		vs.Assert("pub-nonce-ok", err == nil)
		ownPrivNonce[i], err = ComputeOwnPrivNonce(privD[i], privE[i], rho)
		vs.Assert("priv-nonce-ok", err == nil)
		vs.Assume(ownPrivNonce[i].Validate() == nil) // d + rho*e = 0 has negligible probability
		// the public nonce is the image of the private nonce
		vs.Assert("nonce-consistent", bytes.Equal(ownPrivNonce[i].Point(), ownPubNonce[i]))
	}
	vs.Assume(SumScalars(ownPrivNonce...).Validate() == nil) // the nonces do not cancel (negligible probability)
	groupPubNonce, err := ComputeGroupPublicNonce(ownPubNonce...)
	vs.Assert("group-nonce-ok", err == nil)

	sigs := make(Signatures, t)
	for i, id := range ids {
		lambda, err := ComputeLagrangeCoefficient(id, ids)
		vs.Assert("lagrange-ok", err == nil)
		sigs[i], err = SignSigning(groupPubNonce, groupKey, msg, lambda, ownPrivNonce[i], priv[i])
		vs.Assume(err == nil) // challenge hash is a valid scalar
		// completeness: the honest share verifies
		verr := VerifySigningSignature(groupPubNonce, groupKey, msg, lambda, sigs[i], pub[i])
		vs.Assert("honest-share-verifies", verr == nil)
		vs.Assert("share-R-is-own-nonce", bytes.Equal(sigs[i].R(), ownPubNonce[i]))

		// soundness of the share check: with R fixed to the assigned nonce, every scalar other than the
		// honest one (honest + delta, delta != 0 mod n) is rejected
		if i == 0 {
			// delta is either an arbitrary non-zero scalar or one of the structured offsets that map the honest
			// response onto a reflected one (-2k: s' = -k + c*lambda*x answers the negated nonce point;
			// -2s: s' = -s; -2(s-k): s' = k - c*lambda*x). The structured ones are computed from the real values, so a
			// counterexample does not depend on the solver's choice of hash outputs and replays natively.
			delta := c03Scalar("delta_s")
			switch vs.Pick("delta_kind", 4) { // 3: the arbitrary offset
			case 0:
				delta = c03NegTwice(ownPrivNonce[i])
			case 1:
				delta = c03NegTwice(sigs[i].S())
			case 2:
				delta = c03NegTwice(SumScalars(sigs[i].S(), c03Neg(ownPrivNonce[i])))
			}
			vs.Assume(delta.Validate() == nil) // non-zero (the structured offsets vanish with negligible probability)
			wrongS := SumScalars(sigs[i].S(), delta)
			fsig, ferr := NewSignatureFromComponents(ownPubNonce[i], wrongS)
			vs.Assert("forged-sig-builds", ferr == nil)
			vs.Assert("wrong-s-rejected", VerifySigningSignature(groupPubNonce, groupKey, msg, lambda, fsig, pub[i]) != nil)
			// a correct s presented with any other nonce point R' = R + delta*G is rejected
			wrongR, rerr := SumPoints(ownPubNonce[i], delta.Point())
			vs.Assert("wrong-r-builds", rerr == nil)
			if wrongR.Validate() == nil {
				rsig, rerr2 := NewSignatureFromComponents(wrongR, sigs[i].S())
				vs.Assert("wrong-r-sig-builds", rerr2 == nil)
				vs.Assert("wrong-r-rejected", VerifySigningSignature(groupPubNonce, groupKey, msg, lambda, rsig, pub[i]) != nil)
			}
			// the share does not verify under any other public key Y' = Y + delta*G
			wrongKey, kerr := SumPoints(pub[i], delta.Point())
			vs.Assert("wrong-key-builds", kerr == nil)
			if wrongKey.Validate() == nil {
				vs.Assert("share-bound-to-signer-key", VerifySigningSignature(groupPubNonce, groupKey, msg, lambda, sigs[i], wrongKey) != nil)
			}
			vs.Reach("corruptions-rejected", true)
		}
	}

	// the challenge follows the fixed BAND-TSS format that destination contracts recompute:
	// keccak("BAND-TSS-secp256k1-v0" ‖ 0x00 ‖ "challenge" ‖ 0x00 ‖ address(R)[20] ‖ (parity(Y)+25) ‖ Y.x[32] ‖ keccak(msg))
	// (built here independently of pkg/tss helpers)
	gotChallenge, cerr := HashChallenge(groupPubNonce, groupKey, msg)
	vs.Assume(cerr == nil)
	rKey, perr := secp256k1.ParsePubKey(groupPubNonce)
	vs.Assert("nonce-parses", perr == nil)
	yKey, perr2 := secp256k1.ParsePubKey(groupKey)
	vs.Assert("key-parses", perr2 == nil)
	be32 := func(v interface{ FillBytes([]byte) []byte }) []byte { return v.FillBytes(make([]byte, 32)) }
	rAddr := crypto.Keccak256(be32(rKey.X()), be32(rKey.Y()))[12:]
	var doc []byte
	doc = append(doc, []byte("BAND-TSS-secp256k1-v0")...)
	doc = append(doc, 0)
	doc = append(doc, []byte("challenge")...)
	doc = append(doc, 0)
	doc = append(doc, rAddr...)
	doc = append(doc, groupKey[0]+25)
	doc = append(doc, be32(yKey.X())...)
	doc = append(doc, crypto.Keccak256(msg)...)
	vs.Assert("challenge-format", bytes.Equal(gotChallenge, crypto.Keccak256(doc)))

	// aggregation: the combined signature verifies under the group key for exactly this message
	sig, err := CombineSignatures(sigs...)
	vs.Assert("combine-ok", err == nil)
	vs.Assert("aggregate-R-is-group-nonce", bytes.Equal(sig.R(), groupPubNonce))
	gerr := VerifyGroupSigningSignature(groupKey, msg, sig)
	vs.Assert("aggregate-verifies-under-group-key", gerr == nil)
	vs.Reach("round-complete", true)
}
