//go:build verif

package bandrng

import (
	"testing"

	"github.com/bandprotocol/chain/v3/vsupport"
)

func TestVerifReplay(t *testing.T) { vsupport.Replay(t) }
