//go:build verif && !symgo

package bandrng

// verifNextHook is consulted by NextUint64 in the replay build (see rng.npatch).
var verifNextHook func() uint64

func verifRng(draws []uint64) *Rng {
	i := 0
	verifNextHook = func() uint64 {
		if i >= len(draws) {
			panic("verif: DRBG stream exhausted")
		}
		v := draws[i]
		i++
		return v
	}
	return &Rng{}
}
