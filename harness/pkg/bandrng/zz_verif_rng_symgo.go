//go:build verif && symgo

package bandrng

import vs "github.com/bandprotocol/chain/v3/vsupport"

var verifNextHook func() uint64

// verifRng returns a generator whose DRBG output is the given stream (engine model of drbg.Read);
// the real NextUint64 runs on top of it.
func verifRng(draws []uint64) *Rng {
	rng, err := NewRng(make([]byte, 32), []byte("nonce"), []byte("p"))
	if err != nil {
		panic(err)
	}
	vs.DrbgStream(draws)
	return rng
}
