//go:build verif && symgo

package bandrng

import vs "github.com/bandprotocol/chain/v3/vsupport"

// VerifSetStream: the DRBG output stream of every generator created afterwards is the given list of draws
// (engine model of drbg.Read).
func VerifSetStream(draws []uint64) { vs.DrbgStream(draws) }
