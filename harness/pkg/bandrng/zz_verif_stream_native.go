//go:build verif && !symgo

package bandrng

// VerifSetStream makes every Rng's NextUint64 return the given draws in order (replay build; see rng.npatch).
// Used by harnesses of other packages whose code under test creates its own Rng (x/tss member selection).
func VerifSetStream(draws []uint64) {
	i := 0
	verifNextHook = func() uint64 {
		if i >= len(draws) {
			panic("verif: DRBG stream exhausted")
		}
		v := draws[i]
		i++
		return v
	}
}
