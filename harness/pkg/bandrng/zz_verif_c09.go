//go:build verif

package bandrng

import (
	vs "github.com/bandprotocol/chain/v3/vsupport"
)

func init() {
	vs.RegisterHarness("VerifC09ChooseOne", VerifC09ChooseOne)
	vs.RegisterHarness("VerifC09ChooseSomeMaxWeight", VerifC09ChooseSomeMaxWeight)
}

// weights: n positive weights whose sum fits uint64 (the documented precondition of ChooseOne).
func c09Weights(n int) []uint64 {
	w := make([]uint64, n)
	sum := uint64(0)
	for i := range w {
		w[i] = vs.U64("weight")
		vs.Assume(w[i] >= 1)
		vs.Assume(sum+w[i] >= sum) // no wrap
		sum += w[i]
	}
	return w
}

// VerifC09ChooseOne: the index is in range and is the cumulative-weight bucket of draw % sum.
func VerifC09ChooseOne() {
	n := vs.Param("n")
	w := c09Weights(n)
	draw := vs.U64("draw")
	in := make([]uint64, n)
	copy(in, w)
	idx := ChooseOne(verifRng([]uint64{draw}), in)
	vs.Assert("in-range", idx >= 0 && idx < n)
	sum := uint64(0)
	for _, x := range w {
		sum += x
	}
	lucky := draw % sum
	lo := uint64(0)
	for i := 0; i < idx; i++ {
		lo += w[i]
	}
	vs.Assert("bucket-lower", lo <= lucky)
	vs.Assert("bucket-upper", lo+w[idx] > lucky)
	for i := range w {
		vs.Assert("weights-not-modified", in[i] == w[i])
	}
	vs.Reach("chosen", true)
}

// reference sampling without replacement, written on private copies (no in-place slice surgery)
func refChooseSome(draws []uint64, pos *int, w []uint64, cnt int) []int {
	type item struct {
		idx int
		w   uint64
	}
	pool := make([]item, len(w))
	for i := range w {
		pool[i] = item{i, w[i]}
	}
	var out []int
	for r := 0; r < cnt; r++ {
		sum := uint64(0)
		for _, it := range pool {
			sum += it.w
		}
		lucky := draws[*pos] % sum
		*pos++
		acc := uint64(0)
		pick := -1
		for k, it := range pool {
			acc += it.w
			if acc > lucky {
				pick = k
				break
			}
		}
		out = append(out, pool[pick].idx)
		next := make([]item, 0, len(pool)-1)
		for k, it := range pool {
			if k != pick {
				next = append(next, it)
			}
		}
		pool = next
	}
	return out
}

// VerifC09ChooseSomeMaxWeight: exactly cnt distinct in-range indexes; equal to the reference
// (best of `tries` samplings by strictly greater total weight, draws consumed in order).
func VerifC09ChooseSomeMaxWeight() {
	n := vs.Param("n")
	tries := vs.Param("tries")
	w := c09Weights(n)
	cnt := vs.Pick("cnt", n+1)
	draws := make([]uint64, cnt*tries)
	for i := range draws {
		draws[i] = vs.U64("draw")
	}
	in := make([]uint64, n)
	copy(in, w)
	got := ChooseSomeMaxWeight(verifRng(draws), in, cnt, tries)

	for i := range w {
		vs.Assert("weights-not-modified", in[i] == w[i])
	}
	if cnt == 0 {
		vs.Assert("empty-for-zero", len(got) == 0)
		vs.Reach("cnt-zero", true)
		return
	}
	vs.Assert("size", len(got) == cnt)
	for i := range got {
		vs.Assert("in-range", got[i] >= 0 && got[i] < n)
		for j := 0; j < i; j++ {
			vs.Assert("distinct", got[i] != got[j])
		}
	}
	// reference
	pos := 0
	var best []int
	bestSum := uint64(0)
	for t := 0; t < tries; t++ {
		cand := refChooseSome(draws, &pos, w, cnt)
		s := uint64(0)
		for _, i := range cand {
			s += w[i]
		}
		if s > bestSum {
			bestSum, best = s, cand
		}
	}
	vs.Assert("ref-size", len(best) == len(got))
	for i := range got {
		if i < len(best) {
			vs.Assert("equals-reference", got[i] == best[i])
		}
	}
	vs.Reach("sampled", true)
}
