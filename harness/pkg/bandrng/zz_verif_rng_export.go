//go:build verif

package bandrng

import vs "github.com/bandprotocol/chain/v3/vsupport"

// VerifSetStream lets a harness of another package (x/tss/keeper: GetRandomMembers) choose the DRBG
// output consumed by every generator created afterwards with the real NewRng:
//   - symbolic run: the engine's drbg.Read model hands out the given values (vs.DrbgStream);
//   - native replay: NextUint64 is patched (rng.npatch) to consult verifNextHook.
//
// The real NewRng / NextUint64 / callers run unchanged on top of it.
func VerifSetStream(draws []uint64) {
	vs.DrbgStream(draws)
	i := 0
	verifNextHook = func() uint64 {
		if i >= len(draws) {
			panic("verif: DRBG stream exhausted")
		}
		v := draws[i]
		i++
		return v
	}
}
