//go:build verif

package tickmath

import (
	"math/big"

	vs "github.com/bandprotocol/chain/v3/vsupport"
)

func init() {
	vs.RegisterHarness("VerifC11PriceToTickBands", VerifC11PriceToTickBands)
	vs.RegisterHarness("VerifC11PriceToTickSamples", VerifC11PriceToTickSamples)
	vs.RegisterHarness("VerifC11PriceToTickPow2", VerifC11PriceToTickPow2)
}

// c11BoundaryTicks: ticks around which a band of prices is placed (extremes of the uint64 price range, the unit
// price 10^9 (tick 0), and a spread in between).
var c11BoundaryTicks = []int64{-207243, -200000, -150000, -100000, -50000, -10000, -1, 0, 1, 2, 10000, 50000, 100000,
	150000, 200000, 230000, 236000}

// VerifC11PriceToTickBands: exactness of the real PriceToTick on bands of 2^band_bits consecutive prices, every
// price of a band decided at once by the solver:
//
//	kind 0: the low end of every binade        price = 2^k + x           (k = 0..63)
//	kind 1: the high end of every binade       price = 2^(k+1) - 1 - x   (k = 0..63)
//	kind 2: around the price of chosen ticks   price = TickToPrice(t) - 2^(band_bits-1) + x
//
// with 0 <= x < 2^band_bits (clipped to the binade / to 1..2^64-1). For every such price:
//
//	PriceToTick succeeds; with t = result - Offset:  price(t) <= price < price(t+1)   in X96 fixed point, i.e. the
//	result is the largest tick whose price does not exceed the input (prices per the real tickToPriceX96).
func VerifC11PriceToTickBands() {
	w := uint(vs.Param("band_bits"))
	x := vs.U64("offset_in_band")
	vs.Assume(x < 1<<w)
	var price uint64
	switch vs.Pick("band_kind", 3) {
	case 0:
		k := uint(vs.Pick("binade", 64))
		if k < w {
			vs.Assume(x < 1<<k)
		}
		price = 1<<k + x
	case 1:
		k := uint(vs.Pick("binade", 64))
		if k < w {
			vs.Assume(x < 1<<k)
		}
		price = (1<<k - 1) + 1<<k - x // 2^(k+1) - 1 - x without overflowing for k = 63
	default:
		t := c11BoundaryTicks[vs.Pick("boundary_tick", len(c11BoundaryTicks))]
		p, err := TickToPrice(t)
		vs.Assert("boundary-tick-has-a-price", err == nil)
		half := uint64(1) << (w - 1)
		vs.Assume(p+x >= half+1)   // stays >= 1
		vs.Assume(p <= ^uint64(0)-x) // no wrap
		price = p + x - half
	}

	got, err := PriceToTick(price)
	vs.Assert("every-positive-price-has-a-tick", err == nil)
	if err != nil {
		return
	}
	t := int64(got) - Offset
	vs.Assert("tick-in-range", t >= MinTick && t <= MaxTick)
	lo, e1 := tickToPriceX96(t)
	vs.Assert("tick-price-defined", e1 == nil)
	if e1 != nil {
		return
	}
	target := new(big.Int).Mul(new(big.Int).SetUint64(price), q96)
	vs.Assert("tick-price-does-not-exceed-price", lo.Cmp(target) <= 0)
	if t < MaxTick {
		hi, e2 := tickToPriceX96(t + 1)
		vs.Assert("next-tick-price-defined", e2 == nil)
		if e2 == nil {
			vs.Assert("tick-is-the-largest-such-tick", hi.Cmp(target) > 0)
		}
	}
	vs.Reach("band-checked", true)
	vs.Reach("price-above-unit", price > 1_000_000_000)
	vs.Reach("price-below-unit", price < 1_000_000_000)
}

// VerifC11TickIsExact reports price(tick) <= price < price(tick+1) in X96 fixed point with the real tickToPriceX96
// (tick is the offset-free tick). Used on concrete prices by the encoder harnesses of x/feeds and x/tunnel.
func VerifC11TickIsExact(price uint64, offsetTick uint64) bool {
	t := int64(offsetTick) - Offset
	lo, err := tickToPriceX96(t)
	if err != nil {
		return false
	}
	target := new(big.Int).Mul(new(big.Int).SetUint64(price), q96)
	if lo.Cmp(target) > 0 {
		return false
	}
	if t == MaxTick {
		return true
	}
	hi, err := tickToPriceX96(t + 1)
	return err == nil && hi.Cmp(target) > 0
}

// VerifC11PriceToTickSamples: CONCRETE sweep (no symbolic input; the engine just evaluates the real code): for every
// boundary tick t of c11BoundaryTicks and the prices TickToPrice(t)-1, TickToPrice(t), TickToPrice(t)+1 (the places
// where an off-by-one in the final tick selection shows), PriceToTick succeeds and returns the largest tick whose
// X96 price does not exceed the price. This is sampling, not a proof (see "outside" in checks/C11.json).
// VerifC11PriceToTickPow2: the same exactness check at every power-of-two boundary of the price (2^k-1, 2^k,
// 2^k+1 for k = 0..63), where the constants of the most-significant-bit search decide; also monotone across
// the boundary. Concrete evaluation of the real code through the engine (sampling, not a proof).
func VerifC11PriceToTickPow2() {
	for k := uint(0); k < 64; k++ {
		base := uint64(1) << k
		var prev uint64
		havePrev := false
		for d := uint64(0); d < 3; d++ {
			price := base + d - 1
			if price == 0 || (k == 63 && d == 2) {
				continue
			}
			got, err := PriceToTick(price)
			vs.Assert("pow2-sample-has-a-tick", err == nil)
			vs.Assert("pow2-tick-is-largest-not-exceeding-price", err != nil || VerifC11TickIsExact(price, got))
			if havePrev {
				vs.Assert("pow2-monotone", got >= prev)
			}
			prev, havePrev = got, true
		}
	}
	vs.Reach("pow2-checked", true)
}

func VerifC11PriceToTickSamples() {
	_, err0 := PriceToTick(0)
	vs.Assert("zero-price-refused", err0 != nil)
	for _, t := range c11BoundaryTicks {
		p, err := TickToPrice(t)
		vs.Assert("boundary-tick-has-a-price", err == nil)
		for d := uint64(0); d < 3; d++ {
			price := p + d - 1
			if price == 0 || (d == 2 && p == ^uint64(0)) {
				continue
			}
			got, err := PriceToTick(price)
			vs.Assert("sample-has-a-tick", err == nil)
			vs.Assert("sample-tick-is-largest-not-exceeding-price", err != nil || VerifC11TickIsExact(price, got))
		}
	}
	vs.Reach("samples-checked", true)
}
