//go:build verif

package yoda

// Environment of the C19 harnesses: arbitrary-result fakes of everything the request-handling paths of the
// yoda daemon talk to (RPC node, keyring, data-source executor). All fakes are table driven: their answers are
// fixed by the harness BEFORE the step and looked up by the content of the call (never by call order), so the
// same harness runs under the engine's sequentialised goroutine model and, natively, under the Go scheduler.

import (
	"bytes"
	"context"
	"encoding/hex"
	"errors"
	"strconv"
	"sync"

	abci "github.com/cometbft/cometbft/abci/types"
	cmtbytes "github.com/cometbft/cometbft/libs/bytes"
	rpcclient "github.com/cometbft/cometbft/rpc/client"
	ctypes "github.com/cometbft/cometbft/rpc/core/types"

	"cosmossdk.io/log"

	"github.com/cosmos/cosmos-sdk/codec"
	"github.com/cosmos/cosmos-sdk/crypto/keyring"
	cryptotypes "github.com/cosmos/cosmos-sdk/crypto/types"
	"github.com/cosmos/cosmos-sdk/types/tx/signing"

	"github.com/bandprotocol/chain/v3/pkg/filecache"
	vs "github.com/bandprotocol/chain/v3/vsupport"
	"github.com/bandprotocol/chain/v3/vsupport/venv"
	"github.com/bandprotocol/chain/v3/x/oracle/types"
	"github.com/bandprotocol/chain/v3/yoda/executor"
)

const c19ChainID = "bandchain-verif"

var c19KeyNames = []string{"reporter0", "reporter1", "reporter2"}

var c19PubKeyBytes = []byte{0x02, 0x11, 0x22, 0x33}

// c19DS is one data source known to the (fake) chain node.
type c19DS struct {
	id        types.DataSourceID
	exe       []byte // concrete content, length chosen by the harness
	hash      string // sha256 hex of exe (file name on the chain and in the file cache)
	cached    bool   // in the daemon's file cache before the step
	hashFails int    // leading failures of the store query for the data source (>= maxTry: fails permanently)
	dataFails int    // leading failures of the Query/Data call for the executable (>= maxTry: fails permanently)
	hashCalls int
	dataCalls int
}

// c19Raw is one raw request together with the planned behaviour of signer and executor for it.
type c19Raw struct {
	eid      types.ExternalID
	ds       *c19DS
	calldata []byte

	signFail bool
	execErr  bool
	code     uint32
	out      []byte
	version  string

	signCalls int
	execCalls int
	signUID   string // key name of the last Sign call
	argsOK    bool // every observed Sign/Exec call carried exactly the expected arguments
}

type c19Req struct {
	id    types.RequestID
	req   types.Request
	found bool // false: the node answers with an empty value (no such request)
	fails int  // leading failures of the store query for the request (>= maxTry: fails permanently)
	calls int
	raws  []*c19Raw
}

type c19Env struct {
	mu         sync.Mutex
	cdc        codec.BinaryCodec
	maxTry     int
	validator  string
	ds         []*c19DS
	reqs       []*c19Req
	unexpected int // calls of a fake that match no planned entry
}

func c19NewEnv(maxTry int) *c19Env {
	return &c19Env{cdc: venv.Codec(), maxTry: maxTry, validator: venv.ValAddr(1).String()}
}

// addDS registers a data source whose executable consists of n (+1 for every data source registered before, so
// that executables, hence file names, are distinct) copies of a marker byte.
func (e *c19Env) addDS(id types.DataSourceID, n int) *c19DS {
	exe := make([]byte, n+len(e.ds))
	for i := range exe {
		exe[i] = byte(0x40 + int(id))
	}
	d := &c19DS{id: id, exe: exe, hash: filecache.GetFilename(exe)}
	e.ds = append(e.ds, d)
	return d
}

func (e *c19Env) findRaw(rid types.RequestID, eid types.ExternalID) *c19Raw {
	for _, r := range e.reqs {
		if r.id != rid {
			continue
		}
		for _, raw := range r.raws {
			if raw.eid == eid {
				return raw
			}
		}
	}
	return nil
}

// ---- RPC node

type c19RPC struct {
	rpcclient.Client // every method other than ABCIQuery is outside the claim (nil: would crash the replay)
	e                *c19Env
}

var errC19RPC = errors.New("verif: rpc failure")

func c19Answer(bz []byte) (*ctypes.ResultABCIQuery, error) {
	return &ctypes.ResultABCIQuery{Response: abci.ResponseQuery{Value: bz}}, nil
}

func (r *c19RPC) ABCIQuery(_ context.Context, path string, data cmtbytes.HexBytes) (*ctypes.ResultABCIQuery, error) {
	e := r.e
	e.mu.Lock()
	defer e.mu.Unlock()
	switch path {
	case "/store/" + types.StoreKey + "/key":
		for _, q := range e.reqs {
			if bytes.Equal(data, types.RequestStoreKey(q.id)) {
				q.calls++
				if q.calls <= q.fails || q.fails >= e.maxTry {
					return nil, errC19RPC
				}
				if !q.found {
					return c19Answer(nil)
				}
				return c19Answer(e.cdc.MustMarshal(&q.req))
			}
		}
		for _, d := range e.ds {
			if bytes.Equal(data, types.DataSourceStoreKey(d.id)) {
				d.hashCalls++
				if d.hashCalls <= d.hashFails || d.hashFails >= e.maxTry {
					return nil, errC19RPC
				}
				src := types.DataSource{Owner: venv.Addr(7).String(), Name: "ds", Filename: d.hash}
				return c19Answer(e.cdc.MustMarshal(&src))
			}
		}
	case "/band.oracle.v1.Query/Data":
		var q types.QueryDataRequest
		if err := e.cdc.Unmarshal(data, &q); err == nil {
			for _, d := range e.ds {
				if d.hash == q.DataHash {
					d.dataCalls++
					if d.dataCalls <= d.dataFails || d.dataFails >= e.maxTry {
						return nil, errC19RPC
					}
					return c19Answer(e.cdc.MustMarshal(&types.QueryDataResponse{Data: d.exe}))
				}
			}
		}
	}
	e.unexpected++
	return nil, errC19RPC
}

// ---- keyring

type c19PubKey struct{ cryptotypes.PubKey }

func (c19PubKey) Bytes() []byte { return c19PubKeyBytes }

type c19Keyring struct {
	keyring.Keyring // only Sign is used by the request-handling paths
	e               *c19Env
	keyName         string // the key the running request must sign with ("" = any)
}

var errC19Sign = errors.New("verif: keyring failure")

func c19Sig(eid types.ExternalID) []byte { return []byte{0x51, byte(eid)} }

func (k *c19Keyring) Sign(uid string, msg []byte, mode signing.SignMode) ([]byte, cryptotypes.PubKey, error) {
	e := k.e
	e.mu.Lock()
	defer e.mu.Unlock()
	v := c19VerificationOf(msg)
	raw := e.findRaw(v.RequestID, v.ExternalID)
	if raw == nil {
		e.unexpected++
		return nil, nil, errC19Sign
	}
	raw.signCalls++
	raw.signUID = uid
	ok := v.ChainID == c19ChainID && v.Validator == e.validator && v.DataSourceID == raw.ds.id &&
		mode == signing.SignMode_SIGN_MODE_DIRECT && (k.keyName == "" || uid == k.keyName)
	raw.argsOK = vs.And(raw.argsOK, ok)
	if raw.signFail {
		return nil, nil, errC19Sign
	}
	return c19Sig(raw.eid), c19PubKey{}, nil
}

// ---- executor

type c19Exec struct{ e *c19Env }

var errC19Exec = errors.New("verif: executor failure")

func c19EnvStr(env map[string]interface{}, key string) string {
	s, _ := env[key].(string)
	return s
}

func (x *c19Exec) Exec(exe []byte, arg string, env interface{}) (executor.ExecResult, error) {
	e := x.e
	e.mu.Lock()
	defer e.mu.Unlock()
	m, _ := env.(map[string]interface{})
	rid, err1 := strconv.Atoi(c19EnvStr(m, "BAND_REQUEST_ID"))
	eid, err2 := strconv.Atoi(c19EnvStr(m, "BAND_EXTERNAL_ID"))
	var raw *c19Raw
	if err1 == nil && err2 == nil {
		raw = e.findRaw(types.RequestID(rid), types.ExternalID(eid))
	}
	if raw == nil {
		e.unexpected++
		return executor.ExecResult{}, errC19Exec
	}
	raw.execCalls++
	sig, _ := m["BAND_SIGNATURE"].([]byte)
	ok := bytes.Equal(exe, raw.ds.exe) &&
		c19EnvStr(m, "BAND_CHAIN_ID") == c19ChainID &&
		c19EnvStr(m, "BAND_VALIDATOR") == e.validator &&
		c19EnvStr(m, "BAND_DATA_SOURCE_ID") == strconv.Itoa(int(raw.ds.id)) &&
		c19EnvStr(m, "BAND_REPORTER") == hex.EncodeToString(c19PubKeyBytes) &&
		bytes.Equal(sig, c19Sig(raw.eid)) && len(m) == 7
	argOK := arg == string(raw.calldata) // symbolic content: compared without branching
	raw.argsOK = vs.And(raw.argsOK, vs.And(ok, argOK))
	if raw.execErr {
		return executor.ExecResult{}, errC19Exec
	}
	return executor.ExecResult{Output: raw.out, Code: raw.code, Version: raw.version}, nil
}

// ---- daemon context

func c19Logger() *Logger { return &Logger{logger: log.NewNopLogger()} }

// c19Context builds the daemon context the way runCmd does, with the fakes injected. rr is the value of the
// key round-robin counter before the step.
func c19Context(e *c19Env, nKeys int, rr int64) *Context {
	keys := make([]*keyring.Record, nKeys)
	for i := range keys {
		keys[i] = &keyring.Record{Name: c19KeyNames[i]}
	}
	cfg.ChainID = c19ChainID
	kb = &c19Keyring{e: e}
	return &Context{
		bandApp:            c19App(),
		client:             &c19RPC{e: e},
		validator:          venv.ValAddr(1),
		keys:               keys,
		executor:           &c19Exec{e: e},
		fileCache:          filecache.New(venv.TempDir()),
		maxTry:             uint64(e.maxTry),
		rpcPollInterval:    0,
		maxReport:          10,
		pendingMsgs:        make(chan ReportMsgWithKey, 8),
		freeKeys:           make(chan int64, nKeys),
		keyRoundRobinIndex: rr,
		pendingRequests:    make(map[types.RequestID]bool),
		metricsEnabled:     true,
	}
}
