//go:build verif

package yoda

import (
	"bytes"

	vs "github.com/bandprotocol/chain/v3/vsupport"
	"github.com/bandprotocol/chain/v3/x/oracle/types"
)

func init() {
	vs.RegisterHarness("VerifC19GetExecutable", VerifC19GetExecutable)
	vs.RegisterHarness("VerifC19RawRequest", VerifC19RawRequest)
}

const c19KnownShortExe = "C19-short-executable-log-slice"

// c19ShortExeCrash: GetExecutable slices resValue[:32] for a debug line. An executable that arrives over RPC
// is the Data field of a freshly unmarshalled QueryDataResponse, whose capacity is the allocation size class
// of its length: 8, 16 or 24 for 1..24 bytes (0 for an empty answer). The slice expression then panics.
func c19ShortExeCrash(viaRPC bool, n int) bool { return viaRPC && n <= 24 }

// VerifC19GetExecutable: one data source, cached or fetched over RPC with an arbitrary number of failing tries.
func VerifC19GetExecutable() {
	maxTry := vs.Param("max_try")
	e := c19NewEnv(maxTry)
	n := vs.Pick("exe_len", vs.Param("max_exe_len")+1)
	d := e.addDS(1, n)
	cached := vs.Bool("cached")
	d.dataFails = vs.Pick("data_query_fails", maxTry+1)
	c := c19Context(e, 1, -1)
	if cached {
		c.fileCache.AddFile(d.exe)
	}
	rpcOK := d.dataFails < maxTry
	crash := c19ShortExeCrash(!cached && rpcOK, n)
	if crash {
		vs.KnownPanic(c19KnownShortExe)
	}

	res, err := GetExecutable(c, c19Logger(), d.hash)

	if cached || rpcOK {
		vs.Assert("loaded-executable-is-the-data-source", err == nil && bytes.Equal(res, d.exe))
		got, cerr := c.fileCache.GetFile(d.hash)
		vs.Assert("loaded-executable-is-cached", cerr == nil && bytes.Equal(got, d.exe))
	} else {
		vs.Assert("rpc-failure-is-reported", err != nil && res == nil)
	}
	wantCalls := 0
	if !cached {
		wantCalls = d.dataFails + 1
		if !rpcOK {
			wantCalls = maxTry
		}
	}
	vs.Assert("rpc-tried-at-most-max-try-until-first-success", d.dataCalls == wantCalls && e.unexpected == 0)
	vs.Assert("error-count-metric", c.errorCount == vs.IteI64(cached || rpcOK, 0, 1))
	vs.Reach("from-cache", cached)
	vs.Reach("from-rpc", !cached && rpcOK)
	vs.Reach("rpc-failed", !cached && !rpcOK)
}

var c19Versions = []string{"exec-v1", "exec-v2"}

// c19PickLen: executable length from {min, min+step, min+2*step, ...} (exe_len_count values).
func c19PickLen() int {
	return vs.Param("exe_len_min") + vs.Pick("exe_len", vs.Param("exe_len_count"))*vs.Param("exe_len_step")
}

// c19PlanRaw draws the behaviour of signer and executor for one raw request. Only the version is chosen by
// forking (alt); the failure flags, exit code, calldata and output stay symbolic.
func c19PlanRaw(eid types.ExternalID, d *c19DS, outLen int, alt bool) *c19Raw {
	raw := &c19Raw{eid: eid, ds: d, argsOK: true}
	raw.calldata = vs.Bytes("raw_calldata", 2)
	raw.signFail = vs.Bool("sign_fails")
	raw.execErr = vs.Bool("exec_fails")
	raw.code = vs.U32("exit_code")
	raw.out = vs.Bytes("output", outLen)
	raw.version = c19Versions[0]
	if alt {
		raw.version = c19Versions[vs.Pick("exec_version", len(c19Versions))]
	}
	return raw
}

// good: the raw request is executed successfully (branch-free).
func (raw *c19Raw) good(loaded bool) bool { return vs.And(loaded, vs.And(!raw.signFail, !raw.execErr)) }

// c19ReportOK: the raw report handleRawRequest must produce for raw, given whether its executable could be
// loaded: the executor's exit code and output, or 255 (with the load-failure text when loading failed).
func c19ReportOK(raw *c19Raw, loaded bool, rep types.RawReport) bool {
	if rep.ExternalID != raw.eid {
		return false
	}
	if !loaded {
		return vs.And(rep.ExitCode == 255, string(rep.Data) == "FAIL_TO_LOAD_DATA_SOURCE")
	}
	failed := vs.Or(raw.signFail, raw.execErr)
	okFail := vs.And(rep.ExitCode == 255, len(rep.Data) == 0)
	okRun := vs.And(rep.ExitCode == raw.code, bytes.Equal(rep.Data, raw.out))
	return vs.Or(vs.And(failed, okFail), vs.And(!failed, okRun))
}

// c19CallsOK: signed once iff loaded, executed once iff loaded and signed (branch-free).
func c19CallsOK(raw *c19Raw, reached bool) bool {
	if !reached {
		return raw.signCalls == 0 && raw.execCalls == 0
	}
	return vs.And(raw.signCalls == 1, vs.Or(vs.And(raw.signFail, raw.execCalls == 0), vs.And(!raw.signFail, raw.execCalls == 1)))
}

// VerifC19RawRequest: one raw request through handleRawRequest with every outcome of load / sign / execute.
func VerifC19RawRequest() {
	maxTry := vs.Param("max_try")
	e := c19NewEnv(maxTry)
	n := c19PickLen()
	d := e.addDS(types.DataSourceID(1+vs.Pick("data_source", 2)), n)
	cached := vs.Bool("cached")
	d.dataFails = vs.Pick("data_query_fails", maxTry+1)
	rid := types.RequestID(7)
	raw := c19PlanRaw(types.ExternalID(1+vs.Pick("external_id", 2)), d, vs.Pick("output_len", 3), true)
	e.reqs = []*c19Req{{id: rid, found: true, raws: []*c19Raw{raw}}}
	c := c19Context(e, 1, -1)
	kb.(*c19Keyring).keyName = c19KeyNames[0]
	if cached {
		c.fileCache.AddFile(d.exe)
	}
	rpcOK := d.dataFails < maxTry
	loaded := cached || rpcOK
	if c19ShortExeCrash(!cached && rpcOK, n) {
		vs.KnownPanic(c19KnownShortExe)
	}
	ch := make(chan processingResult, 1)

	handleRawRequest(c, c19Logger(), rawRequest{
		dataSourceID: d.id, dataSourceHash: d.hash, externalID: raw.eid, calldata: string(raw.calldata),
	}, c.keys[0], rid, ch)

	vs.Assert("exactly-one-result-per-raw-request", len(ch) == 1)
	res := <-ch
	vs.Assert("raw-report-is-executor-result-or-255", c19ReportOK(raw, loaded, res.rawReport))
	good := raw.good(loaded)
	vs.Assert("failure-carries-error-and-no-version", vs.Or(good, res.err != nil && res.version == ""))
	vs.Assert("success-carries-version", vs.Or(!good, res.err == nil && res.version == raw.version))
	vs.Assert("signed-and-executed-once-with-the-request-data", vs.And(c19CallsOK(raw, loaded), e.unexpected == 0))
	vs.Assert("verification-message-and-executor-arguments", raw.argsOK)
	vs.Assert("handling-gauge-restored", c.handlingGauge == 0)
	wantErrs := vs.IteI64(good, 0, 1)
	if !loaded {
		wantErrs = 2
	}
	vs.Assert("error-count-metric", c.errorCount == wantErrs)
	vs.Reach("load-failed", !loaded)
	vs.Reach("sign-failed", vs.And(loaded, raw.signFail))
	vs.Reach("exec-failed", vs.And(loaded, vs.And(!raw.signFail, raw.execErr)))
	vs.Reach("executed", good)
}
