//go:build verif

package yoda

import (
	"bytes"

	vs "github.com/bandprotocol/chain/v3/vsupport"
)

func init() {
	vs.RegisterHarness("VerifC19GetExecutable", VerifC19GetExecutable)
}

const c19KnownShortExe = "C19-short-executable-log-slice"

// c19ShortExeCrash: GetExecutable slices resValue[:32] for a debug line. An executable that arrives over RPC
// is the Data field of a freshly unmarshalled QueryDataResponse, whose capacity is the allocation size class
// of its length: 8, 16 or 24 for 1..24 bytes (0 for an empty answer). The slice expression then panics.
func c19ShortExeCrash(viaRPC bool, n int) bool { return viaRPC && n <= 24 }

// VerifC19GetExecutable: one data source, cached or fetched over RPC with an arbitrary number of failing tries.
func VerifC19GetExecutable() {
	maxTry := vs.Param("max_try")
	e := c19NewEnv(maxTry)
	n := vs.Pick("exe_len", vs.Param("max_exe_len")+1)
	d := e.addDS(1, n)
	cached := vs.Bool("cached")
	d.dataFails = vs.Pick("data_query_fails", maxTry+1)
	c := c19Context(e, 1, -1)
	if cached {
		c.fileCache.AddFile(d.exe)
	}
	rpcOK := d.dataFails < maxTry
	crash := c19ShortExeCrash(!cached && rpcOK, n)
	if crash {
		vs.KnownPanic(c19KnownShortExe)
	}

	res, err := GetExecutable(c, c19Logger(), d.hash)

	vs.Assert("short-executable-crash-condition-is-exact", !crash)
	if cached || rpcOK {
		vs.Assert("loaded-executable-is-the-data-source", err == nil && bytes.Equal(res, d.exe))
		got, cerr := c.fileCache.GetFile(d.hash)
		vs.Assert("loaded-executable-is-cached", cerr == nil && bytes.Equal(got, d.exe))
	} else {
		vs.Assert("rpc-failure-is-reported", err != nil && res == nil)
	}
	wantCalls := 0
	if !cached {
		wantCalls = d.dataFails + 1
		if !rpcOK {
			wantCalls = maxTry
		}
	}
	vs.Assert("rpc-tried-at-most-max-try-until-first-success", d.dataCalls == wantCalls && e.unexpected == 0)
	vs.Assert("error-count-metric", c.errorCount == vs.IteI64(cached || rpcOK, 0, 1))
	vs.Reach("from-cache", cached)
	vs.Reach("from-rpc", !cached && rpcOK)
	vs.Reach("rpc-failed", !cached && !rpcOK)
}
