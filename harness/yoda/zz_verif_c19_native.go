//go:build verif && !symgo

package yoda

import (
	"encoding/json"
	"runtime"
	"time"

	"github.com/cosmos/cosmos-sdk/codec"

	band "github.com/bandprotocol/chain/v3/app"
	"github.com/bandprotocol/chain/v3/vsupport/venv"
	"github.com/bandprotocol/chain/v3/x/oracle/types"
)

// c19App: a BandApp of which only the codec is set (the real proto codec).
func c19App() *band.BandApp { return band.VerifCodecOnlyApp(venv.Codec().(codec.Codec)) }

// c19VerificationOf decodes RequestVerification.GetSignBytes (sorted JSON).
func c19VerificationOf(bz []byte) types.RequestVerification {
	var v types.RequestVerification
	if err := json.Unmarshal(bz, &v); err != nil {
		panic("verif: sign bytes are not a RequestVerification: " + err.Error())
	}
	return v
}

var c19BaseGoroutines = runtime.NumGoroutine()

// c19Mark records the number of goroutines before the step.
func c19Mark() { c19BaseGoroutines = runtime.NumGoroutine() }

// c19Settle waits until every goroutine started by the step has finished.
func c19Settle() {
	deadline := time.Now().Add(10 * time.Second)
	for runtime.NumGoroutine() > c19BaseGoroutines && time.Now().Before(deadline) {
		time.Sleep(time.Millisecond)
	}
	if runtime.NumGoroutine() > c19BaseGoroutines {
		panic("verif: goroutines of the step did not finish")
	}
}

// c19Run runs the step and turns a step that never returns (deadlock) into a panic of the harness goroutine;
// a panic of the step itself is passed on.
func c19Run(step func()) {
	done := make(chan interface{}, 1)
	go func() {
		defer func() { done <- recover() }()
		step()
	}()
	select {
	case r := <-done:
		if r != nil {
			panic(r)
		}
	case <-time.After(5 * time.Second):
		panic("verif: the step did not return (deadlock)")
	}
}
