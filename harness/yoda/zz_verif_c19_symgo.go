//go:build verif && symgo

package yoda

import (
	band "github.com/bandprotocol/chain/v3/app"
	"github.com/bandprotocol/chain/v3/x/oracle/types"
)

// c19App: (*BandApp).AppCodec is an engine intrinsic returning the model codec; no other field is read.
func c19App() *band.BandApp { return new(band.BandApp) }

// engine intrinsics (engine/sym/models_yoda.go)
func c19VerificationOf(bz []byte) types.RequestVerification { panic("intrinsic") }
func c19Mark()                                             {}
func c19Settle()                                           { panic("intrinsic") }

// c19Run: the engine reports a deadlock of the step by itself.
func c19Run(step func()) { step() }
