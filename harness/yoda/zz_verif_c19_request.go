//go:build verif

package yoda

import (
	"bytes"
	"time"

	sdk "github.com/cosmos/cosmos-sdk/types"

	vs "github.com/bandprotocol/chain/v3/vsupport"
	"github.com/bandprotocol/chain/v3/vsupport/venv"
	oraclekeeper "github.com/bandprotocol/chain/v3/x/oracle/keeper"
	"github.com/bandprotocol/chain/v3/x/oracle/types"
)

func init() {
	vs.RegisterHarness("VerifC19Request", VerifC19Request)
}

var c19EIDs = []types.ExternalID{3, 1, 2, 5}

// c19ReqPlan is what the harness knows about one planned request.
type c19ReqPlan struct {
	r        *c19Req
	selected bool
	vals     int
	used     []*c19DS
}

// c19PlanRequest draws an arbitrary stored request with 1..maxRaw raw requests over nDS data sources (repeats
// allowed), the chain's answer behaviour for it, and the planned signer/executor behaviour per raw request.
// Shapes are chosen by forking, everything else stays symbolic. A request that will not get past its look-up
// (query fails, not found, validator not selected) gets the minimal shape: its content is never read.
func c19PlanRequest(e *c19Env, id types.RequestID, maxRaw, nDS int, eidBase int) *c19ReqPlan {
	p := &c19ReqPlan{}
	r := &c19Req{id: id}
	r.fails = vs.Pick("request_query_fails", e.maxTry+1)
	r.found = r.fails < e.maxTry && vs.Bool("request_exists")
	p.selected = r.found && vs.Bool("validator_selected")
	relevant := p.selected
	vary := vs.Param("vary_shape") != 0 // 0: fixed validator position / key count, version choice on the last raw only
	p.vals = 2
	vals := []sdk.ValAddress{venv.ValAddr(2), venv.ValAddr(3)}
	nRaw := 1
	if relevant {
		pos := 1
		if vary {
			pos = vs.Pick("validator_position", p.vals)
		}
		vals[pos] = venv.ValAddr(1)
		nRaw = 1 + vs.Pick("raw_count", maxRaw)
	}
	raws := make([]types.RawRequest, nRaw)
	for i := 0; i < nRaw; i++ {
		j := 0
		if relevant && i > 0 {
			j = vs.Pick("data_source", nDS)
		}
		var d *c19DS
		for _, x := range e.ds {
			if x.id == types.DataSourceID(1+j) {
				d = x
			}
		}
		if d == nil {
			n := 32
			if relevant {
				n = c19PickLen()
			}
			d = e.addDS(types.DataSourceID(1+j), n)
			d.cached = relevant && vs.Bool("cached")
			d.hashFails = vs.Int("hash_query_fails", 0, e.maxTry)
			d.dataFails = vs.Int("data_query_fails", 0, e.maxTry)
		}
		seen := false
		for _, x := range p.used {
			seen = seen || x == d
		}
		if !seen {
			p.used = append(p.used, d)
		}
		raw := c19PlanRaw(c19EIDs[i]+types.ExternalID(eidBase), d, i%3, relevant && i > 0 && (vary || i == nRaw-1))
		r.raws = append(r.raws, raw)
		raws[i] = types.NewRawRequest(raw.eid, d.id, raw.calldata)
	}
	minCount := vs.U64("min_count")
	vs.Assume(minCount >= 1 && minCount <= uint64(p.vals))
	reqTime := vs.I64("request_time")
	vs.Assume(reqTime >= 0 && reqTime < 1<<40)
	r.req = types.NewRequest(
		1, vs.Bytes("calldata", 2), vals, minCount, vs.I64("request_height"), time.Unix(reqTime, 0).UTC(), "client",
		raws, nil, vs.U64("execute_gas"), types.ENCODER_UNSPECIFIED, venv.Addr(5).String(), sdk.NewCoins(),
	)
	e.reqs = append(e.reqs, r)
	p.r = r
	return p
}

// lookedUp: the request query succeeds, the request exists and selects this validator (concrete per path).
func (p *c19ReqPlan) lookedUp(e *c19Env) bool { return p.r.fails < e.maxTry && p.r.found && p.selected }

// processed: the daemon gets as far as running the raw requests: looked up and every data-source look-up
// succeeds (branch-free in the symbolic failure counts).
func (p *c19ReqPlan) processed(e *c19Env) bool {
	ok := p.lookedUp(e)
	for _, d := range p.used {
		ok = vs.And(ok, d.hashFails < e.maxTry)
	}
	return ok
}

func (p *c19ReqPlan) loaded(e *c19Env, d *c19DS) bool { return vs.Or(d.cached, d.dataFails < e.maxTry) }

// crashes: some raw request of a processed request fetches a short executable over RPC (known finding).
func (p *c19ReqPlan) crashes(e *c19Env) bool {
	any := false
	for _, d := range p.used {
		any = vs.Or(any, vs.And(!d.cached && len(d.exe) <= 24, d.dataFails < e.maxTry))
	}
	return vs.And(p.processed(e), any)
}

// c19CheckMessage asserts everything the property says about the message queued for a processed request.
func c19CheckMessage(e *c19Env, p *c19ReqPlan, pm ReportMsgWithKey, wantKey int64, tag string) {
	r := p.r
	msg := pm.msg
	vs.Assert(tag+"message-names-request-and-validator", msg.RequestID == r.id && msg.Validator == e.validator)
	vs.Assert(tag+"one-raw-report-per-raw-request", len(msg.RawReports) == len(r.raws))
	for _, raw := range r.raws {
		count := 0
		ok := true
		for _, rep := range msg.RawReports {
			if rep.ExternalID == raw.eid {
				count++
				ok = vs.And(ok, c19ReportOK(raw, p.loaded(e, raw.ds), rep))
			}
		}
		vs.Assert(tag+"exactly-one-report-per-external-id", count == 1)
		vs.Assert(tag+"raw-report-is-executor-result-or-255", ok)
	}
	// chain side: MsgReportData.ValidateBasic and the size / external-id conditions of Keeper.CheckValidReport
	vs.Assert(tag+"message-passes-validate-basic", msg.ValidateBasic() == nil)
	okChain := len(msg.RawReports) == len(r.req.RawRequests)
	for _, rep := range msg.RawReports {
		okChain = okChain && oraclekeeper.ContainsEID(r.req.RawRequests, rep.ExternalID)
	}
	vs.Assert(tag+"message-passes-check-valid-report", okChain)

	// versions: exactly the set of versions of the successful executions
	for _, raw := range r.raws {
		in := false
		for _, v := range pm.execVersion {
			in = in || v == raw.version
		}
		vs.Assert(tag+"version-of-every-successful-run-listed", vs.Or(!raw.good(p.loaded(e, raw.ds)), in))
	}
	for i, v := range pm.execVersion {
		from := false
		for _, raw := range r.raws {
			from = vs.Or(from, vs.And(raw.good(p.loaded(e, raw.ds)), raw.version == v))
		}
		dup := false
		for _, w := range pm.execVersion[:i] {
			dup = dup || w == v
		}
		vs.Assert(tag+"versions-come-from-successful-runs-once", vs.And(from, !dup))
	}

	// key and fee-estimation data
	vs.Assert(tag+"key-is-next-in-round-robin", pm.keyIndex == wantKey)
	fe := pm.feeEstimationData
	vs.Assert(tag+"fee-estimation-data-mirrors-request",
		vs.And(fe.askCount == int64(p.vals) && fe.clientID == "client" && len(fe.rawRequests) == len(r.raws),
			vs.And(fe.minCount == int64(r.req.MinCount), bytes.Equal(fe.callData, r.req.Calldata))))
	for i, raw := range r.raws {
		if i < len(fe.rawRequests) {
			rr := fe.rawRequests[i]
			vs.Assert(tag+"fee-estimation-raw-requests-mirror-request",
				vs.And(rr.dataSourceID == raw.ds.id && rr.dataSourceHash == raw.ds.hash && rr.externalID == raw.eid,
					rr.calldata == string(raw.calldata)))
		}
	}
}

// c19CheckCalls asserts the signer/executor traffic of one request.
func c19CheckCalls(e *c19Env, p *c19ReqPlan, processed bool, keyName string, tag string) {
	for _, raw := range p.r.raws {
		loaded := p.loaded(e, raw.ds)
		okNot := raw.signCalls == 0 && raw.execCalls == 0
		vs.Assert(tag+"signed-and-executed-once-with-the-request-data",
			vs.Or(vs.And(processed, vs.Or(vs.And(loaded, c19CallsOK(raw, true)), vs.And(!loaded, okNot))),
				vs.And(!processed, okNot)))
		vs.Assert(tag+"verification-message-and-executor-arguments", raw.argsOK)
		vs.Assert(tag+"signed-with-the-request-key", raw.signCalls == 0 || raw.signUID == keyName)
	}
}

// VerifC19Request: handleRequest on an arbitrary stored request; the raw requests run as goroutines whose
// completion orders are all explored.
func VerifC19Request() {
	vs.AllowGoroutines(true)
	e := c19NewEnv(vs.Param("max_try"))
	id := types.RequestID(2)
	p := c19PlanRequest(e, id, vs.Param("max_raw"), vs.Param("n_ds"), 0)
	nKeys := 1
	if p.lookedUp(e) {
		nKeys = 2
		if vs.Param("vary_shape") != 0 {
			nKeys = 1 + vs.Pick("key_count", 2)
		}
	}
	rr := vs.I64("round_robin")
	vs.Assume(rr >= -1 && rr < 1<<62)
	c := c19Context(e, nKeys, rr)
	for _, d := range p.used {
		if d.cached {
			c.fileCache.AddFile(d.exe)
		}
	}
	if p.crashes(e) {
		vs.KnownPanic(c19KnownShortExe)
	}

	c19Mark()
	c19Run(func() { handleRequest(c, c19Logger(), id) })
	c19Settle()

	processed := p.processed(e)
	vs.Assert("no-unplanned-environment-call", e.unexpected == 0)
	wantKey := (rr + 1) % int64(nKeys)
	if processed {
		vs.Assert("exactly-one-message-for-a-selected-request", len(c.pendingMsgs) == 1)
		if len(c.pendingMsgs) >= 1 {
			c19CheckMessage(e, p, <-c.pendingMsgs, wantKey, "")
		}
	} else {
		vs.Assert("no-message-unless-selected-and-looked-up", len(c.pendingMsgs) == 0)
	}
	keyName := c19KeyNames[0]
	if nKeys == 2 && wantKey == 1 {
		keyName = c19KeyNames[1]
	}
	c19CheckCalls(e, p, processed, keyName, "")
	for _, d := range p.used {
		if processed {
			got, err := c.fileCache.GetFile(d.hash)
			vs.Assert("loaded-executable-is-cached", vs.Or(!p.loaded(e, d), err == nil && bytes.Equal(got, d.exe)))
		}
	}
	vs.Assert("handling-gauge-restored", c.handlingGauge == 0)
	vs.Assert("round-robin-advances-only-for-selected-requests",
		c.keyRoundRobinIndex == vs.IteI64(p.lookedUp(e), rr+1, rr))

	allRun, someFail, repeated := processed, false, len(p.used) < len(p.r.raws)
	for _, raw := range p.r.raws {
		good := raw.good(p.loaded(e, raw.ds))
		allRun = vs.And(allRun, good)
		someFail = vs.Or(someFail, !good)
	}
	vs.Reach("reported-all-executed", vs.And(allRun, len(p.r.raws) >= 2))
	vs.Reach("reported-with-255", vs.And(processed, someFail))
	vs.Reach("reported-repeated-data-source", vs.And(processed, repeated))
	vs.Reach("not-selected", p.r.fails < e.maxTry && p.r.found && !p.selected)
	vs.Reach("request-not-found", p.r.fails < e.maxTry && !p.r.found)
	vs.Reach("request-lookup-failed", p.r.fails >= e.maxTry)
	vs.Reach("data-source-lookup-failed", vs.And(p.lookedUp(e), !processed))
}
