//go:build verif

package yoda

import (
	"strconv"

	abci "github.com/cometbft/cometbft/abci/types"

	vs "github.com/bandprotocol/chain/v3/vsupport"
	"github.com/bandprotocol/chain/v3/x/oracle/types"
)

func init() {
	vs.RegisterHarness("VerifC19Transaction", VerifC19Transaction)
}

// VerifC19Transaction: handleTransaction on an arbitrary transaction result whose events announce up to
// max_events requests (between unrelated events); every started handleRequest runs concurrently with its own
// raw-request fan-out, all completion orders explored.
func VerifC19Transaction() {
	vs.AllowGoroutines(true)
	e := c19NewEnv(vs.Param("max_try"))
	maxRaw, nDS := vs.Param("max_raw"), vs.Param("n_ds")
	ids := []types.RequestID{11, 4}

	code := vs.U32("tx_code")
	nEv := vs.Pick("event_count", vs.Param("max_events")+1)
	var events []abci.Event
	type announced struct {
		id        types.RequestID
		malformed bool
		pending   bool
		plan      *c19ReqPlan
	}
	var list []*announced // request-id attributes in event order
	used := map[types.RequestID]bool{}
	for i := 0; i < nEv; i++ {
		switch vs.Pick("event_kind", 4) {
		case 0, 1: // a request event (the id attribute second, after an unrelated one, in kind 1)
			var id types.RequestID
			for _, x := range ids {
				if id == 0 && !used[x] {
					id = x
				}
			}
			vs.Assume(id != 0) // request ids are unique on chain: an id is announced once
			used[id] = true
			list = append(list, &announced{id: id})
			events = append(events, abci.Event{Type: types.EventTypeRequest, Attributes: []abci.EventAttribute{
				{Key: types.AttributeKeyClientID, Value: "7"},
				{Key: types.AttributeKeyID, Value: strconv.Itoa(int(id))},
			}})
		case 2: // an unrelated event carrying an id attribute
			events = append(events, abci.Event{Type: types.EventTypeReport, Attributes: []abci.EventAttribute{
				{Key: types.AttributeKeyID, Value: "11"},
			}})
		case 3: // a request event whose id is not a number
			list = append(list, &announced{malformed: true})
			events = append(events, abci.Event{Type: types.EventTypeRequest, Attributes: []abci.EventAttribute{
				{Key: types.AttributeKeyID, Value: "0x1f"},
			}})
		}
	}
	c := c19Context(e, 1, -1)
	// which announcements start a handleRequest: successful tx, and no malformed or already-pending id so far
	live := true
	started := 0
	for k, a := range list {
		if !a.malformed {
			a.pending = vs.Bool("already_pending")
			if a.pending {
				c.pendingRequests[a.id] = true
			}
		}
		live = live && !a.malformed && !a.pending
		if live {
			// planned only when it can start (its content is never read otherwise); eid ranges are disjoint
			a.plan = c19PlanRequest(e, a.id, maxRaw, nDS, 10*k)
			started++
		} else if !a.malformed {
			e.reqs = append(e.reqs, &c19Req{id: a.id})
		}
	}
	for _, d := range e.ds {
		if d.cached {
			c.fileCache.AddFile(d.exe)
		}
	}
	crash := false
	for _, a := range list {
		if a.plan != nil {
			crash = vs.Or(crash, a.plan.crashes(e))
		}
	}
	if vs.And(code == 0, crash) {
		vs.KnownPanic(c19KnownShortExe)
	}

	c19Mark()
	handleTransaction(c, c19Logger(), abci.TxResult{Height: 5, Tx: []byte{1, 2, 3}, Result: abci.ExecTxResult{Code: code, Events: events}})
	c19Settle()

	vs.Assert("no-unplanned-environment-call", e.unexpected == 0)
	ok := code == 0
	wantMsgs := 0
	for _, a := range list {
		if a.malformed {
			continue
		}
		r := e.reqs[0]
		for _, x := range e.reqs {
			if x.id == a.id {
				r = x
			}
		}
		if a.plan == nil || !ok {
			vs.Assert("no-handler-for-failed-tx-or-pending-request", r.calls == 0)
			continue
		}
		wantCalls := r.fails + 1
		if r.fails >= e.maxTry {
			wantCalls = e.maxTry
		}
		vs.Assert("one-handler-per-announced-request", r.calls == wantCalls)
		if a.plan.processed(e) {
			wantMsgs++
		}
	}
	vs.Assert("one-message-per-processed-request", len(c.pendingMsgs) == wantMsgs)
	n := len(c.pendingMsgs)
	seen := map[types.RequestID]bool{}
	for i := 0; i < n; i++ {
		pm := <-c.pendingMsgs
		var plan *c19ReqPlan
		for _, a := range list {
			if a.plan != nil && a.id == pm.msg.RequestID {
				plan = a.plan
			}
		}
		vs.Assert("message-belongs-to-a-started-request-once", ok && plan != nil && !seen[pm.msg.RequestID])
		seen[pm.msg.RequestID] = true
		if ok && plan != nil {
			vs.Assert("message-only-for-processed-request", plan.processed(e))
			c19CheckMessage(e, plan, pm, 0, "")
		}
	}
	lookedUp := 0
	for _, a := range list {
		if a.plan != nil {
			c19CheckCalls(e, a.plan, vs.And(ok, a.plan.processed(e)), c19KeyNames[0], "")
			if ok && a.plan.lookedUp(e) {
				lookedUp++
			}
		}
	}
	vs.Assert("handling-gauge-restored", c.handlingGauge == 0)
	vs.Assert("round-robin-advances-once-per-selected-request", c.keyRoundRobinIndex == int64(lookedUp)-1)
	vs.Reach("failed-tx-ignored", !ok && started > 0)
	vs.Reach("no-request-event", ok && len(list) == 0 && nEv > 0)
	vs.Reach("pending-request-skipped", ok && len(list) > started && started > 0)
	vs.Reach("two-requests-two-messages", ok && wantMsgs == 2)
	vs.Reach("two-requests-one-message", ok && started == 2 && wantMsgs == 1)
}
