//go:build verif && !symgo

package vsupport

import "time"

// Native replay of the symbolic clock: instants are read from the tape. The code under test reaches this source
// through *.npatch seams that replace time.Now()/time.Sleep in the daemon files for the replay build.
var clockLast time.Time

// step clock state (ClockSteps)
var (
	clockSteps          bool
	clockStall          int64
	clockBase, clockOff int64
	clockLB             int64
	clockStarted        bool
)

func AllowClock() { clockSteps, clockStarted = false, false }

func ClockSteps(stallSeconds int) {
	clockSteps, clockStall, clockStarted, clockOff, clockLB = true, int64(stallSeconds), false, 0, 0
}

func Now() time.Time {
	if clockSteps {
		if !clockStarted {
			clockBase, clockStarted = I64("clock_sec"), true
		} else {
			if clockLB > clockOff {
				clockOff = clockLB
			}
			if clockStall > 0 && Bool("clock_stall") {
				clockOff += clockStall
			}
		}
		clockLast = time.Unix(clockBase+clockOff, 0)
		return clockLast
	}
	sec := I64("clock_sec")
	nsec := I64("clock_nsec")
	clockLast = time.Unix(sec, nsec)
	return clockLast
}

func LastNow() time.Time { return clockLast }

func Sleep(d time.Duration) {
	if clockSteps && d > 0 {
		clockLB = clockOff + (int64(d)+999999999)/1000000000
	}
}

func HashBitVectors() {}

func Fix(x uint64, k uint64) { Assume(x == k) }
