//go:build verif && !symgo

package vsupport

import "time"

// Native replay of the symbolic clock: instants are read from the tape. The code under test reaches this source
// through *.npatch seams that replace time.Now()/time.Sleep in the daemon files for the replay build.
var clockLast time.Time

func AllowClock() {}

func Now() time.Time {
	sec := I64("clock_sec")
	nsec := I64("clock_nsec")
	clockLast = time.Unix(sec, nsec)
	return clockLast
}

func LastNow() time.Time { return clockLast }

func Sleep(d time.Duration) {}

func HashBitVectors() {}

func Fix(x uint64, k uint64) { Assume(x == k) }
