//go:build verif && symgo

// Package vsupport is the harness API. In this (symbolic) build every function is an
// intrinsic of the symgo engine; the bodies are never executed.
package vsupport

import "math/big"

func intrinsic() { panic("vsupport: symgo intrinsic executed natively") }

func U64(label string) uint64           { intrinsic(); return 0 }
func I64(label string) int64            { intrinsic(); return 0 }
func U32(label string) uint32           { intrinsic(); return 0 }
func I32(label string) int32            { intrinsic(); return 0 }
func U8(label string) uint8             { intrinsic(); return 0 }
func Bool(label string) bool            { intrinsic(); return false }
func Int(label string, lo, hi int) int  { intrinsic(); return 0 }
func Pick(label string, n int) int      { intrinsic(); return 0 }
func Bytes(label string, n int) []byte  { intrinsic(); return nil }
func BigU(label string, bits int) *big.Int { intrinsic(); return nil }
func Assume(c bool)                     { intrinsic() }
func Assert(label string, c bool)       { intrinsic() }
func Reach(label string, c bool)        { intrinsic() }
func Known(id string, c bool)           { intrinsic() }
func KnownPanic(id string)              { intrinsic() }
func ExpectPanic(b bool)                { intrinsic() }
func Case() int                         { intrinsic(); return 0 }
func Param(name string) int             { intrinsic(); return 0 }
func Symbolic() bool                    { intrinsic(); return true }
func AllowGoroutines(allOrders bool)    { intrinsic() }
func MaxBigBytes(n int)                 { intrinsic() }
func IteU64(c bool, a, b uint64) uint64 { intrinsic(); return 0 }
func IteBig(c bool, a, b *big.Int) *big.Int { intrinsic(); return nil }
func IteI64(c bool, a, b int64) int64   { intrinsic(); return 0 }
func And(a, b bool) bool                { intrinsic(); return false }
func Or(a, b bool) bool                 { intrinsic(); return false }
func Implies(a, b bool) bool            { intrinsic(); return false }
func DrbgStream(draws []uint64)             { intrinsic() }
func ScalarBytes(label string) []byte        { intrinsic(); return nil }
func RegisterHarness(name string, f func()) {}
