//go:build verif && symgo

package vsupport

// AssumeHashCollisionFree (symbolic run): from now on two symbolic applications of the same hash function
// (keccak256 / sha256 model) on this path give different digests unless their inputs are equal (collision
// resistance idealised as injectivity on the finitely many inputs of the path). Needed to decide that a proof
// of possession bound to one member id / DKG context is rejected for another. Engine side: models_hashcr.go.
func AssumeHashCollisionFree() { intrinsic() }
