//go:build verif && !symgo

// Package vsupport (native build): Nondet values are read from a recorded tape so that a solver
// model can be replayed against the real code with `go test -tags verif -overlay`.
package vsupport

import (
	"encoding/json"
	"fmt"
	"math/big"
	"os"
	"testing"
)

type TapeEntry struct {
	Label string `json:"label"`
	Kind  string `json:"kind"`
	Value string `json:"value"`
}

type tapeFile struct {
	Property string         `json:"property"`
	Harness  string         `json:"harness"`
	Label    string         `json:"label"`
	Kind     string         `json:"kind"`
	Case     int            `json:"case"`
	Params   map[string]int `json:"params"`
	Tape     []TapeEntry    `json:"tape"`
	Expect   string         `json:"expect"`
	Tapes    []struct {
		Label string      `json:"label"`
		Case  int         `json:"case"`
		Tape  []TapeEntry `json:"tape"`
	} `json:"tapes"`
}

type assumeFailed struct{}
type assertFailed struct{ label string }

var (
	cur      *tapeFile
	tape     []TapeEntry
	pos      int
	harness  = map[string]func(){}
	expectP  bool
	failures []string
)

func RegisterHarness(name string, f func()) { harness[name] = f }

func next(label string) *big.Int {
	if pos >= len(tape) {
		// values the model left unconstrained
		pos++
		return new(big.Int)
	}
	e := tape[pos]
	pos++
	if e.Label != label {
		panic(fmt.Sprintf("vsupport: tape mismatch at %d: harness asks %q, tape has %q", pos-1, label, e.Label))
	}
	v, ok := new(big.Int).SetString(e.Value, 10)
	if !ok {
		panic("vsupport: bad tape value " + e.Value)
	}
	return v
}

func U64(label string) uint64 { return next(label).Uint64() }
func I64(label string) int64  { return int64(next(label).Uint64()) }
func U32(label string) uint32 { return uint32(next(label).Uint64()) }
func I32(label string) int32  { return int32(uint32(next(label).Uint64())) }
func U8(label string) uint8   { return uint8(next(label).Uint64()) }
func Bool(label string) bool  { return next(label).Sign() != 0 }
func Int(label string, lo, hi int) int {
	v := int(int64(next(label).Uint64()))
	Assume(lo <= v && v <= hi)
	return v
}
func Pick(label string, n int) int {
	v := int(int64(next(label).Uint64()))
	Assume(0 <= v && v < n)
	return v
}
func Bytes(label string, n int) []byte {
	b := make([]byte, n)
	for i := range b {
		b[i] = U8(label)
	}
	return b
}
func BigU(label string, bits int) *big.Int {
	v := next(label)
	Assume(v.Sign() >= 0 && v.BitLen() <= bits)
	return v
}
func Assume(c bool) {
	if !c {
		panic(assumeFailed{})
	}
}
func Assert(label string, c bool) {
	if !c {
		failures = append(failures, label)
		fmt.Printf("REPLAY-VIOLATION label=%s\n", label)
	}
}
func Reach(label string, c bool)     {}
func Known(id string, c bool)        {}
func KnownPanic(id string)           {}
func ExpectPanic(b bool)             { expectP = b }
func Case() int                      { return cur.Case }
func Param(name string) int          { return cur.Params[name] }
func Symbolic() bool                 { return false }
func AllowGoroutines(allOrders bool) {}
func MaxBigBytes(n int)              {}
func IteU64(c bool, a, b uint64) uint64 {
	if c {
		return a
	}
	return b
}
func DrbgStream(draws []uint64)       {}
// ScalarBytes: 32 big-endian bytes of a value in [1, n) (n = secp256k1 group order).
func ScalarBytes(label string) []byte {
	v := next(label)
	n, _ := new(big.Int).SetString("FFFFFFFFFFFFFFFFFFFFFFFFFFFFFFFEBAAEDCE6AF48A03BBFD25E8CD0364141", 16)
	Assume(v.Sign() > 0 && v.Cmp(n) < 0)
	b := make([]byte, 32)
	v.FillBytes(b)
	return b
}
func AllowRandom()       {}
func AssumeHashScalars() {}
func IteBig(c bool, a, b *big.Int) *big.Int {
	if c {
		return a
	}
	return b
}
func IteI64(c bool, a, b int64) int64 {
	if c {
		return a
	}
	return b
}
func And(a, b bool) bool     { return a && b }
func Or(a, b bool) bool      { return a || b }
func Implies(a, b bool) bool { return !a || b }

func runOne(name string, tp []TapeEntry) (panicked interface{}) {
	f, ok := harness[name]
	if !ok {
		panic("vsupport: harness not registered: " + name)
	}
	tape, pos, expectP = tp, 0, false
	defer func() {
		if r := recover(); r != nil {
			if _, ok := r.(assumeFailed); ok {
				fmt.Println("REPLAY-ASSUME-FAILED")
				return
			}
			if expectP {
				return
			}
			panicked = r
		}
	}()
	f()
	return nil
}

// Replay is called from the in-package TestVerifReplay.
func Replay(t *testing.T) {
	p := os.Getenv("VERIF_TAPE")
	if p == "" {
		t.Skip("VERIF_TAPE not set")
	}
	b, err := os.ReadFile(p)
	if err != nil {
		t.Fatal(err)
	}
	var tf tapeFile
	if err := json.Unmarshal(b, &tf); err != nil {
		t.Fatal(err)
	}
	cur = &tf
	if _, ok := harness[tf.Harness]; !ok {
		t.Skip("harness not in this package")
	}
	if len(tf.Tapes) > 0 {
		for _, w := range tf.Tapes {
			failures = nil
			cur.Case = w.Case
			if r := runOne(tf.Harness, w.Tape); r != nil {
				fmt.Printf("REPLAY-PANIC witness=%s: %v\n", w.Label, r)
				t.Fail()
				continue
			}
			if len(failures) == 0 {
				fmt.Printf("REPLAY-WITNESS-OK %s\n", w.Label)
			} else {
				t.Fail()
			}
		}
		return
	}
	failures = nil
	if r := runOne(tf.Harness, tf.Tape); r != nil {
		fmt.Printf("REPLAY-PANIC %v\n", r)
		t.Fail()
		return
	}
	if len(failures) > 0 {
		t.Fail()
	}
}
