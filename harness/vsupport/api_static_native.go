//go:build verif && !symgo

package vsupport

// StaticCallStrings is a static query only the engine can answer; the native build returns nil (harnesses pin the
// engine's answer on the tape, see harness/client/grpc/oracle/proof/zz_verif_c12_multistore.go).
func StaticCallStrings(fn, callee string) []string { return nil }
