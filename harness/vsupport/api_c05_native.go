//go:build verif && !symgo

package vsupport

// AssumeFinitePoints (native replay): nothing to do, the real hash and the real curve run.
func AssumeFinitePoints() {}
