//go:build verif && symgo

package vsupport

import "time"

// Symbolic wall clock for daemon harnesses (engine/sym/models_clock.go).

// AllowClock lets the code under test read time.Now / call time.Sleep: every reading is a fresh symbolic instant
// not before the previous one (and not before the wake-up time of the last Sleep).
func AllowClock() { intrinsic() }

// Now reads the symbolic clock (the same source time.Now uses after AllowClock).
func Now() time.Time { intrinsic(); return time.Time{} }

// LastNow returns the last instant the clock handed out (to the harness or to the code under test).
func LastNow() time.Time { intrinsic(); return time.Time{} }

// Sleep moves the clock's lower bound like time.Sleep.
func Sleep(d time.Duration) { intrinsic() }

// HashBitVectors switches the uninterpreted sha256 to a bit-vector valued function (engine/sym/models_sha_bv.go).
func HashBitVectors() { intrinsic() }

// Fix assumes x == k (k concrete) and makes every later computation of the same term continue with k
// (engine/sym/fixed_terms.go).
func Fix(x uint64, k uint64) { intrinsic() }

// ClockSteps switches to the step clock: first reading arbitrary, every later reading = wake-up time of the last
// Sleep (or the previous reading) plus either 0 or stallSeconds (forked), see engine/sym/models_clock.go.
func ClockSteps(stallSeconds int) { intrinsic() }
