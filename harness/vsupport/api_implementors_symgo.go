//go:build verif && symgo

package vsupport

// Implementors lists (sorted, "pkgpath.Name") every named non-interface type of the loaded program for which T or
// *T implements the interface pkgPath.name. Engine intrinsic (whole-program query over go/types); harness types
// (names starting with Verif/verif/cNN) are excluded.
func Implementors(pkgPath, name string) []string { intrinsic(); return nil }
