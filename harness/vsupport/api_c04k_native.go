//go:build verif && !symgo

package vsupport

// AssumeHashCollisionFree (native replay): nothing to do, the real hash runs.
func AssumeHashCollisionFree() {}
