//go:build verif && symgo

package vsupport

// StaticCallStrings returns the constant string arguments of the (single) call of `callee` inside function `fn`
// (both as printed by go/ssa, e.g. "(*pkg.T).Method", "pkg.Func"), read from the SSA of the loaded program without
// executing it. Engine intrinsic; variadic string arguments are supported.
func StaticCallStrings(fn, callee string) []string { intrinsic(); return nil }
