//go:build verif && symgo

package vsupport

// AssumeFinitePoints (symbolic run): from now on every point that is serialised on this path is assumed
// not to be the point at infinity. With the keccak-based binding factor uninterpreted, the solver can
// otherwise choose the hash so that D + rho*E (or a committee's nonce sum) vanishes: a path with negligible
// probability under the real hash that cannot be replayed natively. Engine side: models_tssde.go /
// models_secp.go (SerializeCompressed).
func AssumeFinitePoints() { intrinsic() }
