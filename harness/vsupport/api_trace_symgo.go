//go:build verif && symgo

package vsupport

// Store-operation trace (engine/sym/models_storetrace.go): the sequence of KVStore operations (kind, store, key,
// written value) performed since StoreTraceStart, used to state "two executions of the same step perform the same
// store operations in the same order" (what gas and the per-transaction results depend on).

// StoreTraceStart clears the trace and starts recording.
func StoreTraceStart() { intrinsic() }

// StoreTraceLen returns the number of recorded operations.
func StoreTraceLen() int { intrinsic(); return 0 }

// StoreTraceOp returns the i-th recorded operation: one kind byte (G/H/S/D/I), the store name, 0, the key and,
// for a write of plain bytes, 0xFF and the value.
func StoreTraceOp(i int) []byte { intrinsic(); return nil }
