//go:build verif && !symgo

package vsupport

// Native build: no trace is recorded (assertions over the trace are about scheduling choices — map iteration
// orders — that a native run cannot be steered into; the engine reports them without a native replay).
func StoreTraceStart()          {}
func StoreTraceLen() int        { return 0 }
func StoreTraceOp(i int) []byte { return nil }
