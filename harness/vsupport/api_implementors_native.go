//go:build verif && !symgo

package vsupport

// Implementors is a whole-program query only the engine can answer; the native build returns nil (callers guard
// the comparison with Symbolic()).
func Implementors(pkgPath, name string) []string { return nil }
