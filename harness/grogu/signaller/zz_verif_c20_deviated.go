//go:build verif

package signaller

import (
	"math/big"
	"math/bits"

	vs "github.com/bandprotocol/chain/v3/vsupport"
)

func init() { vs.RegisterHarness("VerifC20IsDeviated", VerifC20IsDeviated) }

// VerifC20IsDeviated: the real isDeviated kernel (exact integer arithmetic since the fix 1acad88; the former
// float64 version could not be encoded) for every threshold and every pair of uint64 prices:
//
//	old == 0:  deviated iff new != 0
//	otherwise: deviated iff floor(|new - old| * 10000 / old) >= threshold, over the mathematical integers
func VerifC20IsDeviated() {
	verifIsDeviatedHook = nil
	bp := vs.I64("deviation_basis_point")
	old := vs.U64("old_price")
	new_ := vs.U64("new_price")

	got := isDeviated(bp, old, new_)

	if old == 0 {
		vs.Assert("zero-old-price-deviated-iff-new-nonzero", got == (new_ != 0))
		vs.Reach("old-price-zero", true)
		return
	}
	// Region where |new-old|*10000 >= 2^64*old. There floor(|new-old|*10000/old) >= 2^64 exceeds every int64
	// threshold (p >= 2^64*h and h >= old give p/old >= 2^64: a one-line fact about integers that the solver's
	// non-linear arithmetic does not finish, stated here by hand), so the specification is "deviated".
	du := new_ - old
	if new_ < old {
		du = old - new_
	}
	if h, _ := bits.Mul64(du, 10000); h >= old {
		vs.Assert("huge-move-is-deviated", got)
		vs.Reach("huge-move", true)
		return
	}
	o := new(big.Int).SetUint64(old)
	n := new(big.Int).SetUint64(new_)
	diff := new(big.Int).Sub(n, o)
	diff.Abs(diff)
	// floor(diff*10000/old) >= bp over the mathematical integers (no width, no rounding)
	dev := new(big.Int).Div(new(big.Int).Mul(diff, big.NewInt(10000)), o)
	if dev.Cmp(new(big.Int).Lsh(big.NewInt(1), 63)) >= 0 {
		// a deviation beyond the int64 range of basis points exceeds every threshold
		vs.Assert("move-beyond-int64-basis-points-is-deviated", got)
		vs.Reach("beyond-int64-basis-points", true)
		return
	}
	want := dev.Cmp(big.NewInt(bp)) >= 0
	vs.Assert("deviated-iff-exact-basis-points-reach-threshold", got == want)
	vs.Reach("deviated", got)
	vs.Reach("not-deviated", !got)
}
