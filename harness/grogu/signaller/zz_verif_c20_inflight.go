//go:build verif

package signaller

import (
	"sync"
	"time"

	bothan "github.com/bandprotocol/bothan/bothan-api/client/go-client/proto/bothan/v1"

	"github.com/bandprotocol/chain/v3/grogu/submitter"
	vs "github.com/bandprotocol/chain/v3/vsupport"
	"github.com/bandprotocol/chain/v3/vsupport/venv"
	feeds "github.com/bandprotocol/chain/v3/x/feeds/types"
)

func init() {
	vs.RegisterHarness("VerifC20InFlight", VerifC20InFlight)
}

// VerifC20InFlight (H3, interplay): the real Signaller.execute and the real Submitter.submitPrice share the pending
// set, the submit channel and the idle-key pool, as in cmd/grogu. A schedule of `steps` steps is explored, each
// either one signaller iteration (two current feeds, always due; the price service answers for an arbitrary subset)
// or the completion of the oldest queued submission (what Submitter.Start does: take a submission and an idle key,
// run submitPrice) under every broadcast / tx-query outcome. After every step:
//
//	never-two-in-flight      no signal is contained in two submissions that are queued or being processed
//	marks-are-the-in-flight  the pending set is exactly the union of the signals of those submissions
//	only-unmarked-asked      the price service is only asked for signals that are not in flight
//
// and when every submission has completed, the pending set is empty and every key is idle again.
func VerifC20InFlight() {
	verifAssignedTimeHook, verifIsDeviatedHook = nil, nil
	vs.AllowClock()
	vs.ClockSteps(0) // time passes only by sleeping: timing is the business of H1/H2
	val := venv.ValAddr(1)
	ids := []string{"AAA", "BBB"}
	pending := &sync.Map{}
	ch := make(chan submitter.SignalPriceSubmission, 8)
	o := &submitter.VerifOutcome{Narrow: true}
	sm := submitter.VerifNewSubmitter(val, pending, ch, []string{"key1"}, false, 1, time.Second, time.Second, o)

	prices := &c20Bothan{}
	s := New(nil, prices, time.Second, ch, c20Logger(), val, pending, 50, 30)
	// the daemon's view: two current feeds, nothing submitted yet (so both are due whenever they are not in flight)
	s.signalIDToFeed = map[string]feeds.FeedWithDeviation{
		"AAA": feeds.NewFeedWithDeviation("AAA", 1, 60, 50), "BBB": feeds.NewFeedWithDeviation("BBB", 1, 60, 50)}
	s.signalIDToValidatorPrice = map[string]feeds.ValidatorPrice{}
	s.params = &feeds.Params{CooldownTime: 30}

	var inflight [][]string // signals of the queued submissions, oldest first
	check := func() {
		for _, id := range ids {
			n := 0
			for _, sub := range inflight {
				if c20Contains(sub, id) {
					n++
				}
			}
			vs.Assert("never-two-in-flight", n <= 1)
			_, marked := pending.Load(id)
			vs.Assert("marks-are-the-in-flight", marked == (n == 1))
		}
		vs.Assert("queue-holds-the-in-flight-submissions", len(ch) == len(inflight))
	}

	steps := vs.Param("steps")
	completed, sent := 0, 0
	for step := 0; step < steps; step++ {
		if vs.Bool("signaller_step") {
			var answer []*bothan.Price
			for _, id := range ids {
				if vs.Bool("price_available") {
					answer = append(answer, &bothan.Price{SignalId: id, Price: vs.U64("price"), Status: bothan.Status_STATUS_AVAILABLE})
				}
			}
			prices.resp = &bothan.GetPricesResponse{Uuid: "u", Prices: answer}
			prices.asked = nil
			before := len(ch)
			s.execute()
			for _, id := range prices.asked {
				for _, sub := range inflight {
					vs.Assert("only-unmarked-asked", !c20Contains(sub, id))
				}
			}
			if len(ch) > before {
				// peek at what was queued: drain and refill (the harness owns both channel ends)
				var all []submitter.SignalPriceSubmission
				for len(ch) > 0 {
					all = append(all, <-ch)
				}
				for _, x := range all {
					ch <- x
				}
				last := all[len(all)-1]
				var sigs []string
				for _, sp := range last.SignalPrices {
					sigs = append(sigs, sp.SignalID)
				}
				inflight = append(inflight, sigs)
				sent++
			}
		} else if len(ch) > 0 {
			key, ok := sm.VerifTakeIdleKey()
			vs.Assert("a-key-is-idle-when-nothing-is-being-processed", ok)
			sub := <-ch
			sm.VerifSubmitPrice(sub, key)
			inflight = inflight[1:]
			completed++
		}
		check()
	}
	// drain: complete everything still queued
	for len(ch) > 0 {
		key, _ := sm.VerifTakeIdleKey()
		sub := <-ch
		sm.VerifSubmitPrice(sub, key)
		inflight = inflight[1:]
		completed++
		check()
	}
	for _, id := range ids {
		_, marked := pending.Load(id)
		vs.Assert("all-released-in-the-end", !marked)
	}
	vs.Assert("all-keys-idle-in-the-end", len(sm.VerifIdleKeys()) == 1)
	vs.Reach("two-submissions-in-flight-with-different-signals", sent >= 2 && completed == sent && steps >= 2)
	vs.Reach("signal-resubmitted-after-release", sent >= 2)
	vs.Reach("signaller-step-with-everything-in-flight", sent >= 1)
}
