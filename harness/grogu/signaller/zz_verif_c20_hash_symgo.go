//go:build verif && symgo

package signaller

import (
	"crypto/sha256"

	sdk "github.com/cosmos/cosmos-sdk/types"

	vs "github.com/bandprotocol/chain/v3/vsupport"
)

// c20HashWord returns the first eight bytes (big endian) of sha256(validator || timestamp), i.e. the word
// calculateAssignedTime derives the slot from, and puts its value on the tape (label "hash_word0") so that the
// native replay, where sha256 is the real function, can reproduce the digest the solver chose (sha.npatch).
func c20HashWord(val sdk.ValAddress, ts int64) uint64 {
	h := sha256.Sum256(append(val.Bytes(), sdk.Uint64ToBigEndian(uint64(ts))...))
	w := sdk.BigEndianToUint64(h[:])
	vs.Assume(w == vs.U64("hash_word0"))
	return w
}
