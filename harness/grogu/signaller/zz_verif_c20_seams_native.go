//go:build verif && !symgo

package signaller

import (
	"time"

	vs "github.com/bandprotocol/chain/v3/vsupport"
)

// Native-replay seams of the wall clock: signaller_now.npatch / signaller_sleep.npatch route the daemon's
// time.Now() / time.Sleep here, where the instants come from the tape (the symbolic run models time.Now itself).
func verifNow() time.Time { return vs.Now() }

func verifSleep(d time.Duration) { vs.Sleep(d) }
