//go:build verif

package signaller

import (
	"errors"
	"sync"
	"time"

	sdkmath "cosmossdk.io/math"

	sdk "github.com/cosmos/cosmos-sdk/types"
	stakingtypes "github.com/cosmos/cosmos-sdk/x/staking/types"

	bothan "github.com/bandprotocol/bothan/bothan-api/client/go-client/proto/bothan/v1"

	"github.com/bandprotocol/chain/v3/grogu/submitter"
	"github.com/bandprotocol/chain/v3/pkg/logger"
	vs "github.com/bandprotocol/chain/v3/vsupport"
	"github.com/bandprotocol/chain/v3/vsupport/venv"
	feedskeeper "github.com/bandprotocol/chain/v3/x/feeds/keeper"
	feeds "github.com/bandprotocol/chain/v3/x/feeds/types"
	oracletypes "github.com/bandprotocol/chain/v3/x/oracle/types"
)

func init() {
	vs.RegisterHarness("VerifC20Admission", VerifC20Admission)
}

// verifIsDeviatedHook is the seam of the float64 kernel isDeviated (engine/sym/models_grogu.go redirects the
// call symbolically, isdeviated.npatch natively). nil = the real kernel runs.
var verifIsDeviatedHook func(deviationBasisPoint int64, oldPrice uint64, newPrice uint64) bool

var c20Universe = []string{"AAA", "BBB", "CCC"}

const c20Clock = int64(1) << 40

var c20Intervals = []int64{60, 3600, 437}

// c20Stop ends Signaller.Start (an endless loop) after the iteration under study.
type c20Stop struct{}

// c20Sig: everything known about one signal of the universe.
type c20Sig struct {
	id       string
	inFeeds  bool
	interval int64
	pending  bool // a submission of this signal is in flight
	hasOld   bool // the chain stores a price of this validator for the signal
	old      feeds.ValidatorPrice
	present  bool   // the price service answered for the signal
	bStatus  int32  // its status there (0 and 4 are statuses the daemon cannot convert)
	bPrice   uint64 // its price there
	newPrice uint64 // the price the daemon would send
	deviated bool   // answer of the isDeviated stub for (old.Price, newPrice)
}

// c20Chain answers the daemon's queries from the REAL feeds keeper through the real gRPC query server.
type c20Chain struct {
	env        feedskeeper.VerifFeedsEnv
	fail       int // 0 none, 1 valid-validator, 2 params, 3 current feeds, 4 validator prices
	validCalls int
	maxIter    int
}

func (q *c20Chain) QueryValidValidator(val sdk.ValAddress) (*feeds.QueryValidValidatorResponse, error) {
	q.validCalls++
	if q.validCalls > q.maxIter {
		panic(c20Stop{})
	}
	if q.fail == 1 {
		return nil, errors.New("rpc failure")
	}
	return feedskeeper.NewQueryServer(q.env.K).ValidValidator(q.env.Ctx, &feeds.QueryValidValidatorRequest{Validator: val.String()})
}

func (q *c20Chain) QueryParams() (*feeds.QueryParamsResponse, error) {
	if q.fail == 2 {
		return nil, errors.New("rpc failure")
	}
	return feedskeeper.NewQueryServer(q.env.K).Params(q.env.Ctx, &feeds.QueryParamsRequest{})
}

func (q *c20Chain) QueryCurrentFeeds() (*feeds.QueryCurrentFeedsResponse, error) {
	if q.fail == 3 {
		return nil, errors.New("rpc failure")
	}
	return feedskeeper.NewQueryServer(q.env.K).CurrentFeeds(q.env.Ctx, &feeds.QueryCurrentFeedsRequest{})
}

func (q *c20Chain) QueryValidatorPrices(val sdk.ValAddress) (*feeds.QueryValidatorPricesResponse, error) {
	if q.fail == 4 {
		return nil, errors.New("rpc failure")
	}
	return feedskeeper.NewQueryServer(q.env.K).ValidatorPrices(q.env.Ctx, &feeds.QueryValidatorPricesRequest{Validator: val.String()})
}

// c20Bothan is the price service: a prepared answer (or a failure); it records what was asked and when.
type c20Bothan struct {
	fail    bool
	resp    *bothan.GetPricesResponse
	calls   int
	asked   []string
	askedAt time.Time
}

func (b *c20Bothan) GetInfo() (*bothan.GetInfoResponse, error)      { return nil, errors.New("unused") }
func (b *c20Bothan) UpdateRegistry(ipfsHash, version string) error { return nil }
func (b *c20Bothan) PushMonitoringRecords(uuid, txHash string) error {
	return nil
}

func (b *c20Bothan) GetPrices(signalIDs []string) (*bothan.GetPricesResponse, error) {
	b.calls++
	b.asked = append([]string{}, signalIDs...)
	b.askedAt = vs.LastNow() // the `now` that execute() has just read
	if b.fail {
		return nil, errors.New("bothan failure")
	}
	return b.resp, nil
}

func c20Logger() *logger.Logger {
	return logger.NewLogger(func(key, level string) bool { return true })
}

func c20Contains(ss []string, s string) bool {
	for _, x := range ss {
		if x == s {
			return true
		}
	}
	return false
}

// c20DeviationStub installs an arbitrary FUNCTION of (old price, new price) in place of the float64 kernel: the
// answers are drawn per signal beforehand; a call with the operands of signal k returns signal k's answer (if
// two signals happen to have equal operands the first one's answer is used for both, as for a function).
func c20DeviationStub(sigs []c20Sig) {
	verifIsDeviatedHook = func(bp int64, oldPrice uint64, newPrice uint64) bool {
		for i := range sigs {
			s := &sigs[i]
			if s.hasOld && s.present {
				if vs.And(oldPrice == s.old.Price, newPrice == s.newPrice) {
					return s.deviated
				}
			}
		}
		vs.Assert("isDeviated-called-with-the-stored-and-the-new-price", false)
		return false
	}
}

// c20Deviated is the stub's answer for signal i as the oracle sees it (same function).
func c20Deviated(sigs []c20Sig, i int) bool {
	r := sigs[i].deviated
	for k := i - 1; k >= 0; k-- {
		s := &sigs[k]
		if s.hasOld && s.present {
			same := vs.And(sigs[i].old.Price == s.old.Price, sigs[i].newPrice == s.newPrice)
			r = vs.Or(vs.And(same, s.deviated), vs.And(!same, r))
		}
	}
	return r
}

// VerifC20Admission (H1): ONE iteration of the real Signaller.Start loop (sleep, valid-validator query, the three
// state queries through the real gRPC query server of the real feeds keeper, execute: pending filter, price
// service, selection, marking, hand-off) at an arbitrary instant `now`, followed by the REAL
// MsgSubmitSignalPrices handler on the very chain state the daemon has mirrored, at ANY block time
// >= now - TimeBuffer.
//
//	selected-iff-due   a signal is handed to the submitter iff it is a current feed, not in flight, the price
//	                   service returned a convertible price for it, and (the chain holds no price of this
//	                   validator for it, or now >= last + cooldown + TimeBuffer and (now >= assigned time, or
//	                   the status changed, or isDeviated)) and it is not an UNAVAILABLE price with more than
//	                   FixedIntervalOffset seconds left to the deadline
//	chain-accepts      whatever is handed over is accepted by the chain (valid message, every signal a current
//	                   feed, cooldown passed, validator entitled)
func VerifC20Admission() {
	nU := vs.Param("n_signals")
	verifAssignedTimeHook, verifIsDeviatedHook = nil, nil
	vs.AllowClock()
	vs.AllowGoroutines(false)
	vs.HashBitVectors()
	env := feedskeeper.VerifNewFeedsEnv()
	k := env.K
	val := venv.ValAddr(1)

	// ---- chain parameters
	p := feeds.DefaultParams()
	p.CooldownTime = vs.I64("cooldown")
	vs.Assume(p.CooldownTime < 1<<32)
	p.AllowableBlockTimeDiscrepancy = vs.I64("discrepancy")
	vs.Assume(p.AllowableBlockTimeDiscrepancy < 1<<32)
	if err := k.SetParams(env.Ctx, p); err != nil {
		vs.Assume(false)
	}
	cooldown := p.CooldownTime

	// ---- the signals
	free := vs.Param("free_shapes") == 1
	rich := true
	sigs := make([]c20Sig, nU)
	var feedList []feeds.Feed
	var prevList []feeds.ValidatorPrice
	var answer []*bothan.Price
	for i := range sigs {
		s := &sigs[i]
		s.id = c20Universe[i]
		if free {
			s.inFeeds, s.pending, s.hasOld, s.present = vs.Bool("in_feeds"), vs.Bool("pending"), vs.Bool("has_old"), vs.Bool("present")
		} else {
			shape := 0
			if i == 0 || vs.Param("second_full") == 1 {
				shape = vs.Pick("shape", 5)
			} else {
				shape = []int{1, 4}[vs.Pick("shape", 2)]
			}
			rich = rich && shape == 4
			switch shape {
			case 0: // not a current feed, although the stored list and the price service know it
				s.hasOld, s.present = true, true
			case 1: // current feed with a submission in flight
				s.inFeeds, s.pending, s.present = true, true, true
			case 2: // current feed the price service does not answer for
				s.inFeeds, s.hasOld = true, true
			case 3: // current feed never submitted before
				s.inFeeds, s.present = true, true
			case 4: // current feed with a stored price
				s.inFeeds, s.hasOld, s.present = true, true, true
			}
		}
		// concrete intervals (the chain's default minimum / maximum / one in between): the interval arithmetic of
		// the assigned time is decided for every interval in VerifC20Deadline
		s.interval = c20Intervals[(i+vs.Param("interval_shift"))%len(c20Intervals)]
		if s.inFeeds {
			feedList = append(feedList, feeds.NewFeed(s.id, 1, s.interval))
		}
		if s.hasOld {
			ts := vs.I64("old_time")
			vs.Assume(ts >= 0)
			vs.Assume(ts < c20Clock)
			s.old = feeds.ValidatorPrice{
				SignalPriceStatus: feeds.SignalPriceStatus(vs.Int("old_status", 1, 3)),
				SignalID:          s.id, Price: vs.U64("old_price"), Timestamp: ts, BlockHeight: 1,
			}
			prevList = append(prevList, s.old)
			c20HashWord(val, ts) // the digest behind this signal's assigned time goes on the tape
		}
		if s.present {
			if i == 0 || vs.Param("second_full") == 1 {
				s.bStatus = int32(vs.Int("bothan_status", 0, 4))
			} else {
				s.bStatus = 3 // AVAILABLE
			}
			s.bPrice = vs.U64("bothan_price")
			s.newPrice = vs.IteU64(s.bStatus == 3, s.bPrice, 0)
			s.deviated = vs.Bool("deviated")
			answer = append(answer, &bothan.Price{SignalId: s.id, Price: s.bPrice, Status: bothan.Status(s.bStatus)})
		}
	}
	if vs.Bool("never_submitted_slot") { // the chain keeps an empty slot for a feed never submitted
		prevList = append(prevList, feeds.ValidatorPrice{})
	}
	k.SetCurrentFeeds(env.Ctx.WithBlockTime(time.Unix(2, 0).UTC()).WithBlockHeight(2), feedList)
	if len(prevList) > 0 {
		_ = k.SetValidatorPriceList(env.Ctx, val, prevList)
	}

	// ---- the validator: bonded or not, oracle-active or not; the failure injected into this iteration.
	// (Explored on the richest signal shape only: these cases end the iteration before any signal is looked at.)
	bonded, active, fail := true, true, 0
	if rich {
		bonded, active, fail = vs.Bool("bonded"), vs.Bool("active"), vs.Pick("failure", 6)
	}
	st := stakingtypes.Unbonding
	if bonded {
		st = stakingtypes.Bonded
	}
	env.Staking.Vals = append(env.Staking.Vals, stakingtypes.Validator{OperatorAddress: val.String(), Status: st, Tokens: sdkmath.NewInt(1)})
	env.Oracle.SetValidatorStatus(env.Ctx, val, oracletypes.NewValidatorStatus(active, time.Unix(1, 0).UTC()))
	valid := bonded && active

	// ---- the daemon
	chain := &c20Chain{env: env, fail: fail, maxIter: 1}
	prices := &c20Bothan{fail: fail == 5, resp: &bothan.GetPricesResponse{Uuid: "uuid-1", Prices: answer}}
	pending := &sync.Map{}
	for i := range sigs {
		if sigs[i].pending {
			pending.Store(sigs[i].id, struct{}{})
		}
	}
	ch := make(chan submitter.SignalPriceSubmission, 4)
	dpStart, dpOffset := uint64(vs.Param("dp_start")), uint64(vs.Param("dp_offset"))
	s := New(chain, prices, time.Second, ch, c20Logger(), val, pending, dpStart, dpOffset)
	c20DeviationStub(sigs)
	// what earlier polling rounds left behind: a signal that is no longer a current feed may still be in the
	// daemon's feed index from the round in which it was one (this round must drop it)
	for i := range sigs {
		if !sigs[i].inFeeds && vs.Bool("was_current_feed_in_an_earlier_round") {
			s.signalIDToFeed[sigs[i].id] = feeds.FeedWithDeviation{SignalID: sigs[i].id, Power: 1, Interval: sigs[i].interval, DeviationBasisPoint: 1}
		}
	}

	func() {
		defer func() {
			if r := recover(); r != nil {
				if _, ok := r.(c20Stop); !ok {
					panic(r)
				}
			}
		}()
		s.Start()
	}()

	// ---- what was handed to the submitter
	nSub := len(ch)
	vs.Assert("at-most-one-submission-per-iteration", nSub <= 1)
	sent := map[string]feeds.SignalPrice{}
	var sub submitter.SignalPriceSubmission
	if nSub == 1 {
		sub = <-ch
		vs.Assert("submission-not-empty", len(sub.SignalPrices) > 0)
		vs.Assert("submission-carries-the-price-service-uuid", sub.UUID == "uuid-1")
		for _, sp := range sub.SignalPrices {
			_, dup := sent[sp.SignalID]
			vs.Assert("no-signal-twice-in-one-submission", !dup)
			sent[sp.SignalID] = sp
		}
	}

	reachedExecute := prices.calls > 0
	anyCandidate := false
	for i := range sigs {
		if sigs[i].inFeeds && !sigs[i].pending {
			anyCandidate = true
		}
	}
	stepRuns := valid && fail == 0
	vs.Assert("price-service-asked-iff-step-runs-and-something-is-not-in-flight", reachedExecute == ((stepRuns || (valid && fail == 5)) && anyCandidate))
	if !reachedExecute {
		vs.Assert("nothing-sent-without-a-price-query", nSub == 0)
		vs.Reach("validator-not-entitled", !valid)
		vs.Reach("chain-query-failed", valid && fail != 0)
		vs.Reach("everything-in-flight", stepRuns && !anyCandidate)
		return
	}
	// the price service is asked exactly for the current feeds that are not in flight
	for i := range sigs {
		vs.Assert("asked-for-current-feeds-not-in-flight", c20Contains(prices.asked, sigs[i].id) == (sigs[i].inFeeds && !sigs[i].pending))
	}
	nowSec := prices.askedAt.Unix()

	anyFirst, anyAssigned, anyChanged, anyDeviated, anyHeld, anyNotDue, anyCooling, anyEdgeOld := false, false, false, false, false, false, false, false
	for i := range sigs {
		sg := &sigs[i]
		sp, got := sent[sg.id]
		base := !prices.fail && sg.inFeeds && !sg.pending && sg.present
		if !base {
			vs.Assert("selected-iff-due", !got)
			continue
		}
		statusOK := vs.And(sg.bStatus >= 1, sg.bStatus <= 3)
		timing := true
		oldTs := int64(0)
		if sg.hasOld {
			oldTs = sg.old.Timestamp
			assignedSec := calculateAssignedTime(val, sg.interval, sg.old.Timestamp, dpOffset, dpStart).Unix()
			cool := nowSec >= sg.old.Timestamp+cooldown+c20SpecBuffer
			due := nowSec >= assignedSec
			changed := int32(sg.old.SignalPriceStatus) != sg.bStatus
			dev := c20Deviated(sigs, i)
			timing = vs.And(cool, vs.Or(due, vs.Or(changed, dev)))
			anyAssigned = vs.Or(anyAssigned, vs.And(got, vs.And(due, vs.And(!changed, !dev))))
			anyChanged = vs.Or(anyChanged, vs.And(got, vs.And(!due, vs.And(changed, !dev))))
			anyDeviated = vs.Or(anyDeviated, vs.And(got, vs.And(!due, vs.And(!changed, dev))))
			anyNotDue = vs.Or(anyNotDue, vs.And(!got, vs.And(statusOK, vs.And(cool, sg.bStatus != 2))))
			anyCooling = vs.Or(anyCooling, vs.And(!got, vs.And(statusOK, vs.And(!cool, vs.Or(due, vs.Or(changed, dev))))))
			anyEdgeOld = vs.Or(anyEdgeOld, vs.And(got, nowSec == sg.old.Timestamp+cooldown+c20SpecBuffer))
		} else {
			anyFirst = vs.Or(anyFirst, got)
		}
		held := vs.And(sg.bStatus == 2, nowSec <= oldTs+sg.interval-c20SpecUrgency)
		anyHeld = vs.Or(anyHeld, vs.And(!got, vs.And(timing, held)))
		want := vs.And(vs.And(statusOK, timing), !held)
		vs.Assert("selected-iff-due", got == want)
		if got {
			vs.Assert("sent-status-is-the-price-service-status", int32(sp.Status) == sg.bStatus)
			vs.Assert("sent-price-is-the-price-service-price-or-zero", sp.Price == sg.newPrice)
		}
	}
	// in-flight marks: exactly the old ones plus what was just handed over
	for i := range sigs {
		_, marked := pending.Load(sigs[i].id)
		_, got := sent[sigs[i].id]
		vs.Assert("marked-in-flight-iff-handed-over-or-already-in-flight", marked == (sigs[i].pending || got))
	}
	vs.Reach("nothing-due", nSub == 0 && !prices.fail)
	vs.Reach("price-service-failed", prices.fail)
	vs.Reach("not-due-yet", anyNotDue)
	vs.Reach("due-but-cooling-down", anyCooling)
	vs.Reach("unavailable-held-back", anyHeld)
	if nSub == 0 {
		return
	}
	vs.Reach("submitted", true)
	vs.Reach("submitted-two-signals", len(sub.SignalPrices) >= 2)
	vs.Reach("submitted-first-price", anyFirst)
	vs.Reach("submitted-at-assigned-time", anyAssigned)
	vs.Reach("submitted-on-status-change", anyChanged)
	vs.Reach("submitted-on-deviation", anyDeviated)

	// ---- the chain: same state, any block time >= now - TimeBuffer, message timestamp within the discrepancy
	btSec := vs.I64("block_sec")
	btNsec := vs.I64("block_nsec")
	height := vs.I64("block_height")
	msgT := vs.I64("msg_timestamp")
	inRange := vs.And(vs.And(vs.And(btSec >= 0, btSec < c20Clock), vs.And(btNsec >= 0, btNsec < 1000000000)),
		vs.And(vs.And(height >= 3, height < c20Clock), vs.And(msgT >= -c20Clock, msgT < 2*c20Clock)))
	withinDiscrepancy := vs.And(msgT-btSec <= p.AllowableBlockTimeDiscrepancy, btSec-msgT <= p.AllowableBlockTimeDiscrepancy)
	vs.Assume(vs.And(btSec >= nowSec-c20SpecBuffer, vs.And(inRange, withinDiscrepancy)))
	ctx := env.Ctx.WithBlockTime(time.Unix(btSec, btNsec).UTC()).WithBlockHeight(height)
	msg := feeds.NewMsgSubmitSignalPrices(val.String(), msgT, sub.SignalPrices)
	vs.Assert("message-passes-validate-basic", msg.ValidateBasic() == nil)
	_, err := feedskeeper.NewMsgServerImpl(k).SubmitSignalPrices(ctx, msg)
	vs.Assert("chain-accepts-what-the-daemon-selected", err == nil)
	vs.Reach("accepted-at-the-edge-of-the-time-buffer", vs.And(err == nil, vs.And(anyEdgeOld, btSec == nowSec-c20SpecBuffer)))
}
