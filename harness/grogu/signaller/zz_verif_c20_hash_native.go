//go:build verif && !symgo

package signaller

import (
	"crypto/sha256"
	"encoding/binary"

	sdk "github.com/cosmos/cosmos-sdk/types"

	vs "github.com/bandprotocol/chain/v3/vsupport"
)

// verifHashWords: first digest word per hashed timestamp, as chosen by the solver for the uninterpreted sha256.
var verifHashWords = map[int64]uint64{}

func c20HashWord(val sdk.ValAddress, ts int64) uint64 {
	w := vs.U64("hash_word0")
	verifHashWords[ts] = w
	return w
}

// verifSum256 replaces sha256.Sum256 in utils.go for the replay build (sha.npatch): the real digest with its first
// eight bytes overridden when the harness registered a word for the timestamp at the end of the input.
func verifSum256(b []byte) [32]byte {
	h := sha256.Sum256(b)
	if len(b) >= 8 {
		if w, ok := verifHashWords[int64(binary.BigEndian.Uint64(b[len(b)-8:]))]; ok {
			binary.BigEndian.PutUint64(h[:8], w)
		}
	}
	return h
}
