//go:build verif

package signaller

import (
	"testing"

	"github.com/bandprotocol/chain/v3/vsupport"
)

func TestVerifReplay(t *testing.T) { vsupport.Replay(t) }
