//go:build verif

package signaller

import (
	"math/big"
	"time"

	sdk "github.com/cosmos/cosmos-sdk/types"

	bothan "github.com/bandprotocol/bothan/bothan-api/client/go-client/proto/bothan/v1"

	vs "github.com/bandprotocol/chain/v3/vsupport"
	"github.com/bandprotocol/chain/v3/vsupport/venv"
	feedskeeper "github.com/bandprotocol/chain/v3/x/feeds/keeper"
	feeds "github.com/bandprotocol/chain/v3/x/feeds/types"
	oracletypes "github.com/bandprotocol/chain/v3/x/oracle/types"
)

func init() {
	vs.RegisterHarness("VerifC20Deadline", VerifC20Deadline)
	vs.RegisterHarness("VerifC20Slot", VerifC20Slot)
	vs.RegisterHarness("VerifC20DeadlineLemma", VerifC20DeadlineLemma)
}

// verifAssignedTimeHook is the assume-guarantee seam of calculateAssignedTime (nil = the real function runs):
// VerifC20Slot proves its contract on the real code, VerifC20Deadline replaces it by an arbitrary function value
// satisfying that contract (the symbolic interval x symbolic hash-derived percentage product is out of reach of the
// bit-vector solver inside the larger deadline argument).
var verifAssignedTimeHook func(valAddr sdk.ValAddress, interval int64, timestamp int64, dpOffset uint64, dpStart uint64) time.Time

func c20Distribution() (uint64, uint64) {
	cfg := c20Distributions[0]
	if n := vs.Param("dp_configs"); n > 1 {
		cfg = c20Distributions[vs.Pick("distribution", n)]
	}
	return cfg[0], cfg[1]
}

// VerifC20Slot: the contract of the real calculateAssignedTime for every interval and stored timestamp, by cases on
// the hash-derived slot k = sha256(validator || timestamp)[0:8] mod offset (sha256 uninterpreted, so k is arbitrary):
//
//	assigned = ts + floor(interval*(start+k)/100) seconds, zero nanoseconds
//	ts + floor(interval*start/100) <= assigned <= ts + floor(interval*(start+offset-1)/100)
func VerifC20Slot() {
	verifAssignedTimeHook, verifIsDeviatedHook = nil, nil
	vs.HashBitVectors()
	val := venv.ValAddr(1)
	dpStart, dpOffset := c20Distribution()
	ts := vs.I64("old_time")
	interval := vs.I64("interval")
	vs.Assume(vs.And(vs.And(ts >= 0, ts < c20Clock), vs.And(interval > 0, interval < c20Clock)))

	// by cases on the reference slot number (sha256 uninterpreted: every value below the offset is explored)
	k := c20PickParallel("slot_bit", dpOffset)
	vs.Fix(c20HashWord(val, ts)%dpOffset, k)

	assigned := calculateAssignedTime(val, interval, ts, dpOffset, dpStart)
	share := interval * int64(dpStart+k) / 100
	lo := interval * int64(dpStart) / 100
	hi := interval * int64(dpStart+dpOffset-1) / 100
	vs.Assert("assigned-time-is-the-hash-selected-share-of-the-interval", assigned.Unix() == ts+share)
	vs.Assert("assigned-time-has-whole-seconds", assigned.Nanosecond() == 0)
	vs.Assert("slot-not-before-the-configured-window", lo <= share)
	vs.Assert("slot-not-after-the-configured-window", share <= hi)
	vs.Reach("slot-strictly-inside-window", vs.And(lo < share, share < hi))
	vs.Reach("first-slot", k == 0)
	vs.Reach("last-slot", k == dpOffset-1)
}

// distribution configurations (start %, offset %): [0] is the shipped default of cmd/grogu
var c20Distributions = [][2]uint64{{50, 30}, {0, 100}, {70, 10}, {99, 1}, {20, 55}}

// spec constants (the literal values the shipped daemon promises; NOT the constants of the code under test)
const (
	c20SpecBuffer  = int64(3)  // tolerated lag of the block time behind the daemon's clock, seconds
	c20SpecUrgency = int64(10) // an UNAVAILABLE price is sent in the last 10 seconds before the deadline
)

func c20Max(a, b int64) int64 { return vs.IteI64(a >= b, a, b) }

// VerifC20Deadline (H2): the real selection kernel (filterAndPrepareSignalPrices -> isPriceValid ->
// shouldUpdatePrice -> calculateAssignedTime, isNonUrgentUnavailablePrices) for ONE current feed with a stored
// price, every quantity symbolic (interval, cooldown, stored timestamp, clock incl. nanoseconds), sha256
// uninterpreted, against the real chain kernel CheckMissReport.
//
//	(slot contract, VerifC20Slot)   ts + floor(interval*start/100) <= assigned <= ts + floor(interval*(start+offset-1)/100)
//	selected-iff-due                the H1 rule, here for every interval
//	selected-from-due-time-on       for EVERY now >= due := max(assigned, ts+cooldown+3) (and, for an UNAVAILABLE
//	                                price, now > ts+interval-10) the signal is selected, whatever the price is
//	lands-before-the-deadline       CONFIGURATION ASSUMPTION  max(floor(interval*(start+offset-1)/100), cooldown+3) + P + L <= interval
//	                                (and P + L <= 10 for UNAVAILABLE prices), P = longest gap between two looks of the
//	                                daemon at the signal (poll period + query latency), L = longest delay from a look
//	                                to the block that executes the message, both in whole seconds, P >= 1:
//	                                the first look at or after the due time selects the signal, and any block
//	                                within [look-3, look+L] is before ts+interval, i.e. the real CheckMissReport is
//	                                false there even when every other bound (grace period, activation, heights) has
//	                                passed, and the block is past the cooldown.
func VerifC20Deadline() {
	vs.HashBitVectors()
	val := venv.ValAddr(1)
	dpStart, dpOffset := c20Distribution()

	ts := vs.I64("old_time")
	interval := vs.I64("interval")
	cooldown := vs.I64("cooldown")
	nowSec := vs.I64("now_sec")
	nowNsec := vs.I64("now_nsec")
	vs.Assume(vs.And(vs.And(vs.And(ts >= 0, ts < c20Clock), vs.And(interval > 0, interval < c20Clock)),
		vs.And(vs.And(cooldown >= 0, cooldown < 1<<32), vs.And(vs.And(nowSec >= 0, nowSec < 4*c20Clock), vs.And(nowNsec >= 0, nowNsec < 1000000000)))))
	now := time.Unix(nowSec, nowNsec)

	old := feeds.ValidatorPrice{
		SignalPriceStatus: feeds.SignalPriceStatus(vs.Int("old_status", 1, 3)),
		SignalID:          "AAA", Price: vs.U64("old_price"), Timestamp: ts, BlockHeight: 1,
	}
	bStatus := int32(vs.Int("bothan_status", 1, 3))
	bPrice := vs.U64("bothan_price")
	deviated := vs.Bool("deviated")
	verifIsDeviatedHook = func(bp int64, o uint64, n uint64) bool { return deviated }

	// ---- the slot: any value allowed by the contract of calculateAssignedTime (VerifC20Slot)
	assignedSec := vs.I64("assigned_sec")
	slotMin := ts + interval*int64(dpStart)/100
	slotMax := ts + interval*int64(dpStart+dpOffset-1)/100
	vs.Assume(vs.And(slotMin <= assignedSec, assignedSec <= slotMax))
	verifAssignedTimeHook = func(v sdk.ValAddress, iv int64, t int64, off uint64, start uint64) time.Time {
		vs.Assert("assigned-time-asked-for-this-validator-feed-interval-and-stored-timestamp",
			vs.And(vs.And(v.Equals(val), iv == interval), vs.And(t == ts, vs.And(off == dpOffset, start == dpStart))))
		return time.Unix(assignedSec, 0)
	}

	// ---- the reference rule (seconds)
	threshold := ts + cooldown + c20SpecBuffer
	cool := nowSec >= threshold
	dueSlot := nowSec >= assignedSec
	changed := int32(old.SignalPriceStatus) != bStatus
	held := vs.And(bStatus == 2, nowSec <= ts+interval-c20SpecUrgency)
	want := vs.And(vs.And(cool, vs.Or(dueSlot, vs.Or(changed, deviated))), !held)
	due := c20Max(assignedSec, threshold)
	dueU := vs.IteI64(bStatus == 2, c20Max(due, ts+interval-c20SpecUrgency+1), due)

	btSec := vs.I64("block_sec")
	vs.Assume(vs.And(btSec >= 0, btSec < 8*c20Clock))

	// ---- the real selection kernel
	s := &Signaller{
		logger:                       c20Logger(),
		valAddress:                   val,
		distributionStartPercentage:  dpStart,
		distributionOffsetPercentage: dpOffset,
		signalIDToFeed:               map[string]feeds.FeedWithDeviation{"AAA": feeds.NewFeedWithDeviation("AAA", 1, interval, 50)},
		signalIDToValidatorPrice:     map[string]feeds.ValidatorPrice{"AAA": old},
		params:                       &feeds.Params{CooldownTime: cooldown},
	}
	out := s.filterAndPrepareSignalPrices([]*bothan.Price{{SignalId: "AAA", Price: bPrice, Status: bothan.Status(bStatus)}}, []string{"AAA"}, now)
	selected := len(out) == 1

	vs.Assert("selected-iff-due", selected == want)
	vs.Assert("selected-from-due-time-on", vs.Implies(nowSec >= dueU, selected))
	vs.Reach("slot-at-window-start", vs.And(selected, assignedSec == slotMin))
	vs.Reach("slot-at-window-end", vs.And(selected, assignedSec == slotMax))
	vs.Reach("selected-exactly-at-due-time", vs.And(selected, vs.And(nowSec == dueU, vs.And(!changed, !deviated))))
	vs.Reach("not-selected-one-second-before-due-time", vs.And(!selected, nowSec == dueU-1))
	vs.Reach("unavailable-released-near-deadline", vs.And(selected, vs.And(bStatus == 2, nowSec == ts+interval-c20SpecUrgency+1)))

	// ---- the real chain kernel in its most adversarial setting: every other time/height bound has long passed
	// (no grace period left, activated long ago, heights far ahead), so that only the price timestamp protects
	// the validator. (VerifC15CheckMissReport decides the kernel for all settings.)
	miss := feedskeeper.CheckMissReport(feeds.NewFeed("AAA", 1, interval), 0, 0, old,
		feeds.NewValidatorInfo(val, 1, oracletypes.NewValidatorStatus(true, time.Unix(0, 0).UTC())),
		time.Unix(btSec, 0).UTC(), 16*c20Clock, 0)
	vs.Assert("no-miss-report-up-to-the-deadline", vs.Implies(btSec <= ts+interval, !miss))
	vs.Reach("miss-report-one-second-after-the-deadline", vs.And(miss, btSec == ts+interval+1))
}

// c20PickParallel: a concrete value in [0, n) chosen by a binary tree of forks (vs.Pick forks as a chain, which
// leaves one runnable path at a time).
func c20PickParallel(label string, n uint64) uint64 {
	k, bit := uint64(0), uint64(1)
	for bit < n {
		bit <<= 1
	}
	for bit >>= 1; bit > 0; bit >>= 1 {
		if k+bit < n && vs.Bool(label) {
			k += bit
		}
	}
	return k
}

func c20Big(x int64) *big.Int { return big.NewInt(x) }

func c20BigMax(a, b *big.Int) *big.Int { return vs.IteBig(a.Cmp(b) >= 0, a, b) }

// VerifC20DeadlineLemma: the composition step of H2 over mathematical integers (no machine arithmetic, so the
// solver works in linear integer arithmetic). It composes three facts that are decided on the real code elsewhere:
//
//	(slot)    ts + floor(interval*start/100) <= assigned <= ts + floor(interval*(start+offset-1)/100)   VerifC20Slot
//	(rule)    the signal is selected at every look at or after dueU                                      VerifC20Deadline
//	(chain)   CheckMissReport is false at every block time <= ts + interval; the handler accepts from
//	          ts + cooldown on                                                                           VerifC20Deadline, C15, VerifC20Admission
//
// CONFIGURATION ASSUMPTION  max(floor(interval*(start+offset-1)/100), cooldown+3) + P + L <= interval, P >= 1, L >= 0
// (and P + L <= 10 for an UNAVAILABLE price): P = longest gap between two looks of the daemon at the signal (poll
// period + query latency), L = longest delay from a look to the block executing the message, whole seconds.
// Then the first look at or after the due time (now in [dueU, dueU+P)) and any block time in [now-3, now+L] give
// ts + cooldown <= block time <= ts + interval.
func VerifC20DeadlineLemma() {
	dpStart, dpOffset := c20Distribution()
	ts, interval, cooldown := vs.BigU("old_time", 40), vs.BigU("interval", 40), vs.BigU("cooldown", 32)
	assigned, now, bt := vs.BigU("assigned_sec", 48), vs.BigU("now_sec", 48), vs.BigU("block_sec", 48)
	pollGap, latency := vs.BigU("poll_gap_seconds", 40), vs.BigU("landing_latency_seconds", 40)
	unavailable := vs.Bool("new_price_unavailable")
	vs.Assume(interval.Sign() > 0)

	share := func(pct uint64) *big.Int {
		return new(big.Int).Quo(new(big.Int).Mul(interval, c20Big(int64(pct))), c20Big(100))
	}
	slotMin := new(big.Int).Add(ts, share(dpStart))
	slotBound := share(dpStart + dpOffset - 1)
	slotMax := new(big.Int).Add(ts, slotBound)
	vs.Assume(vs.And(slotMin.Cmp(assigned) <= 0, assigned.Cmp(slotMax) <= 0)) // (slot)

	threshold := new(big.Int).Add(ts, new(big.Int).Add(cooldown, c20Big(c20SpecBuffer)))
	deadline := new(big.Int).Add(ts, interval)
	due := c20BigMax(assigned, threshold)
	release := new(big.Int).Add(deadline, c20Big(1-c20SpecUrgency)) // first second an UNAVAILABLE price is let through
	dueU := vs.IteBig(unavailable, c20BigMax(due, release), due)

	budget := new(big.Int).Add(c20BigMax(slotBound, new(big.Int).Add(cooldown, c20Big(c20SpecBuffer))), new(big.Int).Add(pollGap, latency))
	config := vs.And(pollGap.Sign() > 0, budget.Cmp(interval) <= 0)
	config = vs.And(config, vs.Implies(unavailable, new(big.Int).Add(pollGap, latency).Cmp(c20Big(c20SpecUrgency)) <= 0))
	firstLook := vs.And(now.Cmp(dueU) >= 0, now.Cmp(new(big.Int).Add(dueU, pollGap)) < 0)
	landing := vs.And(new(big.Int).Add(bt, c20Big(c20SpecBuffer)).Cmp(now) >= 0, bt.Cmp(new(big.Int).Add(now, latency)) <= 0)
	scenario := vs.And(config, vs.And(firstLook, landing))

	vs.Assert("lands-before-the-deadline", vs.Implies(scenario, bt.Cmp(deadline) <= 0))
	vs.Assert("lands-after-the-cooldown", vs.Implies(scenario, bt.Cmp(new(big.Int).Add(ts, cooldown)) >= 0))
	vs.Reach("scenario-possible", scenario)
	vs.Reach("scenario-lands-in-the-last-second", vs.And(scenario, bt.Cmp(deadline) == 0))
	vs.Reach("scenario-with-unavailable-price", vs.And(scenario, unavailable))
	// the assumption is needed (up to one second): with budget = interval + 2 the block can come after the deadline
	tooSlow := vs.And(vs.And(firstLook, landing), vs.And(pollGap.Sign() > 0, budget.Cmp(new(big.Int).Add(interval, c20Big(2))) == 0))
	vs.Reach("late-when-the-configuration-assumption-fails", vs.And(tooSlow, bt.Cmp(deadline) > 0))
}

func c20NonNeg(label string) int64 {
	x := vs.I64(label)
	vs.Assume(vs.And(x >= 0, x < c20Clock))
	return x
}
