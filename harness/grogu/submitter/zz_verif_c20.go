//go:build verif

package submitter

import (
	"errors"
	"strings"
	"sync"
	"time"

	"github.com/cosmos/cosmos-sdk/client"
	"github.com/cosmos/cosmos-sdk/crypto/keyring"
	sdk "github.com/cosmos/cosmos-sdk/types"

	bothan "github.com/bandprotocol/bothan/bothan-api/client/go-client/proto/bothan/v1"

	"github.com/bandprotocol/chain/v3/pkg/logger"
	vs "github.com/bandprotocol/chain/v3/vsupport"
	"github.com/bandprotocol/chain/v3/vsupport/venv"
	feeds "github.com/bandprotocol/chain/v3/x/feeds/types"
)

func init() {
	vs.RegisterHarness("VerifC20SubmitPrice", VerifC20SubmitPrice)
}

// verifBroadcastHook is the seam of (*Submitter).broadcastMsg (keyring signing, gas simulation, RPC broadcast):
// engine/sym/models_grogu.go redirects the call symbolically, broadcast.npatch natively. nil = the real method.
var verifBroadcastHook func(s *Submitter, key *keyring.Record, msgs []sdk.Msg, gasAdjustment float64, memo string) (*sdk.TxResponse, error)

// ---- fakes (also used by the in-flight harness of package signaller through the exported helpers below)

// verifKeyring: only Key is used by submitPrice.
type verifKeyring struct {
	keyring.Keyring
	fail bool
}

func (k verifKeyring) Key(uid string) (*keyring.Record, error) {
	if k.fail {
		return nil, errors.New("key not found")
	}
	return &keyring.Record{Name: uid}, nil
}

// VerifOutcome is the environment of one submitter: arbitrary broadcast / tx-query / monitoring results, and a
// log of what the submitter did.
type VerifOutcome struct {
	Broadcasts  []VerifBroadcast
	TxQueries   int
	InfoCalls   int
	Pushes      [][2]string
	OutOfGas    int  // out-of-gas answers so far (broadcast or finalised)
	Succeeded   bool // some finalised tx had code 0
	FoundSome   bool // some tx query found the tx
	GasMismatch bool
	Narrow      bool // fewer outcome kinds (success / failure only), for harnesses that study interleavings
}

type VerifBroadcast struct {
	KeyName string
	Msgs    []sdk.Msg
	Gas     float64
	Memo    string
}

// arbitrary tx result: code 0, out of gas (sdk/11), another sdk code, or a module error code
func verifTxResponse(o *VerifOutcome, hash string) *sdk.TxResponse {
	if o.Narrow {
		if vs.Bool("tx_ok") {
			return &sdk.TxResponse{TxHash: hash, Code: 0}
		}
		return &sdk.TxResponse{TxHash: hash, Codespace: "sdk", Code: 5}
	}
	switch vs.Pick("tx_result", 4) {
	case 0:
		return &sdk.TxResponse{TxHash: hash, Code: 0}
	case 1:
		o.OutOfGas++
		return &sdk.TxResponse{TxHash: hash, Codespace: "sdk", Code: 11}
	case 2:
		return &sdk.TxResponse{TxHash: hash, Codespace: "sdk", Code: 5}
	}
	return &sdk.TxResponse{TxHash: hash, Codespace: "feeds", Code: 11} // same number, other codespace: not out of gas
}

func (o *VerifOutcome) broadcast(s *Submitter, key *keyring.Record, msgs []sdk.Msg, gasAdjustment float64, memo string) (*sdk.TxResponse, error) {
	// the gas adjustment starts at 1.3 and grows by 0.1 per out-of-gas answer
	want := 1.3
	for i := 0; i < o.OutOfGas; i++ {
		want += 0.1
	}
	if gasAdjustment != want {
		o.GasMismatch = true
	}
	o.Broadcasts = append(o.Broadcasts, VerifBroadcast{KeyName: key.Name, Msgs: msgs, Gas: gasAdjustment, Memo: memo})
	if vs.Bool("broadcast_fails") {
		return nil, errors.New("broadcast failed")
	}
	return verifTxResponse(o, "HASH"), nil
}

// QueryTx (TxQuerier): not found yet / found with an arbitrary result
func (o *VerifOutcome) QueryTx(hash string) (*sdk.TxResponse, error) {
	o.TxQueries++
	if vs.Bool("tx_not_found") {
		return nil, errors.New("tx not found")
	}
	o.FoundSome = true
	r := verifTxResponse(o, hash)
	if r.Code == 0 {
		o.Succeeded = true
	}
	return r, nil
}

// BothanClient
func (o *VerifOutcome) GetInfo() (*bothan.GetInfoResponse, error) {
	o.InfoCalls++
	if o.Narrow || vs.Bool("bothan_info_fails") {
		return nil, errors.New("bothan down")
	}
	return &bothan.GetInfoResponse{MonitoringEnabled: vs.Bool("monitoring_enabled")}, nil
}
func (o *VerifOutcome) UpdateRegistry(ipfsHash, version string) error { return nil }
func (o *VerifOutcome) PushMonitoringRecords(uuid, txHash string) error {
	o.Pushes = append(o.Pushes, [2]string{uuid, txHash})
	if vs.Bool("push_fails") {
		return errors.New("push failed")
	}
	return nil
}
func (o *VerifOutcome) GetPrices(signalIDs []string) (*bothan.GetPricesResponse, error) {
	return nil, errors.New("unused")
}

// VerifNewSubmitter builds a Submitter around the fakes (the struct literal of New without the keyring listing);
// every key name in keys is idle.
func VerifNewSubmitter(val sdk.ValAddress, pending *sync.Map, ch <-chan SignalPriceSubmission, keys []string,
	keyFails bool, maxTry uint64, timeout, poll time.Duration, o *VerifOutcome) *Submitter {
	idle := make(chan string, len(keys))
	for _, k := range keys {
		idle <- k
	}
	verifBroadcastHook = o.broadcast
	return &Submitter{
		clientCtx:           client.Context{Keyring: verifKeyring{fail: keyFails}},
		bothanClient:        o,
		logger:              logger.NewLogger(func(key, level string) bool { return true }),
		submitSignalPriceCh: ch,
		txQuerier:           o,
		valAddress:          val,
		pendingSignalIDs:    pending,
		broadcastTimeout:    timeout,
		broadcastMaxTry:     maxTry,
		pollingInterval:     poll,
		idleKeyIDChannel:    idle,
	}
}

// VerifSubmitPrice runs the real submitPrice (what the goroutine started by Start does).
func (s *Submitter) VerifSubmitPrice(sub SignalPriceSubmission, keyID string) { s.submitPrice(sub, keyID) }

// VerifIdleKeys drains and returns the idle key names (and puts them back).
func (s *Submitter) VerifIdleKeys() []string {
	var ks []string
	for len(s.idleKeyIDChannel) > 0 {
		ks = append(ks, <-s.idleKeyIDChannel)
	}
	for _, k := range ks {
		s.idleKeyIDChannel <- k
	}
	return ks
}

// VerifTakeIdleKey is the `keyID := <-s.idleKeyIDChannel` of Start when a key is idle.
func (s *Submitter) VerifTakeIdleKey() (string, bool) {
	if len(s.idleKeyIDChannel) == 0 {
		return "", false
	}
	return <-s.idleKeyIDChannel, true
}

// VerifC20SubmitPrice (H3): the real submitPrice for a submission of one or two signals that are marked in flight
// (plus an unrelated marked signal), with a key taken from the idle pool, under every outcome of key lookup,
// broadcast (error / code 0 / out of gas / other code), tx query (not found until the timeout / any code),
// monitoring push, and an arbitrary non-decreasing wall clock.
//
//	marks-cleared            afterwards no signal of the submission is marked, the unrelated one still is
//	key-returned             the key is back in the idle pool, exactly once
//	at-most-max-try          at most broadcastMaxTry broadcasts; none after a finalised success
//	message                  every broadcast carries exactly one MsgSubmitSignalPrices of this validator with the
//	                         submitted prices, stamped with the clock reading at the start; it passes ValidateBasic
//	gas                      gas adjustment 1.3 + 0.1 per out-of-gas answer (same codespace AND code)
//	monitoring               records are pushed iff the tx finalised with code 0, bothan answers and monitoring is on
func VerifC20SubmitPrice() {
	vs.AllowClock()
	vs.ClockSteps(3600)
	val := venv.ValAddr(1)
	maxTry := uint64(vs.Param("max_try"))
	poll := time.Second
	timeout := time.Duration(vs.Param("timeout_polls")) * poll

	prices := []feeds.SignalPrice{feeds.NewSignalPrice(feeds.SIGNAL_PRICE_STATUS_AVAILABLE, "AAA", vs.U64("price_a"))}
	if vs.Bool("two_signals") {
		prices = append(prices, feeds.NewSignalPrice(feeds.SIGNAL_PRICE_STATUS_UNAVAILABLE, "BBB", 0))
	}
	sub := SignalPriceSubmission{SignalPrices: prices, UUID: "uuid-7"}

	pending := &sync.Map{}
	for _, p := range prices { // marked by the signaller before the hand-off
		pending.Store(p.SignalID, struct{}{})
	}
	pending.Store("ZZZ", struct{}{}) // another submission in flight

	o := &VerifOutcome{}
	ch := make(chan SignalPriceSubmission, 1)
	s := VerifNewSubmitter(val, pending, ch, []string{"key1", "key2"}, vs.Bool("key_lookup_fails"), maxTry, timeout, poll, o)
	keyID, _ := s.VerifTakeIdleKey()

	start := vs.Now()
	s.submitPrice(sub, keyID)

	// ---- bookkeeping
	for _, p := range prices {
		_, marked := pending.Load(p.SignalID)
		vs.Assert("marks-cleared", !marked)
	}
	_, other := pending.Load("ZZZ")
	vs.Assert("unrelated-mark-kept", other)
	idle := s.VerifIdleKeys()
	vs.Assert("key-returned-exactly-once", len(idle) == 2 && idle[0] == "key2" && idle[1] == "key1")

	// ---- attempts
	vs.Assert("at-most-max-try-broadcasts", uint64(len(o.Broadcasts)) <= maxTry)
	vs.Assert("gas-adjustment-follows-out-of-gas-answers", !o.GasMismatch)
	for _, b := range o.Broadcasts {
		vs.Assert("broadcast-signed-with-the-taken-key", b.KeyName == keyID)
		vs.Assert("memo-carries-the-uuid", strings.Contains(b.Memo, "uuid: uuid-7"))
		ok := len(b.Msgs) == 1
		vs.Assert("one-message-per-broadcast", ok)
		if !ok {
			continue
		}
		m, isSubmit := b.Msgs[0].(*feeds.MsgSubmitSignalPrices)
		vs.Assert("message-is-submit-signal-prices", isSubmit)
		if !isSubmit {
			continue
		}
		vs.Assert("message-of-this-validator", m.Validator == val.String())
		vs.Assert("message-stamped-with-a-clock-reading-not-before-the-start", m.Timestamp >= start.Unix())
		vs.Assert("message-carries-the-submitted-prices", len(m.SignalPrices) == len(prices))
		for i := range m.SignalPrices {
			if i < len(prices) {
				vs.Assert("message-carries-the-submitted-prices", m.SignalPrices[i] == prices[i])
			}
		}
		vs.Assert("message-passes-validate-basic", m.ValidateBasic() == nil)
	}
	// ---- monitoring
	vs.Assert("bothan-info-asked-iff-finalised-success", (o.InfoCalls == 1) == o.Succeeded && o.InfoCalls <= 1)
	vs.Assert("at-most-one-push", len(o.Pushes) <= 1)
	if len(o.Pushes) == 1 {
		vs.Assert("push-carries-uuid-and-hash", o.Pushes[0][0] == "uuid-7" && o.Pushes[0][1] == "HASH")
		vs.Assert("push-only-after-success", o.Succeeded)
	}

	vs.Reach("key-lookup-failed", len(o.Broadcasts) == 0)
	vs.Reach("succeeded-first-try", o.Succeeded && len(o.Broadcasts) == 1)
	vs.Reach("succeeded-after-retry", o.Succeeded && len(o.Broadcasts) >= 2)
	vs.Reach("gave-up-after-max-try", !o.Succeeded && uint64(len(o.Broadcasts)) == maxTry)
	vs.Reach("retried-after-out-of-gas", o.OutOfGas > 0 && len(o.Broadcasts) >= 2)
	vs.Reach("tx-query-timed-out", !o.FoundSome && o.TxQueries >= 2)
	vs.Reach("records-pushed", len(o.Pushes) == 1)
}
