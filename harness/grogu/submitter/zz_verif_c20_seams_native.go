//go:build verif && !symgo

package submitter

import (
	"time"

	vs "github.com/bandprotocol/chain/v3/vsupport"
)

// Native-replay seams of the wall clock (now.npatch / since.npatch / sleep.npatch route the submitter's
// time.Now / time.Since / time.Sleep here; the symbolic run models the time package itself).
func verifNow() time.Time { return vs.Now() }

func verifSleep(d time.Duration) { vs.Sleep(d) }
