//go:build verif

package de

import (
	"bytes"

	"github.com/bandprotocol/chain/v3/pkg/tss"
	vs "github.com/bandprotocol/chain/v3/vsupport"
	"github.com/bandprotocol/chain/v3/x/tss/types"
)

func init() { vs.RegisterHarness("VerifC05GenerateDEs", VerifC05GenerateDEs) }

// c05Store is the signer's DE store seen by GenerateDEs: for every freshly generated pair it answers, arbitrarily,
// whether that pair is already registered (i.e. still in the store from an earlier submission).
type c05Store struct {
	asked   []types.DE
	present []bool
}

func (s *c05Store) HasDE(de types.DE) bool {
	p := vs.Bool("pair_already_registered")
	s.asked = append(s.asked, de)
	s.present = append(s.present, p)
	return p
}

// VerifC05GenerateDEs (signer side of "a nonce pair is registered and used once"): whatever the entropy source
// returns and whichever generated pairs collide with pairs already in the signer's store, GenerateDEs returns
// exactly n pairs none of which the store reported as registered, each with the private nonces of its public
// pair, or an error exactly when MaxDuplicateDEAttempts collisions happened first.
func VerifC05GenerateDEs() {
	vs.AssumeHashScalars()
	tss.VerifUseTapeRandomness()
	n := uint64(vs.Pick("n", vs.Param("max_n")+1))
	secret := tss.Scalar(vs.ScalarBytes("secret"))
	st := &c05Store{}

	des, err := GenerateDEs(n, secret, st)

	collisions := 0
	for _, p := range st.present {
		if p {
			collisions++
		}
	}
	vs.Assert("error-iff-too-many-collisions", (err != nil) == (collisions >= MaxDuplicateDEAttempts))
	if err != nil {
		vs.Reach("gave-up", true)
		return
	}
	vs.Assert("returns-exactly-n-pairs", uint64(len(des)) == n)
	// the returned pairs are exactly the generated pairs the store did not report as registered, in order:
	// a pair reported as registered is dropped and generated again
	k := 0
	for i, a := range st.asked {
		if st.present[i] {
			continue
		}
		if k < len(des) {
			same := bytes.Equal(a.PubD, des[k].PubDE.PubD) && bytes.Equal(a.PubE, des[k].PubDE.PubE)
			vs.Assert("returned-pairs-are-the-unregistered-generated-pairs", same)
		}
		k++
	}
	vs.Assert("every-unregistered-pair-returned-and-nothing-else", k == len(des))
	for _, d := range des {
		vs.Assert("private-nonces-match-public-pair", bytes.Equal(d.PrivD.Point(), d.PubDE.PubD) && bytes.Equal(d.PrivE.Point(), d.PubDE.PubE))
	}
	vs.Reach("generated", n > 0)
	vs.Reach("generated-after-a-collision", n > 0 && collisions > 0)
}
