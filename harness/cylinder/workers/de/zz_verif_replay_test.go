//go:build verif

package de

import (
	"testing"

	"github.com/bandprotocol/chain/v3/vsupport"
)

func TestVerifReplay(t *testing.T) { vsupport.Replay(t) }
