package smt

import (
	"math/big"
	"testing"
)

func TestIntervalAndDivisibilityFolding(t *testing.T) {
	c := NewCtx()
	x := c.BV2Int(c.Var("x", BV(64)))
	y := c.BV2Int(c.Var("y", BV(64)))
	p := c.IntConst(new(big.Int).Exp(big.NewInt(10), big.NewInt(18), nil))
	k := c.IntConst(new(big.Int).Lsh(big.NewInt(1), 80))

	// LegacyDec chain at exchange rate 1: ((x*P)*K*P) quo (K*P) == x*P
	sh := c.Mul(x, p)
	num := c.Mul(c.Mul(sh, k), p)
	den := c.Mul(k, p)
	if got := c.Quo(num, den); got != sh {
		t.Fatalf("rate-1 chain not folded: %s", c.String(got))
	}
	// RoundInt: quotient and remainder of a sum of whole-number decimals
	sum := c.Add(c.Mul(x, p), c.Mul(y, p))
	if got := c.Quo(sum, p); got != c.Add(x, y) {
		t.Fatalf("sum quotient: %s", c.String(got))
	}
	if got := c.Rem(sum, p); !got.IsConst() || got.Val.Sign() != 0 {
		t.Fatalf("sum remainder: %s", c.String(got))
	}
	// sign and range tests decided by intervals
	if !c.Lt(sum, c.IntI(0)).IsFalse() {
		t.Fatal("sum < 0 not folded")
	}
	big256 := c.IntConst(new(big.Int).Lsh(big.NewInt(1), 256))
	if !c.Le(big256, sum).IsFalse() || !c.Eq(sum, big256).IsFalse() {
		t.Fatal("range test not folded")
	}
	// undecided comparisons stay symbolic
	if c.Lt(x, y).IsConst() || c.Le(x, c.IntI(5)).IsConst() {
		t.Fatal("folded an undecided comparison")
	}
	// (x*6) div 4 is not exact: must not fold to a multiple; (x*6) div 12 = x div 2
	if got := c.Div(c.Mul(x, c.IntI(6)), c.IntI(4)); got.Op != ODiv {
		t.Fatalf("inexact division folded: %s", c.String(got))
	}
	if got := c.Div(c.Mul(x, c.IntI(6)), c.IntI(12)); got != c.Div(x, c.IntI(2)) {
		t.Fatalf("common factor: %s", c.String(got))
	}
	// signed source may be negative
	s := c.BV2IntSigned(c.Var("s", BV(64)))
	if c.Lt(s, c.IntI(0)).IsConst() {
		t.Fatal("signed value folded")
	}
}
