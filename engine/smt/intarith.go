package smt

import "math/big"

// Syntactic reasoning about Int terms: value intervals and divisibility by a constant. Used by the constructors in
// term.go to fold comparisons, exact divisions and remainders that are decided by the shape of the term alone
// (fixed-point arithmetic such as sdkmath.LegacyDec produces long chains x*10^18*k/(k*10^18) over bit-vector
// derived integers; without folding every sign / range / remainder test becomes a solver query over wide
// non-bit-vector arithmetic).

type ival struct{ lo, hi *big.Int } // nil = unbounded on that side

func (c *Ctx) bounds(t *Term) ival {
	if t.Op == OConst {
		return ival{t.Val, t.Val}
	}
	if c.ivals == nil {
		c.ivals = map[int]ival{}
	}
	if v, ok := c.ivals[t.ID]; ok {
		return v
	}
	v := c.bounds1(t)
	c.ivals[t.ID] = v
	return v
}

func addB(a, b *big.Int) *big.Int {
	if a == nil || b == nil {
		return nil
	}
	return new(big.Int).Add(a, b)
}

func negB(a *big.Int) *big.Int {
	if a == nil {
		return nil
	}
	return new(big.Int).Neg(a)
}

func minB(a, b *big.Int) *big.Int {
	if a == nil || b == nil {
		return nil
	}
	if a.Cmp(b) <= 0 {
		return a
	}
	return b
}

func maxB(a, b *big.Int) *big.Int {
	if a == nil || b == nil {
		return nil
	}
	if a.Cmp(b) >= 0 {
		return a
	}
	return b
}

func (c *Ctx) bounds1(t *Term) ival {
	if t.Sort.K != KInt {
		return ival{}
	}
	switch t.Op {
	case OBV2Int:
		return ival{new(big.Int), mask(t.Args[0].Sort.W)}
	case OBV2IntS:
		w := t.Args[0].Sort.W
		half := new(big.Int).Lsh(bigOne, uint(w-1))
		return ival{new(big.Int).Neg(half), new(big.Int).Sub(half, bigOne)}
	case OAdd:
		x, y := c.bounds(t.Args[0]), c.bounds(t.Args[1])
		return ival{addB(x.lo, y.lo), addB(x.hi, y.hi)}
	case OSub:
		x, y := c.bounds(t.Args[0]), c.bounds(t.Args[1])
		return ival{addB(x.lo, negB(y.hi)), addB(x.hi, negB(y.lo))}
	case ONeg:
		x := c.bounds(t.Args[0])
		return ival{negB(x.hi), negB(x.lo)}
	case OMul:
		if !t.Args[1].IsConst() {
			return ival{}
		}
		k := t.Args[1].Val
		x := c.bounds(t.Args[0])
		mul := func(a *big.Int) *big.Int {
			if a == nil {
				return nil
			}
			return new(big.Int).Mul(a, k)
		}
		if k.Sign() >= 0 {
			return ival{mul(x.lo), mul(x.hi)}
		}
		return ival{mul(x.hi), mul(x.lo)}
	case ODiv:
		// Euclidean division by a positive constant is the (monotone) floor division
		if !t.Args[1].IsConst() || t.Args[1].Val.Sign() <= 0 {
			return ival{}
		}
		k := t.Args[1].Val
		x := c.bounds(t.Args[0])
		div := func(a *big.Int) *big.Int {
			if a == nil {
				return nil
			}
			return new(big.Int).Div(a, k)
		}
		return ival{div(x.lo), div(x.hi)}
	case OMod:
		if !t.Args[1].IsConst() || t.Args[1].Val.Sign() == 0 {
			return ival{}
		}
		k := new(big.Int).Abs(t.Args[1].Val)
		return ival{new(big.Int), k.Sub(k, bigOne)}
	case OIte:
		x, y := c.bounds(t.Args[1]), c.bounds(t.Args[2])
		return ival{minB(x.lo, y.lo), maxB(x.hi, y.hi)}
	}
	return ival{}
}

// cmpByBounds decides a < b (strict) or a <= b from the intervals: 1 = always true, 0 = always false, -1 = unknown.
func (c *Ctx) cmpByBounds(a, b *Term, strict bool) int {
	x, y := c.bounds(a), c.bounds(b)
	if x.hi != nil && y.lo != nil {
		if d := x.hi.Cmp(y.lo); d < 0 || (!strict && d == 0) {
			return 1
		}
	}
	if x.lo != nil && y.hi != nil {
		if d := x.lo.Cmp(y.hi); d > 0 || (strict && d == 0) {
			return 0
		}
	}
	return -1
}

// divisibleBy: t is syntactically a multiple of k (k != 0).
func (c *Ctx) divisibleBy(t *Term, k *big.Int, depth int) bool {
	if depth > 16 {
		return false
	}
	switch t.Op {
	case OConst:
		return new(big.Int).Rem(t.Val, k).Sign() == 0
	case OMul:
		if t.Args[1].IsConst() && new(big.Int).Rem(t.Args[1].Val, k).Sign() == 0 {
			return true
		}
		return c.divisibleBy(t.Args[0], k, depth+1) || c.divisibleBy(t.Args[1], k, depth+1)
	case OAdd, OSub:
		return c.divisibleBy(t.Args[0], k, depth+1) && c.divisibleBy(t.Args[1], k, depth+1)
	case ONeg:
		return c.divisibleBy(t.Args[0], k, depth+1)
	case OIte:
		return c.divisibleBy(t.Args[1], k, depth+1) && c.divisibleBy(t.Args[2], k, depth+1)
	}
	return false
}

// divExact returns t/k for a term accepted by divisibleBy(t,k).
func (c *Ctx) divExact(t *Term, k *big.Int) *Term {
	switch t.Op {
	case OConst:
		return c.IntConst(new(big.Int).Quo(t.Val, k))
	case OMul:
		if t.Args[1].IsConst() && new(big.Int).Rem(t.Args[1].Val, k).Sign() == 0 {
			return c.Mul(t.Args[0], c.IntConst(new(big.Int).Quo(t.Args[1].Val, k)))
		}
		if c.divisibleBy(t.Args[0], k, 1) {
			return c.Mul(c.divExact(t.Args[0], k), t.Args[1])
		}
		return c.Mul(t.Args[0], c.divExact(t.Args[1], k))
	case OAdd:
		return c.Add(c.divExact(t.Args[0], k), c.divExact(t.Args[1], k))
	case OSub:
		return c.Sub(c.divExact(t.Args[0], k), c.divExact(t.Args[1], k))
	case ONeg:
		return c.Neg(c.divExact(t.Args[0], k))
	case OIte:
		return c.Ite(t.Args[0], c.divExact(t.Args[1], k), c.divExact(t.Args[2], k))
	}
	panic("smt: divExact on a term that is not syntactically divisible")
}

// simplifyDivMod folds (a div k) and (a mod k) for a non-zero constant k when a is a syntactic multiple of k, and
// cancels a common positive constant factor: (x*c) div (c*m) = x div m for c > 0, m > 0.
func (c *Ctx) simplifyDivMod(op Op, a, b *Term) *Term {
	if !b.IsConst() || b.Val.Sign() == 0 {
		return nil
	}
	k := b.Val
	if c.divisibleBy(a, k, 0) {
		if op == OMod {
			return c.IntI(0)
		}
		return c.divExact(a, k)
	}
	if op == ODiv && k.Sign() > 0 && a.Op == OMul && a.Args[1].IsConst() && a.Args[1].Val.Sign() > 0 {
		f := a.Args[1].Val
		if new(big.Int).Rem(k, f).Sign() == 0 {
			return c.Div(a.Args[0], c.IntConst(new(big.Int).Quo(k, f)))
		}
	}
	return nil
}
