package smt
import "testing"
func TestSeg(t *testing.T){
 c:=NewCtx(); x:=c.Var("x",BV(64))
 // bytes big endian
 var b [8]*Term
 for i:=0;i<8;i++{ b[i]=c.Extract(x,63-8*i,56-8*i)}
 // uint64(b[7]) | uint64(b[6])<<8 ...
 var r *Term
 for i:=0;i<8;i++{
   z:=c.Zext(b[7-i],64)
   sh:=c.BVShl(z,c.BVU(uint64(8*i),64))
   if r==nil {r=sh} else {r=c.BVOr(r,sh)}
 }
 if r!=x { t.Fatalf("got %s", c.String(r)) }
 // lshr then truncate
 y:=c.Extract(c.BVLshr(x,c.BVU(56,64)),7,0)
 if y!=b[0] {t.Fatalf("lshr %s",c.String(y))}
}
