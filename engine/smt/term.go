// Package smt is a small hash-consed term DAG (Bool / BitVec / Int / UF) with a
// constant-folding simplifier and an SMT-LIB2 printer.
package smt

import (
	"fmt"
	"math/big"
	"strings"
)

type Kind uint8

const (
	KBool Kind = iota
	KBV
	KInt
)

type Sort struct {
	K Kind
	W int
}

var Bool = Sort{KBool, 0}
var Int = Sort{KInt, 0}

func BV(w int) Sort { return Sort{KBV, w} }

func (s Sort) String() string {
	switch s.K {
	case KBool:
		return "Bool"
	case KInt:
		return "Int"
	}
	return fmt.Sprintf("(_ BitVec %d)", s.W)
}

type Op uint8

const (
	OConst Op = iota
	OVar
	ONot
	OAnd
	OOr
	OIte
	OEq
	OBVAdd
	OBVSub
	OBVMul
	OBVUDiv
	OBVURem
	OBVSDiv
	OBVSRem
	OBVAnd
	OBVOr
	OBVXor
	OBVNot
	OBVNeg
	OBVShl
	OBVLshr
	OBVAshr
	OBVUlt
	OBVUle
	OBVSlt
	OBVSle
	OConcat
	OExtract
	OZext
	OSext
	OAdd
	OSub
	OMul
	ODiv // SMT div (floor for positive divisor; euclidean)
	OMod // SMT mod (euclidean)
	ONeg
	OLt
	OLe
	OBV2Int  // unsigned
	OBV2IntS // signed (two's complement)
	OInt2BV
	OApp
)

var opNames = map[Op]string{
	ONot: "not", OAnd: "and", OOr: "or", OIte: "ite", OEq: "=",
	OBVAdd: "bvadd", OBVSub: "bvsub", OBVMul: "bvmul", OBVUDiv: "bvudiv", OBVURem: "bvurem",
	OBVSDiv: "bvsdiv", OBVSRem: "bvsrem", OBVAnd: "bvand", OBVOr: "bvor", OBVXor: "bvxor",
	OBVNot: "bvnot", OBVNeg: "bvneg", OBVShl: "bvshl", OBVLshr: "bvlshr", OBVAshr: "bvashr",
	OBVUlt: "bvult", OBVUle: "bvule", OBVSlt: "bvslt", OBVSle: "bvsle", OConcat: "concat",
	OAdd: "+", OSub: "-", OMul: "*", ODiv: "div", OMod: "mod", ONeg: "-", OLt: "<", OLe: "<=",
	OBV2Int: "bv2nat",
}

type Term struct {
	ID   int
	Op   Op
	Sort Sort
	Args []*Term
	Val  *big.Int // OConst
	Name string   // OVar, OApp
	P1   int      // extract hi / ext amount / int2bv width
	P2   int      // extract lo
}

type key struct {
	op         Op
	k          Kind
	w          int
	a0, a1, a2 int
	p1, p2     int
	name       string
}

// Ctx owns a term table. Not safe for concurrent use.
type Ctx struct {
	tab    map[key]*Term
	Terms  []*Term
	nvar   int
	True   *Term
	False  *Term
	UFs    map[string]*UFDecl
	UFList []*UFDecl
	ivals  map[int]ival // intarith.go: memoised syntactic intervals of Int terms
	NoLift bool         // per-context switch: see liftPair
	// RangeHint: Int terms q for which int2bv(q) appears in unsigned comparisons with q expected in [0, 2^w)
	// (quotients of math/bits.Div64 ...): see bvcmp
	RangeHint map[*Term]bool
}

type UFDecl struct {
	Name string
	Args []Sort
	Ret  Sort
}

func NewCtx() *Ctx {
	c := &Ctx{tab: map[key]*Term{}, UFs: map[string]*UFDecl{}}
	c.True = c.BoolConst(true)
	c.False = c.BoolConst(false)
	return c
}

func (c *Ctx) mk(op Op, s Sort, args []*Term, val *big.Int, name string, p1, p2 int) *Term {
	k := key{op: op, k: s.K, w: s.W, a0: -1, a1: -1, a2: -1, p1: p1, p2: p2, name: name}
	if val != nil {
		k.name = val.Text(16)
	}
	switch len(args) {
	case 0:
	case 1:
		k.a0 = args[0].ID
	case 2:
		k.a0, k.a1 = args[0].ID, args[1].ID
	case 3:
		k.a0, k.a1, k.a2 = args[0].ID, args[1].ID, args[2].ID
	default:
		var sb strings.Builder
		sb.WriteString(name)
		for _, a := range args {
			fmt.Fprintf(&sb, ",%d", a.ID)
		}
		k.name = sb.String()
	}
	if t, ok := c.tab[k]; ok {
		return t
	}
	t := &Term{ID: len(c.Terms), Op: op, Sort: s, Args: args, Val: val, Name: name, P1: p1, P2: p2}
	c.Terms = append(c.Terms, t)
	c.tab[k] = t
	return t
}

func (t *Term) IsConst() bool { return t.Op == OConst }
func (t *Term) IsTrue() bool  { return t.Op == OConst && t.Sort.K == KBool && t.Val.Sign() != 0 }
func (t *Term) IsFalse() bool { return t.Op == OConst && t.Sort.K == KBool && t.Val.Sign() == 0 }

// Uint64 returns the constant as uint64 (BV consts are stored unsigned).
func (t *Term) Uint64() uint64 { return t.Val.Uint64() }

// SignedVal returns the two's complement signed interpretation of a BV constant.
func (t *Term) SignedVal() *big.Int {
	if t.Sort.K != KBV {
		return t.Val
	}
	if t.Val.Bit(t.Sort.W-1) == 1 {
		return new(big.Int).Sub(t.Val, new(big.Int).Lsh(big.NewInt(1), uint(t.Sort.W)))
	}
	return t.Val
}

var bigOne = big.NewInt(1)

func mask(w int) *big.Int {
	return new(big.Int).Sub(new(big.Int).Lsh(bigOne, uint(w)), bigOne)
}

func norm(v *big.Int, w int) *big.Int {
	r := new(big.Int).And(v, mask(w))
	return r
}

func (c *Ctx) BoolConst(b bool) *Term {
	v := big.NewInt(0)
	if b {
		v = big.NewInt(1)
	}
	return c.mk(OConst, Bool, nil, v, "", 0, 0)
}

func (c *Ctx) BVConst(v *big.Int, w int) *Term {
	return c.mk(OConst, BV(w), nil, norm(v, w), "", 0, 0)
}
func (c *Ctx) BVU(v uint64, w int) *Term { return c.BVConst(new(big.Int).SetUint64(v), w) }
func (c *Ctx) BVI(v int64, w int) *Term  { return c.BVConst(big.NewInt(v), w) }
func (c *Ctx) IntConst(v *big.Int) *Term {
	return c.mk(OConst, Int, nil, new(big.Int).Set(v), "", 0, 0)
}
func (c *Ctx) IntI(v int64) *Term { return c.IntConst(big.NewInt(v)) }

func (c *Ctx) Var(name string, s Sort) *Term {
	return c.mk(OVar, s, nil, nil, name, 0, 0)
}

func (c *Ctx) Fresh(prefix string, s Sort) *Term {
	c.nvar++
	return c.Var(fmt.Sprintf("%s!%d", prefix, c.nvar), s)
}

func (c *Ctx) App(name string, ret Sort, args ...*Term) *Term {
	d, ok := c.UFs[name]
	if !ok {
		d = &UFDecl{Name: name, Ret: ret}
		for _, a := range args {
			d.Args = append(d.Args, a.Sort)
		}
		c.UFs[name] = d
		c.UFList = append(c.UFList, d)
	} else {
		if len(d.Args) != len(args) || d.Ret != ret {
			panic("smt: UF " + name + " used with different signature")
		}
		for i, a := range args {
			if d.Args[i] != a.Sort {
				panic("smt: UF " + name + " used with different arg sort")
			}
		}
	}
	if len(args) == 0 {
		return c.Var(name, ret)
	}
	return c.mk(OApp, ret, append([]*Term(nil), args...), nil, name, 0, 0)
}

// ---------- Bool ----------

func (c *Ctx) Not(a *Term) *Term {
	if a.IsConst() {
		return c.BoolConst(a.Val.Sign() == 0)
	}
	if a.Op == ONot {
		return a.Args[0]
	}
	return c.mk(ONot, Bool, []*Term{a}, nil, "", 0, 0)
}

func (c *Ctx) And(a, b *Term) *Term {
	if a.IsConst() {
		if a.IsTrue() {
			return b
		}
		return a
	}
	if b.IsConst() {
		if b.IsTrue() {
			return a
		}
		return b
	}
	if a == b {
		return a
	}
	if c.Not(a) == b {
		return c.False
	}
	if a.ID > b.ID {
		a, b = b, a
	}
	return c.mk(OAnd, Bool, []*Term{a, b}, nil, "", 0, 0)
}

func (c *Ctx) Or(a, b *Term) *Term {
	if a.IsConst() {
		if a.IsTrue() {
			return a
		}
		return b
	}
	if b.IsConst() {
		if b.IsTrue() {
			return b
		}
		return a
	}
	if a == b {
		return a
	}
	if c.Not(a) == b {
		return c.True
	}
	if a.ID > b.ID {
		a, b = b, a
	}
	return c.mk(OOr, Bool, []*Term{a, b}, nil, "", 0, 0)
}

func (c *Ctx) AndN(ts ...*Term) *Term {
	r := c.True
	for _, t := range ts {
		r = c.And(r, t)
	}
	return r
}
func (c *Ctx) OrN(ts ...*Term) *Term {
	r := c.False
	for _, t := range ts {
		r = c.Or(r, t)
	}
	return r
}
func (c *Ctx) Implies(a, b *Term) *Term { return c.Or(c.Not(a), b) }

func (c *Ctx) Ite(cond, a, b *Term) *Term {
	if cond.IsConst() {
		if cond.IsTrue() {
			return a
		}
		return b
	}
	if a == b {
		return a
	}
	if a.Sort != b.Sort {
		panic(fmt.Sprintf("smt: ite sort mismatch %v %v", a.Sort, b.Sort))
	}
	if a.Sort.K == KBool {
		if a.IsConst() && b.IsConst() {
			if a.IsTrue() {
				return cond
			}
			return c.Not(cond)
		}
		if a.IsTrue() {
			return c.Or(cond, b)
		}
		if a.IsFalse() {
			return c.And(c.Not(cond), b)
		}
		if b.IsTrue() {
			return c.Or(c.Not(cond), a)
		}
		if b.IsFalse() {
			return c.And(cond, a)
		}
	}
	if cond.Op == ONot {
		return c.Ite(cond.Args[0], b, a)
	}
	return c.mk(OIte, a.Sort, []*Term{cond, a, b}, nil, "", 0, 0)
}

func (c *Ctx) Eq(a, b *Term) *Term {
	if a.Sort != b.Sort {
		panic(fmt.Sprintf("smt: eq sort mismatch %v %v (%s vs %s)", a.Sort, b.Sort, c.String(a), c.String(b)))
	}
	if a == b {
		return c.True
	}
	if a.IsConst() && b.IsConst() {
		return c.BoolConst(a.Val.Cmp(b.Val) == 0)
	}
	if a.Sort.K == KBool {
		if a.IsConst() {
			if a.IsTrue() {
				return b
			}
			return c.Not(b)
		}
		if b.IsConst() {
			if b.IsTrue() {
				return a
			}
			return c.Not(a)
		}
	}
	// ite(c, k1, k2) == k  with constants
	if b.IsConst() && a.Op == OIte && a.Args[1].IsConst() && a.Args[2].IsConst() {
		return c.Ite(a.Args[0], c.Eq(a.Args[1], b), c.Eq(a.Args[2], b))
	}
	if a.IsConst() && b.Op == OIte && b.Args[1].IsConst() && b.Args[2].IsConst() {
		return c.Ite(b.Args[0], c.Eq(b.Args[1], a), c.Eq(b.Args[2], a))
	}
	// zext(x) == const
	if b.IsConst() && a.Op == OZext {
		inner := a.Args[0]
		if b.Val.BitLen() > inner.Sort.W {
			return c.False
		}
		return c.Eq(inner, c.BVConst(b.Val, inner.Sort.W))
	}
	if a.IsConst() && b.Op == OZext {
		return c.Eq(b, a)
	}
	if a.Sort.K == KInt {
		if c.cmpByBounds(a, b, true) == 1 || c.cmpByBounds(b, a, true) == 1 { // disjoint intervals
			return c.False
		}
		if x, y, ok := c.liftPair(a, b); ok {
			return c.Eq(x, y)
		}
	}
	if a.ID > b.ID {
		a, b = b, a
	}
	return c.mk(OEq, Bool, []*Term{a, b}, nil, "", 0, 0)
}

func (c *Ctx) Ne(a, b *Term) *Term { return c.Not(c.Eq(a, b)) }

// ---------- BV ----------

func (c *Ctx) bvbin(op Op, a, b *Term) *Term {
	if a.Sort != b.Sort || a.Sort.K != KBV {
		panic(fmt.Sprintf("smt: bv op %s sort mismatch %v %v", opNames[op], a.Sort, b.Sort))
	}
	w := a.Sort.W
	if a.IsConst() && b.IsConst() {
		x, y := a.Val, b.Val
		r := new(big.Int)
		switch op {
		case OBVAdd:
			r.Add(x, y)
		case OBVSub:
			r.Sub(x, y)
		case OBVMul:
			r.Mul(x, y)
		case OBVUDiv:
			if y.Sign() == 0 {
				r = mask(w)
			} else {
				r.Quo(x, y)
			}
		case OBVURem:
			if y.Sign() == 0 {
				r.Set(x)
			} else {
				r.Rem(x, y)
			}
		case OBVSDiv:
			sx, sy := a.SignedVal(), b.SignedVal()
			if sy.Sign() == 0 {
				if sx.Sign() >= 0 {
					r = mask(w)
				} else {
					r.SetInt64(1)
				}
			} else {
				r.Quo(sx, sy)
			}
		case OBVSRem:
			sx, sy := a.SignedVal(), b.SignedVal()
			if sy.Sign() == 0 {
				r.Set(sx)
			} else {
				r.Rem(sx, sy)
			}
		case OBVAnd:
			r.And(x, y)
		case OBVOr:
			r.Or(x, y)
		case OBVXor:
			r.Xor(x, y)
		case OBVShl:
			if y.Cmp(big.NewInt(int64(w))) >= 0 {
				r.SetInt64(0)
			} else {
				r.Lsh(x, uint(y.Uint64()))
			}
		case OBVLshr:
			if y.Cmp(big.NewInt(int64(w))) >= 0 {
				r.SetInt64(0)
			} else {
				r.Rsh(x, uint(y.Uint64()))
			}
		case OBVAshr:
			sx := a.SignedVal()
			if y.Cmp(big.NewInt(int64(w))) >= 0 {
				if sx.Sign() < 0 {
					r.SetInt64(-1)
				} else {
					r.SetInt64(0)
				}
			} else {
				r.Rsh(sx, uint(y.Uint64()))
			}
		}
		return c.BVConst(r, w)
	}
	// identities
	switch op {
	case OBVAdd:
		if a.IsConst() && a.Val.Sign() == 0 {
			return b
		}
		if b.IsConst() && b.Val.Sign() == 0 {
			return a
		}
		if a.IsConst() { // constants to the right
			a, b = b, a
		}
		// (x + k1) + k2
		if b.IsConst() && a.Op == OBVAdd && a.Args[1].IsConst() {
			return c.bvbin(OBVAdd, a.Args[0], c.bvbin(OBVAdd, a.Args[1], b))
		}
	case OBVSub:
		if b.IsConst() && b.Val.Sign() == 0 {
			return a
		}
		if a == b {
			return c.BVU(0, w)
		}
		if b.IsConst() {
			return c.bvbin(OBVAdd, a, c.BVConst(new(big.Int).Neg(b.Val), w))
		}
	case OBVMul:
		if a.IsConst() {
			a, b = b, a
		}
		if b.IsConst() {
			if b.Val.Sign() == 0 {
				return b
			}
			if b.Val.Cmp(bigOne) == 0 {
				return a
			}
		}
	case OBVUDiv:
		if b.IsConst() && b.Val.Cmp(bigOne) == 0 {
			return a
		}
	case OBVAnd:
		if a.IsConst() {
			a, b = b, a
		}
		if b.IsConst() {
			if b.Val.Sign() == 0 {
				return b
			}
			if b.Val.Cmp(mask(w)) == 0 {
				return a
			}
		}
		if a == b {
			return a
		}
	case OBVOr:
		if a.IsConst() {
			a, b = b, a
		}
		if b.IsConst() {
			if b.Val.Sign() == 0 {
				return a
			}
			if b.Val.Cmp(mask(w)) == 0 {
				return b
			}
		}
		if a == b {
			return a
		}
		if r := c.orSegments(a, b); r != nil {
			return r
		}
	case OBVXor:
		if a.IsConst() {
			a, b = b, a
		}
		if b.IsConst() && b.Val.Sign() == 0 {
			return a
		}
		if a == b {
			return c.BVU(0, w)
		}
		// (x ^ k) ^ k = x
		if a.Op == OBVXor {
			if a.Args[0] == b {
				return a.Args[1]
			}
			if a.Args[1] == b {
				return a.Args[0]
			}
		}
		if b.Op == OBVXor {
			if b.Args[0] == a {
				return b.Args[1]
			}
			if b.Args[1] == a {
				return b.Args[0]
			}
		}
	case OBVShl, OBVLshr, OBVAshr:
		if b.IsConst() && b.Val.Sign() == 0 {
			return a
		}
		if a.IsConst() && a.Val.Sign() == 0 {
			return a
		}
		if b.IsConst() && op != OBVAshr && b.Val.Cmp(big.NewInt(int64(w))) >= 0 {
			return c.BVU(0, w)
		}
		// lshr by constant multiple: express as zext(extract) so byte extraction simplifies
		if b.IsConst() && op == OBVLshr {
			k := int(b.Val.Int64())
			return c.Zext(c.Extract(a, w-1, k), w)
		}
		if b.IsConst() && op == OBVShl {
			k := int(b.Val.Int64())
			return c.Concat(c.Extract(a, w-1-k, 0), c.BVU(0, k))
		}
	}
	return c.mk(op, a.Sort, []*Term{a, b}, nil, "", 0, 0)
}

func (c *Ctx) BVAdd(a, b *Term) *Term  { return c.bvbin(OBVAdd, a, b) }
func (c *Ctx) BVSub(a, b *Term) *Term  { return c.bvbin(OBVSub, a, b) }
func (c *Ctx) BVMul(a, b *Term) *Term  { return c.bvbin(OBVMul, a, b) }
func (c *Ctx) BVUDiv(a, b *Term) *Term { return c.bvbin(OBVUDiv, a, b) }
func (c *Ctx) BVURem(a, b *Term) *Term { return c.bvbin(OBVURem, a, b) }
func (c *Ctx) BVSDiv(a, b *Term) *Term { return c.bvbin(OBVSDiv, a, b) }
func (c *Ctx) BVSRem(a, b *Term) *Term { return c.bvbin(OBVSRem, a, b) }
func (c *Ctx) BVAnd(a, b *Term) *Term  { return c.bvbin(OBVAnd, a, b) }
func (c *Ctx) BVOr(a, b *Term) *Term   { return c.bvbin(OBVOr, a, b) }
func (c *Ctx) BVXor(a, b *Term) *Term  { return c.bvbin(OBVXor, a, b) }
func (c *Ctx) BVShl(a, b *Term) *Term  { return c.bvbin(OBVShl, a, b) }
func (c *Ctx) BVLshr(a, b *Term) *Term { return c.bvbin(OBVLshr, a, b) }
func (c *Ctx) BVAshr(a, b *Term) *Term { return c.bvbin(OBVAshr, a, b) }

func (c *Ctx) BVNot(a *Term) *Term {
	if a.IsConst() {
		return c.BVConst(new(big.Int).Not(a.Val), a.Sort.W)
	}
	if a.Op == OBVNot {
		return a.Args[0]
	}
	return c.mk(OBVNot, a.Sort, []*Term{a}, nil, "", 0, 0)
}

func (c *Ctx) BVNeg(a *Term) *Term {
	if a.IsConst() {
		return c.BVConst(new(big.Int).Neg(a.Val), a.Sort.W)
	}
	return c.mk(OBVNeg, a.Sort, []*Term{a}, nil, "", 0, 0)
}

func (c *Ctx) bvcmp(op Op, a, b *Term) *Term {
	if a.Sort != b.Sort || a.Sort.K != KBV {
		panic(fmt.Sprintf("smt: bv cmp sort mismatch %v %v", a.Sort, b.Sort))
	}
	if a.IsConst() && b.IsConst() {
		var r bool
		switch op {
		case OBVUlt:
			r = a.Val.Cmp(b.Val) < 0
		case OBVUle:
			r = a.Val.Cmp(b.Val) <= 0
		case OBVSlt:
			r = a.SignedVal().Cmp(b.SignedVal()) < 0
		case OBVSle:
			r = a.SignedVal().Cmp(b.SignedVal()) <= 0
		}
		return c.BoolConst(r)
	}
	if a == b {
		return c.BoolConst(op == OBVUle || op == OBVSle)
	}
	// unsigned comparison against int2bv(q) where q was hinted to lie in [0, 2^w) on the paths that use it
	// (RangeHint): compare in the Int theory when the range holds, keep the bit-vector comparison otherwise.
	// The rewrite is guarded, hence sound whether or not the hint is true.
	if (op == OBVUlt || op == OBVUle) && len(c.RangeHint) > 0 {
		hinted := func(t *Term) bool { return t.Op == OInt2BV && c.RangeHint[t.Args[0]] }
		if hinted(a) || hinted(b) {
			toInt := func(t *Term) (*Term, *Term) { // value, guard
				if hinted(t) {
					q := t.Args[0]
					lim := c.IntConst(new(big.Int).Lsh(big.NewInt(1), uint(t.Sort.W)))
					return q, c.And(c.Le(c.IntI(0), q), c.Lt(q, lim))
				}
				return c.BV2Int(t), c.True
			}
			ai, ga := toInt(a)
			bi, gb := toInt(b)
			var cmp *Term
			if op == OBVUlt {
				cmp = c.Lt(ai, bi)
			} else {
				cmp = c.Le(ai, bi)
			}
			return c.Ite(c.And(ga, gb), cmp, c.mk(op, Bool, []*Term{a, b}, nil, "", 0, 0))
		}
	}
	if op == OBVUlt && b.IsConst() && b.Val.Sign() == 0 {
		return c.False
	}
	if op == OBVUle && a.IsConst() && a.Val.Sign() == 0 {
		return c.True
	}
	// (x urem k) < m for constants 0 < k <= m (and <= m for k-1 <= m): a remainder is below its non-zero
	// divisor. Saves a bit-blasted 64-bit division per bounds check of `slice[draw % n]`.
	if (op == OBVUlt || op == OBVUle) && b.IsConst() && a.Op == OBVURem && a.Args[1].IsConst() && a.Args[1].Val.Sign() > 0 {
		k := a.Args[1].Val
		if op == OBVUlt && k.Cmp(b.Val) <= 0 {
			return c.True
		}
		if op == OBVUle && new(big.Int).Sub(k, big.NewInt(1)).Cmp(b.Val) <= 0 {
			return c.True
		}
	}
	return c.mk(op, Bool, []*Term{a, b}, nil, "", 0, 0)
}

func (c *Ctx) BVUlt(a, b *Term) *Term { return c.bvcmp(OBVUlt, a, b) }
func (c *Ctx) BVUle(a, b *Term) *Term { return c.bvcmp(OBVUle, a, b) }
func (c *Ctx) BVSlt(a, b *Term) *Term { return c.bvcmp(OBVSlt, a, b) }
func (c *Ctx) BVSle(a, b *Term) *Term { return c.bvcmp(OBVSle, a, b) }

func (c *Ctx) Concat(a, b *Term) *Term {
	if a.Sort.W == 0 {
		return b
	}
	if b.Sort.W == 0 {
		return a
	}
	w := a.Sort.W + b.Sort.W
	if a.IsConst() && b.IsConst() {
		r := new(big.Int).Lsh(a.Val, uint(b.Sort.W))
		r.Or(r, b.Val)
		return c.BVConst(r, w)
	}
	// concat(extract(x,h,m+1), extract(x,m,l)) = extract(x,h,l)
	if a.Op == OExtract && b.Op == OExtract && a.Args[0] == b.Args[0] && a.P2 == b.P1+1 {
		return c.Extract(a.Args[0], a.P1, b.P2)
	}
	// concat(concat(p, e1), e2) with e1,e2 adjacent slices of one term
	if a.Op == OConcat && b.Op == OExtract {
		if r := a.Args[1]; r.Op == OExtract && r.Args[0] == b.Args[0] && r.P2 == b.P1+1 {
			return c.Concat(a.Args[0], c.Extract(b.Args[0], r.P1, b.P2))
		}
	}
	if a.Op == OConcat && b.IsConst() && a.Args[1].IsConst() {
		return c.Concat(a.Args[0], c.Concat(a.Args[1], b))
	}
	return c.mk(OConcat, BV(w), []*Term{a, b}, nil, "", 0, 0)
}

func (c *Ctx) Extract(a *Term, hi, lo int) *Term {
	if hi < lo {
		// zero-width: represent as width-0 const (only used transiently by shl simplification)
		return &Term{ID: -1, Op: OConst, Sort: BV(0), Val: big.NewInt(0)}
	}
	if lo == 0 && hi == a.Sort.W-1 {
		return a
	}
	w := hi - lo + 1
	if a.IsConst() {
		return c.BVConst(new(big.Int).Rsh(a.Val, uint(lo)), w)
	}
	switch a.Op {
	case OExtract:
		return c.Extract(a.Args[0], a.P2+hi, a.P2+lo)
	case OConcat:
		lw := a.Args[1].Sort.W
		if hi < lw {
			return c.Extract(a.Args[1], hi, lo)
		}
		if lo >= lw {
			return c.Extract(a.Args[0], hi-lw, lo-lw)
		}
		return c.Concat(c.Extract(a.Args[0], hi-lw, 0), c.Extract(a.Args[1], lw-1, lo))
	case OZext:
		iw := a.Args[0].Sort.W
		if hi < iw {
			return c.Extract(a.Args[0], hi, lo)
		}
		if lo >= iw {
			return c.BVU(0, w)
		}
		return c.Zext(c.Extract(a.Args[0], iw-1, lo), w)
	case OSext:
		iw := a.Args[0].Sort.W
		if hi < iw {
			return c.Extract(a.Args[0], hi, lo)
		}
	case OBVAnd, OBVOr, OBVXor:
		if a.Args[1].IsConst() {
			return c.bvbin(a.Op, c.Extract(a.Args[0], hi, lo), c.Extract(a.Args[1], hi, lo))
		}
	case OIte:
		if a.Args[1].IsConst() && a.Args[2].IsConst() {
			return c.Ite(a.Args[0], c.Extract(a.Args[1], hi, lo), c.Extract(a.Args[2], hi, lo))
		}
	}
	return c.mk(OExtract, BV(w), []*Term{a}, nil, "", hi, lo)
}

// Zext extends a to total width w.
func (c *Ctx) Zext(a *Term, w int) *Term {
	if a.Sort.W == w {
		return a
	}
	if a.Sort.W > w {
		panic("smt: zext to smaller width")
	}
	if a.Sort.W == 0 {
		return c.BVU(0, w)
	}
	if a.IsConst() {
		return c.BVConst(a.Val, w)
	}
	if a.Op == OZext {
		return c.Zext(a.Args[0], w)
	}
	return c.mk(OZext, BV(w), []*Term{a}, nil, "", w-a.Sort.W, 0)
}

func (c *Ctx) Sext(a *Term, w int) *Term {
	if a.Sort.W == w {
		return a
	}
	if a.IsConst() {
		return c.BVConst(a.SignedVal(), w)
	}
	if a.Op == OZext {
		return c.Zext(a.Args[0], w)
	}
	if a.Op == OSext {
		return c.Sext(a.Args[0], w)
	}
	return c.mk(OSext, BV(w), []*Term{a}, nil, "", w-a.Sort.W, 0)
}

// ---------- Int ----------

func (c *Ctx) intbin(op Op, a, b *Term) *Term {
	if a.Sort.K != KInt || b.Sort.K != KInt {
		panic("smt: int op on non-int")
	}
	if a.IsConst() && b.IsConst() {
		r := new(big.Int)
		switch op {
		case OAdd:
			r.Add(a.Val, b.Val)
		case OSub:
			r.Sub(a.Val, b.Val)
		case OMul:
			r.Mul(a.Val, b.Val)
		case ODiv:
			if b.Val.Sign() == 0 {
				return c.mk(op, Int, []*Term{a, b}, nil, "", 0, 0)
			}
			r.Div(a.Val, b.Val) // Euclidean, matches SMT-LIB
		case OMod:
			if b.Val.Sign() == 0 {
				return c.mk(op, Int, []*Term{a, b}, nil, "", 0, 0)
			}
			r.Mod(a.Val, b.Val)
		}
		return c.IntConst(r)
	}
	switch op {
	case OAdd:
		if a.IsConst() && a.Val.Sign() == 0 {
			return b
		}
		if b.IsConst() && b.Val.Sign() == 0 {
			return a
		}
	case OSub:
		if b.IsConst() && b.Val.Sign() == 0 {
			return a
		}
		if a == b {
			return c.IntI(0)
		}
	case OMul:
		if a.IsConst() {
			a, b = b, a
		}
		if b.IsConst() {
			if b.Val.Sign() == 0 {
				return b
			}
			if b.Val.Cmp(bigOne) == 0 {
				return a
			}
			if a.Op == OMul && a.Args[1].IsConst() { // (x*c1)*c2 = x*(c1*c2)
				return c.intbin(OMul, a.Args[0], c.IntConst(new(big.Int).Mul(a.Args[1].Val, b.Val)))
			}
		}
	case ODiv:
		if b.IsConst() && b.Val.Cmp(bigOne) == 0 {
			return a
		}
		if r := c.simplifyDivMod(op, a, b); r != nil {
			return r
		}
	case OMod:
		if r := c.simplifyDivMod(op, a, b); r != nil {
			return r
		}
	}
	return c.mk(op, Int, []*Term{a, b}, nil, "", 0, 0)
}

func (c *Ctx) Add(a, b *Term) *Term { return c.intbin(OAdd, a, b) }
func (c *Ctx) Sub(a, b *Term) *Term { return c.intbin(OSub, a, b) }
func (c *Ctx) Mul(a, b *Term) *Term { return c.intbin(OMul, a, b) }
func (c *Ctx) Div(a, b *Term) *Term { return c.intbin(ODiv, a, b) }
func (c *Ctx) Mod(a, b *Term) *Term { return c.intbin(OMod, a, b) }
func (c *Ctx) Neg(a *Term) *Term {
	if a.IsConst() {
		return c.IntConst(new(big.Int).Neg(a.Val))
	}
	return c.mk(ONeg, Int, []*Term{a}, nil, "", 0, 0)
}
func (c *Ctx) Lt(a, b *Term) *Term {
	if a.IsConst() && b.IsConst() {
		return c.BoolConst(a.Val.Cmp(b.Val) < 0)
	}
	if a == b {
		return c.False
	}
	if r := c.cmpByBounds(a, b, true); r >= 0 {
		return c.BoolConst(r == 1)
	}
	if x, y, ok := c.liftPair(a, b); ok {
		return c.BVSlt(x, y)
	}
	return c.mk(OLt, Bool, []*Term{a, b}, nil, "", 0, 0)
}
func (c *Ctx) Le(a, b *Term) *Term {
	if a.IsConst() && b.IsConst() {
		return c.BoolConst(a.Val.Cmp(b.Val) <= 0)
	}
	if a == b {
		return c.True
	}
	if r := c.cmpByBounds(a, b, false); r >= 0 {
		return c.BoolConst(r == 1)
	}
	if x, y, ok := c.liftPair(a, b); ok {
		return c.BVSle(x, y)
	}
	return c.mk(OLe, Bool, []*Term{a, b}, nil, "", 0, 0)
}

// NoLift disables the Int->BV lifting of comparisons (for experiments).
var NoLift = false

const maxLiftWidth = 320

// lift expresses an Int term that is built from bit-vector conversions as a signed bit-vector of
// some width w such that the Int value equals the signed value (no wrap-around can occur).
func (c *Ctx) lift(t *Term, depth int) (*Term, bool) {
	if depth > 24 {
		return nil, false
	}
	switch t.Op {
	case OConst:
		w := t.Val.BitLen() + 1
		if w > maxLiftWidth {
			return nil, false
		}
		return c.BVConst(t.Val, w), true
	case OBV2Int:
		return c.Zext(t.Args[0], t.Args[0].Sort.W+1), true
	case OBV2IntS:
		return t.Args[0], true
	case OAdd, OSub:
		x, ok := c.lift(t.Args[0], depth+1)
		if !ok {
			return nil, false
		}
		y, ok := c.lift(t.Args[1], depth+1)
		if !ok {
			return nil, false
		}
		w := x.Sort.W
		if y.Sort.W > w {
			w = y.Sort.W
		}
		w++
		if w > maxLiftWidth {
			return nil, false
		}
		if t.Op == OAdd {
			return c.BVAdd(c.Sext(x, w), c.Sext(y, w)), true
		}
		return c.BVSub(c.Sext(x, w), c.Sext(y, w)), true
	case ONeg:
		x, ok := c.lift(t.Args[0], depth+1)
		if !ok {
			return nil, false
		}
		w := x.Sort.W + 1
		return c.BVNeg(c.Sext(x, w)), true
	case OMul:
		// multiplication by a constant only
		if t.Args[1].IsConst() {
			x, ok := c.lift(t.Args[0], depth+1)
			if !ok {
				return nil, false
			}
			k, _ := c.lift(t.Args[1], depth+1)
			if k == nil {
				return nil, false
			}
			w := x.Sort.W + k.Sort.W
			if w > maxLiftWidth {
				return nil, false
			}
			return c.BVMul(c.Sext(x, w), c.Sext(k, w)), true
		}
	case OIte:
		x, ok := c.lift(t.Args[1], depth+1)
		if !ok {
			return nil, false
		}
		y, ok := c.lift(t.Args[2], depth+1)
		if !ok {
			return nil, false
		}
		w := x.Sort.W
		if y.Sort.W > w {
			w = y.Sort.W
		}
		return c.Ite(t.Args[0], c.Sext(x, w), c.Sext(y, w)), true
	}
	return nil, false
}

func (c *Ctx) liftPair(a, b *Term) (*Term, *Term, bool) {
	if NoLift || c.NoLift || a.Sort.K != KInt {
		return nil, nil, false
	}
	// only worthwhile when at least one side is not a constant and both lift
	x, ok := c.lift(a, 0)
	if !ok {
		return nil, nil, false
	}
	y, ok := c.lift(b, 0)
	if !ok {
		return nil, nil, false
	}
	w := x.Sort.W
	if y.Sort.W > w {
		w = y.Sort.W
	}
	return c.Sext(x, w), c.Sext(y, w), true
}
func (c *Ctx) Gt(a, b *Term) *Term { return c.Lt(b, a) }
func (c *Ctx) Ge(a, b *Term) *Term { return c.Le(b, a) }

// Quo is truncated division (Go big.Int.Quo); b must be non-zero.
func (c *Ctx) Quo(a, b *Term) *Term {
	if a.IsConst() && b.IsConst() && b.Val.Sign() != 0 {
		return c.IntConst(new(big.Int).Quo(a.Val, b.Val))
	}
	// trunc(a/b) = sign * (|a| div |b|)
	zero := c.IntI(0)
	absA := c.Abs(a)
	absB := c.Abs(b)
	q := c.Div(absA, absB)
	neg := c.Ne(c.Lt(a, zero), c.Lt(b, zero))
	return c.Ite(neg, c.Neg(q), q)
}

// Rem is the truncated remainder (sign follows a).
func (c *Ctx) Rem(a, b *Term) *Term {
	if a.IsConst() && b.IsConst() && b.Val.Sign() != 0 {
		return c.IntConst(new(big.Int).Rem(a.Val, b.Val))
	}
	if b.IsConst() && b.Val.Sign() != 0 && c.divisibleBy(a, b.Val, 0) {
		return c.IntI(0)
	}
	return c.Sub(a, c.Mul(b, c.Quo(a, b)))
}

func (c *Ctx) Abs(a *Term) *Term {
	if a.IsConst() {
		return c.IntConst(new(big.Int).Abs(a.Val))
	}
	return c.Ite(c.Lt(a, c.IntI(0)), c.Neg(a), a)
}

// BV2Int: unsigned value of a bit-vector as Int.
func (c *Ctx) BV2Int(a *Term) *Term {
	if a.IsConst() {
		return c.IntConst(a.Val)
	}
	if a.Op == OInt2BV {
		// bv2int(int2bv(x, w)) = x mod 2^w: keeps values that originate from mathematical integers
		// (vs.BigU(..).Uint64()) in the Int theory instead of a mixed BV/Int encoding
		return c.Mod(a.Args[0], c.IntConst(new(big.Int).Lsh(big.NewInt(1), uint(a.Sort.W))))
	}
	return c.mk(OBV2Int, Int, []*Term{a}, nil, "", 0, 0)
}

// BV2IntSigned: two's complement value as Int.
func (c *Ctx) BV2IntSigned(a *Term) *Term {
	if a.IsConst() {
		return c.IntConst(a.SignedVal())
	}
	return c.mk(OBV2IntS, Int, []*Term{a}, nil, "", 0, 0)
}

// Int2BV: a mod 2^w.
func (c *Ctx) Int2BV(a *Term, w int) *Term {
	if a.IsConst() {
		return c.BVConst(a.Val, w)
	}
	if (a.Op == OBV2Int || a.Op == OBV2IntS) && a.Args[0].Sort.W == w {
		return a.Args[0]
	}
	return c.mk(OInt2BV, BV(w), []*Term{a}, nil, "", w, 0)
}

// ---------- printing ----------

func (c *Ctx) String(t *Term) string {
	var sb strings.Builder
	c.write(&sb, t, 0)
	return sb.String()
}

// MaxPrintDepth bounds String(); raise it for debugging dumps.
var MaxPrintDepth = 12

func (c *Ctx) write(sb *strings.Builder, t *Term, depth int) {
	if depth > MaxPrintDepth {
		sb.WriteString("…")
		return
	}
	switch t.Op {
	case OConst:
		sb.WriteString(constStr(t))
	case OVar:
		sb.WriteString(t.Name)
	default:
		sb.WriteString("(")
		sb.WriteString(headStr(t))
		for _, a := range t.Args {
			sb.WriteString(" ")
			c.write(sb, a, depth+1)
		}
		sb.WriteString(")")
	}
}

func constStr(t *Term) string {
	switch t.Sort.K {
	case KBool:
		if t.Val.Sign() != 0 {
			return "true"
		}
		return "false"
	case KInt:
		if t.Val.Sign() < 0 {
			return "(- " + new(big.Int).Neg(t.Val).String() + ")"
		}
		return t.Val.String()
	}
	return fmt.Sprintf("(_ bv%s %d)", t.Val.String(), t.Sort.W)
}

func headStr(t *Term) string {
	switch t.Op {
	case OExtract:
		return fmt.Sprintf("(_ extract %d %d)", t.P1, t.P2)
	case OZext:
		return fmt.Sprintf("(_ zero_extend %d)", t.P1)
	case OSext:
		return fmt.Sprintf("(_ sign_extend %d)", t.P1)
	case OInt2BV:
		return fmt.Sprintf("(_ int2bv %d)", t.P1)
	case OApp:
		return quoteName(t.Name)
	}
	return opNames[t.Op]
}

func quoteName(n string) string {
	for _, r := range n {
		if !(r >= 'a' && r <= 'z' || r >= 'A' && r <= 'Z' || r >= '0' && r <= '9' || r == '_' || r == '!' || r == '.' || r == '$') {
			return "|" + n + "|"
		}
	}
	return n
}

// ---------- segment view (byte (re)assembly through shifts and ors) ----------

type seg struct {
	t  *Term // nil => zero bits
	w  int
	hi int // when t != nil: the segment is extract(t, hi, hi-w+1)
}

// segments splits t (most significant first) into zero runs and slices of other terms.
func (c *Ctx) segments(t *Term, out []seg, depth int) []seg {
	if depth < 8 {
		switch t.Op {
		case OConcat:
			out = c.segments(t.Args[0], out, depth+1)
			return c.segments(t.Args[1], out, depth+1)
		case OZext:
			out = append(out, seg{nil, t.P1, 0})
			return c.segments(t.Args[0], out, depth+1)
		case OConst:
			if t.Val.Sign() == 0 {
				return append(out, seg{nil, t.Sort.W, 0})
			}
		case OExtract:
			return append(out, seg{t.Args[0], t.Sort.W, t.P1})
		}
	}
	return append(out, seg{t, t.Sort.W, t.Sort.W - 1})
}

// orSegments computes a|b when, bit range by bit range, at most one side is non-zero.
func (c *Ctx) orSegments(a, b *Term) *Term {
	if a.Op != OConcat && a.Op != OZext && b.Op != OConcat && b.Op != OZext {
		return nil
	}
	sa := c.segments(a, nil, 0)
	sb := c.segments(b, nil, 0)
	var res *Term
	i, j := 0, 0
	for i < len(sa) && j < len(sb) {
		x, y := &sa[i], &sb[j]
		w := x.w
		if y.w < w {
			w = y.w
		}
		var piece *Term
		switch {
		case x.t == nil && y.t == nil:
			piece = c.BVU(0, w)
		case x.t == nil:
			piece = c.Extract(y.t, y.hi, y.hi-w+1)
		case y.t == nil:
			piece = c.Extract(x.t, x.hi, x.hi-w+1)
		default:
			return nil
		}
		if res == nil {
			res = piece
		} else {
			res = c.Concat(res, piece)
		}
		x.w -= w
		x.hi -= w
		y.w -= w
		y.hi -= w
		if x.w == 0 {
			i++
		}
		if y.w == 0 {
			j++
		}
	}
	if i != len(sa) || j != len(sb) || res == nil {
		return nil
	}
	return res
}
