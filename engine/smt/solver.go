package smt

import (
	"os"
	"bufio"
	"fmt"
	"io"
	"math/big"
	"os/exec"
	"strings"
	"time"
)

// SlowLog, when set, is called for every query that takes more than a second.
var SlowLog func(tag string, d time.Duration, nasserts int)

type Result int

const (
	Unsat Result = iota
	Sat
	Unknown
)

func (r Result) String() string {
	return [...]string{"unsat", "sat", "unknown"}[r]
}

// Solver is one persistent solver process bound to one Ctx.
type Solver struct {
	C       *Ctx
	Bin     string
	Args    []string
	cmd     *exec.Cmd
	in      io.WriteCloser
	out     *bufio.Reader
	emitted map[int]bool
	ufs     int
	Queries int
	Time    time.Duration
	Log     io.Writer // optional transcript
	// Preamble is sent after the default options on every (re)start, e.g. per-check z3 options.
	Preamble string
	kind    string
	Errors  int
	Tag     string // set by the caller for diagnostics
}

// NewSolver starts bin ("z3-new", "z3", "cvc5").
func NewSolver(c *Ctx, bin string) (*Solver, error) {
	s := &Solver{C: c, Bin: bin}
	switch {
	case strings.Contains(bin, "cvc5"):
		s.kind = "cvc5"
		s.Args = []string{"--incremental", "--produce-models", "--lang=smt2"}
	default:
		s.kind = "z3"
		s.Args = []string{"-in", "-smt2"}
	}
	if p := os.Getenv("SYMGO_SMTLOG"); p != "" { // debugging aid: solver transcript
		if f, err := os.OpenFile(p, os.O_CREATE|os.O_WRONLY|os.O_APPEND, 0o644); err == nil {
			s.Log = f
		}
	}
	if err := s.start(); err != nil {
		return nil, err
	}
	return s, nil
}

func (s *Solver) start() error {
	s.cmd = exec.Command(s.Bin, s.Args...)
	in, err := s.cmd.StdinPipe()
	if err != nil {
		return err
	}
	out, err := s.cmd.StdoutPipe()
	if err != nil {
		return err
	}
	s.cmd.Stderr = nil
	if err := s.cmd.Start(); err != nil {
		return err
	}
	s.in = in
	s.out = bufio.NewReaderSize(out, 1<<16)
	s.emitted = map[int]bool{}
	s.ufs = 0
	if p := os.Getenv("SYMGO_SMTLOG"); p != "" && s.Log == nil { // debugging aid: transcript of everything sent
		if f, err := os.CreateTemp("", p+"-*.smt2"); err == nil {
			s.Log = f
		}
	}
	if s.kind == "z3" {
		s.send("(set-option :global-declarations true)\n(set-option :model.completion true)\n")
	} else {
		s.send("(set-option :global-declarations true)\n(set-logic ALL)\n")
	}
	if s.Preamble != "" {
		s.send(s.Preamble)
	}
	return nil
}

// SetPreamble installs extra solver options (must be called before the first query).
func (s *Solver) SetPreamble(p string) {
	s.Preamble = p
	if p != "" {
		s.send(p)
	}
}

func (s *Solver) Close() {
	if s.cmd != nil {
		s.in.Close()
		s.cmd.Process.Kill()
		s.cmd.Wait()
		s.cmd = nil
	}
}

func (s *Solver) send(str string) {
	if s.Log != nil {
		io.WriteString(s.Log, str)
	}
	io.WriteString(s.in, str)
}

func (s *Solver) name(t *Term) string {
	switch t.Op {
	case OConst:
		return constStr(t)
	case OVar:
		return quoteName(t.Name)
	}
	return fmt.Sprintf("t%d", t.ID)
}

// emit makes sure t (and its sub-terms) are declared in the solver.
func (s *Solver) emit(sb *strings.Builder, t *Term) {
	// declare UFs first
	for s.ufs < len(s.C.UFList) {
		d := s.C.UFList[s.ufs]
		s.ufs++
		if len(d.Args) == 0 {
			continue // declared as a variable on first use
		}
		fmt.Fprintf(sb, "(declare-fun %s (", quoteName(d.Name))
		for i, a := range d.Args {
			if i > 0 {
				sb.WriteString(" ")
			}
			sb.WriteString(a.String())
		}
		fmt.Fprintf(sb, ") %s)\n", d.Ret.String())
	}
	s.emitRec(sb, t)
}

func (s *Solver) emitRec(sb *strings.Builder, t *Term) {
	if t.Op == OConst || s.emitted[t.ID] {
		return
	}
	// iterative post-order to avoid deep recursion on long chains
	type fr struct {
		t *Term
		i int
	}
	stack := []fr{{t, 0}}
	for len(stack) > 0 {
		top := &stack[len(stack)-1]
		if top.i < len(top.t.Args) {
			a := top.t.Args[top.i]
			top.i++
			if a.Op != OConst && !s.emitted[a.ID] {
				stack = append(stack, fr{a, 0})
			}
			continue
		}
		x := top.t
		stack = stack[:len(stack)-1]
		if s.emitted[x.ID] {
			continue
		}
		s.emitted[x.ID] = true
		if x.Op == OVar {
			fmt.Fprintf(sb, "(declare-const %s %s)\n", quoteName(x.Name), x.Sort.String())
			continue
		}
		if x.Op == OBV2IntS {
			w := x.Args[0].Sort.W
			n := s.name(x.Args[0])
			half := new(big.Int).Lsh(big.NewInt(1), uint(w-1))
			full := new(big.Int).Lsh(big.NewInt(1), uint(w))
			fmt.Fprintf(sb, "(define-fun t%d () Int (ite (< (bv2nat %s) %s) (bv2nat %s) (- (bv2nat %s) %s)))\n", x.ID, n, half.String(), n, n, full.String())
			continue
		}
		fmt.Fprintf(sb, "(define-fun t%d () %s (%s", x.ID, x.Sort.String(), headStr(x))
		for _, a := range x.Args {
			sb.WriteString(" ")
			sb.WriteString(s.name(a))
		}
		sb.WriteString("))\n")
	}
}

// Check decides satisfiability of the conjunction of the assertions.
// timeoutMs applies to this query.
func (s *Solver) Check(asserts []*Term, timeoutMs int) (Result, error) {
	for _, a := range asserts {
		if a.IsFalse() {
			return Unsat, nil
		}
	}
	start := time.Now()
	defer func() {
		d := time.Since(start)
		s.Time += d
		s.Queries++
		if SlowLog != nil && d > time.Second {
			SlowLog(s.Tag, d, len(asserts))
		}
	}()
	var sb strings.Builder
	for _, a := range asserts {
		s.emit(&sb, a)
	}
	sb.WriteString("(push 1)\n")
	if s.kind == "z3" {
		fmt.Fprintf(&sb, "(set-option :timeout %d)\n", timeoutMs)
	}
	for _, a := range asserts {
		if a.IsTrue() {
			continue
		}
		fmt.Fprintf(&sb, "(assert %s)\n", s.name(a))
	}
	sb.WriteString("(check-sat)\n")
	s.send(sb.String())
	line, err := s.readAnswer()
	if err != nil {
		s.restart()
		return Unknown, err
	}
	switch line {
	case "sat":
		return Sat, nil // caller may ask for model, then must call Pop
	case "unsat":
		s.send("(pop 1)\n")
		return Unsat, nil
	default:
		s.send("(pop 1)\n")
		return Unknown, nil
	}
}

// Declare makes sure a variable is known to the solver (so that get-value can name it).
func (s *Solver) Declare(t *Term) {
	var sb strings.Builder
	s.emit(&sb, t)
	if sb.Len() > 0 {
		s.send(sb.String())
	}
}

// Pop must be called after a Sat result (after optional GetValues).
func (s *Solver) Pop() { s.send("(pop 1)\n") }

func (s *Solver) restart() {
	s.Close()
	s.start()
}

func (s *Solver) readAnswer() (string, error) {
	for {
		line, err := s.out.ReadString('\n')
		if err != nil {
			return "", fmt.Errorf("solver died: %v", err)
		}
		line = strings.TrimSpace(line)
		if line == "" {
			continue
		}
		if strings.HasPrefix(line, "(error") {
			s.Errors++
			// drain: the check-sat answer may still come; treat as inconclusive
			return "", fmt.Errorf("solver error: %s", line)
		}
		if line == "sat" || line == "unsat" || line == "unknown" || line == "timeout" {
			return line, nil
		}
		// ignore other chatter
	}
}

// GetValues returns the model values for the given variables (after a Sat Check, before Pop).
func (s *Solver) GetValues(vars []*Term) (map[*Term]*big.Int, error) {
	res := map[*Term]*big.Int{}
	for i := 0; i < len(vars); i += 64 {
		j := i + 64
		if j > len(vars) {
			j = len(vars)
		}
		var sb strings.Builder
		sb.WriteString("(get-value (")
		for _, v := range vars[i:j] {
			sb.WriteString(s.name(v))
			sb.WriteString(" ")
		}
		sb.WriteString("))\n")
		s.send(sb.String())
		txt, err := s.readSexp()
		if err != nil {
			return nil, err
		}
		vals, err := parseValues(txt)
		if err != nil {
			return nil, err
		}
		if len(vals) != j-i {
			return nil, fmt.Errorf("get-value: expected %d values, got %d in %q", j-i, len(vals), txt)
		}
		for k, v := range vars[i:j] {
			res[v] = vals[k]
		}
	}
	return res, nil
}

func (s *Solver) readSexp() (string, error) {
	var sb strings.Builder
	depth := 0
	started := false
	for {
		line, err := s.out.ReadString('\n')
		if err != nil {
			return "", err
		}
		if strings.HasPrefix(strings.TrimSpace(line), "(error") {
			return "", fmt.Errorf("solver error: %s", line)
		}
		inBar := false
		for _, r := range line {
			if r == '|' {
				inBar = !inBar
			}
			if inBar {
				continue
			}
			if r == '(' {
				depth++
				started = true
			} else if r == ')' {
				depth--
			}
		}
		sb.WriteString(line)
		if started && depth == 0 {
			return sb.String(), nil
		}
	}
}

// parseValues parses "((name val) (name val) ...)" returning vals in order.
func parseValues(txt string) ([]*big.Int, error) {
	toks := tokenize(txt)
	pos := 0
	var parse func() (interface{}, error)
	parse = func() (interface{}, error) {
		if pos >= len(toks) {
			return nil, fmt.Errorf("eof")
		}
		t := toks[pos]
		pos++
		if t == "(" {
			var l []interface{}
			for pos < len(toks) && toks[pos] != ")" {
				x, err := parse()
				if err != nil {
					return nil, err
				}
				l = append(l, x)
			}
			pos++
			return l, nil
		}
		return t, nil
	}
	top, err := parse()
	if err != nil {
		return nil, err
	}
	l, ok := top.([]interface{})
	if !ok {
		return nil, fmt.Errorf("bad get-value output")
	}
	var out []*big.Int
	for _, p := range l {
		pair, ok := p.([]interface{})
		if !ok || len(pair) != 2 {
			return nil, fmt.Errorf("bad pair")
		}
		v, err := evalConst(pair[1])
		if err != nil {
			return nil, err
		}
		out = append(out, v)
	}
	return out, nil
}

func evalConst(x interface{}) (*big.Int, error) {
	switch v := x.(type) {
	case string:
		switch {
		case v == "true":
			return big.NewInt(1), nil
		case v == "false":
			return big.NewInt(0), nil
		case strings.HasPrefix(v, "#x"):
			r, ok := new(big.Int).SetString(v[2:], 16)
			if !ok {
				return nil, fmt.Errorf("bad hex %s", v)
			}
			return r, nil
		case strings.HasPrefix(v, "#b"):
			r, ok := new(big.Int).SetString(v[2:], 2)
			if !ok {
				return nil, fmt.Errorf("bad bin %s", v)
			}
			return r, nil
		default:
			r, ok := new(big.Int).SetString(v, 10)
			if !ok {
				return nil, fmt.Errorf("bad const %s", v)
			}
			return r, nil
		}
	case []interface{}:
		if len(v) == 2 {
			if h, ok := v[0].(string); ok && h == "-" {
				r, err := evalConst(v[1])
				if err != nil {
					return nil, err
				}
				return new(big.Int).Neg(r), nil
			}
		}
		if len(v) == 3 {
			if h, ok := v[0].(string); ok && h == "_" {
				if n, ok := v[1].(string); ok && strings.HasPrefix(n, "bv") {
					r, ok := new(big.Int).SetString(n[2:], 10)
					if ok {
						return r, nil
					}
				}
			}
		}
	}
	return nil, fmt.Errorf("unparsed model value %v", x)
}

func tokenize(s string) []string {
	var toks []string
	i := 0
	for i < len(s) {
		ch := s[i]
		switch {
		case ch == '(' || ch == ')':
			toks = append(toks, string(ch))
			i++
		case ch == ' ' || ch == '\n' || ch == '\t' || ch == '\r':
			i++
		case ch == '|':
			j := i + 1
			for j < len(s) && s[j] != '|' {
				j++
			}
			toks = append(toks, s[i:j+1])
			i = j + 1
		default:
			j := i
			for j < len(s) && !strings.ContainsRune("() \n\t\r", rune(s[j])) {
				j++
			}
			toks = append(toks, s[i:j])
			i = j
		}
	}
	return toks
}
