package main

import (
	"flag"
	"strings"
	"fmt"
	"os"
	"strconv"

	"symgo/sym"
)

func main() {
	var o sym.RunOpts
	flag.StringVar(&o.VerifDir, "verif", "/verif", "verification directory")
	flag.StringVar(&o.OutDir, "out", "", "directory for evidence/, replays/, build/ (default: the verification directory)")
	flag.StringVar(&o.RepoDir, "repo", "/repo", "repository")
	flag.StringVar(&o.Tier, "tier", "quick", "quick|thorough")
	flag.IntVar(&o.Jobs, "jobs", 16, "workers")
	flag.StringVar(&o.Solver, "solver", "z3-new", "solver binary")
	flag.IntVar(&o.Verbose, "v", 0, "verbosity")
	flag.StringVar(&o.Only, "only", "", "only harnesses containing this substring")
	flag.BoolVar(&o.NoReplay, "noreplay", false, "skip native replays")
	scan := flag.String("scan", "", "comma separated package list: print determinism-relevant sites and exit")
	flag.Parse()
	if *scan != "" {
		os.Exit(sym.RunScan(o, strings.Split(*scan, ",")))
	}
	if s := os.Getenv("VERIF_SEED"); s != "" {
		o.Seed, _ = strconv.Atoi(s)
	}
	if t := os.Getenv("VERIF_TIER"); t != "" && !isFlagSet("tier") {
		o.Tier = t
	}
	if flag.NArg() != 1 {
		fmt.Println("usage: symgo [flags] <property-id>")
		os.Exit(2)
	}
	os.Exit(sym.RunCheck(o, flag.Arg(0)))
}

func isFlagSet(name string) bool {
	set := false
	flag.Visit(func(f *flag.Flag) {
		if f.Name == name {
			set = true
		}
	})
	return set
}
