module symgo

go 1.23

require golang.org/x/tools v0.29.0

require (
	golang.org/x/mod v0.22.0 // indirect
	golang.org/x/sync v0.10.0 // indirect
	golang.org/x/sys v0.29.0 // indirect
)

require golang.org/x/crypto v0.26.0
