package sym

import (
	"math/big"

	"symgo/smt"
)

// Interval pre-solver.
//
// Decimal / coin arithmetic (sdkmath.LegacyDec, sdk.DecCoins) performs a sign test, an overflow test
// (|x| < 2^315, |x| < 2^256) and a truncated division (sign/abs case split) on almost every operation.
// With symbolic operands each of them is a branch, i.e. two solver queries over non-linear integer
// terms. Nearly all of them are decided by plain interval arithmetic from the bounds that the path
// condition states for the leaves (0 <= pool < 2^128, 0 <= tax <= 10^18, 0 <= power ...).
//
// decideByRanges(c) returns (value, true) only when the path condition implies c (or its negation) by
// interval reasoning; it never guesses. It is consulted by feasible() before the solver, and by the
// sign-aware big.Int division models in models_dec.go.

type ivl struct{ lo, hi *big.Int } // nil = unbounded on that side

func (a ivl) meet(b ivl) ivl {
	r := a
	if b.lo != nil && (r.lo == nil || b.lo.Cmp(r.lo) > 0) {
		r.lo = b.lo
	}
	if b.hi != nil && (r.hi == nil || b.hi.Cmp(r.hi) < 0) {
		r.hi = b.hi
	}
	return r
}

func (a ivl) hull(b ivl) ivl {
	var r ivl
	if a.lo != nil && b.lo != nil {
		r.lo = a.lo
		if b.lo.Cmp(a.lo) < 0 {
			r.lo = b.lo
		}
	}
	if a.hi != nil && b.hi != nil {
		r.hi = a.hi
		if b.hi.Cmp(a.hi) > 0 {
			r.hi = b.hi
		}
	}
	return r
}

func (a ivl) nonNeg() bool { return a.lo != nil && a.lo.Sign() >= 0 }
func (a ivl) pos() bool    { return a.lo != nil && a.lo.Sign() > 0 }

type rangeState struct {
	path      *Path
	npc       int
	facts     map[*smt.Term]ivl // Int terms (and BV terms under "s:"/"u:" views, see below)
	sfacts    map[*smt.Term]ivl // signed value of BV terms
	ufacts    map[*smt.Term]ivl // unsigned value of BV terms
	boolFacts map[*smt.Term]bool
	ne        map[*smt.Term][]*big.Int // excluded values (Int terms; signed value for BV terms)
	memo      map[*smt.Term]ivl        // rng memo
	smemo     map[*smt.Term]ivl        // srng memo
	bmemo     map[*smt.Term]int8       // decide memo: 0 unknown, 1 true, 2 false
}

func (it *Interp) ranges() *rangeState {
	rs, _ := it.M.extra["ranges"].(*rangeState) // it.M is per path
	if rs == nil || rs.path != it.P || rs.npc > len(it.P.PC) {
		rs = &rangeState{path: it.P, facts: map[*smt.Term]ivl{}, sfacts: map[*smt.Term]ivl{}, ufacts: map[*smt.Term]ivl{}, ne: map[*smt.Term][]*big.Int{}, boolFacts: map[*smt.Term]bool{}}
		it.M.extra["ranges"] = rs
	}
	if rs.npc < len(it.P.PC) || rs.memo == nil {
		rs.memo = map[*smt.Term]ivl{}
		rs.smemo = map[*smt.Term]ivl{}
		rs.bmemo = map[*smt.Term]int8{}
		for _, t := range it.P.PC[rs.npc:] {
			rs.learn(t, true)
		}
		rs.npc = len(it.P.PC)
	}
	return rs
}

var big1 = big.NewInt(1)

func bsub1(x *big.Int) *big.Int { return new(big.Int).Sub(x, big1) }
func badd1(x *big.Int) *big.Int { return new(big.Int).Add(x, big1) }

func (rs *rangeState) add(m map[*smt.Term]ivl, t *smt.Term, v ivl) {
	if old, ok := m[t]; ok {
		m[t] = old.meet(v)
	} else {
		m[t] = v
	}
	// bounds on the integer value of a bit-vector are bounds on the bit-vector
	if t.Sort.K == smt.KInt && len(t.Args) == 1 {
		switch t.Op {
		case smt.OBV2IntS:
			rs.add(rs.sfacts, t.Args[0], v)
		case smt.OBV2Int:
			rs.add(rs.ufacts, t.Args[0], v)
		}
	}
	// a + b <= K with a >= la  gives  b <= K - la (facts learnt so far only)
	if t.Op == smt.OAdd && t.Sort.K == smt.KInt && v.hi != nil {
		rs.memo = map[*smt.Term]ivl{}
		rs.smemo = map[*smt.Term]ivl{}
		rs.bmemo = map[*smt.Term]int8{}
		a, b := t.Args[0], t.Args[1]
		ra, rb := rs.rng(a), rs.rng(b)
		if ra.lo != nil {
			rs.add(rs.facts, b, ivl{hi: new(big.Int).Sub(v.hi, ra.lo)})
		}
		if rb.lo != nil {
			rs.add(rs.facts, a, ivl{hi: new(big.Int).Sub(v.hi, rb.lo)})
		}
		rs.memo = map[*smt.Term]ivl{}
		rs.smemo = map[*smt.Term]ivl{}
		rs.bmemo = map[*smt.Term]int8{}
	}
}

// trim moves the end points of an interval past excluded values.
func (rs *rangeState) trim(t *smt.Term, r ivl) ivl {
	ex := rs.ne[t]
	if len(ex) == 0 {
		return r
	}
	for changed := true; changed; {
		changed = false
		for _, e := range ex {
			if r.lo != nil && r.lo.Cmp(e) == 0 {
				r.lo = badd1(r.lo)
				changed = true
			}
			if r.hi != nil && r.hi.Cmp(e) == 0 {
				r.hi = bsub1(r.hi)
				changed = true
			}
		}
	}
	return r
}

// srng: range of the signed value of a bit-vector term.
func (rs *rangeState) srng(x *smt.Term) ivl {
	w := x.Sort.W
	half := pow2big(w - 1)
	full := ivl{lo: new(big.Int).Neg(half), hi: bsub1(half)}
	if x.IsConst() {
		v := x.SignedVal()
		return ivl{lo: v, hi: v}
	}
	if r, ok := rs.smemo[x]; ok {
		return r
	}
	rs.smemo[x] = full
	r := full
	switch x.Op {
	case smt.OBVAdd:
		a, b := rs.srng(x.Args[0]), rs.srng(x.Args[1])
		lo, hi := new(big.Int).Add(a.lo, b.lo), new(big.Int).Add(a.hi, b.hi)
		if lo.Cmp(full.lo) >= 0 && hi.Cmp(full.hi) <= 0 { // cannot wrap
			r = ivl{lo: lo, hi: hi}
		}
	case smt.OIte:
		switch rs.decide(x.Args[0]) {
		case 1:
			r = rs.srng(x.Args[1])
		case 2:
			r = rs.srng(x.Args[2])
		default:
			r = rs.srng(x.Args[1]).hull(rs.srng(x.Args[2]))
		}
	case smt.OZext:
		if x.Args[0].Sort.W < w {
			r = ivl{lo: big.NewInt(0), hi: bsub1(pow2big(x.Args[0].Sort.W))}
		}
	}
	if f, ok := rs.sfacts[x]; ok {
		r = r.meet(f)
	}
	if f, ok := rs.ufacts[x]; ok && f.hi != nil && f.hi.Cmp(half) < 0 {
		// below 2^(w-1) as unsigned: both readings agree
		r = r.meet(ivl{lo: big.NewInt(0), hi: f.hi})
		if f.lo != nil {
			r = r.meet(ivl{lo: f.lo})
		}
	}
	r = rs.trim(x, r)
	rs.smemo[x] = r
	return r
}

// learn records the bounds stated by a formula that holds (pos) or whose negation holds (!pos).
func (rs *rangeState) learn(t *smt.Term, pos bool) {
	switch t.Op {
	case smt.OVar:
		if t.Sort.K == smt.KBool {
			rs.boolFacts[t] = pos
		}
	case smt.ONot:
		rs.learn(t.Args[0], !pos)
	case smt.OAnd:
		if pos {
			rs.learn(t.Args[0], true)
			rs.learn(t.Args[1], true)
		}
	case smt.OOr:
		if !pos {
			rs.learn(t.Args[0], false)
			rs.learn(t.Args[1], false)
		} else {
			// (x < k) or (x = k)  and friends: learn from the normalised comparison if there is one
			rs.learnOr(t)
		}
	case smt.OLt, smt.OLe:
		a, b := t.Args[0], t.Args[1]
		strict := t.Op == smt.OLt
		if !pos { // not (a < b) = b <= a ; not (a <= b) = b < a
			a, b = b, a
			strict = !strict
		}
		if b.IsConst() { // a < k / a <= k
			hi := b.Val
			if strict {
				hi = bsub1(hi)
			}
			rs.add(rs.facts, a, ivl{hi: hi})
		}
		if a.IsConst() { // k < b / k <= b
			lo := a.Val
			if strict {
				lo = badd1(lo)
			}
			rs.add(rs.facts, b, ivl{lo: lo})
		}
	case smt.OEq:
		if !pos {
			a, b := t.Args[0], t.Args[1]
			if a.IsConst() {
				a, b = b, a
			}
			if b.IsConst() && !a.IsConst() {
				switch a.Sort.K {
				case smt.KInt:
					rs.ne[a] = append(rs.ne[a], b.Val)
				case smt.KBV:
					if f := cmpTreeFormula(t); f != nil {
						rs.learnTree(f, false)
					} else {
						rs.ne[a] = append(rs.ne[a], b.SignedVal())
					}
				}
			}
			return
		}
		a, b := t.Args[0], t.Args[1]
		if a.Sort.K == smt.KInt {
			if b.IsConst() {
				rs.add(rs.facts, a, ivl{lo: b.Val, hi: b.Val})
			} else if a.IsConst() {
				rs.add(rs.facts, b, ivl{lo: a.Val, hi: a.Val})
			}
		} else if a.Sort.K == smt.KBV {
			if f := cmpTreeFormula(t); f != nil {
				rs.learnTree(f, true)
			} else if b.IsConst() {
				rs.add(rs.sfacts, a, ivl{lo: b.SignedVal(), hi: b.SignedVal()})
			} else if a.IsConst() {
				rs.add(rs.sfacts, b, ivl{lo: a.SignedVal(), hi: a.SignedVal()})
			}
		}
	case smt.OBVSlt, smt.OBVSle, smt.OBVUlt, smt.OBVUle:
		if f := cmpTreeFormula(t); f != nil {
			rs.learnTree(f, pos)
			return
		}
		a, b := t.Args[0], t.Args[1]
		strict := t.Op == smt.OBVSlt || t.Op == smt.OBVUlt
		signed := t.Op == smt.OBVSlt || t.Op == smt.OBVSle
		if !pos {
			a, b = b, a
			strict = !strict
		}
		m := rs.ufacts
		val := func(c *smt.Term) *big.Int { return c.Val }
		if signed {
			m = rs.sfacts
			val = func(c *smt.Term) *big.Int { return c.SignedVal() }
		}
		if b.IsConst() {
			hi := val(b)
			if strict {
				hi = bsub1(hi)
			}
			rs.add(m, a, ivl{hi: hi})
		}
		if a.IsConst() {
			lo := val(a)
			if strict {
				lo = badd1(lo)
			}
			rs.add(m, b, ivl{lo: lo})
		}
	}
}

// ---- comparisons of (*big.Int).Cmp results -------------------------------------------------------
//
// big.Int.Cmp/Sign produce ite(lt, -1, ite(eq, 0, 1)) as a 64-bit vector that the program then
// compares with a constant. treeF is that comparison pushed to the leaves: a decision tree over the
// Int-level guards.

type treeF struct {
	leaf  bool
	val   bool
	guard *smt.Term
	a, b  *treeF
}

func constLeafTree(t *smt.Term, depth int) bool {
	if t.IsConst() {
		return true
	}
	if t.Op == smt.OIte && depth < 8 {
		return constLeafTree(t.Args[1], depth+1) && constLeafTree(t.Args[2], depth+1)
	}
	return false
}

func cmpTreeFormula(t *smt.Term) *treeF {
	a, b := t.Args[0], t.Args[1]
	if a.Sort.K != smt.KBV {
		return nil
	}
	var tree, k *smt.Term
	swapped := false
	switch {
	case b.IsConst() && a.Op == smt.OIte && constLeafTree(a, 0):
		tree, k = a, b
	case a.IsConst() && b.Op == smt.OIte && constLeafTree(b, 0):
		tree, k = b, a
		swapped = true
	default:
		return nil
	}
	cmp := func(leaf *smt.Term) bool {
		x, y := leaf, k
		if swapped {
			x, y = k, leaf
		}
		switch t.Op {
		case smt.OEq:
			return x.Val.Cmp(y.Val) == 0
		case smt.OBVSlt:
			return x.SignedVal().Cmp(y.SignedVal()) < 0
		case smt.OBVSle:
			return x.SignedVal().Cmp(y.SignedVal()) <= 0
		case smt.OBVUlt:
			return x.Val.Cmp(y.Val) < 0
		case smt.OBVUle:
			return x.Val.Cmp(y.Val) <= 0
		}
		return false
	}
	var build func(n *smt.Term) *treeF
	build = func(n *smt.Term) *treeF {
		if n.IsConst() {
			return &treeF{leaf: true, val: cmp(n)}
		}
		return &treeF{guard: n.Args[0], a: build(n.Args[1]), b: build(n.Args[2])}
	}
	return build(tree)
}

// learnTree: the tree evaluates to `want`. Learn the guards that are thereby forced.
func (rs *rangeState) learnTree(f *treeF, want bool) {
	if f.leaf {
		return
	}
	can := func(g *treeF) bool { return treeCan(g, want) }
	ca, cb := can(f.a), can(f.b)
	switch {
	case ca && !cb:
		rs.learn(f.guard, true)
		rs.learnTree(f.a, want)
	case cb && !ca:
		rs.learn(f.guard, false)
		rs.learnTree(f.b, want)
	case ca && cb:
		// ite(x<k, T, ite(x=k, T, F)) = x <= k ; ite(x<k, F, ite(x=k, F, T)) = x > k ; ...
		rs.learnLtEq(f, want)
	}
}

func treeCan(f *treeF, want bool) bool {
	if f.leaf {
		return f.val == want
	}
	return treeCan(f.a, want) || treeCan(f.b, want)
}

// learnLtEq handles the three-way shape ite(a<b, v1, ite(a=b, v2, v3)) with constant outcomes.
func (rs *rangeState) learnLtEq(f *treeF, want bool) {
	if f.leaf || f.b.leaf || !f.a.leaf || !f.b.a.leaf || !f.b.b.leaf {
		return
	}
	lt, eq := f.guard, f.b.guard
	if lt.Op != smt.OLt || eq.Op != smt.OEq {
		return
	}
	x, y := lt.Args[0], lt.Args[1]
	if !(eq.Args[0] == x && eq.Args[1] == y || eq.Args[0] == y && eq.Args[1] == x) {
		return
	}
	vlt, veq, vgt := f.a.val == want, f.b.a.val == want, f.b.b.val == want
	// allowed outcomes among {x<y, x=y, x>y}
	switch {
	case vlt && veq && !vgt: // x <= y
		rs.learnCmp(x, y, false)
	case !vlt && veq && vgt: // y <= x
		rs.learnCmp(y, x, false)
	case vlt && !veq && !vgt: // x < y
		rs.learnCmp(x, y, true)
	case !vlt && !veq && vgt: // y < x
		rs.learnCmp(y, x, true)
	case !vlt && veq && !vgt: // x = y
		rs.learnCmp(x, y, false)
		rs.learnCmp(y, x, false)
	case vlt && !veq && vgt: // x != y
		if y.IsConst() && !x.IsConst() {
			rs.ne[x] = append(rs.ne[x], y.Val)
		} else if x.IsConst() && !y.IsConst() {
			rs.ne[y] = append(rs.ne[y], x.Val)
		}
	}
}

func (rs *rangeState) learnCmp(a, b *smt.Term, strict bool) {
	if b.IsConst() {
		hi := b.Val
		if strict {
			hi = bsub1(hi)
		}
		rs.add(rs.facts, a, ivl{hi: hi})
	}
	if a.IsConst() {
		lo := a.Val
		if strict {
			lo = badd1(lo)
		}
		rs.add(rs.facts, b, ivl{lo: lo})
	}
}

func (rs *rangeState) learnOr(t *smt.Term) {
	// (a < b) or (a = b)
	l, r := t.Args[0], t.Args[1]
	if l.Op == smt.OEq {
		l, r = r, l
	}
	if l.Op == smt.OLt && r.Op == smt.OEq && r.Args[0].Sort.K == smt.KInt {
		x, y := l.Args[0], l.Args[1]
		if r.Args[0] == x && r.Args[1] == y || r.Args[0] == y && r.Args[1] == x {
			rs.learnCmp(x, y, false)
		}
	}
}

// ---- interval evaluation ---------------------------------------------------------------------------

func pow2big(n int) *big.Int { return new(big.Int).Lsh(big.NewInt(1), uint(n)) }

func (rs *rangeState) rng(t *smt.Term) ivl {
	if t.Sort.K != smt.KInt {
		return ivl{}
	}
	if t.IsConst() {
		return ivl{lo: t.Val, hi: t.Val}
	}
	if r, ok := rs.memo[t]; ok {
		return r
	}
	rs.memo[t] = ivl{} // cycle guard (DAG: not needed, cheap)
	r := rs.rng1(t)
	if f, ok := rs.facts[t]; ok {
		r = r.meet(f)
	}
	r = rs.trim(t, r)
	rs.memo[t] = r
	return r
}

func mulB(a, b *big.Int) *big.Int { return new(big.Int).Mul(a, b) }

func (rs *rangeState) rng1(t *smt.Term) ivl {
	switch t.Op {
	case smt.OAdd:
		a, b := rs.rng(t.Args[0]), rs.rng(t.Args[1])
		var r ivl
		if a.lo != nil && b.lo != nil {
			r.lo = new(big.Int).Add(a.lo, b.lo)
		}
		if a.hi != nil && b.hi != nil {
			r.hi = new(big.Int).Add(a.hi, b.hi)
		}
		return r
	case smt.OSub:
		a, b := rs.rng(t.Args[0]), rs.rng(t.Args[1])
		var r ivl
		if a.lo != nil && b.hi != nil {
			r.lo = new(big.Int).Sub(a.lo, b.hi)
		}
		if a.hi != nil && b.lo != nil {
			r.hi = new(big.Int).Sub(a.hi, b.lo)
		}
		return r
	case smt.ONeg:
		a := rs.rng(t.Args[0])
		var r ivl
		if a.hi != nil {
			r.lo = new(big.Int).Neg(a.hi)
		}
		if a.lo != nil {
			r.hi = new(big.Int).Neg(a.lo)
		}
		return r
	case smt.OMul:
		a, b := rs.rng(t.Args[0]), rs.rng(t.Args[1])
		if a.lo != nil && a.hi != nil && b.lo != nil && b.hi != nil {
			c := []*big.Int{mulB(a.lo, b.lo), mulB(a.lo, b.hi), mulB(a.hi, b.lo), mulB(a.hi, b.hi)}
			lo, hi := c[0], c[0]
			for _, v := range c[1:] {
				if v.Cmp(lo) < 0 {
					lo = v
				}
				if v.Cmp(hi) > 0 {
					hi = v
				}
			}
			return ivl{lo: lo, hi: hi}
		}
		if a.nonNeg() && b.nonNeg() {
			return ivl{lo: mulB(a.lo, b.lo)}
		}
		return ivl{}
	case smt.ODiv: // euclidean; for a positive divisor it is the floor
		a, b := rs.rng(t.Args[0]), rs.rng(t.Args[1])
		if !b.pos() {
			return ivl{}
		}
		var r ivl
		if a.nonNeg() {
			r.lo = big.NewInt(0)
			if b.hi != nil {
				r.lo = new(big.Int).Div(a.lo, b.hi)
			}
			if a.hi != nil {
				r.hi = new(big.Int).Div(a.hi, b.lo)
			}
			return r
		}
		if a.lo != nil {
			r.lo = new(big.Int).Div(a.lo, b.lo) // most negative: smallest divisor (floor)
			if a.lo.Sign() >= 0 {
				r.lo = big.NewInt(0)
			}
		}
		if a.hi != nil {
			if a.hi.Sign() >= 0 {
				r.hi = new(big.Int).Div(a.hi, b.lo)
			} else {
				r.hi = big.NewInt(-1)
				if b.hi != nil {
					r.hi = new(big.Int).Div(a.hi, b.hi)
				}
			}
		}
		return r
	case smt.OMod:
		b := rs.rng(t.Args[1])
		if b.pos() {
			r := ivl{lo: big.NewInt(0)}
			if b.hi != nil {
				r.hi = bsub1(b.hi)
			}
			a := rs.rng(t.Args[0])
			if a.nonNeg() && a.hi != nil && (r.hi == nil || a.hi.Cmp(r.hi) < 0) {
				r.hi = a.hi
			}
			return r
		}
		return ivl{}
	case smt.OIte:
		switch rs.decide(t.Args[0]) {
		case 1:
			return rs.rng(t.Args[1])
		case 2:
			return rs.rng(t.Args[2])
		}
		return rs.rng(t.Args[1]).hull(rs.rng(t.Args[2]))
	case smt.OBV2Int:
		x := t.Args[0]
		r := ivl{lo: big.NewInt(0), hi: bsub1(pow2big(x.Sort.W))}
		if f, ok := rs.ufacts[x]; ok {
			r = r.meet(f)
		}
		if sr := rs.srng(x); sr.nonNeg() {
			r = r.meet(sr) // non-negative as signed: both readings agree
		}
		return r
	case smt.OBV2IntS:
		return rs.srng(t.Args[0])
	}
	return ivl{}
}

// decide: 1 = implied true, 2 = implied false, 0 = not decided.
func (rs *rangeState) decide(c *smt.Term) int8 {
	if c.IsConst() {
		if c.IsTrue() {
			return 1
		}
		return 2
	}
	if v, ok := rs.bmemo[c]; ok {
		return v
	}
	rs.bmemo[c] = 0
	v := rs.decide1(c)
	rs.bmemo[c] = v
	return v
}

func (rs *rangeState) decide1(c *smt.Term) int8 {
	neg := func(v int8) int8 {
		switch v {
		case 1:
			return 2
		case 2:
			return 1
		}
		return 0
	}
	switch c.Op {
	case smt.OVar:
		if f, ok := rs.boolFacts[c]; ok {
			if f {
				return 1
			}
			return 2
		}
		return 0
	case smt.ONot:
		return neg(rs.decide(c.Args[0]))
	case smt.OAnd:
		a, b := rs.decide(c.Args[0]), rs.decide(c.Args[1])
		if a == 2 || b == 2 {
			return 2
		}
		if a == 1 && b == 1 {
			return 1
		}
		return 0
	case smt.OOr:
		a, b := rs.decide(c.Args[0]), rs.decide(c.Args[1])
		if a == 1 || b == 1 {
			return 1
		}
		if a == 2 && b == 2 {
			return 2
		}
		return 0
	case smt.OLt:
		a, b := rs.rng(c.Args[0]), rs.rng(c.Args[1])
		if a.hi != nil && b.lo != nil && a.hi.Cmp(b.lo) < 0 {
			return 1
		}
		if a.lo != nil && b.hi != nil && a.lo.Cmp(b.hi) >= 0 {
			return 2
		}
		return 0
	case smt.OLe:
		a, b := rs.rng(c.Args[0]), rs.rng(c.Args[1])
		if a.hi != nil && b.lo != nil && a.hi.Cmp(b.lo) <= 0 {
			return 1
		}
		if a.lo != nil && b.hi != nil && a.lo.Cmp(b.hi) > 0 {
			return 2
		}
		return 0
	case smt.OEq:
		if c.Args[0].Sort.K == smt.KInt {
			a, b := rs.rng(c.Args[0]), rs.rng(c.Args[1])
			if a.hi != nil && b.lo != nil && a.hi.Cmp(b.lo) < 0 || a.lo != nil && b.hi != nil && a.lo.Cmp(b.hi) > 0 {
				return 2
			}
			if a.lo != nil && a.hi != nil && b.lo != nil && b.hi != nil && a.lo.Cmp(a.hi) == 0 && b.lo.Cmp(b.hi) == 0 && a.lo.Cmp(b.lo) == 0 {
				return 1
			}
			return 0
		}
		if c.Args[0].Sort.K == smt.KBool {
			a, b := rs.decide(c.Args[0]), rs.decide(c.Args[1])
			if a != 0 && b != 0 {
				if a == b {
					return 1
				}
				return 2
			}
			return 0
		}
		if f := cmpTreeFormula(c); f != nil {
			return rs.decideTree(f)
		}
	case smt.OBVSlt, smt.OBVSle, smt.OBVUlt, smt.OBVUle:
		if f := cmpTreeFormula(c); f != nil {
			return rs.decideTree(f)
		}
	case smt.OIte:
		switch rs.decide(c.Args[0]) {
		case 1:
			return rs.decide(c.Args[1])
		case 2:
			return rs.decide(c.Args[2])
		}
		a, b := rs.decide(c.Args[1]), rs.decide(c.Args[2])
		if a == b {
			return a
		}
	}
	return 0
}

func (rs *rangeState) decideTree(f *treeF) int8 {
	if f.leaf {
		if f.val {
			return 1
		}
		return 2
	}
	switch rs.decide(f.guard) {
	case 1:
		return rs.decideTree(f.a)
	case 2:
		return rs.decideTree(f.b)
	}
	a, b := rs.decideTree(f.a), rs.decideTree(f.b)
	if a == b {
		return a
	}
	return 0
}

// decideByRanges reports whether the current path condition implies c (true) or not c (false).
func (it *Interp) decideByRanges(c *smt.Term) (bool, bool) {
	if it.P == nil || it.M == nil {
		return false, false
	}
	switch it.ranges().decide(c) {
	case 1:
		return true, true
	case 2:
		return false, true
	}
	return false, false
}

// rangeOf returns the interval of an Int term under the current path condition.
func (it *Interp) rangeOf(t *smt.Term) ivl {
	if it.P == nil || it.M == nil {
		return ivl{}
	}
	return it.ranges().rng(t)
}
