package sym

import (
	"crypto/sha256"
	"encoding/hex"

	"golang.org/x/tools/go/ssa"
)

// Redirect replaces calls of `name` by calls of the harness-provided function pkgRel.fn (same signature
// with the receiver as first parameter). The harness function is ordinary dual-mode Go code.
func Redirect(name, pkgRel, fn string) {
	Register(name, func(it *Interp, _ *ssa.Function, a []Value) Value {
		p := it.L.Package(ModPath + "/" + pkgRel)
		if p == nil {
			it.abort("redirect target package %s not loaded", pkgRel)
		}
		f := p.Func(fn)
		if f == nil {
			it.abort("redirect target %s.%s not found (harness must define it)", pkgRel, fn)
		}
		return it.callFn(f, a, nil, 0)
	})
}

const filecachePkg = ModPath + "/pkg/filecache"

func init() {
	// go-owasm VM (cgo): behaviour supplied by the harness (arbitrary result / return data)
	Redirect("(github.com/bandprotocol/go-owasm/api.Vm).Execute", "x/oracle/keeper", "verifOwasmExecute")
	Redirect("(github.com/bandprotocol/go-owasm/api.Vm).Prepare", "x/oracle/keeper", "verifOwasmPrepare")

	// pkg/filecache (diskv-backed): in-memory map keyed by sha256 hex of concrete content
	files := func(it *Interp) map[string]Value {
		m, ok := it.M.extra["filecache"].(map[string]Value)
		if !ok {
			m = map[string]Value{}
			it.M.extra["filecache"] = m
		}
		return m
	}
	Register(filecachePkg+".New", func(it *Interp, fn *ssa.Function, a []Value) Value {
		return it.zero(fn.Signature.Results().At(0).Type())
	})
	Register("("+filecachePkg+".Cache).AddFile", func(it *Interp, fn *ssa.Function, a []Value) Value {
		bs := it.bytesOfAny(a[1])
		if !allConst(bs) {
			it.abort("filecache.AddFile of symbolic content")
		}
		h := sha256.Sum256(constBytes(bs))
		name := hex.EncodeToString(h[:])
		if _, dup := files(it)[name]; !dup { // AddFile writes only when the file does not exist; the content is copied
			files(it)[name] = it.fileReadCopy(a[1])
		}
		return StrV{S: name}
	})
	Register("("+filecachePkg+".Cache).GetFile", func(it *Interp, fn *ssa.Function, a []Value) Value {
		name := concStr(it, a[1], "filecache.GetFile")
		v, ok := files(it)[name]
		if !ok {
			return TupleV{SliceV{}, it.opaqueError("file not found")}
		}
		return TupleV{it.fileReadCopy(v), IfaceV{}}
	})
	Register("("+filecachePkg+".Cache).MustGetFile", func(it *Interp, fn *ssa.Function, a []Value) Value {
		name := concStr(it, a[1], "filecache.MustGetFile")
		v, ok := files(it)[name]
		if !ok {
			it.goPanicStr("explicit", "filecache: file not found "+name)
		}
		return it.fileReadCopy(v)
	})
}
