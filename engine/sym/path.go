package sym

import (
	"fmt"
	"math/big"
	"os"
	"runtime"
	"sort"
	"strings"
	"sync"
	"sync/atomic"
	"time"

	"golang.org/x/tools/go/ssa"

	"symgo/smt"
)

type dec struct {
	taken  bool
	forced bool // the other side was proved infeasible: nothing is added to the path condition
	choice bool // pure scheduling choice (no condition)
}

type NondetRec struct {
	Label string
	Kind  string // "bv8","bv64","bool","int" (SMT Int)
	T     *smt.Term
}

// Path is one execution of a harness following a decision prefix.
type Path struct {
	PC      []*smt.Term
	pcSet   map[int]bool
	Prefix  []dec
	Decs    []dec
	Nondets []NondetRec
	Picks   []int // concrete choices made by vs.Pick on this path, in order
	unknown bool
	// abstraction of expensive operators (see abstractURem): exact definitions, added when a model matters
	Exact    []*smt.Term
	uremMemo map[[2]int]*smt.Term
	// constraint independence: union-find over the atoms (variables and UF applications) of the conjuncts
	ufParent map[int]int
	pcAtom   []int // one representative atom per conjunct (-1: no atoms)
}

// Violation is a failed obligation with a model.
type Violation struct {
	Harness string
	Label   string
	Kind    string // "assert", "panic"
	Msg     string
	Tape    []TapeEntry
	Known   string // id of a known finding whose condition holds in the model ("" otherwise)
	Path    []bool
	// NoNativeReplay: the violation is "a nondeterministic source is reachable"; a native run cannot fail on it,
	// the tape reproduces the path that reaches the source.
	NoNativeReplay bool
	Case           int
	PickSig        string // the vs.Pick choices of the path (candidate diversity)
}

type TapeEntry struct {
	Label string `json:"label"`
	Kind  string `json:"kind"`
	Value string `json:"value"` // decimal
}

// JobResult accumulates over all paths of one harness job.
type JobResult struct {
	Harness      string
	Case         int
	Paths        int
	Completed    int
	Infeasible   int
	Branches     int
	Obligations  int
	Discharged   int
	Queries      int
	SolverTime   time.Duration
	Wall         time.Duration
	Violations   []*Violation
	KnownHits    map[string]*Violation
	Inconclusive []string
	Reached      map[string]bool
	Witness      map[string][]TapeEntry
	WitnessCase  map[string]int
	Funcs        map[string]bool
	UnwindMax    int
	Samples      []string
	MaxSteps     int64
}

type job struct {
	harness *ssa.Function
	hcfg    *HarnessCfg
	caseN   int
}

// Worker explores all paths of a job.
type Worker struct {
	L   *Loaded
	Cfg *Config
}

func (it *Interp) take(c *smt.Term, d dec) {
	p := it.P
	p.Decs = append(p.Decs, d)
	if d.choice {
		return
	}
	t := c
	if !d.taken {
		t = it.C.Not(c)
	}
	// forced decisions are implied by the path condition; they are kept as lemmas (cheap for the
	// solver, and the interval pre-solver learns bounds from them)
	it.addPC(t)
}

func (it *Interp) addPC(t *smt.Term) {
	p := it.P
	if t.IsTrue() || p.pcSet[t.ID] {
		return
	}
	// split conjunctions so that syntactic look-ups hit more often
	if t.Op == smt.OAnd {
		it.addPC(t.Args[0])
		it.addPC(t.Args[1])
		return
	}
	p.pcSet[t.ID] = true
	p.PC = append(p.PC, t)
	atoms := it.atomsOf(t)
	rep := -1
	for _, a := range atoms {
		if rep < 0 {
			rep = a
		} else {
			p.union(rep, a)
		}
	}
	p.pcAtom = append(p.pcAtom, rep)
}

func (p *Path) find(x int) int {
	if p.ufParent == nil {
		p.ufParent = map[int]int{}
	}
	r, ok := p.ufParent[x]
	if !ok {
		p.ufParent[x] = x
		return x
	}
	if r == x {
		return x
	}
	root := p.find(r)
	p.ufParent[x] = root
	return root
}

func (p *Path) union(a, b int) {
	ra, rb := p.find(a), p.find(b)
	if ra != rb {
		p.ufParent[ra] = rb
	}
}

// atomsOf returns the ids of the variables and UF applications occurring in t (UF arguments are not entered:
// an application is an atom of its own).
func (it *Interp) atomsOf(t *smt.Term) []int {
	if it.atomCache == nil {
		it.atomCache = map[int][]int{}
	}
	if a, ok := it.atomCache[t.ID]; ok {
		return a
	}
	seen := map[int]bool{}
	var out []int
	var visit func(x *smt.Term)
	visited := map[int]bool{}
	visit = func(x *smt.Term) {
		if visited[x.ID] {
			return
		}
		visited[x.ID] = true
		switch x.Op {
		case smt.OConst:
			return
		case smt.OVar, smt.OApp:
			if !seen[x.ID] {
				seen[x.ID] = true
				out = append(out, x.ID)
			}
			return
		}
		if sub, ok := it.atomCache[x.ID]; ok {
			for _, a := range sub {
				if !seen[a] {
					seen[a] = true
					out = append(out, a)
				}
			}
			return
		}
		for _, a := range x.Args {
			visit(a)
		}
	}
	visit(t)
	it.atomCache[t.ID] = out
	return out
}

// slice returns the conjuncts of the path condition that share atoms (transitively) with the given terms.
// Dropping the others over-approximates satisfiability, which is sound for feasibility (more paths) and for
// proving obligations (unsat of a subset implies unsat of the whole); a sat answer for an obligation is
// re-decided on the full path condition by the caller.
func (it *Interp) slice(ts ...*smt.Term) []*smt.Term {
	p := it.P
	if it.Cfg.NoSlice {
		return append([]*smt.Term{}, p.PC...)
	}
	roots := map[int]bool{}
	for _, t := range ts {
		for _, a := range it.atomsOf(t) {
			roots[p.find(a)] = true
		}
	}
	var out []*smt.Term
	for i, c := range p.PC {
		a := p.pcAtom[i]
		if a < 0 || roots[p.find(a)] {
			out = append(out, c)
		}
	}
	return out
}

func (it *Interp) feasible(c *smt.Term) smt.Result {
	if c.IsConst() {
		if c.IsTrue() {
			return smt.Sat
		}
		return smt.Unsat
	}
	p := it.P
	if p.pcSet[c.ID] {
		return smt.Sat
	}
	if n := it.C.Not(c); p.pcSet[n.ID] {
		return smt.Unsat
	}
	if v, ok := it.decideByRanges(c); ok { // interval pre-solver (models_ranges.go)
		if v {
			return smt.Sat
		}
		return smt.Unsat
	}
	if it.sampleSat(c) { // sampling pre-solver (models_sample.go): concrete witness
		return smt.Sat
	}
	as := append(it.slice(c), c)
	t0 := time.Now()
	r, err := it.S.Check(as, it.Cfg.FeasTimeoutMs)
	if it.Cfg.Verbose > 0 && time.Since(t0) > time.Second {
		fmt.Fprintf(os.Stderr, "slow feasibility query %.1fs => %v slice=%d/%d at %s\n   cond: %s\n", time.Since(t0).Seconds(), r, len(as)-1, len(p.PC), it.where(), it.C.String(c))
	}
	if err != nil {
		it.jr.Inconclusive = append(it.jr.Inconclusive, "solver: "+err.Error())
		return smt.Unknown
	}
	if r == smt.Sat {
		it.S.Pop()
	}
	return r
}

// quickUnsat reports whether c contradicts the conjuncts of the path condition whose atoms are all atoms of c
// (a tiny query; unsat of a subset implies unsat of the whole).
func (it *Interp) quickUnsat(c *smt.Term) bool {
	p := it.P
	if it.Cfg.NoSlice {
		return false
	}
	mine := map[int]bool{}
	for _, a := range it.atomsOf(c) {
		mine[a] = true
	}
	if len(mine) == 0 || len(mine) > 6 {
		return false
	}
	var sub []*smt.Term
	for _, k := range p.PC {
		at := it.atomsOf(k)
		if len(at) == 0 || len(at) > len(mine) {
			continue
		}
		ok := true
		for _, a := range at {
			if !mine[a] {
				ok = false
				break
			}
		}
		if ok {
			sub = append(sub, k)
		}
	}
	if len(sub) == 0 || len(sub) == len(p.PC) {
		return false
	}
	it.S.Tag = "quickUnsat"
	r, err := it.S.Check(append(sub, c), 2000)
	it.S.Tag = ""
	if err != nil {
		return false
	}
	if r == smt.Sat {
		it.S.Pop()
	}
	return r == smt.Unsat
}

// Branch decides a symbolic condition, forking when both sides are feasible.
func (it *Interp) Branch(c *smt.Term) bool {
	if c.IsConst() {
		return c.IsTrue()
	}
	p := it.P
	if it.inInit > 0 {
		it.abort("symbolic branch during package initialisation")
	}
	if n := len(p.Decs); n < len(p.Prefix) {
		d := p.Prefix[n]
		it.take(c, d)
		return d.taken
	}
	it.jr.Branches++
	if v, ok := it.decideByRanges(c); ok { // interval pre-solver (models_ranges.go): no solver call
		it.take(c, dec{taken: v, forced: true})
		return v
	}
	// sampling pre-solver (models_sample.go): a concrete witness for each side means a fork, no solver call
	sc, sn := it.sampleSat(c), it.sampleSat(it.C.Not(c))
	if sc && sn {
		alt := append(append([]dec{}, p.Decs...), dec{taken: false})
		it.push(alt)
		it.take(c, dec{taken: true})
		return true
	}
	// cheap pass: constraints that only talk about the atoms of the condition (ranges, earlier decisions)
	if !sc && it.quickUnsat(c) {
		d := dec{taken: false, forced: true}
		it.take(c, d)
		return false
	}
	if !sn && it.quickUnsat(it.C.Not(c)) {
		d := dec{taken: true, forced: true}
		it.take(c, d)
		return true
	}
	if it.genericBothWays(c) {
		// an algebraic equation between independent symbolic quantities: both outcomes are taken without
		// asking the (non-linear) solver; an outcome that is in fact infeasible only adds a path whose
		// obligations are discharged vacuously
		// explore the generic outcome first (the equation does NOT hold), the degenerate one later
		generic := c.Op == smt.ONot
		alt := append(append([]dec{}, p.Decs...), dec{taken: !generic})
		it.push(alt)
		d := dec{taken: generic}
		it.take(c, d)
		return generic
	}
	rt := it.feasible(c)
	var d dec
	switch rt {
	case smt.Unsat:
		d = dec{taken: false, forced: true}
	default:
		if rt == smt.Unknown {
			p.unknown = true
		}
		rf := it.feasible(it.C.Not(c))
		switch rf {
		case smt.Unsat:
			d = dec{taken: true, forced: rt == smt.Sat}
		default:
			if rf == smt.Unknown {
				p.unknown = true
			}
			// fork: schedule the false side
			alt := append(append([]dec{}, p.Decs...), dec{taken: false})
			it.push(alt)
			d = dec{taken: true}
		}
	}
	it.take(c, d)
	return d.taken
}

// ForkChoice forks without a condition (scheduling / permutation choices).
func (it *Interp) ForkChoice() bool {
	p := it.P
	if n := len(p.Decs); n < len(p.Prefix) {
		d := p.Prefix[n]
		p.Decs = append(p.Decs, d)
		return d.taken
	}
	alt := append(append([]dec{}, p.Decs...), dec{taken: false, choice: true})
	it.push(alt)
	p.Decs = append(p.Decs, dec{taken: true, choice: true})
	return true
}

// Assume adds c to the path condition, ending the path when infeasible.
func (it *Interp) Assume(c *smt.Term) {
	if c.IsConst() {
		if c.IsFalse() {
			panic(&pathEnd{kind: "infeasible"})
		}
		return
	}
	if n := len(it.P.Decs); n < len(it.P.Prefix) {
		// replaying a known-feasible prefix: no need to re-check
		it.addPC(c)
		return
	}
	r := it.feasible(c)
	if r == smt.Unsat {
		panic(&pathEnd{kind: "infeasible"})
	}
	if r == smt.Unknown {
		it.P.unknown = true
	}
	it.addPC(c)
}

func (it *Interp) push(prefix []dec) {
	it.work.mu.Lock()
	it.work.items = append(it.work.items, prefix)
	it.work.mu.Unlock()
	if forkStatOn {
		site := "?"
		for i := len(it.stack) - 1; i >= 0 && i >= len(it.stack)-3; i-- {
			if i == len(it.stack)-1 {
				site = it.stack[i].fn.String()
			} else {
				site += " <- " + it.stack[i].fn.String()
			}
		}
		forkStatMu.Lock()
		forkStat[site]++
		forkStatMu.Unlock()
	}
}

// fork-site profile (SYMGO_FORKSTAT=1): which functions split paths most often
var (
	forkStatOn = os.Getenv("SYMGO_FORKSTAT") != ""
	forkStatMu sync.Mutex
	forkStat   = map[string]int{}
)

// PrintForkStat prints the 15 most frequent fork sites.
func PrintForkStat(reset bool) {
	if !forkStatOn {
		return
	}
	type kv struct {
		k string
		v int
	}
	var l []kv
	forkStatMu.Lock()
	for k, v := range forkStat {
		l = append(l, kv{k, v})
	}
	if reset {
		forkStat = map[string]int{}
	}
	forkStatMu.Unlock()
	sort.Slice(l, func(i, j int) bool { return l[i].v > l[j].v })
	for i, e := range l {
		if i >= 15 {
			break
		}
		fmt.Fprintf(os.Stderr, "fork-site %7d  %s\n", e.v, e.k)
	}
}

type workList struct {
	mu      sync.Mutex
	items   [][]dec
	active  int
	reached map[string]bool // Reach labels already witnessed by some worker of this job
	ctl     *runCtl
}

// runCtl is shared by all workers of one harness run. After the first violation the exploration continues
// for a short grace period only (to collect alternative counterexamples for the native replay), and a wall
// budget bounds the whole harness.
type runCtl struct {
	stopAt int64 // unix nanoseconds; 0 = not set
	budget int64 // unix nanoseconds; 0 = none
}

const violationGrace = 45 * time.Second

func (c *runCtl) noteViolation() {
	if c == nil {
		return
	}
	atomic.CompareAndSwapInt64(&c.stopAt, 0, time.Now().Add(violationGrace).UnixNano())
}

// expired: 1 = stop after a violation, 2 = wall budget exceeded
func (c *runCtl) expired() int {
	if c == nil {
		return 0
	}
	now := time.Now().UnixNano()
	if t := atomic.LoadInt64(&c.stopAt); t != 0 && now > t {
		return 1
	}
	if c.budget != 0 && now > c.budget {
		return 2
	}
	return 0
}

const maxCandidatesPerLabel = 4

func (w *workList) isReached(label string) bool {
	w.mu.Lock()
	defer w.mu.Unlock()
	return w.reached[label]
}

func (w *workList) markReached(label string) {
	w.mu.Lock()
	if w.reached == nil {
		w.reached = map[string]bool{}
	}
	w.reached[label] = true
	w.mu.Unlock()
}

// pop returns the next prefix; finished is true when no work is left and nobody is active.
func (w *workList) pop() (x []dec, ok bool, finished bool) {
	w.mu.Lock()
	defer w.mu.Unlock()
	n := len(w.items)
	if n == 0 {
		return nil, false, w.active == 0
	}
	x = w.items[n-1]
	w.items = w.items[:n-1]
	w.active++
	return x, true, false
}

func (w *workList) done() {
	w.mu.Lock()
	w.active--
	w.mu.Unlock()
}

// ---------- nondeterministic inputs ----------

func (it *Interp) nondet(label, kind string, s smt.Sort) *smt.Term {
	p := it.P
	name := fmt.Sprintf("n%d_%s", len(p.Nondets), label)
	t := it.C.Var(name, s)
	p.Nondets = append(p.Nondets, NondetRec{Label: label, Kind: kind, T: t})
	it.S.Declare(t)
	return t
}

// ---------- obligations ----------

func (it *Interp) tapeFromModel() ([]TapeEntry, map[*smt.Term]*big.Int, error) {
	p := it.P
	vars := make([]*smt.Term, len(p.Nondets))
	for i, n := range p.Nondets {
		vars[i] = n.T
	}
	vals := map[*smt.Term]*big.Int{}
	if len(vars) > 0 {
		var err error
		vals, err = it.S.GetValues(vars)
		if err != nil {
			return nil, nil, err
		}
	}
	tape := make([]TapeEntry, len(p.Nondets))
	for i, n := range p.Nondets {
		v := vals[n.T]
		if v == nil {
			v = big.NewInt(0)
		}
		tape[i] = TapeEntry{Label: n.Label, Kind: n.Kind, Value: v.String()}
	}
	return tape, vals, nil
}

func (it *Interp) pathBools() []bool {
	r := make([]bool, len(it.P.Decs))
	for i, d := range it.P.Decs {
		r[i] = d.taken
	}
	return r
}

// Assert discharges the obligation pc => c.
func (it *Interp) Assert(label string, c *smt.Term) {
	it.jr.Obligations++
	if c.IsTrue() {
		it.jr.Discharged++
		return
	}
	known := it.M.knownCond // set by vsupport.Known just before the Assert
	it.M.knownCond = nil
	knownID := it.M.knownID
	it.M.knownID = ""
	if v, ok := it.decideByRanges(c); ok && v { // implied by interval reasoning (models_ranges.go)
		it.jr.Discharged++
		it.addPC(c)
		return
	}
	neg := it.C.Not(c)
	if known != nil && it.L.OpenFindings[knownID] {
		// open finding: must hold outside the known condition
		as := append(append([]*smt.Term{}, it.P.PC...), neg, it.C.Not(known))
		r, err := it.S.Check(as, it.Cfg.AssertTimeout)
		if err != nil || r == smt.Unknown {
			it.jr.Inconclusive = append(it.jr.Inconclusive, fmt.Sprintf("assert %s: solver %v %v", label, r, err))
		} else if r == smt.Sat {
			it.recordViolation(label, "assert", "assertion "+label+" fails outside the known-finding condition "+knownID, "")
			it.S.Pop()
		} else {
			it.jr.Discharged++
		}
		as = append(append([]*smt.Term{}, it.P.PC...), neg, known)
		r, err = it.S.Check(as, it.Cfg.AssertTimeout)
		if err == nil && r == smt.Sat {
			it.recordViolation(label, "assert", "known finding "+knownID, knownID)
			it.S.Pop()
		}
		it.Assume(c)
		return
	}
	as := append(it.slice(neg), neg)
	tA := time.Now()
	r, err := it.S.Check(as, it.Cfg.AssertTimeout)
	if it.Cfg.Verbose > 0 && time.Since(tA) > time.Second {
		fmt.Fprintf(os.Stderr, "slow assertion query %.1fs => %v slice=%d/%d label=%s\n   cond: %s\n", time.Since(tA).Seconds(), r, len(as)-1, len(it.P.PC), label, it.C.String(neg))
	}
	if err == nil && r == smt.Sat && len(as) < len(it.P.PC)+1 {
		// the slice admits a counterexample: decide on the full path condition
		it.S.Pop()
		as = append(append([]*smt.Term{}, it.P.PC...), neg)
		it.S.Tag = "assert-full:" + label
		r, err = it.S.Check(as, it.Cfg.AssertTimeout)
		it.S.Tag = ""
	}
	if err == nil && r == smt.Sat && len(it.P.Exact) > 0 {
		// the abstraction admits a counterexample: decide it with the exact definitions
		it.S.Pop()
		as = append(as, it.P.Exact...)
		r, err = it.S.Check(as, it.Cfg.AssertTimeout)
	}
	if d := os.Getenv("SYMGO_DUMP_ASSERT"); d != "" && d == label && (err != nil || r != smt.Unsat) {
		old := smt.MaxPrintDepth
		smt.MaxPrintDepth = 60
		os.WriteFile("/tmp/assert_"+label+".txt", []byte(it.C.String(c)), 0o644)
		smt.MaxPrintDepth = old
	}
	if err != nil || r == smt.Unknown {
		// the solver gave up (typically non-linear integer arithmetic): a concrete assignment that satisfies the
		// whole path condition and the negated assertion is a counterexample all the same
		if env := it.sampleWitnessN(neg, 6000); env != nil {
			it.recordViolationTape(label, "assert", "assertion "+label+" can fail (counterexample found by concrete evaluation after the solver answered unknown)", it.tapeFromEnv(env))
			it.Assume(c)
			return
		}
	}
	switch {
	case err != nil || r == smt.Unknown:
		it.jr.Inconclusive = append(it.jr.Inconclusive, fmt.Sprintf("assert %s: solver %v %v", label, r, err))
	case r == smt.Sat:
		it.recordViolation(label, "assert", "assertion "+label+" can fail", "")
		it.S.Pop()
	default:
		it.jr.Discharged++
		it.addPC(c) // PC implies c: no feasibility query needed
		return
	}
	// continue under the assumption that it held
	it.Assume(c)
}

// tapeFromEnv turns a concrete assignment found by the sampler into a replay tape.
func (it *Interp) tapeFromEnv(env map[*smt.Term]*smt.Term) []TapeEntry {
	tape := make([]TapeEntry, len(it.P.Nondets))
	for i, n := range it.P.Nondets {
		v := big.NewInt(0)
		if cv, ok := env[n.T]; ok && cv != nil && cv.IsConst() {
			v = cv.Val
		}
		tape[i] = TapeEntry{Label: n.Label, Kind: n.Kind, Value: v.String()}
	}
	return tape
}

func (it *Interp) recordViolation(label, kind, msg, known string) {
	tape, _, err := it.tapeFromModel()
	if err != nil {
		it.jr.Inconclusive = append(it.jr.Inconclusive, "model extraction: "+err.Error())
	}
	it.recordViolationKnown(label, kind, msg, known, tape)
}

func (it *Interp) recordViolationTape(label, kind, msg string, tape []TapeEntry) {
	it.recordViolationKnown(label, kind, msg, "", tape)
}

func (it *Interp) recordViolationKnown(label, kind, msg, known string, tape []TapeEntry) {
	defer func() {
		// "schedule:" assertions relate two executions under different scheduling choices (map iteration
		// orders); a native run cannot be steered into them, the counterexample is reported as found
		if strings.HasPrefix(label, "schedule:") {
			for _, x := range it.jr.Violations {
				if x.Label == label {
					x.NoNativeReplay = true
				}
			}
		}
	}()
	v := &Violation{Harness: it.jr.Harness, Label: label, Kind: kind, Msg: msg, Tape: tape, Known: known, Path: it.pathBools(), Case: it.caseN}
	if known != "" {
		if it.jr.KnownHits == nil {
			it.jr.KnownHits = map[string]*Violation{}
		}
		if _, ok := it.jr.KnownHits[known]; !ok {
			it.jr.KnownHits[known] = v
		}
		return
	}
	// keep a few counterexamples per label (a counterexample that depends on the solver's choice of an
	// uninterpreted hash value does not reproduce natively; another one of the same label may)
	// ... and keep them diverse: one per combination of vs.Pick choices
	v.PickSig = fmt.Sprint(it.caseN, it.P.Picks)
	n := 0
	for _, o := range it.jr.Violations {
		if o.Label == label {
			n++
			if o.PickSig == v.PickSig {
				return
			}
		}
	}
	if n >= maxCandidatesPerLabel {
		return
	}
	it.jr.Violations = append(it.jr.Violations, v)
	if it.work != nil {
		it.work.ctl.noteViolation()
	}
}

// Reach records that label is feasibly reached with cond.
func (it *Interp) Reach(label string, c *smt.Term) {
	if it.jr.Reached[label] {
		return
	}
	if c.IsFalse() {
		return
	}
	if it.work != nil && it.work.isReached(label) {
		return // another worker already holds a witness (a witness query is a full-model query and can be slow)
	}
	if env := it.sampleWitness(c); env != nil {
		// a concrete witness found by sampling: no solver call needed
		tape := it.tapeFromEnv(env)
		if it.work != nil {
			it.work.markReached(label)
		}
		it.jr.Reached[label] = true
		it.jr.Witness[label] = tape
		if it.jr.WitnessCase == nil {
			it.jr.WitnessCase = map[string]int{}
		}
		it.jr.WitnessCase[label] = it.caseN
		return
	}
	if it.Cfg.Verbose > 0 {
		fmt.Fprintf(os.Stderr, "reach %s: no sampled witness, asking the solver (pc=%d)\n", label, len(it.P.PC))
	}
	as := append(append([]*smt.Term{}, it.P.PC...), c)
	as = append(as, it.P.Exact...)
	to := it.Cfg.AssertTimeout
	if to > 20_000 {
		to = 20_000 // sampling failed: this path is probably degenerate; another path will witness the label
	}
	r, err := it.S.Check(as, to)
	if err != nil || r == smt.Unknown {
		// the solver gave up: many more sampled assignments than the pre-solver tries
		if env := it.sampleWitnessN(c, 4000); env != nil {
			if it.work != nil {
				it.work.markReached(label)
			}
			it.jr.Reached[label] = true
			it.jr.Witness[label] = it.tapeFromEnv(env)
			if it.jr.WitnessCase == nil {
				it.jr.WitnessCase = map[string]int{}
			}
			it.jr.WitnessCase[label] = it.caseN
		}
		return
	}
	if r != smt.Sat {
		return
	}
	tape, _, err := it.tapeFromModel()
	it.S.Pop()
	if err == nil {
		if it.work != nil {
			it.work.markReached(label)
		}
		it.jr.Reached[label] = true
		it.jr.Witness[label] = tape
		if it.jr.WitnessCase == nil {
			it.jr.WitnessCase = map[string]int{}
		}
		it.jr.WitnessCase[label] = it.caseN
	} else {
		it.jr.Inconclusive = append(it.jr.Inconclusive, "reach "+label+": model extraction: "+err.Error())
	}
}

// ---------- running a job ----------

// maxWorkerTerms: a worker's term table (hash-consed, never shrinks) is rebuilt from scratch once it holds this
// many terms: every path re-executes the harness from its decision prefix, so nothing has to survive except the
// accumulated results. Keeps long runs within memory (a thorough tier reached 40 GB without it).
const maxWorkerTerms = 1_500_000

func (w *Worker) RunJob(j job, solverBin string, shared *workList, jr *JobResult, mu *sync.Mutex, id int) {
	local := &JobResult{Harness: jr.Harness, Reached: map[string]bool{}, Witness: map[string][]TapeEntry{}, Funcs: map[string]bool{}}
	var sol *smt.Solver
	var it *Interp
	fresh := func() bool {
		if sol != nil {
			local.Queries += sol.Queries
			local.SolverTime += sol.Time
			sol.Close()
		}
		ctx := smt.NewCtx()
		var err error
		sol, err = smt.NewSolver(ctx, solverBin)
		if err != nil {
			mu.Lock()
			jr.Inconclusive = append(jr.Inconclusive, "cannot start solver: "+err.Error())
			mu.Unlock()
			sol = nil
			return false
		}
		if j.hcfg != nil && len(j.hcfg.cur.SolverOpts) > 0 {
			sol.SetPreamble(strings.Join(j.hcfg.cur.SolverOpts, "\n") + "\n")
		}
		it = &Interp{C: ctx, S: sol, L: w.L, Cfg: w.Cfg,
			globals: map[*ssa.Global]*Obj{}, pkgInit: map[*ssa.Package]int{}, fninfo: map[*ssa.Function]*fnInfo{},
			FuncsSeen: local.Funcs}
		it.jr = local
		it.work = shared
		it.hcfg = j.hcfg
		if j.hcfg != nil && j.hcfg.cur.NoLift {
			ctx.NoLift = true
		}
		it.caseN = j.caseN
		return true
	}
	if !fresh() {
		return
	}
	defer func() {
		if sol != nil {
			sol.Close()
		}
	}()
	for {
		if e := shared.ctl.expired(); e != 0 {
			if e == 2 {
				local.Inconclusive = append(local.Inconclusive, "wall budget of the harness exceeded: exploration incomplete")
			}
			break
		}
		prefix, ok, finished := shared.pop()
		if finished {
			break
		}
		if !ok {
			time.Sleep(2 * time.Millisecond)
			continue
		}
		it.runPath(j, prefix)
		shared.done()
		mu.Lock()
		over := jr.Paths+local.Paths > w.Cfg.MaxPaths
		mu.Unlock()
		if over {
			local.Inconclusive = append(local.Inconclusive, fmt.Sprintf("path budget %d exceeded", w.Cfg.MaxPaths))
			break
		}
		if len(it.C.Terms) > maxWorkerTerms {
			if !fresh() {
				break
			}
		}
	}
	if sol != nil {
		local.Queries += sol.Queries
		local.SolverTime += sol.Time
	}
	mu.Lock()
	jr.merge(local)
	mu.Unlock()
}

func (jr *JobResult) merge(o *JobResult) {
	jr.Paths += o.Paths
	jr.Completed += o.Completed
	jr.Infeasible += o.Infeasible
	jr.Branches += o.Branches
	jr.Obligations += o.Obligations
	jr.Discharged += o.Discharged
	jr.Queries += o.Queries
	jr.SolverTime += o.SolverTime
	for _, v := range o.Violations {
		n := 0
		for _, e := range jr.Violations {
			if e.Label == v.Label {
				n++
				if e.PickSig == v.PickSig {
					n = maxCandidatesPerLabel
				}
			}
		}
		if n < maxCandidatesPerLabel {
			jr.Violations = append(jr.Violations, v)
		}
	}
	for k, v := range o.KnownHits {
		if jr.KnownHits == nil {
			jr.KnownHits = map[string]*Violation{}
		}
		if _, ok := jr.KnownHits[k]; !ok {
			jr.KnownHits[k] = v
		}
	}
	seen := map[string]bool{}
	for _, s := range jr.Inconclusive {
		seen[s] = true
	}
	for _, s := range o.Inconclusive {
		if !seen[s] {
			seen[s] = true
			jr.Inconclusive = append(jr.Inconclusive, s)
		}
	}
	for k := range o.Reached {
		jr.Reached[k] = true
		if _, ok := jr.Witness[k]; !ok {
			jr.Witness[k] = o.Witness[k]
			if jr.WitnessCase == nil {
				jr.WitnessCase = map[string]int{}
			}
			jr.WitnessCase[k] = o.WitnessCase[k]
		}
	}
	for k := range o.Funcs {
		jr.Funcs[k] = true
	}
	if o.UnwindMax > jr.UnwindMax {
		jr.UnwindMax = o.UnwindMax
	}
	if o.MaxSteps > jr.MaxSteps {
		jr.MaxSteps = o.MaxSteps
	}
	for _, s := range o.Samples {
		if len(jr.Samples) < 4 {
			jr.Samples = append(jr.Samples, s)
		}
	}
}

var progressPaths, progressQueries int64

func (it *Interp) runPath(j job, prefix []dec) {
	atomic.AddInt64(&progressPaths, 1)
	it.P = &Path{Prefix: prefix, pcSet: map[int]bool{}}
	it.M = newModelState(it)
	it.stack = it.stack[:0]
	it.steps = 0
	it.deferRun = nil
	it.jr.Paths++
	defer func() {
		it.restoreFrozen()
		if it.steps > it.jr.MaxSteps {
			it.jr.MaxSteps = it.steps
		}
		if r := recover(); r != nil {
			switch x := r.(type) {
			case *pathEnd:
				switch x.kind {
				case "infeasible":
					it.jr.Infeasible++
				case "abort":
					it.jr.Inconclusive = append(it.jr.Inconclusive, x.reason)
				}
			case *GoPanic:
				it.escapedPanic(x)
			default:
				buf := make([]byte, 4096)
				n := runtime.Stack(buf, false)
				it.jr.Inconclusive = append(it.jr.Inconclusive, fmt.Sprintf("engine-crash: %v at %s | %s", r, it.where(), firstFrames(string(buf[:n]))))
			}
		}
	}()
	it.callSSA(j.harness, nil, nil)
	if len(it.M.goQueue) > 0 {
		it.runPendingGoroutines()
	}
	it.jr.Completed++
	if len(it.jr.Samples) < 2 {
		// a concrete witness for the completed path
		if env := it.sampleWitness(it.C.True); env != nil {
			tape := make([]TapeEntry, len(it.P.Nondets))
			for i, n := range it.P.Nondets {
				v := "0"
				if cv, ok := env[n.T]; ok && cv != nil && cv.IsConst() {
					v = cv.Val.String()
				}
				tape[i] = TapeEntry{Label: n.Label, Kind: n.Kind, Value: v}
			}
			it.jr.Samples = append(it.jr.Samples, tapeString(tape))
			return
		}
		it.S.Tag = "path-sample"
		if r, err := it.S.Check(it.P.PC, 2000); err == nil && r == smt.Sat {
			tape, _, err := it.tapeFromModel()
			it.S.Pop()
			if err == nil {
				it.jr.Samples = append(it.jr.Samples, tapeString(tape))
			}
		}
	}
}

func tapeString(t []TapeEntry) string {
	var sb strings.Builder
	for i, e := range t {
		if i > 0 {
			sb.WriteString(" ")
		}
		if i > 24 {
			sb.WriteString("…")
			break
		}
		fmt.Fprintf(&sb, "%s=%s", e.Label, e.Value)
	}
	return sb.String()
}

// escapedPanic: a Go panic left the harness.
func (it *Interp) escapedPanic(gp *GoPanic) {
	it.jr.Obligations++
	label := "no-panic"
	if it.M.expectPanic {
		it.jr.Discharged++
		it.jr.Completed++
		return
	}
	// the path condition is feasible (every fork was checked) unless unknowns were kept
	r, err := it.S.Check(append(append([]*smt.Term{}, it.P.PC...), it.P.Exact...), it.Cfg.AssertTimeout)
	if err != nil || r == smt.Unknown {
		// the solver cannot decide whether this panicking path is feasible: a concrete assignment satisfying the
		// whole path condition shows that it is
		if it.M.knownPanicID == "" {
			if env := it.sampleWitnessN(it.C.True, 6000); env != nil {
				it.recordViolationTape(label, "panic", fmt.Sprintf("panic escapes: %s (%s) at %s (path shown feasible by concrete evaluation)", gp.Msg, gp.Kind, gp.Pos), it.tapeFromEnv(env))
				return
			}
		}
		it.jr.Inconclusive = append(it.jr.Inconclusive, "panic path feasibility unknown: "+gp.Msg)
		return
	}
	if r == smt.Unsat {
		it.jr.Discharged++
		return
	}
	known := ""
	if it.M.knownPanicID != "" && it.L.OpenFindings[it.M.knownPanicID] {
		known = it.M.knownPanicID
	}
	it.recordViolation(label, "panic", fmt.Sprintf("panic escapes: %s (%s) at %s", gp.Msg, gp.Kind, gp.Pos), known)
	it.S.Pop()
}

func sortedKeys(m map[string]bool) []string {
	var r []string
	for k := range m {
		r = append(r, k)
	}
	sort.Strings(r)
	return r
}

func firstFrames(st string) string {
	lines := strings.Split(st, "\n")
	var out []string
	for _, l := range lines {
		l = strings.TrimSpace(l)
		if strings.Contains(l, "symgo/sym/") && strings.Contains(l, ".go:") {
			out = append(out, l[strings.LastIndex(l, "/")+1:])
			if len(out) >= 6 {
				break
			}
		}
	}
	return strings.Join(out, " < ")
}

// nondetSource: a wall-clock / randomness / goroutine source was reached on a chain-side path.
func (it *Interp) nondetSource(what string) {
	if it.inInit > 0 {
		it.abort("nondeterministic source in a package initialiser: %s", what)
	}
	it.jr.Obligations++
	r, err := it.S.Check(append(append([]*smt.Term{}, it.P.PC...), it.P.Exact...), it.Cfg.AssertTimeout)
	if err != nil || r == smt.Unknown {
		it.abort("nondeterministic source reached (%s), path feasibility unknown", what)
	}
	if r == smt.Unsat {
		it.jr.Discharged++
		panic(&pathEnd{kind: "infeasible"})
	}
	it.recordViolation("no-hidden-entropy", "entropy", "nondeterministic source reachable in consensus code: "+what+" at "+it.curPos()+" in "+it.where(), "")
	for _, v := range it.jr.Violations {
		if v.Label == "no-hidden-entropy" {
			v.NoNativeReplay = true
		}
	}
	it.S.Pop()
	panic(&pathEnd{kind: "stop"})
}

// genericBothWays recognises branch conditions of the crypto model that are satisfiable and falsifiable for
// generic values: p(atoms) ≡ 0 (mod n) for a polynomial with at least two monomials, and equality of the
// coordinates of two syntactically different points.
func (it *Interp) genericBothWays(c *smt.Term) bool {
	if it.Cfg.NoSlice || !it.Cfg.GenericFork {
		return false
	}
	if c.Op == smt.ONot {
		c = c.Args[0]
	}
	if c.Op != smt.OEq {
		return false
	}
	a, b := c.Args[0], c.Args[1]
	pm, _ := it.M.extra["polys"].(map[*smt.Term]*Poly)
	isPoly := func(t *smt.Term) bool {
		if pm == nil {
			return false
		}
		p, ok := pm[t]
		return ok && len(p.terms) >= 2
	}
	if (a.IsConst() && a.Val.Sign() == 0 && isPoly(b)) || (b.IsConst() && b.Val.Sign() == 0 && isPoly(a)) {
		return true
	}
	isCoord := func(t *smt.Term) bool {
		return t.Op == smt.OApp && (t.Name == "secp.x" || t.Name == "secp.y")
	}
	if isCoord(a) && isCoord(b) && a.Name == b.Name && a.Args[0] != b.Args[0] {
		return true
	}
	return false
}
