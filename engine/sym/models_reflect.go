package sym

import (
	"go/types"
	"reflect"

	"golang.org/x/tools/go/ssa"
)

// Minimal reflect model (package reflect is otherwise a denied package).
//
// Only what the two `cdcEncode` helpers need (client/grpc/oracle/proof/util.go and cometbft
// types/encoding_helper.go: isTypedNil / isEmpty):
//
//	reflect.ValueOf(x)        keeps the interface value (dynamic type + value) as a model value
//	(reflect.Value).Kind()    the kind of the dynamic type's underlying type (Invalid for a nil interface)
//	(reflect.Value).IsNil()   slices, pointers, maps (nil-ness is concrete in the engine)
//	(reflect.Value).Len()     slices, strings, arrays, maps (lengths are concrete in the engine)
//
// Everything else of package reflect stays unsupported (reaching it ends the path as INCONCLUSIVE), and so does
// any use of these four on a kind not listed.

// reflValue is the engine value of a reflect.Value produced by the model.
type reflValue struct{ iv IfaceV }

func reflKind(t types.Type) (reflect.Kind, bool) {
	switch u := t.Underlying().(type) {
	case *types.Basic:
		switch u.Kind() {
		case types.Bool:
			return reflect.Bool, true
		case types.Int:
			return reflect.Int, true
		case types.Int8:
			return reflect.Int8, true
		case types.Int16:
			return reflect.Int16, true
		case types.Int32:
			return reflect.Int32, true
		case types.Int64:
			return reflect.Int64, true
		case types.Uint:
			return reflect.Uint, true
		case types.Uint8:
			return reflect.Uint8, true
		case types.Uint16:
			return reflect.Uint16, true
		case types.Uint32:
			return reflect.Uint32, true
		case types.Uint64:
			return reflect.Uint64, true
		case types.Uintptr:
			return reflect.Uintptr, true
		case types.Float32:
			return reflect.Float32, true
		case types.Float64:
			return reflect.Float64, true
		case types.String:
			return reflect.String, true
		}
	case *types.Slice:
		return reflect.Slice, true
	case *types.Array:
		return reflect.Array, true
	case *types.Pointer:
		return reflect.Ptr, true
	case *types.Map:
		return reflect.Map, true
	case *types.Struct:
		return reflect.Struct, true
	case *types.Chan:
		return reflect.Chan, true
	case *types.Signature:
		return reflect.Func, true
	case *types.Interface:
		return reflect.Interface, true
	}
	return reflect.Invalid, false
}

func (it *Interp) reflArg(v Value, what string) reflValue {
	rv, ok := v.(reflValue)
	if !ok {
		it.abort("reflect model: %s on a reflect.Value that was not produced by reflect.ValueOf (%T)", what, v)
	}
	return rv
}

func init() {
	Register("reflect.ValueOf", func(it *Interp, _ *ssa.Function, a []Value) Value {
		iv, ok := a[0].(IfaceV)
		if !ok {
			it.abort("reflect model: ValueOf of %T", a[0])
		}
		return reflValue{iv: iv}
	})
	Register("(reflect.Value).Kind", func(it *Interp, _ *ssa.Function, a []Value) Value {
		rv := it.reflArg(a[0], "Kind")
		if rv.iv.T == nil {
			return it.C.BVU(uint64(reflect.Invalid), 64)
		}
		k, ok := reflKind(rv.iv.T)
		if !ok {
			it.abort("reflect model: Kind of dynamic type %s", rv.iv.T.String())
		}
		return it.C.BVU(uint64(k), 64)
	})
	Register("(reflect.Value).IsNil", func(it *Interp, _ *ssa.Function, a []Value) Value {
		rv := it.reflArg(a[0], "IsNil")
		switch x := rv.iv.V.(type) {
		case SliceV:
			return it.C.BoolConst(x.O == nil)
		case PtrV:
			return it.C.BoolConst(x.O == nil)
		case *MapObj:
			return it.C.BoolConst(x == nil)
		}
		it.abort("reflect model: IsNil of %T (dynamic type %v)", rv.iv.V, rv.iv.T)
		return nil
	})
	Register("(reflect.Value).Len", func(it *Interp, _ *ssa.Function, a []Value) Value {
		rv := it.reflArg(a[0], "Len")
		n := -1
		switch x := rv.iv.V.(type) {
		case SliceV:
			n = x.Len
		case StrV:
			n = x.Len()
		case *ArrayV:
			n = len(x.E)
		case *MapObj:
			if x != nil {
				n = len(x.Keys)
			} else {
				n = 0
			}
		}
		if n < 0 {
			it.abort("reflect model: Len of %T (dynamic type %v)", rv.iv.V, rv.iv.T)
		}
		return it.C.BVI(int64(n), 64)
	})
}
