package sym

import (
	"math/big"

	"symgo/smt"
)

// polyIsZeroFactored decides d == 0 (mod n) exactly for the two-term shape
//
//	d = a·g·u − a·g·v        (a a constant, g a common monomial, u and v each 1 or a single atom)
//
// which is what "a proof made for another challenge" reduces to: (c' − c)·x. Z_n is a field and every atom
// lies in [0,n), hence d == 0 iff an atom of g is 0 or u = v as integers. Any other shape returns nil and
// is handled by the caller as before.
func (it *Interp) polyIsZeroFactored(d *Poly) *smt.Term {
	if len(d.terms) != 2 {
		return nil
	}
	var ms []*mono
	var cs []*big.Int
	for k, co := range d.terms {
		ms = append(ms, d.monos[k])
		cs = append(cs, co)
	}
	if new(big.Int).Mod(new(big.Int).Add(cs[0], cs[1]), secpN).Sign() != 0 {
		return nil
	}
	exp := func(m *mono, a *smt.Term) int {
		for i, t := range m.atoms {
			if t == a {
				return m.exps[i]
			}
		}
		return 0
	}
	// residual of m after dividing by the common part with o: must be 1 or a single atom
	residual := func(m, o *mono) (*smt.Term, bool) {
		var r *smt.Term
		for i, a := range m.atoms {
			left := m.exps[i] - min(m.exps[i], exp(o, a))
			if left == 0 {
				continue
			}
			if left > 1 || r != nil {
				return nil, false
			}
			r = a
		}
		if r == nil {
			r = it.C.IntI(1)
		}
		return r, true
	}
	u, ok1 := residual(ms[0], ms[1])
	v, ok2 := residual(ms[1], ms[0])
	if !ok1 || !ok2 {
		return nil
	}
	c := it.C
	r := c.Eq(u, v)
	for _, a := range ms[0].atoms {
		if exp(ms[1], a) > 0 {
			r = c.Or(r, c.Eq(a, c.IntI(0)))
		}
	}
	return r
}
