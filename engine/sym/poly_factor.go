package sym

import (
	"math/big"
	"sort"
	"strconv"

	"symgo/smt"
)

// polyIsZeroFactored decides d == 0 (mod n) exactly for the two-term shape
//
//	d = a·g·u − a·g·v        (a a constant, g a common monomial, u and v each 1 or a single atom)
//
// which is what "a proof made for another challenge" reduces to: (c' − c)·x. Z_n is a field and every atom
// lies in [0,n), hence d == 0 iff an atom of g is 0 or u = v as integers. Any other shape returns nil and
// is handled by the caller as before.
func (it *Interp) polyIsZeroFactored(d *Poly) *smt.Term {
	// (common monomial factors and the leading coefficient are removed by the caller, polyIsZero)
	if len(d.terms) != 2 {
		return it.polyIsZeroDifference(d)
	}
	var ms []*mono
	var cs []*big.Int
	for _, k := range polyKeys(d) {
		ms = append(ms, d.monos[k])
		cs = append(cs, d.terms[k])
	}
	if new(big.Int).Mod(new(big.Int).Add(cs[0], cs[1]), secpN).Sign() != 0 {
		return nil
	}
	exp := func(m *mono, a *smt.Term) int {
		for i, t := range m.atoms {
			if t == a {
				return m.exps[i]
			}
		}
		return 0
	}
	// residual of m after dividing by the common part with o: must be 1 or a single atom
	residual := func(m, o *mono) (*smt.Term, bool) {
		var r *smt.Term
		for i, a := range m.atoms {
			left := m.exps[i] - min(m.exps[i], exp(o, a))
			if left == 0 {
				continue
			}
			if left > 1 || r != nil {
				return nil, false
			}
			r = a
		}
		if r == nil {
			r = it.C.IntI(1)
		}
		return r, true
	}
	u, ok1 := residual(ms[0], ms[1])
	v, ok2 := residual(ms[1], ms[0])
	if !ok1 || !ok2 {
		return nil
	}
	c := it.C
	r := c.Eq(u, v)
	for _, a := range ms[0].atoms {
		if exp(ms[1], a) > 0 {
			r = c.Or(r, c.Eq(a, c.IntI(0)))
		}
	}
	return r
}

func polyKeys(d *Poly) []string {
	keys := make([]string, 0, len(d.terms))
	for k := range d.terms {
		keys = append(keys, k)
	}
	sort.Strings(keys)
	return keys
}

// monoDrop returns m without the atom a (which must occur in m with exponent 1).
func monoDrop(m *mono, a *smt.Term) *mono {
	r := unitMono
	for i, t := range m.atoms {
		if t == a {
			continue
		}
		for e := 0; e < m.exps[i]; e++ {
			r = monoMul(r, &mono{key: strconv.Itoa(t.ID) + "^1", atoms: []*smt.Term{t}, exps: []int{1}})
		}
	}
	return r
}

// polyIsZeroDifference decides d == 0 (mod n) exactly for the shape d = (u − v)·P with u, v atoms that do not
// occur in P (a signature made for challenge u verified under challenge v with a private key P that is a sum,
// e.g. a member's DKG key share): d == 0 iff u = v or P == 0. Other shapes return nil.
func (it *Interp) polyIsZeroDifference(d *Poly) *smt.Term {
	if len(d.terms)%2 != 0 || len(d.terms) > 64 {
		return nil
	}
	keys := polyKeys(d)
	var atoms []*smt.Term
	seen := map[int]bool{}
	for _, k := range keys {
		for _, a := range d.monos[k].atoms {
			if !seen[a.ID] {
				seen[a.ID] = true
				atoms = append(atoms, a)
			}
		}
	}
	sort.Slice(atoms, func(i, j int) bool { return atoms[i].ID < atoms[j].ID })
	exp := func(m *mono, a *smt.Term) int {
		for i, t := range m.atoms {
			if t == a {
				return m.exps[i]
			}
		}
		return 0
	}
	for i, u := range atoms {
		for _, v := range atoms[i+1:] {
			p, q := newPoly(), newPoly()
			ok := true
			for _, k := range keys {
				m := d.monos[k]
				eu, ev := exp(m, u), exp(m, v)
				switch {
				case eu == 1 && ev == 0:
					p.addTerm(monoDrop(m, u), d.terms[k])
				case eu == 0 && ev == 1:
					q.addTerm(monoDrop(m, v), d.terms[k])
				default:
					ok = false
				}
				if !ok {
					break
				}
			}
			if !ok || len(p.terms) != len(q.terms) || len(polyAdd(p, q).terms) != 0 {
				continue
			}
			return it.C.Or(it.C.Eq(u, v), it.polyIsZero(p))
		}
	}
	return nil
}

// polyIsZeroCommon: d = g·q with g the greatest common monomial of all terms (non-trivial): d == 0 iff an atom
// of g is 0 or q == 0. (E.g. the Diffie-Hellman point x_j·(x_i + delta): its vanishing is the vanishing of a
// factor, which the path condition usually already decides syntactically.)
func (it *Interp) polyIsZeroCommon(d *Poly) *smt.Term {
	if len(d.terms) < 2 {
		return nil
	}
	keys := polyKeys(d)
	first := d.monos[keys[0]]
	type ae struct {
		t *smt.Term
		e int
	}
	var common []ae
	for i, a := range first.atoms {
		e := first.exps[i]
		for _, k := range keys[1:] {
			m := d.monos[k]
			f := 0
			for j, t := range m.atoms {
				if t == a {
					f = m.exps[j]
				}
			}
			e = min(e, f)
		}
		if e > 0 {
			common = append(common, ae{a, e})
		}
	}
	if len(common) == 0 {
		return nil
	}
	q := newPoly()
	for _, k := range keys {
		m := d.monos[k]
		r := unitMono
		for j, t := range m.atoms {
			e := m.exps[j]
			for _, c := range common {
				if c.t == t {
					e -= c.e
				}
			}
			for ; e > 0; e-- {
				r = monoMul(r, &mono{key: strconv.Itoa(t.ID) + "^1", atoms: []*smt.Term{t}, exps: []int{1}})
			}
		}
		q.addTerm(r, d.terms[k])
	}
	c := it.C
	res := it.polyIsZero(q)
	for _, a := range common {
		res = c.Or(res, c.Eq(a.t, c.IntI(0)))
	}
	return res
}
