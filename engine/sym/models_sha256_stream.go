package sym

import (
	"go/types"

	"golang.org/x/tools/go/ssa"

	"symgo/smt"
)

// Streaming sha256 (crypto/sha256.New as a hash.Hash): cometbft's merkle.HashFromByteSlices hashes through one
// reused digest (Reset / Write / Sum). The model buffers the written bytes; Sum(b) appends the digest of the
// buffered bytes computed by the same model as sha256.Sum256 / tmhash.Sum (native on concrete input, otherwise
// the uninterpreted function of models_hash.go), so one-shot and streaming hashing of equal input agree.

type sha256StreamV struct{ buf []*smt.Term }

var tySHA256Stream = synthType("SHA256Stream")

func init() {
	Register("crypto/sha256.New", func(it *Interp, _ *ssa.Function, a []Value) Value {
		return IfaceV{T: tySHA256Stream, V: &sha256StreamV{}}
	})
	invokeHooks = append(invokeHooks, func(it *Interp, iv IfaceV, m *types.Func, a []Value) (Value, bool) {
		x, ok := iv.V.(*sha256StreamV)
		if !ok {
			return nil, false
		}
		switch m.Name() {
		case "Reset":
			x.buf = nil
			return nil, true
		case "Write":
			bs := it.bytesOfAny(a[0])
			x.buf = append(append([]*smt.Term{}, x.buf...), bs...)
			return TupleV{it.C.BVI(int64(len(bs)), 64), IfaceV{}}, true
		case "Sum":
			d := it.hash256("sha256", sha256Native, x.buf)
			var pre []*smt.Term
			if s, ok := a[0].(SliceV); ok && s.O != nil {
				pre = it.bytesOfAny(s)
			}
			return it.mkByteSlice(append(append([]*smt.Term{}, pre...), d...)), true
		case "Size":
			return it.C.BVI(32, 64), true
		case "BlockSize":
			return it.C.BVI(64, 64), true
		}
		it.abort("sha256 stream method %s not modelled", m.Name())
		return nil, true
	})
}
