package sym

import (
	"math/big"

	"symgo/smt"
)

// coalesceBytes rewrites two equally long byte strings into equally long strings of wider big-endian chunks:
// wherever, over the same index range, each side is either a run of constants or a run of consecutive byte
// extracts of one bit-vector (as produced by binary.BigEndian.PutUint64 of a symbolic value), the range becomes a
// single term on each side. Lexicographic byte order and equality of the strings are unchanged (same chunk
// boundaries on both sides, big-endian chunks), but an 8-byte encoded integer is then compared as one 64-bit
// value instead of through eight dependent byte comparisons.
func (it *Interp) coalesceBytes(a, b []*smt.Term) ([]*smt.Term, []*smt.Term) {
	n := len(a)
	if n != len(b) || n < 2 {
		return a, b
	}
	sa, sb := runStarts(a), runStarts(b)
	var ra, rb []*smt.Term
	changed := false
	for i := 0; i < n; {
		j := i + 1
		for j < n && !sa[j] && !sb[j] {
			j++
		}
		if j-i > 1 {
			changed = true
		}
		ra = append(ra, it.mergeRun(a[i:j]))
		rb = append(rb, it.mergeRun(b[i:j]))
		i = j
	}
	if !changed {
		return a, b
	}
	return ra, rb
}

// runStarts marks the indices at which a new run (constants / consecutive extracts of one term) begins.
func runStarts(x []*smt.Term) []bool {
	st := make([]bool, len(x))
	for i := range x {
		if i == 0 {
			st[i] = true
			continue
		}
		p, q := x[i-1], x[i]
		switch {
		case p.IsConst() && q.IsConst():
		case p.Op == smt.OExtract && q.Op == smt.OExtract && p.Args[0] == q.Args[0] &&
			p.Sort.W == 8 && q.Sort.W == 8 && q.P1 == p.P2-1:
		default:
			st[i] = true
		}
	}
	return st
}

func (it *Interp) mergeRun(x []*smt.Term) *smt.Term {
	if len(x) == 1 {
		return x[0]
	}
	if x[0].IsConst() {
		v := new(big.Int)
		for _, t := range x {
			v.Lsh(v, 8)
			v.Or(v, t.Val)
		}
		return it.C.BVConst(v, 8*len(x))
	}
	return it.C.Extract(x[0].Args[0], x[0].P1, x[len(x)-1].P2)
}
