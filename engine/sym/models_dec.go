package sym

import (
	"fmt"
	"golang.org/x/tools/go/ssa"
	"os"

	"symgo/smt"
)

// Models added for C14 (block reward allocation).
//
// sdkmath.LegacyDec / sdk.DecCoins / sdk.Coins run from their real source on top of the math/big
// model; only what cannot run is replaced here.
func init() {
	R := Register
	// package-level `ModuleCdc = codec.NewProtoCodec(codectypes.NewInterfaceRegistry())` in x/*/types:
	// the registry is built by reflection over the protobuf registry. Nothing under test uses ModuleCdc.
	R("github.com/cosmos/cosmos-sdk/codec/types.NewInterfaceRegistry", func(it *Interp, fn *ssa.Function, a []Value) Value {
		return IfaceV{T: tyOpaque, V: OpaqueV{Why: "interface registry"}}
	})
	// textual rendering of coins (log lines, event attributes): formatting, never inspected
	for _, n := range []string{"Coins", "Coin", "DecCoins", "DecCoin"} {
		R("("+sdkTypes+"."+n+").String", func(it *Interp, fn *ssa.Function, a []Value) Value {
			return OpaqueV{Why: "coin text"}
		})
	}
	R("github.com/cosmos/cosmos-sdk/codec.NewProtoCodec", func(it *Interp, fn *ssa.Function, a []Value) Value {
		return OpaqueV{Why: "proto codec"}
	})
}

// Sign-aware truncated division: big.Int.Quo/QuoRem/Rem are modelled as sign(a,b)*(|a| div |b|), which
// puts two abs() case splits into every term. When the path condition bounds both operands to
// non-negative / positive ranges the plain SMT div is the same value.
func (it *Interp) quoTerm(x, y *smt.Term) *smt.Term {
	if !x.IsConst() || !y.IsConst() {
		rx, ry := it.rangeOf(x), it.rangeOf(y)
		if os.Getenv("SYMGO_DBG") != "" {
			fmt.Printf("quoTerm x=%v..%v y=%v..%v facts=%d pc=%d\n", rx.lo, rx.hi, ry.lo, ry.hi, len(it.ranges().sfacts), len(it.P.PC))
		}
		if rx.nonNeg() && ry.pos() {
			return it.C.Div(x, y)
		}
	}
	return it.C.Quo(x, y)
}

func init() {
	R := Register
	divCheck := func(it *Interp, y *smt.Term) {
		if it.Branch(it.C.Eq(y, it.C.IntI(0))) {
			it.goPanicStr("div0", "division by zero")
		}
	}
	R("(*math/big.Int).Quo", func(it *Interp, _ *ssa.Function, a []Value) Value {
		x, y := it.bigGet(a[1]), it.bigGet(a[2])
		divCheck(it, y)
		return it.bigSet(a[0], it.quoTerm(x, y))
	})
	R("(*math/big.Int).Rem", func(it *Interp, _ *ssa.Function, a []Value) Value {
		x, y := it.bigGet(a[1]), it.bigGet(a[2])
		divCheck(it, y)
		return it.bigSet(a[0], it.C.Sub(x, it.C.Mul(y, it.quoTerm(x, y))))
	})
	R("(*math/big.Int).QuoRem", func(it *Interp, _ *ssa.Function, a []Value) Value {
		x, y := it.bigGet(a[1]), it.bigGet(a[2])
		divCheck(it, y)
		q := it.quoTerm(x, y)
		it.bigSet(a[0], q)
		it.bigSet(a[3], it.C.Sub(x, it.C.Mul(y, q)))
		return TupleV{a[0], a[3]}
	})
	R("(*math/big.Int).Abs", func(it *Interp, _ *ssa.Function, a []Value) Value {
		x := it.bigGet(a[1])
		if !x.IsConst() && it.rangeOf(x).nonNeg() {
			return it.bigSet(a[0], x)
		}
		return it.bigSet(a[0], it.C.Abs(x))
	})
}
