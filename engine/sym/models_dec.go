package sym

import (
	"golang.org/x/tools/go/ssa"
	"math/big"

	"symgo/smt"
)

// Models added for C14 (block reward allocation).
//
// sdkmath.LegacyDec / sdk.DecCoins / sdk.Coins run from their real source on top of the math/big
// model; only what cannot run is replaced here.
func init() {
	R := Register
	// package-level `ModuleCdc = codec.NewProtoCodec(codectypes.NewInterfaceRegistry())` in x/*/types:
	// the registry is built by reflection over the protobuf registry. Nothing under test uses ModuleCdc.
	R("github.com/cosmos/cosmos-sdk/codec/types.NewInterfaceRegistry", func(it *Interp, fn *ssa.Function, a []Value) Value {
		return IfaceV{T: tyOpaque, V: OpaqueV{Why: "interface registry"}}
	})
	// textual rendering of coins (log lines, event attributes): formatting, never inspected
	for _, n := range []string{"Coins", "Coin", "DecCoins", "DecCoin"} {
		R("("+sdkTypes+"."+n+").String", func(it *Interp, fn *ssa.Function, a []Value) Value {
			return OpaqueV{Why: "coin text"}
		})
	}
	R("github.com/cosmos/cosmos-sdk/codec.NewProtoCodec", func(it *Interp, fn *ssa.Function, a []Value) Value {
		return OpaqueV{Why: "proto codec"}
	})
}

// Sign-aware truncated division: big.Int.Quo/QuoRem/Rem are modelled as sign(a,b)*(|a| div |b|), which
// puts two abs() case splits into every term. When the path condition bounds both operands to
// non-negative / positive ranges the plain SMT div is the same value.
func (it *Interp) quoTerm(x, y *smt.Term) *smt.Term {
	if !x.IsConst() || !y.IsConst() {
		rx, ry := it.rangeOf(x), it.rangeOf(y)
		if rx.nonNeg() && ry.pos() {
			return it.C.Div(x, y)
		}
	}
	return it.C.Quo(x, y)
}

func init() {
	R := Register
	divCheck := func(it *Interp, y *smt.Term) {
		if it.Branch(it.C.Eq(y, it.C.IntI(0))) {
			it.goPanicStr("div0", "division by zero")
		}
	}
	R("(*math/big.Int).Quo", func(it *Interp, _ *ssa.Function, a []Value) Value {
		x, y := it.bigGet(a[1]), it.bigGet(a[2])
		divCheck(it, y)
		return it.bigSet(a[0], it.quoTerm(x, y))
	})
	R("(*math/big.Int).Rem", func(it *Interp, _ *ssa.Function, a []Value) Value {
		x, y := it.bigGet(a[1]), it.bigGet(a[2])
		divCheck(it, y)
		return it.bigSet(a[0], it.C.Sub(x, it.C.Mul(y, it.quoTerm(x, y))))
	})
	R("(*math/big.Int).QuoRem", func(it *Interp, _ *ssa.Function, a []Value) Value {
		x, y := it.bigGet(a[1]), it.bigGet(a[2])
		divCheck(it, y)
		q := it.quoTerm(x, y)
		it.bigSet(a[0], q)
		it.bigSet(a[3], it.C.Sub(x, it.C.Mul(y, q)))
		return TupleV{a[0], a[3]}
	})
	R("(*math/big.Int).Abs", func(it *Interp, _ *ssa.Function, a []Value) Value {
		x := it.bigGet(a[1])
		if !x.IsConst() && it.rangeOf(x).nonNeg() {
			return it.bigSet(a[0], x)
		}
		return it.bigSet(a[0], it.C.Abs(x))
	})
}

// bv2intSigned converts a machine integer to its mathematical value. A sum that cannot wrap under the
// bounds of the path condition (e.g. the total of validator powers) is converted summand by summand, so
// that the solver sees total = p1 + p2 in the Int theory instead of a bit-vector addition.
func (it *Interp) bv2intSigned(t *smt.Term) *smt.Term {
	if t.Op == smt.OBVAdd && it.P != nil && it.M != nil {
		rs := it.ranges()
		a, b := rs.srng(t.Args[0]), rs.srng(t.Args[1])
		half := pow2big(t.Sort.W - 1)
		lo, hi := new(big.Int).Add(a.lo, b.lo), new(big.Int).Add(a.hi, b.hi)
		if lo.Cmp(new(big.Int).Neg(half)) >= 0 && hi.Cmp(half) < 0 {
			return it.C.Add(it.bv2intSigned(t.Args[0]), it.bv2intSigned(t.Args[1]))
		}
	}
	return it.C.BV2IntSigned(t)
}

func init() {
	Register("math/big.NewInt", func(it *Interp, _ *ssa.Function, a []Value) Value {
		return it.newBig(it.bv2intSigned(a[0].(*smt.Term)))
	})
	Register("(*math/big.Int).SetInt64", func(it *Interp, _ *ssa.Function, a []Value) Value {
		return it.bigSet(a[0], it.bv2intSigned(a[1].(*smt.Term)))
	})
}
