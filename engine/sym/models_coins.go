package sym

import "golang.org/x/tools/go/ssa"

// String renderings of coins (strings.Builder uses unsafe): the text only flows into events and error messages,
// so it is an opaque string (comparing it aborts the run).
func init() {
	for _, n := range []string{
		"(github.com/cosmos/cosmos-sdk/types.Coins).String",
		"(github.com/cosmos/cosmos-sdk/types.Coin).String",
		"(github.com/cosmos/cosmos-sdk/types.DecCoins).String",
		"(github.com/cosmos/cosmos-sdk/types.DecCoin).String",
	} {
		why := n
		Register(n, func(it *Interp, fn *ssa.Function, a []Value) Value { return OpaqueV{Why: why} })
	}
}
