package sym

import (
	"golang.org/x/tools/go/ssa"
)

// cosmossdk.io/math runs from its real source on top of the math/big model; only the helpers that
// look at the word representation are replaced.
func init() {
	R := Register
	R("cosmossdk.io/math.bigIntOverflows", func(it *Interp, _ *ssa.Function, a []Value) Value {
		x := it.bigGet(a[0])
		return it.C.Le(it.pow2(256), it.C.Abs(x))
	})
}
