package sym

import (
	"math/bits"
	"testing"
)

// the closed form used by models_sov.go equals gogoproto's generated formula on every bit length boundary
func TestSovConcreteMatchesGeneratedFormula(t *testing.T) {
	ref := func(x uint64) int { return (bits.Len64(x|1) + 6) / 7 }
	for k := 0; k < 64; k++ {
		for _, v := range []uint64{1 << uint(k), 1<<uint(k) - 1, 1<<uint(k) + 1} {
			if sovConcrete(v) != ref(v) {
				t.Fatalf("sov(%d): %d != %d", v, sovConcrete(v), ref(v))
			}
		}
	}
	if sovConcrete(^uint64(0)) != 10 || ref(^uint64(0)) != 10 || sovConcrete(0) != 1 {
		t.Fatal("extremes")
	}
}
