package sym

import (
	"golang.org/x/tools/go/ssa"
)

// Daemon-side seams (grogu).
//
//   - pkg/logger.Logger methods are ignored (emoji formatting + zerolog).
//   - A function listed in hookRedirects is replaced by a call of a package-level hook variable that a harness
//     file of the same package declares and sets (e.g. `var verifBroadcastHook func(...) (...)`). The stub logic
//     therefore lives in ordinary harness Go code that also runs in the native replay (where a *.npatch inserts
//     the same redirection textually). When the package declares no such variable, or it is nil, the real body runs.
var hookRedirects = map[string]string{
	// float64 kernel: the engine evaluates floats only concretely
	ModPath + "/grogu/signaller.isDeviated": "verifIsDeviatedHook",
	// assume-guarantee seam: the slot contract proved by VerifC20Slot is used by VerifC20Deadline
	ModPath + "/grogu/signaller.calculateAssignedTime": "verifAssignedTimeHook",
	// keyring + tx factory + gas simulation + RPC broadcast
	"(*" + ModPath + "/grogu/submitter.Submitter).broadcastMsg": "verifBroadcastHook",
}

func init() {
	nop := func(it *Interp, f *ssa.Function, a []Value) Value { return nil }
	for _, m := range []string{"Debug", "Info", "Warn", "Error"} {
		Register("(*"+ModPath+"/pkg/logger.Logger)."+m, nop)
	}
	for name, hook := range hookRedirects {
		hook := hook
		Register(name, func(it *Interp, fn *ssa.Function, a []Value) Value {
			if pkg := fn.Package(); pkg != nil {
				if g, ok := pkg.Members[hook].(*ssa.Global); ok {
					if fv, ok := it.load(PtrV{O: it.globalObj(g)}).(*FuncV); ok && fv != nil {
						return it.callValue(fv, a, 0)
					}
				}
			}
			it.L.ensureBuilt(fn)
			return it.callSSA(fn, a, nil)
		})
	}
}
