package sym

import (
	"golang.org/x/tools/go/ssa"

	"symgo/smt"
)

// Store-operation trace for determinism harnesses (vsupport.StoreTraceStart / StoreTraceLen / StoreTraceOp).
// Every KVStore operation appends one record: kind byte, store name, 0, key bytes and, for Set of plain bytes,
// 0xFF followed by the value (codec blobs are recorded by kind and key only).

type storeTrace struct {
	on  bool
	ops [][]*smt.Term
}

func (it *Interp) storeTraceState() *storeTrace {
	t, ok := it.M.extra["store.trace"].(*storeTrace)
	if !ok {
		t = &storeTrace{}
		it.M.extra["store.trace"] = t
	}
	return t
}

func (it *Interp) traceStoreOp(kind byte, s *StoreRef, key []*smt.Term, val Value) {
	t, ok := it.M.extra["store.trace"].(*storeTrace)
	if !ok || !t.on {
		return
	}
	c := it.C
	rec := []*smt.Term{c.BVU(uint64(kind), 8)}
	for i := 0; i < len(s.name); i++ {
		rec = append(rec, c.BVU(uint64(s.name[i]), 8))
	}
	rec = append(rec, c.BVU(0, 8))
	rec = append(rec, key...)
	if sv, ok := val.(SliceV); ok && sv.O != nil {
		rec = append(rec, c.BVU(0xFF, 8))
		rec = append(rec, it.bytesOf(sv)...)
	}
	t.ops = append(t.ops, rec)
}

func init() {
	Register(VS+"StoreTraceStart", func(it *Interp, _ *ssa.Function, a []Value) Value {
		t := it.storeTraceState()
		t.on, t.ops = true, nil
		return nil
	})
	Register(VS+"StoreTraceLen", func(it *Interp, _ *ssa.Function, a []Value) Value {
		return it.C.BVI(int64(len(it.storeTraceState().ops)), 64)
	})
	Register(VS+"StoreTraceOp", func(it *Interp, _ *ssa.Function, a []Value) Value {
		t := it.storeTraceState()
		i := it.concreteInt(a[0].(*smt.Term), "StoreTraceOp index")
		if i < 0 || i >= len(t.ops) {
			it.abort("StoreTraceOp index %d out of range", i)
		}
		return it.mkByteSlice(append([]*smt.Term{}, t.ops[i]...))
	})
}
