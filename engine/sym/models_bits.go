package sym

import (
	"math/big"

	"golang.org/x/tools/go/ssa"

	"symgo/smt"
)

// math/bits.Len*: the real code indexes a 256-entry table with a byte of the argument, which forks up to 256 ways on
// a symbolic value (gogoproto's generated size functions call it for every varint). Here: binary search by forking on x >= 2^k, at most
// 7 decisions, the result is concrete on each path.
func init() {
	mk := func(name string, w int) {
		Register(name, func(it *Interp, fn *ssa.Function, a []Value) Value {
			c := it.C
			x := a[0].(*smt.Term)
			if x.IsConst() {
				n := 0
				for v := x.Uint64(); v != 0; v >>= 1 {
					n++
				}
				return c.BVI(int64(n), 64)
			}
			// binary search by forking on x >= 2^(mid-1)  (<= 7 decisions; the result is concrete on each path)
			lo, hi := 0, x.Sort.W
			for lo < hi {
				mid := (lo + hi + 1) / 2
				if it.Branch(c.BVUle(c.BVConst(new(big.Int).Lsh(big.NewInt(1), uint(mid-1)), x.Sort.W), x)) {
					lo = mid
				} else {
					hi = mid - 1
				}
			}
			return c.BVI(int64(lo), 64)
		})
	}
	mk("math/bits.Len64", 64)
	mk("math/bits.Len32", 32)
	mk("math/bits.Len", 64)
}
