package sym

import (
	"math/big"

	"golang.org/x/tools/go/ssa"

	"symgo/smt"
)

// math/bits.Len*: the real code indexes a 256-entry table with a byte of the argument, which forks up to 256 ways on
// a symbolic value (gogoproto's generated size functions call it for every varint). Here: binary search by forking on x >= 2^k, at most
// 7 decisions, the result is concrete on each path.
func init() {
	mk := func(name string, w int) {
		Register(name, func(it *Interp, fn *ssa.Function, a []Value) Value {
			c := it.C
			x := a[0].(*smt.Term)
			if x.IsConst() {
				n := 0
				for v := x.Uint64(); v != 0; v >>= 1 {
					n++
				}
				return c.BVI(int64(n), 64)
			}
			// binary search by forking on x >= 2^(mid-1)  (<= 7 decisions; the result is concrete on each path)
			lo, hi := 0, x.Sort.W
			for lo < hi {
				mid := (lo + hi + 1) / 2
				if it.Branch(c.BVUle(c.BVConst(new(big.Int).Lsh(big.NewInt(1), uint(mid-1)), x.Sort.W), x)) {
					lo = mid
				} else {
					hi = mid - 1
				}
			}
			return c.BVI(int64(lo), 64)
		})
	}
	mk("math/bits.Len64", 64)
	mk("math/bits.Len32", 32)
	mk("math/bits.Len", 64)
}

// math/bits.Mul64 / Div64 (128-bit products and quotients): the real code is 32-bit limb arithmetic, which gives
// non-linear bit-vector terms no solver finishes. Here they are their defining equations over the mathematical
// integers; Div64 keeps its two run-time panics (division by zero, quotient overflow).
func init() {
	two64 := new(big.Int).Lsh(big.NewInt(1), 64)
	Register("math/bits.Mul64", func(it *Interp, fn *ssa.Function, a []Value) Value {
		c := it.C
		p := c.Mul(bvToIntDeep(c, a[0].(*smt.Term)), bvToIntDeep(c, a[1].(*smt.Term)))
		hiI, loI := c.Div(p, c.IntConst(two64)), c.Mod(p, c.IntConst(two64))
		if c.RangeHint == nil {
			c.RangeHint = map[*smt.Term]bool{}
		}
		c.RangeHint[hiI], c.RangeHint[loI] = true, true // both lie in [0, 2^64): p < 2^128
		hi := c.Int2BV(hiI, 64)
		lo := c.Int2BV(loI, 64)
		// remember the product: Div64(hi, lo, y) of exactly this pair divides p itself (p < 2^128)
		m, _ := it.M.extra["bits.mul64"].(map[[2]*smt.Term]*smt.Term)
		if m == nil {
			m = map[[2]*smt.Term]*smt.Term{}
			it.M.extra["bits.mul64"] = m
		}
		m[[2]*smt.Term{hi, lo}] = p
		return TupleV{hi, lo}
	})
	Register("math/bits.Div64", func(it *Interp, fn *ssa.Function, a []Value) Value {
		c := it.C
		hi, lo, y := a[0].(*smt.Term), a[1].(*smt.Term), a[2].(*smt.Term)
		if it.Branch(c.Eq(y, c.BVU(0, 64))) {
			it.goPanicStr("divide", "runtime error: integer divide by zero")
		}
		if it.Branch(c.BVUle(y, hi)) {
			it.goPanicStr("overflow", "runtime error: integer overflow")
		}
		n := c.Add(c.Mul(c.BV2Int(hi), c.IntConst(two64)), c.BV2Int(lo))
		if m, ok := it.M.extra["bits.mul64"].(map[[2]*smt.Term]*smt.Term); ok {
			if p, ok := m[[2]*smt.Term{hi, lo}]; ok {
				n = p
			}
		}
		yi := bvToIntDeep(c, y)
		q, r := c.Div(n, yi), c.Mod(n, yi)
		// arithmetic facts of this branch (hi < y): the quotient fits in 64 bits, the remainder is below y
		it.addPC(c.And(c.Le(c.IntI(0), q), c.Lt(q, c.IntConst(two64))))
		it.addPC(c.And(c.Le(c.IntI(0), r), c.Lt(r, yi)))
		if c.RangeHint == nil {
			c.RangeHint = map[*smt.Term]bool{}
		}
		c.RangeHint[q], c.RangeHint[r] = true, true
		return TupleV{c.Int2BV(q, 64), c.Int2BV(r, 64)}
	})
}

// bvToIntDeep is BV2Int with the conversion pushed through subtraction, addition and if-then-else, so that only
// variables are converted (solvers relate bv2nat of a variable to the Int theory much better than bv2nat of a
// difference): bv2int(a-b) = A-B if b <= a else A-B+2^w; bv2int(a+b) = A+B if no carry else A+B-2^w.
func bvToIntDeep(c *smt.Ctx, t *smt.Term) *smt.Term {
	if t.IsConst() || t.Sort.K != smt.KBV {
		return c.BV2Int(t)
	}
	w := t.Sort.W
	mod := c.IntConst(new(big.Int).Lsh(big.NewInt(1), uint(w)))
	switch t.Op {
	case smt.OBVSub:
		a, b := t.Args[0], t.Args[1]
		d := c.Sub(bvToIntDeep(c, a), bvToIntDeep(c, b))
		return c.Ite(c.BVUle(b, a), d, c.Add(d, mod))
	case smt.OBVAdd:
		a, b := t.Args[0], t.Args[1]
		s := c.Add(bvToIntDeep(c, a), bvToIntDeep(c, b))
		return c.Ite(c.Lt(s, mod), s, c.Sub(s, mod))
	case smt.OIte:
		return c.Ite(t.Args[0], bvToIntDeep(c, t.Args[1]), bvToIntDeep(c, t.Args[2]))
	}
	return c.BV2Int(t)
}
