package sym

import (
	"golang.org/x/tools/go/ssa"

	"symgo/smt"
)

// Models used by the yoda (C19) harnesses.

const yodaPkg = ModPath + "/yoda"

func init() {
	// The daemon uses its BandApp only for AppCodec() on the request-handling paths: the model codec.
	Register("(*"+ModPath+"/app.BandApp).AppCodec", func(it *Interp, fn *ssa.Function, a []Value) Value {
		return IfaceV{T: tyCodec, V: CodecV{}}
	})
	// RequestVerification.GetSignBytes (sorted JSON): an injective encoding of the message; the fake keyring
	// decodes it again with yoda.c19VerificationOf (native build: json.Unmarshal).
	Register("("+ModPath+"/x/oracle/types.RequestVerification).GetSignBytes", func(it *Interp, fn *ssa.Function, a []Value) Value {
		return &Blob{T: fn.Signature.Recv().Type(), V: it.deepCopyMsg(a[0], false)}
	})
	Register(yodaPkg+".c19VerificationOf", func(it *Interp, fn *ssa.Function, a []Value) Value {
		b, ok := a[0].(*Blob)
		if !ok {
			it.abort("c19VerificationOf: sign bytes are not a RequestVerification encoding (%T)", a[0])
		}
		return it.deepCopyMsg(b.V, false)
	})
	// yoda.c19Settle(): the harness waits until every started goroutine has finished (native build: polls).
	Register(yodaPkg+".c19Settle", func(it *Interp, fn *ssa.Function, a []Value) Value {
		it.runPendingGoroutines()
		return nil
	})
	// yoda's package initialiser computes DefaultYodaHome from the home directory (never read by the handlers)
	Register("os.UserHomeDir", func(it *Interp, fn *ssa.Function, a []Value) Value {
		return TupleV{StrV{S: "/home/verif"}, IfaceV{}}
	})
	// strconv error values clone the offending string through unsafe.String
	Register("internal/stringslite.Clone", func(it *Interp, fn *ssa.Function, a []Value) Value { return a[0] })
	// log line formatting (emoji substitution) is ignored
	Register("github.com/kyokomi/emoji.Sprintf", func(it *Interp, fn *ssa.Function, a []Value) Value {
		return OpaqueV{Why: "emoji.Sprintf"}
	})
	// sleeping between RPC retries has no effect in the sequentialised model
	// time.Sleep: see models_clock.go (a no-op unless the harness opted into the symbolic clock)
}

// unmarshalByteCap: capacity of a []byte field after a generated (gogoproto) Unmarshal. The generated code does
// `m.F = append(m.F[:0], dAtA[i:j]...)` into a nil slice, so runtime.growslice allocates roundupsize(len) bytes.
// Other element kinds keep cap == len (their capacity is not observable through the codec in the code under test).
func unmarshalByteCap(el []Value) int {
	n := len(el)
	if n == 0 {
		return 0
	}
	t, ok := el[0].(*smt.Term)
	if !ok || t.Sort.K != smt.KBV || t.Sort.W != 8 {
		return n
	}
	return roundupsize(n)
}

// fileReadCopy: what the diskv-backed file cache returns for a stored file: diskv.Read ends in io.ReadAll, which
// reads into a fresh buffer of capacity 512 grown by append (so cap >= 512 whatever the file length).
func (it *Interp) fileReadCopy(v Value) Value {
	bs := it.bytesOfAny(v)
	ncap := 512
	for ncap <= len(bs) { // io.ReadAll grows when len == cap
		ncap = growCap(ncap, ncap+1, 1)
	}
	arr := &ArrayV{E: make([]Value, ncap)}
	for i := range arr.E {
		if i < len(bs) {
			arr.E[i] = bs[i]
		} else {
			arr.E[i] = it.C.BVU(0, 8)
		}
	}
	return SliceV{O: it.newObj(arr, "fileread"), Len: len(bs), Cap: ncap}
}
