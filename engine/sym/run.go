package sym

import (
	"bufio"
	"encoding/json"
	"fmt"
	"os"
	"os/exec"
	"path/filepath"
	"regexp"
	"runtime"
	"sort"
	"strings"
	"symgo/smt"
	"sync"
	"sync/atomic"
	"time"

	"golang.org/x/tools/go/ssa"
)

type TierCfg struct {
	Unwind       int            `json:"unwind"`
	Cases        int            `json:"cases"`
	Params       map[string]int `json:"params"`
	MaxPaths     int            `json:"max_paths"`
	MaxSteps     int64          `json:"max_steps"`
	MapOrder     string         `json:"map_order"`
	Skip         bool           `json:"skip"`
	FeasMs       int            `json:"feas_ms"`
	AssertMs     int            `json:"assert_ms"`
	BudgetS      int            `json:"budget_s"` // wall budget of the harness in seconds (0 = none); exceeding it is INCONCLUSIVE
	GenericFork  bool           `json:"generic_fork"`
	AbstractURem bool           `json:"abstract_urem"`
	AbstractDiv  bool           `json:"abstract_div"`   // over-approximate symbolic/symbolic division (exact re-check on sat)
	SolverOpts   []string       `json:"solver_options"` // extra SMT-LIB commands sent to the solver at start
	NoLift       bool           `json:"no_lift"`        // keep Int comparisons in the Int theory (pair with z3's int-blasting bv solver)
}

type HarnessCfg struct {
	Pkg    string             `json:"pkg"` // relative to module, e.g. "x/feeds/types"
	Func   string             `json:"func"`
	About  string             `json:"about"`
	Reach  []string           `json:"reach"`
	Tiers  map[string]TierCfg `json:"tiers"`
	Encode []string           `json:"encodes"`
	cur    TierCfg
}

type ScanAllow struct {
	Kind string `json:"kind"`
	Func string `json:"func"` // substring of the function name
	Why  string `json:"why"`
}

type ScanCfg struct {
	Packages []string    `json:"packages"`
	Allow    []ScanAllow `json:"allow"`
}

type CheckCfg struct {
	Scan        *ScanCfg      `json:"scan"`
	Load        []string      `json:"load"` // extra package patterns to load (whole-program queries such as vs.Implementors)
	Property    string        `json:"property"`
	Harnesses   []*HarnessCfg `json:"harnesses"`
	Assumptions []string      `json:"assumptions"`
	Stubs       []string      `json:"stubs"`
	Outside     []string      `json:"outside"`
}

type RunOpts struct {
	VerifDir string
	OutDir   string // evidence/, replays/, build/ are written here (default VerifDir); checks, harnesses and findings are always read from VerifDir
	RepoDir  string
	Tier     string
	Seed     int
	Jobs     int
	Solver   string
	Verbose  int
	Only     string
	NoReplay bool
}

func (o RunOpts) outDir() string {
	if o.OutDir != "" {
		return o.OutDir
	}
	return o.VerifDir
}

type harnessReport struct {
	Name        string         `json:"harness"`
	About       string         `json:"about,omitempty"`
	Cases       int            `json:"cases"`
	Paths       int            `json:"paths"`
	Completed   int            `json:"completed_paths"`
	Infeasible  int            `json:"infeasible_paths"`
	Branches    int            `json:"symbolic_branches"`
	Obligations int            `json:"obligations"`
	Discharged  int            `json:"discharged"`
	Queries     int            `json:"solver_queries"`
	SolverS     float64        `json:"solver_s"`
	WallS       float64        `json:"wall_s"`
	Unwind      int            `json:"unwind_bound"`
	Params      map[string]int `json:"params,omitempty"`
	Reached     []string       `json:"reach_labels_witnessed"`
	Missing     []string       `json:"reach_labels_missing,omitempty"`
	Violations  []string       `json:"violations,omitempty"`
	Known       []string       `json:"known_findings,omitempty"`
	Inconcl     []string       `json:"inconclusive,omitempty"`
	Replayed    int            `json:"witness_replays_ok"`
	ReplayNote  []string       `json:"replay_notes,omitempty"`
	MaxSteps    int64          `json:"max_path_steps"`
}

func loadKnownFindings(verifDir string) (open map[string]string) {
	open = map[string]string{}
	f, err := os.Open(filepath.Join(verifDir, "known_findings.txt"))
	if err != nil {
		return
	}
	defer f.Close()
	sc := bufio.NewScanner(f)
	re := regexp.MustCompile(`\bid=(\S+)`)
	for sc.Scan() {
		line := strings.TrimSpace(sc.Text())
		if !strings.HasPrefix(line, "finding:") {
			continue
		}
		if m := re.FindStringSubmatch(line); m != nil {
			open[m[1]] = line
		}
	}
	return
}

// RunCheck runs all harnesses of a property and returns the process exit code.
func RunCheck(o RunOpts, propID string) int {
	start := time.Now()
	if o.Verbose > 0 {
		smt.SlowLog = func(tag string, d time.Duration, n int) {
			fmt.Fprintf(os.Stderr, "slow solver call %.1fs tag=%q asserts=%d\n", d.Seconds(), tag, n)
		}
	}
	cfgPath := filepath.Join(o.VerifDir, "checks", propID+".json")
	raw, err := os.ReadFile(cfgPath)
	if err != nil {
		fmt.Printf("INCONCLUSIVE cannot read %s: %v\n", cfgPath, err)
		return 2
	}
	var cc CheckCfg
	if err := json.Unmarshal(raw, &cc); err != nil {
		fmt.Printf("INCONCLUSIVE bad check config: %v\n", err)
		return 2
	}
	known := loadKnownFindings(o.VerifDir)
	pkgSet := map[string]bool{}
	var active []*HarnessCfg
	for _, h := range cc.Harnesses {
		t, ok := h.Tiers[o.Tier]
		if !ok {
			t, ok = h.Tiers["quick"]
			if !ok {
				continue
			}
		}
		if t.Skip {
			continue
		}
		if o.Only != "" && !strings.Contains(h.Func, o.Only) {
			continue
		}
		h.cur = t
		active = append(active, h)
		pkgSet["./"+h.Pkg] = true
	}
	var patterns []string
	for p := range pkgSet {
		patterns = append(patterns, p)
	}
	sort.Strings(patterns)
	if cc.Scan != nil {
		for _, p := range cc.Scan.Packages {
			if !pkgSet["./"+p] {
				patterns = append(patterns, "./"+p)
			}
		}
	}
	for _, p := range cc.Load {
		if !pkgSet[p] {
			patterns = append(patterns, p)
		}
	}
	patterns = append(patterns, "./vsupport")
	tLoad := time.Now()
	L, err := Load(o.RepoDir, filepath.Join(o.VerifDir, "harness"), patterns, "verif,symgo")
	if err != nil {
		fmt.Printf("INCONCLUSIVE load failed: %v\n", err)
		writeEvidence(o, &cc, nil, time.Since(start), 0, []string{"load failed: " + err.Error()}, nil)
		return 2
	}
	loadS := time.Since(tLoad).Seconds()
	for id := range known {
		L.OpenFindings[id] = true
	}
	fmt.Printf("loaded %d packages in %.1fs\n", len(L.Prog.AllPackages()), loadS)

	var reports []*harnessReport
	exit := 0
	var allViol []*Violation
	funcs := map[string]bool{}
	knownPrinted := map[string]bool{}
	var inconclusive []string
	for _, h := range active {
		sp := L.Package(ModPath + "/" + h.Pkg)
		if sp == nil {
			inconclusive = append(inconclusive, "package not loaded: "+h.Pkg)
			continue
		}
		fn := sp.Func(h.Func)
		if fn == nil {
			inconclusive = append(inconclusive, "harness not found: "+h.Pkg+"."+h.Func)
			continue
		}
		rep, jr := runHarness(L, o, h, fn)
		reports = append(reports, rep)
		for k := range jr.Funcs {
			funcs[k] = true
		}
		for _, s := range jr.Inconclusive {
			inconclusive = append(inconclusive, h.Func+": "+s)
		}
		for _, m := range rep.Missing {
			inconclusive = append(inconclusive, h.Func+": vacuous — reach label never witnessed: "+m)
		}
		// known findings
		ids := make([]string, 0, len(jr.KnownHits))
		for id := range jr.KnownHits {
			ids = append(ids, id)
		}
		sort.Strings(ids)
		for _, id := range ids {
			v := jr.KnownHits[id]
			path := writeReplay(o, propID, h, v)
			if !knownPrinted[id] {
				knownPrinted[id] = true
				fmt.Printf("KNOWN-FINDING: property=%s %s (replay=%s)\n", propID, strings.TrimPrefix(known[id], "finding: "), path)
			}
			rep.Known = append(rep.Known, id)
		}
		// several candidate counterexamples may exist per label: the first one that reproduces natively is
		// reported; a label none of whose candidates reproduces is an engine mismatch (inconclusive)
		doneLabel := map[string]bool{}
		lastNote := map[string]string{}
		var labelOrder []string
		for i, v := range jr.Violations {
			if doneLabel[v.Label] {
				continue
			}
			if _, seen := lastNote[v.Label]; !seen {
				labelOrder = append(labelOrder, v.Label)
				lastNote[v.Label] = ""
			}
			path := writeReplayN(o, propID, h, v, i)
			ok, note := true, ""
			if !o.NoReplay && !v.NoNativeReplay {
				ok, note = nativeReplay(o, L, h, path, v)
			}
			if ok {
				doneLabel[v.Label] = true
				fmt.Printf("VIOLATION property=%s replay=%s\n", propID, path)
				fmt.Printf("  harness=%s label=%s: %s\n  inputs: %s\n", h.Func, v.Label, v.Msg, tapeString(v.Tape))
				rep.Violations = append(rep.Violations, v.Label+": "+v.Msg)
				allViol = append(allViol, v)
				exit = 1
			} else {
				lastNote[v.Label] = note
			}
		}
		for _, l := range labelOrder {
			if !doneLabel[l] {
				inconclusive = append(inconclusive, fmt.Sprintf("%s: engine-mismatch: no counterexample for %s reproduced natively (%s)", h.Func, l, lastNote[l]))
				rep.ReplayNote = append(rep.ReplayNote, lastNote[l])
			}
		}
		// witness replays
		if !o.NoReplay && len(jr.Violations) == 0 {
			n, notes := replayWitnesses(o, L, propID, h, jr)
			rep.Replayed = n
			rep.ReplayNote = append(rep.ReplayNote, notes...)
			for _, nt := range notes {
				inconclusive = append(inconclusive, h.Func+": witness replay: "+nt)
			}
		}
	}
	var scanSites []ScanSite
	if cc.Scan != nil {
		scanSites = L.ScanDeterminism(cc.Scan.Packages)
		for _, st := range scanSites {
			ok := false
			for _, a := range cc.Scan.Allow {
				if a.Kind == st.Kind && strings.Contains(st.Func, a.Func) {
					ok = true
					break
				}
			}
			if !ok {
				inconclusive = append(inconclusive, fmt.Sprintf("determinism scan: unreviewed %s site %s (%s) in %s — add an order/entropy argument or a harness", st.Kind, st.Pos, st.What, st.Func))
			}
		}
		fmt.Printf("determinism scan: %d sites in %d packages\n", len(scanSites), len(cc.Scan.Packages))
	}
	for _, s := range inconclusive {
		fmt.Printf("INCONCLUSIVE %s\n", s)
	}
	if exit == 0 && len(inconclusive) > 0 {
		exit = 2
	}
	writeEvidence(o, &cc, reports, time.Since(start), len(allViol), inconclusive, sortedKeys(funcs))
	total := 0
	disch := 0
	for _, r := range reports {
		total += r.Obligations
		disch += r.Discharged
	}
	fmt.Printf("property %s tier=%s: %d harnesses, %d/%d obligations discharged, %d violations, %d inconclusive, %.1fs\n",
		propID, o.Tier, len(reports), disch, total, len(allViol), len(inconclusive), time.Since(start).Seconds())
	return exit
}

func runHarness(L *Loaded, o RunOpts, h *HarnessCfg, fn *ssa.Function) (*harnessReport, *JobResult) {
	t := h.cur
	smt.NoLift = t.NoLift
	cfg := &Config{Unwind: t.Unwind, MaxSteps: t.MaxSteps, FeasTimeoutMs: t.FeasMs, AssertTimeout: t.AssertMs,
		MaxPaths: t.MaxPaths, MapOrder: t.MapOrder, Verbose: o.Verbose, GenericFork: t.GenericFork}
	if cfg.Unwind == 0 {
		cfg.Unwind = 8
	}
	if cfg.MaxSteps == 0 {
		cfg.MaxSteps = 50_000_000
	}
	if cfg.FeasTimeoutMs == 0 {
		cfg.FeasTimeoutMs = 10_000
	}
	if cfg.AssertTimeout == 0 {
		cfg.AssertTimeout = 60_000
	}
	if cfg.MaxPaths == 0 {
		cfg.MaxPaths = 200_000
	}
	cases := t.Cases
	if cases <= 0 {
		cases = 1
	}
	start := time.Now()
	jr := &JobResult{Harness: h.Func, Reached: map[string]bool{}, Witness: map[string][]TapeEntry{}, Funcs: map[string]bool{}}
	var mu sync.Mutex
	nw := o.Jobs
	if nw <= 0 {
		nw = runtime.NumCPU()
	}
	// one shared work list per case; workers are spread over the cases
	ctl := &runCtl{}
	if t.BudgetS > 0 {
		ctl.budget = time.Now().Add(time.Duration(t.BudgetS) * time.Second).UnixNano()
	}
	lists := make([]*workList, cases)
	for i := range lists {
		lists[i] = &workList{items: [][]dec{nil}, ctl: ctl}
	}
	var wg sync.WaitGroup
	per := nw / cases
	if per < 1 {
		per = 1
	}
	sem := make(chan struct{}, nw)
	for ci := 0; ci < cases; ci++ {
		for k := 0; k < per; k++ {
			wg.Add(1)
			go func(ci, k int) {
				defer wg.Done()
				sem <- struct{}{}
				defer func() { <-sem }()
				w := &Worker{L: L, Cfg: cfg}
				w.RunJob(job{harness: fn, hcfg: h, caseN: ci}, o.Solver, lists[ci], jr, &mu, k)
			}(ci, k)
		}
	}
	stopTick := make(chan struct{})
	go func() {
		t := time.NewTicker(30 * time.Second)
		defer t.Stop()
		for {
			select {
			case <-stopTick:
				return
			case <-t.C:
				pending := 0
				for _, l := range lists {
					l.mu.Lock()
					pending += len(l.items)
					l.mu.Unlock()
				}
				PrintForkStat(false)
				fmt.Fprintf(os.Stderr, "  ... %s: %d paths started, %d queued, %.0fs\n", h.Func, atomic.LoadInt64(&progressPaths), pending, time.Since(start).Seconds())
			}
		}
	}()
	wg.Wait()
	close(stopTick)
	PrintForkStat(true)
	atomic.StoreInt64(&progressPaths, 0)
	jr.Wall = time.Since(start)
	rep := &harnessReport{Name: h.Pkg + "." + h.Func, About: h.About, Cases: cases, Paths: jr.Paths, Completed: jr.Completed,
		Infeasible: jr.Infeasible, Branches: jr.Branches, Obligations: jr.Obligations, Discharged: jr.Discharged,
		Queries: jr.Queries, SolverS: jr.SolverTime.Seconds(), WallS: jr.Wall.Seconds(), Unwind: cfg.Unwind, Params: t.Params,
		Reached: sortedKeys(jr.Reached), MaxSteps: jr.MaxSteps}
	for _, r := range h.Reach {
		if !jr.Reached[r] {
			rep.Missing = append(rep.Missing, r)
		}
	}
	if jr.Completed == 0 && len(jr.Violations) == 0 {
		jr.Inconclusive = append(jr.Inconclusive, "no path completed")
	}
	rep.Inconcl = jr.Inconclusive
	fmt.Printf("  %-40s paths=%d done=%d infeasible=%d oblig=%d/%d queries=%d solver=%.1fs wall=%.1fs viol=%d known=%d inconcl=%d\n",
		h.Func, jr.Paths, jr.Completed, jr.Infeasible, jr.Discharged, jr.Obligations, jr.Queries, jr.SolverTime.Seconds(),
		jr.Wall.Seconds(), len(jr.Violations), len(jr.KnownHits), len(jr.Inconclusive))
	return rep, jr
}

type replayFile struct {
	Property string         `json:"property"`
	Pkg      string         `json:"pkg"`
	Harness  string         `json:"harness"`
	Label    string         `json:"label"`
	Kind     string         `json:"kind"`
	Msg      string         `json:"msg"`
	Case     int            `json:"case"`
	Params   map[string]int `json:"params"`
	Tape     []TapeEntry    `json:"tape"`
	Expect   string         `json:"expect"` // "violation" or "pass"
}

func writeReplay(o RunOpts, prop string, h *HarnessCfg, v *Violation) string {
	return writeReplayN(o, prop, h, v, 0)
}

// writeReplayN: the first candidate of a label keeps the plain name, alternatives get a numeric suffix.
func writeReplayN(o RunOpts, prop string, h *HarnessCfg, v *Violation, idx int) string {
	dir := filepath.Join(o.outDir(), "replays")
	os.MkdirAll(dir, 0o755)
	name := fmt.Sprintf("%s-%s-%s.json", prop, h.Func, sanitize(v.Label))
	if _, err := os.Stat(filepath.Join(dir, name)); err == nil && idx > 0 {
		name = fmt.Sprintf("%s-%s-%s.%d.json", prop, h.Func, sanitize(v.Label), idx)
	}
	p := filepath.Join(dir, name)
	rf := replayFile{Property: prop, Pkg: h.Pkg, Harness: h.Func, Label: v.Label, Kind: v.Kind, Msg: v.Msg, Params: h.cur.Params, Tape: v.Tape, Expect: "violation", Case: v.Case}
	b, _ := json.MarshalIndent(rf, "", " ")
	os.WriteFile(p, b, 0o644)
	return p
}

func sanitize(s string) string {
	return regexp.MustCompile(`[^A-Za-z0-9_.-]+`).ReplaceAllString(s, "_")
}

// overlayJSON writes the go build -overlay file mapping harness files into the repo.
func overlayJSON(o RunOpts, L *Loaded) (string, error) {
	type ov struct {
		Replace map[string]string
	}
	m := ov{Replace: map[string]string{}}
	hdir := filepath.Join(o.VerifDir, "harness")
	for virt := range L.Overlay {
		rel, _ := filepath.Rel(o.RepoDir, virt)
		m.Replace[virt] = filepath.Join(hdir, rel)
	}
	dir := filepath.Join(o.outDir(), "build")
	os.MkdirAll(dir, 0o755)
	// native-only source patches (seams needed to replay a tape against concrete types): the current
	// repo file is patched textually and the patched copy is mapped over the original.
	filepath.Walk(hdir, func(p string, info os.FileInfo, err error) error {
		if err != nil || info.IsDir() || !strings.HasSuffix(p, ".npatch") {
			return nil
		}
		raw, err := os.ReadFile(p)
		if err != nil {
			return nil
		}
		var np struct {
			File    string `json:"file"`
			After   string `json:"after"`
			Insert  string `json:"insert"`
			Replace string `json:"replace"`
			With    string `json:"with"`
		}
		if json.Unmarshal(raw, &np) != nil {
			return nil
		}
		srcPath := filepath.Join(o.RepoDir, np.File)
		if prev, ok := m.Replace[srcPath]; ok {
			srcPath = prev // several patches on one file compose
		}
		src, err := os.ReadFile(srcPath)
		if err != nil {
			return nil
		}
		var out string
		if np.Replace != "" {
			if !strings.Contains(string(src), np.Replace) {
				return nil
			}
			out = strings.Replace(string(src), np.Replace, np.With, -1)
		} else {
			i := strings.Index(string(src), np.After)
			if i < 0 {
				return nil // the anchor is gone: the replay will fail to build its seam and be reported
			}
			out = string(src[:i+len(np.After)]) + np.Insert + string(src[i+len(np.After):])
		}
		dst := filepath.Join(dir, "patched", np.File)
		os.MkdirAll(filepath.Dir(dst), 0o755)
		os.WriteFile(dst, []byte(out), 0o644)
		m.Replace[filepath.Join(o.RepoDir, np.File)] = dst
		return nil
	})
	b, _ := json.Marshal(m)
	p := filepath.Join(dir, "overlay.json")
	return p, os.WriteFile(p, b, 0o644)
}

// nativeReplay runs the harness natively on the tape; returns true when the same label fails.
func nativeReplay(o RunOpts, L *Loaded, h *HarnessCfg, tapePath string, v *Violation) (bool, string) {
	out, err := runNative(o, L, h, tapePath)
	if err != nil && out == "" {
		return false, "go test failed to run: " + err.Error()
	}
	want := "REPLAY-VIOLATION label=" + v.Label
	if v.Kind == "panic" {
		want = "REPLAY-PANIC"
	}
	if strings.Contains(out, want) {
		return true, ""
	}
	// the native run on the solver's inputs violates ANOTHER assertion of the same harness (typical when the values
	// of uninterpreted hashes differ natively): still a counterexample of the property on the real code
	if v.Kind != "panic" {
		if i := strings.Index(out, "REPLAY-VIOLATION label="); i >= 0 {
			rest := out[i+len("REPLAY-VIOLATION label="):]
			if j := strings.IndexAny(rest, " \n|"); j > 0 {
				rest = rest[:j]
			}
			v.Msg += " (the native replay of these inputs violates assertion " + rest + ")"
			return true, ""
		}
	}
	// a panic in a goroutine started by the code under test cannot be recovered by the replay driver: it kills
	// the test process, which prints the Go runtime's crash report instead of REPLAY-PANIC
	if v.Kind == "panic" && strings.Contains(out, "\npanic: ") && strings.Contains(out, "\ngoroutine ") && !strings.Contains(out, "test timed out") {
		return true, ""
	}
	tail := out
	if len(tail) > 600 {
		tail = tail[len(tail)-600:]
	}
	return false, "native run did not report " + want + ": " + strings.ReplaceAll(tail, "\n", " | ")
}

var nativeMu sync.Mutex

func runNative(o RunOpts, L *Loaded, h *HarnessCfg, tapePath string) (string, error) {
	nativeMu.Lock()
	defer nativeMu.Unlock()
	ovp, err := overlayJSON(o, L)
	if err != nil {
		return "", err
	}
	cmd := exec.Command("go", "test", "-tags", "verif", "-vet=off", "-count=1", "-v", "-overlay", ovp, "-run", "^TestVerifReplay$", "-timeout", "300s", "./"+h.Pkg)
	cmd.Dir = o.RepoDir
	cmd.Env = append(os.Environ(), "GOFLAGS=-mod=mod", "GOPROXY=off", "GOSUMDB=off", "GOTOOLCHAIN=local", "VERIF_TAPE="+tapePath)
	b, err := cmd.CombinedOutput()
	return string(b), err
}

func replayWitnesses(o RunOpts, L *Loaded, prop string, h *HarnessCfg, jr *JobResult) (int, []string) {
	if len(jr.Witness) == 0 {
		return 0, nil
	}
	// all witnesses of the harness in one native run
	dir := filepath.Join(o.outDir(), "replays")
	os.MkdirAll(dir, 0o755)
	labels := sortedKeys(jr.Reached)
	type multi struct {
		Property string         `json:"property"`
		Pkg      string         `json:"pkg"`
		Harness  string         `json:"harness"`
		Params   map[string]int `json:"params"`
		Expect   string         `json:"expect"`
		Tapes    []struct {
			Label string      `json:"label"`
			Case  int         `json:"case"`
			Tape  []TapeEntry `json:"tape"`
		} `json:"tapes"`
	}
	m := multi{Property: prop, Pkg: h.Pkg, Harness: h.Func, Params: h.cur.Params, Expect: "pass"}
	for _, l := range labels {
		m.Tapes = append(m.Tapes, struct {
			Label string      `json:"label"`
			Case  int         `json:"case"`
			Tape  []TapeEntry `json:"tape"`
		}{l, jr.WitnessCase[l], jr.Witness[l]})
	}
	p := filepath.Join(dir, fmt.Sprintf("%s-%s-witness.json", prop, h.Func))
	b, _ := json.MarshalIndent(m, "", " ")
	os.WriteFile(p, b, 0o644)
	out, err := runNative(o, L, h, p)
	ok := strings.Count(out, "REPLAY-WITNESS-OK")
	var notes []string
	if err != nil || ok != len(labels) {
		tail := out
		if len(tail) > 800 {
			tail = tail[len(tail)-800:]
		}
		notes = append(notes, fmt.Sprintf("%d/%d witnesses reproduced natively: %s", ok, len(labels), strings.ReplaceAll(tail, "\n", " | ")))
	}
	return ok, notes
}

func writeEvidence(o RunOpts, cc *CheckCfg, reps []*harnessReport, wall time.Duration, nviol int, inconcl []string, funcs []string) {
	states, trans, replays, oblig, disch, queries := 0, 0, 0, 0, 0, 0
	solverS := 0.0
	var samples []interface{}
	for _, r := range reps {
		states += r.Paths
		trans += r.Branches
		replays += r.Replayed
		oblig += r.Obligations
		disch += r.Discharged
		queries += r.Queries
		solverS += r.SolverS
	}
	for _, r := range reps {
		samples = append(samples, map[string]interface{}{"harness": r.Name, "paths": r.Paths, "obligations": r.Obligations, "reach": r.Reached})
	}
	if len(samples) == 0 {
		samples = append(samples, "no harness ran")
	}
	var modFuncs []string
	for _, f := range funcs {
		if strings.Contains(f, ModPath) && !strings.Contains(f, "/vsupport") && !strings.Contains(f, "Verif") {
			modFuncs = append(modFuncs, strings.ReplaceAll(f, ModPath+"/", ""))
		}
	}
	ev := map[string]interface{}{
		"property_id": cc.Property,
		"tier":        o.Tier,
		"seed":        o.Seed,
		"level":       "model_checking",
		"wall_s":      wall.Seconds(),
		"violations":  nviol,
		"assumptions": append(append([]string{}, cc.Assumptions...), prefixAll("stub: ", cc.Stubs)...),
		"coverage": map[string]interface{}{
			"states":                        max1(states),
			"transitions":                   max1(trans),
			"traces_validated_against_impl": replays,
			"samples":                       samples,
			"obligations":                   oblig,
			"discharged":                    disch,
			"solver_queries":                queries,
			"solver_s":                      solverS,
			"solver":                        o.Solver,
			"functions_encoded":             modFuncs,
			"functions_executed_total":      len(funcs),
			"harnesses":                     reps,
			"inconclusive":                  inconcl,
			"outside_claim":                 cc.Outside,
			"explanation":                   "states = symbolic paths explored by the SSA executor (each covers all inputs satisfying its path condition); transitions = solver-decided branch points; every obligation is an SMT query pc ∧ ¬assertion answered unsat",
		},
	}
	dir := filepath.Join(o.outDir(), "evidence")
	os.MkdirAll(dir, 0o755)
	b, _ := json.MarshalIndent(ev, "", " ")
	os.WriteFile(filepath.Join(dir, cc.Property+".json"), b, 0o644)
}

func max1(n int) int {
	if n < 1 {
		return 1
	}
	return n
}

func prefixAll(p string, ss []string) []string {
	r := make([]string, len(ss))
	for i, s := range ss {
		r[i] = p + s
	}
	return r
}

// RunScan prints the determinism scan of the given packages (repo-relative paths).
func RunScan(o RunOpts, pkgs []string) int {
	var patterns []string
	for _, p := range pkgs {
		patterns = append(patterns, "./"+p)
	}
	L, err := Load(o.RepoDir, filepath.Join(o.VerifDir, "harness"), patterns, "verif,symgo")
	if err != nil {
		fmt.Println("load failed:", err)
		return 2
	}
	for _, s := range L.ScanDeterminism(pkgs) {
		fmt.Printf("%s\t%s\t%s\t%s\n", s.Kind, s.Pos, s.What, s.Func)
	}
	return 0
}
