package sym

import (
	"golang.org/x/tools/go/ssa"
)

// Models needed by the x/tunnel harnesses (C17, C08) that are not specific to codectypes.Any.

func init() {
	// String() of coins only flows into events and error messages (strings.Builder uses unsafe).
	for _, n := range []string{"(" + sdkTypes + ".Coins).String", "(" + sdkTypes + ".Coin).String",
		"(" + sdkTypes + ".DecCoins).String", "(" + sdkTypes + ".DecCoin).String"} {
		Register(n, func(it *Interp, fn *ssa.Function, a []Value) Value {
			return OpaqueV{Why: "coins text"}
		})
	}
	// cosmossdk.io/errors.isNilErr: reflect-based "is this a nil error or a typed nil pointer".
	Register("cosmossdk.io/errors.isNilErr", func(it *Interp, fn *ssa.Function, a []Value) Value {
		iv := a[0].(IfaceV)
		if iv.T == nil {
			return it.C.BoolConst(true)
		}
		if p, ok := iv.V.(PtrV); ok {
			return it.C.BoolConst(p.O == nil)
		}
		if _, ok := iv.V.(*StructV); ok {
			return it.C.BoolConst(false)
		}
		it.abort("isNilErr of %T", iv.V)
		return nil
	})
}
