package sym

import (
	"fmt"
	"go/token"
	"math/big"

	"symgo/smt"
)

// Exact division of a symbolic machine integer by a constant through witnesses.
//
// Bit-blasted dividers/multipliers by constants such as 1e9 (time.Duration -> seconds) make queries that are
// linear in the quotient and remainder intractable. When a harness sets params.exact_const_div = 1, x / K
// and x % K (K a constant > 1, not a power of two) are replaced by fresh q, r that are constrained by
//
//	x = q*K + r,  0 <= r < K,  q <= (2^w-1)/K,  q*K + r does not wrap
//
// which determines q and r uniquely, so this is an exact definition and not an abstraction. Signed division
// (Go truncates towards zero) is expressed through the unsigned witnesses of |x| after branching on the sign.
func (it *Interp) constDiv(op token.Token, signed bool, x, y *smt.Term) *smt.Term {
	if it.hcfg == nil || it.hcfg.cur.Params["exact_const_div"] == 0 || !y.IsConst() || x.IsConst() {
		return nil
	}
	w := x.Sort.W
	k := new(big.Int).Set(y.Val)
	if signed {
		k = y.SignedVal()
	}
	if k.Cmp(big.NewInt(2)) < 0 || new(big.Int).And(k, new(big.Int).Sub(k, big.NewInt(1))).Sign() == 0 {
		return nil // <= 1, negative, or a power of two: left to the solver
	}
	c := it.C
	pick := func(q, r *smt.Term) *smt.Term {
		if op == token.QUO {
			return q
		}
		return r
	}
	if !signed {
		q, r := it.udivWitness(x, k)
		return pick(q, r)
	}
	// The sign of x is decided by a branch (forced when the path condition fixes it), so that the signed and
	// the unsigned division of the same non-negative value share their witnesses.
	if it.Branch(c.BVSlt(x, c.BVU(0, w))) {
		// |x| as an unsigned value (MinInt maps to 2^(w-1), which is right for unsigned division)
		q, r := it.udivWitness(c.BVNeg(x), k)
		return pick(c.BVNeg(q), c.BVNeg(r))
	}
	q, r := it.udivWitness(x, k)
	return pick(q, r)
}

func (it *Interp) udivWitness(x *smt.Term, k *big.Int) (q, r *smt.Term) {
	c := it.C
	w := x.Sort.W
	key := fmt.Sprintf("divconst!%d!%s", x.ID, k.String())
	if m, ok := it.M.extra[key].([2]*smt.Term); ok {
		return m[0], m[1]
	}
	q = c.Var("q"+key, x.Sort)
	r = c.Var("r"+key, x.Sort)
	it.M.extra[key] = [2]*smt.Term{q, r}
	kt := c.BVConst(k, w)
	maxQ := new(big.Int).Quo(new(big.Int).Sub(new(big.Int).Lsh(big.NewInt(1), uint(w)), big.NewInt(1)), k)
	qk := c.BVMul(q, kt)
	sum := c.BVAdd(qk, r)
	it.addPC(c.BVUlt(r, kt))
	it.addPC(c.BVUle(q, c.BVConst(maxQ, w)))
	it.addPC(c.BVUle(qk, sum))
	it.addPC(c.Eq(x, sum))
	// redundant but cheap for the solver: the quotient never exceeds the dividend
	it.addPC(c.BVUle(q, x))
	return q, r
}
