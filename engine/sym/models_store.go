package sym

import (
	"go/token"
	"go/types"

	"golang.org/x/tools/go/ssa"

	"symgo/smt"
)

// ---------- synthetic dynamic types for model values ----------

var symPkg = types.NewPackage("symgo/model", "model")

func synthType(name string) types.Type {
	return types.NewNamed(types.NewTypeName(token.NoPos, symPkg, name, nil), types.NewStruct(nil, nil), nil)
}

var (
	tyMultiStore = synthType("MultiStore")
	tyKVStore    = synthType("KVStore")
	tyIterator   = synthType("Iterator")
	tyCodec      = synthType("Codec")
	tyOpaque     = synthType("Opaque")
)

// ---------- multistore / kv store ----------

type kvEntry struct {
	key     []*smt.Term
	val     Value // SliceV (bytes) or *Blob; nil when deleted
	deleted bool
}

type kvMap struct {
	entries []*kvEntry
}

// Layer is one (cache-)multistore level.
type Layer struct {
	parent *Layer
	stores map[string]*kvMap
	names  []string
	id     int
}

type storeState struct {
	nlayers int
}

type StoreRef struct {
	layer *Layer
	name  string
}

type IterV struct {
	keys [][]*smt.Term
	vals []Value
	pos  int
	open bool
}

func (it *Interp) newLayer(parent *Layer) *Layer {
	if it.M.stores == nil {
		it.M.stores = &storeState{}
	}
	it.M.stores.nlayers++
	return &Layer{parent: parent, stores: map[string]*kvMap{}, id: it.M.stores.nlayers}
}

func (l *Layer) kv(name string) *kvMap {
	m, ok := l.stores[name]
	if !ok {
		m = &kvMap{}
		l.stores[name] = m
		l.names = append(l.names, name)
	}
	return m
}

// keyMatch decides key equality, forking only when it is genuinely symbolic.
func (it *Interp) keyMatch(a, b []*smt.Term) bool {
	if len(a) != len(b) {
		return false
	}
	a, b = it.coalesceBytes(a, b) // bytes_runs.go
	c := it.C
	eq := c.True
	for i := range a {
		if a[i] == b[i] {
			continue
		}
		if a[i].IsConst() && b[i].IsConst() {
			return false
		}
		eq = c.And(eq, c.Eq(a[i], b[i]))
	}
	return it.Branch(eq)
}

// find returns the entry for key in this layer only.
func (it *Interp) kvFind(m *kvMap, key []*smt.Term) *kvEntry {
	for i := len(m.entries) - 1; i >= 0; i-- {
		e := m.entries[i]
		if it.keyMatch(e.key, key) {
			return e
		}
	}
	return nil
}

func (it *Interp) storeGet(s *StoreRef, key []*smt.Term) Value {
	for l := s.layer; l != nil; l = l.parent {
		if m, ok := l.stores[s.name]; ok {
			if e := it.kvFind(m, key); e != nil {
				if e.deleted {
					return SliceV{}
				}
				return it.copyStoreVal(e.val)
			}
		}
	}
	return SliceV{}
}

func (it *Interp) copyStoreVal(v Value) Value {
	switch x := v.(type) {
	case SliceV:
		// hand out a private copy of the bytes
		return it.mkByteSlice(append([]*smt.Term{}, it.bytesOf(x)...))
	case *Blob:
		return x
	}
	return v
}

func (it *Interp) storeSet(s *StoreRef, key []*smt.Term, val Value) {
	m := s.layer.kv(s.name)
	var sv Value
	switch x := val.(type) {
	case SliceV:
		if x.O == nil {
			it.goPanicStr("store", "value is nil")
		}
		sv = it.mkByteSlice(append([]*smt.Term{}, it.bytesOf(x)...))
	case *Blob:
		sv = x
	default:
		it.abort("store.Set of %T", val)
	}
	if len(key) == 0 {
		it.goPanicStr("store", "key is nil or empty")
	}
	if e := it.kvFind(m, key); e != nil {
		e.val, e.deleted = sv, false
		return
	}
	m.entries = append(m.entries, &kvEntry{key: append([]*smt.Term{}, key...), val: sv})
}

func (it *Interp) storeDelete(s *StoreRef, key []*smt.Term) {
	m := s.layer.kv(s.name)
	if e := it.kvFind(m, key); e != nil {
		if s.layer.parent == nil {
			// base layer: drop the entry
			for i, x := range m.entries {
				if x == e {
					m.entries = append(m.entries[:i:i], m.entries[i+1:]...)
					break
				}
			}
			return
		}
		e.val, e.deleted = nil, true
		return
	}
	if s.layer.parent != nil {
		m.entries = append(m.entries, &kvEntry{key: append([]*smt.Term{}, key...), deleted: true})
	}
}

// merged returns the live entries visible through the store (top layer wins).
func (it *Interp) storeMerged(s *StoreRef) []*kvEntry {
	var layers []*Layer
	for l := s.layer; l != nil; l = l.parent {
		layers = append(layers, l)
	}
	var out []*kvEntry // includes tombstones until the end
	for _, l := range layers {
		m, ok := l.stores[s.name]
		if !ok {
			continue
		}
		for _, e := range m.entries {
			shadowed := false
			for _, o := range out {
				if it.keyMatch(o.key, e.key) {
					shadowed = true
					break
				}
			}
			if !shadowed {
				out = append(out, e)
			}
		}
	}
	live := out[:0:0]
	for _, e := range out {
		if !e.deleted {
			live = append(live, e)
		}
	}
	return live
}

func (it *Interp) storeIterator(s *StoreRef, start, end Value, reverse bool) Value {
	c := it.C
	var sb, eb []*smt.Term
	hasS, hasE := false, false
	if sv, ok := start.(SliceV); ok && sv.O != nil {
		sb, hasS = it.bytesOf(sv), true
	}
	if ev, ok := end.(SliceV); ok && ev.O != nil {
		eb, hasE = it.bytesOf(ev), true
	}
	var sel []*kvEntry
	for _, e := range it.storeMerged(s) {
		in := c.True
		if hasS {
			in = c.And(in, c.Not(it.bytesLess(e.key, sb))) // key >= start
		}
		if hasE {
			in = c.And(in, it.bytesLess(e.key, eb)) // key < end
		}
		if it.Branch(in) {
			sel = append(sel, e)
		}
	}
	// insertion sort by key
	for i := 1; i < len(sel); i++ {
		for j := i; j > 0; j-- {
			if !it.Branch(it.bytesLess(sel[j].key, sel[j-1].key)) {
				break
			}
			sel[j], sel[j-1] = sel[j-1], sel[j]
		}
	}
	iv := &IterV{open: true}
	for _, e := range sel {
		iv.keys = append(iv.keys, e.key)
		iv.vals = append(iv.vals, e.val)
	}
	if reverse {
		for i, j := 0, len(iv.keys)-1; i < j; i, j = i+1, j-1 {
			iv.keys[i], iv.keys[j] = iv.keys[j], iv.keys[i]
			iv.vals[i], iv.vals[j] = iv.vals[j], iv.vals[i]
		}
	}
	return IfaceV{T: tyIterator, V: iv}
}

// layerWrite commits a cache layer into its parent.
func (it *Interp) layerWrite(l *Layer) {
	if l.parent == nil {
		return
	}
	for _, name := range l.names {
		m := l.stores[name]
		ref := &StoreRef{layer: l.parent, name: name}
		for _, e := range m.entries {
			if e.deleted {
				it.storeDelete(ref, e.key)
			} else {
				it.storeSet(ref, e.key, e.val)
			}
		}
		m.entries = nil
	}
}

func bytesArg(it *Interp, v Value) []*smt.Term {
	switch x := v.(type) {
	case SliceV:
		return it.bytesOf(x)
	}
	it.abort("store key of type %T", v)
	return nil
}

func init() {
	invokeHooks = append(invokeHooks, func(it *Interp, iv IfaceV, m *types.Func, a []Value) (Value, bool) {
		c := it.C
		switch x := iv.V.(type) {
		case *Layer:
			switch m.Name() {
			case "GetKVStore", "GetStore", "GetCommitKVStore":
				name := it.storeKeyName(a[0])
				return IfaceV{T: tyKVStore, V: &StoreRef{layer: x, name: name}}, true
			case "CacheMultiStore", "CacheWrap":
				return IfaceV{T: tyMultiStore, V: it.newLayer(x)}, true
			case "Write":
				it.layerWrite(x)
				return nil, true
			case "TracingEnabled":
				return c.False, true
			}
			it.abort("multistore method %s not modelled", m.Name())
		case *StoreRef:
			switch m.Name() {
			case "Get":
				it.traceStoreOp('G', x, bytesArg(it, a[0]), nil)
				return it.storeGet(x, bytesArg(it, a[0])), true
			case "Has":
				it.traceStoreOp('H', x, bytesArg(it, a[0]), nil)
				v := it.storeGet(x, bytesArg(it, a[0]))
				if s, ok := v.(SliceV); ok && s.O == nil {
					return c.False, true
				}
				return c.True, true
			case "Set":
				it.traceStoreOp('S', x, bytesArg(it, a[0]), a[1])
				it.storeSet(x, bytesArg(it, a[0]), a[1])
				return nil, true
			case "Delete":
				it.traceStoreOp('D', x, bytesArg(it, a[0]), nil)
				it.storeDelete(x, bytesArg(it, a[0]))
				return nil, true
			case "Iterator":
				it.traceStoreOp('I', x, nil, nil)
				return it.storeIterator(x, a[0], a[1], false), true
			case "ReverseIterator":
				it.traceStoreOp('R', x, nil, nil)
				return it.storeIterator(x, a[0], a[1], true), true
			}
			it.abort("kvstore method %s not modelled", m.Name())
		case *IterV:
			switch m.Name() {
			case "Valid":
				return c.BoolConst(x.open && x.pos < len(x.keys)), true
			case "Next":
				if x.pos >= len(x.keys) {
					it.goPanicStr("iterator", "iterator is invalid")
				}
				x.pos++
				return nil, true
			case "Key":
				if x.pos >= len(x.keys) {
					it.goPanicStr("iterator", "iterator is invalid")
				}
				return it.mkByteSlice(append([]*smt.Term{}, x.keys[x.pos]...)), true
			case "Value":
				if x.pos >= len(x.keys) {
					it.goPanicStr("iterator", "iterator is invalid")
				}
				return it.copyStoreVal(x.vals[x.pos]), true
			case "Close":
				x.open = false
				return IfaceV{}, true
			case "Error":
				return IfaceV{}, true
			}
			it.abort("iterator method %s not modelled", m.Name())
		}
		return nil, false
	})

	// sdk.Context: the real struct and its real methods are used; only the store access skips the gas wrapper.
	Register("(github.com/cosmos/cosmos-sdk/types.Context).KVStore", func(it *Interp, fn *ssa.Function, a []Value) Value {
		ctx := a[0].(*StructV)
		i := fieldIndex(fn.Signature.Recv().Type(), "ms")
		ms, ok := ctx.F[i].(IfaceV)
		if !ok || ms.T == nil {
			it.goPanicNilDeref()
		}
		l, ok := ms.V.(*Layer)
		if !ok {
			it.abort("Context.KVStore on a non-model multistore")
		}
		return IfaceV{T: tyKVStore, V: &StoreRef{layer: l, name: it.storeKeyName(a[1])}}
	})
	Register("(github.com/cosmos/cosmos-sdk/types.Context).TransientStore", func(it *Interp, fn *ssa.Function, a []Value) Value {
		it.abort("transient stores are not modelled")
		return nil
	})
	Register(VE+"NewMultiStore", func(it *Interp, fn *ssa.Function, a []Value) Value {
		return IfaceV{T: tyMultiStore, V: it.newLayer(nil)}
	})
}

func (it *Interp) storeKeyName(k Value) string {
	iv, ok := k.(IfaceV)
	if !ok || iv.T == nil {
		it.abort("store key is %T", k)
	}
	fn := it.L.Prog.LookupMethod(iv.T, nil, "Name")
	if fn == nil {
		it.abort("store key without Name()")
	}
	s, ok := it.callFn(fn, []Value{iv.V}, nil, 0).(StrV)
	if !ok || !s.Concrete() {
		it.abort("store key name is not concrete")
	}
	return s.S
}

func (it *Interp) blobLen(b *Blob) Value {
	// len(marshal(m)) == 0 iff m is the all-default message
	d := it.isDefaultTerm(b.V)
	return it.C.Ite(d, it.C.BVI(0, 64), it.C.BVI(1, 64))
}

// isDefaultTerm: every leaf of the message value is its zero value.
func (it *Interp) isDefaultTerm(v Value) *smt.Term {
	c := it.C
	switch x := v.(type) {
	case nil:
		return c.True
	case *smt.Term:
		if x.Sort.K == smt.KBool {
			return c.Not(x)
		}
		return c.Eq(x, c.BVU(0, x.Sort.W))
	case StrV:
		return c.BoolConst(x.Len() == 0)
	case SliceV:
		return c.BoolConst(x.Len == 0)
	case PtrV:
		return c.BoolConst(x.O == nil)
	case IfaceV:
		return c.BoolConst(x.T == nil)
	case *MapObj:
		return c.BoolConst(x == nil || len(x.Keys) == 0)
	case FloatV:
		return c.BoolConst(x == 0)
	case BigV:
		return c.Eq(x.T, c.IntI(0))
	case *StructV:
		r := c.True
		for _, f := range x.F {
			r = c.And(r, it.isDefaultTerm(f))
		}
		return r
	case *ArrayV:
		r := c.True
		for _, f := range x.E {
			r = c.And(r, it.isDefaultTerm(f))
		}
		return r
	case *Blob:
		return it.isDefaultTerm(x.V)
	}
	it.abort("isDefault of %T", v)
	return nil
}
