package sym

type storeState struct{}

func (it *Interp) blobLen(b *Blob) Value {
	it.abort("len of codec blob not modelled yet")
	return nil
}
