package sym

import (
	"regexp"
	"strings"

	"golang.org/x/tools/go/ssa"
)

// Models needed by the x/tss keeper harnesses (C05).
//
// Package-level regular expressions (sdk.IsAlphaNumeric = regexp.MustCompile(`^[a-zA-Z0-9]+$`).MatchString,
// used by the x/tss content / callback routers when a route is registered): the compiled expression keeps
// its pattern, and MatchString on a concrete subject is decided by the real regexp package linked into the
// engine. Symbolic subjects are not modelled.

const regexpTag = "regexp:"

func init() {
	Register("regexp.MustCompile", func(it *Interp, fn *ssa.Function, a []Value) Value {
		s, ok := a[0].(StrV)
		if !ok || !s.Concrete() {
			return it.opaqueResult(fn.Signature, "regexp.MustCompile of a symbolic pattern")
		}
		return PtrV{O: it.newObj(OpaqueV{Why: regexpTag + s.S}, "regexp")}
	})
	Register("(*regexp.Regexp).MatchString", func(it *Interp, fn *ssa.Function, a []Value) Value {
		p, ok := a[0].(PtrV)
		if !ok || p.O == nil {
			it.abort("regexp.MatchString on %T", a[0])
		}
		ov, ok := p.O.V.(OpaqueV)
		if !ok || !strings.HasPrefix(ov.Why, regexpTag) {
			it.abort("regexp.MatchString on an unmodelled expression")
		}
		s, ok := a[1].(StrV)
		if !ok || !s.Concrete() {
			it.abort("regexp.MatchString of a symbolic string (pattern %s)", ov.Why[len(regexpTag):])
		}
		re, err := regexp.Compile(ov.Why[len(regexpTag):])
		if err != nil {
			it.abort("regexp model: %v", err)
		}
		return it.C.BoolConst(re.MatchString(s.S))
	})
}
