package sym

import (
	"regexp"
	"strings"

	"golang.org/x/tools/go/ssa"

	"symgo/smt"
)

// Models needed by the x/tss keeper harnesses (C05).
//
// Package-level regular expressions (sdk.IsAlphaNumeric = regexp.MustCompile(`^[a-zA-Z0-9]+$`).MatchString,
// used by the x/tss content / callback routers when a route is registered): the compiled expression keeps
// its pattern, and MatchString on a concrete subject is decided by the real regexp package linked into the
// engine. Symbolic subjects are not modelled.

const regexpTag = "regexp:"

func init() {
	Register("regexp.MustCompile", func(it *Interp, fn *ssa.Function, a []Value) Value {
		s, ok := a[0].(StrV)
		if !ok || !s.Concrete() {
			return it.opaqueResult(fn.Signature, "regexp.MustCompile of a symbolic pattern")
		}
		return PtrV{O: it.newObj(OpaqueV{Why: regexpTag + s.S}, "regexp")}
	})
	// encoding/hex.EncodeToString: exact and branch-free. The real code indexes a 16-character table with
	// each nibble, which forks 16 ways per nibble on symbolic bytes (x/tss hex-encodes every point and scalar
	// of a signing attempt into event attributes: 90% of all solver queries of the C05 assignment harnesses).
	Register("encoding/hex.EncodeToString", func(it *Interp, fn *ssa.Function, a []Value) Value {
		c := it.C
		src := it.bytesOfAny(a[0])
		out := make([]*smt.Term, 0, 2*len(src))
		digit := func(n *smt.Term) *smt.Term { // n: 8-bit value < 16
			return c.Ite(c.BVUlt(n, c.BVU(10, 8)), c.BVAdd(n, c.BVU('0', 8)), c.BVAdd(n, c.BVU('a'-10, 8)))
		}
		for _, b := range src {
			hi := c.Concat(c.BVU(0, 4), c.Extract(b, 7, 4))
			lo := c.Concat(c.BVU(0, 4), c.Extract(b, 3, 0))
			out = append(out, digit(hi), digit(lo))
		}
		return it.mkStr(out)
	})
	// bytes.Join (allocates with the body-less internal/bytealg.MakeNoZero): plain concatenation.
	// Used by x/tss originator / signing-message encoding.
	Register("bytes.Join", func(it *Interp, fn *ssa.Function, a []Value) Value {
		var out []*smt.Term
		sep := it.bytesOfAny(a[1])
		if s, ok := a[0].(SliceV); ok && s.O != nil {
			for i, e := range sliceElems(s) {
				if i > 0 {
					out = append(out, sep...)
				}
				out = append(out, it.bytesOfAny(e)...)
			}
		}
		return it.mkByteSlice(out)
	})
	// proto text rendering (reflect-based) of contents / originators only flows into event attributes.
	Register("github.com/cosmos/gogoproto/proto.CompactTextString", func(it *Interp, fn *ssa.Function, a []Value) Value {
		return OpaqueV{Why: "proto text"}
	})
	// vsupport.AssumeFinitePoints: see harness/vsupport/api_c05_symgo.go; consulted by the
	// SerializeCompressed model (models_secp.go).
	Register(VS+"AssumeFinitePoints", func(it *Interp, _ *ssa.Function, a []Value) Value {
		it.M.extra["secp.finite"] = true
		return nil
	})
	Register("(*regexp.Regexp).MatchString", func(it *Interp, fn *ssa.Function, a []Value) Value {
		p, ok := a[0].(PtrV)
		if !ok || p.O == nil {
			it.abort("regexp.MatchString on %T", a[0])
		}
		ov, ok := p.O.V.(OpaqueV)
		if !ok || !strings.HasPrefix(ov.Why, regexpTag) {
			it.abort("regexp.MatchString on an unmodelled expression")
		}
		s, ok := a[1].(StrV)
		if !ok || !s.Concrete() {
			it.abort("regexp.MatchString of a symbolic string (pattern %s)", ov.Why[len(regexpTag):])
		}
		re, err := regexp.Compile(ov.Why[len(regexpTag):])
		if err != nil {
			it.abort("regexp model: %v", err)
		}
		return it.C.BoolConst(re.MatchString(s.S))
	})
}
