package sym

import (
	"math/big"

	"golang.org/x/tools/go/ssa"

	"symgo/smt"
)

const VS = ModPath + "/vsupport."
const VE = ModPath + "/vsupport/venv."

func labelOf(it *Interp, v Value) string {
	s, ok := v.(StrV)
	if !ok || !s.Concrete() {
		it.abort("vsupport label must be a concrete string")
	}
	return s.S
}

func init() {
	R := Register
	mkInt := func(name string, w int, kind string) {
		R(VS+name, func(it *Interp, _ *ssa.Function, a []Value) Value {
			return it.nondet(labelOf(it, a[0]), kind, smt.BV(w))
		})
	}
	mkInt("U64", 64, "u64")
	mkInt("I64", 64, "i64")
	mkInt("U32", 32, "u32")
	mkInt("I32", 32, "i32")
	mkInt("U8", 8, "u8")
	R(VS+"Bool", func(it *Interp, _ *ssa.Function, a []Value) Value {
		return it.nondet(labelOf(it, a[0]), "bool", smt.Bool)
	})
	// Int(label, lo, hi): a symbolic int in [lo,hi]
	R(VS+"Int", func(it *Interp, _ *ssa.Function, a []Value) Value {
		t := it.nondet(labelOf(it, a[0]), "i64", smt.BV(64))
		lo, hi := a[1].(*smt.Term), a[2].(*smt.Term)
		it.Assume(it.C.And(it.C.BVSle(lo, t), it.C.BVSle(t, hi)))
		return t
	})
	// Pick(label, n): a concrete int in [0,n) chosen by forking
	R(VS+"Pick", func(it *Interp, _ *ssa.Function, a []Value) Value {
		t := it.nondet(labelOf(it, a[0]), "i64", smt.BV(64))
		n := it.concreteInt(a[1].(*smt.Term), "Pick bound")
		if n <= 0 {
			it.abort("Pick with n <= 0")
		}
		it.Assume(it.C.BVUlt(t, it.C.BVU(uint64(n), 64)))
		for k := 0; k < n-1; k++ {
			if it.Branch(it.C.Eq(t, it.C.BVU(uint64(k), 64))) {
				it.P.Picks = append(it.P.Picks, k)
				return it.C.BVI(int64(k), 64)
			}
		}
		it.P.Picks = append(it.P.Picks, n-1)
		return it.C.BVI(int64(n-1), 64)
	})
	R(VS+"Bytes", func(it *Interp, _ *ssa.Function, a []Value) Value {
		label := labelOf(it, a[0])
		n := it.concreteInt(a[1].(*smt.Term), "Bytes length")
		bs := make([]*smt.Term, n)
		for i := range bs {
			bs[i] = it.nondet(label, "u8", smt.BV(8))
		}
		return it.mkByteSlice(bs)
	})
	// BigU(label, bits): *big.Int in [0, 2^bits)
	R(VS+"BigU", func(it *Interp, _ *ssa.Function, a []Value) Value {
		t := it.nondet(labelOf(it, a[0]), "int", smt.Int)
		bits := it.concreteInt(a[1].(*smt.Term), "BigU bits")
		c := it.C
		it.Assume(c.And(c.Le(c.IntI(0), t), c.Lt(t, c.IntConst(new(big.Int).Lsh(big.NewInt(1), uint(bits))))))
		return it.newBig(t)
	})
	R(VS+"ScalarBytes", func(it *Interp, _ *ssa.Function, a []Value) Value {
		t := it.nondet(labelOf(it, a[0]), "int", smt.Int)
		c := it.C
		it.Assume(c.And(c.Le(c.IntI(1), t), c.Lt(t, it.secpN())))
		it.markReduced(t)
		return it.mkByteSlice(it.intToBytes(t, 32))
	})
	R(VS+"Assume", func(it *Interp, _ *ssa.Function, a []Value) Value {
		it.Assume(a[0].(*smt.Term))
		return nil
	})
	R(VS+"Assert", func(it *Interp, _ *ssa.Function, a []Value) Value {
		it.Assert(labelOf(it, a[0]), a[1].(*smt.Term))
		return nil
	})
	R(VS+"Reach", func(it *Interp, _ *ssa.Function, a []Value) Value {
		it.Reach(labelOf(it, a[0]), a[1].(*smt.Term))
		return nil
	})
	R(VS+"Known", func(it *Interp, _ *ssa.Function, a []Value) Value {
		it.M.knownID = labelOf(it, a[0])
		it.M.knownCond = a[1].(*smt.Term)
		return nil
	})
	R(VS+"KnownPanic", func(it *Interp, _ *ssa.Function, a []Value) Value {
		it.M.knownPanicID = labelOf(it, a[0])
		return nil
	})
	R(VS+"ExpectPanic", func(it *Interp, _ *ssa.Function, a []Value) Value {
		it.M.expectPanic = it.concreteBool(a[0])
		return nil
	})
	R(VS+"Case", func(it *Interp, _ *ssa.Function, a []Value) Value {
		return it.C.BVI(int64(it.caseN), 64)
	})
	R(VS+"Param", func(it *Interp, _ *ssa.Function, a []Value) Value {
		name := labelOf(it, a[0])
		v, ok := it.hcfg.cur.Params[name]
		if !ok {
			it.abort("harness parameter %q not set in the check configuration", name)
		}
		return it.C.BVI(int64(v), 64)
	})
	R(VS+"RegisterHarness", func(it *Interp, _ *ssa.Function, a []Value) Value { return nil })
	R(VS+"DrbgStream", func(it *Interp, _ *ssa.Function, a []Value) Value {
		var vals []*smt.Term
		for _, e := range sliceElems(a[0].(SliceV)) {
			vals = append(vals, e.(*smt.Term))
		}
		it.M.extra["drbg.stream"] = vals
		it.M.extra["drbg.pos"] = 0
		return nil
	})
	R(VS+"Symbolic", func(it *Interp, _ *ssa.Function, a []Value) Value { return it.C.True })
	R(VS+"AllowGoroutines", func(it *Interp, _ *ssa.Function, a []Value) Value {
		it.M.allowGo = true
		it.M.goAllOrders = it.concreteBool(a[0])
		return nil
	})
	R(VS+"MaxBigBytes", func(it *Interp, _ *ssa.Function, a []Value) Value {
		it.M.maxBigBytes = it.concreteInt(a[0].(*smt.Term), "MaxBigBytes")
		return nil
	})
	// Ite helpers keep harness-side oracles branch-free
	R(VS+"IteU64", func(it *Interp, _ *ssa.Function, a []Value) Value {
		return it.C.Ite(a[0].(*smt.Term), a[1].(*smt.Term), a[2].(*smt.Term))
	})
	R(VS+"IteI64", func(it *Interp, _ *ssa.Function, a []Value) Value {
		return it.C.Ite(a[0].(*smt.Term), a[1].(*smt.Term), a[2].(*smt.Term))
	})
	R(VS+"IteBig", func(it *Interp, _ *ssa.Function, a []Value) Value {
		return it.newBig(it.C.Ite(a[0].(*smt.Term), it.bigGet(a[1]), it.bigGet(a[2])))
	})
	R(VS+"And", func(it *Interp, _ *ssa.Function, a []Value) Value {
		return it.C.And(a[0].(*smt.Term), a[1].(*smt.Term))
	})
	R(VS+"Or", func(it *Interp, _ *ssa.Function, a []Value) Value {
		return it.C.Or(a[0].(*smt.Term), a[1].(*smt.Term))
	})
	R(VS+"Implies", func(it *Interp, _ *ssa.Function, a []Value) Value {
		return it.C.Implies(a[0].(*smt.Term), a[1].(*smt.Term))
	})
}

func (it *Interp) concreteBool(v Value) bool {
	t := v.(*smt.Term)
	if !t.IsConst() {
		it.abort("expected a concrete bool")
	}
	return t.IsTrue()
}
