package sym

import "go/types"

// close(ch) and receive from a closed channel (needed by `for x := range ch` after a WaitGroup barrier).
// The closed flag is per-path model state keyed by the channel object.

func (it *Interp) chanClosedSet() map[*ChanObj]bool {
	m, _ := it.M.extra["chan.closed"].(map[*ChanObj]bool)
	if m == nil {
		m = map[*ChanObj]bool{}
		it.M.extra["chan.closed"] = m
	}
	return m
}

func (it *Interp) chanClose(ch Value) {
	c, ok := ch.(*ChanObj)
	if !ok || c == nil {
		it.goPanicStr("close-nil-chan", "close of nil channel")
	}
	set := it.chanClosedSet()
	if set[c] {
		it.goPanicStr("close-closed-chan", "close of closed channel")
	}
	set[c] = true
}

// chanRecvClosed handles a receive on an empty channel: (zero, false) when it is closed.
func (it *Interp) chanRecvClosed(c *ChanObj, commaOk bool, chanType types.Type) (Value, bool) {
	if !it.chanClosedSet()[c] {
		return nil, false
	}
	var z Value
	if ct, ok := chanType.Underlying().(*types.Chan); ok {
		z = it.zero(ct.Elem())
	}
	if commaOk {
		return TupleV{z, it.C.False}, true
	}
	return z, true
}
