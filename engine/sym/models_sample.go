package sym

import (
	"crypto/sha256"
	"fmt"
	"os"
	"math/big"

	"symgo/smt"
)

// Sampling pre-solver: a feasibility query "path condition and c" is answered Sat when one of a few
// concrete assignments (taken from the interval end points the path condition states for the leaves)
// makes every conjunct evaluate to true. The assignment is a witness, so the answer is exact; when no
// sample works the query goes to the solver as before. Non-linear integer queries that are satisfiable
// are the ones z3 is slowest on; almost all of them have a witness at an end point.
//
// Evaluation is substitution + the constant folding of the term constructors (no second semantics).

type sampler struct {
	c    *smt.Ctx
	env  map[*smt.Term]*smt.Term
	memo map[*smt.Term]*smt.Term
}

func (s *sampler) ev(t *smt.Term) *smt.Term {
	if t.IsConst() {
		return t
	}
	if r, ok := s.memo[t]; ok {
		return r
	}
	r := s.ev1(t)
	s.memo[t] = r
	return r
}

func (s *sampler) ev1(t *smt.Term) *smt.Term {
	c := s.c
	if t.Op == smt.OVar {
		return s.env[t] // nil: no value chosen
	}
	if t.Op == smt.OIte { // lazy: only the selected side needs a value
		g := s.ev(t.Args[0])
		if g == nil || !g.IsConst() {
			return nil
		}
		if g.IsTrue() {
			return s.ev(t.Args[1])
		}
		return s.ev(t.Args[2])
	}
	if t.Op == smt.OAnd || t.Op == smt.OOr {
		a := s.ev(t.Args[0])
		if a != nil && a.IsConst() && a.IsTrue() == (t.Op == smt.OOr) {
			return a
		}
		b := s.ev(t.Args[1])
		if a == nil || b == nil {
			if b != nil && b.IsConst() && b.IsTrue() == (t.Op == smt.OOr) {
				return b
			}
			return nil
		}
		if t.Op == smt.OAnd {
			return c.And(a, b)
		}
		return c.Or(a, b)
	}
	args := make([]*smt.Term, len(t.Args))
	for i, a := range t.Args {
		args[i] = s.ev(a)
		if args[i] == nil || !args[i].IsConst() {
			return nil
		}
	}
	var r *smt.Term
	switch t.Op {
	case smt.ONot:
		r = c.Not(args[0])
	case smt.OEq:
		r = c.Eq(args[0], args[1])
	case smt.OBVAdd:
		r = c.BVAdd(args[0], args[1])
	case smt.OBVSub:
		r = c.BVSub(args[0], args[1])
	case smt.OBVMul:
		r = c.BVMul(args[0], args[1])
	case smt.OBVUDiv:
		r = c.BVUDiv(args[0], args[1])
	case smt.OBVURem:
		r = c.BVURem(args[0], args[1])
	case smt.OBVSDiv:
		r = c.BVSDiv(args[0], args[1])
	case smt.OBVSRem:
		r = c.BVSRem(args[0], args[1])
	case smt.OBVAnd:
		r = c.BVAnd(args[0], args[1])
	case smt.OBVOr:
		r = c.BVOr(args[0], args[1])
	case smt.OBVXor:
		r = c.BVXor(args[0], args[1])
	case smt.OBVNot:
		r = c.BVNot(args[0])
	case smt.OBVNeg:
		r = c.BVNeg(args[0])
	case smt.OBVShl:
		r = c.BVShl(args[0], args[1])
	case smt.OBVLshr:
		r = c.BVLshr(args[0], args[1])
	case smt.OBVAshr:
		r = c.BVAshr(args[0], args[1])
	case smt.OBVUlt:
		r = c.BVUlt(args[0], args[1])
	case smt.OBVUle:
		r = c.BVUle(args[0], args[1])
	case smt.OBVSlt:
		r = c.BVSlt(args[0], args[1])
	case smt.OBVSle:
		r = c.BVSle(args[0], args[1])
	case smt.OConcat:
		r = c.Concat(args[0], args[1])
	case smt.OExtract:
		r = c.Extract(args[0], t.P1, t.P2)
	case smt.OZext:
		r = c.Zext(args[0], t.Sort.W)
	case smt.OSext:
		r = c.Sext(args[0], t.Sort.W)
	case smt.OAdd:
		r = c.Add(args[0], args[1])
	case smt.OSub:
		r = c.Sub(args[0], args[1])
	case smt.OMul:
		r = c.Mul(args[0], args[1])
	case smt.ODiv:
		if args[1].Val.Sign() == 0 {
			return nil
		}
		r = c.Div(args[0], args[1])
	case smt.OMod:
		if args[1].Val.Sign() == 0 {
			return nil
		}
		r = c.Mod(args[0], args[1])
	case smt.ONeg:
		r = c.Neg(args[0])
	case smt.OLt:
		r = c.Lt(args[0], args[1])
	case smt.OLe:
		r = c.Le(args[0], args[1])
	case smt.OBV2Int:
		r = c.BV2Int(args[0])
	case smt.OBV2IntS:
		r = c.BV2IntSigned(args[0])
	case smt.OInt2BV:
		r = c.Int2BV(args[0], t.Sort.W)
	case smt.OApp:
		r = s.evApp(t, args)
	default:
		return nil
	}
	if r == nil || !r.IsConst() {
		return nil
	}
	return r
}

// evApp gives the uninterpreted functions of the crypto model a concrete interpretation for one sample:
// a pseudo-random function of the argument values (so equal arguments give equal results) with values in
// [1, n) — which satisfies every range axiom the models add — and the real modular inverse for secp.inv.
func (s *sampler) evApp(t *smt.Term, args []*smt.Term) *smt.Term {
	c := s.c
	name := t.Name
	isHash := false
	for _, p := range []string{"keccak!", "sha256!", "hkdf!", "aesctr!"} {
		if len(name) >= len(p) && name[:len(p)] == p {
			isHash = true
		}
	}
	switch {
	case name == "secp.inv":
		if args[0].Val.Sign() == 0 {
			return c.IntI(0)
		}
		inv := new(big.Int).ModInverse(new(big.Int).Mod(args[0].Val, secpN), secpN)
		if inv == nil {
			return nil
		}
		return c.IntConst(inv)
	case isHash || name == "secp.x" || name == "secp.y" || name == "secp.yodd":
		h := sha256.New()
		h.Write([]byte(name))
		for _, a := range args {
			h.Write([]byte{0})
			h.Write([]byte(a.Val.Text(16)))
		}
		v := new(big.Int).SetBytes(h.Sum(nil))
		if t.Sort.K == smt.KBool {
			return c.BoolConst(v.Bit(0) == 1)
		}
		if t.Sort.K != smt.KInt {
			return nil
		}
		nm1 := new(big.Int).Sub(secpN, big.NewInt(1))
		v.Mod(v, nm1)
		v.Add(v, big.NewInt(1))
		return c.IntConst(v)
	}
	return nil
}

// sampleWitness looks for a concrete assignment of the variables that satisfies the path condition, the exact
// definitions of abstracted operators and c; it returns the assignment or nil.
func (it *Interp) sampleWitness(c *smt.Term) map[*smt.Term]*smt.Term {
	return it.sampleWitnessN(c, 2*sampleTries)
}

// sampleWitnessN: the same with an explicit number of attempts (the fallback for assertions the solver cannot
// decide uses many more attempts than the pre-solver).
func (it *Interp) sampleWitnessN(c *smt.Term, tries int) map[*smt.Term]*smt.Term {
	if it.P == nil || it.M == nil {
		return nil
	}
	rs := it.ranges()
	all := append(append([]*smt.Term{}, it.P.PC...), it.P.Exact...)
	var vars []*smt.Term
	seen := map[*smt.Term]bool{}
	collectVars(c, seen, &vars)
	for _, p := range all {
		collectVars(p, seen, &vars)
	}
	for _, n := range it.P.Nondets {
		collectVars(n.T, seen, &vars)
	}
	if len(vars) == 0 || len(vars) > 256 {
		return nil
	}
	rnd := uint64(0x9E3779B97F4A7C15) ^ uint64(c.ID)<<1 ^ uint64(len(it.P.PC))
	for k := 0; k < tries; k++ {
		s := &sampler{c: it.C, env: map[*smt.Term]*smt.Term{}, memo: map[*smt.Term]*smt.Term{}}
		ok := true
		for i, v := range vars {
			kk := k
			if k >= 5 && k < 12 {
				kk = int((uint64(k)*2654435761 + uint64(i)*40503) % 5)
			}
			val := rs.candidate(it.C, v, kk, &rnd)
			if val == nil {
				ok = false
				break
			}
			s.env[v] = val
		}
		if !ok {
			continue
		}
		if r := s.ev(c); r == nil || !r.IsTrue() {
			continue
		}
		good := true
		for _, p := range all {
			if r := s.ev(p); r == nil || !r.IsTrue() {
				good = false
				if it.Cfg.Verbose > 1 && k == 13 {
					st := "false"
					if r == nil {
						st = "not evaluable"
					}
					txt := it.C.String(p)
					if len(txt) > 300 {
						txt = txt[:300]
					}
					fmt.Fprintf(os.Stderr, "sample witness: conjunct %s: %s\n", st, txt)
				}
				break
			}
		}
		if good {
			return s.env
		}
	}
	return nil
}

func collectVars(t *smt.Term, seen map[*smt.Term]bool, out *[]*smt.Term) {
	if seen[t] {
		return
	}
	seen[t] = true
	if t.Op == smt.OVar {
		*out = append(*out, t)
		return
	}
	for _, a := range t.Args {
		collectVars(a, seen, out)
	}
}

// candidate values of a leaf under the facts of the path condition; k selects the strategy.
func (rs *rangeState) candidate(c *smt.Ctx, v *smt.Term, k int, rnd *uint64) *smt.Term {
	next := func() uint64 { // xorshift
		x := *rnd
		x ^= x << 13
		x ^= x >> 7
		x ^= x << 17
		*rnd = x
		return x
	}
	switch v.Sort.K {
	case smt.KBool:
		if f, ok := rs.boolFacts[v]; ok {
			return c.BoolConst(f)
		}
		switch k {
		case 0:
			return c.False
		case 1:
			return c.True
		}
		return c.BoolConst(next()&1 == 1)
	case smt.KInt, smt.KBV:
		var r ivl
		if v.Sort.K == smt.KInt {
			r = rs.rng(v)
		} else {
			r = rs.srng(v)
			if uf, ok := rs.ufacts[v]; ok && r.lo.Sign() < 0 {
				// unsigned facts only: sample in the unsigned window
				r = ivl{lo: big.NewInt(0), hi: bsub1(pow2big(v.Sort.W))}.meet(uf)
			} else if !ok && r.lo != nil && r.lo.Sign() < 0 && k%2 == 1 {
				// no unsigned facts: every other attempt samples the unsigned window [0, 2^w) instead of the
				// signed one (whose log-uniform draws cluster at -2^(w-1), i.e. at 2^(w-1) read as unsigned)
				r = ivl{lo: big.NewInt(0), hi: bsub1(pow2big(v.Sort.W))}
			}
		}
		lo, hi := r.lo, r.hi
		if lo == nil && hi == nil {
			lo, hi = big.NewInt(0), big.NewInt(1000)
		} else if lo == nil {
			lo = new(big.Int).Sub(hi, big.NewInt(1000))
		} else if hi == nil {
			hi = new(big.Int).Add(lo, big.NewInt(1000))
		}
		if lo.Cmp(hi) > 0 {
			return nil
		}
		var val *big.Int
		span := new(big.Int).Sub(hi, lo)
		off := func(n int64) *big.Int { // lo+n clipped
			o := big.NewInt(n)
			if o.Cmp(span) > 0 {
				o = span
			}
			return new(big.Int).Add(lo, o)
		}
		switch k {
		case 0:
			val = lo
		case 1:
			val = off(1)
		case 2:
			val = hi
		case 3:
			val = off(2)
		case 4:
			val = new(big.Int).Add(lo, new(big.Int).Rsh(span, 1))
		default:
			// random magnitude, then random value below it
			bits := span.BitLen()
			if bits == 0 {
				val = lo
				break
			}
			nb := int(next()%uint64(bits)) + 1
			x := new(big.Int)
			for i := 0; i < (nb+63)/64; i++ {
				x.Lsh(x, 64)
				x.Or(x, new(big.Int).SetUint64(next()))
			}
			x.Mod(x, new(big.Int).Lsh(big.NewInt(1), uint(nb)))
			if x.Cmp(span) > 0 {
				x = span
			}
			val = new(big.Int).Add(lo, x)
		}
		for _, e := range rs.ne[v] {
			if e.Cmp(val) == 0 {
				val = new(big.Int).Add(val, big.NewInt(1))
			}
		}
		if v.Sort.K == smt.KInt {
			return c.IntConst(val)
		}
		return c.BVConst(val, v.Sort.W)
	}
	return nil
}

const sampleTries = 24

// sampleSat tries to find a concrete witness of PC and c.
func (it *Interp) sampleSat(c *smt.Term) bool {
	if it.P == nil || it.M == nil {
		return false
	}
	rs := it.ranges()
	type sampleKey struct{ id, npc int }
	cache, _ := it.M.extra["sample.cache"].(map[sampleKey]bool)
	if cache == nil {
		cache = map[sampleKey]bool{}
		it.M.extra["sample.cache"] = cache
	}
	key := sampleKey{c.ID, len(it.P.PC)}
	if v, ok := cache[key]; ok {
		return v
	}
	res := it.sampleSat1(rs, c)
	cache[key] = res
	return res
}

func (it *Interp) sampleSat1(rs *rangeState, c *smt.Term) bool {
	var vars []*smt.Term
	seen := map[*smt.Term]bool{}
	collectVars(c, seen, &vars)
	for _, p := range it.P.PC {
		collectVars(p, seen, &vars)
	}
	if len(vars) == 0 || len(vars) > 64 {
		return false
	}
	rnd := uint64(0x9E3779B97F4A7C15) ^ uint64(c.ID)<<1 ^ uint64(len(it.P.PC))
	for k := 0; k < sampleTries; k++ {
		s := &sampler{c: it.C, env: map[*smt.Term]*smt.Term{}, memo: map[*smt.Term]*smt.Term{}}
		ok := true
		for i, v := range vars {
			kk := k
			if k >= 5 && k < 12 { // mixed corners: each leaf picks its own corner
				kk = int((uint64(k)*2654435761 + uint64(i)*40503) % 5)
			}
			val := rs.candidate(it.C, v, kk, &rnd)
			if val == nil {
				ok = false
				break
			}
			s.env[v] = val
		}
		if !ok {
			continue
		}
		if r := s.ev(c); r == nil || !r.IsTrue() {
			continue
		}
		good := true
		for _, p := range it.P.PC {
			if r := s.ev(p); r == nil || !r.IsTrue() {
				good = false
				break
			}
		}
		if good {
			return true
		}
	}
	return false
}
