package sym

import (
	"crypto/sha256"
	"fmt"
	"go/types"
	"strings"
	"unicode"

	"golang.org/x/tools/go/ssa"

	"symgo/smt"
)

// go-ethereum abi.Arguments.Pack model.
//
// The real encoder is reflection-driven. Here Pack is an *injective uninterpreted function* of
//   - the canonical ABI type of every argument (component names and types, built by the NewType model below), and
//   - the leaf values of the Go arguments selected by that type (struct fields are matched by name like
//     go-ethereum does: exact name, else first letter upper-cased),
// returning exactly as many bytes as the real head/tail encoding has (the lengths of strings, byte strings and
// lists are concrete on a path, so the size is concrete). The bytes are 32-byte words w_k = F_k(leaves), one family
// of functions F per (types, shape). Axioms added per pair of Pack calls on a path:
//   same (types, shape):   all words equal  =>  all leaves equal        (injectivity; congruence is built in)
//   different (types, shape), same size:   some word differs           (the encodings of different types/shapes
//                                                                      are never confused)
// What is NOT modelled: the concrete word contents (offsets, lengths, padding), Go-kind checks against the ABI
// type (a mismatch makes the real Pack return an error; native witness replays would show it), Unpack.

const abiPkg = "github.com/ethereum/go-ethereum/accounts/abi"

type abiTy struct {
	kind   string // "elem" | "bytes" | "string" | "tuple" | "slice" | "array"
	name   string // elementary type name (uint64, int32, bytes32, bool, address ...)
	n      int    // array length / bytesN length
	elem   *abiTy
	fnames []string
	ftypes []*abiTy
}

func (t *abiTy) dynamic() bool {
	switch t.kind {
	case "bytes", "string", "slice":
		return true
	case "array":
		return t.elem.dynamic()
	case "tuple":
		for _, f := range t.ftypes {
			if f.dynamic() {
				return true
			}
		}
	}
	return false
}

func (t *abiTy) String() string {
	switch t.kind {
	case "tuple":
		var p []string
		for i, f := range t.ftypes {
			p = append(p, f.String()+" "+t.fnames[i])
		}
		return "(" + strings.Join(p, ",") + ")"
	case "slice":
		return t.elem.String() + "[]"
	case "array":
		return fmt.Sprintf("%s[%d]", t.elem.String(), t.n)
	case "bytes", "string":
		return t.kind
	}
	return t.name
}

// typeOnly is String without the component names.
func (t *abiTy) typeOnly() string {
	switch t.kind {
	case "tuple":
		var p []string
		for _, f := range t.ftypes {
			p = append(p, f.typeOnly())
		}
		return "(" + strings.Join(p, ",") + ")"
	case "slice":
		return t.elem.typeOnly() + "[]"
	case "array":
		return fmt.Sprintf("%s[%d]", t.elem.typeOnly(), t.n)
	}
	return t.String()
}

// abiParse parses the canonical form produced by (*abiTy).String.
func abiParse(s string, pos *int) (*abiTy, bool) {
	var t *abiTy
	if *pos < len(s) && s[*pos] == '(' {
		*pos++
		t = &abiTy{kind: "tuple"}
		for *pos < len(s) && s[*pos] != ')' {
			ft, ok := abiParse(s, pos)
			if !ok || *pos >= len(s) || s[*pos] != ' ' {
				return nil, false
			}
			*pos++
			st := *pos
			for *pos < len(s) && s[*pos] != ',' && s[*pos] != ')' {
				*pos++
			}
			t.fnames = append(t.fnames, s[st:*pos])
			t.ftypes = append(t.ftypes, ft)
			if *pos < len(s) && s[*pos] == ',' {
				*pos++
			}
		}
		if *pos >= len(s) {
			return nil, false
		}
		*pos++
	} else {
		st := *pos
		for *pos < len(s) && (unicode.IsLetter(rune(s[*pos])) || unicode.IsDigit(rune(s[*pos]))) {
			*pos++
		}
		name := s[st:*pos]
		switch {
		case name == "":
			return nil, false
		case name == "bytes" || name == "string":
			t = &abiTy{kind: name}
		default:
			t = &abiTy{kind: "elem", name: name}
			if strings.HasPrefix(name, "bytes") {
				fmt.Sscanf(name[5:], "%d", &t.n)
			}
		}
	}
	for *pos < len(s) && s[*pos] == '[' {
		end := strings.IndexByte(s[*pos:], ']')
		if end < 0 {
			return nil, false
		}
		inner := s[*pos+1 : *pos+end]
		*pos += end + 1
		if inner == "" {
			t = &abiTy{kind: "slice", elem: t}
		} else {
			n := 0
			fmt.Sscanf(inner, "%d", &n)
			t = &abiTy{kind: "array", elem: t, n: n}
		}
	}
	return t, true
}

// abiCanon builds the canonical description from NewType's arguments (type string + components).
func (it *Interp) abiCanon(typ string, comps Value) string {
	if !strings.HasPrefix(typ, "tuple") {
		return typ
	}
	var parts []string
	if sl, ok := comps.(SliceV); ok {
		for _, e := range sliceElems(sl) {
			sv := e.(*StructV)
			// ArgumentMarshaling{Name, Type, InternalType string; Components []ArgumentMarshaling; Indexed bool}
			name := concStr(it, sv.F[0], "abi component name")
			ty := concStr(it, sv.F[1], "abi component type")
			parts = append(parts, it.abiCanon(ty, sv.F[3])+" "+name)
		}
	}
	return "(" + strings.Join(parts, ",") + ")" + typ[len("tuple"):]
}

type abiEnc struct {
	it     *Interp
	leaves []*smt.Term
	layout strings.Builder
	err    string
}

func pad32(n int) int { return (n + 31) / 32 * 32 }

func (e *abiEnc) bytesLeaf(bs []*smt.Term) {
	fmt.Fprintf(&e.layout, "b%d,", len(bs))
	var run *smt.Term
	for _, b := range bs {
		if run == nil {
			run = b
		} else {
			run = e.it.C.Concat(run, b)
		}
	}
	if run != nil {
		e.leaves = append(e.leaves, run)
	}
}

// seq returns the encoded size of a sequence of (type, value) items laid out as heads then tails.
func (e *abiEnc) seq(ts []*abiTy, vs []Value, gts []types.Type) int {
	size := 0
	for i, t := range ts {
		sz := e.walk(t, vs[i], gts[i])
		if t.dynamic() {
			size += 32 + sz
		} else {
			size += sz
		}
	}
	return size
}

// walk collects the leaves of v selected by t and returns the size of enc(v).
func (e *abiEnc) walk(t *abiTy, v Value, gt types.Type) int {
	it := e.it
	if e.err != "" {
		return 0
	}
	if iv, ok := v.(IfaceV); ok {
		if iv.T == nil {
			e.err = "abi: cannot use nil as argument"
			return 0
		}
		v, gt = iv.V, iv.T
	}
	for {
		p, ok := v.(PtrV)
		if !ok {
			break
		}
		if p.O == nil {
			e.err = "abi: nil pointer argument"
			return 0
		}
		v = it.load(p)
		if pt, ok := gt.Underlying().(*types.Pointer); ok {
			gt = pt.Elem()
		}
	}
	switch t.kind {
	case "elem":
		switch x := v.(type) {
		case *smt.Term:
			if x.Sort.K == smt.KBool {
				e.layout.WriteString("B,")
			} else {
				fmt.Fprintf(&e.layout, "i%d,", x.Sort.W)
			}
			e.leaves = append(e.leaves, x)
		case *ArrayV: // bytesN
			if t.n == 0 || len(x.E) != t.n {
				e.err = "abi: cannot use array as type " + t.name
				return 0
			}
			e.bytesLeaf(it.bytesOf(x))
		case BigV:
			e.layout.WriteString("I,")
			e.leaves = append(e.leaves, x.T)
		default:
			e.err = fmt.Sprintf("abi: cannot use %T as type %s", v, t.name)
		}
		return 32
	case "bytes", "string":
		v = it.forceLazy(v)
		switch x := v.(type) {
		case SliceV, StrV:
			bs := it.bytesOf(x)
			e.bytesLeaf(bs)
			return 32 + pad32(len(bs))
		}
		e.err = fmt.Sprintf("abi: cannot use %T as type %s", v, t.kind)
		return 0
	case "slice", "array":
		var elems []Value
		switch x := v.(type) {
		case SliceV:
			elems = sliceElems(x)
		case *ArrayV:
			elems = x.E
		default:
			e.err = fmt.Sprintf("abi: cannot use %T as type %s", v, t.String())
			return 0
		}
		if t.kind == "array" && len(elems) != t.n {
			e.err = "abi: array length mismatch"
			return 0
		}
		var et types.Type
		switch u := gt.Underlying().(type) {
		case *types.Slice:
			et = u.Elem()
		case *types.Array:
			et = u.Elem()
		default:
			e.err = "abi: cannot use " + gt.String() + " as type " + t.String()
			return 0
		}
		fmt.Fprintf(&e.layout, "[%d:", len(elems))
		ts := make([]*abiTy, len(elems))
		gts := make([]types.Type, len(elems))
		for i := range elems {
			ts[i], gts[i] = t.elem, et
		}
		sz := e.seq(ts, elems, gts)
		e.layout.WriteString("],")
		if t.kind == "slice" {
			sz += 32
		}
		return sz
	case "tuple":
		sv, ok := v.(*StructV)
		st, ok2 := gt.Underlying().(*types.Struct)
		if !ok || !ok2 {
			e.err = fmt.Sprintf("abi: cannot use %s as type tuple", gt.String())
			return 0
		}
		vals := make([]Value, len(t.ftypes))
		gts := make([]types.Type, len(t.ftypes))
		for i, n := range t.fnames {
			idx := -1
			for j := 0; j < st.NumFields(); j++ {
				fn := st.Field(j).Name()
				if fn == n || (n != "" && fn == strings.ToUpper(n[:1])+n[1:]) {
					idx = j
					break
				}
			}
			if idx < 0 {
				e.err = "abi: field " + n + " for tuple not found in the given struct"
				return 0
			}
			vals[i], gts[i] = sv.F[idx], st.Field(idx).Type()
		}
		e.layout.WriteString("(")
		sz := e.seq(t.ftypes, vals, gts)
		e.layout.WriteString("),")
		return sz
	}
	e.err = "abi: unsupported type " + t.String()
	return 0
}

type abiCall struct {
	fam    string
	size   int
	leaves []*smt.Term
	words  []*smt.Term
}

func init() {
	// NewType(t, internalType, components): the Type value carries its type string (stringKind) and, in TupleRawName,
	// the canonical description with component names/types used by the Pack model. (Registered after models_abi.go:
	// this definition replaces the simpler one there.)
	Register(abiPkg+".NewType", func(it *Interp, fn *ssa.Function, a []Value) Value {
		rt := fn.Signature.Results().At(0).Type()
		v := it.zero(rt).(*StructV)
		typ := concStr(it, a[0], "abi type string")
		if i := fieldIndex(rt, "stringKind"); i >= 0 {
			v.F[i] = a[0]
		}
		if i := fieldIndex(rt, "TupleRawName"); i >= 0 {
			v.F[i] = StrV{S: it.abiCanon(typ, a[2])}
		}
		return TupleV{v, IfaceV{}}
	})

	Register("("+abiPkg+".Arguments).Pack", func(it *Interp, fn *ssa.Function, a []Value) Value {
		c := it.C
		fail := func(msg string) Value { return TupleV{SliceV{}, it.opaqueError(msg)} }
		argT := fn.Signature.Recv().Type().Underlying().(*types.Slice).Elem() // abi.Argument
		iType := fieldIndex(argT, "Type")
		tT := argT.Underlying().(*types.Struct).Field(iType).Type()
		iCanon := fieldIndex(tT, "TupleRawName")
		abiArgs := sliceElems(a[0].(SliceV))
		vals := sliceElems(a[1].(SliceV))
		if len(abiArgs) != len(vals) {
			return fail("argument count mismatch")
		}
		e := &abiEnc{it: it}
		ts := make([]*abiTy, len(abiArgs))
		gts := make([]types.Type, len(abiArgs))
		var sig []string
		for i, av := range abiArgs {
			canon := concStr(it, av.(*StructV).F[iType].(*StructV).F[iCanon], "abi canonical type")
			pos := 0
			t, ok := abiParse(canon, &pos)
			if !ok || pos != len(canon) {
				it.abort("abi model: cannot parse type %q", canon)
			}
			ts[i] = t
			// the encoding depends on the component TYPES only: component names select the Go fields (above)
			// but do not change a byte of the output, so they are not part of the function family
			sig = append(sig, t.typeOnly())
		}
		size := e.seq(ts, vals, gts)
		if e.err != "" {
			return fail(e.err)
		}
		sum := sha256.Sum256([]byte(strings.Join(sig, ";") + "|" + e.layout.String()))
		fam := fmt.Sprintf("abipack!%d!%x", size, sum[:8])
		leaves := e.leaves
		if len(leaves) == 0 {
			leaves = []*smt.Term{c.BVU(0, 8)}
		}
		call := &abiCall{fam: fam, size: size, leaves: leaves}
		var out []*smt.Term
		for k := 0; k < size/32; k++ {
			w := c.App(fmt.Sprintf("%s!w%d", fam, k), smt.BV(256), leaves...)
			call.words = append(call.words, w)
			for b := 31; b >= 0; b-- {
				out = append(out, c.Extract(w, 8*b+7, 8*b))
			}
		}
		calls, _ := it.M.extra["abipack.calls"].([]*abiCall)
		for _, p := range calls {
			if p.size != size || size == 0 {
				continue
			}
			same := c.True
			for k := range p.words {
				same = c.And(same, c.Eq(p.words[k], call.words[k]))
			}
			if p.fam == fam {
				eq := c.True
				for k := range p.leaves {
					eq = c.And(eq, c.Eq(p.leaves[k], leaves[k]))
				}
				it.addPC(c.Implies(same, eq))
			} else {
				it.addPC(c.Not(same))
			}
		}
		it.M.extra["abipack.calls"] = append(calls, call)
		return TupleV{it.mkByteSlice(out), IfaceV{}}
	})
}
