package sym

import "golang.org/x/tools/go/ssa"

// Text renderings of time.Time (calendar arithmetic + append loops over a symbolic instant explode): the text
// only flows into events and error messages, so it is an opaque string (comparing it aborts the run).
func init() {
	for _, n := range []string{
		"(time.Time).Format",
		"(time.Time).String",
		"(time.Time).GoString",
		"(time.Duration).String",
	} {
		why := n
		Register(n, func(it *Interp, fn *ssa.Function, a []Value) Value { return OpaqueV{Why: why} })
	}
}
