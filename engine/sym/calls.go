package sym

import (
	"fmt"
	"go/token"
	"go/types"
	"sort"
	"unicode/utf8"

	"golang.org/x/tools/go/ssa"

	"symgo/smt"
)

type Intrinsic struct {
	Name    string
	Fn      func(it *Interp, fn *ssa.Function, args []Value) Value
	Builtin *ssa.Builtin
}

var intrinsics = map[string]*Intrinsic{}

// Register adds an intrinsic for the function with the given full name
// (ssa.Function.String() of the function or of its generic origin).
func Register(name string, f func(it *Interp, fn *ssa.Function, args []Value) Value) {
	intrinsics[name] = &Intrinsic{Name: name, Fn: f}
}

func (it *Interp) lookupIntrinsic(fn *ssa.Function) *Intrinsic {
	it.L.intrMu.RLock()
	in0, ok0 := it.L.intrCache[fn]
	it.L.intrMu.RUnlock()
	if ok0 {
		return in0
	}
	var in *Intrinsic
	name := fn.String()
	if x, ok := intrinsics[name]; ok {
		in = x
	} else if o := fn.Origin(); o != nil {
		if x, ok := intrinsics[o.String()]; ok {
			in = x
		}
	}
	if in == nil {
		in = it.L.patternIntrinsic(fn)
	}
	it.L.intrMu.Lock()
	it.L.intrCache[fn] = in
	it.L.intrMu.Unlock()
	return in
}

func (it *Interp) doCall(fr *frame, call *ssa.CallCommon, pos token.Pos) Value {
	fr.callPos = pos
	args := make([]Value, 0, len(call.Args)+1)
	if call.IsInvoke() {
		recv := it.get(fr, call.Value)
		for _, a := range call.Args {
			args = append(args, it.get(fr, a))
		}
		return it.invoke(recv, call.Method, args, pos)
	}
	for _, a := range call.Args {
		args = append(args, it.get(fr, a))
	}
	switch f := call.Value.(type) {
	case *ssa.Builtin:
		return it.callBuiltin(f, args, call)
	case *ssa.Function:
		return it.callFn(f, args, nil, pos)
	}
	fv, ok := it.get(fr, call.Value).(*FuncV)
	if !ok {
		if ov, isOp := it.get(fr, call.Value).(OpaqueV); isOp {
			return it.opaqueResult(call.Signature(), ov.Why)
		}
		panic(it.bug("call of %T", it.get(fr, call.Value)))
	}
	return it.callValue(fv, args, pos)
}

func (it *Interp) opaqueResult(sig *types.Signature, why string) Value {
	res := sig.Results()
	mk := func(t types.Type) Value {
		// errors from ignored calls are nil; everything else opaque
		if isErrorType(t) {
			return IfaceV{}
		}
		switch t.Underlying().(type) {
		case *types.Basic, *types.Struct, *types.Slice, *types.Pointer:
			if b, ok := t.Underlying().(*types.Basic); ok && b.Kind() == types.String {
				return OpaqueV{Why: why}
			}
			return OpaqueV{Why: why}
		}
		return OpaqueV{Why: why}
	}
	switch res.Len() {
	case 0:
		return nil
	case 1:
		return mk(res.At(0).Type())
	}
	tv := make(TupleV, res.Len())
	for i := range tv {
		tv[i] = mk(res.At(i).Type())
	}
	return tv
}

func isErrorType(t types.Type) bool {
	n, ok := t.(*types.Named)
	return ok && n.Obj().Pkg() == nil && n.Obj().Name() == "error"
}

// invoke performs a dynamic method call.
func (it *Interp) invoke(recv Value, m *types.Func, args []Value, pos token.Pos) Value {
	iv, ok := recv.(IfaceV)
	if !ok {
		if ov, isOp := recv.(OpaqueV); isOp {
			return it.opaqueResult(m.Type().(*types.Signature), ov.Why)
		}
		panic(it.bug("invoke on %T", recv))
	}
	if iv.T == nil {
		it.goPanicNilDeref()
	}
	if ov, isOp := iv.V.(OpaqueV); isOp {
		return it.opaqueResult(m.Type().(*types.Signature), ov.Why)
	}
	if r, handled := it.modelInvoke(iv, m, args); handled {
		return r
	}
	fn := it.L.Prog.LookupMethod(iv.T, m.Pkg(), m.Name())
	if fn == nil {
		it.abort("no method %s on dynamic type %s", m.Name(), iv.T.String())
	}
	return it.callFn(fn, append([]Value{iv.V}, args...), nil, pos)
}

func (it *Interp) prepareDefer(fr *frame, call *ssa.CallCommon) *deferred {
	args := make([]Value, 0, len(call.Args)+1)
	if call.IsInvoke() {
		recv := it.get(fr, call.Value).(IfaceV)
		for _, a := range call.Args {
			args = append(args, it.get(fr, a))
		}
		m := call.Method
		return &deferred{fn: &FuncV{Intr: &Intrinsic{Name: "deferred-invoke", Fn: func(it *Interp, _ *ssa.Function, a []Value) Value {
			return it.invoke(recv, m, a, token.NoPos)
		}}}, args: args}
	}
	for _, a := range call.Args {
		args = append(args, it.get(fr, a))
	}
	switch f := call.Value.(type) {
	case *ssa.Builtin:
		return &deferred{builtin: f, args: args}
	case *ssa.Function:
		return &deferred{fn: &FuncV{Fn: f}, args: args}
	}
	fv := it.get(fr, call.Value).(*FuncV)
	return &deferred{fn: fv, args: args}
}

func (it *Interp) callBuiltin(b *ssa.Builtin, args []Value, call *ssa.CallCommon) Value {
	c := it.C
	for i := range args {
		if _, ok := args[i].(LazyBytesV); ok {
			args[i] = it.forceLazy(args[i])
		}
	}
	switch b.Name() {
	case "len":
		switch x := args[0].(type) {
		case SliceV:
			return c.BVI(int64(x.Len), 64)
		case StrV:
			return c.BVI(int64(x.Len()), 64)
		case *ArrayV:
			return c.BVI(int64(len(x.E)), 64)
		case *MapObj:
			if x == nil {
				return c.BVI(0, 64)
			}
			return c.BVI(int64(len(x.Keys)), 64)
		case *ChanObj:
			return c.BVI(int64(len(x.Buf)), 64)
		case PtrV:
			return c.BVI(int64(len(it.navigate(x).(*ArrayV).E)), 64)
		case *Blob:
			return it.blobLen(x)
		}
		if r, ok := it.modelLen(args[0]); ok {
			return r
		}
	case "cap":
		switch x := args[0].(type) {
		case SliceV:
			return c.BVI(int64(x.Cap), 64)
		case *ArrayV:
			return c.BVI(int64(len(x.E)), 64)
		case *ChanObj:
			return c.BVI(int64(x.Cap), 64)
		}
	case "append":
		return it.appendOp(args[0], args[1])
	case "copy":
		dst := args[0].(SliceV)
		var src []Value
		switch s := args[1].(type) {
		case SliceV:
			src = append([]Value{}, sliceElems(s)...)
		case StrV:
			for _, t := range it.strBytes(s) {
				src = append(src, t)
			}
		default:
			it.abort("copy from %T", args[1])
		}
		n := dst.Len
		if len(src) < n {
			n = len(src)
		}
		if n > 0 {
			it.touch(dst.O)
			d := dst.O.V.(*ArrayV).E
			for i := 0; i < n; i++ {
				d[dst.Off+i] = assignInto(d[dst.Off+i], src[i])
			}
		}
		return c.BVI(int64(n), 64)
	case "delete":
		m := args[0].(*MapObj)
		if m == nil {
			return nil
		}
		i := it.mapFind(m, args[1])
		if i >= 0 {
			m.Keys = append(m.Keys[:i:i], m.Keys[i+1:]...)
			m.Vals = append(m.Vals[:i:i], m.Vals[i+1:]...)
		}
		return nil
	case "close":
		it.chanClose(args[0])
		return nil
	case "panic":
		panic(&GoPanic{Val: args[0], Msg: it.panicMsg(args[0]), Kind: "explicit", Pos: it.where()})
	case "recover":
		if n := len(it.deferRun); n > 0 {
			fr := it.deferRun[n-1]
			if fr.panicv != nil {
				v := fr.panicv.Val
				fr.panicv = nil
				if _, ok := v.(IfaceV); !ok {
					v = IfaceV{T: types.Typ[types.String], V: StrV{S: "panic"}}
				}
				return v
			}
		}
		return IfaceV{}
	case "print", "println":
		return nil
	case "min", "max":
		r := args[0]
		for _, a := range args[1:] {
			x, ok1 := r.(*smt.Term)
			y, ok2 := a.(*smt.Term)
			if !ok1 || !ok2 {
				it.abort("min/max on %T", r)
			}
			_, signed, _ := intWidth(call.Args[0].Type())
			var lt *smt.Term
			if signed {
				lt = c.BVSlt(x, y)
			} else {
				lt = c.BVUlt(x, y)
			}
			if b.Name() == "min" {
				r = c.Ite(lt, x, y)
			} else {
				r = c.Ite(lt, y, x)
			}
		}
		return r
	case "clear":
		switch x := args[0].(type) {
		case *MapObj:
			if x != nil {
				x.Keys, x.Vals = nil, nil
			}
			return nil
		}
	case "ssa:wrapnilchk":
		if p, ok := args[0].(PtrV); ok && p.O == nil {
			it.goPanicNilDeref()
		}
		return args[0]
	}
	it.abort("unsupported builtin %s on %T", b.Name(), args[0])
	return nil
}

// growCap mirrors runtime.growslice's capacity rule closely enough for aliasing behaviour:
// doubling below 256 elements, then 1.25x + 192, rounded to size classes for small byte/word slices.
func growCap(oldCap, needed int, elemSize int) int {
	newcap := oldCap
	doublecap := newcap + newcap
	if needed > doublecap {
		newcap = needed
	} else {
		const threshold = 256
		if oldCap < threshold {
			newcap = doublecap
		} else {
			for newcap < needed {
				newcap += (newcap + 3*threshold) >> 2
			}
		}
	}
	if elemSize <= 0 {
		return newcap
	}
	mem := newcap * elemSize
	return roundupsize(mem) / elemSize
}

var sizeClasses = []int{0, 8, 16, 24, 32, 48, 64, 80, 96, 112, 128, 144, 160, 176, 192, 208, 224, 240, 256, 288, 320, 352, 384, 416, 448, 480, 512, 576, 640, 704, 768, 896, 1024, 1152, 1280, 1408, 1536, 1792, 2048, 2304, 2688, 3072, 3200, 3456, 4096, 4864, 5376, 6144, 6528, 6784, 6912, 8192, 9472, 9728, 10240, 10880, 12288, 13568, 14336, 16384, 18432, 19072, 20480, 21760, 24576, 27264, 28672, 32768}

func roundupsize(n int) int {
	if n <= 32768 {
		i := sort.SearchInts(sizeClasses, n)
		return sizeClasses[i]
	}
	return (n + 8191) &^ 8191
}

func (it *Interp) elemSize(v Value) int {
	switch x := v.(type) {
	case *smt.Term:
		if x.Sort.K == smt.KBool {
			return 1
		}
		return x.Sort.W / 8
	case StrV:
		return 16
	case PtrV, *MapObj, *FuncV, *ChanObj:
		return 8
	case SliceV:
		return 24
	case IfaceV:
		return 16
	case *StructV:
		n := 0
		for _, f := range x.F {
			n += it.elemSize(f)
		}
		return (n + 7) &^ 7
	case *ArrayV:
		if len(x.E) == 0 {
			return 0
		}
		return len(x.E) * it.elemSize(x.E[0])
	}
	return 8
}

func (it *Interp) appendOp(a, b Value) Value {
	s, ok := a.(SliceV)
	if !ok {
		it.abort("append to %T", a)
	}
	var add []Value
	switch x := b.(type) {
	case SliceV:
		add = append(add, sliceElems(x)...)
	case StrV:
		for _, t := range it.strBytes(x) {
			add = append(add, t)
		}
	case nil:
	default:
		it.abort("append of %T", b)
	}
	if len(add) == 0 {
		return s
	}
	need := s.Len + len(add)
	if s.O != nil && need <= s.Cap {
		it.touch(s.O)
		arr := s.O.V.(*ArrayV).E
		for i, v := range add {
			arr[s.Off+s.Len+i] = deepCopy(v)
		}
		return SliceV{O: s.O, Off: s.Off, Len: need, Cap: s.Cap}
	}
	esz := it.elemSize(add[0])
	ncap := growCap(s.Cap, need, esz)
	if ncap < need {
		ncap = need
	}
	arr := &ArrayV{E: make([]Value, ncap)}
	old := sliceElems(s)
	for i, v := range old {
		arr.E[i] = deepCopy(v)
	}
	for i, v := range add {
		arr.E[len(old)+i] = deepCopy(v)
	}
	if ncap > need {
		z := zeroLike(add[0], it)
		for i := need; i < ncap; i++ {
			arr.E[i] = deepCopy(z)
		}
	}
	return SliceV{O: it.newObj(arr, "append"), Off: 0, Len: need, Cap: ncap}
}

// zeroLike returns a zero value shaped like v (used for spare capacity).
func zeroLike(v Value, it *Interp) Value {
	c := it.C
	switch x := v.(type) {
	case *smt.Term:
		if x.Sort.K == smt.KBool {
			return c.False
		}
		return c.BVU(0, x.Sort.W)
	case StrV:
		return StrV{}
	case PtrV:
		return PtrV{}
	case SliceV:
		return SliceV{}
	case IfaceV:
		return IfaceV{}
	case *MapObj:
		return (*MapObj)(nil)
	case *FuncV:
		return (*FuncV)(nil)
	case FloatV:
		return FloatV(0)
	case BigV:
		return BigV{c.IntI(0)}
	case *StructV:
		n := &StructV{F: make([]Value, len(x.F))}
		for i, f := range x.F {
			n.F[i] = zeroLike(f, it)
		}
		return n
	case *ArrayV:
		n := &ArrayV{E: make([]Value, len(x.E))}
		for i, f := range x.E {
			n.E[i] = zeroLike(f, it)
		}
		return n
	}
	return v
}

// ---------- maps ----------

// mapFind returns the index of key in m (forking on symbolic equality) or -1.
func (it *Interp) mapFind(m *MapObj, key Value) int {
	if m == nil {
		return -1
	}
	for i, k := range m.Keys {
		eq := it.eqTerm(k, key)
		if eq.IsConst() {
			if eq.IsTrue() {
				return i
			}
			continue
		}
		if it.Branch(eq) {
			return i
		}
	}
	return -1
}

func (it *Interp) mapUpdate(mv Value, key, val Value) {
	m, ok := mv.(*MapObj)
	if !ok {
		it.abort("map update on %T", mv)
	}
	if m == nil {
		it.goPanicStr("nil-map", "assignment to entry in nil map")
	}
	i := it.mapFind(m, key)
	if i >= 0 {
		m.Vals[i] = deepCopy(val)
		return
	}
	m.Keys = append(m.Keys, deepCopy(key))
	m.Vals = append(m.Vals, deepCopy(val))
}

func (it *Interp) lookup(fr *frame, x *ssa.Lookup) Value {
	base := it.get(fr, x.X)
	key := it.get(fr, x.Index)
	switch b := base.(type) {
	case *MapObj:
		i := it.mapFind(b, key)
		var v Value
		if i >= 0 {
			v = deepCopy(b.Vals[i])
		} else {
			v = it.zero(x.X.Type().Underlying().(*types.Map).Elem())
		}
		if x.CommaOk {
			return TupleV{v, it.C.BoolConst(i >= 0)}
		}
		return v
	case StrV:
		bs := it.strBytes(b)
		vals := make([]Value, len(bs))
		for i, t := range bs {
			vals[i] = t
		}
		return it.indexValues(vals, key.(*smt.Term), x.Index.Type())
	}
	it.abort("lookup on %T", base)
	return nil
}

type rangeIter struct {
	m    *MapObj
	keys []Value
	vals []Value
	str  StrV
	isS  bool
	pos  int
}

func (it *Interp) makeRange(v Value) Value {
	switch x := v.(type) {
	case *MapObj:
		r := &rangeIter{m: x}
		if x != nil {
			order := it.mapOrder(len(x.Keys))
			for _, i := range order {
				r.keys = append(r.keys, x.Keys[i])
				r.vals = append(r.vals, x.Vals[i])
			}
		}
		return r
	case StrV:
		if !x.Concrete() {
			// treat symbolic strings bytewise only if all bytes are provably ASCII; otherwise abort
			it.abort("range over symbolic string")
		}
		return &rangeIter{str: x, isS: true}
	}
	it.abort("range over %T", v)
	return nil
}

// mapOrder chooses the iteration order of a map with n live entries.
func (it *Interp) mapOrder(n int) []int {
	order := make([]int, n)
	for i := range order {
		order[i] = i
	}
	if it.Cfg.MapOrder != "all" || n < 2 {
		return order
	}
	if n > 4 {
		it.abort("all-orders map iteration over %d entries", n)
	}
	// choose a permutation by forking: Fisher-Yates with nondeterministic picks
	for i := 0; i < n-1; i++ {
		k := it.choose(n - i)
		order[i], order[i+k] = order[i+k], order[i]
	}
	return order
}

// choose forks into n alternatives (a pure scheduling choice, no symbolic variable).
func (it *Interp) choose(n int) int {
	for k := 0; k < n-1; k++ {
		if it.ForkChoice() {
			return k
		}
	}
	return n - 1
}

func (it *Interp) rangeNext(r *rangeIter, x *ssa.Next) Value {
	c := it.C
	if r.isS {
		if r.pos >= len(r.str.S) {
			return TupleV{c.False, c.BVI(0, 64), c.BVI(0, 32)}
		}
		rn, sz := utf8.DecodeRuneInString(r.str.S[r.pos:])
		p := r.pos
		r.pos += sz
		return TupleV{c.True, c.BVI(int64(p), 64), c.BVI(int64(rn), 32)}
	}
	for r.pos < len(r.keys) {
		k, v := r.keys[r.pos], r.vals[r.pos]
		r.pos++
		// entries deleted during iteration are skipped; read the current value
		i := -1
		for j, kk := range r.m.Keys {
			if sameKeyIdentity(kk, k) {
				i = j
				break
			}
		}
		if i < 0 {
			continue
		}
		v = r.m.Vals[i]
		return TupleV{c.True, deepCopy(k), deepCopy(v)}
	}
	tt := x.Type().(*types.Tuple)
	return TupleV{c.False, it.zero(tt.At(1).Type()), it.zero(tt.At(2).Type())}
}

func sameKeyIdentity(a, b Value) bool {
	switch x := a.(type) {
	case *smt.Term:
		y, ok := b.(*smt.Term)
		return ok && x == y
	case StrV:
		y, ok := b.(StrV)
		if !ok || x.Len() != y.Len() {
			return false
		}
		if x.Concrete() && y.Concrete() {
			return x.S == y.S
		}
		if x.Concrete() != y.Concrete() {
			return false
		}
		for i := range x.B {
			if x.B[i] != y.B[i] {
				return false
			}
		}
		return true
	case *StructV:
		y, ok := b.(*StructV)
		if !ok || len(x.F) != len(y.F) {
			return false
		}
		for i := range x.F {
			if !sameKeyIdentity(x.F[i], y.F[i]) {
				return false
			}
		}
		return true
	case *ArrayV:
		y, ok := b.(*ArrayV)
		if !ok || len(x.E) != len(y.E) {
			return false
		}
		for i := range x.E {
			if !sameKeyIdentity(x.E[i], y.E[i]) {
				return false
			}
		}
		return true
	case PtrV:
		y, ok := b.(PtrV)
		if !ok || x.O != y.O || len(x.Path) != len(y.Path) {
			return false
		}
		for i := range x.Path {
			if x.Path[i] != y.Path[i] {
				return false
			}
		}
		return true
	case IfaceV:
		y, ok := b.(IfaceV)
		if !ok {
			return false
		}
		if x.T == nil || y.T == nil {
			return x.T == nil && y.T == nil
		}
		return types.Identical(x.T, y.T) && sameKeyIdentity(x.V, y.V)
	}
	return false
}

// ---------- goroutines / channels (sequentialised; see DESIGN §1.2) ----------

func (it *Interp) execGo(fr *frame, x *ssa.Go) {
	if !it.M.allowGo {
		it.nondetSource("go statement at " + it.posString(x.Pos()))
	}
	d := it.prepareDefer(fr, &x.Call)
	it.M.goQueue = append(it.M.goQueue, d)
}

// runPendingGoroutines runs queued goroutines to completion in a forked order.
func (it *Interp) runPendingGoroutines() {
	for len(it.M.goQueue) > 0 {
		k := 0
		if it.M.goAllOrders && len(it.M.goQueue) > 1 {
			k = it.choose(len(it.M.goQueue))
		}
		d := it.M.goQueue[k]
		it.M.goQueue = append(it.M.goQueue[:k:k], it.M.goQueue[k+1:]...)
		if d.builtin != nil {
			it.callBuiltin(d.builtin, d.args, nil)
		} else {
			it.callValue(d.fn, d.args, token.NoPos)
		}
	}
}

// chanSend / chanRecv: capacity-respecting semantics live in models_chan.go, close() in chan_close.go.
func (it *Interp) chanSend(ch Value, v Value) { it.chanSendModel(ch, v) }

func (it *Interp) chanRecv(ch Value, commaOk bool, chanType types.Type) Value {
	return it.chanRecvModel(ch, commaOk, chanType)
}

func (it *Interp) selectOp(fr *frame, x *ssa.Select) Value {
	it.abort("select is not modelled")
	return nil
}

var _ = fmt.Sprintf
