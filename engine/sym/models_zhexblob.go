package sym

import "golang.org/x/tools/go/ssa"

// encoding/hex.EncodeToString of codec output. The codec model represents marshalled messages as a Blob (a
// deep copy of the message, not bytes); x/tss hex-encodes cdc.MustMarshal(&round1Info / &round2Info) into event
// attributes only, so the text is opaque. Everything else goes to the exact model in models_tssde.go (this
// file sorts after it, so the registration below wraps that one).
func init() {
	prev := intrinsics["encoding/hex.EncodeToString"]
	Register("encoding/hex.EncodeToString", func(it *Interp, fn *ssa.Function, a []Value) Value {
		if _, ok := a[0].(*Blob); ok {
			return OpaqueV{Why: "hex of codec blob"}
		}
		return prev.Fn(it, fn, a)
	})
}
