package sym

import (
	"fmt"
	"math/big"

	"golang.org/x/tools/go/ssa"

	"symgo/smt"
)

// math/big.Int is modelled as an SMT Int.

func (it *Interp) bigGet(v Value) *smt.Term {
	p, ok := v.(PtrV)
	if !ok {
		if b, ok := v.(BigV); ok {
			return b.T
		}
		panic(it.bug("bigGet on %T", v))
	}
	if p.O == nil {
		it.goPanicNilDeref()
	}
	b, ok := it.navigate(p).(BigV)
	if !ok {
		panic(it.bug("bigGet: object holds %T", it.navigate(p)))
	}
	return b.T
}

func (it *Interp) bigSet(v Value, t *smt.Term) Value {
	p := v.(PtrV)
	if p.O == nil {
		it.goPanicNilDeref()
	}
	it.store(p, BigV{t})
	return v
}

func (it *Interp) newBig(t *smt.Term) PtrV {
	return PtrV{O: it.newObj(BigV{t}, "big.Int")}
}

func (it *Interp) pow2(n int) *smt.Term {
	return it.C.IntConst(new(big.Int).Lsh(big.NewInt(1), uint(n)))
}

func (it *Interp) cmpTerm(a, b *smt.Term) *smt.Term {
	c := it.C
	return c.Ite(c.Lt(a, b), c.BVI(-1, 64), c.Ite(c.Eq(a, b), c.BVI(0, 64), c.BVI(1, 64)))
}

func (it *Interp) requireConcreteBig(t *smt.Term, what string) *big.Int {
	if !t.IsConst() {
		it.abort("%s needs a concrete big.Int", what)
	}
	return t.Val
}

func init() {
	R := Register
	R("math/big.NewInt", func(it *Interp, _ *ssa.Function, a []Value) Value {
		return it.newBig(it.C.BV2IntSigned(a[0].(*smt.Term)))
	})
	bin := func(name string, f func(it *Interp, x, y *smt.Term) *smt.Term) {
		R("(*math/big.Int)."+name, func(it *Interp, _ *ssa.Function, a []Value) Value {
			return it.bigSet(a[0], f(it, it.bigGet(a[1]), it.bigGet(a[2])))
		})
	}
	bin("Add", func(it *Interp, x, y *smt.Term) *smt.Term { return it.C.Add(x, y) })
	bin("Sub", func(it *Interp, x, y *smt.Term) *smt.Term { return it.C.Sub(x, y) })
	bin("Mul", func(it *Interp, x, y *smt.Term) *smt.Term { return it.C.Mul(x, y) })
	divCheck := func(it *Interp, y *smt.Term) {
		if it.Branch(it.C.Eq(y, it.C.IntI(0))) {
			it.goPanicStr("div0", "division by zero")
		}
	}
	bin("Quo", func(it *Interp, x, y *smt.Term) *smt.Term { divCheck(it, y); return it.C.Quo(x, y) })
	bin("Rem", func(it *Interp, x, y *smt.Term) *smt.Term { divCheck(it, y); return it.C.Rem(x, y) })
	bin("Div", func(it *Interp, x, y *smt.Term) *smt.Term { divCheck(it, y); return it.C.Div(x, y) })
	bin("Mod", func(it *Interp, x, y *smt.Term) *smt.Term { divCheck(it, y); return it.C.Mod(x, y) })
	R("(*math/big.Int).QuoRem", func(it *Interp, _ *ssa.Function, a []Value) Value {
		x, y := it.bigGet(a[1]), it.bigGet(a[2])
		divCheck(it, y)
		q, r := it.C.Quo(x, y), it.C.Rem(x, y)
		it.bigSet(a[0], q)
		it.bigSet(a[3], r)
		return TupleV{a[0], a[3]}
	})
	R("(*math/big.Int).DivMod", func(it *Interp, _ *ssa.Function, a []Value) Value {
		x, y := it.bigGet(a[1]), it.bigGet(a[2])
		divCheck(it, y)
		q, r := it.C.Div(x, y), it.C.Mod(x, y)
		it.bigSet(a[0], q)
		it.bigSet(a[3], r)
		return TupleV{a[0], a[3]}
	})
	un := func(name string, f func(it *Interp, x *smt.Term) *smt.Term) {
		R("(*math/big.Int)."+name, func(it *Interp, _ *ssa.Function, a []Value) Value {
			return it.bigSet(a[0], f(it, it.bigGet(a[1])))
		})
	}
	un("Set", func(it *Interp, x *smt.Term) *smt.Term { return x })
	un("Neg", func(it *Interp, x *smt.Term) *smt.Term { return it.C.Neg(x) })
	un("Abs", func(it *Interp, x *smt.Term) *smt.Term { return it.C.Abs(x) })
	R("(*math/big.Int).SetInt64", func(it *Interp, _ *ssa.Function, a []Value) Value {
		return it.bigSet(a[0], it.C.BV2IntSigned(a[1].(*smt.Term)))
	})
	R("(*math/big.Int).SetUint64", func(it *Interp, _ *ssa.Function, a []Value) Value {
		return it.bigSet(a[0], it.C.BV2Int(a[1].(*smt.Term)))
	})
	R("(*math/big.Int).SetBytes", func(it *Interp, _ *ssa.Function, a []Value) Value {
		if l, ok := a[1].(LazyBytesV); ok {
			return it.bigSet(a[0], l.X)
		}
		bs := it.bytesOfAny(a[1])
		return it.bigSet(a[0], it.bytesToInt(bs))
	})
	R("(*math/big.Int).SetString", func(it *Interp, _ *ssa.Function, a []Value) Value {
		s := a[1].(StrV)
		base := a[2].(*smt.Term)
		if !s.Concrete() || !base.IsConst() {
			it.abort("big.Int.SetString on symbolic string")
		}
		v, ok := new(big.Int).SetString(s.S, int(base.SignedVal().Int64()))
		if !ok {
			return TupleV{PtrV{}, it.C.False}
		}
		it.bigSet(a[0], it.C.IntConst(v))
		return TupleV{a[0], it.C.True}
	})
	R("(*math/big.Int).Cmp", func(it *Interp, _ *ssa.Function, a []Value) Value {
		return it.cmpTerm(it.bigGet(a[0]), it.bigGet(a[1]))
	})
	R("(*math/big.Int).CmpAbs", func(it *Interp, _ *ssa.Function, a []Value) Value {
		return it.cmpTerm(it.C.Abs(it.bigGet(a[0])), it.C.Abs(it.bigGet(a[1])))
	})
	R("(*math/big.Int).Sign", func(it *Interp, _ *ssa.Function, a []Value) Value {
		return it.cmpTerm(it.bigGet(a[0]), it.C.IntI(0))
	})
	R("(*math/big.Int).BitLen", func(it *Interp, _ *ssa.Function, a []Value) Value {
		x := it.bigGet(a[0])
		if x.IsConst() {
			return it.C.BVI(int64(x.Val.BitLen()), 64)
		}
		// symbolic bit length: only comparisons against constants are supported (see bitlenCompare)
		return it.C.App("bitlen!", smt.BV(64), x)
	})
	R("(*math/big.Int).IsInt64", func(it *Interp, _ *ssa.Function, a []Value) Value {
		x := it.bigGet(a[0])
		c := it.C
		lo := c.IntConst(new(big.Int).Neg(new(big.Int).Lsh(big.NewInt(1), 63)))
		return c.And(c.Le(lo, x), c.Lt(x, it.pow2(63)))
	})
	R("(*math/big.Int).IsUint64", func(it *Interp, _ *ssa.Function, a []Value) Value {
		x := it.bigGet(a[0])
		c := it.C
		return c.And(c.Le(c.IntI(0), x), c.Lt(x, it.pow2(64)))
	})
	R("(*math/big.Int).Int64", func(it *Interp, _ *ssa.Function, a []Value) Value {
		return it.C.Int2BV(it.bigGet(a[0]), 64)
	})
	R("(*math/big.Int).Uint64", func(it *Interp, _ *ssa.Function, a []Value) Value {
		// low 64 bits of |x|
		return it.C.Int2BV(it.C.Abs(it.bigGet(a[0])), 64)
	})
	R("(*math/big.Int).Bytes", func(it *Interp, _ *ssa.Function, a []Value) Value {
		x := it.bigGet(a[0])
		if x.IsConst() {
			return it.mkByteSlice(it.concBytes(new(big.Int).Abs(x.Val).Bytes()))
		}
		// symbolic: the length depends on the value; resolved by the consumer (see LazyBytesV)
		return LazyBytesV{X: it.absT(x)}
	})
	R("(*math/big.Int).FillBytes", func(it *Interp, _ *ssa.Function, a []Value) Value {
		x := it.bigGet(a[0])
		buf := a[1].(SliceV)
		n := buf.Len
		c := it.C
		ax := it.absT(x)
		if !(n >= 32 && it.isLt256(ax)) && it.Branch(c.Le(it.pow2(8*n), ax)) {
			it.goPanicStr("fillbytes", "math/big: buffer too small to fit value")
		}
		bs := it.intToBytes(ax, n)
		arr := buf.O.V.(*ArrayV).E
		for i := 0; i < n; i++ {
			arr[buf.Off+i] = bs[i]
		}
		return buf
	})
	R("(*math/big.Int).String", func(it *Interp, _ *ssa.Function, a []Value) Value {
		if p, ok := a[0].(PtrV); ok && p.O == nil {
			return StrV{S: "<nil>"}
		}
		x := it.bigGet(a[0])
		if x.IsConst() {
			return StrV{S: x.Val.String()}
		}
		return OpaqueV{Why: "big.Int.String of symbolic value"}
	})
	R("(*math/big.Int).Text", func(it *Interp, _ *ssa.Function, a []Value) Value {
		x := it.bigGet(a[0])
		b := a[1].(*smt.Term)
		if x.IsConst() && b.IsConst() {
			return StrV{S: x.Val.Text(int(b.Val.Int64()))}
		}
		return OpaqueV{Why: "big.Int.Text of symbolic value"}
	})
	R("(*math/big.Int).Exp", func(it *Interp, _ *ssa.Function, a []Value) Value {
		x, y := it.bigGet(a[1]), it.bigGet(a[2])
		var m *smt.Term
		if p, ok := a[3].(PtrV); ok && p.O != nil {
			m = it.bigGet(a[3])
		}
		if x.IsConst() && y.IsConst() && (m == nil || m.IsConst()) {
			var mv *big.Int
			if m != nil {
				mv = m.Val
			}
			return it.bigSet(a[0], it.C.IntConst(new(big.Int).Exp(x.Val, y.Val, mv)))
		}
		if y.IsConst() && y.Val.IsInt64() && y.Val.Int64() >= 0 && y.Val.Int64() <= 8 {
			r := it.C.IntI(1)
			for i := int64(0); i < y.Val.Int64(); i++ {
				r = it.C.Mul(r, x)
			}
			if m != nil {
				r = it.C.Mod(r, m)
			}
			return it.bigSet(a[0], r)
		}
		it.abort("big.Int.Exp with symbolic exponent")
		return nil
	})
	R("(*math/big.Int).Lsh", func(it *Interp, _ *ssa.Function, a []Value) Value {
		x := it.bigGet(a[1])
		n := a[2].(*smt.Term)
		if !n.IsConst() {
			it.abort("big.Int.Lsh by symbolic amount")
		}
		return it.bigSet(a[0], it.C.Mul(x, it.pow2(int(n.Val.Int64()))))
	})
	R("(*math/big.Int).Rsh", func(it *Interp, _ *ssa.Function, a []Value) Value {
		x := it.bigGet(a[1])
		n := a[2].(*smt.Term)
		if !n.IsConst() {
			it.abort("big.Int.Rsh by symbolic amount")
		}
		// arithmetic shift = floor division
		return it.bigSet(a[0], it.C.Div(x, it.pow2(int(n.Val.Int64()))))
	})
	R("(*math/big.Int).Bit", func(it *Interp, _ *ssa.Function, a []Value) Value {
		x := it.bigGet(a[0])
		i := a[1].(*smt.Term)
		if !i.IsConst() {
			it.abort("big.Int.Bit with symbolic index")
		}
		c := it.C
		// for negative x Go uses two's complement; floor-div/mod gives the same bit
		bit := c.Mod(c.Div(x, it.pow2(int(i.Val.Int64()))), c.IntI(2))
		return c.Ite(c.Eq(bit, c.IntI(1)), c.BVU(1, 64), c.BVU(0, 64))
	})
	R("(*math/big.Int).ModInverse", func(it *Interp, _ *ssa.Function, a []Value) Value {
		g, n := it.bigGet(a[1]), it.bigGet(a[2])
		if g.IsConst() && n.IsConst() {
			r := new(big.Int).ModInverse(g.Val, n.Val)
			if r == nil {
				return PtrV{}
			}
			return it.bigSet(a[0], it.C.IntConst(r))
		}
		it.abort("big.Int.ModInverse on symbolic value")
		return nil
	})
	R("(*math/big.Int).Sqrt", func(it *Interp, _ *ssa.Function, a []Value) Value {
		x := it.requireConcreteBig(it.bigGet(a[1]), "Sqrt")
		return it.bigSet(a[0], it.C.IntConst(new(big.Int).Sqrt(x)))
	})
	R("(*math/big.Int).GCD", func(it *Interp, _ *ssa.Function, a []Value) Value {
		x := it.requireConcreteBig(it.bigGet(a[3]), "GCD")
		y := it.requireConcreteBig(it.bigGet(a[4]), "GCD")
		return it.bigSet(a[0], it.C.IntConst(new(big.Int).GCD(nil, nil, x, y)))
	})
	R("(*math/big.Int).Format", func(it *Interp, _ *ssa.Function, a []Value) Value { return nil })
	R("(*math/big.Int).MarshalText", func(it *Interp, _ *ssa.Function, a []Value) Value {
		x := it.bigGet(a[0])
		if x.IsConst() {
			return TupleV{it.mkByteSlice(it.concBytes([]byte(x.Val.String()))), IfaceV{}}
		}
		return TupleV{OpaqueV{Why: "big.Int.MarshalText"}, IfaceV{}}
	})
}

func (it *Interp) bytesOfAny(v Value) []*smt.Term {
	v = it.forceLazy(v)
	switch x := v.(type) {
	case SliceV, StrV, *ArrayV:
		return it.bytesOf(x)
	}
	it.abort("expected bytes, got %T", v)
	return nil
}

// bytesToInt: big-endian unsigned.
func (it *Interp) bytesToInt(bs []*smt.Term) *smt.Term {
	c := it.C
	if len(bs) == 0 {
		return c.IntI(0)
	}
	if allConst(bs) {
		return c.IntConst(new(big.Int).SetBytes(constBytes(bs)))
	}
	// recognise intToBytes output (all bytes are byte-i-of the same Int)
	if src, ok := it.M.intBytes[bs[0]]; ok {
		same := len(src.bytes) == len(bs)
		if same {
			for i := range bs {
				if src.bytes[i] != bs[i] {
					same = false
					break
				}
			}
		}
		if same {
			return src.x
		}
	}
	var bv *smt.Term
	for _, b := range bs {
		if bv == nil {
			bv = b
		} else {
			bv = c.Concat(bv, b)
		}
	}
	return c.BV2Int(bv)
}

type intBytesSrc struct {
	x     *smt.Term
	bytes []*smt.Term
}

// intToBytes: n-byte big-endian encoding of 0 <= x < 2^(8n).
func (it *Interp) intToBytes(x *smt.Term, n int) []*smt.Term {
	c := it.C
	out := make([]*smt.Term, n)
	if x.IsConst() {
		b := make([]byte, n)
		x.Val.FillBytes(b)
		return it.concBytes(b)
	}
	if x.Op == smt.OBV2Int && x.Args[0].Sort.W <= 8*n {
		bv := c.Zext(x.Args[0], 8*n)
		for i := 0; i < n; i++ {
			out[i] = c.Extract(bv, 8*(n-i)-1, 8*(n-i-1))
		}
		return out
	}
	bv := c.Int2BV(x, 8*n)
	for i := 0; i < n; i++ {
		out[i] = c.Extract(bv, 8*(n-i)-1, 8*(n-i-1))
	}
	if it.M.intBytes == nil {
		it.M.intBytes = map[*smt.Term]*intBytesSrc{}
	}
	it.M.intBytes[out[0]] = &intBytesSrc{x: x, bytes: out}
	return out
}

// bigBytesSymbolic implements (*big.Int).Bytes for a symbolic value by forking over the byte length.
func (it *Interp) bigBytesSymbolic(x *smt.Term) Value {
	c := it.C
	ax := c.Abs(x)
	max := it.M.maxBigBytes
	if max == 0 {
		max = 32
	}
	for n := 0; n <= max; n++ {
		if it.Branch(c.Lt(ax, it.pow2(8*n))) {
			return it.mkByteSlice(it.intToBytes(ax, n))
		}
	}
	it.abort("big.Int.Bytes: value may exceed %d bytes", max)
	return nil
}

var _ = fmt.Sprintf
