package sym

import "golang.org/x/tools/go/ssa"

// Text used only for event attributes and error messages on the fee paths (x/bandtss createSigningRequest):
// the ABCI (codespace, code, log) triple of an error (reflect based) and the rendering of sdk.Coins
// (strings.Builder uses unsafe). Both results only flow into ignored event/err-message sinks.
func init() {
	Register("cosmossdk.io/errors.ABCIInfo", func(it *Interp, fn *ssa.Function, a []Value) Value {
		return it.opaqueResult(fn.Signature, "errors.ABCIInfo")
	})
	Register("(github.com/cosmos/cosmos-sdk/types.Coins).String", func(it *Interp, fn *ssa.Function, a []Value) Value {
		return OpaqueV{Why: "Coins.String"}
	})
}
