package sym

import "golang.org/x/tools/go/ssa"

// Text used only for event attributes and error messages on the fee paths (x/bandtss createSigningRequest):
// the ABCI (codespace, code, log) triple of an error (reflect based) and the rendering of sdk.Coins
// (strings.Builder uses unsafe). Both results only flow into ignored event/err-message sinks.
func init() {
	// (errors.ABCIInfo runs from its real source: only errIsNil needs a model, see models_sdk.go; its
	// codespace/code results are stored by oracle's handleCreateSigningFailed and must stay precise)
	Register("(github.com/cosmos/cosmos-sdk/types.Coins).String", func(it *Interp, fn *ssa.Function, a []Value) Value {
		return OpaqueV{Why: "Coins.String"}
	})
}
