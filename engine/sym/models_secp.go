package sym

import (
	"fmt"
	"go/types"
	"math/big"

	"golang.org/x/tools/go/ssa"

	"symgo/smt"
)

// Algebraic model of github.com/decred/dcrd/dcrec/secp256k1/v4.
//
//   ModNScalar  = an SMT Int in [0, n) for the real group order n
//   FieldVal    = a coordinate of the point with discrete log e  (CoordV{E, Axis})
//   JacobianPoint / PublicKey keep their struct shape; all coordinates of one point carry the same E
//   the point at infinity is E = 0 (the zero JacobianPoint)
//
// Sound because the group has prime order and cofactor 1: every valid point is e·G for exactly one e in [0,n).
// Coordinates are uninterpreted functions of e: secp.x, secp.y : Int -> Int in [0,p) and secp.yodd : Int -> Bool,
// with the injectivity axiom  x(e1)=x(e2) ∧ yodd(e1)=yodd(e2) ⇒ e1=e2  and  x(e1)=x(e2) ∧ y(e1)=y(e2) ⇒ e1=e2
// instantiated for every pair of discrete logs that is serialised / compared on a path.

const secpPkg = "github.com/decred/dcrd/dcrec/secp256k1/v4"

var secpN, _ = new(big.Int).SetString("FFFFFFFFFFFFFFFFFFFFFFFFFFFFFFFEBAAEDCE6AF48A03BBFD25E8CD0364141", 16)
var secpP, _ = new(big.Int).SetString("FFFFFFFFFFFFFFFFFFFFFFFFFFFFFFFFFFFFFFFFFFFFFFFFFFFFFFFEFFFFFC2F", 16)

type ScalarV struct{ T *smt.Term }
type CoordV struct {
	E    *smt.Term
	Axis byte // 'x','y','z' or 0 (zero value / small constant)
	K    int  // small constant for Axis == 0 (SetInt)
}

func (it *Interp) secpN() *smt.Term { return it.C.IntConst(secpN) }

func (it *Interp) modN(t *smt.Term) *smt.Term {
	if t.IsConst() {
		return it.C.IntConst(new(big.Int).Mod(t.Val, secpN))
	}
	if it.isReduced(t) {
		return t
	}
	r := it.C.Mod(t, it.secpN())
	it.markReduced(r)
	return r
}

func init() {
	zeroHooks = append(zeroHooks, func(it *Interp, t types.Type) (Value, bool) {
		if isNamed(t, secpPkg, "ModNScalar") {
			return ScalarV{it.C.IntI(0)}, true
		}
		if isNamed(t, secpPkg, "FieldVal") {
			return CoordV{E: it.C.IntI(0)}, true
		}
		return nil, false
	})
	eqHooks = append(eqHooks, func(it *Interp, a, b Value) (*smt.Term, bool) {
		if x, ok := a.(ScalarV); ok {
			if y, ok := b.(ScalarV); ok {
				return it.C.Eq(x.T, y.T), true
			}
		}
		return nil, false
	})
}

func (it *Interp) scalarAt(v Value) *smt.Term {
	p := v.(PtrV)
	if p.O == nil {
		it.goPanicNilDeref()
	}
	s, ok := it.navigate(p).(ScalarV)
	if !ok {
		panic(it.bug("scalarAt: %T", it.navigate(p)))
	}
	return s.T
}

func (it *Interp) setScalar(v Value, t *smt.Term) Value {
	it.store(v.(PtrV), ScalarV{t})
	return v
}

// pointE reads the discrete log of the JacobianPoint / PublicKey at p.
func (it *Interp) pointE(v Value) *smt.Term {
	p := v.(PtrV)
	if p.O == nil {
		it.goPanicNilDeref()
	}
	return it.pointEOf(it.navigate(p))
}

func (it *Interp) pointEOf(v Value) *smt.Term {
	sv, ok := v.(*StructV)
	if !ok || len(sv.F) < 2 {
		panic(it.bug("pointE: %T", v))
	}
	x, ok1 := sv.F[0].(CoordV)
	y, ok2 := sv.F[1].(CoordV)
	if !ok1 || !ok2 {
		panic(it.bug("pointE: coordinates are %T %T", sv.F[0], sv.F[1]))
	}
	if x.E != y.E {
		it.abort("secp model: point built from coordinates of different points")
	}
	return x.E
}

func (it *Interp) setPoint(v Value, e *smt.Term) {
	p := v.(PtrV)
	if p.O == nil {
		it.goPanicNilDeref()
	}
	sv := it.navigate(p).(*StructV)
	it.touch(p.O)
	sv.F[0] = CoordV{E: e, Axis: 'x'}
	sv.F[1] = CoordV{E: e, Axis: 'y'}
	if len(sv.F) > 2 {
		sv.F[2] = CoordV{E: e, Axis: 'z'}
	}
}

// noteLog registers a discrete log whose coordinates become observable and adds the injectivity axioms
// against the ones seen before on this path.
func (it *Interp) noteLog(e *smt.Term) {
	c := it.C
	logs, _ := it.M.extra["secp.logs"].([]*smt.Term)
	for _, o := range logs {
		if o == e {
			return
		}
	}
	// no finite point of this prime-order curve has a zero coordinate
	x := it.secpX(e)
	it.addPC(c.And(c.Le(c.IntI(1), x), c.Lt(x, c.IntConst(secpP))))
	y := it.secpY(e)
	it.markNonNeg(x)
	it.markNonNeg(y)
	it.markLt256(x)
	it.markLt256(y)
	it.addPC(c.And(c.Le(c.IntI(1), y), c.Lt(y, c.IntConst(secpP))))
	for _, o := range logs {
		sameX := c.Eq(it.secpX(o), x)
		same := it.scEq(o, e)
		it.addPC(c.Implies(c.And(sameX, c.Eq(it.secpYOdd(o), it.secpYOdd(e))), same))
		it.addPC(c.Implies(c.And(sameX, c.Eq(it.secpY(o), y)), same))
		// y parity is a function of y
		it.addPC(c.Implies(c.Eq(it.secpY(o), y), c.Eq(it.secpYOdd(o), it.secpYOdd(e))))
	}
	it.M.extra["secp.logs"] = append(logs, e)
}

func (it *Interp) secpX(e *smt.Term) *smt.Term    { return it.C.App("secp.x", smt.Int, e) }
func (it *Interp) secpY(e *smt.Term) *smt.Term    { return it.C.App("secp.y", smt.Int, e) }
func (it *Interp) secpYOdd(e *smt.Term) *smt.Term { return it.C.App("secp.yodd", smt.Bool, e) }

// serializeCompressed returns the 33 bytes of the point e (e != 0).
func (it *Interp) serializeCompressed(e *smt.Term) []*smt.Term {
	c := it.C
	it.noteLog(e)
	out := make([]*smt.Term, 0, 33)
	out = append(out, c.Ite(it.secpYOdd(e), c.BVU(3, 8), c.BVU(2, 8)))
	xb := it.intToBytes(it.secpX(e), 32)
	out = append(out, xb...)
	ser, _ := it.M.extra["secp.ser"].(map[*smt.Term]*smt.Term)
	if ser == nil {
		ser = map[*smt.Term]*smt.Term{}
		it.M.extra["secp.ser"] = ser
	}
	ser[xb[0]] = e
	return out
}

// parsePubKey recognises byte strings produced by serializeCompressed (possibly with a different
// parity byte); anything else with a concrete invalid format byte fails; other inputs are not modelled.
func (it *Interp) parsePubKey(bs []*smt.Term) (e *smt.Term, ok bool) {
	c := it.C
	if len(bs) != 33 {
		if len(bs) == 65 {
			it.abort("secp model: uncompressed public keys are not modelled")
		}
		return nil, false
	}
	ser, _ := it.M.extra["secp.ser"].(map[*smt.Term]*smt.Term)
	src, known := ser[bs[1]]
	if known {
		xb := it.intToBytes(it.secpX(src), 32)
		for i := range xb {
			if xb[i] != bs[1+i] {
				known = false
				break
			}
		}
	}
	if !known {
		if bs[0].IsConst() && bs[0].Uint64() != 2 && bs[0].Uint64() != 3 {
			return nil, false
		}
		if allConst(bs) {
			zero := true
			for _, b := range bs[1:] {
				if b.Uint64() != 0 {
					zero = false
				}
			}
			if zero {
				return nil, false // x = 0 is not on the curve
			}
			it.abort("secp model: parsing a concrete compressed key is not modelled (use Scalar.Point() of a symbolic scalar)")
		}
		it.abort("secp model: ParsePubKey of bytes that are not a serialised model point")
	}
	// format byte: 2/3 with the parity of src => src; the other valid parity => -src; else fail
	want := c.Ite(it.secpYOdd(src), c.BVU(3, 8), c.BVU(2, 8))
	if it.Branch(c.Eq(bs[0], want)) {
		return src, true
	}
	other := c.Ite(it.secpYOdd(src), c.BVU(2, 8), c.BVU(3, 8))
	if it.Branch(c.Eq(bs[0], other)) {
		neg := it.scNeg(src)
		it.noteLog(neg)
		it.addPC(c.Eq(it.secpX(neg), it.secpX(src)))
		it.addPC(c.Ne(it.secpYOdd(neg), it.secpYOdd(src)))
		return neg, true
	}
	return nil, false
}

func init() {
	R := Register
	S := "(*" + secpPkg + ".ModNScalar)."
	F := "(*" + secpPkg + ".FieldVal)."
	// ---------- ModNScalar ----------
	R(S+"Set", func(it *Interp, _ *ssa.Function, a []Value) Value { return it.setScalar(a[0], it.scalarAt(a[1])) })
	R(S+"Zero", func(it *Interp, _ *ssa.Function, a []Value) Value { it.setScalar(a[0], it.C.IntI(0)); return nil })
	R(S+"IsZero", func(it *Interp, _ *ssa.Function, a []Value) Value {
		return it.scIsZero(it.scalarAt(a[0]))
	})
	R(S+"IsZeroBit", func(it *Interp, _ *ssa.Function, a []Value) Value {
		return it.C.Ite(it.C.Eq(it.scalarAt(a[0]), it.C.IntI(0)), it.C.BVU(1, 32), it.C.BVU(0, 32))
	})
	R(S+"SetInt", func(it *Interp, _ *ssa.Function, a []Value) Value {
		return it.setScalar(a[0], it.C.BV2Int(a[1].(*smt.Term)))
	})
	setBytes := func(it *Interp, dst Value, bs []*smt.Term) *smt.Term {
		c := it.C
		if len(bs) > 32 {
			bs = bs[:32]
		}
		v := it.bytesToInt(bs)
		if it.isReduced(v) {
			it.setScalar(dst, v)
			return c.False
		}
		over := c.Le(it.secpN(), v)
		// v < 2^256 < 2n: a single conditional subtraction reduces it
		r := c.Ite(over, c.Sub(v, it.secpN()), v)
		it.markReduced(r)
		it.setScalar(dst, r)
		return over
	}
	R(S+"SetByteSlice", func(it *Interp, _ *ssa.Function, a []Value) Value {
		return setBytes(it, a[0], it.bytesOfAny(a[1]))
	})
	R(S+"SetBytes", func(it *Interp, _ *ssa.Function, a []Value) Value {
		arr := it.navigate(a[1].(PtrV)).(*ArrayV)
		over := setBytes(it, a[0], it.bytesOf(arr))
		return it.C.Ite(over, it.C.BVU(1, 32), it.C.BVU(0, 32))
	})
	R(S+"Bytes", func(it *Interp, _ *ssa.Function, a []Value) Value {
		bs := it.intToBytes(it.scalarAt(a[0]), 32)
		arr := &ArrayV{E: make([]Value, 32)}
		for i, b := range bs {
			arr.E[i] = b
		}
		return arr
	})
	put := func(it *Interp, s *smt.Term, dst []Value) {
		bs := it.intToBytes(s, 32)
		for i := 0; i < 32; i++ {
			dst[i] = bs[i]
		}
	}
	R(S+"PutBytesUnchecked", func(it *Interp, _ *ssa.Function, a []Value) Value {
		sl := a[1].(SliceV)
		if sl.Len < 32 {
			it.goPanicStr("index", "runtime error: index out of range (PutBytesUnchecked)")
		}
		it.touch(sl.O)
		put(it, it.scalarAt(a[0]), sl.O.V.(*ArrayV).E[sl.Off:])
		return nil
	})
	R(S+"PutBytes", func(it *Interp, _ *ssa.Function, a []Value) Value {
		p := a[1].(PtrV)
		it.touch(p.O)
		put(it, it.scalarAt(a[0]), it.navigate(p).(*ArrayV).E)
		return nil
	})
	R(S+"IsOdd", func(it *Interp, _ *ssa.Function, a []Value) Value {
		return it.C.Eq(it.C.Mod(it.scalarAt(a[0]), it.C.IntI(2)), it.C.IntI(1))
	})
	R(S+"Equals", func(it *Interp, _ *ssa.Function, a []Value) Value {
		return it.scEq(it.scalarAt(a[0]), it.scalarAt(a[1]))
	})
	R(S+"Add2", func(it *Interp, _ *ssa.Function, a []Value) Value {
		return it.setScalar(a[0], it.scAdd(it.scalarAt(a[1]), it.scalarAt(a[2])))
	})
	R(S+"Add", func(it *Interp, _ *ssa.Function, a []Value) Value {
		return it.setScalar(a[0], it.scAdd(it.scalarAt(a[0]), it.scalarAt(a[1])))
	})
	R(S+"Mul2", func(it *Interp, _ *ssa.Function, a []Value) Value {
		return it.setScalar(a[0], it.scMul(it.scalarAt(a[1]), it.scalarAt(a[2])))
	})
	R(S+"Mul", func(it *Interp, _ *ssa.Function, a []Value) Value {
		return it.setScalar(a[0], it.scMul(it.scalarAt(a[0]), it.scalarAt(a[1])))
	})
	R(S+"SquareVal", func(it *Interp, _ *ssa.Function, a []Value) Value {
		x := it.scalarAt(a[1])
		return it.setScalar(a[0], it.scMul(x, x))
	})
	R(S+"Square", func(it *Interp, _ *ssa.Function, a []Value) Value {
		x := it.scalarAt(a[0])
		return it.setScalar(a[0], it.scMul(x, x))
	})
	neg := func(it *Interp, x *smt.Term) *smt.Term { return it.scNeg(x) }
	R(S+"NegateVal", func(it *Interp, _ *ssa.Function, a []Value) Value {
		return it.setScalar(a[0], neg(it, it.scalarAt(a[1])))
	})
	R(S+"Negate", func(it *Interp, _ *ssa.Function, a []Value) Value {
		return it.setScalar(a[0], neg(it, it.scalarAt(a[0])))
	})
	inv := func(it *Interp, x *smt.Term) *smt.Term {
		c := it.C
		if x.IsConst() {
			if x.Val.Sign() == 0 {
				return x
			}
			return c.IntConst(new(big.Int).ModInverse(x.Val, secpN))
		}
		r := c.App("secp.inv", smt.Int, x)
		it.markReduced(r)
		it.addPC(c.And(c.Le(c.IntI(0), r), c.Lt(r, it.secpN())))
		it.addPC(c.Ite(c.Eq(x, c.IntI(0)), c.Eq(r, c.IntI(0)), c.Eq(it.modN(c.Mul(x, r)), c.IntI(1))))
		return r
	}
	R(S+"InverseValNonConst", func(it *Interp, _ *ssa.Function, a []Value) Value {
		return it.setScalar(a[0], inv(it, it.scalarAt(a[1])))
	})
	R(S+"InverseNonConst", func(it *Interp, _ *ssa.Function, a []Value) Value {
		return it.setScalar(a[0], inv(it, it.scalarAt(a[0])))
	})
	R(S+"IsOverHalfOrder", func(it *Interp, _ *ssa.Function, a []Value) Value {
		half := new(big.Int).Rsh(secpN, 1)
		return it.C.Lt(it.C.IntConst(half), it.scalarAt(a[0]))
	})
	R("("+secpPkg+".ModNScalar).String", func(it *Interp, _ *ssa.Function, a []Value) Value {
		return OpaqueV{Why: "ModNScalar.String"}
	})

	// ---------- FieldVal (coordinates) ----------
	coordAt := func(it *Interp, v Value) CoordV {
		p := v.(PtrV)
		if p.O == nil {
			it.goPanicNilDeref()
		}
		cv, ok := it.navigate(p).(CoordV)
		if !ok {
			panic(it.bug("coordAt: %T", it.navigate(p)))
		}
		return cv
	}
	R(F+"Set", func(it *Interp, _ *ssa.Function, a []Value) Value {
		it.store(a[0].(PtrV), coordAt(it, a[1]))
		return a[0]
	})
	R(F+"Zero", func(it *Interp, _ *ssa.Function, a []Value) Value {
		it.store(a[0].(PtrV), CoordV{E: it.C.IntI(0)})
		return nil
	})
	R(F+"SetInt", func(it *Interp, _ *ssa.Function, a []Value) Value {
		k := a[1].(*smt.Term)
		if !k.IsConst() {
			it.abort("secp model: FieldVal.SetInt of symbolic value")
		}
		it.store(a[0].(PtrV), CoordV{E: it.C.IntI(0), K: int(k.Uint64())})
		return a[0]
	})
	R(F+"Normalize", func(it *Interp, _ *ssa.Function, a []Value) Value { return a[0] })
	R(F+"IsZero", func(it *Interp, _ *ssa.Function, a []Value) Value {
		cv := coordAt(it, a[0])
		if cv.Axis == 0 {
			return it.C.BoolConst(cv.K == 0)
		}
		// no finite point of a prime-order curve y^2 = x^3 + 7 has a zero coordinate
		return it.scIsZero(cv.E)
	})
	R(F+"IsOdd", func(it *Interp, _ *ssa.Function, a []Value) Value {
		cv := coordAt(it, a[0])
		if cv.Axis != 'y' {
			it.abort("secp model: FieldVal.IsOdd on a non-y coordinate")
		}
		it.noteLog(cv.E)
		return it.secpYOdd(cv.E)
	})
	R(F+"Equals", func(it *Interp, _ *ssa.Function, a []Value) Value {
		c := it.C
		x, y := coordAt(it, a[0]), coordAt(it, a[1])
		zero := c.IntI(0)
		switch {
		case x.Axis == 0 && y.Axis == 0:
			return c.BoolConst(x.K == y.K)
		case x.Axis == 'z' || y.Axis == 'z':
			// affine Z: 1 for finite points, 0 for infinity
			zOf := func(v CoordV) *smt.Term {
				if v.Axis == 0 {
					return c.BoolConst(v.K == 0)
				}
				return c.Eq(v.E, zero)
			}
			return c.Eq(zOf(x), zOf(y))
		case x.Axis != y.Axis:
			it.abort("secp model: comparing different coordinate axes")
		}
		if x.E == y.E {
			return c.True
		}
		it.noteLog(x.E)
		it.noteLog(y.E)
		if x.Axis == 'x' {
			return c.Eq(it.secpX(x.E), it.secpX(y.E))
		}
		// the X coordinates are already known to be equal on this path: equal Y then means the same point, i.e.
		// the same discrete log (injectivity axiom of noteLog) -- an exact scalar question instead of a
		// "generic" coordinate equation whose infeasible side would be explored blindly
		if sx := c.Eq(it.secpX(x.E), it.secpX(y.E)); it.P.pcSet[sx.ID] {
			return it.scEq(x.E, y.E)
		}
		return c.Eq(it.secpY(x.E), it.secpY(y.E))
	})
	R("("+secpPkg+".FieldVal).String", func(it *Interp, _ *ssa.Function, a []Value) Value {
		return OpaqueV{Why: "FieldVal.String"}
	})

	// ---------- points ----------
	J := "(*" + secpPkg + ".JacobianPoint)."
	R(J+"ToAffine", func(it *Interp, _ *ssa.Function, a []Value) Value { return nil })
	R(J+"Set", func(it *Interp, _ *ssa.Function, a []Value) Value {
		it.setPoint(a[0], it.pointE(a[1]))
		return nil
	})
	R(secpPkg+".ScalarBaseMultNonConst", func(it *Interp, _ *ssa.Function, a []Value) Value {
		it.setPoint(a[1], it.scalarAt(a[0]))
		return nil
	})
	R(secpPkg+".ScalarMultNonConst", func(it *Interp, _ *ssa.Function, a []Value) Value {
		it.setPoint(a[2], it.scMul(it.scalarAt(a[0]), it.pointE(a[1])))
		return nil
	})
	R(secpPkg+".AddNonConst", func(it *Interp, _ *ssa.Function, a []Value) Value {
		it.setPoint(a[2], it.scAdd(it.pointE(a[0]), it.pointE(a[1])))
		return nil
	})
	R(secpPkg+".DoubleNonConst", func(it *Interp, _ *ssa.Function, a []Value) Value {
		e := it.pointE(a[0])
		it.setPoint(a[1], it.scAdd(e, e))
		return nil
	})
	P := "(*" + secpPkg + ".PublicKey)."
	R(P+"AsJacobian", func(it *Interp, _ *ssa.Function, a []Value) Value {
		it.setPoint(a[1], it.pointE(a[0]))
		return nil
	})
	R(P+"IsOnCurve", func(it *Interp, _ *ssa.Function, a []Value) Value {
		return it.C.Not(it.scIsZero(it.pointE(a[0])))
	})
	R(P+"IsEqual", func(it *Interp, _ *ssa.Function, a []Value) Value {
		return it.scEq(it.pointE(a[0]), it.pointE(a[1]))
	})
	R(P+"X", func(it *Interp, _ *ssa.Function, a []Value) Value {
		e := it.pointE(a[0])
		it.noteLog(e)
		return it.newBig(it.secpX(e))
	})
	R(P+"Y", func(it *Interp, _ *ssa.Function, a []Value) Value {
		e := it.pointE(a[0])
		it.noteLog(e)
		return it.newBig(it.secpY(e))
	})
	R("("+secpPkg+".PublicKey).SerializeCompressed", func(it *Interp, _ *ssa.Function, a []Value) Value {
		e := it.pointEOf(a[0])
		if ok, _ := it.M.extra["secp.finite"].(bool); ok {
			// vsupport.AssumeFinitePoints (models_tssde.go): no serialised point is the point at infinity.
			// The finite branch is taken without recording e != 0 (a non-linear constraint mod n that makes
			// every later query on the same atoms slow): dropping a conjunct only enlarges the explored set.
			return it.mkByteSlice(it.serializeCompressed(e))
		}
		if it.Branch(it.scIsZero(e)) {
			// the real code serialises x=0 of the infinity point; nobody can parse it back
			bs := make([]*smt.Term, 33)
			bs[0] = it.C.BVU(2, 8)
			for i := 1; i < 33; i++ {
				bs[i] = it.C.BVU(0, 8)
			}
			return it.mkByteSlice(bs)
		}
		return it.mkByteSlice(it.serializeCompressed(e))
	})
	R(secpPkg+".ParsePubKey", func(it *Interp, fn *ssa.Function, a []Value) Value {
		bs := it.bytesOfAny(a[0])
		e, ok := it.parsePubKey(bs)
		pt := fn.Signature.Results().At(0).Type()
		if !ok {
			return TupleV{PtrV{}, it.opaqueError("secp256k1: invalid public key")}
		}
		st := it.zero(pt.Underlying().(*types.Pointer).Elem()).(*StructV)
		st.F[0] = CoordV{E: e, Axis: 'x'}
		st.F[1] = CoordV{E: e, Axis: 'y'}
		return TupleV{PtrV{O: it.newObj(st, "pubkey")}, IfaceV{}}
	})
	R(secpPkg+".GeneratePrivateKey", func(it *Interp, fn *ssa.Function, a []Value) Value {
		it.abort("nondeterministic source reached: secp256k1.GeneratePrivateKey")
		return nil
	})
}

var _ = fmt.Sprintf
