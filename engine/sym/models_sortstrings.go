package sym

import "golang.org/x/tools/go/ssa"

// sort.Strings on strings with symbolic bytes (C12: GetSignaturesAndPrefix sorts recovered addresses): insertion
// sort that forks on the lexicographic comparison of two elements (bytesLess), so the order is concrete on each
// path. All-concrete input keeps using the native sort of models.go.
func init() {
	orig := intrinsics["sort.Strings"]
	Register("sort.Strings", func(it *Interp, fn *ssa.Function, a []Value) Value {
		s := a[0].(SliceV)
		el := sliceElems(s)
		conc := true
		for _, e := range el {
			sv, ok := e.(StrV)
			if !ok {
				it.abort("sort.Strings of %T", e)
			}
			if !sv.Concrete() {
				conc = false
			}
		}
		if conc {
			return orig.Fn(it, fn, a)
		}
		it.touch(s.O)
		for i := 1; i < len(el); i++ {
			for m := i; m > 0; m-- {
				x, y := el[m].(StrV), el[m-1].(StrV)
				if !it.Branch(it.bytesLess(it.strBytes(x), it.strBytes(y))) {
					break
				}
				el[m], el[m-1] = y, x
			}
		}
		return nil
	})
}
