package sym

import (
	"go/types"

	"golang.org/x/tools/go/ssa"

	"symgo/smt"
)

const drbgPkg = "github.com/oasisprotocol/oasis-core/go/common/crypto/drbg"

// HMAC-DRBG (oasis-core): the output stream is arbitrary. drbg.New records its seed arguments; Read fills the
// buffer from the harness-provided stream (vsupport.DrbgStream) or with fresh symbolic bytes.
type DrbgSeed struct {
	Entropy, Nonce, Personal Value
}

func init() {
	Register(drbgPkg+".New", func(it *Interp, fn *ssa.Function, a []Value) Value {
		seeds, _ := it.M.extra["drbg.seeds"].([]DrbgSeed)
		seeds = append(seeds, DrbgSeed{Entropy: a[1], Nonce: a[2], Personal: a[3]})
		it.M.extra["drbg.seeds"] = seeds
		// entropy shorter than the security strength is rejected by the real constructor
		if s, ok := a[1].(SliceV); ok && s.Len < 32 {
			return TupleV{PtrV{}, it.opaqueError("drbg: insufficient entropyInput")}
		}
		pt := fn.Signature.Results().At(0).Type().Underlying().(*types.Pointer).Elem()
		return TupleV{PtrV{O: it.newObj(it.zero(pt), "drbg")}, IfaceV{}}
	})
	Register("(*"+drbgPkg+".Drbg).Read", func(it *Interp, fn *ssa.Function, a []Value) Value {
		buf := a[1].(SliceV)
		arr := buf.O.V.(*ArrayV).E
		stream, has := it.M.extra["drbg.stream"].([]*smt.Term)
		if has && buf.Len == 8 {
			pos := it.M.extra["drbg.pos"].(int)
			if pos >= len(stream) {
				it.abort("DRBG stream exhausted after %d draws", pos)
			}
			it.M.extra["drbg.pos"] = pos + 1
			v := stream[pos]
			for i := 0; i < 8; i++ {
				arr[buf.Off+i] = it.C.Extract(v, 63-8*i, 56-8*i)
			}
			return TupleV{it.C.BVI(8, 64), IfaceV{}}
		}
		for i := 0; i < buf.Len; i++ {
			arr[buf.Off+i] = it.nondet("drbg", "u8", smt.BV(8))
		}
		return TupleV{it.C.BVI(int64(buf.Len), 64), IfaceV{}}
	})
}
