package sym

import (
	"crypto/sha256"
	"fmt"

	"golang.org/x/crypto/sha3"
	"golang.org/x/tools/go/ssa"

	"symgo/smt"
)

// Hash functions: evaluated natively on concrete input, otherwise an uninterpreted function of the
// concatenated input bytes (one UF per input length) with values in [0, 2^256). No collision-resistance
// axiom is assumed beyond functional congruence (equal inputs give equal digests).

func (it *Interp) hash256(name string, native func([]byte) []byte, bs []*smt.Term) []*smt.Term {
	c := it.C
	if allConst(bs) {
		return it.concBytes(native(constBytes(bs)))
	}
	// structured argument list: 32-byte big-endian encodings of an Int are passed as that Int, constant runs
	// are folded into the function name, the rest as bit-vectors. The layout is part of the function name.
	var args []*smt.Term
	layout := ""
	i := 0
	for i < len(bs) {
		if src, ok := it.M.intBytes[bs[i]]; ok && i+len(src.bytes) <= len(bs) {
			same := true
			for k := range src.bytes {
				if src.bytes[k] != bs[i+k] {
					same = false
					break
				}
			}
			if same {
				args = append(args, src.x)
				layout += fmt.Sprintf("I%d,", len(src.bytes))
				i += len(src.bytes)
				continue
			}
		}
		if bs[i].IsConst() {
			j := i
			for j < len(bs) && bs[j].IsConst() {
				j++
			}
			layout += fmt.Sprintf("K%x,", constBytes(bs[i:j]))
			i = j
			continue
		}
		// a run of other symbolic bytes (stop at constants and at Int chunks)
		j := i
		var run *smt.Term
		for j < len(bs) && !bs[j].IsConst() {
			if _, ok := it.M.intBytes[bs[j]]; ok && j > i {
				break
			}
			if run == nil {
				run = bs[j]
			} else {
				run = c.Concat(run, bs[j])
			}
			j++
			if _, ok := it.M.intBytes[bs[i]]; ok {
				// partial chunk: keep going byte by byte
			}
		}
		args = append(args, run)
		layout += fmt.Sprintf("B%d,", j-i)
		i = j
	}
	sum := sha256.Sum256([]byte(layout))
	h := c.App(fmt.Sprintf("%s!%d!%x", name, len(bs), sum[:6]), smt.Int, args...)
	it.addPC(c.And(c.Le(c.IntI(0), h), c.Lt(h, it.pow2(256))))
	it.markNonNeg(h)
	it.markLt256(h)
	if ok, _ := it.M.extra["hash.scalars"].(bool); ok {
		// harness assumption: digests are valid scalars (excludes a 2^-128 fraction of outputs)
		it.addPC(c.And(c.Le(c.IntI(1), h), c.Lt(h, it.secpN())))
		it.markReduced(h)
	}
	if hashAppHook != nil {
		hashAppHook(it, name, bs, h) // models_hashcr.go (opt-in collision-freeness)
	}
	return it.intToBytes(h, 32)
}

func keccakNative(b []byte) []byte {
	h := sha3.NewLegacyKeccak256()
	h.Write(b)
	return h.Sum(nil)
}

func sha256Native(b []byte) []byte {
	s := sha256.Sum256(b)
	return s[:]
}

// LazyBytesV is the result of (*big.Int).Bytes() on a symbolic value: minimal big-endian bytes whose length
// depends on the value. It is resolved by its consumer (PaddingBytes, SetBytes) or forced by forking.
type LazyBytesV struct{ X *smt.Term }

// forceLazy turns a LazyBytesV into a concrete-length slice by forking over the byte length.
func (it *Interp) forceLazy(v Value) Value {
	if l, ok := v.(LazyBytesV); ok {
		return it.bigBytesSymbolic(l.X)
	}
	return v
}

func init() {
	R := Register
	R("github.com/ethereum/go-ethereum/crypto.Keccak256", func(it *Interp, _ *ssa.Function, a []Value) Value {
		var bs []*smt.Term
		for _, part := range sliceElems(a[0].(SliceV)) {
			bs = append(bs, it.bytesOfAny(it.forceLazy(part))...)
		}
		return it.mkByteSlice(it.hash256("keccak", keccakNative, bs))
	})
	R("crypto/sha256.Sum256", func(it *Interp, _ *ssa.Function, a []Value) Value {
		bs := it.hash256("sha256", sha256Native, it.bytesOfAny(a[0]))
		arr := &ArrayV{E: make([]Value, 32)}
		for i, b := range bs {
			arr.E[i] = b
		}
		return arr
	})
	R("github.com/cometbft/cometbft/crypto/tmhash.Sum", func(it *Interp, _ *ssa.Function, a []Value) Value {
		return it.mkByteSlice(it.hash256("sha256", sha256Native, it.bytesOfAny(a[0])))
	})
	// pkg/tss.PaddingBytes: resolves lazily-sized big.Int bytes without forking; otherwise the real code runs.
	R(ModPath+"/pkg/tss.PaddingBytes", func(it *Interp, fn *ssa.Function, a []Value) Value {
		if l, ok := a[0].(LazyBytesV); ok {
			n := it.concreteInt(a[1].(*smt.Term), "PaddingBytes length")
			c := it.C
			if (n >= 32 && it.isLt256(l.X)) || it.Branch(c.Lt(l.X, it.pow2(8*n))) {
				return it.mkByteSlice(it.intToBytes(l.X, n))
			}
			return it.bigBytesSymbolic(l.X)
		}
		return it.callSSA(fn, a, nil)
	})
}
