package sym

import (
	"golang.org/x/tools/go/ssa"

	"symgo/smt"
)

// vsupport.Fix(x, k): assume x == k (k concrete) AND remember it, so that every later computation that yields the
// very same term (the term DAG is hash-consed; division witnesses are cached per dividend) continues with the
// constant k instead. This is equality propagation of an assumed fact, done syntactically: it lets the term
// simplifier fold what follows (e.g. interval * (hash % 30 + 50) becomes a multiplication by a constant), which the
// solver cannot recover by itself from a bit-blasted divider.
func (it *Interp) fixedTerm(v Value) Value {
	tbl, _ := it.M.extra["fixed.terms"].(map[*smt.Term]*smt.Term)
	if tbl == nil {
		return v
	}
	if t, ok := v.(*smt.Term); ok {
		if k, ok := tbl[t]; ok {
			return k
		}
	}
	return v
}

func init() {
	Register(VS+"Fix", func(it *Interp, _ *ssa.Function, a []Value) Value {
		x, k := a[0].(*smt.Term), a[1].(*smt.Term)
		if !k.IsConst() {
			it.abort("vsupport.Fix needs a concrete value")
		}
		it.Assume(it.C.Eq(x, k))
		if !x.IsConst() {
			tbl, _ := it.M.extra["fixed.terms"].(map[*smt.Term]*smt.Term)
			if tbl == nil {
				tbl = map[*smt.Term]*smt.Term{}
				it.M.extra["fixed.terms"] = tbl
			}
			tbl[x] = k
		}
		return nil
	})
}
