package sym

import (
	"go/token"
	"go/types"
)

// Channel semantics of the sequentialised goroutine model (extends calls.go execGo/runPendingGoroutines).
//
// A `go f()` statement queues f. A goroutine runs when the running one blocks on a receive from an empty
// channel (or WaitGroup.Wait, or the harness ends); it then runs until it returns, blocking in turn (nested)
// when it receives from an empty channel itself. A blocked receiver resumes as soon as its channel holds a
// value: queued goroutines are started ONE AT A TIME, and with AllowGoroutines(true) the choice of the next
// one forks over all candidates, so every completion order of the queued goroutines is explored.
//
// Sends respect the capacity: a send succeeds when the buffer has room, or, on an unbuffered channel, when a
// receiver is blocked on that channel (rendezvous). A send that would block its goroutine cannot be suspended
// in this model and ends the path as INCONCLUSIVE (never silently accepted). A receive on an empty channel when
// no goroutine is left to run is a deadlock and is reported like an escaping panic.

type chanState struct {
	recvWait map[*ChanObj]int
}

func (it *Interp) chanSt() *chanState {
	s, ok := it.M.extra["chan.state"].(*chanState)
	if !ok {
		s = &chanState{recvWait: map[*ChanObj]int{}}
		it.M.extra["chan.state"] = s
	}
	return s
}

// runOneGoroutine starts one queued goroutine (forked choice under all-orders) and runs it to completion.
func (it *Interp) runOneGoroutine() {
	k := 0
	if it.M.goAllOrders && len(it.M.goQueue) > 1 {
		k = it.choose(len(it.M.goQueue))
	}
	d := it.M.goQueue[k]
	it.M.goQueue = append(it.M.goQueue[:k:k], it.M.goQueue[k+1:]...)
	if d.builtin != nil {
		it.callBuiltin(d.builtin, d.args, nil)
	} else {
		it.callValue(d.fn, d.args, token.NoPos)
	}
}

func (it *Interp) chanSendModel(ch Value, v Value) {
	c, ok := ch.(*ChanObj)
	if !ok {
		it.abort("send on %T", ch)
	}
	if c == nil {
		it.abort("send on nil channel blocks forever")
	}
	if it.chanClosedSet()[c] {
		it.goPanicStr("send-closed-chan", "send on closed channel")
	}
	room := len(c.Buf) < c.Cap
	rendezvous := c.Cap == 0 && len(c.Buf) == 0 && it.chanSt().recvWait[c] > 0
	if !room && !rendezvous {
		it.abort("send on a full channel (cap %d, %d buffered, no blocked receiver) would block the sender: not modelled", c.Cap, len(c.Buf))
	}
	c.Buf = append(c.Buf, deepCopy(v))
}

func (it *Interp) chanRecvModel(ch Value, commaOk bool, chanType types.Type) Value {
	c, ok := ch.(*ChanObj)
	if !ok {
		it.abort("receive on %T", ch)
	}
	if c == nil {
		it.abort("receive on nil channel blocks forever")
	}
	if len(c.Buf) == 0 && !it.chanClosedSet()[c] {
		st := it.chanSt()
		st.recvWait[c]++
		for len(c.Buf) == 0 && len(it.M.goQueue) > 0 && !it.chanClosedSet()[c] {
			it.runOneGoroutine()
		}
		st.recvWait[c]--
	}
	if len(c.Buf) == 0 && chanType != nil {
		// closed and drained: (zero value, false)
		if r, ok := it.chanRecvClosed(c, commaOk, chanType); ok {
			return r
		}
	}
	if len(c.Buf) == 0 {
		// nobody can ever send: every other goroutine has finished or is blocked below this one. If a receiver
		// further down the (nested) stack could meanwhile proceed, the stack discipline of this model, not the
		// program, is stuck: inconclusive. Otherwise the program deadlocks here.
		for oc, n := range it.chanSt().recvWait {
			if n > 0 && oc != c && len(oc.Buf) > 0 {
				it.abort("receive on empty channel: blocked behind a suspended receiver that could proceed (not modelled)")
			}
		}
		it.goPanicStr("deadlock", "all goroutines are asleep - deadlock (receive on an empty channel, no goroutine left to send)")
	}
	v := c.Buf[0]
	c.Buf = c.Buf[1:]
	if commaOk {
		return TupleV{v, it.C.True}
	}
	return v
}

