package sym

import (
	"math/big"
	"sort"
	"strconv"
	"strings"

	"symgo/smt"
)

// Polynomial normal form over Z_n (n = secp256k1 group order) for scalar / discrete-log expressions.
// Atoms are Int terms known to lie in [0,n). Keeping scalars canonical makes the algebraic identities of
// Schnorr/FROST/DKG syntactic (identical terms), so the solver only sees the genuinely data-dependent
// questions.

type mono struct {
	key   string // canonical "id^e*id^e"
	atoms []*smt.Term
	exps  []int
}

type Poly struct {
	terms map[string]*big.Int // monomial key -> coefficient in [1,n)
	monos map[string]*mono
}

func newPoly() *Poly { return &Poly{terms: map[string]*big.Int{}, monos: map[string]*mono{}} }

var unitMono = &mono{key: ""}

func polyConst(v *big.Int) *Poly {
	p := newPoly()
	c := new(big.Int).Mod(v, secpN)
	if c.Sign() != 0 {
		p.terms[""] = c
		p.monos[""] = unitMono
	}
	return p
}

func polyAtom(a *smt.Term) *Poly {
	p := newPoly()
	m := &mono{key: strconv.Itoa(a.ID) + "^1", atoms: []*smt.Term{a}, exps: []int{1}}
	p.terms[m.key] = big.NewInt(1)
	p.monos[m.key] = m
	return p
}

func (p *Poly) addTerm(m *mono, c *big.Int) {
	if c.Sign() == 0 {
		return
	}
	if old, ok := p.terms[m.key]; ok {
		s := new(big.Int).Add(old, c)
		s.Mod(s, secpN)
		if s.Sign() == 0 {
			delete(p.terms, m.key)
			delete(p.monos, m.key)
		} else {
			p.terms[m.key] = s
		}
		return
	}
	p.terms[m.key] = new(big.Int).Mod(c, secpN)
	p.monos[m.key] = m
}

func polyAdd(a, b *Poly) *Poly {
	r := newPoly()
	for k, c := range a.terms {
		r.addTerm(a.monos[k], c)
	}
	for k, c := range b.terms {
		r.addTerm(b.monos[k], c)
	}
	return r
}

func polyNeg(a *Poly) *Poly {
	r := newPoly()
	for k, c := range a.terms {
		r.addTerm(a.monos[k], new(big.Int).Sub(secpN, c))
	}
	return r
}

func monoMul(a, b *mono) *mono {
	if a.key == "" {
		return b
	}
	if b.key == "" {
		return a
	}
	type ae struct {
		t *smt.Term
		e int
	}
	m := map[int]*ae{}
	for i, t := range a.atoms {
		m[t.ID] = &ae{t, a.exps[i]}
	}
	for i, t := range b.atoms {
		if x, ok := m[t.ID]; ok {
			x.e += b.exps[i]
		} else {
			m[t.ID] = &ae{t, b.exps[i]}
		}
	}
	ids := make([]int, 0, len(m))
	for id := range m {
		ids = append(ids, id)
	}
	sort.Ints(ids)
	r := &mono{}
	var sb strings.Builder
	for i, id := range ids {
		if i > 0 {
			sb.WriteByte('*')
		}
		sb.WriteString(strconv.Itoa(id))
		sb.WriteByte('^')
		sb.WriteString(strconv.Itoa(m[id].e))
		r.atoms = append(r.atoms, m[id].t)
		r.exps = append(r.exps, m[id].e)
	}
	r.key = sb.String()
	return r
}

func polyMul(a, b *Poly) *Poly {
	r := newPoly()
	for ka, ca := range a.terms {
		for kb, cb := range b.terms {
			c := new(big.Int).Mul(ca, cb)
			c.Mod(c, secpN)
			r.addTerm(monoMul(a.monos[ka], b.monos[kb]), c)
		}
	}
	return r
}

func (p *Poly) isConst() (*big.Int, bool) {
	switch len(p.terms) {
	case 0:
		return big.NewInt(0), true
	case 1:
		if c, ok := p.terms[""]; ok {
			return c, true
		}
	}
	return nil, false
}

// polyOf returns the polynomial of a canonical scalar term (unknown terms are atoms).
func (it *Interp) polyOf(t *smt.Term) *Poly {
	if t.IsConst() {
		return polyConst(t.Val)
	}
	if pm, ok := it.M.extra["polys"].(map[*smt.Term]*Poly); ok {
		if p, ok := pm[t]; ok {
			return p
		}
	}
	return polyAtom(t)
}

// polyTerm returns the canonical Int term (in [0,n)) of p and remembers the association.
func (it *Interp) polyTerm(p *Poly) *smt.Term {
	c := it.C
	if v, ok := p.isConst(); ok {
		return c.IntConst(v)
	}
	keys := make([]string, 0, len(p.terms))
	for k := range p.terms {
		keys = append(keys, k)
	}
	sort.Strings(keys)
	// a single atom with coefficient 1 is its own canonical form
	if len(keys) == 1 {
		m := p.monos[keys[0]]
		if len(m.atoms) == 1 && m.exps[0] == 1 && p.terms[keys[0]].Cmp(big.NewInt(1)) == 0 {
			return m.atoms[0]
		}
	}
	var sum *smt.Term
	for _, k := range keys {
		m := p.monos[k]
		var prod *smt.Term
		for i, a := range m.atoms {
			for e := 0; e < m.exps[i]; e++ {
				if prod == nil {
					prod = a
				} else {
					prod = c.Mul(prod, a)
				}
			}
		}
		coef := c.IntConst(p.terms[k])
		var t *smt.Term
		if prod == nil {
			t = coef
		} else if p.terms[k].Cmp(big.NewInt(1)) == 0 {
			t = prod
		} else {
			t = c.Mul(prod, coef)
		}
		if sum == nil {
			sum = t
		} else {
			sum = c.Add(sum, t)
		}
	}
	r := c.Mod(sum, c.IntConst(secpN))
	pm, ok := it.M.extra["polys"].(map[*smt.Term]*Poly)
	if !ok {
		pm = map[*smt.Term]*Poly{}
		it.M.extra["polys"] = pm
	}
	pm[r] = p
	return r
}

func (it *Interp) scAdd(a, b *smt.Term) *smt.Term {
	return it.polyTerm(polyAdd(it.polyOf(a), it.polyOf(b)))
}
func (it *Interp) scMul(a, b *smt.Term) *smt.Term {
	return it.polyTerm(polyMul(it.polyOf(a), it.polyOf(b)))
}
func (it *Interp) scNeg(a *smt.Term) *smt.Term { return it.polyTerm(polyNeg(it.polyOf(a))) }

// scEq: equality of two canonical scalars; constant-folds when the difference is a constant.
func (it *Interp) scEq(a, b *smt.Term) *smt.Term {
	if a == b {
		return it.C.True
	}
	d := polyAdd(it.polyOf(a), polyNeg(it.polyOf(b)))
	if v, ok := d.isConst(); ok {
		return it.C.BoolConst(v.Sign() == 0)
	}
	return it.polyIsZero(d)
}

// polyIsZero: p == 0 (mod n). n is prime, so Z_n is a field: with p = c * g * q (c a non-zero constant, g the
// common monomial factor of all terms, q made monic in its first monomial), p vanishes iff an atom of g does or
// q does. Normalising this way makes the zero tests of k, -2k, c*lambda*k ... share one canonical atom "q = 0".
func (it *Interp) polyIsZero(d *Poly) *smt.Term {
	c := it.C
	if v, ok := d.isConst(); ok {
		return c.BoolConst(v.Sign() == 0)
	}
	// common monomial factor
	type ae struct {
		t *smt.Term
		e int
	}
	var common map[int]*ae
	for k := range d.terms {
		m := d.monos[k]
		cur := map[int]*ae{}
		for i, t := range m.atoms {
			cur[t.ID] = &ae{t, m.exps[i]}
		}
		if common == nil {
			common = cur
			continue
		}
		for id, x := range common {
			if y, ok := cur[id]; !ok {
				delete(common, id)
			} else if y.e < x.e {
				x.e = y.e
			}
		}
	}
	r := c.False
	ids := make([]int, 0, len(common))
	for id := range common {
		ids = append(ids, id)
	}
	sort.Ints(ids)
	for _, id := range ids {
		r = c.Or(r, c.Eq(common[id].t, c.IntI(0)))
	}
	// quotient by the common factor
	q := newPoly()
	for k, coef := range d.terms {
		m := d.monos[k]
		rm := unitMono
		for i, t := range m.atoms {
			e := m.exps[i]
			if x, ok := common[t.ID]; ok {
				e -= x.e
			}
			if e > 0 {
				rm = monoMul(rm, &mono{key: strconv.Itoa(t.ID) + "^" + strconv.Itoa(e), atoms: []*smt.Term{t}, exps: []int{e}})
			}
		}
		q.addTerm(rm, coef)
	}
	if _, ok := q.isConst(); ok {
		return r // a single monomial (times a non-zero constant): zero iff one of its atoms is
	}
	// make q monic in its first monomial (sorted keys)
	keys := make([]string, 0, len(q.terms))
	for k := range q.terms {
		keys = append(keys, k)
	}
	sort.Strings(keys)
	lead := keys[0]
	if lead == "" && len(keys) > 1 {
		lead = keys[1]
	}
	inv := new(big.Int).ModInverse(q.terms[lead], secpN)
	scaled := inv != nil && inv.Cmp(big.NewInt(1)) != 0
	if scaled {
		q = polyMul(q, polyConst(inv))
	}
	// The raw test "canonical(d) = 0" stays the returned atom (other constraints mention the same canonical
	// term syntactically); the factorised form is added once as a lemma, which is what lets the solver connect
	// the zero tests of k, -2k, c*lambda*k ... without non-linear reasoning modulo n.
	raw := c.Eq(it.polyTerm(d), c.IntI(0))
	if len(ids) == 0 && !scaled {
		// nothing to factor out: exact special shapes ((u-v), (u-v)*P: poly_factor.go), else the raw test
		if sp := it.polyIsZeroFactored(d); sp != nil {
			return sp
		}
		return raw
	}
	done, _ := it.M.extra["poly.zero.lemmas"].(map[*smt.Term]bool)
	if done == nil {
		done = map[*smt.Term]bool{}
		it.M.extra["poly.zero.lemmas"] = done
	}
	if !done[raw] {
		done[raw] = true
		it.addPC(c.Eq(raw, c.Or(r, it.polyIsZero(q)))) // q: no common factor, monic (the recursion stops there)
	}
	return raw
}

func (it *Interp) scIsZero(t *smt.Term) *smt.Term { return it.polyIsZero(it.polyOf(t)) }

// markReduced records that t is known to lie in [0,n).
func (it *Interp) markReduced(t *smt.Term) {
	m, ok := it.M.extra["reduced"].(map[*smt.Term]bool)
	if !ok {
		m = map[*smt.Term]bool{}
		it.M.extra["reduced"] = m
	}
	m[t] = true
}

func (it *Interp) isReduced(t *smt.Term) bool {
	if t.IsConst() {
		return t.Val.Sign() >= 0 && t.Val.Cmp(secpN) < 0
	}
	if m, ok := it.M.extra["reduced"].(map[*smt.Term]bool); ok && m[t] {
		return true
	}
	if pm, ok := it.M.extra["polys"].(map[*smt.Term]*Poly); ok {
		if _, ok := pm[t]; ok {
			return true
		}
	}
	return false
}

// markNonNeg / isNonNeg: terms known to be >= 0 (UF values with a range axiom).
func (it *Interp) markNonNeg(t *smt.Term) {
	m, ok := it.M.extra["nonneg"].(map[*smt.Term]bool)
	if !ok {
		m = map[*smt.Term]bool{}
		it.M.extra["nonneg"] = m
	}
	m[t] = true
}

func (it *Interp) isNonNeg(t *smt.Term) bool {
	if t.IsConst() {
		return t.Val.Sign() >= 0
	}
	if it.isReduced(t) {
		return true
	}
	m, ok := it.M.extra["nonneg"].(map[*smt.Term]bool)
	return ok && m[t]
}

func (it *Interp) markLt256(t *smt.Term) {
	m, ok := it.M.extra["lt256"].(map[*smt.Term]bool)
	if !ok {
		m = map[*smt.Term]bool{}
		it.M.extra["lt256"] = m
	}
	m[t] = true
}

func (it *Interp) isLt256(t *smt.Term) bool {
	if t.IsConst() {
		return t.Val.BitLen() <= 256
	}
	if it.isReduced(t) {
		return true
	}
	m, ok := it.M.extra["lt256"].(map[*smt.Term]bool)
	return ok && m[t]
}

// absT: |t| without the ite when t is known to be non-negative.
func (it *Interp) absT(t *smt.Term) *smt.Term {
	if it.isNonNeg(t) {
		return t
	}
	return it.C.Abs(t)
}
