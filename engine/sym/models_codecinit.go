package sym

import "golang.org/x/tools/go/ssa"

// Package-level codecs created at init time (x/oracle/types.ModuleCdc and friends): the interface
// registry is built with reflection over the global proto registry, which the engine does not run.
// The registry is only used for JSON/Any packing, never by keeper code paths under check, so it is opaque.
func init() {
	Register("github.com/cosmos/cosmos-sdk/codec/types.NewInterfaceRegistry", func(it *Interp, fn *ssa.Function, a []Value) Value {
		return IfaceV{T: tyOpaque, V: OpaqueV{Why: "interface registry"}}
	})
}
