package sym

import (
	"fmt"
	"math/big"

	"golang.org/x/tools/go/ssa"

	"symgo/smt"
)

// Abstraction of symbolic*symbolic integer multiplication (tier param "abstract_mul": 1), in the style of
// abstractURem. x*y with both factors symbolic is replaced by a fresh integer p (one per unordered pair of
// factor terms on the path) constrained only by facts that hold for the real product:
//
//	x=0 or y=0 => p=0;  x=1 => p=y;  y=1 => p=x;  sign rules;  x>=1 and y>=1 => p>=x and p>=y;
//	0<=x and 0<=y<=M => p<=x*M for M in {2^32-1, 2^64-1} (and symmetrically).
//
// This over-approximates multiplication, so every obligation proved under it holds for the real product
// (the code under test and the reference meet in the same p when they multiply the same two terms). A
// counterexample, a Reach witness and the feasibility of a panicking path are decided again with the exact
// definition p = x*y (Path.Exact) before anything is reported. It keeps the fee queries linear:
// fee * ask_count and fee_per_signer * threshold are the only products on these paths.
//
// This file sorts after models_big.go, so the registration below replaces the plain (*big.Int).Mul model; with
// the parameter absent the behaviour is unchanged.
func (it *Interp) abstractMul(x, y *smt.Term) *smt.Term {
	c := it.C
	if x.ID > y.ID {
		x, y = y, x
	}
	memo, _ := it.M.extra["absmul.memo"].(map[[2]int]*smt.Term)
	if memo == nil {
		memo = map[[2]int]*smt.Term{}
		it.M.extra["absmul.memo"] = memo
	}
	key := [2]int{x.ID, y.ID}
	if p, ok := memo[key]; ok {
		return p
	}
	p := c.Var(fmt.Sprintf("mul!%d!%d", x.ID, y.ID), smt.Int)
	memo[key] = p
	zero, one := c.IntI(0), c.IntI(1)
	it.addPC(c.Implies(c.Or(c.Eq(x, zero), c.Eq(y, zero)), c.Eq(p, zero)))
	it.addPC(c.Implies(c.Eq(x, one), c.Eq(p, y)))
	it.addPC(c.Implies(c.Eq(y, one), c.Eq(p, x)))
	xPos, yPos := c.Ge(x, zero), c.Ge(y, zero)
	xNeg, yNeg := c.Le(x, zero), c.Le(y, zero)
	it.addPC(c.Implies(c.Or(c.And(xPos, yPos), c.And(xNeg, yNeg)), c.Ge(p, zero)))
	it.addPC(c.Implies(c.Or(c.And(xPos, yNeg), c.And(xNeg, yPos)), c.Le(p, zero)))
	it.addPC(c.Implies(c.And(c.Ge(x, one), c.Ge(y, one)), c.And(c.Ge(p, x), c.Ge(p, y))))
	// linear upper bounds for the usual machine-sized factors (keeps 256-bit overflow checks decidable)
	for _, bits := range []uint{32, 64} {
		m := new(big.Int).Sub(new(big.Int).Lsh(big.NewInt(1), bits), big.NewInt(1))
		mc := c.IntConst(m)
		it.addPC(c.Implies(c.And(xPos, c.And(yPos, c.Le(y, mc))), c.Le(p, c.Mul(x, mc))))
		it.addPC(c.Implies(c.And(yPos, c.And(xPos, c.Le(x, mc))), c.Le(p, c.Mul(y, mc))))
	}
	it.P.Exact = append(it.P.Exact, c.Eq(p, c.Mul(x, y)))
	return p
}

func init() {
	Register("(*math/big.Int).Mul", func(it *Interp, _ *ssa.Function, a []Value) Value {
		x, y := it.bigGet(a[1]), it.bigGet(a[2])
		if it.hcfg != nil && it.hcfg.cur.Params["abstract_mul"] != 0 && !x.IsConst() && !y.IsConst() {
			return it.bigSet(a[0], it.abstractMul(x, y))
		}
		return it.bigSet(a[0], it.C.Mul(x, y))
	})
}
