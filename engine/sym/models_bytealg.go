package sym

import (
	"golang.org/x/tools/go/ssa"

	"symgo/smt"
)

// internal/bytealg.MakeNoZero (linkname into the runtime, used by bytes.Join / bytes.Repeat): a fresh byte
// slice of the given concrete length. The model zeroes it, which refines "uninitialised".
func init() {
	Register("internal/bytealg.MakeNoZero", func(it *Interp, _ *ssa.Function, a []Value) Value {
		n, ok := a[0].(*smt.Term)
		if !ok || !n.IsConst() {
			it.abort("bytealg.MakeNoZero with symbolic length")
		}
		return it.mkByteSlice(it.concBytes(make([]byte, int(n.Uint64()))))
	})
}
