package sym

import (
	"golang.org/x/tools/go/ssa"

	"symgo/smt"
)

// internal/bytealg.MakeNoZero (runtime-provided, no body): a byte slice of the given length whose content
// the caller overwrites (bytes.Join, strings.Builder). Modelled as a zero-filled slice with cap == len.
func init() {
	Register("internal/bytealg.MakeNoZero", func(it *Interp, _ *ssa.Function, a []Value) Value {
		n := it.concreteInt(a[0].(*smt.Term), "MakeNoZero length")
		if n < 0 {
			it.goPanicStr("runtime", "makeslice: len out of range")
		}
		bs := make([]*smt.Term, n)
		for i := range bs {
			bs[i] = it.C.BVU(0, 8)
		}
		return it.mkByteSlice(bs)
	})
}
