package sym

import (
	"golang.org/x/tools/go/ssa"

	"symgo/smt"
)

// encoding/hex.EncodeToString, exact and branch-free: the real code indexes a 16-entry table with each nibble,
// which forks 16 ways per nibble on symbolic bytes (event attributes hex-encode signatures, nonces and keys).
func init() {
	Register("encoding/hex.EncodeToString", func(it *Interp, fn *ssa.Function, a []Value) Value {
		src, _ := a[0].(SliceV)
		if src.O == nil || src.Len == 0 {
			return StrV{}
		}
		c := it.C
		bs := it.bytesOf(src)
		out := make([]*smt.Term, 0, 2*len(bs))
		digit := func(n *smt.Term) *smt.Term { // n: 8-bit value < 16
			return c.Ite(c.BVUlt(n, c.BVU(10, 8)), c.BVAdd(n, c.BVU('0', 8)), c.BVAdd(n, c.BVU('a'-10, 8)))
		}
		for _, b := range bs {
			out = append(out, digit(c.Zext(c.Extract(b, 7, 4), 8)), digit(c.Zext(c.Extract(b, 3, 0), 8)))
		}
		return it.mkStr(out)
	})
}
