package sym

import (
	"fmt"
	"go/types"
	"sort"
	"strconv"
	"strings"

	"golang.org/x/tools/go/ssa"

	"symgo/smt"
)

// ModelState is the per-path state of the environment models and harness flags.
type ModelState struct {
	subObjs      map[string]*Obj
	intBytes     map[*smt.Term]*intBytesSrc
	maxBigBytes  int
	allowGo      bool
	goAllOrders  bool
	goQueue      []*deferred
	expectPanic  bool
	knownCond    *smt.Term
	knownID      string
	knownPanicID string
	onceDone     map[string]bool
	stores       *storeState
	extra        map[string]interface{}
}

func newModelState(it *Interp) *ModelState {
	return &ModelState{onceDone: map[string]bool{}, extra: map[string]interface{}{}}
}

// hooks for model-specific value kinds (extended by other models_*.go files through these tables)
var zeroHooks []func(it *Interp, t types.Type) (Value, bool)
var eqHooks []func(it *Interp, a, b Value) (*smt.Term, bool)
var invokeHooks []func(it *Interp, iv IfaceV, m *types.Func, args []Value) (Value, bool)

func (it *Interp) modelZero(t types.Type) (Value, bool) {
	for _, h := range zeroHooks {
		if v, ok := h(it, t); ok {
			return v, true
		}
	}
	return nil, false
}

func (it *Interp) modelEq(a, b Value) (*smt.Term, bool) {
	for _, h := range eqHooks {
		if v, ok := h(it, a, b); ok {
			return v, true
		}
	}
	return nil, false
}

func (it *Interp) modelIsNil(v Value) (*smt.Term, bool) { return nil, false }
func (it *Interp) modelLoad(v Value) (Value, bool)      { return nil, false }
func (it *Interp) modelLen(v Value) (Value, bool)       { return nil, false }

func (it *Interp) modelInvoke(iv IfaceV, m *types.Func, args []Value) (Value, bool) {
	for _, h := range invokeHooks {
		if v, ok := h(it, iv, m, args); ok {
			return v, true
		}
	}
	return nil, false
}

// errorText tries to produce the concrete text of an error value (for panic messages).
func (it *Interp) errorText(iv IfaceV) string {
	if iv.T == nil {
		return "<nil>"
	}
	defer func() { recover() }()
	fn := it.L.Prog.LookupMethod(iv.T, nil, "Error")
	if fn == nil {
		return ""
	}
	saveStack := it.stack
	var out string
	func() {
		defer func() {
			if r := recover(); r != nil {
				it.stack = saveStack
			}
		}()
		r := it.callFn(fn, []Value{iv.V}, nil, 0)
		if s, ok := r.(StrV); ok && s.Concrete() {
			out = s.S
		}
	}()
	return out
}

// patternIntrinsic returns intrinsics selected by package rather than by exact name.
func (L *Loaded) patternIntrinsic(fn *ssa.Function) *Intrinsic {
	p := fn.Package()
	var path string
	if p != nil {
		path = p.Pkg.Path()
	} else if fn.Signature.Recv() != nil {
		// method of a type from another package without ssa package (should not happen)
		return nil
	}
	if ignoredPkgs[path] {
		return &Intrinsic{Name: "ignored:" + fn.String(), Fn: func(it *Interp, f *ssa.Function, a []Value) Value {
			return it.opaqueResult(f.Signature, "ignored call "+f.String())
		}}
	}
	if !strings.HasPrefix(path, ModPath) && path != "cosmossdk.io/errors" && strings.HasPrefix(fn.Name(), "Register") {
		return &Intrinsic{Name: "ignored:" + fn.String(), Fn: func(it *Interp, f *ssa.Function, a []Value) Value {
			return it.opaqueResult(f.Signature, "ignored registration "+f.String())
		}}
	}
	if path == "fmt" {
		name := fn.Name()
		switch name {
		case "Errorf":
			return &Intrinsic{Name: "fmt.Errorf", Fn: func(it *Interp, f *ssa.Function, a []Value) Value {
				return it.opaqueError("fmt.Errorf")
			}}
		case "Sprintf", "Sprint", "Sprintln":
			return &Intrinsic{Name: "fmt." + name, Fn: func(it *Interp, f *ssa.Function, a []Value) Value {
				if s, ok := it.concreteSprintf(name, a); ok {
					return StrV{S: s}
				}
				return OpaqueV{Why: "fmt." + name}
			}}
		}
		return &Intrinsic{Name: "ignored:" + fn.String(), Fn: func(it *Interp, f *ssa.Function, a []Value) Value {
			return it.opaqueResult(f.Signature, "ignored call "+f.String())
		}}
	}
	return nil
}

// concreteSprintf evaluates Sprintf natively when the format and all operands are concrete scalars/strings.
func (it *Interp) concreteSprintf(name string, a []Value) (string, bool) {
	var format string
	var rest Value
	if name == "Sprintf" {
		f, ok := a[0].(StrV)
		if !ok || !f.Concrete() {
			return "", false
		}
		format = f.S
		rest = a[1]
	} else {
		rest = a[0]
	}
	sl, ok := rest.(SliceV)
	if !ok {
		return "", false
	}
	var args []interface{}
	for _, e := range sliceElems(sl) {
		iv, ok := e.(IfaceV)
		if !ok {
			return "", false
		}
		if iv.T == nil {
			args = append(args, nil)
			continue
		}
		switch x := iv.V.(type) {
		case *smt.Term:
			if !x.IsConst() {
				return "", false
			}
			if x.Sort.K == smt.KBool {
				args = append(args, x.IsTrue())
				continue
			}
			_, signed, ok := intWidth(iv.T)
			if !ok {
				return "", false
			}
			if _, isBasic := iv.T.(*types.Basic); !isBasic {
				return "", false // named types may have String methods
			}
			if signed {
				args = append(args, x.SignedVal().Int64())
			} else {
				args = append(args, x.Val.Uint64())
			}
		case StrV:
			if !x.Concrete() {
				return "", false
			}
			if _, isBasic := iv.T.(*types.Basic); !isBasic {
				return "", false
			}
			args = append(args, x.S)
		default:
			return "", false
		}
	}
	switch name {
	case "Sprintf":
		return fmt.Sprintf(format, args...), true
	case "Sprint":
		return fmt.Sprint(args...), true
	}
	return fmt.Sprintln(args...), true
}

// opaqueError returns a non-nil error whose text is unknown.
func (it *Interp) opaqueError(why string) Value {
	ep := it.L.Package("errors")
	if ep == nil {
		it.abort("package errors not loaded")
	}
	t := ep.Type("errorString")
	if t == nil {
		it.abort("errors.errorString not found")
	}
	o := it.newObj(&StructV{F: []Value{StrV{S: "opaque error (" + why + ")"}}}, "error")
	return IfaceV{T: types.NewPointer(t.Type()), V: PtrV{O: o}}
}

func concStr(it *Interp, v Value, what string) string {
	s, ok := v.(StrV)
	if !ok || !s.Concrete() {
		it.abort("%s needs a concrete string", what)
	}
	return s.S
}

func (it *Interp) strSliceValue(ss []string) Value {
	arr := &ArrayV{E: make([]Value, len(ss))}
	for i, s := range ss {
		arr.E[i] = StrV{S: s}
	}
	return SliceV{O: it.newObj(arr, "strs"), Len: len(ss), Cap: len(ss)}
}

func init() {
	R := Register
	nop := func(it *Interp, f *ssa.Function, a []Value) Value { return nil }
	// ---- bytes / strings
	R("internal/bytealg.Compare", func(it *Interp, _ *ssa.Function, a []Value) Value {
		return it.bytesCompare(it.bytesOfAny(a[0]), it.bytesOfAny(a[1]))
	})
	R("bytes.Compare", func(it *Interp, _ *ssa.Function, a []Value) Value {
		return it.bytesCompare(it.bytesOfAny(a[0]), it.bytesOfAny(a[1]))
	})
	R("strings.Compare", func(it *Interp, _ *ssa.Function, a []Value) Value {
		return it.bytesCompare(it.bytesOfAny(a[0]), it.bytesOfAny(a[1]))
	})
	R("bytes.Equal", func(it *Interp, _ *ssa.Function, a []Value) Value {
		if _, ok := a[0].(*Blob); ok {
			it.abort("bytes.Equal on codec blob")
		}
		return it.eqTerm(it.mkStr(it.bytesOfAny(a[0])), it.mkStr(it.bytesOfAny(a[1])))
	})
	R("internal/bytealg.IndexByteString", func(it *Interp, _ *ssa.Function, a []Value) Value {
		s := concStr(it, a[0], "IndexByteString")
		b := a[1].(*smt.Term)
		if !b.IsConst() {
			it.abort("IndexByteString with symbolic byte")
		}
		return it.C.BVI(int64(strings.IndexByte(s, byte(b.Uint64()))), 64)
	})
	R("internal/bytealg.IndexByte", func(it *Interp, _ *ssa.Function, a []Value) Value {
		bs := it.bytesOfAny(a[0])
		b := a[1].(*smt.Term)
		for i, x := range bs {
			if it.Branch(it.C.Eq(x, b)) {
				return it.C.BVI(int64(i), 64)
			}
		}
		return it.C.BVI(-1, 64)
	})
	R("internal/bytealg.CountString", func(it *Interp, _ *ssa.Function, a []Value) Value {
		s := concStr(it, a[0], "CountString")
		b := a[1].(*smt.Term)
		return it.C.BVI(int64(strings.Count(s, string([]byte{byte(b.Uint64())}))), 64)
	})
	R("internal/bytealg.IndexString", func(it *Interp, _ *ssa.Function, a []Value) Value {
		return it.C.BVI(int64(strings.Index(concStr(it, a[0], "Index"), concStr(it, a[1], "Index"))), 64)
	})
	R("strings.Index", func(it *Interp, _ *ssa.Function, a []Value) Value {
		return it.C.BVI(int64(strings.Index(concStr(it, a[0], "Index"), concStr(it, a[1], "Index"))), 64)
	})
	R("strings.Split", func(it *Interp, _ *ssa.Function, a []Value) Value {
		return it.strSliceValue(strings.Split(concStr(it, a[0], "Split"), concStr(it, a[1], "Split")))
	})
	R("strings.ToLower", func(it *Interp, _ *ssa.Function, a []Value) Value {
		return StrV{S: strings.ToLower(concStr(it, a[0], "ToLower"))}
	})
	R("strings.ToUpper", func(it *Interp, _ *ssa.Function, a []Value) Value {
		return StrV{S: strings.ToUpper(concStr(it, a[0], "ToUpper"))}
	})
	R("strings.TrimSpace", func(it *Interp, _ *ssa.Function, a []Value) Value {
		sv, ok := a[0].(StrV)
		if !ok || sv.Concrete() {
			return StrV{S: strings.TrimSpace(concStr(it, a[0], "TrimSpace"))}
		}
		// symbolic bytes, concrete length: strip ASCII white space from both ends by forking per byte. A byte
		// >= 0x80 at an edge would need the Unicode tables (U+0085, U+00A0 ...): not modelled, aborts (INCONCLUSIVE).
		c := it.C
		b := it.strBytes(sv)
		isSpace := func(t *smt.Term) *smt.Term {
			return c.Or(c.Eq(t, c.BVU(32, 8)), c.And(c.BVUle(c.BVU(9, 8), t), c.BVUle(t, c.BVU(13, 8))))
		}
		edge := func(t *smt.Term) bool { // true: t is white space (strip it); false: stop here
			if it.Branch(isSpace(t)) {
				return true
			}
			if it.Branch(c.BVUle(c.BVU(0x80, 8), t)) {
				it.abort("strings.TrimSpace: non-ASCII byte at the edge of a symbolic string is not modelled")
			}
			return false
		}
		lo, hi := 0, len(b)
		for lo < hi && edge(b[lo]) {
			lo++
		}
		for hi > lo && edge(b[hi-1]) {
			hi--
		}
		return it.mkStr(b[lo:hi])
	})
	R("strings.Join", func(it *Interp, _ *ssa.Function, a []Value) Value {
		var parts []string
		for _, e := range sliceElems(a[0].(SliceV)) {
			parts = append(parts, concStr(it, e, "Join"))
		}
		return StrV{S: strings.Join(parts, concStr(it, a[1], "Join"))}
	})
	R("strconv.Itoa", func(it *Interp, _ *ssa.Function, a []Value) Value {
		t := a[0].(*smt.Term)
		if !t.IsConst() {
			return OpaqueV{Why: "strconv.Itoa of symbolic value"}
		}
		return StrV{S: strconv.FormatInt(t.SignedVal().Int64(), 10)}
	})
	R("strconv.FormatUint", func(it *Interp, _ *ssa.Function, a []Value) Value {
		t, b := a[0].(*smt.Term), a[1].(*smt.Term)
		if !t.IsConst() || !b.IsConst() {
			return OpaqueV{Why: "strconv.FormatUint of symbolic value"}
		}
		return StrV{S: strconv.FormatUint(t.Val.Uint64(), int(b.Val.Int64()))}
	})
	R("strconv.FormatInt", func(it *Interp, _ *ssa.Function, a []Value) Value {
		t, b := a[0].(*smt.Term), a[1].(*smt.Term)
		if !t.IsConst() || !b.IsConst() {
			return OpaqueV{Why: "strconv.FormatInt of symbolic value"}
		}
		return StrV{S: strconv.FormatInt(t.SignedVal().Int64(), int(b.Val.Int64()))}
	})
	R("strconv.ParseUint", func(it *Interp, _ *ssa.Function, a []Value) Value {
		s := concStr(it, a[0], "ParseUint")
		v, err := strconv.ParseUint(s, int(a[1].(*smt.Term).Val.Int64()), int(a[2].(*smt.Term).Val.Int64()))
		if err != nil {
			return TupleV{it.C.BVU(0, 64), it.opaqueError("strconv.ParseUint")}
		}
		return TupleV{it.C.BVU(v, 64), IfaceV{}}
	})
	// ---- sync
	for _, n := range []string{"(*sync.Mutex).Lock", "(*sync.Mutex).Unlock", "(*sync.RWMutex).Lock", "(*sync.RWMutex).Unlock",
		"(*sync.RWMutex).RLock", "(*sync.RWMutex).RUnlock"} {
		R(n, nop)
	}
	R("(*sync.Once).Do", func(it *Interp, _ *ssa.Function, a []Value) Value {
		p := a[0].(PtrV)
		key := fmt.Sprintf("%d%v", p.O.ID, p.Path)
		if it.M.onceDone[key] {
			return nil
		}
		it.M.onceDone[key] = true
		it.callValue(a[1].(*FuncV), nil, 0)
		return nil
	})
	R("(*sync.WaitGroup).Add", nop)
	R("(*sync.WaitGroup).Done", nop)
	R("(*sync.WaitGroup).Wait", func(it *Interp, _ *ssa.Function, a []Value) Value {
		it.runPendingGoroutines()
		return nil
	})
	// ---- sync/atomic (sequential semantics)
	for _, ty := range []string{"Int32", "Int64", "Uint32", "Uint64", "Uintptr", "Pointer"} {
		R("sync/atomic.Load"+ty, func(it *Interp, _ *ssa.Function, a []Value) Value { return it.load(a[0].(PtrV)) })
		R("sync/atomic.Store"+ty, func(it *Interp, _ *ssa.Function, a []Value) Value { it.store(a[0].(PtrV), a[1]); return nil })
		R("sync/atomic.Add"+ty, func(it *Interp, _ *ssa.Function, a []Value) Value {
			n := it.C.BVAdd(it.load(a[0].(PtrV)).(*smt.Term), a[1].(*smt.Term))
			it.store(a[0].(PtrV), n)
			return n
		})
		R("sync/atomic.Swap"+ty, func(it *Interp, _ *ssa.Function, a []Value) Value {
			old := it.load(a[0].(PtrV))
			it.store(a[0].(PtrV), a[1])
			return old
		})
		R("sync/atomic.CompareAndSwap"+ty, func(it *Interp, _ *ssa.Function, a []Value) Value {
			cur := it.load(a[0].(PtrV))
			if it.Branch(it.eqTerm(cur, a[1])) {
				it.store(a[0].(PtrV), a[2])
				return it.C.True
			}
			return it.C.False
		})
	}
	// ---- sort (stable insertion sort calling the real comparator)
	R("sort.Slice", func(it *Interp, _ *ssa.Function, a []Value) Value {
		it.sortSlice(a[0], a[1].(*FuncV))
		return nil
	})
	R("sort.SliceStable", func(it *Interp, _ *ssa.Function, a []Value) Value {
		it.sortSlice(a[0], a[1].(*FuncV))
		return nil
	})
	R("sort.Strings", func(it *Interp, _ *ssa.Function, a []Value) Value {
		s := a[0].(SliceV)
		el := sliceElems(s)
		ss := make([]string, len(el))
		for i, e := range el {
			ss[i] = concStr(it, e, "sort.Strings")
		}
		sort.Strings(ss)
		for i := range el {
			el[i] = StrV{S: ss[i]}
		}
		return nil
	})
	// ---- errors
	R("errors.Is", func(it *Interp, _ *ssa.Function, a []Value) Value {
		return it.C.BoolConst(it.errorsIs(a[0].(IfaceV), a[1].(IfaceV)))
	})
	R("errors.As", func(it *Interp, _ *ssa.Function, a []Value) Value {
		it.abort("errors.As is not modelled")
		return nil
	})
	// ---- time
	R("time.Now", func(it *Interp, _ *ssa.Function, a []Value) Value {
		it.nondetSource("time.Now")
		return nil
	})
	R("runtime.KeepAlive", nop)
	R("internal/race.Enabled", nop)
}

// bytesCompare returns the BV64 term for bytes.Compare(a,b).
func (it *Interp) bytesCompare(a, b []*smt.Term) Value {
	c := it.C
	lt := it.bytesLess(a, b)
	eq := it.eqTerm(it.mkStr(a), it.mkStr(b))
	return c.Ite(lt, c.BVI(-1, 64), c.Ite(eq, c.BVI(0, 64), c.BVI(1, 64)))
}

// sortSlice: stable insertion sort of the slice using less(i,j) on indices.
// sort.Slice is not stable in Go; its result for ties depends on pdqsort internals. For n <= 12 the
// real implementation is insertion sort (stable), which is what is reproduced here; longer slices abort.
func (it *Interp) sortSlice(sv Value, less *FuncV) {
	iv, ok := sv.(IfaceV)
	if !ok {
		it.abort("sort.Slice on %T", sv)
	}
	s := iv.V.(SliceV)
	n := s.Len
	if n > 12 {
		it.abort("sort.Slice on %d > 12 elements (pdqsort path not modelled)", n)
	}
	el := sliceElems(s)
	for i := 1; i < n; i++ {
		for j := i; j > 0; j-- {
			r := it.callValue(less, []Value{it.C.BVI(int64(j), 64), it.C.BVI(int64(j-1), 64)}, 0).(*smt.Term)
			if !it.Branch(r) {
				break
			}
			el[j], el[j-1] = el[j-1], el[j]
		}
	}
}

// errorsIs walks the Unwrap chain comparing by identity and calling Is methods.
func (it *Interp) errorsIs(err, target IfaceV) bool {
	if err.T == nil || target.T == nil {
		return err.T == nil && target.T == nil
	}
	for depth := 0; depth < 32; depth++ {
		if types.Identical(err.T, target.T) {
			if it.comparableValue(err.V) {
				if it.Branch(it.eqTerm(err.V, target.V)) {
					return true
				}
			}
		}
		if _, isOp := err.V.(OpaqueV); isOp {
			it.abort("errors.Is on opaque error")
		}
		if fn := it.lookupMethodOpt(err.T, "Is"); fn != nil && fn.Signature.Params().Len() == 1 {
			r := it.callFn(fn, []Value{err.V, target}, nil, 0).(*smt.Term)
			if it.Branch(r) {
				return true
			}
		}
		fn := it.lookupMethodOpt(err.T, "Unwrap")
		if fn == nil {
			return false
		}
		if fn.Signature.Results().Len() != 1 || !isErrorType(fn.Signature.Results().At(0).Type()) {
			return false
		}
		next := it.callFn(fn, []Value{err.V}, nil, 0).(IfaceV)
		if next.T == nil {
			return false
		}
		err = next
	}
	it.abort("errors.Is: chain too long")
	return false
}

// lookupMethodOpt returns the exported method name of t or nil when t has no such method
// (ssa.Program.LookupMethod panics in that case).
func (it *Interp) lookupMethodOpt(t types.Type, name string) *ssa.Function {
	sel := it.L.Prog.MethodSets.MethodSet(t).Lookup(nil, name)
	if sel == nil {
		return nil
	}
	return it.L.Prog.MethodValue(sel)
}

func (it *Interp) comparableValue(v Value) bool {
	switch v.(type) {
	case *smt.Term, StrV, PtrV, FloatV:
		return true
	case *StructV:
		return true
	}
	return false
}
