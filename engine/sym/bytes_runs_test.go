package sym

import (
	"testing"

	"symgo/smt"
)

func TestCoalesceBytes(t *testing.T) {
	c := smt.NewCtx()
	it := &Interp{C: c}
	x, y := c.Var("x", smt.BV(64)), c.Var("y", smt.BV(64))
	be := func(v *smt.Term) []*smt.Term {
		var out []*smt.Term
		for i := 7; i >= 0; i-- {
			out = append(out, c.Extract(v, 8*i+7, 8*i))
		}
		return out
	}
	pre := []*smt.Term{c.BVU(0x80, 8), c.BVU(20, 8)}
	a := append(append(append([]*smt.Term{}, pre...), be(x)...), c.BVU('k', 8))
	b := append(append(append([]*smt.Term{}, pre...), be(y)...), c.BVU('k', 8))
	ca, cb := it.coalesceBytes(a, b)
	if len(ca) != 3 || len(cb) != 3 || ca[1] != x || cb[1] != y || ca[0].Sort.W != 16 || ca[2].Sort.W != 8 {
		t.Fatalf("unexpected chunks: %d %d", len(ca), len(cb))
	}
	// a run against constants, and misaligned runs are split at the union of the boundaries
	k := []*smt.Term{c.BVU(1, 8), c.BVU(2, 8), c.BVU(3, 8), c.BVU(4, 8)}
	m := []*smt.Term{c.Extract(x, 15, 8), c.Extract(x, 7, 0), c.Extract(y, 63, 56), c.Extract(y, 55, 48)}
	ck, cm := it.coalesceBytes(k, m)
	if len(ck) != 2 || ck[0].Sort.W != 16 || !ck[0].IsConst() || ck[0].Uint64() != 0x0102 || cm[1].Sort.W != 16 {
		t.Fatalf("const/run chunks wrong: %d", len(ck))
	}
	// little-endian order is not a run
	le := []*smt.Term{c.Extract(x, 7, 0), c.Extract(x, 15, 8)}
	cl, _ := it.coalesceBytes(le, []*smt.Term{c.Extract(y, 7, 0), c.Extract(y, 15, 8)})
	if len(cl) != 2 {
		t.Fatal("little-endian bytes merged")
	}
}
