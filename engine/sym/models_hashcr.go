package sym

import (
	"golang.org/x/tools/go/ssa"

	"symgo/smt"
)

// Opt-in collision-freeness of the uninterpreted hash functions (vsupport.AssumeHashCollisionFree).
//
// models_hash.go only gives functional congruence (equal inputs => equal digests). A harness that has to
// decide "a proof of possession made for member id i / DKG context c is NOT accepted for member id j / context
// c'" needs the converse on the finitely many hash applications of one path:
//
//	inputs differ  =>  digests differ          (collision resistance, idealised as injectivity)
//
// which is added here for every pair of symbolic applications of the same hash seen on the path (the usual
// symbolic-model idealisation; listed as an assumption of the check that turns it on). Applications on fully
// concrete inputs are evaluated natively and are not part of the axiom.

type hashApp struct {
	name string
	bs   []*smt.Term
	h    *smt.Term
}

var hashAppHook func(it *Interp, name string, bs []*smt.Term, h *smt.Term)

func init() {
	hashAppHook = func(it *Interp, name string, bs []*smt.Term, h *smt.Term) {
		if ok, _ := it.M.extra["hash.cr"].(bool); !ok {
			return
		}
		c := it.C
		apps, _ := it.M.extra["hash.cr.apps"].([]hashApp)
		for _, o := range apps {
			if o.name != name || o.h == h {
				continue
			}
			if len(o.bs) != len(bs) {
				it.addPC(c.Ne(o.h, h))
				continue
			}
			same := c.True
			for i := range bs {
				if bs[i] == o.bs[i] {
					continue
				}
				same = c.And(same, c.Eq(bs[i], o.bs[i]))
				if same.IsFalse() {
					break
				}
			}
			it.addPC(c.Or(same, c.Ne(o.h, h)))
		}
		it.M.extra["hash.cr.apps"] = append(apps, hashApp{name, bs, h})
	}
	Register(VS+"AssumeHashCollisionFree", func(it *Interp, _ *ssa.Function, a []Value) Value {
		it.M.extra["hash.cr"] = true
		return nil
	})
}
