package sym

import (
	"fmt"
	"go/types"
	"sort"
	"strings"

	"golang.org/x/tools/go/ssa"
)

// ScanSite is a place in consensus code that needs a determinism argument.
type ScanSite struct {
	Kind string `json:"kind"` // "map-range", "entropy"
	Func string `json:"func"`
	Pos  string `json:"pos"`
	What string `json:"what"`
}

var entropyFuncs = map[string]bool{
	"time.Now": true, "time.Since": true, "time.Until": true,
	"math/rand.Int": true, "math/rand.Intn": true, "math/rand.Read": true, "math/rand.Seed": true,
	"crypto/rand.Read": true, "os.Getenv": true, "os.ReadFile": true, "os.Hostname": true,
	"runtime.NumCPU": true, "runtime.NumGoroutine": true,
}

// ScanDeterminism lists, for the given packages, every `range` over a map, every `go` statement, every select
// and every call of a wall-clock / randomness / environment source (closed over in-module callees).
func (L *Loaded) ScanDeterminism(pkgPaths []string) []ScanSite {
	var out []ScanSite
	seen := map[*ssa.Function]bool{}
	var visitFn func(fn *ssa.Function)
	visitFn = func(fn *ssa.Function) {
		if fn == nil || seen[fn] {
			return
		}
		seen[fn] = true
		L.ensureBuilt(fn)
		if fn.Blocks == nil {
			return
		}
		name := fn.String()
		if strings.Contains(name, "Verif") || strings.Contains(name, "verif") {
			return
		}
		if fp := L.Fset.Position(fn.Pos()).Filename; strings.Contains(fp, "/zz_verif") || strings.Contains(fp, "/vsupport/") {
			return // harness overlay files are not code under test
		}
		if fp := L.Fset.Position(fn.Pos()).Filename; strings.Contains(fp, "/client/") || strings.Contains(fp, "/testutil/") || strings.HasSuffix(fp, "_test.go") || strings.Contains(fp, "snapshotter") {
			return // CLI, test helpers and the snapshot extension are not part of block execution
		}
		for _, b := range fn.Blocks {
			for _, ins := range b.Instrs {
				pos := L.Fset.Position(ins.Pos())
				ps := fmt.Sprintf("%s:%d", strings.TrimPrefix(pos.Filename, L.RepoDir+"/"), pos.Line)
				switch x := ins.(type) {
				case *ssa.Range:
					if _, ok := x.X.Type().Underlying().(*types.Map); ok {
						out = append(out, ScanSite{"map-range", name, ps, x.X.Type().String()})
					}
				case *ssa.Go:
					out = append(out, ScanSite{"entropy", name, ps, "go statement"})
				case *ssa.Select:
					out = append(out, ScanSite{"entropy", name, ps, "select"})
				case ssa.CallInstruction:
					cc := x.Common()
					if callee := cc.StaticCallee(); callee != nil {
						cn := callee.String()
						if entropyFuncs[cn] {
							out = append(out, ScanSite{"entropy", name, ps, cn})
						}
						if p := callee.Package(); p != nil && strings.HasPrefix(p.Pkg.Path(), ModPath) {
							visitFn(callee)
						}
					}
				}
				// closures
				if mc, ok := ins.(*ssa.MakeClosure); ok {
					if f, ok := mc.Fn.(*ssa.Function); ok {
						visitFn(f)
					}
				}
			}
		}
	}
	for _, pp := range pkgPaths {
		p := L.Package(ModPath + "/" + pp)
		if p == nil {
			continue
		}
		L.buildPackage(p)
		var fns []*ssa.Function
		for _, m := range p.Members {
			switch x := m.(type) {
			case *ssa.Function:
				fns = append(fns, x)
			case *ssa.Type:
				for _, t := range []types.Type{x.Type(), types.NewPointer(x.Type())} {
					ms := L.Prog.MethodSets.MethodSet(t)
					for i := 0; i < ms.Len(); i++ {
						if f := L.Prog.MethodValue(ms.At(i)); f != nil && f.Pkg == p {
							fns = append(fns, f)
						}
					}
				}
			}
		}
		sort.Slice(fns, func(i, j int) bool { return fns[i].String() < fns[j].String() })
		for _, f := range fns {
			pos := L.Fset.Position(f.Pos())
			if strings.HasSuffix(pos.Filename, ".pb.go") || strings.HasSuffix(pos.Filename, ".pb.gw.go") || strings.HasSuffix(pos.Filename, "_test.go") {
				continue
			}
			if strings.Contains(pos.Filename, "/client/") || strings.Contains(pos.Filename, "grpc_query") || strings.Contains(pos.Filename, "/testutil/") {
				continue
			}
			visitFn(f)
		}
	}
	sort.Slice(out, func(i, j int) bool {
		if out[i].Pos != out[j].Pos {
			return out[i].Pos < out[j].Pos
		}
		return out[i].What < out[j].What
	})
	// dedupe
	var ded []ScanSite
	for i, s := range out {
		if i > 0 && out[i-1] == s {
			continue
		}
		ded = append(ded, s)
	}
	return ded
}
