package sym

import (
	"math"

	"golang.org/x/tools/go/ssa"

	"symgo/smt"
)

// Symbolic wall clock for daemon-side harnesses (grogu, yoda).
//
// Chain-side code must never read the wall clock: reaching time.Now there stays a "no-hidden-entropy"
// violation. A daemon harness opts in with vsupport.AllowClock(); from then on
//
//	time.Now()    returns a fresh symbolic instant (labels "clock_sec", "clock_nsec") that is not before the
//	              previous instant handed out and not before the wake-up time of the last time.Sleep;
//	time.Sleep(d) moves that lower bound to <last instant> + d (d concrete; d <= 0 is a no-op);
//	time.Since(t) is the exact saturating difference (what Now().Sub(t) computes for instants without monotonic
//	              reading) between a fresh instant and t, computed branch-free; running the
//	              real (Time).Sub/(Time).Add on two symbolic instants forks on every nanosecond carry.
//
// The instants have whole seconds in [0, 2^40) and nanoseconds in [0, 1e9). vsupport.Now() is the same source
// for the harness itself, vsupport.LastNow() returns the last instant handed out (so that an oracle can refer to
// the `now` a daemon step has read).
const (
	clockAllowKey = "clock.allow"
	clockLBKey    = "clock.lb"   // [2]*smt.Term lower bound (sec, nsec) of the next instant
	clockLastKey  = "clock.last" // [2]*smt.Term last instant handed out
	unixToInternal = int64(62135596800)
)

func (it *Interp) clockTime(sec, nsec *smt.Term) Value {
	c := it.C
	tt := it.namedType("time", "Time")
	sv := it.zero(tt).(*StructV)
	sv.F[fieldIndex(tt, "wall")] = nsec
	sv.F[fieldIndex(tt, "ext")] = c.BVAdd(sec, c.BVI(unixToInternal, 64))
	tp := it.L.Package("time")
	if g, ok := tp.Members["Local"].(*ssa.Global); ok {
		sv.F[fieldIndex(tt, "loc")] = it.load(PtrV{O: it.globalObj(g)})
	}
	return sv
}

// Step clock (vsupport.ClockSteps(stall)): a bounded exploration of the clock for retry/timeout loops. The first
// reading is an arbitrary whole second `base`; every later reading is base + a CONCRETE number of seconds: the
// wake-up time of the last Sleep (or the previous reading), plus either nothing or a stall of `stall` seconds
// (label "clock_stall", chosen by forking). Elapsed times are then constants and no multiplier enters the path
// condition; what is explored is "time passes only by sleeping" and "a long stall happens here", at every reading.
const clockStepsKey = "clock.steps"

type stepClock struct {
	stall int
	base  *smt.Term
	off   int64 // seconds of the last reading after base
	lb    int64 // earliest next reading
	offs  map[*smt.Term]int64
}

func (it *Interp) stepClockNow(sc *stepClock) Value {
	c := it.C
	if sc.base == nil {
		sc.base = it.nondet("clock_sec", "i64", smt.BV(64))
		it.Assume(c.And(c.BVSle(c.BVI(0, 64), sc.base), c.BVSlt(sc.base, c.BVI(1<<40, 64))))
	} else {
		if sc.lb > sc.off {
			sc.off = sc.lb
		}
		if sc.stall > 0 && it.Branch(it.nondet("clock_stall", "bool", smt.Bool)) {
			sc.off += int64(sc.stall)
		}
	}
	sec := c.BVAdd(sc.base, c.BVI(sc.off, 64))
	v := it.clockTime(sec, c.BVI(0, 64)).(*StructV)
	tt := it.namedType("time", "Time")
	sc.offs[v.F[fieldIndex(tt, "ext")].(*smt.Term)] = sc.off
	it.M.extra[clockLastKey] = [2]*smt.Term{sec, c.BVI(0, 64)}
	return v
}

func (it *Interp) clockNow() Value {
	c := it.C
	if sc, ok := it.M.extra[clockStepsKey].(*stepClock); ok {
		return it.stepClockNow(sc)
	}
	sec := it.nondet("clock_sec", "i64", smt.BV(64))
	nsec := it.nondet("clock_nsec", "i64", smt.BV(64))
	cond := c.And(c.And(c.BVSle(c.BVI(0, 64), sec), c.BVSlt(sec, c.BVI(1<<40, 64))),
		c.And(c.BVSle(c.BVI(0, 64), nsec), c.BVSlt(nsec, c.BVI(1000000000, 64))))
	if lb, ok := it.M.extra[clockLBKey].([2]*smt.Term); ok {
		cond = c.And(cond, c.Or(c.BVSlt(lb[0], sec), c.And(c.Eq(lb[0], sec), c.BVSle(lb[1], nsec))))
	}
	it.Assume(cond)
	it.M.extra[clockLBKey] = [2]*smt.Term{sec, nsec}
	it.M.extra[clockLastKey] = [2]*smt.Term{sec, nsec}
	return it.clockTime(sec, nsec)
}

func (it *Interp) clockSleep(d *smt.Term) {
	c := it.C
	if sc, ok := it.M.extra[clockStepsKey].(*stepClock); ok {
		if !d.IsConst() {
			it.abort("time.Sleep with a symbolic duration is not modelled")
		}
		if n := d.SignedVal().Int64(); n > 0 {
			sc.lb = sc.off + (n+999999999)/1000000000
		}
		return
	}
	lb, ok := it.M.extra[clockLBKey].([2]*smt.Term)
	if !ok {
		return // nothing handed out yet: the first instant is arbitrary anyway
	}
	if !d.IsConst() {
		it.abort("time.Sleep with a symbolic duration is not modelled")
	}
	n := d.SignedVal().Int64()
	if n <= 0 {
		return
	}
	ds, dn := n/1000000000, n%1000000000
	ns := c.BVAdd(lb[1], c.BVI(dn, 64))
	carry := c.BVSle(c.BVI(1000000000, 64), ns)
	ns = c.Ite(carry, c.BVSub(ns, c.BVI(1000000000, 64)), ns)
	s := c.BVAdd(c.BVAdd(lb[0], c.BVI(ds, 64)), c.Ite(carry, c.BVI(1, 64), c.BVI(0, 64)))
	it.M.extra[clockLBKey] = [2]*smt.Term{s, ns}
}

// clockSince: t is a time.Time without monotonic reading (wall = nanoseconds, ext = seconds since year 1).
func (it *Interp) clockSince(t *StructV) Value {
	c := it.C
	tt := it.namedType("time", "Time")
	now := it.clockNow().(*StructV)
	wi, ei := fieldIndex(tt, "wall"), fieldIndex(tt, "ext")
	if sc, ok := it.M.extra[clockStepsKey].(*stepClock); ok {
		if off, ok := sc.offs[t.F[ei].(*smt.Term)]; ok {
			return c.BVI((sc.off-off)*1000000000, 64)
		}
	}
	nsec := func(v *StructV) *smt.Term { return c.Zext(c.Extract(v.F[wi].(*smt.Term), 29, 0), 64) }
	sec := func(v *StructV) *smt.Term { return v.F[ei].(*smt.Term) }
	// ds*1e9 + dn, saturated at +-(2^63-1) exactly like (Time).Sub; ds and dn are exact in 64 bits (|ext| < 2^62)
	ds, dn := c.BVSub(sec(now), sec(t)), c.BVSub(nsec(now), nsec(t))
	k := func(v int64) *smt.Term { return c.BVI(v, 64) }
	const maxS, maxN = int64(9223372036), int64(854775807)
	over := c.Or(c.BVSlt(k(maxS), ds), c.And(c.Eq(ds, k(maxS)), c.BVSlt(k(maxN), dn)))
	under := c.Or(c.BVSlt(ds, k(-maxS)), c.And(c.Eq(ds, k(-maxS)), c.BVSlt(dn, k(-maxN-1))))
	d := c.BVAdd(c.BVMul(ds, k(1000000000)), dn)
	return c.Ite(over, k(math.MaxInt64), c.Ite(under, k(math.MinInt64), d))
}

func init() {
	R := Register
	R("time.Since", func(it *Interp, fn *ssa.Function, a []Value) Value {
		if ok, _ := it.M.extra[clockAllowKey].(bool); !ok {
			it.nondetSource("time.Since")
			return nil
		}
		return it.clockSince(a[0].(*StructV))
	})
	R(VS+"ClockSteps", func(it *Interp, _ *ssa.Function, a []Value) Value {
		it.M.extra[clockStepsKey] = &stepClock{stall: it.concreteInt(a[0].(*smt.Term), "ClockSteps stall seconds"), offs: map[*smt.Term]int64{}}
		return nil
	})
	R(VS+"AllowClock", func(it *Interp, _ *ssa.Function, a []Value) Value {
		it.M.extra[clockAllowKey] = true
		return nil
	})
	R(VS+"Now", func(it *Interp, _ *ssa.Function, a []Value) Value { return it.clockNow() })
	R(VS+"LastNow", func(it *Interp, _ *ssa.Function, a []Value) Value {
		last, ok := it.M.extra[clockLastKey].([2]*smt.Term)
		if !ok {
			it.abort("vsupport.LastNow before any clock reading")
		}
		return it.clockTime(last[0], last[1])
	})
	R(VS+"Sleep", func(it *Interp, _ *ssa.Function, a []Value) Value {
		it.clockSleep(a[0].(*smt.Term))
		return nil
	})
	// overrides the registration in models.go (this file is initialised later)
	R("time.Now", func(it *Interp, _ *ssa.Function, a []Value) Value {
		if ok, _ := it.M.extra[clockAllowKey].(bool); !ok {
			it.nondetSource("time.Now")
			return nil
		}
		return it.clockNow()
	})
	R("time.Sleep", func(it *Interp, _ *ssa.Function, a []Value) Value {
		if ok, _ := it.M.extra[clockAllowKey].(bool); !ok {
			return nil // sleeping yields no value: without the symbolic clock it is a no-op (daemon retry loops)
		}
		it.clockSleep(a[0].(*smt.Term))
		return nil
	})
}
