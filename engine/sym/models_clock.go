package sym

import (
	"golang.org/x/tools/go/ssa"

	"symgo/smt"
)

// Symbolic wall clock for daemon-side harnesses (grogu, yoda).
//
// Chain-side code must never read the wall clock: reaching time.Now there stays a "no-hidden-entropy"
// violation. A daemon harness opts in with vsupport.AllowClock(); from then on
//
//	time.Now()    returns a fresh symbolic instant (labels "clock_sec", "clock_nsec") that is not before the
//	              previous instant handed out and not before the wake-up time of the last time.Sleep;
//	time.Sleep(d) moves that lower bound to <last instant> + d (d concrete; d <= 0 is a no-op);
//	time.Since    runs its real source on top of time.Now (the instants carry no monotonic reading).
//
// The instants have whole seconds in [0, 2^40) and nanoseconds in [0, 1e9). vsupport.Now() is the same source
// for the harness itself, vsupport.LastNow() returns the last instant handed out (so that an oracle can refer to
// the `now` a daemon step has read).
const (
	clockAllowKey = "clock.allow"
	clockLBKey    = "clock.lb"   // [2]*smt.Term lower bound (sec, nsec) of the next instant
	clockLastKey  = "clock.last" // [2]*smt.Term last instant handed out
	unixToInternal = int64(62135596800)
)

func (it *Interp) clockTime(sec, nsec *smt.Term) Value {
	c := it.C
	tt := it.namedType("time", "Time")
	sv := it.zero(tt).(*StructV)
	sv.F[fieldIndex(tt, "wall")] = nsec
	sv.F[fieldIndex(tt, "ext")] = c.BVAdd(sec, c.BVI(unixToInternal, 64))
	tp := it.L.Package("time")
	if g, ok := tp.Members["Local"].(*ssa.Global); ok {
		sv.F[fieldIndex(tt, "loc")] = it.load(PtrV{O: it.globalObj(g)})
	}
	return sv
}

func (it *Interp) clockNow() Value {
	c := it.C
	sec := it.nondet("clock_sec", "i64", smt.BV(64))
	nsec := it.nondet("clock_nsec", "i64", smt.BV(64))
	cond := c.And(c.And(c.BVSle(c.BVI(0, 64), sec), c.BVSlt(sec, c.BVI(1<<40, 64))),
		c.And(c.BVSle(c.BVI(0, 64), nsec), c.BVSlt(nsec, c.BVI(1000000000, 64))))
	if lb, ok := it.M.extra[clockLBKey].([2]*smt.Term); ok {
		cond = c.And(cond, c.Or(c.BVSlt(lb[0], sec), c.And(c.Eq(lb[0], sec), c.BVSle(lb[1], nsec))))
	}
	it.Assume(cond)
	it.M.extra[clockLBKey] = [2]*smt.Term{sec, nsec}
	it.M.extra[clockLastKey] = [2]*smt.Term{sec, nsec}
	return it.clockTime(sec, nsec)
}

func (it *Interp) clockSleep(d *smt.Term) {
	c := it.C
	lb, ok := it.M.extra[clockLBKey].([2]*smt.Term)
	if !ok {
		return // nothing handed out yet: the first instant is arbitrary anyway
	}
	if !d.IsConst() {
		it.abort("time.Sleep with a symbolic duration is not modelled")
	}
	n := d.SignedVal().Int64()
	if n <= 0 {
		return
	}
	ds, dn := n/1000000000, n%1000000000
	ns := c.BVAdd(lb[1], c.BVI(dn, 64))
	carry := c.BVSle(c.BVI(1000000000, 64), ns)
	ns = c.Ite(carry, c.BVSub(ns, c.BVI(1000000000, 64)), ns)
	s := c.BVAdd(c.BVAdd(lb[0], c.BVI(ds, 64)), c.Ite(carry, c.BVI(1, 64), c.BVI(0, 64)))
	it.M.extra[clockLBKey] = [2]*smt.Term{s, ns}
}

func init() {
	R := Register
	R(VS+"AllowClock", func(it *Interp, _ *ssa.Function, a []Value) Value {
		it.M.extra[clockAllowKey] = true
		return nil
	})
	R(VS+"Now", func(it *Interp, _ *ssa.Function, a []Value) Value { return it.clockNow() })
	R(VS+"LastNow", func(it *Interp, _ *ssa.Function, a []Value) Value {
		last, ok := it.M.extra[clockLastKey].([2]*smt.Term)
		if !ok {
			it.abort("vsupport.LastNow before any clock reading")
		}
		return it.clockTime(last[0], last[1])
	})
	R(VS+"Sleep", func(it *Interp, _ *ssa.Function, a []Value) Value {
		it.clockSleep(a[0].(*smt.Term))
		return nil
	})
	// overrides the registration in models.go (this file is initialised later)
	R("time.Now", func(it *Interp, _ *ssa.Function, a []Value) Value {
		if ok, _ := it.M.extra[clockAllowKey].(bool); !ok {
			it.nondetSource("time.Now")
			return nil
		}
		return it.clockNow()
	})
	R("time.Sleep", func(it *Interp, _ *ssa.Function, a []Value) Value {
		if ok, _ := it.M.extra[clockAllowKey].(bool); !ok {
			it.nondetSource("time.Sleep")
			return nil
		}
		it.clockSleep(a[0].(*smt.Term))
		return nil
	})
}
