package sym

// C12 seam: client/grpc/oracle/proof.recoverETHAddress (go-ethereum crypto.SigToPub = cgo libsecp256k1, plus the
// CometBFT / Ethereum address derivations) is replaced by the harness function verifRecoverETHAddress of the same
// package (harness/client/grpc/oracle/proof/zz_verif_c12_votes.go), which records (msg, sig, signer) and returns a
// planned (address, v, error). The native replay build gets the same redirection from recover.npatch.
func init() {
	Redirect(ModPath+"/client/grpc/oracle/proof.recoverETHAddress", "client/grpc/oracle/proof", "verifRecoverETHAddress")
}
