package sym

import (
	"go/types"

	"golang.org/x/tools/go/ssa"

	"symgo/smt"
)

// HKDF / AES-CTR / crypto/rand models used by pkg/tss (DKG share encryption, nonces).
//   hkdf.New(h, secret, salt, info)      -> reader whose output is an uninterpreted function of the secret
//   aes.NewCipher(key), cipher.NewCTR    -> stream whose key stream is an uninterpreted function of (key, iv)
//   XORKeyStream(dst, src)               -> dst[i] = src[i] xor ks[i]   (so decrypt(encrypt(v)) == v by xor-cancellation)
//   crypto/rand.Read                     -> fresh symbolic bytes (only when the harness allowed randomness)

type hkdfV struct{ secret []*smt.Term }
type aesV struct{ key []*smt.Term }
type ctrV struct {
	key, iv []*smt.Term
	pos     int
}

var (
	tyHKDF = synthType("HKDFReader")
	tyAES  = synthType("AESBlock")
	tyCTR  = synthType("CTRStream")
)

func (it *Interp) ufBytes(name string, n int, args ...[]*smt.Term) []*smt.Term {
	c := it.C
	var flat []*smt.Term
	for _, a := range args {
		flat = append(flat, a...)
	}
	// reuse the structured-argument machinery of the hash model, one 32-byte block at a time
	var out []*smt.Term
	for blk := 0; len(out) < n; blk++ {
		in := append(append([]*smt.Term{}, flat...), c.BVU(uint64(blk), 8))
		out = append(out, it.hash256(name, func(b []byte) []byte { return nil }, in)...)
	}
	return out[:n]
}

func init() {
	R := Register
	R("golang.org/x/crypto/hkdf.New", func(it *Interp, _ *ssa.Function, a []Value) Value {
		return IfaceV{T: tyHKDF, V: &hkdfV{secret: it.bytesOfAny(a[1])}}
	})
	R("crypto/aes.NewCipher", func(it *Interp, _ *ssa.Function, a []Value) Value {
		key := it.bytesOfAny(a[0])
		if len(key) != 16 && len(key) != 24 && len(key) != 32 {
			return TupleV{IfaceV{}, it.opaqueError("aes: invalid key size")}
		}
		return TupleV{IfaceV{T: tyAES, V: &aesV{key: key}}, IfaceV{}}
	})
	R("crypto/cipher.NewCTR", func(it *Interp, _ *ssa.Function, a []Value) Value {
		blk, ok := a[0].(IfaceV).V.(*aesV)
		if !ok {
			it.abort("cipher.NewCTR on a non-model block")
		}
		iv := it.bytesOfAny(a[1])
		if len(iv) != 16 {
			it.goPanicStr("explicit", "cipher.NewCTR: IV length must equal block size")
		}
		return IfaceV{T: tyCTR, V: &ctrV{key: blk.key, iv: iv}}
	})
	invokeHooks = append(invokeHooks, func(it *Interp, iv IfaceV, m *types.Func, a []Value) (Value, bool) {
		switch x := iv.V.(type) {
		case *hkdfV:
			if m.Name() != "Read" {
				it.abort("hkdf reader method %s not modelled", m.Name())
			}
			buf := a[0].(SliceV)
			if allConst(x.secret) {
				it.abort("hkdf of a concrete secret is not modelled")
			}
			ks := it.ufBytes("hkdf", buf.Len, x.secret)
			it.touch(buf.O)
			arr := buf.O.V.(*ArrayV).E
			for i := 0; i < buf.Len; i++ {
				arr[buf.Off+i] = ks[i]
			}
			return TupleV{it.C.BVI(int64(buf.Len), 64), IfaceV{}}, true
		case *ctrV:
			if m.Name() != "XORKeyStream" {
				it.abort("ctr stream method %s not modelled", m.Name())
			}
			dst, src := a[0].(SliceV), it.bytesOfAny(a[1])
			if dst.Len < len(src) {
				it.goPanicStr("explicit", "crypto/cipher: output smaller than input")
			}
			if x.pos != 0 {
				it.abort("ctr stream used for more than one message")
			}
			x.pos = len(src)
			ks := it.ufBytes("aesctr", len(src), x.key, x.iv)
			it.touch(dst.O)
			arr := dst.O.V.(*ArrayV).E
			for i := range src {
				arr[dst.Off+i] = it.C.BVXor(src[i], ks[i])
			}
			return nil, true
		case *aesV:
			it.abort("aes block method %s not modelled", m.Name())
		}
		return nil, false
	})
	R("crypto/rand.Read", func(it *Interp, _ *ssa.Function, a []Value) Value {
		if ok, _ := it.M.extra["allow.random"].(bool); !ok {
			it.nondetSource("crypto/rand.Read")
		}
		buf := a[0].(SliceV)
		it.touch(buf.O)
		arr := buf.O.V.(*ArrayV).E
		for i := 0; i < buf.Len; i++ {
			arr[buf.Off+i] = it.nondet("rand", "u8", smt.BV(8))
		}
		return TupleV{it.C.BVI(int64(buf.Len), 64), IfaceV{}}
	})
	// pkg/tss.RandomScalar (retry loop around crypto/rand): an arbitrary valid scalar
	R(ModPath+"/pkg/tss.RandomScalar", func(it *Interp, _ *ssa.Function, a []Value) Value {
		if ok, _ := it.M.extra["allow.random"].(bool); !ok {
			it.nondetSource("tss.RandomScalar (crypto/rand)")
		}
		t := it.nondet("rand_scalar", "int", smt.Int)
		c := it.C
		it.Assume(c.And(c.Le(c.IntI(1), t), c.Lt(t, it.secpN())))
		it.markReduced(t)
		return TupleV{it.mkByteSlice(it.intToBytes(t, 32)), IfaceV{}}
	})
	R(VS+"AllowRandom", func(it *Interp, _ *ssa.Function, a []Value) Value {
		it.M.extra["allow.random"] = true
		return nil
	})
	R(VS+"AssumeHashScalars", func(it *Interp, _ *ssa.Function, a []Value) Value {
		it.M.extra["hash.scalars"] = true
		return nil
	})
}
