package sym

import (
	"fmt"
	"go/token"
	"os"
	"path/filepath"
	"strings"
	"sync"

	"golang.org/x/tools/go/packages"
	"golang.org/x/tools/go/ssa"
	"golang.org/x/tools/go/ssa/ssautil"
)

const ModPath = "github.com/bandprotocol/chain/v3"

// Loaded is the SSA program of /repo plus the overlaid harness files. Shared (read-only) by workers.
type Loaded struct {
	Prog         *ssa.Program
	Fset         *token.FileSet
	Pkgs         []*packages.Package
	byPath       map[string]*ssa.Package
	intrCache    map[*ssa.Function]*Intrinsic
	intrMu       sync.RWMutex
	OpenFindings map[string]bool
	RepoDir      string
	Overlay      map[string][]byte
	buildMu      sync.Mutex
	builtPkgs    sync.Map
}

// BuildOverlay maps every file under harnessDir to the same relative path under repoDir.
func BuildOverlay(harnessDir, repoDir string) (map[string][]byte, error) {
	ov := map[string][]byte{}
	err := filepath.Walk(harnessDir, func(p string, info os.FileInfo, err error) error {
		if err != nil {
			return err
		}
		if info.IsDir() || !strings.HasSuffix(p, ".go") {
			return nil
		}
		rel, _ := filepath.Rel(harnessDir, p)
		b, err := os.ReadFile(p)
		if err != nil {
			return err
		}
		ov[filepath.Join(repoDir, rel)] = b
		return nil
	})
	return ov, err
}

func Load(repoDir, harnessDir string, patterns []string, tags string) (*Loaded, error) {
	ov, err := BuildOverlay(harnessDir, repoDir)
	if err != nil {
		return nil, err
	}
	cfg := &packages.Config{
		Mode:       packages.LoadAllSyntax,
		Dir:        repoDir,
		Overlay:    ov,
		BuildFlags: []string{"-tags=" + tags},
		Env:        append(os.Environ(), "GOFLAGS=-mod=mod", "GOPROXY=off", "GOSUMDB=off", "GOTOOLCHAIN=local", "CGO_ENABLED=1"),
	}
	pkgs, err := packages.Load(cfg, patterns...)
	if err != nil {
		return nil, err
	}
	var errs []string
	packages.Visit(pkgs, nil, func(p *packages.Package) {
		if !strings.HasPrefix(p.PkgPath, ModPath) {
			return
		}
		for _, e := range p.Errors {
			errs = append(errs, e.Error())
		}
	})
	if len(errs) > 0 {
		return nil, fmt.Errorf("load errors:\n%s", strings.Join(errs, "\n"))
	}
	prog, spkgs := ssautil.AllPackages(pkgs, ssa.InstantiateGenerics)
	L := &Loaded{Prog: prog, Fset: prog.Fset, Pkgs: pkgs, byPath: map[string]*ssa.Package{},
		intrCache: map[*ssa.Function]*Intrinsic{}, OpenFindings: map[string]bool{}, RepoDir: repoDir, Overlay: ov}
	for _, sp := range spkgs {
		if sp != nil {
			L.buildPackage(sp)
		}
	}
	for _, sp := range prog.AllPackages() {
		L.byPath[sp.Pkg.Path()] = sp
	}
	return L, nil
}

func (L *Loaded) Package(path string) *ssa.Package { return L.byPath[path] }

// ensureBuilt builds the function's package (once, atomically w.r.t. other workers) before its body is read.
func (L *Loaded) ensureBuilt(fn *ssa.Function) {
	p := fn.Package()
	if p == nil {
		if o := fn.Origin(); o != nil {
			p = o.Package()
		}
	}
	if p == nil {
		return
	}
	L.buildPackage(p)
}

func (L *Loaded) buildPackage(p *ssa.Package) {
	if _, ok := L.builtPkgs.Load(p); ok {
		return
	}
	L.buildMu.Lock()
	if _, ok := L.builtPkgs.Load(p); !ok {
		p.Build()
		L.builtPkgs.Store(p, true)
	}
	L.buildMu.Unlock()
}

var deniedPkgs = []string{"os", "os/exec", "os/signal", "net", "net/http", "syscall", "math/rand", "math/rand/v2", "crypto/rand",
	"reflect", "internal/reflectlite", "unsafe", "runtime", "runtime/debug", "io/ioutil", "plugin", "internal/poll", "internal/syscall/unix"}

func (L *Loaded) denied(fn *ssa.Function) string {
	p := fn.Package()
	if p == nil {
		return ""
	}
	path := p.Pkg.Path()
	for _, d := range deniedPkgs {
		if path == d {
			return "package " + d + " is a nondeterministic/unsupported source"
		}
	}
	return ""
}

// packages whose functions are ignored (events, logging, formatting, telemetry).
var ignoredPkgs = map[string]bool{
	"cosmossdk.io/log":                               true,
	"log":                                            true,
	"github.com/rs/zerolog":                          true,
	"github.com/cosmos/cosmos-sdk/telemetry":         true,
	"github.com/hashicorp/go-metrics":                true,
	"github.com/prometheus/client_golang/prometheus": true,
}

func (it *Interp) skipInit(pkg *ssa.Package) bool {
	path := pkg.Pkg.Path()
	if ignoredPkgs[path] {
		return true
	}
	for _, d := range deniedPkgs {
		if path == d {
			return true
		}
	}
	return skipInitPkgs[path]
}

var skipInitPkgs = map[string]bool{
	"fmt": true, "unicode": true, "regexp": true, "regexp/syntax": true, "sync": true, "sync/atomic": true,
	"encoding/json": true, "google.golang.org/protobuf/reflect/protoregistry": true,
}

func (it *Interp) initLenient(pkg *ssa.Package) bool {
	return !strings.HasPrefix(pkg.Pkg.Path(), ModPath) || strings.HasSuffix(pkg.Pkg.Path(), "/vsupport")
}

// packages whose functions return opaque values when called from a package initialiser
// (codec/amino/interface registries built at init time are never consulted by the models).
var initOpaquePkgs = map[string]bool{
	"github.com/cosmos/cosmos-sdk/codec":               true,
	"github.com/cosmos/cosmos-sdk/codec/types":         true,
	"github.com/cosmos/cosmos-sdk/codec/legacy":        true,
	"github.com/cosmos/cosmos-sdk/crypto/codec":        true,
	"github.com/cosmos/cosmos-sdk/codec/address":       true,
	"github.com/cosmos/cosmos-sdk/types/msgservice":    true,
	"github.com/cosmos/gogoproto/proto":                true,
	"github.com/cosmos/gogoproto/jsonpb":               true,
	"google.golang.org/protobuf/reflect/protoregistry": true,
	"google.golang.org/protobuf/runtime/protoimpl":     true,
	"regexp": true,
}
